#!/usr/bin/env python3
"""tools_recordrecheck.py <summary file ...> : store the CURRENT check's result for seeds (lines `name exit=E key=K nofail=N` as printed
by tools_recheck_seeds.sh) in seeded/<name>/meta.json under "recheck", so that the DESIGN table can show first measurement vs now."""
import json, os, re, sys
for f in sys.argv[1:]:
    for line in open(f):
        m = re.match(r"^(C\d\d[a-z]?-\d+) exit=(\d+) key=(\S*) nofail=(\d+)", line.strip())
        if not m:
            continue
        name, ex, key, nf = m.group(1), int(m.group(2)), m.group(3), int(m.group(4))
        p = f"/verif/seeded/{name}/meta.json"
        if not os.path.exists(p):
            continue
        meta = json.load(open(p))
        meta["recheck"] = {"exit": ex, "key": key, "no_failing_input_found": bool(nf),
                           "by": "tools_recheck_seeds.sh (current quick check, seed 0, scratch worktree of /repo HEAD + patch.diff)"}
        json.dump(meta, open(p, "w"), indent=1)
        print("recorded", name, ex, key)
