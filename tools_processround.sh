#!/bin/bash
# tools_processround.sh <id> <round digit> <letter> : confirm and keep the seeded changes an independent sub-agent left in
# /tmp/seed/out<round>-<id>/{1,2,3} (tools_seed.sh: demo clean = 0, demo patched != 0, suite passes on the patched tree, then the
# current quick check against the patched tree); a change is kept (seeded/<id><letter>-<n>/) only when all three confirmations hold.
id=$1; rnd=$2; let=$3
for n in 1 2 3 4; do
  src=/tmp/seed/out$rnd-$id/$n
  [ -f $src/patch.diff ] && [ -f $src/demo.py ] && [ -f $src/meta.json ] || continue
  name=$id$let-$n
  res=$(cd /verif && ./tools_seed.sh $id $src $name)
  echo "$res"
  if echo "$res" | grep -q "demo_clean=0 " && ! echo "$res" | grep -q "demo_patched=0 " && echo "$res" | grep -q "176 passed" && ! echo "$res" | grep -q "[0-9] failed"; then
    python3 /verif/tools_keepseed.py $id $n $name $src
  else
    echo "NOT-KEPT $name"
  fi
done
