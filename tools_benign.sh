#!/bin/bash
# tools_benign.sh <prop id> <dir (contains patch.diff demo.py meta.json)> <name>
# confirms a HARMLESS rewrite (demo prints the same digest on the clean and the patched tree, test suite passes on
# the patched tree) and runs ./check against the patched tree: the check must stay silent (exit 0, no VIOLATION).
id=$1; src=$2; name=$3
wt=/tmp/wt/benign-$name
mkdir -p /tmp/t /tmp/wt
log=/tmp/t/benign-$name.log
rm -rf $wt; git -C /repo worktree prune; git -C /repo worktree add --detach $wt HEAD -q || exit 2
{
d0=$(cd $wt && PYTHONPATH=$wt/src timeout 300 /venv/bin/python $src/demo.py 2>/dev/null | sha256sum | cut -c1-12); c0=$?
(cd $wt && { git apply $src/patch.diff 2>/dev/null || git apply --3way $src/patch.diff; }) || { echo "PATCH DOES NOT APPLY"; git -C /repo worktree remove --force $wt; exit 3; }
d1=$(cd $wt && PYTHONPATH=$wt/src timeout 300 /venv/bin/python $src/demo.py 2>/dev/null | sha256sum | cut -c1-12)
suite=$(cd $wt && PYTHONPATH=$wt/src timeout 1500 /venv/bin/python -m pytest -q -p no:cacheprovider --timeout=900 tests 2>&1 | grep -E "passed|failed" | tail -1)
(cd /verif && QVERIF_REPO=$wt timeout 3000 ./check $id --tier quick > /tmp/t/benign-$name.check.log 2>&1); ck=$?
nv=$(grep -c "^VIOLATION" /tmp/t/benign-$name.check.log)
first=$(grep "^VIOLATION\|^INFRA" /tmp/t/benign-$name.check.log | head -1)
pf=$(grep "^PREDICATE-FAILURE\|^DISAGREEMENT\|^undischarged" /tmp/t/benign-$name.check.log | head -1 | cut -c1-260)
echo "RESULT $name: digest_clean=$d0 digest_patched=$d1 same=$([ "$d0" = "$d1" ] && echo yes || echo NO) suite='$suite' check_exit=$ck violations=$nv | $first | $pf"
} 2>&1 | tee $log | grep "^RESULT\|PATCH DOES"
git -C /repo worktree remove --force $wt
