#!/bin/bash
# tools_verify.sh <tier> <seeds...> -- <ids...> : run checks, print one line per run
tier=$1; shift
seeds=(); while [ "$1" != "--" ]; do seeds+=("$1"); shift; done; shift
mkdir -p /tmp/t/verify
for id in "$@"; do
  for s in "${seeds[@]}"; do
    ( VERIF_SEED=$s timeout 3000 ./check $id --tier $tier > /tmp/t/verify/$id.$tier.$s.log 2>&1; echo "$id tier=$tier seed=$s exit=$? $(grep -c VIOLATION /tmp/t/verify/$id.$tier.$s.log) viol | $(grep '^\['$id'\]' /tmp/t/verify/$id.$tier.$s.log | cut -c1-220)" ) &
  done
  wait
done
