import QuantemModel.Lemmas.ForwardSpec
/-!
C02 — the ptychography forward pipeline reproduces independently simulated data.

All statements are about the executable model `Model/Forward.lean` (composed from the C16 operator
model `Model/PtychoOps.lean`) instantiated at the real numbers, and about the independent reference
specification `Forward.Spec.*` defined next to it in its own (centred, natural-order) conventions.
Sizes are arbitrary: every ROI `R0 × R1` with `0 < R0, R1` (even, odd, non-square), every object
shape, any number of slices and probe modes.  Only property theorems and non-vacuity examples here.
-/
namespace QuantemModel.Props.C02
open QuantemModel QuantemModel.PtychoOps QuantemModel.Forward

/-! ## 1. convention algebra: index lemmas -/

/-- **fftfreq-ordered offsets ↔ natural order**: FFT position `i` of an axis of length `N` stores the
signed offset of natural (centred) position `(i + ⌊N/2⌋) mod N`; any `N`. -/
theorem fftfreq_natural_order {N i : ℕ} (hi : i < N) :
    Dft.fftfreqInt N i = (((i + N / 2) % N : ℕ) : ℤ) - ((N / 2 : ℕ) : ℤ) := fftfreqInt_eq_ish hi

/-- the inverse reading: natural position `j` (offset `j − ⌊N/2⌋`) sits at FFT position `(j + ⌈N/2⌉) mod N` -/
theorem natural_order_fftfreq {N j : ℕ} (hj : j < N) :
    Dft.fftfreqInt N ((j + (N - N / 2)) % N) = (j : ℤ) - ((N / 2 : ℕ) : ℤ) := fftfreqInt_sh hj

/-- **fftshift ∘ ifftshift = id = ifftshift ∘ fftshift** on rectangular images of every size -/
theorem fftshift_ifftshift {β : Type} [Inhabited β] {nr nc : ℕ} {x : List (List β)} (h : Rect nr nc x) :
    fftshift2 (ifftshift2 x) = x ∧ ifftshift2 (fftshift2 x) = x :=
  ⟨fftshift2_ifftshift2 h, ifftshift2_fftshift2 h⟩

/-- **roll ↔ modular indices / shift by −⌊N/2⌋ then fftshift = identity**: `np.roll(x, (-(nr//2), -(nc//2)))`
is `ifftshift`, so `fftshift` undoes it — for EVERY size, even and odd (this is what the `no_shift`
preprocessing relies on once its centre is `shape // 2`). -/
theorem roll_half_then_fftshift {β : Type} [Inhabited β] {nr nc : ℕ} {x : List (List β)} (h : Rect nr nc x) :
    roll2 x (-((nr / 2 : ℕ) : ℤ)) (-((nc / 2 : ℕ) : ℤ)) = ifftshift2 x
      ∧ fftshift2 (roll2 x (-((nr / 2 : ℕ) : ℤ)) (-((nc / 2 : ℕ) : ℤ))) = x := by
  obtain ⟨g, rfl⟩ := h.exists_build
  rw [roll2_neg_half]
  exact ⟨rfl, fftshift2_ifftshift2 (rect_build _ _ _)⟩

/-- **fftfreq-ordered patch indices ↔ natural-order window**: gathering the (flat, periodic) object at
the flat indices of `_set_patch_indices` is `ifftshift2` of the natural-order window
`obj[(round(p) − ⌊R/2⌋ + i) mod shape]`. -/
theorem patch_indices_window (t : List (Cx ℝ)) (pr pc : ℚ) (R0 R1 H W : ℕ) :
    gatherPatch t (patchIndices2 pr pc R0 R1 H W)
      = ifftshift2 (Spec.window t H W (roundHalfEven pr) (roundHalfEven pc) R0 R1) :=
  gatherPatch_patchIndices t pr pc R0 R1 H W

/-- the library's phase ramp and Fresnel propagators are the specification's centred transfer
functions in FFT order -/
theorem kernels_fft_order (nr nc : ℕ) (sr sc dr dc lam dz : ℝ) :
    Spec.translationKernel nr nc sr sc = fftshift2 (translationOperator nr nc sr sc)
      ∧ Spec.fresnelKernel nr nc dr dc lam dz = fftshift2 (propagator nr nc dr dc lam dz 0 0) :=
  ⟨translationKernel_eq sr sc, fresnelKernel_eq dr dc lam dz⟩

/-- `_compute_propagator_arrays` without tilt is the list of the specification's kernels in FFT order
(for a single slice both are empty) -/
theorem propagators_eq_spec_kernels (nr nc : ℕ) (dr dc e : ℝ) (n : ℕ) (dzs : List ℝ) (h1 : n = 1 → dzs = []) :
    propagatorArrays nr nc dr dc e 0 0 n dzs = (Spec.kernels nr nc dr dc e dzs).map ifftshift2 :=
  propagatorArrays_eq_kernels dr dc e n dzs h1

-- non-vacuity: the index maps on a concrete odd and even axis
example : (List.range 5).map (fun i => Dft.fftfreqInt 5 i) = [0, 1, 2, -2, -1] := by decide
example : (List.range 6).map (fun i => Dft.fftfreqInt 6 i) = [0, 1, 2, -3, -2, -1] := by decide
example : patchIndices2 (5 / 2) (7 / 2) 3 2 4 5 = [[14, 13], [19, 18], [9, 8]] := by decide +kernel

/-! ## 2. forward = specification -/

/-- **forward_eq_spec, one scan position**: for every ROI size (even, odd, non-square), every object
shape and content, any number of slices (induction inside `exitWave_eq_overlap`), any number of
probe modes and every (fractional) scan position, the library pipeline
`patch gather → sub-pixel probe shift → multislice overlap → detector` evaluated at the ground truth
written in library conventions (corner-centred probes `ifftshift2 ψ`, FFT-ordered kernels) predicts
exactly the pattern of the independent specification. -/
theorem pattern_eq_spec {R0 R1 : ℕ} (hr : 0 < R0) (hc : 0 < R1) (H W : ℕ) (t : List (List (Cx ℝ)))
    (probesC kernels : List (Img ℝ)) (hp : ∀ psi ∈ probesC, Rect R0 R1 psi) (hk : ∀ K ∈ kernels, Rect R0 R1 K)
    (p : ℚ × ℚ) :
    forwardPattern t (patchIndices2 p.1 p.2 R0 R1 H W) (probesC.map ifftshift2) (kernels.map ifftshift2)
        (Num.ofRat (fracPos p.1)) (Num.ofRat (fracPos p.2))
      = Spec.pattern H W R0 R1 t probesC kernels p := by
  unfold forwardPattern Spec.pattern
  simp only []
  have hpatch : objPatches t (patchIndices2 p.1 p.2 R0 R1 H W)
      = (t.map fun s => Spec.window s H W (roundHalfEven p.1) (roundHalfEven p.2) R0 R1).map ifftshift2 := by
    unfold objPatches
    rw [List.map_map]
    apply List.map_congr_left
    intro s _
    exact gatherPatch_patchIndices s p.1 p.2 R0 R1 H W
  rw [hpatch]
  generalize hwin : (t.map fun s => Spec.window s H W (roundHalfEven p.1) (roundHalfEven p.2) R0 R1) = windows
  have hw : ∀ w ∈ windows, Rect R0 R1 w := by
    intro w hw
    rw [← hwin] at hw
    obtain ⟨s, _, rfl⟩ := List.mem_map.1 hw
    exact rect_window ..
  -- one probe mode
  have hmode : ∀ psi ∈ probesC,
      Spec.exitWave windows kernels (Spec.translate psi (Num.ofRat (fracPos p.1)) (Num.ofRat (fracPos p.2)))
        = fftshift2 (overlapProjection1 (windows.map ifftshift2) (kernels.map ifftshift2)
            (fourierShift (ifftshift2 psi) (Num.ofRat (fracPos p.1)) (Num.ofRat (fracPos p.2)))).2
      ∧ Rect R0 R1 (overlapProjection1 (windows.map ifftshift2) (kernels.map ifftshift2)
            (fourierShift (ifftshift2 psi) (Num.ofRat (fracPos p.1)) (Num.ofRat (fracPos p.2)))).2 := by
    intro psi hpsi
    obtain ⟨h1, h2⟩ := translate_eq_fourierShift hr hc (hp psi hpsi) (Num.ofRat (fracPos p.1)) (Num.ofRat (fracPos p.2))
    have := exitWave_eq_overlap hr hc windows kernels _ hw hk (rect_fftshift2 h2)
    rw [ifftshift2_fftshift2 h2] at this
    rw [h1]
    exact this
  have hlib : (overlapProjection (windows.map ifftshift2) (kernels.map ifftshift2)
        (probeForward (probesC.map ifftshift2) (Num.ofRat (fracPos p.1)) (Num.ofRat (fracPos p.2)))).2
      = probesC.map fun psi => (overlapProjection1 (windows.map ifftshift2) (kernels.map ifftshift2)
            (fourierShift (ifftshift2 psi) (Num.ofRat (fracPos p.1)) (Num.ofRat (fracPos p.2)))).2 := by
    unfold overlapProjection probeForward
    simp only [List.map_map]
    rfl
  rw [hlib]
  have hspec : (probesC.map fun psi => Spec.exitWave windows kernels
        (Spec.translate psi (Num.ofRat (p.1 - (roundHalfEven p.1 : ℚ))) (Num.ofRat (p.2 - (roundHalfEven p.2 : ℚ)))))
      = (probesC.map fun psi => (overlapProjection1 (windows.map ifftshift2) (kernels.map ifftshift2)
            (fourierShift (ifftshift2 psi) (Num.ofRat (fracPos p.1)) (Num.ofRat (fracPos p.2)))).2).map fftshift2 := by
    rw [List.map_map]
    apply List.map_congr_left
    intro psi hpsi
    exact (hmode psi hpsi).1
  rw [hspec]
  symm
  apply farField_eq_detector hr hc
  intro w hw'
  obtain ⟨psi, hpsi, rfl⟩ := List.mem_map.1 hw'
  exact (hmode psi hpsi).2

/-- **forward_eq_spec**: the whole pipeline over a scan (`dset.forward` clips the positions to the
object box first) equals the simulated data set, provided every scan position is a pixel coordinate
of the object (`0 ≤ p ≤ shape − 1`, so that `clip_scan_positions` does not move it). -/
theorem forward_eq_spec {R0 R1 : ℕ} (hr : 0 < R0) (hc : 0 < R1) (H W : ℕ) (t : List (List (Cx ℝ)))
    (probesC kernels : List (Img ℝ)) (hp : ∀ psi ∈ probesC, Rect R0 R1 psi) (hk : ∀ K ∈ kernels, Rect R0 R1 K)
    (positions : List (ℚ × ℚ)) (hpos : ∀ p ∈ positions, InBox H W p) :
    forward H W R0 R1 t (probesC.map ifftshift2) (kernels.map ifftshift2) positions
      = Spec.simulate H W R0 R1 t probesC kernels positions := by
  unfold forward Spec.simulate
  apply List.map_congr_left
  intro p hpp
  simp only []
  rw [clipPosition_of_inBox (hpos p hpp)]
  exact pattern_eq_spec hr hc H W t probesC kernels hp hk p

/-- the hypothesis of `forward_eq_spec` is not automatic: the library's own raster can leave the
object box (4 rows, step 9/4 px, requested padding 1 → object height 8, last row at 31/4 > 7), and
then the clip constraint moves the position the pattern is predicted at. -/
theorem scan_exceeds_object_box_counterexample :
    ∃ g : Geometry, ∃ p ∈ scanPositions g, clipPosition g.H g.W p ≠ p := by
  refine ⟨{ gr := 4, gc := 1, stepR := 9 / 4, stepC := 1, sampR := 1, sampC := 1, R0 := 4, R1 := 4, padR := 1, padC := 4 },
    (31 / 4, 4), ?_, ?_⟩ <;> decide +kernel

-- non-vacuity: rectangular probes / kernels of every size exist, and in-box positions exist
example : ∀ psi ∈ [build 3 4 fun i j => (⟨(i : ℝ), (j : ℝ)⟩ : Cx ℝ)], Rect 3 4 psi := by
  intro psi h
  simp only [List.mem_cons, List.mem_nil_iff, or_false] at h
  subst h
  exact rect_build _ _ _
example : InBox 8 8 ((7 / 2 : ℚ), (25 / 4 : ℚ)) := by unfold InBox; norm_num

end QuantemModel.Props.C02
