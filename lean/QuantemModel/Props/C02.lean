import QuantemModel.Lemmas.ForwardLoss
import QuantemModel.Lemmas.ForwardState
/-!
C02 — the ptychography forward pipeline reproduces independently simulated data.

All statements are about the executable model `Model/Forward.lean` (composed from the C16 operator
model `Model/PtychoOps.lean`) instantiated at the real numbers, and about the independent reference
specification `Forward.Spec.*` defined next to it in its own (centred, natural-order) conventions.
Sizes are arbitrary: every ROI `R0 × R1` with `0 < R0, R1` (even, odd, non-square), every object
shape, any number of slices and probe modes.  Only property theorems and non-vacuity examples here.
-/
namespace QuantemModel.Props.C02
open QuantemModel QuantemModel.PtychoOps QuantemModel.Forward

/-! ## 1. convention algebra: index lemmas -/

/-- **fftfreq-ordered offsets ↔ natural order**: FFT position `i` of an axis of length `N` stores the
signed offset of natural (centred) position `(i + ⌊N/2⌋) mod N`; any `N`. -/
theorem fftfreq_natural_order {N i : ℕ} (hi : i < N) :
    Dft.fftfreqInt N i = (((i + N / 2) % N : ℕ) : ℤ) - ((N / 2 : ℕ) : ℤ) := fftfreqInt_eq_ish hi

/-- the inverse reading: natural position `j` (offset `j − ⌊N/2⌋`) sits at FFT position `(j + ⌈N/2⌉) mod N` -/
theorem natural_order_fftfreq {N j : ℕ} (hj : j < N) :
    Dft.fftfreqInt N ((j + (N - N / 2)) % N) = (j : ℤ) - ((N / 2 : ℕ) : ℤ) := fftfreqInt_sh hj

/-- **fftshift ∘ ifftshift = id = ifftshift ∘ fftshift** on rectangular images of every size -/
theorem fftshift_ifftshift {β : Type} [Inhabited β] {nr nc : ℕ} {x : List (List β)} (h : Rect nr nc x) :
    fftshift2 (ifftshift2 x) = x ∧ ifftshift2 (fftshift2 x) = x :=
  ⟨fftshift2_ifftshift2 h, ifftshift2_fftshift2 h⟩

/-- **roll ↔ modular indices / shift by −⌊N/2⌋ then fftshift = identity**: `np.roll(x, (-(nr//2), -(nc//2)))`
is `ifftshift`, so `fftshift` undoes it — for EVERY size, even and odd (this is what the `no_shift`
preprocessing relies on once its centre is `shape // 2`). -/
theorem roll_half_then_fftshift {β : Type} [Inhabited β] {nr nc : ℕ} {x : List (List β)} (h : Rect nr nc x) :
    roll2 x (-((nr / 2 : ℕ) : ℤ)) (-((nc / 2 : ℕ) : ℤ)) = ifftshift2 x
      ∧ fftshift2 (roll2 x (-((nr / 2 : ℕ) : ℤ)) (-((nc / 2 : ℕ) : ℤ))) = x := by
  obtain ⟨g, rfl⟩ := h.exists_build
  rw [roll2_neg_half]
  exact ⟨rfl, fftshift2_ifftshift2 (rect_build _ _ _)⟩

/-- **fftfreq-ordered patch indices ↔ natural-order window**: gathering the (flat, periodic) object at
the flat indices of `_set_patch_indices` is `ifftshift2` of the natural-order window
`obj[(round(p) − ⌊R/2⌋ + i) mod shape]`. -/
theorem patch_indices_window (t : List (Cx ℝ)) (pr pc : ℚ) (R0 R1 H W : ℕ) :
    gatherPatch t (patchIndices2 pr pc R0 R1 H W)
      = ifftshift2 (Spec.window t H W (roundHalfEven pr) (roundHalfEven pc) R0 R1) :=
  gatherPatch_patchIndices t pr pc R0 R1 H W

/-- the library's phase ramp and Fresnel propagators are the specification's centred transfer
functions in FFT order -/
theorem kernels_fft_order (nr nc : ℕ) (sr sc dr dc lam dz : ℝ) :
    Spec.translationKernel nr nc sr sc = fftshift2 (translationOperator nr nc sr sc)
      ∧ Spec.fresnelKernel nr nc dr dc lam dz = fftshift2 (propagator nr nc dr dc lam dz 0 0) :=
  ⟨translationKernel_eq sr sc, fresnelKernel_eq dr dc lam dz⟩

/-- `_compute_propagator_arrays` without tilt is the list of the specification's kernels in FFT order
(for a single slice both are empty) -/
theorem propagators_eq_spec_kernels (nr nc : ℕ) (dr dc e : ℝ) (n : ℕ) (dzs : List ℝ) (h1 : n = 1 → dzs = []) :
    propagatorArrays nr nc dr dc e 0 0 n dzs = (Spec.kernels nr nc dr dc e dzs).map ifftshift2 :=
  propagatorArrays_eq_kernels dr dc e n dzs h1

-- non-vacuity: the index maps on a concrete odd and even axis
example : (List.range 5).map (fun i => Dft.fftfreqInt 5 i) = [0, 1, 2, -2, -1] := by decide
example : (List.range 6).map (fun i => Dft.fftfreqInt 6 i) = [0, 1, 2, -3, -2, -1] := by decide
example : patchIndices2 (5 / 2) (7 / 2) 3 2 4 5 = [[14, 13], [19, 18], [9, 8]] := by decide +kernel

/-! ## 2. forward = specification -/

/-- **forward_eq_spec, one scan position**: for every ROI size (even, odd, non-square), every object
shape and content, any number of slices (induction inside `exitWave_eq_overlap`), any number of
probe modes and every (fractional) scan position, the library pipeline
`patch gather → sub-pixel probe shift → multislice overlap → detector` evaluated at the ground truth
written in library conventions (corner-centred probes `ifftshift2 ψ`, FFT-ordered kernels) predicts
exactly the pattern of the independent specification. -/
theorem pattern_eq_spec {R0 R1 : ℕ} (hr : 0 < R0) (hc : 0 < R1) (H W : ℕ) (t : List (List (Cx ℝ)))
    (probesC kernels : List (Img ℝ)) (hp : ∀ psi ∈ probesC, Rect R0 R1 psi) (hk : ∀ K ∈ kernels, Rect R0 R1 K)
    (p : ℚ × ℚ) :
    forwardPattern t (patchIndices2 p.1 p.2 R0 R1 H W) (probesC.map ifftshift2) (kernels.map ifftshift2)
        (Num.ofRat (fracPos p.1)) (Num.ofRat (fracPos p.2))
      = Spec.pattern H W R0 R1 t probesC kernels p := by
  unfold forwardPattern Spec.pattern
  simp only []
  have hpatch : objPatches t (patchIndices2 p.1 p.2 R0 R1 H W)
      = (t.map fun s => Spec.window s H W (roundHalfEven p.1) (roundHalfEven p.2) R0 R1).map ifftshift2 := by
    unfold objPatches
    rw [List.map_map]
    apply List.map_congr_left
    intro s _
    exact gatherPatch_patchIndices s p.1 p.2 R0 R1 H W
  rw [hpatch]
  generalize hwin : (t.map fun s => Spec.window s H W (roundHalfEven p.1) (roundHalfEven p.2) R0 R1) = windows
  have hw : ∀ w ∈ windows, Rect R0 R1 w := by
    intro w hw
    rw [← hwin] at hw
    obtain ⟨s, _, rfl⟩ := List.mem_map.1 hw
    exact rect_window ..
  -- one probe mode (placement + multislice, induction on the slices inside `mode_exit`)
  have hmode := fun psi (hpsi : psi ∈ probesC) =>
    mode_exit hr hc windows kernels hw hk (hp psi hpsi) (Num.ofRat (fracPos p.1)) (Num.ofRat (fracPos p.2))
  have hlib : (overlapProjection (windows.map ifftshift2) (kernels.map ifftshift2)
        (probeForward (probesC.map ifftshift2) (Num.ofRat (fracPos p.1)) (Num.ofRat (fracPos p.2)))).2
      = probesC.map fun psi => (overlapProjection1 (windows.map ifftshift2) (kernels.map ifftshift2)
            (fourierShift (ifftshift2 psi) (Num.ofRat (fracPos p.1)) (Num.ofRat (fracPos p.2)))).2 := by
    unfold overlapProjection probeForward
    simp only [List.map_map]
    rfl
  rw [hlib]
  have hspec : (probesC.map fun psi => Spec.exitWave windows kernels
        (Spec.translate psi (Num.ofRat (p.1 - (roundHalfEven p.1 : ℚ))) (Num.ofRat (p.2 - (roundHalfEven p.2 : ℚ)))))
      = (probesC.map fun psi => (overlapProjection1 (windows.map ifftshift2) (kernels.map ifftshift2)
            (fourierShift (ifftshift2 psi) (Num.ofRat (fracPos p.1)) (Num.ofRat (fracPos p.2)))).2).map fftshift2 := by
    rw [List.map_map]
    apply List.map_congr_left
    intro psi hpsi
    exact (hmode psi hpsi).1
  rw [hspec]
  symm
  apply farField_eq_detector hr hc
  intro w hw'
  obtain ⟨psi, hpsi, rfl⟩ := List.mem_map.1 hw'
  exact (hmode psi hpsi).2

/-- **forward_eq_spec**: the whole pipeline over a scan (`dset.forward` clips the positions to the
object box first) equals the simulated data set, provided every scan position is a pixel coordinate
of the object (`0 ≤ p ≤ shape − 1`, so that `clip_scan_positions` does not move it). -/
theorem forward_eq_spec {R0 R1 : ℕ} (hr : 0 < R0) (hc : 0 < R1) (H W : ℕ) (t : List (List (Cx ℝ)))
    (probesC kernels : List (Img ℝ)) (hp : ∀ psi ∈ probesC, Rect R0 R1 psi) (hk : ∀ K ∈ kernels, Rect R0 R1 K)
    (positions : List (ℚ × ℚ)) (hpos : ∀ p ∈ positions, InBox H W p) :
    forward H W R0 R1 t (probesC.map ifftshift2) (kernels.map ifftshift2) positions
      = Spec.simulate H W R0 R1 t probesC kernels positions := by
  unfold forward Spec.simulate
  apply List.map_congr_left
  intro p hpp
  simp only []
  rw [clipPosition_of_inBox (hpos p hpp)]
  exact pattern_eq_spec hr hc H W t probesC kernels hp hk p

/-- the hypothesis of `forward_eq_spec` is not automatic: the library's own raster can leave the
object box (4 rows, step 9/4 px, requested padding 1 → object height 8, last row at 31/4 > 7), and
then the clip constraint moves the position the pattern is predicted at. -/
theorem scan_exceeds_object_box_counterexample :
    ∃ g : Geometry, ∃ p ∈ scanPositions g, clipPosition g.H g.W p ≠ p := by
  refine ⟨{ gr := 4, gc := 1, stepR := 9 / 4, stepC := 1, sampR := 1, sampC := 1, R0 := 4, R1 := 4, padR := 1, padC := 4 },
    (31 / 4, 4), ?_, ?_⟩ <;> decide +kernel

-- non-vacuity: rectangular probes / kernels of every size exist, and in-box positions exist
example : ∀ psi ∈ [build 3 4 fun i j => (⟨(i : ℝ), (j : ℝ)⟩ : Cx ℝ)], Rect 3 4 psi := by
  intro psi h
  simp only [List.mem_cons, List.mem_nil_iff, or_false] at h
  subst h
  exact rect_build _ _ _
example : InBox 8 8 ((7 / 2 : ℚ), (25 / 4 : ℚ)) := by unfold InBox; norm_num

/-- predicted patterns are rectangular and non-negative (at least one probe mode) -/
theorem pattern_rect_nonneg {R0 R1 : ℕ} (hr : 0 < R0) (hc : 0 < R1) (H W : ℕ) (t : List (List (Cx ℝ)))
    (probesC kernels : List (Img ℝ)) (hp : ∀ psi ∈ probesC, Rect R0 R1 psi) (hk : ∀ K ∈ kernels, Rect R0 R1 K)
    (hne : probesC ≠ []) (p : ℚ × ℚ) :
    Rect R0 R1 (Spec.pattern H W R0 R1 t probesC kernels p) ∧ NonNeg (Spec.pattern H W R0 R1 t probesC kernels p) := by
  rw [← pattern_eq_spec hr hc H W t probesC kernels hp hk p]
  refine ⟨?_, detector_nonNeg _⟩
  unfold forwardPattern
  have hpatch : objPatches t (patchIndices2 p.1 p.2 R0 R1 H W)
      = (t.map fun s => Spec.window s H W (roundHalfEven p.1) (roundHalfEven p.2) R0 R1).map ifftshift2 := by
    unfold objPatches
    rw [List.map_map]
    apply List.map_congr_left
    intro s _
    exact gatherPatch_patchIndices s p.1 p.2 R0 R1 H W
  rw [hpatch]
  generalize hwin : (t.map fun s => Spec.window s H W (roundHalfEven p.1) (roundHalfEven p.2) R0 R1) = windows
  have hw : ∀ w ∈ windows, Rect R0 R1 w := by
    intro w hw
    rw [← hwin] at hw
    obtain ⟨s, _, rfl⟩ := List.mem_map.1 hw
    exact rect_window ..
  generalize hlibw : windows.map ifftshift2 = lw
  apply rect_detector hr hc
  · intro w hw'
    simp only [overlapProjection, probeForward, List.map_map, List.mem_map] at hw'
    obtain ⟨psi, hpsi, rfl⟩ := hw'
    simp only [Function.comp]
    rw [← hlibw]
    exact (mode_exit hr hc _ kernels hw hk (hp psi hpsi) _ _).2
  · cases probesC with
    | nil => exact absurd rfl hne
    | cons a l => simp [overlapProjection, probeForward]

/-! ## 3. preprocessing of the measured data -/

/-- **`no_shift` preprocessing is the identity for every detector size** (the centre is `shape // 2`,
the pixel `fftshift` centres the zero frequency on): the centred amplitudes are `√I` and, for
non-negative data, the centred intensities are the data.  Shift by `−⌊N/2⌋` is an integer roll
(C16 `shift_int_real`), `roll(−⌊N/2⌋) = ifftshift`, `fftshift ∘ ifftshift = id`. -/
theorem no_shift_preprocessing_identity {R0 R1 : ℕ} (hr : 0 < R0) (hc : 0 < R1) {I : RImg ℝ} (hI : Rect R0 R1 I)
    (data : List (RImg ℝ)) :
    centredAmplitude I (comFit .noShift data R0 R1).1 (comFit .noShift data R0 R1).2 = rawAmplitude I
      ∧ (NonNeg I → centredIntensity I (comFit .noShift data R0 R1).1 (comFit .noShift data R0 R1).2 = I) :=
  ⟨centredAmplitude_noShift hr hc hI, fun h => centredIntensity_noShift hr hc hI h⟩

/-- why the pre-repair origin `roi_shape / 2` was wrong: it is the `fftshift` centre `⌊N/2⌋` for even `N`
but lies exactly half a pixel beside it for EVERY odd `N` — the shift by `−N/2` is then a genuine
sub-pixel interpolation of `√I`, not a roll, and `no_shift_preprocessing_identity` fails (observed on the
real code: ROI 9×7, loss/scale 0.23 at the truth; repaired in 8f1c9c7, the model follows the repair). -/
theorem old_no_shift_centre_counterexample (N : ℕ) :
    (N % 2 = 0 → (N : ℚ) / 2 = ((N / 2 : ℕ) : ℚ)) ∧ (N % 2 = 1 → (N : ℚ) / 2 - ((N / 2 : ℕ) : ℚ) = 1 / 2) := by
  constructor
  · intro h
    obtain ⟨k, rfl⟩ : ∃ k, N = 2 * k := ⟨N / 2, by omega⟩
    rw [Nat.mul_div_cancel_left k (by norm_num)]
    push_cast; ring
  · intro h
    obtain ⟨k, rfl⟩ : ∃ k, N = 2 * k + 1 := ⟨N / 2, by omega⟩
    have : (2 * k + 1) / 2 = k := by omega
    rw [this]
    push_cast; ring

/-- `shift_array` (NumPy, one exponential of the summed phase) is the Fourier shift of the C16 model -/
theorem shift_array_is_fourier_shift {nr nc : ℕ} (hr : 0 < nr) {x : RImg ℝ} (hx : Rect nr nc x) (rs cs : ℝ) :
    shiftArray x rs cs = fourierShiftReal x rs cs := shiftArray_eq_fourierShiftReal hr hx rs cs

-- non-vacuity: a rectangular non-negative 3 × 2 pattern (odd × even)
example : Rect 3 2 ([[0, 1], [2, 0], [5, 3]] : RImg ℝ) ∧ NonNeg ([[0, 1], [2, 0], [5, 3]] : RImg ℝ) := by
  refine ⟨⟨rfl, ?_⟩, ?_⟩
  · intro row hrow
    simp only [List.mem_cons, List.mem_nil_iff, or_false] at hrow
    rcases hrow with rfl | rfl | rfl <;> rfl
  · intro row hrow a ha
    simp only [List.mem_cons, List.mem_nil_iff, or_false] at hrow
    rcases hrow with rfl | rfl | rfl <;>
      (simp only [List.mem_cons, List.mem_nil_iff, or_false] at ha; rcases ha with rfl | rfl <;> norm_num)

/-! ## 4. the losses at the ground truth -/

/-- **loss_zero**: if the targets are the library's preprocessing (`no_shift`) of the data simulated
by the specification, then both INTENSITY losses of the pipeline evaluated at the ground truth are
exactly zero — for every batch of in-box scan positions, detector mask, batch fraction `b/n` and mean
intensity, every ROI size, any number of slices and modes. -/
theorem loss_zero {R0 R1 : ℕ} (hr : 0 < R0) (hc : 0 < R1) (H W : ℕ) (t : List (List (Cx ℝ)))
    (probesC kernels : List (Img ℝ)) (hp : ∀ psi ∈ probesC, Rect R0 R1 psi) (hk : ∀ K ∈ kernels, Rect R0 R1 K)
    (hne : probesC ≠ []) (batch : List (ℚ × ℚ)) (hpos : ∀ p ∈ batch, InBox H W p)
    (lt : LossType) (hlt : lt.isAmplitude = false) (mask : RImg ℝ) (n : ℕ) (meanI : ℝ) :
    lossBatch lt (forward H W R0 R1 t (probesC.map ifftshift2) (kernels.map ifftshift2) batch)
      ((Spec.simulate H W R0 R1 t probesC kernels batch).map fun I =>
        target lt I (comFit .noShift (Spec.simulate H W R0 R1 t probesC kernels batch) R0 R1).1
          (comFit .noShift (Spec.simulate H W R0 R1 t probesC kernels batch) R0 R1).2) mask n meanI = 0 := by
  rw [forward_eq_spec hr hc H W t probesC kernels hp hk batch hpos]
  have htargets : ((Spec.simulate H W R0 R1 t probesC kernels batch).map fun I =>
        target lt I (comFit .noShift (Spec.simulate H W R0 R1 t probesC kernels batch) R0 R1).1
          (comFit .noShift (Spec.simulate H W R0 R1 t probesC kernels batch) R0 R1).2)
      = Spec.simulate H W R0 R1 t probesC kernels batch := by
    conv_rhs => rw [← List.map_id (Spec.simulate H W R0 R1 t probesC kernels batch)]
    apply List.map_congr_left
    intro I hI
    unfold Spec.simulate at hI
    obtain ⟨p, _, rfl⟩ := List.mem_map.1 hI
    obtain ⟨h1, h2⟩ := pattern_rect_nonneg hr hc H W t probesC kernels hp hk hne p
    unfold target
    rw [hlt]
    simp only [Bool.false_eq_true, if_false, id]
    exact centredIntensity_noShift hr hc h1 h2
  rw [htargets]
  exact lossBatch_intensity_self lt hlt _ mask n meanI

/-- **amplitude-loss residual**: with the amplitude targets `√I` of the same data the per-pixel term of
the l2-amplitude loss is not zero but `(m·(√(I+ε) − √I))²` with the code's `ε = 1e-9` inside the square
root, bounded by `m²·ε`; the l1-amplitude term is `|m|·(√(I+ε) − √I)`. -/
theorem amplitude_loss_residual {x m : ℝ} (hx : 0 ≤ x) :
    lossTerm .l2Amplitude x (Real.sqrt x) m = (m * (Real.sqrt (x + 1 / 10 ^ 9) - Real.sqrt x)) ^ 2
      ∧ lossTerm .l2Amplitude x (Real.sqrt x) m ≤ m ^ 2 * (1 / 10 ^ 9)
      ∧ lossTerm .l1Amplitude x (Real.sqrt x) m = |m| * (Real.sqrt (x + 1 / 10 ^ 9) - Real.sqrt x) := by
  have heps : (epsLoss : ℝ) = 1 / 10 ^ 9 := by simp [epsLoss]
  have hres := sqrt_residual_sq_le hx (show (0 : ℝ) ≤ 1 / 10 ^ 9 by positivity)
  have hge : 0 ≤ Real.sqrt (x + 1 / 10 ^ 9) - Real.sqrt x :=
    sub_nonneg.2 (Real.sqrt_le_sqrt (by linarith [show (0 : ℝ) ≤ 1 / 10 ^ 9 by positivity]))
  have h2 : lossTerm .l2Amplitude x (Real.sqrt x) m = (m * (Real.sqrt (x + 1 / 10 ^ 9) - Real.sqrt x)) ^ 2 := by
    simp only [lossTerm, lossPred, LossType.isAmplitude, LossType.isL1, heps, Num.sq, NumReal.sub_eq, NumReal.mul_eq,
      NumReal.add_eq, NumReal.sqrt_eq, NumReal.abs_eq, if_true, Bool.false_eq_true, if_false, abs_mul_abs_self]
    ring
  refine ⟨h2, ?_, ?_⟩
  · rw [h2, mul_pow]
    exact mul_le_mul_of_nonneg_left hres (sq_nonneg m)
  · simp only [lossTerm, lossPred, LossType.isAmplitude, LossType.isL1, heps, NumReal.sub_eq, NumReal.mul_eq,
      NumReal.add_eq, NumReal.sqrt_eq, NumReal.abs_eq, if_true]
    rw [← sub_mul, abs_mul, abs_of_nonneg hge, mul_comm]

/-- **amplitude loss at the truth, whole batch**: with the l2-amplitude targets the library derives
(`no_shift`) from the simulated data, the pipeline's loss at the ground truth is not zero but at most
`num_gpts · 1e-9 · Σ mask² / mean_intensity` — for every non-empty batch of in-box positions, whatever
its size (the batch-fraction scaling cancels the number of patterns), every ROI size, any slices/modes. -/
theorem amplitude_loss_at_truth_le {R0 R1 : ℕ} (hr : 0 < R0) (hc : 0 < R1) (H W : ℕ) (t : List (List (Cx ℝ)))
    (probesC kernels : List (Img ℝ)) (hp : ∀ psi ∈ probesC, Rect R0 R1 psi) (hk : ∀ K ∈ kernels, Rect R0 R1 K)
    (hne : probesC ≠ []) (batch : List (ℚ × ℚ)) (hb : batch ≠ []) (hpos : ∀ p ∈ batch, InBox H W p)
    (m : ℕ → ℕ → ℝ) {n : ℕ} (hn : 0 < n) {meanI : ℝ} (hm : 0 < meanI) :
    lossBatch .l2Amplitude (forward H W R0 R1 t (probesC.map ifftshift2) (kernels.map ifftshift2) batch)
      ((Spec.simulate H W R0 R1 t probesC kernels batch).map fun I =>
        target .l2Amplitude I (comFit .noShift (Spec.simulate H W R0 R1 t probesC kernels batch) R0 R1).1
          (comFit .noShift (Spec.simulate H W R0 R1 t probesC kernels batch) R0 R1).2) (build R0 R1 m) n meanI
      ≤ (n : ℝ) * ((1 / 10 ^ 9) * ∑ i ∈ Finset.range R0, ∑ j ∈ Finset.range R1, (m i j) ^ 2) / meanI := by
  rw [forward_eq_spec hr hc H W t probesC kernels hp hk batch hpos]
  have hdata : ∀ I ∈ Spec.simulate H W R0 R1 t probesC kernels batch, Rect R0 R1 I ∧ NonNeg I := by
    intro I hI
    unfold Spec.simulate at hI
    obtain ⟨p, _, rfl⟩ := List.mem_map.1 hI
    exact pattern_rect_nonneg hr hc H W t probesC kernels hp hk hne p
  have htargets : ((Spec.simulate H W R0 R1 t probesC kernels batch).map fun I =>
        target .l2Amplitude I (comFit .noShift (Spec.simulate H W R0 R1 t probesC kernels batch) R0 R1).1
          (comFit .noShift (Spec.simulate H W R0 R1 t probesC kernels batch) R0 R1).2)
      = (Spec.simulate H W R0 R1 t probesC kernels batch).map rawAmplitude := by
    apply List.map_congr_left
    intro I hI
    unfold target
    simp only [LossType.isAmplitude, if_true]
    exact centredAmplitude_noShift hr hc (hdata I hI).1
  rw [htargets]
  apply lossBatch_l2amp_le _ hdata _ m hn hm
  unfold Spec.simulate
  intro h
  exact hb (List.map_eq_nil_iff.1 h)

/-- **the ground truth is a global minimiser** of both intensity losses (hence a stationary point of the
differentiable l2-intensity loss): no prediction whatsoever scores below the pipeline at the truth. -/
theorem truth_minimises_loss {R0 R1 : ℕ} (hr : 0 < R0) (hc : 0 < R1) (H W : ℕ) (t : List (List (Cx ℝ)))
    (probesC kernels : List (Img ℝ)) (hp : ∀ psi ∈ probesC, Rect R0 R1 psi) (hk : ∀ K ∈ kernels, Rect R0 R1 K)
    (hne : probesC ≠ []) (batch : List (ℚ × ℚ)) (hpos : ∀ p ∈ batch, InBox H W p)
    (lt : LossType) (hlt : lt.isAmplitude = false) (mask : RImg ℝ) (n : ℕ) {meanI : ℝ} (hm : 0 ≤ meanI)
    (other : List (RImg ℝ)) :
    lossBatch lt (forward H W R0 R1 t (probesC.map ifftshift2) (kernels.map ifftshift2) batch)
      ((Spec.simulate H W R0 R1 t probesC kernels batch).map fun I =>
        target lt I (comFit .noShift (Spec.simulate H W R0 R1 t probesC kernels batch) R0 R1).1
          (comFit .noShift (Spec.simulate H W R0 R1 t probesC kernels batch) R0 R1).2) mask n meanI
      ≤ lossBatch lt other
      ((Spec.simulate H W R0 R1 t probesC kernels batch).map fun I =>
        target lt I (comFit .noShift (Spec.simulate H W R0 R1 t probesC kernels batch) R0 R1).1
          (comFit .noShift (Spec.simulate H W R0 R1 t probesC kernels batch) R0 R1).2) mask n meanI := by
  rw [loss_zero hr hc H W t probesC kernels hp hk hne batch hpos lt hlt mask n meanI]
  exact lossBatch_nonneg lt _ _ mask n hm

/-- **loss ≥ 0** for every loss type, batch, mask and batch fraction (mean intensity `≥ 0`) -/
theorem loss_nonneg (lt : LossType) (preds targets : List (RImg ℝ)) (mask : RImg ℝ) (n : ℕ) {meanI : ℝ}
    (hm : 0 ≤ meanI) : 0 ≤ lossBatch lt preds targets mask n meanI :=
  lossBatch_nonneg lt preds targets mask n hm

/-- **equality iff the amplitudes (intensities) match on the unmasked detector**: the summed loss terms
of one pattern vanish iff at every pixel `mask·pred' = mask·target`, where `pred'` is the prediction
as the loss sees it (`√(I+ε)` for amplitude losses).  All four loss types, every ROI size. -/
theorem loss_eq_zero_iff (lt : LossType) {R0 R1 : ℕ} (p t m : ℕ → ℕ → ℝ) :
    lossTermsImg lt (build R0 R1 p) (build R0 R1 t) (build R0 R1 m) = 0
      ↔ ∀ i < R0, ∀ j < R1, lossPred lt (p i j) * m i j = t i j * m i j := by
  rw [lossTermsImg_build]
  rw [Finset.sum_eq_zero_iff_of_nonneg (fun i _ => Finset.sum_nonneg fun j _ => lossTerm_nonneg ..)]
  constructor
  · intro h i hi j hj
    have := (Finset.sum_eq_zero_iff_of_nonneg (fun j _ => lossTerm_nonneg lt (p i j) (t i j) (m i j))).1
      (h i (Finset.mem_range.2 hi)) j (Finset.mem_range.2 hj)
    exact (lossTerm_eq_zero_iff ..).1 this
  · intro h i hi
    apply Finset.sum_eq_zero
    intro j hj
    exact (lossTerm_eq_zero_iff ..).2 (h i (Finset.mem_range.1 hi) j (Finset.mem_range.1 hj))

/-! ## 5. normalisation -/

/-- **normalisation, one pattern**: for a unit-amplitude object (every transmission pixel of modulus one,
any object type once written as transmission) and unit-modulus propagators, the summed predicted
intensity at ANY scan position equals the total intensity of the probe modes (C16 `purephase_energy`
through the pipeline's own patch indices, which always address the object). -/
theorem normalisation {R0 R1 H W : ℕ} (hr : 0 < R0) (hc : 0 < R1) (hH : 0 < H) (hW : 0 < W)
    (t : List (List (Cx ℝ))) (ht : ∀ s ∈ t, s.length = H * W ∧ ∀ z ∈ s, Cx.abs2 z = 1)
    (probes props : List (Img ℝ)) (hprobes : ∀ q ∈ probes, Rect R0 R1 q)
    (hprops : ∀ P ∈ props, Rect R0 R1 P ∧ UnitModulus P) (pr pc : ℚ) (fr fc : ℝ) :
    rsum (forwardPattern t (patchIndices2 pr pc R0 R1 H W) probes props fr fc) = (probes.map energy).sum :=
  QuantemModel.Props.C16.purephase_energy_shifted hr hc _ props probes fr fc
    (objPatches_unit hH hW R0 R1 t ht pr pc) hprops hprobes

/-- **mean pattern intensity = Σ|probe|²**: `mean_diffraction_intensity` of the data predicted for a
non-empty scan is the total probe intensity — the value the library rescales its probe to. -/
theorem mean_intensity_eq_probe_intensity {R0 R1 H W : ℕ} (hr : 0 < R0) (hc : 0 < R1) (hH : 0 < H) (hW : 0 < W)
    (t : List (List (Cx ℝ))) (ht : ∀ s ∈ t, s.length = H * W ∧ ∀ z ∈ s, Cx.abs2 z = 1)
    (probes props : List (Img ℝ)) (hprobes : ∀ q ∈ probes, Rect R0 R1 q)
    (hprops : ∀ P ∈ props, Rect R0 R1 P ∧ UnitModulus P) (positions : List (ℚ × ℚ)) (hne : positions ≠ []) :
    meanDiffractionIntensity (forward H W R0 R1 t probes props positions) = (probes.map energy).sum := by
  unfold meanDiffractionIntensity forward
  rw [List.map_map, numSum_eq, List.length_map]
  have hconst : ∀ p0 ∈ positions, ((fun I : RImg ℝ => rsum (I.map (·.map max0))) ∘ fun p0 =>
      forwardPattern t (patchIndices2 (clipPosition H W p0).1 (clipPosition H W p0).2 R0 R1 H W) probes props
        (Num.ofRat (fracPos (clipPosition H W p0).1)) (Num.ofRat (fracPos (clipPosition H W p0).2))) p0
      = (probes.map energy).sum := by
    intro p0 _
    simp only [Function.comp]
    rw [map_max0_of_nonNeg (by unfold forwardPattern; exact detector_nonNeg _)]
    exact normalisation hr hc hH hW t ht probes props hprobes hprops _ _ _ _
  rw [sum_map_const _ _ _ hconst]
  have hlen : (positions.length : ℝ) ≠ 0 := by
    have : positions.length ≠ 0 := fun h => hne (List.length_eq_zero_iff.1 h)
    exact_mod_cast this
  simp only [NumReal.div_eq, NumReal.ofNat_eq]
  field_simp

/-! ## 6. geometry -/

/-- **the padded object shape is a multiple of 8** whatever padding is requested
(`adjust_padding_power2` at level 3 on the even crop shape) -/
theorem obj_shape_multiple_of_8 (g : Geometry) : g.H % 8 = 0 ∧ g.W % 8 = 0 := by
  have key : ∀ c p : ℕ, c % 2 = 0 → fullShapeAxis c (adjustPad c p) % 8 = 0 := by
    intro c p hc
    unfold fullShapeAxis adjustPad
    simp only
    split_ifs with h <;> omega
  have hev : ∀ (gp : ℕ) (s d : ℚ), cropShapeAxis gp s d % 2 = 0 := by
    intro gp s d
    unfold cropShapeAxis
    simp only
    omega
  exact ⟨key _ _ (hev _ _ _), key _ _ (hev _ _ _)⟩

/-- the numeric model of `_set_initial_scan_positions_px` with rotation / transposition
(`scanPositionsGeneral`, compared with the library for rotated and transposed scans) reduces, at rotation 0
without transposition and non-negative steps, to the exact raster `scanPositions` used by the theorems above -/
theorem scan_positions_general_plain (g : Geometry) (hs1 : 0 ≤ g.stepR) (hs2 : 0 ≤ g.stepC) :
    scanPositionsGeneral g.gr g.gc (g.stepR : ℝ) (g.stepC : ℝ) (g.sampR : ℝ) (g.sampC : ℝ)
        ((g.padUsedR : ℕ) : ℝ) ((g.padUsedC : ℕ) : ℝ) 0 false
      = (scanPositions g).map fun p => ((p.1 : ℝ), (p.2 : ℝ)) :=
  scanPositionsGeneral_plain g hs1 hs2

-- non-vacuity: a geometry with fractional step whose requested padding (2,3) is enlarged
example : (({ gr := 4, gc := 3, stepR := 7 / 4, stepC := 3 / 2, sampR := 1, sampC := 1 / 2, R0 := 8, R1 := 6, padR := 2, padC := 3 } : Geometry).padUsedR,
           ({ gr := 4, gc := 3, stepR := 7 / 4, stepC := 3 / 2, sampR := 1, sampC := 1 / 2, R0 := 8, R1 := 6, padR := 2, padC := 3 } : Geometry).H) = (5, 16) := by
  decide +kernel

/-! ## 7. state carried between public calls (growth round 5): histories that contain REJECTED calls

`Model/ForwardState.lean` models, as state machines over arbitrary histories of calls, the three pieces of
state the pipeline reads: slice thicknesses → propagators, pattern stacks → targets, scan positions →
cached patch indices.  A call may be refused (the library raises); every theorem quantifies over ALL
histories, refused calls included. -/
section State
open QuantemModel.ForwardState

/-- **nearest pixel and sub-pixel shift are one decomposition of the position**: `round(p) + frac(p) = p`
and the Fourier shift is at most half a pixel — for every position, ties included.  (The patch origin of
`_set_patch_indices` and the probe shift of `dset.forward` are the two halves.) -/
theorem nearest_pixel_plus_fraction (q : ℚ) :
    ((roundHalfEven q : ℤ) : ℚ) + fracPos q = q ∧ -(1 / 2 : ℚ) ≤ fracPos q ∧ fracPos q ≤ 1 / 2 :=
  ⟨round_add_frac q, frac_abs_le q⟩

/-- **exact ties go to the even neighbour, integers stay** (`torch.round`): a position `k + ½` is cut around
pixel `k` when `k` is even and around `k + 1` when `k` is odd -/
theorem round_ties_to_even (k : ℤ) :
    roundHalfEven ((k : ℚ) + 1 / 2) = (if k % 2 = 0 then k else k + 1) ∧ roundHalfEven (k : ℚ) = k :=
  ⟨round_tie k, round_int k⟩

/-- **a refused call changes nothing** — thickness setter (both entry points), `_set_targets` / stack
setters / a `preprocess` that raises, scan-position setter -/
theorem rejected_call_changes_nothing {α : Type} :
    (∀ (g : PropGeom ℝ) (s : Slab ℝ) (op : ThickOp ℝ), (s.step g op).2 = true → (s.step g op).1 = s)
      ∧ (∀ (s : TState α) (op : TOp α), (s.step op).2 = true → (s.step op).1 = s)
      ∧ (∀ (s : PosState) (op : PosOp), (s.step op).2 = true → (s.step op).1 = s) :=
  ⟨fun g s op h => s.step_rejected g op h, fun s op h => s.step_rejected op h, fun s op h => s.step_rejected op h⟩

/-- **the per-slice thickness setter accepts exactly the admissible lists**: a sequence of two or more
entries is stored (as given) iff it has one strictly positive entry per gap; otherwise the call raises -/
theorem thickness_setter_exact (n : ℕ) (xs : List ℝ) (h2 : 2 ≤ xs.length) :
    (thickValue n (.seq xs) = .ok xs ↔ (xs.length = n - 1 ∧ ∀ x ∈ xs, 0 < x))
      ∧ ((xs.length ≠ n - 1 ∨ ∃ x ∈ xs, x ≤ 0) → thickValue n (.seq xs) = .error "ValueError") :=
  ⟨thickValue_seq_iff n xs h2, thickValue_seq_error n xs h2⟩

/-- **invariant over every history** (assignments through `ptycho.slice_thicknesses` or
`obj_model.slice_thicknesses` in any form — `None`, scalar, sequence —, accepted or refused, and calls that
rebuild the propagators): the model holds one strictly positive thickness per gap, and the number of slices
never changes -/
theorem thickness_history_invariant (g : PropGeom ℝ) (s : Slab ℝ) (hs : ValidThick s.numSlices s.thick)
    (ops : List (ThickOp ℝ)) :
    (s.run g ops).numSlices = s.numSlices ∧ ValidThick s.numSlices (s.run g ops).thick := by
  have h := Slab.run_valid g s hs ops
  rw [Slab.run_numSlices] at h
  exact ⟨Slab.run_numSlices g s ops, h⟩

/-- **the last ACCEPTED assignment wins; refused ones leave no trace**: after any history the thicknesses are
the value stored by the last accepted assignment (the initial ones if there was none), and the whole state
equals that of the same history with every refused call deleted -/
theorem thickness_last_accepted_wins (g : PropGeom ℝ) (s : Slab ℝ) (ops : List (ThickOp ℝ)) :
    (s.run g ops).thick = (lastAccepted s.numSlices ops).getD s.thick
      ∧ s.run g ops = s.run g (ops.filter fun op => !op.rejected s.numSlices) :=
  ⟨Slab.run_thick g s ops, Slab.run_filter_rejected g s ops⟩

/-- **after any history, the next call that rebuilds the propagators (`reconstruct`, `preprocess`,
`reset_recon`) builds the specification's Fresnel kernels of the last ACCEPTED thicknesses** (in FFT order) —
so `forward_eq_spec` / `loss_zero` apply with exactly those thicknesses, whatever was refused in between -/
theorem history_propagators_eq_spec (g : PropGeom ℝ) (s : Slab ℝ) (hs : ValidThick s.numSlices s.thick)
    (ops : List (ThickOp ℝ)) :
    (s.run g (ops ++ [.rebuild])).props
      = (Spec.kernels g.nr g.nc g.sr g.sc g.energy ((lastAccepted s.numSlices ops).getD s.thick)).map ifftshift2 := by
  rw [Slab.run_append, ← Slab.run_thick g s ops]
  have hv := Slab.run_valid g s hs ops
  have hn := Slab.run_numSlices g s ops
  show PropGeom.build g (s.run g ops).numSlices (s.run g ops).thick = _
  unfold PropGeom.build
  rw [NumReal.zero_eq]
  apply propagatorArrays_eq_kernels
  intro h1
  have : (s.run g ops).thick.length = 0 := by rw [hv.1, h1]
  exact List.length_eq_zero_iff.mp this

/-- **the cached patch indices are never stale**: start from a coherent state, apply ANY history of
scan-position assignments (accepted or refused by the shape check), forward passes and index refreshes;
after the next `dset.forward` the indices it returns are those of the current positions, which are the
assigned positions clipped into the object box — whether they were recomputed or served from the cache -/
theorem patch_index_cache_fresh (s : PosState) (hs : s.Coherent) (ops : List PosOp) :
    let t := s.run ops
    let u := (t.step .forward).1
    u.idx = indicesOf s.H s.W s.R0 s.R1 u.pos ∧ u.pos = t.pos.map (clipPosition s.H s.W)
      ∧ s.run (ops ++ [.forward]) = u := by
  intro t u
  have hc : t.Coherent := s.run_coherent hs ops
  have hg : t.H = s.H ∧ t.W = s.W ∧ t.R0 = s.R0 ∧ t.R1 = s.R1 := by
    show (s.run ops).H = s.H ∧ (s.run ops).W = s.W ∧ (s.run ops).R0 = s.R0 ∧ (s.run ops).R1 = s.R1
    unfold PosState.run
    induction ops generalizing s with
    | nil => exact ⟨rfl, rfl, rfl, rfl⟩
    | cons op ops ih =>
      have h1 := s.step_geom op
      have h2 := ih (s.step op).1 (s.step_coherent hs op) (PosState.run_coherent _ (s.step_coherent hs op) ops)
      simp only [List.foldl_cons]
      exact ⟨h2.1.trans h1.1, h2.2.1.trans h1.2.1, h2.2.2.1.trans h1.2.2.1, h2.2.2.2.trans h1.2.2.2.1⟩
  have hf := t.forward_fresh hc
  rw [hg.1, hg.2.1, hg.2.2.1, hg.2.2.2] at hf
  exact ⟨hf.1, hf.2, by rw [PosState.run_append]; rfl⟩

/-- **`preprocess` installs the targets of the data it has just centred** (`_set_targets("l2_amplitude")`
at its end copies the NEW stack), whatever happened before -/
theorem preprocess_installs_amplitude_targets {α : Type} (s : TState α) (h : List (TOp α)) (new : Stacks α) :
    (s.run (h ++ [.preprocess new])).targets = new.get (if (s.run h).fitDescan then .amp else .centredAmp)
      ∧ (s.run (h ++ [.preprocess new])).stacks = new := by
  rw [TState.run_append]
  have := (s.run h).preprocess_state new
  exact ⟨this.2.2, this.1⟩

/-- **targets are never stale after re-preprocessing**: for ANY earlier history `h` (other preprocessings,
other loss types, refused calls), a `preprocess` producing the stacks `new`, then any number of refused calls
and `_set_targets` calls, then the `_set_targets(loss)` of a `reconstruct()`: the targets are the stack of
`new` that this loss type selects — exactly what a dataset preprocessed once would hold -/
theorem targets_fresh_after_repreprocess {α : Type} (s : TState α) (h mid : List (TOp α)) (new : Stacks α)
    (fam : LossFamily) (n : StackName) (hmid : ∀ op ∈ mid, op.inert = true)
    (hsrc : targetSource fam (s.run h).fitDescan = some n) :
    (s.run (h ++ [.preprocess new] ++ mid ++ [.setTargets fam])).targets = new.get n := by
  rw [TState.run_append, TState.run_append, TState.run_append]
  have hp := (s.run h).preprocess_state new
  have hm := TState.run_inert ((s.run h).run [.preprocess new]) mid hmid
  have hp1 : ((s.run h).run [.preprocess new]).stacks = new := hp.1
  have hp2 : ((s.run h).run [.preprocess new]).fitDescan = (s.run h).fitDescan := hp.2.1
  show ((((s.run h).run [.preprocess new]).run mid).step (.setTargets fam)).1.targets = _
  simp only [TState.step]
  rw [hm.2, hp2, hsrc]
  simp only
  rw [hm.1, hp1]

-- non-vacuity / literal instances
example : roundHalfEven ((4 : ℚ) + 1 / 2) = 4 ∧ roundHalfEven ((5 : ℚ) + 1 / 2) = 6 ∧ fracPos (9 / 2) = 1 / 2 := by decide +kernel
example : ValidThick 3 [6, 13] := ⟨rfl, by intro x hx; simp at hx; rcases hx with rfl | rfl <;> norm_num⟩
-- the seeded history of round 5: a refused per-slice list on a 3-slice model, then a rebuild
example : thickValue 3 (.seq [(6 : ℝ), -13]) = .error "ValueError" :=
  thickValue_seq_error 3 _ (by simp) (Or.inr ⟨-13, by simp, by norm_num⟩)
example : (thickValue 3 (.seq [(6 : ℚ), -13])).toOption = none ∧ (thickValue 3 (.seq [(6 : ℚ), 13])).toOption = some [6, 13]
    ∧ (thickValue 3 (.scalar (0 : ℚ))).toOption = none ∧ (thickValue 3 (.scalar (5 / 2 : ℚ))).toOption = some [5 / 2, 5 / 2]
    ∧ (thickValue 1 (ThickArg.none : ThickArg ℚ)).toOption = some [] ∧ (thickValue 2 (ThickArg.none : ThickArg ℚ)).toOption = none := by
  refine ⟨?_, ?_, ?_, ?_, ?_, ?_⟩ <;> decide +kernel
example : targetSource .intensity false = some .centredInt ∧ targetSource .amplitude true = some .amp
    ∧ targetSource .unknown false = none := by decide
example : (TOp.preprocessRejected : TOp ℕ).inert = true ∧ (TOp.assignStack .centredAmp (3 : ℕ) false).inert = true := by decide
example : ({ H := 8, W := 8, R0 := 2, R1 := 2, n := 1, pos := [(5 / 2, 3)], last := [(5 / 2, 3)],
             idx := indicesOf 8 8 2 2 [(5 / 2, 3)] } : PosState).Coherent := rfl

end State

end QuantemModel.Props.C02
