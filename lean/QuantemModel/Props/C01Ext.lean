import QuantemModel.Props.C01
import QuantemModel.Model.SerializeStoreExt
/-!
C01, growth round 6 — "the result is the same for the zip and the directory store, for every compression level
and for str or Path targets", END TO END at model level: argument checks (`resolveSave`) + stored tree (`encode`)
+ `_install()` on every kind of directory entry (`Model/SaveInstall.lean`, C08's model of the helper, compared with
the real filesystem primitives by C08's `fs-primitives` stream) + `load`.  Audited on its own (`EXTRA_PROPS`).
-/
namespace QuantemModel.Props.C01Ext
open QuantemModel QuantemModel.Serialize QuantemModel.SaveInstall

/-- `_install()` puts the staged entry at the target whatever it finds there (nothing, a file, an empty or
non-empty directory, a link to a directory / a file / nothing) — for the file of the zip store and the
directory of the dir store alike (re-proved here so that C01 does not import C08's theorem file) -/
theorem install_staged_total (store : String) (path : Ent) :
    install (some (stagedKind store)) path = .ok (.none, some (stagedKind store)) := by
  unfold stagedKind
  split
  · rcases path with _ | (_ | e | ⟨d, g⟩) <;> first | rfl | (cases e <;> rfl) | (cases d <;> cases g <;> rfl)
  · rcases path with _ | (_ | e | ⟨d, g⟩) <;> first | rfl | (cases e <;> rfl) | (cases d <;> cases g <;> rfl)

/-- the argument checks look at the filesystem only through `exists(<resolved path>)` -/
theorem resolveSave_congr (ex1 ex2 : String → Bool) (a : SaveArgs)
    (h : ex1 (resolvePath a) = ex2 (resolvePath a)) : resolveSave ex1 a = resolveSave ex2 a := by
  unfold resolveSave
  simp only [h]

/-- **one save, end to end, on any kind of target entry**: when the argument checks accept the call
(level None/0..9, store zip or dir with an extension-less path, target absent or `mode="o"` — `resolveSave_ok_iff`),
`_install()` succeeds on whatever is at the target, the target then is the staged entry (a file for zip, a
directory for dir) holding `encode` of the graph, and `load` returns the canonical form of the saved graph -/
theorem saveOnto_roundtrip (pre : Option Slot) (cls : String) (attrs : List (String × Val)) (a : SaveArgs)
    (store path : String) (hwf : wfA (.obj cls attrs) = true)
    (hacc : resolveSave (fun _ => lexists (slotEnt pre)) a = .ok (store, path)) :
    saveOnto pre (.obj cls attrs) a = .ok (some ⟨stagedKind store, some (save {} (.obj cls attrs))⟩) ∧
    (∀ post, saveOnto pre (.obj cls attrs) a = .ok post → loadFrom post = .ok (canon (.obj cls attrs))) := by
  have h1 : saveOnto pre (.obj cls attrs) a = .ok (some ⟨stagedKind store, some (save {} (.obj cls attrs))⟩) := by
    simp only [saveOnto, hacc, install_staged_total]
  refine ⟨h1, ?_⟩
  intro post hp
  rw [h1] at hp
  cases hp
  simp only [loadFrom, C01.roundtrip cls attrs hwf]

/-- **the loaded graph does not depend on the configuration**: the same object saved under ANY two accepted
configurations (zip / dir store, any two levels, any two path spellings, either write mode) onto ANY two
pre-states of the target (absent, an older zip file, an older directory tree, a foreign file, a symbolic link,
dangling or not) loads back as the same graph -/
theorem saveOnto_config_independent (pre1 pre2 : Option Slot) (cls : String) (attrs : List (String × Val))
    (a1 a2 : SaveArgs) (r1 r2 : String × String) (hwf : wfA (.obj cls attrs) = true)
    (h1 : resolveSave (fun _ => lexists (slotEnt pre1)) a1 = .ok r1)
    (h2 : resolveSave (fun _ => lexists (slotEnt pre2)) a2 = .ok r2)
    (post1 post2 : Option Slot)
    (hp1 : saveOnto pre1 (.obj cls attrs) a1 = .ok post1) (hp2 : saveOnto pre2 (.obj cls attrs) a2 = .ok post2) :
    loadFrom post1 = loadFrom post2 ∧ loadFrom post1 = .ok (canon (.obj cls attrs)) ∧
    slotContent post1 = slotContent post2 := by
  obtain ⟨s1, p1⟩ := r1
  obtain ⟨s2, p2⟩ := r2
  have e1 := saveOnto_roundtrip pre1 cls attrs a1 s1 p1 hwf h1
  have e2 := saveOnto_roundtrip pre2 cls attrs a2 s2 p2 hwf h2
  refine ⟨by rw [e1.2 post1 hp1, e2.2 post2 hp2], e1.2 post1 hp1, ?_⟩
  rw [e1.1] at hp1
  rw [e2.1] at hp2
  cases hp1
  cases hp2
  rfl

/-- a call the argument checks reject raises that error and never reaches staging / `_install()` -/
theorem saveOnto_rejected (pre : Option Slot) (v : Val) (a : SaveArgs) (e : CallErr)
    (h : resolveSave (fun _ => lexists (slotEnt pre)) a = .error e) :
    saveOnto pre v a = .error (.call e) := by
  simp only [saveOnto, h]

/-- an accepted call never fails inside `_install()` (no `os` error escapes), for every kind of entry -/
theorem saveOnto_no_os_error (pre : Option Slot) (v : Val) (a : SaveArgs) (e : String) :
    saveOnto pre v a ≠ .error (.os e) := by
  unfold saveOnto
  split
  · intro h; cases h
  · simp only [install_staged_total]
    intro h; cases h

/-- write protection sees every kind of entry, a dangling link included (`os.path.lexists`) -/
theorem saveOnto_write_once (s : Slot) (v : Val) (a : SaveArgs) (hm : a.mode ≠ "o") (hl : levelOk a.level = true) :
    saveOnto (some s) v a = .error (.call .fileExists) := by
  have : resolveSave (fun _ => lexists (slotEnt (some s))) a = .error .fileExists := by
    unfold resolveSave
    simp [hl, slotEnt, lexists, hm]
  simp only [saveOnto, this]

/-- **the history model of round 5 is a sound abstraction of the entry-kind model**: on a pre-state whose target
entry (if any) was put there by a completed save, one `save` call of the history machine `hstep` and the
end-to-end `saveOnto` agree — same acceptance, same error, and afterwards the history machine's target holds
exactly the content of the slot `_install()` produced.  (`roundtrip_history`, `fixed_point_history`,
`stores_agree` therefore speak about what `_install()` really leaves.) -/
theorem saveOnto_refines_hstep (fs : Fs) (pre : Option Slot) (v : Val) (a : SaveArgs)
    (htr : slotTracked pre = true) (hfs : fsGet fs (resolvePath a) = slotContent pre) :
    match saveOnto pre v a with
    | .ok post => fsGet (hstep fs (.save v a)).1 (resolvePath a) = slotContent post ∧
        (hstep fs (.save v a)).2 = .saved (resolveStore a) (resolvePath a)
    | .error (.call e) => hstep fs (.save v a) = (fs, .raised e)
    | .error (.os _) => False := by
  have hex : (fun p => (fsGet fs p).isSome) (resolvePath a) = (fun _ => lexists (slotEnt pre)) (resolvePath a) := by
    simp only [hfs]
    rcases pre with _ | ⟨k, c⟩
    · rfl
    · cases c with
      | none => simp [slotTracked] at htr
      | some s => rfl
  have hc := resolveSave_congr (fun p => (fsGet fs p).isSome) (fun _ => lexists (slotEnt pre)) a hex
  cases hr : resolveSave (fun _ => lexists (slotEnt pre)) a with
  | error e =>
      simp only [saveOnto, hr]
      simp only [hstep, hc, hr]
  | ok r =>
      obtain ⟨st, p⟩ := r
      have hrp := resolveSave_ok_eq _ _ _ hr
      cases hrp
      simp only [saveOnto, hr, install_staged_total]
      simp only [hstep, hc, hr]
      refine ⟨?_, trivial⟩
      rw [fsGet_fsSet_same]; rfl

theorem soRun_append (pre : Option Slot) (xs ys : List (Val × SaveArgs)) :
    soRun pre (xs ++ ys) = soRun (soRun pre xs) ys := by
  induction xs generalizing pre with
  | nil => rfl
  | cons x rest ih =>
      obtain ⟨v, a⟩ := x
      simp only [List.cons_append, soRun]
      split <;> exact ih _

/-- once something is at the target, every later call without `mode="o"` or with a level outside 0..9 is
rejected and leaves it there — any number of them, any graphs, any stores -/
theorem soRun_protected (s : Slot) (calls : List (Val × SaveArgs))
    (h : ∀ c ∈ calls, c.2.mode ≠ "o" ∨ levelOk c.2.level = false) : soRun (some s) calls = some s := by
  induction calls with
  | nil => rfl
  | cons c rest ih =>
      obtain ⟨v, a⟩ := c
      have hc := h (v, a) (List.mem_cons_self ..)
      have hrej : ∃ e, saveOnto (some s) v a = .error e := by
        by_cases hl : levelOk a.level = true
        · rcases hc with hm | hl'
          · exact ⟨_, saveOnto_write_once s v a hm hl⟩
          · simp [hl] at hl'
        · have hl' : levelOk a.level = false := by simpa using hl
          exact ⟨_, saveOnto_rejected _ _ _ _ (C01.resolveSave_bad_level _ a hl')⟩
      obtain ⟨e, he⟩ := hrej
      simp only [soRun, he]
      exact ih (fun c hc => h c (List.mem_cons_of_mem _ hc))

/-- **round trip over every history of saves onto one target, on entry kinds**: after ANY history of earlier
saves (accepted, rejected — whatever they left: a zip file, a directory tree) an accepted save of a well-formed
graph, followed by any number of write-protected / bad-level calls, leaves a target that loads as the canonical
form of that graph -/
theorem soRun_roundtrip (pre : Option Slot) (before after : List (Val × SaveArgs)) (cls : String)
    (attrs : List (String × Val)) (a : SaveArgs) (store path : String) (hwf : wfA (.obj cls attrs) = true)
    (hacc : resolveSave (fun _ => lexists (slotEnt (soRun pre before))) a = .ok (store, path))
    (hq : ∀ c ∈ after, c.2.mode ≠ "o" ∨ levelOk c.2.level = false) :
    loadFrom (soRun pre (before ++ [(.obj cls attrs, a)] ++ after)) = .ok (canon (.obj cls attrs)) := by
  have h := saveOnto_roundtrip (soRun pre before) cls attrs a store path hwf hacc
  rw [List.append_assoc, soRun_append]
  simp only [List.singleton_append, soRun, h.1]
  rw [soRun_protected _ after hq]
  exact h.2 _ h.1

/-! ### non-vacuity: concrete pre-states, configurations and a concrete graph -/

/-- a graph with a 12-element heterogeneous list (two-digit keys) -/
private def demoAttrs : List (String × Val) :=
  [("n", .scalar (.int 3)), ("s", .list ((List.range 12).map fun i => .scalar (.str (toString i))))]

example : wfA (.obj "SA" demoAttrs) = true := by decide +kernel

/-- zip onto a dangling symbolic link with mode "o" is accepted … -/
example : resolveSave (fun _ => lexists (slotEnt (some ⟨.link false true, none⟩)))
    { path := "t", mode := "o", store := "zip", level := none } = .ok ("zip", "t.zip") := by decide +kernel
/-- … dir onto a non-empty directory left by an earlier save with mode "o" and level 9 is accepted … -/
example : resolveSave (fun _ => lexists (slotEnt (some ⟨.dir false, some (save {} (.obj "SB" []))⟩)))
    { path := "t", mode := "o", store := "auto", level := some 9 } = .ok ("dir", "t") := by decide +kernel
/-- … a fresh target in write-once mode is accepted -/
example : resolveSave (fun _ => lexists (slotEnt none)) { path := "t.zip" } = .ok ("zip", "t.zip") := by decide +kernel
/-- the write-once hypothesis is satisfiable and the call is rejected on a dangling link -/
example : saveOnto (some ⟨.link true true, none⟩) (.obj "SA" demoAttrs) { path := "t.zip" }
    = .error (.call .fileExists) :=
  saveOnto_write_once _ _ _ (by decide) (by decide)
/-- a tracked pre-state whose history-model image agrees (hypotheses of `saveOnto_refines_hstep`) -/
example : slotTracked (some ⟨.file, some (save {} (.obj "SB" []))⟩) = true ∧
    fsGet [("t.zip", save {} (.obj "SB" []))] (resolvePath { path := "t.zip", mode := "o" })
      = slotContent (some ⟨.file, some (save {} (.obj "SB" []))⟩) :=
  ⟨rfl, by first | rfl | simp [fsGet, slotContent, resolvePath, resolveStore, endsZip]⟩
/-- the two stores on two different pre-states give the same loaded graph (instance of the theorem) -/
example : loadFrom (some ⟨.file, some (save {} (.obj "SA" demoAttrs))⟩)
    = loadFrom (some ⟨.dir false, some (save {} (.obj "SA" demoAttrs))⟩) := rfl

/-- a history on one target: dir save, a second call rejected (write-once), overwrite with level None — a directory holding the last graph -/
example : (soRun none [(.obj "SB" [], { path := "t", store := "dir" }), (.obj "SC" [], { path := "t", store := "dir" }),
    (.obj "SA" demoAttrs, { path := "t", mode := "o", store := "dir", level := none })]).map (·.kind) = some (.dir false) := by
  decide +kernel

end QuantemModel.Props.C01Ext
