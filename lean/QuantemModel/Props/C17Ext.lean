import QuantemModel.Props.C17
/-!
C17, growth round 6: the boundary of the Itoh condition, orientation symmetry, and the two
`wrap_around` settings on ONE grid.

* `find_wrap_iff` — exact characterisation (iff, all three values) of `_find_wrap`; the
  comparisons are strict, so a stored difference of exactly ±π gets increment 0
  (`find_wrap_boundary`), and exchanging the two pixels negates the increment
  (`find_wrap_antisymm`: a descending field is the mirror image of an ascending one).
* `unwrap_idempotent_closed` — the hypothesis of `unwrap_idempotent_smooth` weakened from
  `< π` to `≤ π`: already-unwrapped input whose neighbours differ by AT MOST π (exactly ±π
  included) is returned unchanged up to one constant.
* `itoh_boundary_counterexample` — for WRAPPED input the `< π` of the property cannot be
  weakened to `≤ π`: literal witness with a true difference of exactly π.
* `bounded_pairs_subset_periodic`, `seam_pair_periodic_only`, `bounded_region_within_periodic` —
  the bounded neighbour graph is a subgraph of the periodic one, the pairs across the seam are
  exactly what is added, so every bounded mask region lies inside one periodic region.
* `wrap_flip_agree` — two calls on the same `(H, W)`, mask and input, one with
  `wrap_around=True` and one with `wrap_around=False` (either order, any merge orders): both
  terminate, and their results differ by one constant on every bounded mask region.
* `seam_region_needs_wrap_around_counterexample` — the converse fails across the seam: on a mask
  whose two parts touch only across the seam the periodic call recovers the truth up to ONE
  constant, the bounded call up to two different ones (so a bounded run that silently used the
  periodic pairs, or the reverse, is a different function).
* `find_depth_le_rank` — after ANY unions the walk to the root takes at most `rank[root] − rank[x]`
  hops (tree height ≤ largest rank).
* `call_valid_mod` — the public entry point, EVERY input: result − input ∈ 2πℤ + one constant.
* `session_wrap_flip` — `wrap_flip_agree` inside any history of calls, either call first.
* `assemble_mean_zero`, `unwrap_output_mean_zero` — the single constant is the mean: every result on a
  non-empty grid sums to zero over all pixels.
* `unwrap_negation_equivariant` — for EVERY input and order, negating the input negates the output
  (`negOff_findAux/find/union/unionAll/finalOffsets`, `find_wrap_neg`, `assemble_neg`): a descending
  field is unwrapped exactly as the mirror image of the ascending one.
-/
namespace QuantemModel.Props.C17
open QuantemModel QuantemModel.Unwrap QuantemModel.Unwrap.UF

/-! ## 11. `_find_wrap` exactly; the closed boundary -/

/-- **`_find_wrap`, exact characterisation**: `-1` iff the stored difference exceeds π, `+1` iff it
is below −π, `0` iff it lies in the CLOSED interval `[-π, π]`. -/
theorem find_wrap_iff (half a b : ℝ) (hh : 0 < half) :
    (findWrap half a b = -1 ↔ half < a - b) ∧ (findWrap half a b = 1 ↔ a - b < -half) ∧
      (findWrap half a b = 0 ↔ |a - b| ≤ half) := by
  rw [findWrap_real, abs_le]
  by_cases h1 : half < a - b
  · have h2 : ¬ a - b < -half := by linarith
    have h3 : ¬ a - b ≤ half := by linarith
    simp [h1, h2, h3]
  · by_cases h2 : a - b < -half
    · have h3 : ¬ -half ≤ a - b := by linarith
      simp [h1, h2, h3]
    · have h3 : -half ≤ a - b := by linarith
      have h4 : a - b ≤ half := by linarith
      simp [h1, h2, h3, h4]

/-- a stored difference of exactly `+π` or exactly `−π` gets increment 0 (strict comparisons) -/
theorem find_wrap_boundary (half a b : ℝ) (hh : 0 < half) (h : a - b = half ∨ a - b = -half) :
    findWrap half a b = 0 := by
  refine ((find_wrap_iff half a b hh).2.2).mpr ?_
  rcases h with h | h <;> rw [h]
  · exact le_of_eq (abs_of_pos hh)
  · rw [abs_neg]; exact le_of_eq (abs_of_pos hh)

/-- **Orientation symmetry**: exchanging the two pixels of a pair negates the increment — a field
that falls through the branch cut is treated as the mirror image of one that rises through it. -/
theorem find_wrap_antisymm (half a b : ℝ) (hh : 0 < half) :
    findWrap half b a = - findWrap half a b := by
  rw [findWrap_real, findWrap_real]
  by_cases h1 : half < a - b
  · have h2 : ¬ half < b - a := by linarith
    have h3 : b - a < -half := by linarith
    simp [h1, h2, h3]
  · by_cases h2 : a - b < -half
    · have h3 : half < b - a := by linarith
      simp [h1, h2, h3]
    · have h3 : ¬ half < b - a := by linarith
      have h4 : ¬ b - a < -half := by linarith
      simp [h1, h2, h3, h4]

/-- **unwrap_idempotent_closed** — `unwrap_idempotent_smooth` with the hypothesis weakened to the
closed bound: already-unwrapped input whose neighbours (on every pair used) differ by at most π —
exactly ±π allowed — comes back unchanged up to ONE constant, in every merge order. -/
theorem unwrap_idempotent_closed (half : ℝ) (N : Nat) (φ : Nat → ℝ)
    (order : List (Nat × Nat)) (hin : ∀ p ∈ order, p.1 < N ∧ p.2 < N)
    (hle : ∀ p ∈ order, |φ p.1 - φ p.2| ≤ half) :
    ∃ (out : List ℝ) (c : ℝ),
      unwrapSorted half N φ (edgesOfPairs half φ order) = some out ∧ out.length = N ∧
      ∀ i, i < N → out.getD i 0 = φ i - c := by
  have hin' : ∀ e ∈ edgesOfPairs half φ order, e.i1 < N ∧ e.i2 < N := by
    intro e he
    obtain ⟨p, hp, rfl⟩ := (mem_edgesOfPairs half φ order e).mp he
    exact hin p hp
  obtain ⟨u, incs, root, hu, _, hincs, _, _, _, hcons⟩ := offsets_spec _ hin'
  have hn : ∀ e ∈ edgesOfPairs half φ order, e.inc = (fun _ => (0 : ℤ)) e.i1 - (fun _ => (0 : ℤ)) e.i2 := by
    intro e he
    obtain ⟨p, hp, rfl⟩ := (mem_edgesOfPairs half φ order e).mp he
    have h := abs_le.mp (hle p hp)
    have h3 : ¬ half < φ p.1 - φ p.2 := by linarith [h.2]
    have h4 : ¬ φ p.1 - φ p.2 < -half := by linarith [h.1]
    simp [findWrap_real, h3, h4]
  obtain ⟨_, hoff⟩ := hcons (fun _ => (0 : ℤ)) hn
  obtain ⟨c, hlen, hout⟩ := assemble_spec half N φ incs
  refine ⟨assemble half N φ incs, c, by simp [unwrapSorted, hu, hincs], hlen, ?_⟩
  intro i hi
  rw [hout i hi, hoff i hi]
  simp

/-- **The `< π` of the property is sharp for wrapped input.**  Truth `φ = (0, π)` (difference
exactly π), stored as `_wrap_to_pi` stores it, `w = (0, −π)` with wrap counts `(0, 1)`: the stored
difference is exactly `+π`, the increment is 0 (`find_wrap_boundary`), and the truth is NOT
recovered up to a constant.  (With `torch.angle`'s `(−π, π]` convention the mirror image
`φ = (0, −π)`, `w = (0, π)` fails the same way.)  Units of π, `half = 1`. -/
theorem itoh_boundary_counterexample :
    ∃ (φ w : Nat → ℝ) (n : Nat → ℤ), (∀ i, w i = φ i - 2 * 1 * n i ∧ -1 ≤ w i ∧ w i < 1) ∧
      |φ 0 - φ 1| = 1 ∧
      ∃ out : List ℝ, unwrapSorted (1 : ℝ) 2 w (edgesOfPairs 1 w [(0, 1)]) = some out ∧
        out.getD 0 0 - φ 0 ≠ out.getD 1 0 - φ 1 := by
  refine ⟨fun i => if i = 1 then 1 else 0, fun i => if i = 1 then -1 else 0, fun i => if i = 1 then 1 else 0,
    ?_, by norm_num, ?_⟩
  · intro i
    by_cases h : i = 1
    · simp [h]; norm_num
    · simp [h]
  · have he : edgesOfPairs (1 : ℝ) (fun i => if i = 1 then (-1 : ℝ) else 0) [(0, 1)] = [⟨0, 1, 0⟩] := by
      simp [edgesOfPairs, findWrap_real]
    have hu : (unionAll (UF.init 2) [⟨0, 1, 0⟩]).bind finalOffsets = some [0, 0] := by decide
    obtain ⟨c, _, hout⟩ := assemble_spec (1 : ℝ) 2 (fun i => if i = 1 then (-1 : ℝ) else 0) [0, 0]
    refine ⟨assemble 1 2 (fun i => if i = 1 then (-1 : ℝ) else 0) [0, 0], ?_, ?_⟩
    · rw [he]
      unfold unwrapSorted
      cases h1 : unionAll (UF.init 2) [⟨0, 1, 0⟩] with
      | none => simp [h1] at hu
      | some u =>
        simp only [h1, Option.bind_some] at hu
        simp [hu]
    · rw [hout 0 (by norm_num), hout 1 (by norm_num)]
      norm_num
      intro h
      linarith

/-! ## 12. Bounded and periodic grid on the same `(H, W)` -/

/-- every neighbour pair of the bounded grid is a neighbour pair of the periodic grid -/
theorem bounded_pairs_subset_periodic (H W : Nat) :
    ∀ p ∈ edgePairs H W false, p ∈ edgePairs H W true := by
  rintro ⟨a, b⟩ hp
  obtain ⟨r, c, hr, hc, ha, hb⟩ := (mem_edgePairs_bounded H W a b).mp hp
  refine (mem_edgePairs_periodic H W a b).mpr ⟨r, c, hr, hc, ha, ?_⟩
  rcases hb with ⟨h1, hb⟩ | ⟨h1, hb⟩
  · exact Or.inl (by rw [Nat.mod_eq_of_lt h1]; exact hb)
  · exact Or.inr (by rw [Nat.mod_eq_of_lt h1]; exact hb)

/-- bounded pairs run from a pixel to a pixel with a LARGER flat index (right / lower neighbour) -/
theorem bounded_pairs_increasing (H W a b : Nat) (h : (a, b) ∈ edgePairs H W false) : a < b := by
  obtain ⟨r, c, _, hc, ha, hb⟩ := (mem_edgePairs_bounded H W a b).mp h
  rcases hb with ⟨_, hb⟩ | ⟨_, hb⟩
  · omega
  · rw [Nat.succ_mul] at hb
    omega

/-- **The seam pairs are what `wrap_around=True` adds**: the pair from the last pixel of a row to its
first pixel (`W ≥ 2`) and from the last pixel of a column to its first (`H ≥ 2`) are pairs of the
periodic grid and not of the bounded one. -/
theorem seam_pair_periodic_only (H W : Nat) :
    (∀ r, r < H → 2 ≤ W → (r * W + (W - 1), r * W) ∈ edgePairs H W true ∧
        (r * W + (W - 1), r * W) ∉ edgePairs H W false) ∧
    (∀ c, c < W → 2 ≤ H → ((H - 1) * W + c, c) ∈ edgePairs H W true ∧
        ((H - 1) * W + c, c) ∉ edgePairs H W false) := by
  constructor
  · intro r hr hW
    constructor
    · refine (mem_edgePairs_periodic H W _ _).mpr ⟨r, W - 1, hr, by omega, rfl, Or.inl ?_⟩
      have : W - 1 + 1 = W := by omega
      rw [this, Nat.mod_self, Nat.add_zero]
    · intro h
      have := bounded_pairs_increasing H W _ _ h
      omega
  · intro c hc hH
    constructor
    · refine (mem_edgePairs_periodic H W _ _).mpr ⟨H - 1, c, by omega, hc, rfl, Or.inr ?_⟩
      have : H - 1 + 1 = H := by omega
      rw [this, Nat.mod_self]
      simp
    · intro h
      have h1 := bounded_pairs_increasing H W _ _ h
      have h2 : 1 * W ≤ (H - 1) * W := Nat.mul_le_mul_right W (by omega)
      omega

/-- every mask region of the bounded grid lies inside one mask region of the periodic grid -/
theorem bounded_region_within_periodic (H W : Nat) (mask : Nat → Bool) (a b : Nat)
    (h : Conn (maskedPairs H W mask false) a b) : Conn (maskedPairs H W mask true) a b := by
  unfold Conn at h ⊢
  refine Relation.EqvGen.mono (fun x y hxy => ?_) a b h
  unfold maskedPairs at hxy ⊢
  obtain ⟨h1, h2⟩ := List.mem_filter.mp hxy
  exact List.mem_filter.mpr ⟨bounded_pairs_subset_periodic H W _ h1, h2⟩

/-- **Two calls on one grid that differ only in `wrap_around`** (either call first; `orderP`,
`orderB` any merge orders the two sorts could produce): for a field that is Itoh-smooth on the
periodic masked pairs both calls terminate, and on every mask region of the BOUNDED grid the two
results differ by one constant — what the periodic call adds is only which regions share it. -/
theorem wrap_flip_agree (half : ℝ) (hh : 0 < half) (H W : Nat) (mask : Nat → Bool)
    (φ w : Nat → ℝ) (n : Nat → ℤ) (orderP orderB : List (Nat × Nat))
    (hpermP : orderP.Perm (maskedPairs H W mask true))
    (hpermB : orderB.Perm (maskedPairs H W mask false))
    (hwrap : IsWrapOn half (fun i => i < H * W ∧ mask i = true) w φ n)
    (hitoh : ∀ p ∈ maskedPairs H W mask true, |φ p.1 - φ p.2| < half) :
    ∃ outP outB : List ℝ,
      unwrapPhase2d half H W w orderP = some outP ∧ unwrapPhase2d half H W w orderB = some outB ∧
      outP.length = H * W ∧ outB.length = H * W ∧
      ∀ a b, a < H * W → b < H * W → Conn (maskedPairs H W mask false) a b →
        outP.getD a 0 - outB.getD a 0 = outP.getD b 0 - outB.getD b 0 := by
  have hitohB : ∀ p ∈ maskedPairs H W mask false, |φ p.1 - φ p.2| < half := by
    intro p hp
    refine hitoh p ?_
    unfold maskedPairs at hp ⊢
    obtain ⟨h1, h2⟩ := List.mem_filter.mp hp
    exact List.mem_filter.mpr ⟨bounded_pairs_subset_periodic H W _ h1, h2⟩
  obtain ⟨outP, hP, hlP, hcP⟩ := unwrap_correct_grid half hh H W mask true φ w n orderP hpermP hwrap hitoh
  obtain ⟨outB, hB, hlB, hcB⟩ := unwrap_correct_grid half hh H W mask false φ w n orderB hpermB hwrap hitohB
  refine ⟨outP, outB, hP, hB, hlP, hlB, fun a b ha hb hc => ?_⟩
  have e1 := hcP a b ha hb (bounded_region_within_periodic H W mask a b hc)
  have e2 := hcB a b ha hb hc
  linarith

/-- **A region held together only by the seam.**  `1 × 3` grid, mask `[1, 0, 1]`, truth
`φ = (3/4, ·, 5/4)·π` stored wrapped as `(3/4, ·, −3/4)·π`: the periodic call (its only masked
pair that is not a self-loop is the seam pair `(2, 0)`) returns the truth up to ONE constant on
the two masked pixels, the bounded call (no masked pair at all) does not. -/
theorem seam_region_needs_wrap_around_counterexample :
    ∃ (φ w : Nat → ℝ) (mask : Nat → Bool),
      maskedPairs 1 3 mask false = [] ∧ (2, 0) ∈ maskedPairs 1 3 mask true ∧
      |φ 2 - φ 0| < 1 ∧
      (∃ outP : List ℝ, unwrapPhase2d (1 : ℝ) 1 3 w (maskedPairs 1 3 mask true) = some outP ∧
        outP.getD 0 0 - φ 0 = outP.getD 2 0 - φ 2) ∧
      (∃ outB : List ℝ, unwrapPhase2d (1 : ℝ) 1 3 w (maskedPairs 1 3 mask false) = some outB ∧
        outB.getD 0 0 - φ 0 ≠ outB.getD 2 0 - φ 2) := by
  let w : Nat → ℝ := fun i => if i = 0 then 3 / 4 else if i = 2 then -3 / 4 else 0
  have hmP : maskedPairs 1 3 (fun i => i != 1) true = [(2, 0), (0, 0), (2, 2)] := by decide
  have hmB : maskedPairs 1 3 (fun i => i != 1) false = [] := by decide
  refine ⟨fun i => if i = 0 then 3 / 4 else if i = 2 then 5 / 4 else 0, w, fun i => i != 1,
    hmB, by rw [hmP]; simp, by norm_num, ?_, ?_⟩
  · have he : edgesOfPairs (1 : ℝ) w [(2, 0), (0, 0), (2, 2)] = [⟨2, 0, 1⟩, ⟨0, 0, 0⟩, ⟨2, 2, 0⟩] := by
      simp [edgesOfPairs, findWrap_real, w]; norm_num
    have hu : (unionAll (UF.init 3) [⟨2, 0, 1⟩, ⟨0, 0, 0⟩, ⟨2, 2, 0⟩]).bind finalOffsets = some [-1, 0, 0] := by decide
    obtain ⟨c, _, hout⟩ := assemble_spec (1 : ℝ) 3 w [-1, 0, 0]
    refine ⟨assemble 1 3 w [-1, 0, 0], ?_, ?_⟩
    · rw [hmP]
      unfold unwrapPhase2d
      rw [he]
      unfold unwrapSorted
      cases h1 : unionAll (UF.init 3) [⟨2, 0, 1⟩, ⟨0, 0, 0⟩, ⟨2, 2, 0⟩] with
      | none => simp [h1] at hu
      | some u =>
        simp only [h1, Option.bind_some] at hu
        simp [hu]
    · rw [hout 0 (by norm_num), hout 2 (by norm_num)]
      simp [w]
      ring
  · have hu : (unionAll (UF.init 3) []).bind finalOffsets = some [0, 0, 0] := by decide
    obtain ⟨c, _, hout⟩ := assemble_spec (1 : ℝ) 3 w [0, 0, 0]
    refine ⟨assemble 1 3 w [0, 0, 0], ?_, ?_⟩
    · rw [hmB]
      unfold unwrapPhase2d
      have he : edgesOfPairs (1 : ℝ) w [] = [] := rfl
      rw [he]
      unfold unwrapSorted
      cases h1 : unionAll (UF.init 3) [] with
      | none => simp [h1] at hu
      | some u =>
        simp only [h1, Option.bind_some] at hu
        simp [hu]
    · rw [hout 0 (by norm_num), hout 2 (by norm_num)]
      simp [w]
      norm_num
      intro h
      linarith

/-! ## Non-vacuity -/

/-- all three values of `_find_wrap` occur, the boundary is met from both sides -/
example : findWrap (1 : Rat) (3/4) (-3/4) = -1 ∧ findWrap (1 : Rat) (-3/4) (3/4) = 1 ∧
    findWrap (1 : Rat) (1/2) (-1/2) = 0 ∧ findWrap (1 : Rat) (-1/2) (1/2) = 0 := by decide +kernel

/-- the hypothesis of `unwrap_idempotent_closed` with a difference of exactly `half` -/
example : ∀ p ∈ [((0 : Nat), (1 : Nat))], |(fun i : Nat => if i = 1 then (1 : ℝ) else 0) p.1 -
    (fun i : Nat => if i = 1 then (1 : ℝ) else 0) p.2| ≤ 1 := by
  intro p hp
  simp at hp
  subst hp
  norm_num

/-- seam pairs on a non-square grid, both axes -/
example : (1 * 3 + 2, 1 * 3) ∈ edgePairs 2 3 true ∧ ((2 - 1) * 3 + 1, 1) ∈ edgePairs 2 3 true := by decide

/-- the hypotheses of `wrap_flip_agree` are satisfiable by a field that wraps: `1 × 4`, no mask,
periodic tent `0, 3/4, 3/2, 3/4` (·π) stored as `0, 3/4, −1/2, 3/4` -/
example : ∃ (φ w : Nat → ℝ) (n : Nat → ℤ),
    IsWrapOn 1 (fun i => i < 1 * 4 ∧ (fun _ => true) i = true) w φ n ∧
    (∀ p ∈ maskedPairs 1 4 (fun _ => true) true, |φ p.1 - φ p.2| < 1) ∧ n 2 ≠ n 1 := by
  refine ⟨fun i => #[(0 : ℝ), 3/4, 3/2, 3/4].getD i 0, fun i => #[(0 : ℝ), 3/4, -1/2, 3/4].getD i 0,
    fun i => #[(0 : ℤ), 0, 1, 0].getD i 0, ?_, ?_, by decide⟩
  · rintro i ⟨hi, _⟩
    have : i = 0 ∨ i = 1 ∨ i = 2 ∨ i = 3 := by omega
    rcases this with rfl | rfl | rfl | rfl <;> norm_num
  · have hm : maskedPairs 1 4 (fun _ => true) true = [(0, 1), (1, 2), (2, 3), (3, 0), (0, 0), (1, 1), (2, 2), (3, 3)] := by decide
    rw [hm]
    intro p hp
    simp only [List.mem_cons, List.mem_nil_iff, or_false] at hp
    rcases hp with rfl | rfl | rfl | rfl | rfl | rfl | rfl | rfl <;> norm_num

/-! ## 13. Tree height, the public entry point for every input, `wrap_around` flipped inside a history -/

/-- ranks never decrease on the way to the root -/
theorem findAux_rank_le {u : UF} {N : Nat} (hwf : WF u N) : ∀ (fuel z : Nat) (acc : Int) (r : Nat) (t : Int),
    z < N → u.findAux fuel z acc = some (r, t) → u.rk z ≤ u.rk r := by
  intro fuel
  induction fuel with
  | zero => intro z acc r t _ h; simp [findAux] at h
  | succ k ih =>
    intro z acc r t hz h
    rw [findAux_succ] at h
    by_cases hp : u.par z = z
    · simp only [ne_eq, hp, not_true_eq_false, if_false, Option.some.injEq, Prod.mk.injEq] at h
      obtain ⟨rfl, _⟩ := h
      exact Nat.le_refl _
    · simp only [ne_eq, hp, not_false_eq_true, if_true] at h
      have h1 := ih _ _ _ _ (hwf.lt z hz) h
      have h2 := hwf.rank_lt z hz hp
      omega

/-- the walk from `z` to its root `r` needs at most `rk r − rk z` hops -/
theorem findAux_within_rank {u : UF} {N : Nat} (hwf : WF u N) : ∀ (fuel z : Nat) (acc : Int) (r : Nat) (t : Int),
    z < N → u.findAux fuel z acc = some (r, t) → u.findAux (u.rk r - u.rk z + 1) z acc = some (r, t) := by
  intro fuel
  induction fuel with
  | zero => intro z acc r t _ h; simp [findAux] at h
  | succ k ih =>
    intro z acc r t hz h
    rw [findAux_succ] at h
    rw [findAux_succ]
    by_cases hp : u.par z = z
    · simpa [hp] using h
    · simp only [ne_eq, hp, not_false_eq_true, if_true] at h ⊢
      have h1 := ih _ _ _ _ (hwf.lt z hz) h
      have h2 := hwf.rank_lt z hz hp
      have h3 := findAux_rank_le hwf _ _ _ _ _ (hwf.lt z hz) h
      have e : u.rk r - u.rk z = (u.rk r - u.rk (u.par z) + 1) + (u.rk r - u.rk z - (u.rk r - u.rk (u.par z) + 1)) := by
        omega
      rw [e]
      exact findAux_mono' u _ _ _ _ _ h1

/-- **Tree height ≤ rank** (what union by rank WITHOUT path compression buys, and what any
vectorised replacement of the per-pixel walk in `_final_offsets` may rely on): after the unions of
ANY edge list, `find_root_and_offset(x)` reaches the root `r` of `x` after at most
`rank[r] − rank[x]` parent hops (`+ 1` loop tests), so no walk is longer than the largest rank;
the accumulated offset is the sum over exactly those hops. -/
theorem find_depth_le_rank (N : Nat) (es : List Edge) (hin : ∀ e ∈ es, e.i1 < N ∧ e.i2 < N) :
    ∃ u, unionAll (UF.init N) es = some u ∧
      ∀ x, x < N → ∃ r t, u.find x = some (r, t) ∧ u.rk x ≤ u.rk r ∧
        u.findAux (u.rk r - u.rk x + 1) x 0 = some (r, t) := by
  obtain ⟨u, hu, hwf, hfind⟩ := find_terminates N es hin
  refine ⟨u, hu, fun x hx => ?_⟩
  obtain ⟨r, t, h, _, _⟩ := hfind x hx
  exact ⟨r, t, h, findAux_rank_le hwf _ _ _ _ _ hx h, findAux_within_rank hwf _ _ _ _ _ hx h⟩

/-- executed: a chain of four unions builds a tree of height 2 = its largest rank; pixel 3 is two
hops from the root 0 and its offset is the sum over both hops -/
example : ((unionAll (UF.init 4) [⟨0, 1, 1⟩, ⟨2, 3, -1⟩, ⟨1, 3, 2⟩]).map fun u =>
    (u.rank.toList, u.find 3, u.findAux 3 3 0, u.findAux 2 3 0)) = some ([2, 0, 1, 0], some (0, -3), some (0, -3), none) := by
  decide

/-- **The second clause of the property at the public entry point, for EVERY input** (no smoothness,
any stored values, any mask values, bounded or periodic, merge order handed in or the model's own
sort with any function in the place of `_wrap_to_pi`): a well-formed call never raises, returns
`H*W` values, and the result differs from the input by integer multiples of `2π` plus one single
constant.  (Front end `validateWorker` + core `unwrap_mod`, composed.) -/
theorem call_valid_mod (half : ℝ) (wrapf : ℝ → ℝ) (c : Call ℝ) (H W : Nat) (hwf : WellFormed c H W) :
    ∃ (out : List ℝ) (k : Nat → ℤ) (c0 : ℝ), callOutcome half wrapf c = .unwrapped out ∧ out.length = H * W ∧
      ∀ i, i < H * W → out.getD i 0 - c.phi i = 2 * half * (k i : ℝ) - c0 := by
  obtain ⟨meth, shape, phi, mask, wrap, order⟩ := c
  obtain ⟨hm, hs, hmask, hord⟩ := hwf
  simp only at hm hs hmask hord
  subst hm hs
  have hval : validateWorker [H, W] mask wrap = .ok (H, W, effMask mask) := by
    cases mask with
    | none => rfl
    | some m =>
      obtain ⟨ms, mv⟩ := m
      have : ms = [H, W] := hmask ⟨ms, mv⟩ rfl
      subst this
      exact validateWorker_full H W mv wrap
  cases order with
  | some o =>
    have hin : ∀ p ∈ o, p.1 < H * W ∧ p.2 < H * W :=
      fun p hp => maskedPairs_lt H W (effMask mask) wrap p ((hord o rfl).mem_iff.mp hp)
    obtain ⟨out, k, c0, h1, h2, h3⟩ := unwrap_mod half (H * W) phi o hin
    refine ⟨out, k, c0, ?_, h2, h3⟩
    simp [callOutcome, hval, unwrapPhase2d, h1]
  | none =>
    have hin : ∀ p ∈ sortedPairs wrapf H W phi (effMask mask) wrap, p.1 < H * W ∧ p.2 < H * W := by
      intro p hp
      unfold sortedPairs sortPairs at hp
      exact maskedPairs_lt H W (effMask mask) wrap p ((List.mergeSort_perm _ _).mem_iff.mp hp)
    obtain ⟨out, k, c0, h1, h2, h3⟩ := unwrap_mod half (H * W) phi _ hin
    refine ⟨out, k, c0, ?_, h2, h3⟩
    simp [callOutcome, hval, unwrapPhase2d, h1]

/-- **`wrap_around` flipped between two calls of one history.**  In ANY history of calls on the
module (valid and rejected ones, any number, any order) that contains, at positions `i` and `j` —
`i < j` or `j < i` —, two well-formed calls on the same `H × W` grid with the same stored phase and
the same mask, one with `wrap_around=True` and one with `wrap_around=False`: if the stored phase
is the wrapped truth inside the mask and the truth is Itoh on the periodic masked pairs, both
calls return, and on every mask region of the bounded grid the two results differ by one
constant.  (Nothing the periodic call computed — neighbour pairs, union–find, offsets — can show
in the bounded call or the reverse; the harness runs such histories in both orders.) -/
theorem session_wrap_flip (half : ℝ) (hh : 0 < half) (wrapf : ℝ → ℝ) (cs : List (Call ℝ)) (i j : Nat)
    (cP cB : Call ℝ) (hi : cs[i]? = some cP) (hj : cs[j]? = some cB) (H W : Nat)
    (hwfP : WellFormed cP H W) (hwfB : WellFormed cB H W)
    (hP : cP.wrap = true) (hB : cB.wrap = false) (hphi : cB.phi = cP.phi) (hmask : cB.mask = cP.mask)
    (φ : Nat → ℝ) (n : Nat → ℤ)
    (hwrap : IsWrapOn half (fun i => i < H * W ∧ effMask cP.mask i = true) cP.phi φ n)
    (hitoh : ∀ p ∈ maskedPairs H W (effMask cP.mask) true, |φ p.1 - φ p.2| < half) :
    ∃ outP outB : List ℝ,
      (runSession half wrapf cs)[i]? = some (.unwrapped outP) ∧
      (runSession half wrapf cs)[j]? = some (.unwrapped outB) ∧
      outP.length = H * W ∧ outB.length = H * W ∧
      ∀ a b, a < H * W → b < H * W → Conn (maskedPairs H W (effMask cP.mask) false) a b →
        outP.getD a 0 - outB.getD a 0 = outP.getD b 0 - outB.getD b 0 := by
  have hitohB : ∀ p ∈ maskedPairs H W (effMask cB.mask) cB.wrap, |φ p.1 - φ p.2| < half := by
    intro p hp
    rw [hmask, hB] at hp
    refine hitoh p ?_
    unfold maskedPairs at hp ⊢
    obtain ⟨h1, h2⟩ := List.mem_filter.mp hp
    exact List.mem_filter.mpr ⟨bounded_pairs_subset_periodic H W _ h1, h2⟩
  obtain ⟨outP, oP, lP, kP⟩ := call_valid_correct half hh wrapf cP H W hwfP φ n hwrap (by rw [hP]; exact hitoh)
  obtain ⟨outB, oB, lB, kB⟩ := call_valid_correct half hh wrapf cB H W hwfB φ n (by rw [hmask, hphi]; exact hwrap) hitohB
  refine ⟨outP, outB, by simp [runSession, hi, oP], by simp [runSession, hj, oB], lP, lB, fun a b ha hb hc => ?_⟩
  have e1 := kP a b ha hb (by rw [hP]; exact bounded_region_within_periodic H W _ a b hc)
  have e2 := kB a b ha hb (by rw [hmask, hB]; exact hc)
  linarith

/-- the hypotheses of `session_wrap_flip` (and `WellFormed` for `call_valid_mod`) are satisfiable by a
field that really wraps: the periodic tent `0, 3/4, 3/2, 3/4` (·π) on a `1 × 4` grid, no mask, the model's
own sort, once with `wrap_around=True` and once with `wrap_around=False` -/
example : ∃ (cP cB : Call ℝ) (φ : Nat → ℝ) (n : Nat → ℤ), WellFormed cP 1 4 ∧ WellFormed cB 1 4 ∧
    cP.wrap = true ∧ cB.wrap = false ∧ cB.phi = cP.phi ∧ cB.mask = cP.mask ∧
    IsWrapOn 1 (fun i => i < 1 * 4 ∧ effMask cP.mask i = true) cP.phi φ n ∧
    (∀ p ∈ maskedPairs 1 4 (effMask cP.mask) true, |φ p.1 - φ p.2| < 1) ∧ n 2 ≠ n 1 := by
  refine ⟨⟨.reliabilitySorting, [1, 4], fun i => #[(0 : ℝ), 3/4, -1/2, 3/4].getD i 0, none, true, none⟩,
    ⟨.reliabilitySorting, [1, 4], fun i => #[(0 : ℝ), 3/4, -1/2, 3/4].getD i 0, none, false, none⟩,
    fun i => #[(0 : ℝ), 3/4, 3/2, 3/4].getD i 0, fun i => #[(0 : ℤ), 0, 1, 0].getD i 0,
    ⟨rfl, rfl, fun m hm => (by cases hm), fun o ho => (by cases ho)⟩,
    ⟨rfl, rfl, fun m hm => (by cases hm), fun o ho => (by cases ho)⟩, rfl, rfl, rfl, rfl, ?_, ?_, by decide⟩
  · rintro i ⟨hi, _⟩
    have : i = 0 ∨ i = 1 ∨ i = 2 ∨ i = 3 := by omega
    rcases this with rfl | rfl | rfl | rfl <;> norm_num
  · have hm : maskedPairs 1 4 (effMask none) true = [(0, 1), (1, 2), (2, 3), (3, 0), (0, 0), (1, 1), (2, 2), (3, 3)] := by decide
    simp only [hm]
    intro p hp
    simp only [List.mem_cons, List.mem_nil_iff, or_false] at hp
    rcases hp with rfl | rfl | rfl | rfl | rfl | rfl | rfl | rfl <;> norm_num

/-- the executable session on that pair of calls, both orders (run at `Rat`, `half = 1`): the two results are
equal here (the bounded grid is connected), and each equals the truth minus its mean -/
example :
    let φ : Nat → Rat := fun i => #[0, 3/4, -1/2, 3/4].getD i 0
    (runSession (1 : Rat) wrapToPiRat [⟨.reliabilitySorting, [1, 4], φ, none, true, some [(3, 0), (1, 2), (0, 1), (2, 3), (0, 0), (1, 1), (2, 2), (3, 3)]⟩,
        ⟨.reliabilitySorting, [1, 4], φ, none, false, some [(2, 3), (0, 1), (1, 2)]⟩]).map outcomeTag
      = [("ok", some [-3/4, 0, 3/4, 0]), ("ok", some [-3/4, 0, 3/4, 0])] ∧
    (runSession (1 : Rat) wrapToPiRat [⟨.reliabilitySorting, [1, 4], φ, none, false, some [(2, 3), (0, 1), (1, 2)]⟩,
        ⟨.reliabilitySorting, [1, 4], φ, none, true, some [(3, 0), (1, 2), (0, 1), (2, 3), (0, 0), (1, 1), (2, 2), (3, 3)]⟩]).map outcomeTag
      = [("ok", some [-3/4, 0, 3/4, 0]), ("ok", some [-3/4, 0, 3/4, 0])] := by
  decide +kernel

/-! ## 14. Which constant: the output has mean zero -/

/-- `Num.sum` (a left fold) at ℝ -/
theorem foldl_add_real (xs : List ℝ) : ∀ a : ℝ, xs.foldl (· + ·) a = a + xs.sum := by
  induction xs with
  | nil => intro a; simp
  | cons x xs ih => intro a; rw [List.foldl_cons, ih, List.sum_cons]; ring

theorem sum_map_sub_const (xs : List ℝ) (m : ℝ) : (xs.map (· - m)).sum = xs.sum - xs.length * m := by
  induction xs with
  | nil => simp
  | cons x xs ih => simp only [List.map_cons, List.sum_cons, List.length_cons, ih]; push_cast; ring

/-- **Which constant.**  `out -= out.mean()`: on a non-empty grid the assembled output has mean
zero over ALL `N` pixels (masked-out ones included) — the "single constant" of the property is
the mean of `phi + 2π·incs`, nothing else. -/
theorem assemble_mean_zero (half : ℝ) (N : Nat) (hN : 0 < N) (phi : Nat → ℝ) (incs : List Int) :
    (assemble half N phi incs).sum = 0 := by
  unfold assemble
  simp only [Num.sum]
  rw [sum_map_sub_const, foldl_add_real]
  simp only [NumReal.zero_eq, NumReal.div_eq, NumReal.ofNat_eq, List.length_map, List.length_range, zero_add]
  have : (N : ℝ) ≠ 0 := by exact_mod_cast hN.ne'
  field_simp
  ring

/-- … for every run of the unwrapper on a non-empty grid (any input, any edges, any order) -/
theorem unwrap_output_mean_zero (half : ℝ) (N : Nat) (hN : 0 < N) (w : Nat → ℝ) (es : List Edge) (out : List ℝ)
    (h : unwrapSorted half N w es = some out) : out.sum = 0 := by
  unfold unwrapSorted at h
  cases h1 : unionAll (UF.init N) es with
  | none => simp [h1] at h
  | some u =>
    cases h2 : finalOffsets u with
    | none => simp [h1, h2] at h
    | some incs =>
      simp only [h1, h2, Option.some.injEq] at h
      rw [← h]
      exact assemble_mean_zero half N hN w incs

example : (unwrapPhase2d (1 : Rat) 1 4 (fun i => #[0, 3/4, -1/2, 1/4].getD i 0) [(2, 3), (0, 1), (1, 2)]).map
    (fun o => Num.sum o) = some 0 := by decide +kernel

/-! ## 15. Orientation symmetry of the whole run -/

/-- the union–find structure with every stored offset negated -/
def negOff (u : UF) : UF := { u with offset := u.offset.map (fun x => -x) }

theorem negOff_par (u : UF) (i : Nat) : (negOff u).par i = u.par i := rfl
theorem negOff_rk (u : UF) (i : Nat) : (negOff u).rk i = u.rk i := rfl
theorem negOff_off (u : UF) (i : Nat) : (negOff u).off i = - u.off i := by
  simp only [negOff, UF.off, Array.getD_eq_getD_getElem?, Array.getElem?_map]
  cases u.offset[i]? <;> simp

theorem negOff_findAux (u : UF) : ∀ (fuel z : Nat) (acc : Int),
    (negOff u).findAux fuel z acc = (u.findAux fuel z (-acc)).map fun p => (p.1, -p.2) := by
  intro fuel
  induction fuel with
  | zero => intro z acc; simp [findAux]
  | succ k ih =>
    intro z acc
    rw [findAux_succ, findAux_succ, negOff_par, negOff_off]
    by_cases hp : u.par z = z
    · simp [hp]
    · simp only [ne_eq, hp, not_false_eq_true, if_true]
      rw [ih]
      congr 2
      ring

theorem negOff_find (u : UF) (x : Nat) :
    (negOff u).find x = (u.find x).map fun p => (p.1, -p.2) := by
  unfold UF.find
  have : (negOff u).parent.size = u.parent.size := rfl
  rw [this, negOff_findAux]
  simp

theorem negOff_union (u : UF) (x y : Nat) (inc : Int) :
    (negOff u).union x y (-inc) = (u.union x y inc).map negOff := by
  unfold UF.union
  rw [negOff_find, negOff_find]
  cases hx : u.find x with
  | none => simp
  | some px =>
    cases hy : u.find y with
    | none => simp
    | some py =>
      obtain ⟨rx, ox⟩ := px
      obtain ⟨ry, oy⟩ := py
      simp only [Option.map_some, negOff_rk]
      by_cases hr : (rx == ry) = true
      · simp [hr]
      · simp only [hr, Bool.false_eq_true, if_false]
        by_cases hk : u.rk rx < u.rk ry
        · simp only [hk, if_true, Option.map_some, Option.some.injEq]
          simp only [negOff, Array.map_setIfInBounds]
          congr 2
          ring
        · simp only [hk, if_false, Option.map_some, Option.some.injEq]
          simp only [negOff, Array.map_setIfInBounds]
          congr 2
          ring

/-- every increment negated -/
def negEdges (es : List Edge) : List Edge := es.map fun e => { e with inc := -e.inc }

theorem negOff_unionAll : ∀ (es : List Edge) (u : UF),
    unionAll (negOff u) (negEdges es) = (unionAll u es).map negOff := by
  intro es
  induction es with
  | nil => intro u; simp [negEdges, unionAll]
  | cons e es ih =>
    intro u
    simp only [negEdges, List.map_cons, unionAll]
    rw [negOff_union]
    cases h : u.union e.i1 e.i2 e.inc with
    | none => simp
    | some u' => simpa [negEdges] using ih u'

theorem negOff_init (N : Nat) : negOff (UF.init N) = UF.init N := by
  simp [negOff, UF.init]

theorem allSome_map {α β : Type} (f : α → β) : ∀ l : List (Option α),
    allSome (l.map (Option.map f)) = (allSome l).map (List.map f) := by
  intro l
  induction l with
  | nil => simp [allSome]
  | cons x xs ih =>
    cases x with
    | none => simp [allSome]
    | some a =>
      simp only [List.map_cons, Option.map_some, allSome, ih]
      cases allSome xs <;> simp

theorem negOff_finalOffsets (u : UF) :
    finalOffsets (negOff u) = (finalOffsets u).map (List.map fun k => -k) := by
  unfold finalOffsets
  have : (negOff u).parent.size = u.parent.size := rfl
  rw [this, ← allSome_map]
  congr 1
  simp only [List.map_map]
  refine List.map_congr_left fun i _ => ?_
  simp only [Function.comp, negOff_find]
  cases u.find i <;> simp

theorem find_wrap_neg (half a b : ℝ) (hh : 0 < half) : findWrap half (-a) (-b) = - findWrap half a b := by
  rw [← find_wrap_antisymm half a b hh, findWrap_real, findWrap_real]
  have : -a - -b = b - a := by ring
  rw [this]

theorem edgesOfPairs_neg (half : ℝ) (hh : 0 < half) (w : Nat → ℝ) (pairs : List (Nat × Nat)) :
    edgesOfPairs half (fun i => - w i) pairs = negEdges (edgesOfPairs half w pairs) := by
  simp only [edgesOfPairs, negEdges, List.map_map]
  refine List.map_congr_left fun p _ => ?_
  simp [Function.comp, find_wrap_neg half _ _ hh]

theorem sum_map_neg_real (xs : List ℝ) : (xs.map fun x => -x).sum = - xs.sum := by
  induction xs with
  | nil => simp
  | cons x xs ih => simp only [List.map_cons, List.sum_cons, ih]; ring

theorem assemble_neg (half : ℝ) (N : Nat) (w : Nat → ℝ) (incs : List Int) :
    assemble half N (fun i => - w i) (incs.map fun k => -k) = (assemble half N w incs).map fun x => -x := by
  unfold assemble
  simp only [Num.sum, foldl_add_real, NumReal.zero_eq, zero_add, NumReal.div_eq, NumReal.ofNat_eq, List.map_map]
  have hf : ((List.range N).map fun i => (fun i => - w i) i + Num.two * half * Num.ofInt ((incs.map fun k => -k).toArray.getD i 0))
      = ((List.range N).map fun i => w i + Num.two * half * Num.ofInt (incs.toArray.getD i 0)).map fun x => -x := by
    rw [List.map_map]
    refine List.map_congr_left fun i _ => ?_
    simp only [Function.comp, Array.getD_eq_getD_getElem?, List.getElem?_toArray, List.getElem?_map,
      NumReal.two_eq, NumReal.ofInt_eq]
    cases incs[i]? <;> simp <;> ring
  rw [hf, sum_map_neg_real]
  refine List.map_congr_left fun i _ => ?_
  simp only [Function.comp, Array.getD_eq_getD_getElem?, List.getElem?_toArray, List.getElem?_map,
    NumReal.two_eq, NumReal.ofInt_eq, NumReal.sub_eq]
  cases incs[i]? <;> simp <;> ring

/-- **Orientation symmetry of the whole run.**  For EVERY input (no smoothness), every edge list in
every order: negating the input negates the output — all increments, all stored offsets and the
subtracted mean change sign, parents and ranks (hence the trees and the merge decisions) stay.  A
field that falls through the branch cut is unwrapped exactly as the mirror image of the field
that rises through it; nothing in the union–find bookkeeping depends on the sign of an offset. -/
theorem unwrap_negation_equivariant (half : ℝ) (hh : 0 < half) (N : Nat) (w : Nat → ℝ) (order : List (Nat × Nat)) :
    unwrapSorted half N (fun i => - w i) (edgesOfPairs half (fun i => - w i) order)
      = (unwrapSorted half N w (edgesOfPairs half w order)).map (List.map fun x => -x) := by
  rw [edgesOfPairs_neg half hh]
  unfold unwrapSorted
  have h := negOff_unionAll (edgesOfPairs half w order) (UF.init N)
  rw [negOff_init] at h
  rw [h]
  cases h1 : unionAll (UF.init N) (edgesOfPairs half w order) with
  | none => simp
  | some u =>
    simp only [Option.map_some, negOff_finalOffsets]
    cases h2 : finalOffsets u with
    | none => simp
    | some incs => simp [assemble_neg]

/-- executed at `Rat`: the descending ramp `0, −3/4, −3/2, −9/4` (·π) comes back as the mirror image of the
ascending one -/
example : unwrapPhase2d (1 : Rat) 1 4 (fun i => #[0, -3/4, 1/2, -1/4].getD i 0) [(2, 3), (0, 1), (1, 2)]
    = some [9/8, 3/8, -3/8, -9/8] := by decide +kernel

end QuantemModel.Props.C17
