import QuantemModel.Props.C16
import QuantemModel.Model.PtychoOpsExt2
import QuantemModel.Generated.PtychoKernels
/-!
C16, growth round 6 — **propagator stacks and composed integer shifts.**

`Props/C16.lean` proves the kernel identities for ONE gap (`propagator_add`, `prop_add`,
`prop_inverse`).  A multislice reconstruction holds a STACK of kernels, one per slice gap, built by
one call of `_compute_propagator_arrays` from a thickness list such as `[2, 3, 5]`.  Here:

* every gap of a stack carries the single-gap kernel of its OWN thickness, whatever the other
  gaps are (`stack_gap_eq_single`, `stack_gap_indep_of_stack`, `stack_length`);
* running a wave through all gaps of a stack (`propagateStack`, the propagation loop of
  `overlap_projection`) is ONE propagation by the total thickness (`stack_compose`), preserves
  the total intensity (`stack_energy`), does not depend on the order of the gaps (`stack_perm`),
  may be cut anywhere (`stack_append`), consecutive gaps may be merged (`stack_merge_block`), and is
  the identity whenever the thicknesses sum to zero — `[d, −d]` in particular (`stack_inverse`,
  `stack_d_minus_d`);
* `overlap_projection` through vacuum slices (all patches ≡ 1) IS that run (`overlap_vacuum_eq_stack`),
  so the statements above are statements about the modelled multislice operator;
* integer shifts compose to the roll by the sum and are periodic in the axis length — column shifts
  `≥ W` or negative on a non-square ROI included (`shift_int_compose`, `shift_int_periodic`);
* the options `expand_dim` / `dtype` of `fourier_translation_operator` never change a value of the ramp
  (`translation_opt_values`), and insert exactly `len(shape) − 2` unit axes iff `expand_dim`
  (`translation_opt_axes`).
-/
namespace QuantemModel.Props.C16
open QuantemModel QuantemModel.PtychoOps

/-! ## 1. what a stack of kernels contains -/

/-- **stack_gap_eq_single**: in a multislice call (`num_slices ≠ 1`) the kernel of gap `i` is the
single-gap kernel of thickness `dzs[i]` — nothing of the other gaps enters. -/
theorem stack_gap_eq_single (nr nc : ℕ) (sr sc e thr thc : ℝ) (n : ℕ) (hn : n ≠ 1) (dzs : List ℝ) (i : ℕ) :
    (propagatorArrays nr nc sr sc e thr thc n dzs)[i]?
      = dzs[i]?.map fun dz => propagator nr nc sr sc (wavelength e) dz thr thc := by
  unfold propagatorArrays
  simp [hn]

/-- the same against the code path itself: gap `i` of any stack equals the only kernel of a
two-slice call with that thickness -/
theorem stack_gap_indep_of_stack (nr nc : ℕ) (sr sc e thr thc : ℝ) (n : ℕ) (hn : n ≠ 1) (dzs : List ℝ)
    (i : ℕ) (dz : ℝ) (hi : dzs[i]? = some dz) :
    (propagatorArrays nr nc sr sc e thr thc n dzs)[i]?
      = (propagatorArrays nr nc sr sc e thr thc 2 [dz])[0]? := by
  rw [stack_gap_eq_single _ _ _ _ _ _ _ n hn, stack_gap_eq_single _ _ _ _ _ _ _ 2 (by decide), hi]
  rfl

/-- one kernel per gap -/
theorem stack_length (nr nc : ℕ) (sr sc e thr thc : ℝ) (n : ℕ) (hn : n ≠ 1) (dzs : List ℝ) :
    (propagatorArrays nr nc sr sc e thr thc n dzs).length = dzs.length := by
  unfold propagatorArrays
  simp [hn]

-- non-vacuity: the stack [2, 3, 5] of a 4-slice object
example : (propagatorArrays 2 3 1 1 80000 0 0 4 [2, 3, 5] : List (Img ℝ)).length = 3 :=
  stack_length 2 3 1 1 80000 0 0 4 (by decide) [2, 3, 5]

/-! ## 2. running a wave through a stack -/

theorem rectK (nr nc : ℕ) (sr sc lam thr thc d : ℝ) :
    Rect nr nc (propagator nr nc sr sc lam d thr thc) := by
  rw [propagator_eq]; exact rect_build _ _ _

/-- propagating by zero thickness is the identity -/
theorem prop_zero {nr nc : ℕ} (hr : 0 < nr) (hc : 0 < nc) {a : Img ℝ} (ha : Rect nr nc a)
    (sr sc lam thr thc : ℝ) :
    propagate a (propagator nr nc sr sc lam 0 thr thc) = a := by
  have h := prop_inverse hr hc ha sr sc lam 0 thr thc
  rw [neg_zero, prop_add hr hc ha, add_zero] at h
  exact h

/-- **stack_compose**: the propagation loop over a stack of gaps of ARBITRARY (pairwise different,
negative, zero) thicknesses is one propagation by their sum. -/
theorem stack_compose {nr nc : ℕ} (hr : 0 < nr) (hc : 0 < nc) {a : Img ℝ} (ha : Rect nr nc a)
    (sr sc lam thr thc : ℝ) (dzs : List ℝ) :
    propagateStack a (dzs.map fun dz => propagator nr nc sr sc lam dz thr thc)
      = propagate a (propagator nr nc sr sc lam dzs.sum thr thc) := by
  induction dzs generalizing a with
  | nil => simp only [List.map_nil, List.sum_nil, propagateStack, List.foldl_nil]
           exact (prop_zero hr hc ha sr sc lam thr thc).symm
  | cons d ds ih =>
    have h1 : Rect nr nc (propagate a (propagator nr nc sr sc lam d thr thc)) :=
      rect_propagate hr hc ha (rectK ..)
    have := ih h1
    simp only [propagateStack, List.map_cons, List.foldl_cons, List.sum_cons] at this ⊢
    rw [this, prop_add hr hc ha]

/-- **stack_energy**: a run through any stack preserves `Σ|a|²` -/
theorem stack_energy {nr nc : ℕ} (hr : 0 < nr) (hc : 0 < nc) {a : Img ℝ} (ha : Rect nr nc a)
    (sr sc lam thr thc : ℝ) (dzs : List ℝ) :
    energy (propagateStack a (dzs.map fun dz => propagator nr nc sr sc lam dz thr thc)) = energy a := by
  rw [stack_compose hr hc ha, prop_energy hr hc ha]

/-- **stack_inverse**: thicknesses that sum to zero give the identity -/
theorem stack_inverse {nr nc : ℕ} (hr : 0 < nr) (hc : 0 < nc) {a : Img ℝ} (ha : Rect nr nc a)
    (sr sc lam thr thc : ℝ) (dzs : List ℝ) (hsum : dzs.sum = 0) :
    propagateStack a (dzs.map fun dz => propagator nr nc sr sc lam dz thr thc) = a := by
  rw [stack_compose hr hc ha, hsum, prop_zero hr hc ha]

/-- **stack_d_minus_d**: the two-gap stack `[d, −d]` is the identity -/
theorem stack_d_minus_d {nr nc : ℕ} (hr : 0 < nr) (hc : 0 < nc) {a : Img ℝ} (ha : Rect nr nc a)
    (sr sc lam thr thc d : ℝ) :
    propagateStack a [propagator nr nc sr sc lam d thr thc, propagator nr nc sr sc lam (-d) thr thc] = a := by
  have := stack_inverse hr hc ha sr sc lam thr thc [d, -d] (by simp)
  simpa using this

/-- **stack_perm**: the free-space run does not depend on the order of the gaps
(`[2, 3, 5]` and `[5, 3, 2]` are the same operator) -/
theorem stack_perm {nr nc : ℕ} (hr : 0 < nr) (hc : 0 < nc) {a : Img ℝ} (ha : Rect nr nc a)
    (sr sc lam thr thc : ℝ) {dzs dzs' : List ℝ} (h : dzs.Perm dzs') :
    propagateStack a (dzs.map fun dz => propagator nr nc sr sc lam dz thr thc)
      = propagateStack a (dzs'.map fun dz => propagator nr nc sr sc lam dz thr thc) := by
  rw [stack_compose hr hc ha, stack_compose hr hc ha, h.sum_eq]

/-- **stack_append**: a stack may be cut anywhere (composition inside a stack; no hypothesis) -/
theorem stack_append (a : Img ℝ) (l₁ l₂ : List (Img ℝ)) :
    propagateStack a (l₁ ++ l₂) = propagateStack (propagateStack a l₁) l₂ := by
  simp [propagateStack, List.foldl_append]

/-- **stack_merge_block**: consecutive gaps inside a stack may be merged into one gap of the
summed thickness (`[2, 3, 5]` ↦ `[5, 5]` ↦ `[10]`) -/
theorem stack_merge_block {nr nc : ℕ} (hr : 0 < nr) (hc : 0 < nc) {a : Img ℝ} (ha : Rect nr nc a)
    (sr sc lam thr thc : ℝ) (pre mid post : List ℝ) :
    propagateStack a ((pre ++ mid ++ post).map fun dz => propagator nr nc sr sc lam dz thr thc)
      = propagateStack a ((pre ++ [mid.sum] ++ post).map fun dz => propagator nr nc sr sc lam dz thr thc) := by
  rw [stack_compose hr hc ha, stack_compose hr hc ha]
  simp [List.sum_append]

-- non-vacuity: hypotheses are satisfiable (rectangular waves exist; [2,3,5] is a permutation of [5,3,2])
example : ([2, 3, 5] : List ℝ).Perm [5, 3, 2] := by
  simpa using (List.reverse_perm ([5, 3, 2] : List ℝ))
example : ([4, -4] : List ℝ).sum = 0 := by simp

/-! ## 3. `overlap_projection` through vacuum slices is that run -/

theorem onesImg_eq_build (nr nc : ℕ) : (onesImg nr nc : Img ℝ) = build nr nc fun _ _ => Cx.one := by
  simp [onesImg, build, vbuild]

theorem one_mulC (z : Cx ℝ) : Cx.one * z = z := by
  apply toC_injective
  simp [toC_mul]

theorem mulImg_ones {nr nc : ℕ} {x : Img ℝ} (hx : Rect nr nc x) : mulImg (onesImg nr nc) x = x := by
  obtain ⟨g, rfl⟩ := hx.cx_build
  rw [onesImg_eq_build, mulImg_build]
  exact build_congr fun i _ j _ => one_mulC _

theorem vacuum_fold {nr nc : ℕ} (hr : 0 < nr) (hc : 0 < nc) (props : List (Img ℝ))
    (hprops : ∀ P ∈ props, Rect nr nc P) (w : Img ℝ) (hw : Rect nr nc w) :
    (List.zip props (List.replicate props.length (onesImg nr nc : Img ℝ))).foldl
        (fun w pp => mulImg pp.2 (propagate w pp.1)) w = props.foldl propagate w := by
  induction props generalizing w with
  | nil => rfl
  | cons P rest ih =>
    have hP := hprops P (by simp)
    have hw' : Rect nr nc (propagate w P) := rect_propagate hr hc hw hP
    simp only [List.length_cons, List.replicate_succ, List.zip_cons_cons, List.foldl_cons]
    rw [mulImg_ones hw']
    exact ih (fun Q hQ => hprops Q (by simp [hQ])) _ hw'

/-- **overlap_vacuum_eq_stack**: with every object patch ≡ 1 the exit wave of the modelled
`overlap_projection` (one mode) is the free-space run of the probe through the stack of kernels —
for ANY rectangular kernels, any number of slices. -/
theorem overlap_vacuum_eq_stack {nr nc : ℕ} (hr : 0 < nr) (hc : 0 < nc) (props : List (Img ℝ))
    (hprops : ∀ P ∈ props, Rect nr nc P) (probe : Img ℝ) (hprobe : Rect nr nc probe) :
    (overlapProjection1 (List.replicate (props.length + 1) (onesImg nr nc)) props probe).2
      = propagateStack probe props := by
  unfold overlapProjection1 propagateStack
  simp only [List.replicate_succ]
  rw [overlap_foldl_snd, mulImg_ones hprobe]
  exact vacuum_fold hr hc props hprops probe hprobe

/-- end to end: the modelled multislice operator through vacuum slices separated by the gaps
`dzs` returns the probe propagated by the total thickness; `[d, −d]` returns the probe itself. -/
theorem overlap_vacuum_compose {nr nc : ℕ} (hr : 0 < nr) (hc : 0 < nc) (probe : Img ℝ) (hprobe : Rect nr nc probe)
    (sr sc lam thr thc : ℝ) (dzs : List ℝ) :
    (overlapProjection1 (List.replicate (dzs.length + 1) (onesImg nr nc))
        (dzs.map fun dz => propagator nr nc sr sc lam dz thr thc) probe).2
      = propagate probe (propagator nr nc sr sc lam dzs.sum thr thc) := by
  have h := overlap_vacuum_eq_stack hr hc (dzs.map fun dz => propagator nr nc sr sc lam dz thr thc)
    (by intro P hP; obtain ⟨d, _, rfl⟩ := List.mem_map.1 hP; exact rectK ..) probe hprobe
  rw [List.length_map] at h
  rw [h, stack_compose hr hc hprobe]

/-! ## 4. integer shifts: composition and periodicity (non-square ROIs, shifts `≥ W`, negative) -/

/-- **shift_int_compose**: two integer Fourier shifts are the roll by the summed shift -/
theorem shift_int_compose {nr nc : ℕ} (hr : 0 < nr) (hc : 0 < nc) {x : Img ℝ} (hx : Rect nr nc x)
    (s t s' t' : ℤ) :
    fourierShift (fourierShift x (s : ℝ) (t : ℝ)) (s' : ℝ) (t' : ℝ) = roll2 x (s + s') (t + t') := by
  rw [shift_add hr hc hx, ← Int.cast_add, ← Int.cast_add, shift_int hr hc hx]

theorem roll_add_length {α : Type} (x : List α) (s k : ℤ) :
    Dft.roll x (s + k * (x.length : ℤ)) = Dft.roll x s := by
  unfold Dft.roll
  simp only [Int.add_mul_emod_self_right]

/-- **shift_int_periodic**: shifting by whole multiples of the axis lengths more (or less) changes
nothing: a column shift `t + k·nc` (so any `t ≥ nc` or `t < 0`) acts like `t`, independently for
rows (`nr`) and columns (`nc`) — also when `nr ≠ nc`. -/
theorem shift_int_periodic {nr nc : ℕ} (hr : 0 < nr) (hc : 0 < nc) {x : Img ℝ} (hx : Rect nr nc x)
    (s t k l : ℤ) :
    fourierShift x ((s + k * nr : ℤ) : ℝ) ((t + l * nc : ℤ) : ℝ) = fourierShift x (s : ℝ) (t : ℝ) := by
  rw [shift_int hr hc hx, shift_int hr hc hx]
  obtain ⟨g, rfl⟩ := hx.cx_build
  unfold roll2
  have hlen : (build nr nc g).length = nr := (rect_build nr nc g).1
  have hrow : ∀ row ∈ build nr nc g, Dft.roll row (t + l * nc) = Dft.roll row t := by
    intro row hrow
    have := (rect_build nr nc g).2 row hrow
    rw [← this, roll_add_length]
  rw [List.map_congr_left hrow]
  have key : ∀ y : List (List (Cx ℝ)), y.length = nr → Dft.roll y (s + k * nr) = Dft.roll y s := by
    intro y hy
    rw [← hy]
    exact roll_add_length y s k
  exact key _ (by simp [hlen])

-- non-vacuity / orientation: on a 2×3 image a column shift of 3+1 acts like 1, a row shift of −1 like 1
example : roll2 [[1, 2, 3], [4, 5, 6]] (-1) 4 = roll2 [[1, 2, 3], [4, 5, 6]] 1 1 := by decide

/-! ## 5. options of `fourier_translation_operator` -/

/-- **translation_opt_values**: `expand_dim` (and `dtype`, a cast) never change a value of the ramp;
the ramp is that of the LAST TWO extents of `shape` -/
theorem translation_opt_values (pre : List ℕ) (nr nc : ℕ) (e : Bool) (r c : ℝ) :
    (translationOperatorOpt (pre ++ [nr, nc]) e r c).2 = translationOperator nr nc r c := by
  simp [translationOperatorOpt]

/-- **translation_opt_axes**: exactly `len(shape) − 2` unit axes are inserted iff `expand_dim` -/
theorem translation_opt_axes (pre : List ℕ) (nr nc : ℕ) (r c : ℝ) :
    (translationOperatorOpt (pre ++ [nr, nc]) true r c).1 = pre.length
      ∧ (translationOperatorOpt (pre ++ [nr, nc]) false r c).1 = 0 := by
  simp [translationOperatorOpt, translationExtraAxes]

/-- with the options, the ramp still has unit modulus and composes additively -/
theorem translation_opt_unit_add (pre : List ℕ) (nr nc : ℕ) (e e' : Bool) (r c r' c' : ℝ) :
    UnitModulus (translationOperatorOpt (pre ++ [nr, nc]) e r c).2
      ∧ (translationOperatorOpt (pre ++ [nr, nc]) e (r + r') (c + c')).2
          = mulImg (translationOperatorOpt (pre ++ [nr, nc]) e r c).2
              (translationOperatorOpt (pre ++ [nr, nc]) e' r' c').2 := by
  simp only [translation_opt_values]
  exact ⟨translation_unit_modulus nr nc r c, translation_add nr nc r c r' c'⟩

/-! ## 6. the traced source of `fourier_translation_operator` is the model

`Generated/PtychoKernels.lean` is rewritten on every run by harness/translator/ptychokernel2lean.py, which CALLS the
current `fourier_translation_operator` on symbolic positions and records, per pixel, the frequency numerators of the
phasor it returns.  If the source changes its formula, the tables change and the theorems below stop proving. -/

open QuantemModel.Generated.PtychoKernels in
/-- the traced frequency tables are the `fftfreq` tables of the model (odd / even, both orientations, axes 1 and 2) -/
theorem generated_table_eq_model :
    rampTable_3_4 = freqTable 3 4 ∧ rampTable_4_3 = freqTable 4 3
      ∧ rampTable_2_5 = freqTable 2 5 ∧ rampTable_1_2 = freqTable 1 2 := by
  decide

/-- the ramp of the model's own frequency table is the model's translation operator, every size -/
theorem rampOfTable_freqTable (nr nc : ℕ) (r c : ℝ) :
    rampOfTable nr nc (freqTable nr nc) r c = translationOperator nr nc r c := by
  simp [rampOfTable, freqTable, translationOperator, rampAxis, List.map_map, Function.comp_def]

open QuantemModel.Generated.PtychoKernels in
/-- **generated_eq_model**: what the current source computes (as traced) is the modelled translation operator,
for ALL positions, on each traced shape — so `translation_unit_modulus`, `translation_add`, `shift_*` are theorems
about the formula the source contains now. -/
theorem generated_eq_model (r c : ℝ) :
    rampOfTable 3 4 rampTable_3_4 r c = translationOperator 3 4 r c
      ∧ rampOfTable 4 3 rampTable_4_3 r c = translationOperator 4 3 r c
      ∧ rampOfTable 2 5 rampTable_2_5 r c = translationOperator 2 5 r c
      ∧ rampOfTable 1 2 rampTable_1_2 r c = translationOperator 1 2 r c := by
  obtain ⟨h1, h2, h3, h4⟩ := generated_table_eq_model
  rw [h1, h2, h3, h4]
  exact ⟨rampOfTable_freqTable .., rampOfTable_freqTable .., rampOfTable_freqTable .., rampOfTable_freqTable ..⟩

open QuantemModel.Generated.PtychoKernels in
/-- the unit axes the traced calls inserted are those of the option model -/
theorem generated_axes_eq_model :
    extraAxes_3_true = translationExtraAxes 3 true ∧ extraAxes_3_false = translationExtraAxes 3 false
      ∧ extraAxes_4_true = translationExtraAxes 4 true := by
  decide

end QuantemModel.Props.C16
