import QuantemModel.Props.C18
import QuantemModel.Lemmas.OriginPrep
/-!
C18, growth round 6 — the ptychography DATASET model after its centre-of-mass stage
(Model/OriginPrep.lean: `_normalize_diffraction_intensities` + `shift_array(bilinear=True)` + `fftshift`):
with an integer-valued fitted origin the centred pattern is exactly a circular roll, and it is the SAME
roll the direct-ptychography origin model performs for the target `origin_coordinate = (H // 2, W // 2)`.
-/
namespace QuantemModel.Props.C18
open QuantemModel QuantemModel.Origin QuantemModel.Batcher

/-- **Dataset model, integer shift**: for every detector shape, every integer fitted centre of mass
`(oy, ox)` (negative, beyond the far edge) and every non-negative amplitude pattern, the centred amplitude
`fftshift(max(shift_array(amp, -oy, -ox, bilinear=True), 0))` is exactly the circular roll that moves pixel
`(oy, ox)` to `(h // 2, w // 2)`: entry `[i][j] = amp[(i + oy − h/2) mod h][(j + ox − w/2) mod w]`. -/
theorem ds_centre_int_roll (h w : Nat) (hh : 1 ≤ h) (hw : 1 ≤ w) (oy ox : ℤ) (amp : Pattern ℝ)
    (hpos : ∀ row ∈ amp, ∀ v ∈ row, 0 ≤ v) :
    centreAmplitude h w ((oy : ℝ), (ox : ℝ)) amp
      = rollNeg h w (oy - ((h / 2 : ℕ) : ℤ)) (ox - ((w / 2 : ℕ) : ℤ)) amp := by
  unfold centreAmplitude
  have e1 : (-(((oy : ℝ), (ox : ℝ)).1 + Num.zero) : ℝ) = (((-oy : ℤ)) : ℝ) := by
    simp only [NumReal.neg_eq, NumReal.add_eq, NumReal.zero_eq]; push_cast; ring
  have e2 : (-(((oy : ℝ), (ox : ℝ)).2 + Num.zero) : ℝ) = (((-ox : ℤ)) : ℝ) := by
    simp only [NumReal.neg_eq, NumReal.add_eq, NumReal.zero_eq]; push_cast; ring
  rw [e1, e2, shiftArrayBilinear_int,
    relu2_table h w _ (fun i j => rolledAt_nonneg h w (-oy) (-ox) amp hpos i j)]
  unfold fftshift2 rollNeg
  apply List.map_congr_left
  intro i _
  apply List.map_congr_left
  intro j _
  rw [rolledAt_table h w (by omega) (by omega)]
  unfold rolledAt
  simp only [Int.ofNat_eq_natCast]
  rw [idx_compose i h (by omega), idx_compose j w (by omega)]

/-- non-vacuity (exact carrier): 2 × 3 pattern, fitted centre (1, 2) → pixel (1, 2) lands on (1, 1) -/
example : centreAmplitude 2 3 ((1 : Rat), (2 : Rat)) [[1, 2, 3], [4, 5, 6]] = [[2, 3, 1], [5, 6, 4]] := by decide +kernel

/-- **The two models shift alike** (composition of `ds_centre_int_roll` with `shift_int_roll`): for an integer
fitted origin the dataset model's centring is exactly what `CenterOfMassOriginModel.shift_origin_to` returns for
`origin_coordinate = (H // 2, W // 2)` on the same pattern. -/
theorem ds_centre_eq_om_shift_to_centre (h w : Nat) (hh : 1 ≤ h) (hw : 1 ≤ w) (oy ox : ℤ) (amp : Pattern ℝ)
    (hpos : ∀ row ∈ amp, ∀ v ∈ row, 0 ≤ v) :
    centreAmplitude h w ((oy : ℝ), (ox : ℝ)) amp
      = shiftOriginTo (((((h / 2 : ℕ) : ℤ)) : ℝ), ((((w / 2 : ℕ) : ℤ)) : ℝ)) h w ((oy : ℝ), (ox : ℝ)) amp := by
  rw [ds_centre_int_roll h w hh hw oy ox amp hpos, shift_int_roll h w hh hw oy ox _ _ amp]

/-- **Every scan position**: the loop of `_normalize_diffraction_intensities` centres each pattern by ITS OWN
integer fitted origin (whatever the number of patterns) -/
theorem ds_centre_all_int_roll (h w : Nat) (hh : 1 ≤ h) (hw : 1 ≤ w) (os : List (ℤ × ℤ)) (amps : List (Pattern ℝ))
    (hlen : os.length = amps.length) (hpos : ∀ amp ∈ amps, ∀ row ∈ amp, ∀ v ∈ row, 0 ≤ v) :
    centreAll h w (os.map (fun o => ((o.1 : ℝ), (o.2 : ℝ)))) amps
      = (List.range amps.length).map (fun i =>
          rollNeg h w ((os.getD i (0, 0)).1 - ((h / 2 : ℕ) : ℤ)) ((os.getD i (0, 0)).2 - ((w / 2 : ℕ) : ℤ)) (amps.getD i [])) := by
  unfold centreAll
  apply List.map_congr_left
  intro i hi
  have hi' : i < amps.length := List.mem_range.mp hi
  have hio : i < os.length := by omega
  have ha : amps.getD i [] ∈ amps := by
    rw [List.getD_eq_getElem?_getD, List.getElem?_eq_getElem hi']; exact List.getElem_mem hi'
  have ho : (os.map (fun o => ((o.1 : ℝ), (o.2 : ℝ)))).getD i (Num.zero, Num.zero)
      = (((os.getD i (0, 0)).1 : ℝ), ((os.getD i (0, 0)).2 : ℝ)) := by
    simp [List.getD_eq_getElem?_getD, List.getElem?_map, List.getElem?_eq_getElem hio]
  rw [ho]
  exact ds_centre_int_roll h w hh hw _ _ _ (hpos _ ha)

/-- the descan shift stored next to the centred patterns is the roll amount: `-(oy, ox) + (h // 2, w // 2)` -/
theorem ds_descan_shift_int (h w : Nat) (oy ox : ℤ) :
    descanShift h w ((oy : ℝ), (ox : ℝ)) = ((((((h / 2 : ℕ) : ℤ) - oy : ℤ)) : ℝ), (((((w / 2 : ℕ) : ℤ) - ox : ℤ)) : ℝ)) := by
  unfold descanShift
  simp only [NumReal.mul_eq, NumReal.add_eq, NumReal.ofInt_eq, NumReal.ofNat_eq]
  ext <;> (simp only [Int.cast_sub, Int.cast_natCast]; ring)

example : descanShift 4 7 ((5 : Rat), (-2 : Rat)) = (-3, 5) := by decide +kernel

end QuantemModel.Props.C18
