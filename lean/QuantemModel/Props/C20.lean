import QuantemModel.Lemmas.Norm
/-!
C20 — display normalisation is a monotone map into [0, 1] with invertible stretches.

All statements are at ℝ (`Real/NumReal.lean`) about
* `Generated/Stretch.lean` — the text the translator regenerates from the `*Stretch` classes of
  custom_normalizations.py on every run (so an edit of a `__call__`/`inverse` body changes the
  object these theorems are about), and
* `Model/Norm.lean` — the hand model of the intervals, `CustomNormalization` and the presets.
Only property theorems and non-vacuity examples live here.
-/
namespace QuantemModel.Props.C20
open QuantemModel QuantemModel.Norm QuantemModel.Generated.Stretch QuantemModel.StretchSpec
open QuantemModel.NormLemmas

/-! ## 1. interval: affine map + clip -/

/-- whatever the limits, the interval maps every finite pixel into [0, 1] -/
theorem interval_range (vmin vmax x : ℝ) :
    0 ≤ intervalFin vmin vmax x ∧ intervalFin vmin vmax x ≤ 1 := intervalFin_mem vmin vmax x

/-- the limits go to 0 and 1 -/
theorem interval_limits {vmin vmax : ℝ} (h : vmin < vmax) :
    intervalFin vmin vmax vmin = 0 ∧ intervalFin vmin vmax vmax = 1 :=
  ⟨intervalFin_vmin h, intervalFin_vmax h⟩

/-- non-decreasing in the data value, including the degenerate branch `vmin = vmax`
(no division) -/
theorem interval_mono {vmin vmax : ℝ} (h : vmin ≤ vmax) {x y : ℝ} (hxy : x ≤ y) :
    intervalFin vmin vmax x ≤ intervalFin vmin vmax y := intervalFin_mono h hxy

/-- why `interval_limits` needs `vmin < vmax`: for `vmin = vmax` the single limit goes to 0,
so "upper limit ↦ 1" is unsatisfiable there -/
theorem interval_limits_degenerate_counterexample : intervalFin (3 : ℝ) 3 3 = 0 := by
  rw [intervalFin_eq]; norm_num

/-- why `interval_mono` needs `vmin ≤ vmax`: inverted limits reverse the order -/
theorem interval_mono_inverted_counterexample :
    ¬ (intervalFin (1 : ℝ) 0 0 ≤ intervalFin (1 : ℝ) 0 1) := by
  rw [intervalFin_antitone_of_inverted.1, intervalFin_antitone_of_inverted.2]; norm_num

/-- ±inf pixels (finite limits, `vmin ≤ vmax`) saturate: `+inf ↦ 1`, `-inf ↦ 0`; NaN stays NaN -/
theorem interval_nonfinite {vmin vmax : ℝ} (h : vmin ≤ vmax) :
    intervalExt vmin vmax .posInf = .fin 1 ∧ intervalExt vmin vmax .negInf = .fin 0 ∧
    intervalExt vmin vmax .nan = .nan := by
  simp [intervalExt, h]

/-! ## 2. generated_eq_spec — each translated body is its closed form
(the obligations an edit of a stretch body breaks) -/

theorem generated_eq_spec_linear (s : LinearStretch ℝ) (x : ℝ) :
    s.call x = if s.slope = 1 ∧ s.intercept = 0 then x else s.slope * clip01 x + s.intercept :=
  linear_call_eq s x

theorem generated_eq_spec_power (s : PowerLawStretch ℝ) (x : ℝ) :
    s.call x = if s.power = 1 then x else clip01 x ^ s.power := power_call_eq s x

theorem generated_eq_spec_log (s : LogarithmicStretch ℝ) (x : ℝ) :
    s.call x = Real.log (s.a * clip01 x + 1) / Real.log (s.a + 1) := log_call_eq s x

theorem generated_eq_spec_invlog (s : InverseLogarithmicStretch ℝ) (x : ℝ) :
    s.call x = (Real.exp (clip01 x * Real.log (s.a + 1)) - 1) / s.a := invlog_call_eq s x

theorem generated_eq_spec_asinh (s : InverseHyperbolicSineStretch ℝ) (x : ℝ) :
    s.call x = Real.arsinh ((2 * clip01 x - 1) / s.a) / (2 * Real.arsinh (1 / s.a)) + 1 / 2 :=
  asinh_call_eq s x

theorem generated_eq_spec_sinh (s : HyperbolicSineStretch ℝ) (x : ℝ) :
    s.call x = Real.sinh ((2 * clip01 x - 1) / s.a) / (2 * Real.sinh (1 / s.a)) + 1 / 2 :=
  sinh_call_eq s x

/-- the declared inverses, as translated from the `inverse` properties -/
theorem generated_inverse_spec :
    (∀ s : LinearStretch ℝ, s.inverse = ⟨1 / s.slope, -s.intercept / s.slope⟩) ∧
    (∀ s : PowerLawStretch ℝ, s.inverse = ⟨1 / s.power⟩) ∧
    (∀ s : LogarithmicStretch ℝ, s.inverse = (⟨s.a⟩ : InverseLogarithmicStretch ℝ)) ∧
    (∀ s : InverseLogarithmicStretch ℝ, s.inverse = (⟨s.a⟩ : LogarithmicStretch ℝ)) ∧
    (∀ s : InverseHyperbolicSineStretch ℝ, s.inverse = (⟨1 / Real.arsinh (1 / s.a)⟩ : HyperbolicSineStretch ℝ)) ∧
    (∀ s : HyperbolicSineStretch ℝ, s.inverse = (⟨1 / Real.sinh (1 / s.a)⟩ : InverseHyperbolicSineStretch ℝ)) := by
  refine ⟨?_, ?_, ?_, ?_, ?_, ?_⟩ <;> intro s <;>
    simp [LinearStretch.inverse, PowerLawStretch.inverse, LogarithmicStretch.inverse,
      InverseLogarithmicStretch.inverse, InverseHyperbolicSineStretch.inverse, HyperbolicSineStretch.inverse]

/-- the `__post_init__` guards accept exactly the admissible parameters -/
theorem generated_valid_spec :
    (∀ s : PowerLawStretch ℝ, s.valid = true ↔ 0 < s.power) ∧
    (∀ s : LogarithmicStretch ℝ, s.valid = true ↔ 0 < s.a) ∧
    (∀ s : InverseLogarithmicStretch ℝ, s.valid = true ↔ 0 < s.a) ∧
    (∀ s : InverseHyperbolicSineStretch ℝ, s.valid = true ↔ 0 < s.a) ∧
    (∀ s : HyperbolicSineStretch ℝ, s.valid = true ↔ 0 < s.a) := by
  refine ⟨?_, ?_, ?_, ?_, ?_⟩ <;> intro s <;>
    simp [PowerLawStretch.valid, LogarithmicStretch.valid, InverseLogarithmicStretch.valid,
      InverseHyperbolicSineStretch.valid, HyperbolicSineStretch.valid, leb_false_iff]

/-! ## 3. every stretch: [0,1] → [0,1], 0 ↦ 0, 1 ↦ 1, monotone, `S (S.inverse y) = y` -/

/-- the five clauses for one stretch `S` with declared inverse `Sinv` -/
structure StretchLaw (S Sinv : ℝ → ℝ) : Prop where
  maps_unit : ∀ x, 0 ≤ x → x ≤ 1 → 0 ≤ S x ∧ S x ≤ 1
  zero : S 0 = 0
  one : S 1 = 1
  mono : ∀ x y, x ≤ y → S x ≤ S y
  inverse_pair : ∀ y, 0 ≤ y → y ≤ 1 → S (Sinv y) = y

theorem power_stretch_law (s : PowerLawStretch ℝ) (h : 0 < s.power) : StretchLaw s.call s.inverse.call := by
  have hinv : s.inverse.power = 1 / s.power := by simp [PowerLawStretch.inverse]
  refine ⟨?_, ?_, ?_, ?_, ?_⟩
  · intro x h0 h1; rw [power_call_eq]; exact powerS_mem h h0 h1
  · rw [power_call_eq]; exact powerS_zero h
  · rw [power_call_eq]; exact powerS_one _
  · intro x y hxy; rw [power_call_eq, power_call_eq]; exact powerS_mono h hxy
  · intro y h0 h1; rw [power_call_eq, power_call_eq, hinv]; exact powerS_inverse h h0 h1

theorem log_stretch_law (s : LogarithmicStretch ℝ) (h : 0 < s.a) : StretchLaw s.call s.inverse.call := by
  have hinv : s.inverse.a = s.a := by simp [LogarithmicStretch.inverse]
  refine ⟨?_, ?_, ?_, ?_, ?_⟩
  · intro x _ _; rw [log_call_eq]; exact logS_mem h x
  · rw [log_call_eq]; exact logS_zero _
  · rw [log_call_eq]; exact logS_one h
  · intro x y hxy; rw [log_call_eq, log_call_eq]; exact logS_mono h hxy
  · intro y h0 h1; rw [log_call_eq, invlog_call_eq, hinv]; exact logS_invlogS h h0 h1

theorem invlog_stretch_law (s : InverseLogarithmicStretch ℝ) (h : 0 < s.a) : StretchLaw s.call s.inverse.call := by
  have hinv : s.inverse.a = s.a := by simp [InverseLogarithmicStretch.inverse]
  refine ⟨?_, ?_, ?_, ?_, ?_⟩
  · intro x _ _; rw [invlog_call_eq]; exact invlogS_mem h x
  · rw [invlog_call_eq]; exact invlogS_zero _
  · rw [invlog_call_eq]; exact invlogS_one h
  · intro x y hxy; rw [invlog_call_eq, invlog_call_eq]; exact invlogS_mono h hxy
  · intro y h0 h1; rw [invlog_call_eq, log_call_eq, hinv]; exact invlogS_logS h h0 h1

/-- asinh stretch with the inverse it declares, `HyperbolicSineStretch(1 / asinh(1 / a))` -/
theorem asinh_stretch_law (s : InverseHyperbolicSineStretch ℝ) (h : 0 < s.a) : StretchLaw s.call s.inverse.call := by
  have hinv : s.inverse.a = 1 / Real.arsinh (1 / s.a) := by simp [InverseHyperbolicSineStretch.inverse]
  refine ⟨?_, ?_, ?_, ?_, ?_⟩
  · intro x _ _; rw [asinh_call_eq]; exact asinhS_mem h x
  · rw [asinh_call_eq]; exact asinhS_zero h
  · rw [asinh_call_eq]; exact asinhS_one h
  · intro x y hxy; rw [asinh_call_eq, asinh_call_eq]; exact asinhS_mono h hxy
  · intro y h0 h1; rw [asinh_call_eq, sinh_call_eq, hinv]; exact asinhS_sinhS_declared h h0 h1

/-- sinh stretch with the inverse it declares, `InverseHyperbolicSineStretch(1 / sinh(1 / a))` -/
theorem sinh_stretch_law (s : HyperbolicSineStretch ℝ) (h : 0 < s.a) : StretchLaw s.call s.inverse.call := by
  have hinv : s.inverse.a = 1 / Real.sinh (1 / s.a) := by simp [HyperbolicSineStretch.inverse]
  refine ⟨?_, ?_, ?_, ?_, ?_⟩
  · intro x _ _; rw [sinh_call_eq]; exact sinhS_mem h x
  · rw [sinh_call_eq]; exact sinhS_zero h
  · rw [sinh_call_eq]; exact sinhS_one h
  · intro x y hxy; rw [sinh_call_eq, sinh_call_eq]; exact sinhS_mono h hxy
  · intro y h0 h1; rw [sinh_call_eq, asinh_call_eq, hinv]; exact sinhS_asinhS_declared h h0 h1

/-- the linear stretch as `CustomNormalization` builds it (dataclass defaults): the identity,
and so is its declared inverse `LinearStretch(1/1, -0/1)` -/
theorem linear_default_stretch_law :
    StretchLaw (LinearStretch.default : LinearStretch ℝ).call (LinearStretch.default : LinearStretch ℝ).inverse.call := by
  have hc : ∀ x : ℝ, (LinearStretch.default : LinearStretch ℝ).call x = x := by
    intro x; rw [linear_call_eq]; simp [LinearStretch.default, linearS]
  have hi : ∀ x : ℝ, (LinearStretch.default : LinearStretch ℝ).inverse.call x = x := by
    intro x; rw [linear_call_eq]; simp [LinearStretch.default, LinearStretch.inverse, linearS]
  refine ⟨?_, ?_, ?_, ?_, ?_⟩
  · intro x h0 h1; rw [hc]; exact ⟨h0, h1⟩
  · rw [hc]
  · rw [hc]
  · intro x y hxy; rw [hc, hc]; exact hxy
  · intro y _ _; rw [hc, hi]

/-- a general `LinearStretch` is NOT inverted by its declared inverse on all of [0, 1]
(slope 1/2: `S(S.inverse(1)) = 1/2`); it is whenever `(y - intercept)/slope ∈ [0, 1]`
(`StretchSpec.linearS_inverse`).  CustomNormalization never builds such an instance. -/
theorem linear_general_inverse_counterexample :
    let s : LinearStretch ℝ := ⟨1 / 2, 0⟩
    s.call (s.inverse.call 1) ≠ 1 := by
  intro s
  rw [linear_call_eq, linear_call_eq]
  simp only [s, LinearStretch.inverse, linearS]
  norm_num [clip01]

/-- all six classes at once, for the stretch a `CustomNormalization` (or its `inverse`) holds -/
theorem stretch_law (s : Stretch ℝ) (h : Admissible s) : StretchLaw s.call s.inverse.call := by
  cases s with
  | linear t =>
    obtain ⟨h1, h2⟩ := h
    have : t = LinearStretch.default := by
      cases t; simp_all [LinearStretch.default]
    subst this
    exact linear_default_stretch_law
  | power t => exact power_stretch_law t h
  | log t => exact log_stretch_law t h
  | invlog t => exact invlog_stretch_law t h
  | asinh t => exact asinh_stretch_law t h
  | sinh t => exact sinh_stretch_law t h

/-! ## 4. composition: `CustomNormalization.__call__` -/

/-- every configuration the constructor accepts holds an admissible stretch -/
theorem init_admissible (c : Config ℝ) (n : Norm.Norm ℝ) (h : Norm.init c = .ok n) : Admissible n.stretch := by
  unfold Norm.init at h
  split at h
  · cases h
  · cases h
  · rename_i interval stretch hi hs
    split at h
    · rename_i hv
      cases h
      simp only
      unfold selectStretch at hs
      split at hs
      · cases hs
        simpa [Stretch.valid, PowerLawStretch.valid, Admissible, leb_false_iff] using hv
      · split at hs
        · cases hs; simp [Admissible, LinearStretch.default]
        · split at hs
          · cases hs
            simpa [Stretch.valid, LogarithmicStretch.valid, Admissible, leb_false_iff] using hv
          · split at hs
            · cases hs
              simpa [Stretch.valid, InverseHyperbolicSineStretch.valid, Admissible, leb_false_iff] using hv
            · cases hs
    · cases h

/-- NaN never becomes a number: it comes back masked, for every stretch and all limits -/
theorem norm_nan_masked (s : Stretch ℝ) (vmin vmax : ℝ) : normPixel s vmin vmax .nan = none := by
  simp [normPixel, intervalExt, stretchExt, maskInvalid]

theorem normPixel_fin (s : Stretch ℝ) (vmin vmax x : ℝ) :
    normPixel s vmin vmax (.fin x) = some (s.call (intervalFin vmin vmax x)) := by
  simp [normPixel, intervalExt, stretchExt, maskInvalid, isFiniteB_real]

/-- finite data is mapped to an unmasked number in [0, 1] -/
theorem norm_finite_range (s : Stretch ℝ) (h : Admissible s) (vmin vmax x : ℝ) :
    ∃ y, normPixel s vmin vmax (.fin x) = some y ∧ 0 ≤ y ∧ y ≤ 1 := by
  obtain ⟨h0, h1⟩ := intervalFin_mem vmin vmax x
  exact ⟨_, normPixel_fin s vmin vmax x, (stretch_law s h).maps_unit _ h0 h1⟩

/-- non-decreasing in the data value -/
theorem norm_mono (s : Stretch ℝ) (h : Admissible s) {vmin vmax : ℝ} (hl : vmin ≤ vmax) {x x' y y' : ℝ}
    (hx : x ≤ x') (hy : normPixel s vmin vmax (.fin x) = some y) (hy' : normPixel s vmin vmax (.fin x') = some y') :
    y ≤ y' := by
  rw [normPixel_fin] at hy hy'
  cases hy; cases hy'
  exact (stretch_law s h).mono _ _ (intervalFin_mono hl hx)

/-- the interval's lower and upper limits are sent to 0 and 1 -/
theorem norm_limits (s : Stretch ℝ) (h : Admissible s) {vmin vmax : ℝ} (hl : vmin < vmax) :
    normPixel s vmin vmax (.fin vmin) = some 0 ∧ normPixel s vmin vmax (.fin vmax) = some 1 := by
  rw [normPixel_fin, normPixel_fin, intervalFin_vmin hl, intervalFin_vmax hl,
    (stretch_law s h).zero, (stretch_law s h).one]
  exact ⟨rfl, rfl⟩

/-- `+inf ↦ 1`, `-inf ↦ 0` -/
theorem norm_inf (s : Stretch ℝ) (h : Admissible s) {vmin vmax : ℝ} (hl : vmin ≤ vmax) :
    normPixel s vmin vmax .posInf = some 1 ∧ normPixel s vmin vmax .negInf = some 0 := by
  obtain ⟨hp, hn, _⟩ := interval_nonfinite hl
  simp [normPixel, hp, hn, stretchExt, maskInvalid, isFiniteB_real, (stretch_law s h).zero, (stretch_law s h).one]

/-- `CustomNormalization.__call__` is `normPixel` on every pixel with the limits its interval
reports for the argument; so 4.a–d hold pixel-wise for whole arrays of any length/shape -/
theorem norm_call_pointwise (n : Norm.Norm ℝ) (data : List (Ext ℝ)) (out : List (Option ℝ))
    (h : n.call data = .ok out) :
    ∃ lo hi, n.interval.getLimits data = .ok (lo, hi) ∧ out = data.map (normPixel n.stretch lo hi) := by
  unfold Norm.call at h
  cases hl : n.interval.getLimits data with
  | error e => rw [hl] at h; cases h
  | ok p =>
    obtain ⟨lo, hi⟩ := p
    rw [hl] at h
    cases h
    exact ⟨lo, hi, rfl, rfl⟩

/-- `_set_limits` freezes the limits: afterwards `get_limits` returns the limits computed from
`data`, whatever array it is asked about (state `vmin/vmax fixed by _set_limits`) -/
theorem frozen_limits (n n' : Norm.Norm ℝ) (data : List (Ext ℝ)) (h : n.setLimits false data = .ok n') :
    ∃ lo hi, n.interval.getLimits data = .ok (lo, hi) ∧ n'.vmin = some lo ∧ n'.vmax = some hi ∧
      n'.stretch = n.stretch ∧ ∀ d', n'.interval.getLimits d' = .ok (lo, hi) := by
  unfold Norm.setLimits at h
  simp only [Bool.false_eq_true, if_false] at h
  cases hl : n.interval.getLimits data with
  | error e => rw [hl] at h; cases h
  | ok p =>
    obtain ⟨lo, hi⟩ := p
    rw [hl] at h
    cases h
    exact ⟨lo, hi, rfl, rfl, rfl, rfl, fun _ => rfl⟩

/-- automatic manual limits (min/max of the finite pixels) are ordered, strictly so when the
array holds two distinct finite values — the hypothesis of `norm_mono` / `norm_limits` -/
theorem manual_auto_limits_ordered (data : List (Ext ℝ)) (lo hi : ℝ)
    (h : manualLimits none none data = .ok (lo, hi)) :
    (∀ x, Ext.fin x ∈ data → lo ≤ x ∧ x ≤ hi) ∧
    (∀ x y, Ext.fin x ∈ data → Ext.fin y ∈ data → x < y → lo < hi) := by
  unfold manualLimits at h
  simp only [bind, Except.bind, pure, Except.pure] at h
  cases hm : minL (finiteVals data) with
  | none => rw [hm] at h; simp [orValueError] at h
  | some m =>
    cases hM : maxL (finiteVals data) with
    | none => rw [hm, hM] at h; simp [orValueError] at h
    | some M =>
      rw [hm, hM] at h
      simp only [orValueError, Except.ok.injEq, Prod.mk.injEq] at h
      obtain ⟨rfl, rfl⟩ := h
      have key : ∀ x, Ext.fin x ∈ data → m ≤ x ∧ x ≤ M := fun x hx =>
        ⟨minL_le hm x (mem_finiteVals hx), le_maxL hM x (mem_finiteVals hx)⟩
      refine ⟨key, ?_⟩
      intro x y hx hy hxy
      exact lt_of_le_of_lt (key x hx).1 (lt_of_lt_of_le hxy (key y hy).2)

/-- centered limits are ordered whenever the half range is non-negative (always, if automatic) -/
theorem centered_limits_ordered (vc : ℝ) (half : Option ℝ) (data : List (Ext ℝ)) (lo hi : ℝ)
    (hh : ∀ h, half = some h → 0 ≤ h) (h : centeredLimits vc half data = .ok (lo, hi)) : lo ≤ hi := by
  unfold centeredLimits at h
  cases half with
  | some hr =>
    simp only [Except.ok.injEq, Prod.mk.injEq, NumReal.sub_eq, NumReal.add_eq] at h
    obtain ⟨rfl, rfl⟩ := h
    have := hh hr rfl
    linarith
  | none =>
    simp only [bind, Except.bind, pure, Except.pure] at h
    cases hm : minL (finiteVals data) with
    | none => rw [hm] at h; simp [orValueError] at h
    | some m =>
      cases hM : maxL (finiteVals data) with
      | none => rw [hm, hM] at h; simp [orValueError] at h
      | some M =>
        rw [hm, hM] at h
        simp only [orValueError, Except.ok.injEq, Prod.mk.injEq, NumReal.sub_eq, NumReal.add_eq] at h
        obtain ⟨rfl, rfl⟩ := h
        have : 0 ≤ Num.max (Num.abs (m - vc)) (Num.abs (M - vc)) := by
          rw [NumReal.max_eq, NumReal.abs_eq, NumReal.abs_eq]
          exact le_max_of_le_left (abs_nonneg _)
        linarith

/-- all ten named presets are accepted by the constructor and hold an admissible stretch, so
4.a–d apply to each of them -/
theorem presets_admissible :
    ∀ p ∈ (presets : List (String × Config ℝ)), ∃ n, Norm.init p.2 = .ok n ∧ Admissible n.stretch := by
  intro p hp
  have hok : ∃ n, Norm.init p.2 = .ok n := by
    simp only [presets, List.mem_cons, List.not_mem_nil, or_false] at hp
    rcases hp with rfl | rfl | rfl | rfl | rfl | rfl | rfl | rfl | rfl | rfl <;>
      simp [Norm.init, selectInterval, selectStretch, Config.default, fne_iff, Stretch.valid,
        LinearStretch.valid, PowerLawStretch.valid, LogarithmicStretch.valid,
        InverseHyperbolicSineStretch.valid, leb_false_iff]
  obtain ⟨n, hn⟩ := hok
  exact ⟨n, hn, init_admissible _ _ hn⟩

theorem presets_count : (presets : List (String × Config ℝ)).length = 10 := rfl

/-! ## non-vacuity: the hypotheses are satisfiable by the instances the code actually builds -/

example : Admissible (.asinh ⟨(1 / 10 : ℝ)⟩) := by simp [Admissible]
example : Admissible (.power ⟨(1 / 2 : ℝ)⟩) := by simp [Admissible]
example : Admissible (.log ⟨(1000 : ℝ)⟩) := by simp [Admissible]
example : Admissible (.linear (LinearStretch.default : LinearStretch ℝ)) := by simp [Admissible, LinearStretch.default]
example : ∃ vmin vmax : ℝ, vmin < vmax := ⟨0, 1, by norm_num⟩
/-- a concrete array with a NaN, an inf and two distinct finite values: the automatic manual
limits exist and are strictly ordered -/
example : ∃ lo hi : ℝ, manualLimits none none [.nan, .fin 3, .posInf, .fin (-2)] = .ok (lo, hi) ∧ lo < hi := by
  cases h : manualLimits (R := ℝ) none none [.nan, .fin 3, .posInf, .fin (-2)] with
  | error e => simp [manualLimits, finiteVals, minL, maxL, orValueError, bind, Except.bind, pure, Except.pure] at h
  | ok p =>
    obtain ⟨lo, hi⟩ := p
    refine ⟨lo, hi, rfl, ?_⟩
    exact (manual_auto_limits_ordered _ lo hi h).2 (-2) 3 (by simp) (by simp) (by norm_num)
/-- the default configuration constructs -/
example : ∃ n, Norm.init (Config.default : Config ℝ) = .ok n :=
  (presets_admissible ("quantile", Config.default) (by simp [presets])).imp fun _ h => h.1

end QuantemModel.Props.C20
