import QuantemModel.Lemmas.NormQuantile
import QuantemModel.Lemmas.NormHistory
/-!
C20 — display normalisation is a monotone map into [0, 1] with invertible stretches.

All statements are at ℝ (`Real/NumReal.lean`) about
* `Generated/Stretch.lean` — the text the translator regenerates from the `*Stretch` classes of
  custom_normalizations.py on every run (so an edit of a `__call__`/`inverse` body changes the
  object these theorems are about), and
* `Model/Norm.lean` — the hand model of the intervals, `CustomNormalization` and the presets.
Only property theorems and non-vacuity examples live here.
-/
namespace QuantemModel.Props.C20
open QuantemModel QuantemModel.Norm QuantemModel.Generated.Stretch QuantemModel.StretchSpec
open QuantemModel.NormLemmas QuantemModel.NormHistory

/-! ## 1. interval: affine map + clip -/

/-- whatever the limits, the interval maps every finite pixel into [0, 1] -/
theorem interval_range (vmin vmax x : ℝ) :
    0 ≤ intervalFin vmin vmax x ∧ intervalFin vmin vmax x ≤ 1 := intervalFin_mem vmin vmax x

/-- the limits go to 0 and 1 -/
theorem interval_limits {vmin vmax : ℝ} (h : vmin < vmax) :
    intervalFin vmin vmax vmin = 0 ∧ intervalFin vmin vmax vmax = 1 :=
  ⟨intervalFin_vmin h, intervalFin_vmax h⟩

/-- non-decreasing in the data value, including the degenerate branch `vmin = vmax`
(no division) -/
theorem interval_mono {vmin vmax : ℝ} (h : vmin ≤ vmax) {x y : ℝ} (hxy : x ≤ y) :
    intervalFin vmin vmax x ≤ intervalFin vmin vmax y := intervalFin_mono h hxy

/-- why `interval_limits` needs `vmin < vmax`: for `vmin = vmax` the single limit goes to 0,
so "upper limit ↦ 1" is unsatisfiable there -/
theorem interval_limits_degenerate_counterexample : intervalFin (3 : ℝ) 3 3 = 0 := by
  rw [intervalFin_eq]; norm_num

/-- why `interval_mono` needs `vmin ≤ vmax`: inverted limits reverse the order -/
theorem interval_mono_inverted_counterexample :
    ¬ (intervalFin (1 : ℝ) 0 0 ≤ intervalFin (1 : ℝ) 0 1) := by
  rw [intervalFin_antitone_of_inverted.1, intervalFin_antitone_of_inverted.2]; norm_num

/-- ±inf pixels (finite limits, `vmin ≤ vmax`) saturate: `+inf ↦ 1`, `-inf ↦ 0`; NaN stays NaN -/
theorem interval_nonfinite {vmin vmax : ℝ} (h : vmin ≤ vmax) :
    intervalExt vmin vmax .posInf = .fin 1 ∧ intervalExt vmin vmax .negInf = .fin 0 ∧
    intervalExt vmin vmax .nan = .nan := by
  simp [intervalExt, h]

/-! ## 2. generated_eq_spec — each translated body is its closed form
(the obligations an edit of a stretch body breaks) -/

theorem generated_eq_spec_linear (s : LinearStretch ℝ) (x : ℝ) :
    s.call x = if s.slope = 1 ∧ s.intercept = 0 then x else s.slope * clip01 x + s.intercept :=
  linear_call_eq s x

theorem generated_eq_spec_power (s : PowerLawStretch ℝ) (x : ℝ) :
    s.call x = if s.power = 1 then x else clip01 x ^ s.power := power_call_eq s x

theorem generated_eq_spec_log (s : LogarithmicStretch ℝ) (x : ℝ) :
    s.call x = Real.log (s.a * clip01 x + 1) / Real.log (s.a + 1) := log_call_eq s x

theorem generated_eq_spec_invlog (s : InverseLogarithmicStretch ℝ) (x : ℝ) :
    s.call x = (Real.exp (clip01 x * Real.log (s.a + 1)) - 1) / s.a := invlog_call_eq s x

theorem generated_eq_spec_asinh (s : InverseHyperbolicSineStretch ℝ) (x : ℝ) :
    s.call x = Real.arsinh ((2 * clip01 x - 1) / s.a) / (2 * Real.arsinh (1 / s.a)) + 1 / 2 :=
  asinh_call_eq s x

theorem generated_eq_spec_sinh (s : HyperbolicSineStretch ℝ) (x : ℝ) :
    s.call x = Real.sinh ((2 * clip01 x - 1) / s.a) / (2 * Real.sinh (1 / s.a)) + 1 / 2 :=
  sinh_call_eq s x

/-- the traced `BaseInterval.__call__` body (the text `Norm.intervalFin` is defined as) is the affine map + clip -/
theorem generated_eq_spec_interval (vmin vmax x : ℝ) :
    baseIntervalCall vmin vmax x =
      if vmax - vmin ≠ 0 then clip01 ((x - vmin) / (vmax - vmin)) else clip01 (x - vmin) := intervalFin_eq vmin vmax x

/-- the traced `BaseInterval.inverse` body -/
theorem generated_eq_spec_interval_inverse (vmin vmax y : ℝ) :
    baseIntervalInverse vmin vmax y = y * (vmax - vmin) + vmin := intervalInverse_eq vmin vmax y

/-- the declared inverses, as translated from the `inverse` properties -/
theorem generated_inverse_spec :
    (∀ s : LinearStretch ℝ, s.inverse = ⟨1 / s.slope, -s.intercept / s.slope⟩) ∧
    (∀ s : PowerLawStretch ℝ, s.inverse = ⟨1 / s.power⟩) ∧
    (∀ s : LogarithmicStretch ℝ, s.inverse = (⟨s.a⟩ : InverseLogarithmicStretch ℝ)) ∧
    (∀ s : InverseLogarithmicStretch ℝ, s.inverse = (⟨s.a⟩ : LogarithmicStretch ℝ)) ∧
    (∀ s : InverseHyperbolicSineStretch ℝ, s.inverse = (⟨1 / Real.arsinh (1 / s.a)⟩ : HyperbolicSineStretch ℝ)) ∧
    (∀ s : HyperbolicSineStretch ℝ, s.inverse = (⟨1 / Real.sinh (1 / s.a)⟩ : InverseHyperbolicSineStretch ℝ)) := by
  exact ⟨linear_inverse_eq, power_inverse_eq, log_inverse_eq, invlog_inverse_eq, asinh_inverse_eq, sinh_inverse_eq⟩

/-- the `__post_init__` guards accept exactly the admissible parameters -/
theorem generated_valid_spec :
    (∀ s : PowerLawStretch ℝ, s.valid = true ↔ 0 < s.power) ∧
    (∀ s : LogarithmicStretch ℝ, s.valid = true ↔ 0 < s.a) ∧
    (∀ s : InverseLogarithmicStretch ℝ, s.valid = true ↔ 0 < s.a) ∧
    (∀ s : InverseHyperbolicSineStretch ℝ, s.valid = true ↔ 0 < s.a) ∧
    (∀ s : HyperbolicSineStretch ℝ, s.valid = true ↔ 0 < s.a) := by
  exact ⟨power_valid_iff, log_valid_iff, invlog_valid_iff, asinh_valid_iff, sinh_valid_iff⟩

/-! ## 3. every stretch: [0,1] → [0,1], 0 ↦ 0, 1 ↦ 1, monotone, `S (S.inverse y) = y` -/

/-- the five clauses for one stretch `S` with declared inverse `Sinv` -/
structure StretchLaw (S Sinv : ℝ → ℝ) : Prop where
  maps_unit : ∀ x, 0 ≤ x → x ≤ 1 → 0 ≤ S x ∧ S x ≤ 1
  zero : S 0 = 0
  one : S 1 = 1
  mono : ∀ x y, x ≤ y → S x ≤ S y
  inverse_pair : ∀ y, 0 ≤ y → y ≤ 1 → S (Sinv y) = y

theorem power_stretch_law (s : PowerLawStretch ℝ) (h : 0 < s.power) : StretchLaw s.call s.inverse.call := by
  have hinv : s.inverse.power = 1 / s.power := by rw [power_inverse_eq]
  refine ⟨?_, ?_, ?_, ?_, ?_⟩
  · intro x h0 h1; rw [power_call_eq]; exact powerS_mem h h0 h1
  · rw [power_call_eq]; exact powerS_zero h
  · rw [power_call_eq]; exact powerS_one _
  · intro x y hxy; rw [power_call_eq, power_call_eq]; exact powerS_mono h hxy
  · intro y h0 h1; rw [power_call_eq, power_call_eq, hinv]; exact powerS_inverse h h0 h1

theorem log_stretch_law (s : LogarithmicStretch ℝ) (h : 0 < s.a) : StretchLaw s.call s.inverse.call := by
  have hinv : s.inverse.a = s.a := by rw [log_inverse_eq]
  refine ⟨?_, ?_, ?_, ?_, ?_⟩
  · intro x _ _; rw [log_call_eq]; exact logS_mem h x
  · rw [log_call_eq]; exact logS_zero _
  · rw [log_call_eq]; exact logS_one h
  · intro x y hxy; rw [log_call_eq, log_call_eq]; exact logS_mono h hxy
  · intro y h0 h1; rw [log_call_eq, invlog_call_eq, hinv]; exact logS_invlogS h h0 h1

theorem invlog_stretch_law (s : InverseLogarithmicStretch ℝ) (h : 0 < s.a) : StretchLaw s.call s.inverse.call := by
  have hinv : s.inverse.a = s.a := by rw [invlog_inverse_eq]
  refine ⟨?_, ?_, ?_, ?_, ?_⟩
  · intro x _ _; rw [invlog_call_eq]; exact invlogS_mem h x
  · rw [invlog_call_eq]; exact invlogS_zero _
  · rw [invlog_call_eq]; exact invlogS_one h
  · intro x y hxy; rw [invlog_call_eq, invlog_call_eq]; exact invlogS_mono h hxy
  · intro y h0 h1; rw [invlog_call_eq, log_call_eq, hinv]; exact invlogS_logS h h0 h1

/-- asinh stretch with the inverse it declares, `HyperbolicSineStretch(1 / asinh(1 / a))` -/
theorem asinh_stretch_law (s : InverseHyperbolicSineStretch ℝ) (h : 0 < s.a) : StretchLaw s.call s.inverse.call := by
  have hinv : s.inverse.a = 1 / Real.arsinh (1 / s.a) := by rw [asinh_inverse_eq]
  refine ⟨?_, ?_, ?_, ?_, ?_⟩
  · intro x _ _; rw [asinh_call_eq]; exact asinhS_mem h x
  · rw [asinh_call_eq]; exact asinhS_zero h
  · rw [asinh_call_eq]; exact asinhS_one h
  · intro x y hxy; rw [asinh_call_eq, asinh_call_eq]; exact asinhS_mono h hxy
  · intro y h0 h1; rw [asinh_call_eq, sinh_call_eq, hinv]; exact asinhS_sinhS_declared h h0 h1

/-- sinh stretch with the inverse it declares, `InverseHyperbolicSineStretch(1 / sinh(1 / a))` -/
theorem sinh_stretch_law (s : HyperbolicSineStretch ℝ) (h : 0 < s.a) : StretchLaw s.call s.inverse.call := by
  have hinv : s.inverse.a = 1 / Real.sinh (1 / s.a) := by rw [sinh_inverse_eq]
  refine ⟨?_, ?_, ?_, ?_, ?_⟩
  · intro x _ _; rw [sinh_call_eq]; exact sinhS_mem h x
  · rw [sinh_call_eq]; exact sinhS_zero h
  · rw [sinh_call_eq]; exact sinhS_one h
  · intro x y hxy; rw [sinh_call_eq, sinh_call_eq]; exact sinhS_mono h hxy
  · intro y h0 h1; rw [sinh_call_eq, asinh_call_eq, hinv]; exact sinhS_asinhS_declared h h0 h1

/-- the linear stretch as `CustomNormalization` builds it (dataclass defaults): the identity,
and so is its declared inverse `LinearStretch(1/1, -0/1)` -/
theorem linear_default_stretch_law :
    StretchLaw (LinearStretch.default : LinearStretch ℝ).call (LinearStretch.default : LinearStretch ℝ).inverse.call := by
  have hc : ∀ x : ℝ, (LinearStretch.default : LinearStretch ℝ).call x = x := by
    intro x; rw [linear_call_eq, linear_default_eq]; simp [linearS]
  have hi : ∀ x : ℝ, (LinearStretch.default : LinearStretch ℝ).inverse.call x = x := by
    intro x; rw [linear_call_eq, linear_inverse_eq, linear_default_eq]; simp [linearS]
  refine ⟨?_, ?_, ?_, ?_, ?_⟩
  · intro x h0 h1; rw [hc]; exact ⟨h0, h1⟩
  · rw [hc]
  · rw [hc]
  · intro x y hxy; rw [hc, hc]; exact hxy
  · intro y _ _; rw [hc, hi]

/-- a general `LinearStretch` is NOT inverted by its declared inverse on all of [0, 1]
(slope 1/2: `S(S.inverse(1)) = 1/2`); it is whenever `(y - intercept)/slope ∈ [0, 1]`
(`StretchSpec.linearS_inverse`).  CustomNormalization never builds such an instance. -/
theorem linear_general_inverse_counterexample :
    let s : LinearStretch ℝ := ⟨1 / 2, 0⟩
    s.call (s.inverse.call 1) ≠ 1 := by
  intro s
  rw [linear_call_eq, linear_call_eq, linear_inverse_eq]
  simp only [s, linearS]
  norm_num [clip01]

/-- all six classes at once, for the stretch a `CustomNormalization` (or its `inverse`) holds -/
theorem stretch_law (s : Stretch ℝ) (h : Admissible s) : StretchLaw s.call s.inverse.call := by
  cases s with
  | linear t =>
    obtain ⟨h1, h2⟩ := h
    have : t = LinearStretch.default := by
      rw [linear_default_eq]; cases t; simp_all
    subst this
    exact linear_default_stretch_law
  | power t => exact power_stretch_law t h
  | log t => exact log_stretch_law t h
  | invlog t => exact invlog_stretch_law t h
  | asinh t => exact asinh_stretch_law t h
  | sinh t => exact sinh_stretch_law t h

/-! ## 4. composition: `CustomNormalization.__call__` -/

/-- every configuration the constructor accepts holds an admissible stretch -/
theorem init_admissible (c : Config ℝ) (n : Norm.Norm ℝ) (h : Norm.init c = .ok n) : Admissible n.stretch := by
  unfold Norm.init at h
  split at h
  · cases h
  · cases h
  · rename_i interval stretch hi hs
    split at h
    · rename_i hv
      cases h
      simp only
      unfold selectStretch at hs
      split at hs
      · cases hs
        simpa [Stretch.valid, power_valid_iff, Admissible] using hv
      · split at hs
        · cases hs; simp [Admissible, linear_default_eq]
        · split at hs
          · cases hs
            simpa [Stretch.valid, log_valid_iff, Admissible] using hv
          · split at hs
            · cases hs
              simpa [Stretch.valid, asinh_valid_iff, Admissible] using hv
            · cases hs
    · cases h

/-- NaN never becomes a number: it comes back masked, for every stretch and all limits -/
theorem norm_nan_masked (s : Stretch ℝ) (vmin vmax : ℝ) : normPixel s vmin vmax .nan = none := by
  simp [normPixel, intervalExt, stretchExt, maskInvalid]

theorem normPixel_fin (s : Stretch ℝ) (vmin vmax x : ℝ) :
    normPixel s vmin vmax (.fin x) = some (s.call (intervalFin vmin vmax x)) := by
  simp [normPixel, intervalExt, stretchExt, maskInvalid, isFiniteB_real]

/-- finite data is mapped to an unmasked number in [0, 1] -/
theorem norm_finite_range (s : Stretch ℝ) (h : Admissible s) (vmin vmax x : ℝ) :
    ∃ y, normPixel s vmin vmax (.fin x) = some y ∧ 0 ≤ y ∧ y ≤ 1 := by
  obtain ⟨h0, h1⟩ := intervalFin_mem vmin vmax x
  exact ⟨_, normPixel_fin s vmin vmax x, (stretch_law s h).maps_unit _ h0 h1⟩

/-- non-decreasing in the data value -/
theorem norm_mono (s : Stretch ℝ) (h : Admissible s) {vmin vmax : ℝ} (hl : vmin ≤ vmax) {x x' y y' : ℝ}
    (hx : x ≤ x') (hy : normPixel s vmin vmax (.fin x) = some y) (hy' : normPixel s vmin vmax (.fin x') = some y') :
    y ≤ y' := by
  rw [normPixel_fin] at hy hy'
  cases hy; cases hy'
  exact (stretch_law s h).mono _ _ (intervalFin_mono hl hx)

/-- the interval's lower and upper limits are sent to 0 and 1 -/
theorem norm_limits (s : Stretch ℝ) (h : Admissible s) {vmin vmax : ℝ} (hl : vmin < vmax) :
    normPixel s vmin vmax (.fin vmin) = some 0 ∧ normPixel s vmin vmax (.fin vmax) = some 1 := by
  rw [normPixel_fin, normPixel_fin, intervalFin_vmin hl, intervalFin_vmax hl,
    (stretch_law s h).zero, (stretch_law s h).one]
  exact ⟨rfl, rfl⟩

/-- `+inf ↦ 1`, `-inf ↦ 0` -/
theorem norm_inf (s : Stretch ℝ) (h : Admissible s) {vmin vmax : ℝ} (hl : vmin ≤ vmax) :
    normPixel s vmin vmax .posInf = some 1 ∧ normPixel s vmin vmax .negInf = some 0 := by
  obtain ⟨hp, hn, _⟩ := interval_nonfinite hl
  simp [normPixel, hp, hn, stretchExt, maskInvalid, isFiniteB_real, (stretch_law s h).zero, (stretch_law s h).one]

/-- `CustomNormalization.__call__` is `normPixel` on every pixel with the limits its interval
reports for the argument; so 4.a–d hold pixel-wise for whole arrays of any length/shape -/
theorem norm_call_pointwise (n : Norm.Norm ℝ) (data : List (Ext ℝ)) (out : List (Option ℝ))
    (h : n.call data = .ok out) :
    ∃ lo hi, n.interval.getLimits data = .ok (lo, hi) ∧ out = data.map (normPixel n.stretch lo hi) := by
  unfold Norm.call at h
  cases hl : n.interval.getLimits data with
  | error e => rw [hl] at h; cases h
  | ok p =>
    obtain ⟨lo, hi⟩ := p
    rw [hl] at h
    cases h
    exact ⟨lo, hi, rfl, rfl⟩

/-- `_set_limits` freezes the limits: afterwards `get_limits` returns the limits computed from
`data`, whatever array it is asked about (state `vmin/vmax fixed by _set_limits`) -/
theorem frozen_limits (n n' : Norm.Norm ℝ) (data : List (Ext ℝ)) (h : n.setLimits false data = .ok n') :
    ∃ lo hi, n.interval.getLimits data = .ok (lo, hi) ∧ n'.vmin = some lo ∧ n'.vmax = some hi ∧
      n'.stretch = n.stretch ∧ ∀ d', n'.interval.getLimits d' = .ok (lo, hi) := by
  unfold Norm.setLimits at h
  simp only [Bool.false_eq_true, if_false] at h
  cases hl : n.interval.getLimits data with
  | error e => rw [hl] at h; cases h
  | ok p =>
    obtain ⟨lo, hi⟩ := p
    rw [hl] at h
    cases h
    exact ⟨lo, hi, rfl, rfl, rfl, rfl, fun _ => rfl⟩

/-- automatic manual limits (min/max of the finite pixels) are ordered, strictly so when the
array holds two distinct finite values — the hypothesis of `norm_mono` / `norm_limits` -/
theorem manual_auto_limits_ordered (data : List (Ext ℝ)) (lo hi : ℝ)
    (h : manualLimits none none data = .ok (lo, hi)) :
    (∀ x, Ext.fin x ∈ data → lo ≤ x ∧ x ≤ hi) ∧
    (∀ x y, Ext.fin x ∈ data → Ext.fin y ∈ data → x < y → lo < hi) := by
  unfold manualLimits at h
  simp only [bind, Except.bind, pure, Except.pure] at h
  cases hm : minL (finiteVals data) with
  | none => rw [hm] at h; simp [orValueError] at h
  | some m =>
    cases hM : maxL (finiteVals data) with
    | none => rw [hm, hM] at h; simp [orValueError] at h
    | some M =>
      rw [hm, hM] at h
      simp only [orValueError, Except.ok.injEq, Prod.mk.injEq] at h
      obtain ⟨rfl, rfl⟩ := h
      have key : ∀ x, Ext.fin x ∈ data → m ≤ x ∧ x ≤ M := fun x hx =>
        ⟨minL_le hm x (mem_finiteVals hx), le_maxL hM x (mem_finiteVals hx)⟩
      refine ⟨key, ?_⟩
      intro x y hx hy hxy
      exact lt_of_le_of_lt (key x hx).1 (lt_of_lt_of_le hxy (key y hy).2)

/-- centered limits are ordered whenever the half range is non-negative (always, if automatic) -/
theorem centered_limits_ordered (vc : ℝ) (half : Option ℝ) (data : List (Ext ℝ)) (lo hi : ℝ)
    (hh : ∀ h, half = some h → 0 ≤ h) (h : centeredLimits vc half data = .ok (lo, hi)) : lo ≤ hi := by
  unfold centeredLimits at h
  cases half with
  | some hr =>
    simp only [Except.ok.injEq, Prod.mk.injEq, NumReal.sub_eq, NumReal.add_eq] at h
    obtain ⟨rfl, rfl⟩ := h
    have := hh hr rfl
    linarith
  | none =>
    simp only [bind, Except.bind, pure, Except.pure] at h
    cases hm : minL (finiteVals data) with
    | none => rw [hm] at h; simp [orValueError] at h
    | some m =>
      cases hM : maxL (finiteVals data) with
      | none => rw [hm, hM] at h; simp [orValueError] at h
      | some M =>
        rw [hm, hM] at h
        simp only [orValueError, Except.ok.injEq, Prod.mk.injEq, NumReal.sub_eq, NumReal.add_eq] at h
        obtain ⟨rfl, rfl⟩ := h
        have : 0 ≤ Num.max (Num.abs (m - vc)) (Num.abs (M - vc)) := by
          rw [NumReal.max_eq, NumReal.abs_eq, NumReal.abs_eq]
          exact le_max_of_le_left (abs_nonneg _)
        linarith

/-- the modelled NumPy linear-interpolation quantile limits are ordered whenever
`lower_quantile ≤ upper_quantile`, and lie between the min and the max of the finite pixels -/
theorem quantile_limits_ordered (lowerQ upperQ : ℝ) (data : List (Ext ℝ)) (a b : ℝ) (hq : lowerQ ≤ upperQ)
    (h : quantileLimits lowerQ upperQ data = .ok (a, b)) :
    a ≤ b ∧ ∀ m M, minL (finiteVals data) = some m → maxL (finiteVals data) = some M → m ≤ a ∧ b ≤ M := by
  unfold quantileLimits at h
  simp only at h
  split at h
  · cases h
  · split at h
    · cases h
    · rename_i hq01 hne
      simp only [Except.ok.injEq, Prod.mk.injEq] at h
      obtain ⟨rfl, rfl⟩ := h
      set s := (finiteVals data).mergeSort (fun a b => Num.leb a b) with hsdef
      have hs : s.Pairwise (· ≤ ·) := sortedFinite_pairwise _
      have hlen : 0 < s.length := by
        cases hs' : s with
        | nil => rw [hs'] at hne; simp at hne
        | cons x t => simp
      have hN : (0 : ℝ) ≤ ((s.length - 1 : Nat) : ℝ) := Nat.cast_nonneg _
      rw [quantileSorted_eq, quantileSorted_eq]
      refine ⟨quantAt_mono hs hlen (mul_le_mul_of_nonneg_left hq hN), ?_⟩
      intro m M hm hM
      have h0 : s.getD 0 0 ∈ finiteVals data := List.mem_mergeSort.mp (getD_mem s 0 hlen)
      have hl : s.getD (s.length - 1) 0 ∈ finiteVals data :=
        List.mem_mergeSort.mp (getD_mem s (s.length - 1) (by omega))
      exact ⟨le_trans (minL_le hm _ h0) (quantAt_bounds hs hlen _).1,
             le_trans (quantAt_bounds hs hlen _).2 (le_maxL hM _ hl)⟩

/-- configurations whose limits are "lower ≤ upper" by construction: quantiles in order,
non-negative half range, automatic manual limits, explicit limits in order, a half-specified
manual limit that does not lie beyond all the data -/
def IntervalOK : Interval ℝ → List (Ext ℝ) → Prop
  | .quantile lo hi, _ => lo ≤ hi
  | .centered _ half, _ => ∀ h, half = some h → 0 ≤ h
  | .manual none none, _ => True
  | .manual (some a) (some b), _ => a ≤ b
  | .manual (some a) none, d => ∃ x, Ext.fin x ∈ d ∧ a ≤ x
  | .manual none (some b), d => ∃ x, Ext.fin x ∈ d ∧ x ≤ b

/-- every interval type, frozen or lazy: the limits `get_limits` computes from the argument are ordered -/
theorem getLimits_ordered (i : Interval ℝ) (d : List (Ext ℝ)) (lo hi : ℝ) (hok : IntervalOK i d)
    (h : i.getLimits d = .ok (lo, hi)) : lo ≤ hi := by
  cases i with
  | quantile a b => exact (quantile_limits_ordered a b d lo hi hok h).1
  | centered c half => exact centered_limits_ordered c half d lo hi hok h
  | manual a b =>
    cases a with
    | none =>
      cases b with
      | none =>
        simp only [Interval.getLimits] at h
        cases hf : finiteVals d with
        | nil => simp [manualLimits, hf, minL, orValueError, bind, Except.bind] at h
        | cons x t =>
          have hx : ∃ y, Ext.fin y ∈ d := by
            have : x ∈ finiteVals d := by rw [hf]; simp
            clear h hok hf
            induction d with
            | nil => simp [finiteVals] at this
            | cons e r ih =>
              cases e with
              | fin y => exact ⟨y, by simp⟩
              | nan => simp only [finiteVals] at this; obtain ⟨y, hy⟩ := ih this; exact ⟨y, by simp [hy]⟩
              | negInf => simp only [finiteVals] at this; obtain ⟨y, hy⟩ := ih this; exact ⟨y, by simp [hy]⟩
              | posInf => simp only [finiteVals] at this; obtain ⟨y, hy⟩ := ih this; exact ⟨y, by simp [hy]⟩
          obtain ⟨y, hy⟩ := hx
          have := (manual_auto_limits_ordered d lo hi h).1 y hy
          linarith
      | some b =>
        obtain ⟨x, hx, hxb⟩ := hok
        simp only [Interval.getLimits, manualLimits, bind, Except.bind, pure, Except.pure] at h
        cases hm : minL (finiteVals d) with
        | none => rw [hm] at h; simp [orValueError] at h
        | some m =>
          rw [hm] at h
          simp only [orValueError, Except.ok.injEq, Prod.mk.injEq] at h
          obtain ⟨rfl, rfl⟩ := h
          exact le_trans (minL_le hm x (mem_finiteVals hx)) hxb
    | some a =>
      cases b with
      | none =>
        obtain ⟨x, hx, hax⟩ := hok
        simp only [Interval.getLimits, manualLimits, bind, Except.bind, pure, Except.pure] at h
        cases hM : maxL (finiteVals d) with
        | none => rw [hM] at h; simp [orValueError] at h
        | some M =>
          rw [hM] at h
          simp only [orValueError, Except.ok.injEq, Prod.mk.injEq] at h
          obtain ⟨rfl, rfl⟩ := h
          exact le_trans hax (le_maxL hM x (mem_finiteVals hx))
      | some b =>
        simp only [Interval.getLimits, manualLimits, Except.ok.injEq, Prod.mk.injEq] at h
        obtain ⟨rfl, rfl⟩ := h
        exact hok

/-- `CustomNormalization.__call__` in either mode (limits frozen by `_set_limits` or recomputed from
the argument — "lazy"), any interval type: NaN pixels masked, finite pixels to numbers in [0, 1],
non-decreasing in the data value -/
theorem norm_call_spec (n : Norm.Norm ℝ) (hadm : Admissible n.stretch) (data : List (Ext ℝ))
    (out : List (Option ℝ)) (hok : IntervalOK n.interval data) (h : n.call data = .ok out) :
    ∃ lo hi, lo ≤ hi ∧ out = data.map (normPixel n.stretch lo hi) ∧
      normPixel n.stretch lo hi .nan = none ∧
      (∀ x, ∃ y, normPixel n.stretch lo hi (.fin x) = some y ∧ 0 ≤ y ∧ y ≤ 1) ∧
      (∀ x x' y y', x ≤ x' → normPixel n.stretch lo hi (.fin x) = some y →
        normPixel n.stretch lo hi (.fin x') = some y' → y ≤ y') := by
  obtain ⟨lo, hi, hl, hout⟩ := norm_call_pointwise n data out h
  have hle := getLimits_ordered n.interval data lo hi hok hl
  exact ⟨lo, hi, hle, hout, norm_nan_masked _ _ _, fun x => norm_finite_range _ hadm lo hi x,
    fun x x' y y' hx hy hy' => norm_mono _ hadm hle hx hy hy'⟩

/-! ## 5. `CustomNormalization.inverse` -/

/-- the declared inverse of an admissible stretch is admissible -/
theorem admissible_inverse (s : Stretch ℝ) (h : Admissible s) : Admissible s.inverse := by
  cases s with
  | linear t =>
    obtain ⟨h1, h2⟩ := h
    simp [Stretch.inverse, Admissible, linear_inverse_eq, h1, h2]
  | power t => simpa [Stretch.inverse, Admissible, power_inverse_eq] using h
  | log t => simpa [Stretch.inverse, Admissible, log_inverse_eq] using h
  | invlog t => simpa [Stretch.inverse, Admissible, invlog_inverse_eq] using h
  | asinh t =>
    have := arsinh_inv_pos (a := t.a) h
    simpa [Stretch.inverse, Admissible, asinh_inverse_eq] using this
  | sinh t =>
    have := sinh_inv_pos (a := t.a) h
    simpa [Stretch.inverse, Admissible, sinh_inverse_eq] using this

/-- declaring the inverse twice gives the stretch back -/
theorem inverse_inverse (s : Stretch ℝ) (h : Admissible s) : s.inverse.inverse = s := by
  cases s with
  | linear t =>
    obtain ⟨h1, h2⟩ := h
    cases t
    simp_all [Stretch.inverse, linear_inverse_eq]
  | power t => cases t; simp [Stretch.inverse, power_inverse_eq]
  | log t => cases t; simp [Stretch.inverse, log_inverse_eq, invlog_inverse_eq]
  | invlog t => cases t; simp [Stretch.inverse, log_inverse_eq, invlog_inverse_eq]
  | asinh t =>
    cases t
    simp [Stretch.inverse, asinh_inverse_eq, sinh_inverse_eq, Real.sinh_arsinh]
  | sinh t =>
    cases t
    simp [Stretch.inverse, asinh_inverse_eq, sinh_inverse_eq, Real.arsinh_sinh]

/-- hence the declared inverse is a two-sided inverse on [0, 1] -/
theorem stretch_inverse_left (s : Stretch ℝ) (h : Admissible s) (u : ℝ) (h0 : 0 ≤ u) (h1 : u ≤ 1) :
    s.inverse.call (s.call u) = u := by
  have := (stretch_law s.inverse (admissible_inverse s h)).inverse_pair u h0 h1
  rwa [inverse_inverse s h] at this

/-- `CustomNormalization.inverse` after `_set_limits` (frozen limits): element-wise
`stretch.inverse(y) * (vmax - vmin) + vmin` -/
theorem norm_inverse_frozen (n : Norm.Norm ℝ) (lo hi : ℝ) (hi' : n.interval = .manual (some lo) (some hi))
    (hadm : Admissible n.stretch) (ys : List ℝ) :
    n.inverse ys = .ok (ys.map fun y => intervalInverse lo hi (n.stretch.inverse.call y)) := by
  have hv : n.stretch.inverse.valid = true := by
    have ha := admissible_inverse _ hadm
    cases hs : n.stretch.inverse with
    | linear t => simp [Stretch.valid, linear_valid]
    | power t => rw [hs] at ha; simpa [Stretch.valid, power_valid_iff, Admissible] using ha
    | log t => rw [hs] at ha; simpa [Stretch.valid, log_valid_iff, Admissible] using ha
    | invlog t => rw [hs] at ha; simpa [Stretch.valid, invlog_valid_iff, Admissible] using ha
    | asinh t => rw [hs] at ha; simpa [Stretch.valid, asinh_valid_iff, Admissible] using ha
    | sinh t => rw [hs] at ha; simpa [Stretch.valid, sinh_valid_iff, Admissible] using ha
  unfold Norm.inverse
  simp [hv, hi', Interval.getLimits, manualLimits, List.map_map, Function.comp_def, bind, Except.bind, pure, Except.pure]

/-- inverse ∘ forward is the identity on the clipped range `[vmin, vmax]`, and forward ∘ inverse is
the identity on [0, 1] (what a colorbar relies on) -/
theorem norm_inverse_roundtrip (s : Stretch ℝ) (h : Admissible s) {lo hi : ℝ} (hl : lo < hi) :
    (∀ x, lo ≤ x → x ≤ hi → intervalInverse lo hi (s.inverse.call (s.call (intervalFin lo hi x))) = x) ∧
    (∀ y, 0 ≤ y → y ≤ 1 → s.call (intervalFin lo hi (intervalInverse lo hi (s.inverse.call y))) = y) := by
  have hr : 0 < hi - lo := sub_pos.mpr hl
  have hfin : ∀ x, lo ≤ x → x ≤ hi → intervalFin lo hi x = (x - lo) / (hi - lo) := by
    intro x h0 h1
    rw [intervalFin_eq, if_pos hr.ne']
    exact clip01_of_mem (div_nonneg (by linarith) hr.le) ((div_le_one hr).mpr (by linarith))
  constructor
  · intro x h0 h1
    have hm := intervalFin_mem lo hi x
    rw [stretch_inverse_left s h _ hm.1 hm.2, hfin x h0 h1]
    simp only [intervalInverse_eq]
    field_simp
    ring
  · intro y h0 h1
    obtain ⟨hu0, hu1⟩ := (stretch_law s.inverse (admissible_inverse s h)).maps_unit y h0 h1
    have hx0 : lo ≤ intervalInverse lo hi (s.inverse.call y) := by
      simp only [intervalInverse_eq]; nlinarith
    have hx1 : intervalInverse lo hi (s.inverse.call y) ≤ hi := by
      simp only [intervalInverse_eq]; nlinarith
    rw [hfin _ hx0 hx1]
    have : (intervalInverse lo hi (s.inverse.call y) - lo) / (hi - lo) = s.inverse.call y := by
      simp only [intervalInverse_eq]
      field_simp
      ring
    rw [this]
    exact (stretch_law s h).inverse_pair y h0 h1

/-- all ten named presets are accepted by the constructor and hold an admissible stretch, so
4.a–d apply to each of them -/
theorem presets_admissible :
    ∀ p ∈ (presets : List (String × Config ℝ)), ∃ n, Norm.init p.2 = .ok n ∧ Admissible n.stretch := by
  intro p hp
  have hok : ∃ n, Norm.init p.2 = .ok n := by
    simp only [presets, List.mem_cons, List.not_mem_nil, or_false] at hp
    rcases hp with rfl | rfl | rfl | rfl | rfl | rfl | rfl | rfl | rfl | rfl <;>
      simp [Norm.init, selectInterval, selectStretch, Config.default, fne_iff, Stretch.valid,
        linear_valid, power_valid_iff, log_valid_iff, asinh_valid_iff]
  obtain ⟨n, hn⟩ := hok
  exact ⟨n, hn, init_admissible _ _ hn⟩

theorem presets_count : (presets : List (String × Config ℝ)).length = 10 := rfl

/-! ## 6. histories of operations on one object (including operations that raise) -/

theorem intervalOK_static (i : Interval ℝ) (d : List (Ext ℝ)) (h : IntervalOK i d) : LimitsStatic i := by
  cases i with
  | quantile a b => exact h
  | centered c half => exact h
  | manual a b => cases a <;> cases b <;> simp_all [IntervalOK, LimitsStatic]

/-- the operations of a history are admissible: `_set_limits` is only asked for limits the configuration orders
(`IntervalOK`); calls, inverses and rejected operations are unrestricted (they may raise) -/
def OpsOK : Norm.Norm ℝ → List Op → Prop
  | _, [] => True
  | n, op :: rest =>
    (match op with | .setLimits false d => IntervalOK n.interval d | _ => True) ∧ OpsOK (step n op) rest

/-- one step keeps the stretch, and keeps the limits ordered -/
theorem step_invariant (n : Norm.Norm ℝ) (op : Op) (hs : LimitsStatic n.interval)
    (hop : match op with | .setLimits false d => IntervalOK n.interval d | _ => True) :
    (step n op).stretch = n.stretch ∧ LimitsStatic (step n op).interval := by
  cases op with
  | call d => exact ⟨rfl, hs⟩
  | inverse ys => exact ⟨rfl, hs⟩
  | rejected => exact ⟨rfl, hs⟩
  | setLimits b d =>
    cases b with
    | true =>
      refine ⟨by simp [step, Norm.setLimits], ?_⟩
      simp only [step, Norm.setLimits, if_true, LimitsStatic, NumReal.ofRat_eq]
      norm_num
    | false =>
      simp only [step]
      cases hl : n.setLimits false d with
      | error e => exact ⟨rfl, hs⟩
      | ok n' =>
        obtain ⟨lo, hi, hg, _, _, hst, hfro⟩ := frozen_limits n n' d hl
        refine ⟨hst, ?_⟩
        have hle := getLimits_ordered n.interval d lo hi hop hg
        have hi' : n'.interval = .manual (some lo) (some hi) := by
          unfold Norm.setLimits at hl
          simp only [Bool.false_eq_true, if_false, hg, bind, Except.bind, pure, Except.pure] at hl
          cases hl; rfl
        simp only [hi', LimitsStatic]
        exact hle

/-- INVARIANT over every history (operations that return, operations that raise, rejected operations, any order,
any length): the object keeps the stretch it was built with and limits that are ordered -/
theorem history_invariant (ops : List Op) : ∀ (n : Norm.Norm ℝ), LimitsStatic n.interval → OpsOK n ops →
    (run n ops).stretch = n.stretch ∧ LimitsStatic (run n ops).interval := by
  induction ops with
  | nil => intro n hs _; exact ⟨rfl, hs⟩
  | cons op rest ih =>
    intro n hs hops
    obtain ⟨hop, hrest⟩ := hops
    obtain ⟨h1, h2⟩ := step_invariant n op hs hop
    obtain ⟨h3, h4⟩ := ih (step n op) h2 hrest
    exact ⟨by simpa [run, List.foldl_cons] using h3.trans h1, by simpa [run, List.foldl_cons] using h4⟩

/-- hence after ANY history every call that returns satisfies the property: NaN masked, finite pixels to numbers in
[0, 1], non-decreasing — for an object built by the constructor (`Norm.init`) from a configuration whose limits are
ordered -/
theorem history_call_spec (c : Config ℝ) (n : Norm.Norm ℝ) (hinit : Norm.init c = .ok n) (hs : LimitsStatic n.interval)
    (ops : List Op) (hops : OpsOK n ops) (data : List (Ext ℝ)) (out : List (Option ℝ))
    (hok : IntervalOK (run n ops).interval data) (h : (run n ops).call data = .ok out) :
    ∃ lo hi, lo ≤ hi ∧ out = data.map (normPixel n.stretch lo hi) ∧
      normPixel n.stretch lo hi .nan = none ∧
      (∀ x, ∃ y, normPixel n.stretch lo hi (.fin x) = some y ∧ 0 ≤ y ∧ y ≤ 1) ∧
      (∀ x x' y y', x ≤ x' → normPixel n.stretch lo hi (.fin x) = some y →
        normPixel n.stretch lo hi (.fin x') = some y' → y ≤ y') := by
  obtain ⟨hst, _⟩ := history_invariant ops n hs hops
  have hadm : Admissible (run n ops).stretch := by rw [hst]; exact init_admissible c n hinit
  have := norm_call_spec (run n ops) hadm data out hok h
  rwa [hst] at this

/-- after a `_set_limits` that returned, the limits are frozen for the rest of the history as long as no other
`_set_limits` follows: calls, inverses and rejected operations do not move them -/
theorem history_frozen (n' : Norm.Norm ℝ) (ops : List Op)
    (hops : ∀ op ∈ ops, ∀ b d', op ≠ .setLimits b d') :
    run n' ops = n' := by
  induction ops with
  | nil => rfl
  | cons op rest ih =>
    have hstep : step n' op = n' := by
      cases op with
      | setLimits b d' => exact absurd rfl (hops _ (by simp) b d')
      | call _ => rfl
      | inverse _ => rfl
      | rejected => rfl
    simp only [run, List.foldl_cons, hstep]
    exact ih (fun op hop => hops op (by simp [hop]))

/-! ## non-vacuity: the hypotheses are satisfiable by the instances the code actually builds -/

example : Admissible (.asinh ⟨(1 / 10 : ℝ)⟩) := by simp [Admissible]
example : Admissible (.power ⟨(1 / 2 : ℝ)⟩) := by simp [Admissible]
example : Admissible (.log ⟨(1000 : ℝ)⟩) := by simp [Admissible]
example : Admissible (.linear (LinearStretch.default : LinearStretch ℝ)) := by simp [Admissible, linear_default_eq]
example : ∃ vmin vmax : ℝ, vmin < vmax := ⟨0, 1, by norm_num⟩
/-- a concrete array with a NaN, an inf and two distinct finite values: the automatic manual
limits exist and are strictly ordered -/
example : ∃ lo hi : ℝ, manualLimits none none [.nan, .fin 3, .posInf, .fin (-2)] = .ok (lo, hi) ∧ lo < hi := by
  cases h : manualLimits (R := ℝ) none none [.nan, .fin 3, .posInf, .fin (-2)] with
  | error e => simp [manualLimits, finiteVals, minL, maxL, orValueError, bind, Except.bind, pure, Except.pure] at h
  | ok p =>
    obtain ⟨lo, hi⟩ := p
    refine ⟨lo, hi, rfl, ?_⟩
    exact (manual_auto_limits_ordered _ lo hi h).2 (-2) 3 (by simp) (by simp) (by norm_num)
/-- the default quantile interval (0.02, 0.98) and an automatic centered interval satisfy `IntervalOK` -/
example : IntervalOK (.quantile (1 / 50) (49 / 50)) [.fin 1, .nan, .fin 2] := by
  simp only [IntervalOK]; norm_num
example : IntervalOK (.centered 0 none) [.fin 1, .nan, .fin 2] := by simp [IntervalOK]
/-- a half-specified manual limit of exactly 0 inside the data range -/
example : IntervalOK (.manual (some 0) none) [.fin (-1), .nan, .fin 2] := ⟨2, by simp, by norm_num⟩
/-- the default configuration constructs -/
example : ∃ n, Norm.init (Config.default : Config ℝ) = .ok n :=
  (presets_admissible ("quantile", Config.default) (by simp [presets])).imp fun _ h => h.1

/-- a history with a rejected operation, a call and a `_set_limits` on ordered data is admissible for the default
configuration's object -/
example : ∃ n, Norm.init (Config.default : Config ℝ) = .ok n ∧ LimitsStatic n.interval ∧
    OpsOK n [.rejected, .call [.fin 1, .fin 2], .setLimits false [.fin 1, .nan, .fin 2], .rejected, .inverse [0, 1]] := by
  obtain ⟨n, hn⟩ : ∃ n, Norm.init (Config.default : Config ℝ) = .ok n :=
    (presets_admissible ("quantile", Config.default) (by simp [presets])).imp fun _ h => h.1
  have hn' := hn
  simp [Norm.init, selectInterval, selectStretch, Config.default, fne_iff, Stretch.valid, linear_valid] at hn'
  subst hn'
  refine ⟨_, hn, ?_, ?_⟩
  · simp only [LimitsStatic]; norm_num
  · simp only [OpsOK, step, and_true, true_and, IntervalOK]; norm_num

end QuantemModel.Props.C20
