import QuantemModel.Props.C05
import QuantemModel.Model.CheckpointLive
/-!
C05 — growth round 6 (listed in `EXTRA_PROPS` of harness/props/c05.py): the transient `.grad` tensors.

`.grad` is never part of a checkpoint: the reloaded / cloned object starts with every `.grad is None`, the
uninterrupted object carries whatever the last `backward` left — in particular STALE, never-zeroed gradients on a
model that has no optimizer yet (staged optimisation).  Proved here, for every step function, every accumulation
function, every state and EVERY content of `.grad`:

* `liveIter_fst` — one iteration of the loop as it is (zero_grad_all, accumulating backward, step_optimizers,
  _record_iter, step_schedulers) does to the reconstruction exactly what the `.grad`-free `iter` of the round-1
  theorems does: `zero_grad_all` clears exactly what `step_optimizers` reads;
* `liveIterate_fst` — … for any number of iterations, whatever optimizers are added or removed between them;
* `live_resume_eq_checkpoint` / `live_resume_eq_clone` — C05 for the live loop: iterate k times with ANY `.grad`
  content, save / from_file (clone), continue with all `.grad` = None (indeed with ANY `.grad` content) → the uninterrupted n iterations;
* `zero_after_counterexample` — for the loop "no zero_grad before backward, zero_grad after the step" (seeded change
  C05e-3) the statement is false: a probe that receives its optimizer after one iteration of a staged history
  consumes stale + fresh gradient in the uninterrupted object (value −2) and only the fresh one after a reload (−1);
  the loop as it is gives −1 in both.
-/

namespace QuantemModel.Props.C05Ext
open QuantemModel.Checkpoint
open QuantemModel.Props.C05

/-! ### 1. `optimizer.step()` reads only `.grad` of its own param group -/

theorem stepParams_readGrads {θ γ μ σ : Type} (S : Step θ γ μ σ) (G : Grads γ) (v : View θ) (key : String) (o : Optim μ)
    (h : ∀ p, o.params.contains p = true → G key p = S.grad v key p) :
    ∀ (ps : List (PId × θ)) (st : List (PId × μ)),
      stepParams (readGrads S G) v key o ps st = stepParams S v key o ps st := by
  intro ps
  induction ps with
  | nil => intro st; rfl
  | cons a rest ih =>
    intro st
    obtain ⟨p, x⟩ := a
    by_cases hc : o.params.contains p = true
    · have hg : (readGrads S G).grad v key p = S.grad v key p := h p hc
      simp only [stepParams, hc, if_true, hg]
      cases S.grad v key p with
      | none => simp only [ih]
      | some g => simp only [ih]; rfl
    · simp only [stepParams, hc, if_false, ih, Bool.false_eq_true]

theorem stepModel_readGrads {θ γ μ σ : Type} (S : Step θ γ μ σ) (G : Grads γ) (v : View θ) (key : String) (m : ModelSt θ μ σ)
    (h : ∀ o, m.opt = some o → ∀ p, o.params.contains p = true → G key p = S.grad v key p) :
    stepModel (readGrads S G) v key m = stepModel S v key m := by
  unfold stepModel
  cases ho : m.opt with
  | none => rfl
  | some o => simp only [stepParams_readGrads S G v key o (h o ho)]

/-! ### 2. `zero_grad_all` clears exactly what the steps read -/

theorem zeroModel_none_of_none {θ μ σ γ : Type} (key' : String) (m : ModelSt θ μ σ) (G : Grads γ) (k : String) (p : PId)
    (h : G k p = none) : zeroModel key' m G k p = none := by
  unfold zeroModel
  cases m.opt with
  | none => exact h
  | some o =>
    show (if k = key' ∧ o.params.contains p = true then none else G k p) = none
    split
    · rfl
    · exact h

theorem zeroModel_self {θ μ σ γ : Type} (key : String) (m : ModelSt θ μ σ) (G : Grads γ) (o : Optim μ) (p : PId)
    (ho : m.opt = some o) (hp : o.params.contains p = true) : zeroModel key m G key p = none := by
  unfold zeroModel
  rw [ho]
  show (if key = key ∧ o.params.contains p = true then none else G key p) = none
  rw [if_pos ⟨rfl, hp⟩]

/-- after `zero_grad_all()` + `backward()` the `.grad` of every parameter in the param group of an optimizer is the
gradient of THIS pass, whatever `.grad` held before -/
theorem fresh_after_zero_backward {θ γ μ σ : Type} (S : Step θ γ μ σ) (add : γ → γ → γ) (r : Recon θ μ σ) (G : Grads γ) :
    (∀ o, r.object.opt = some o → ∀ p, o.params.contains p = true →
      backwardAcc S add r.view (zeroGradAll r G) "object" p = S.grad r.view "object" p) ∧
    (∀ o, r.probe.opt = some o → ∀ p, o.params.contains p = true →
      backwardAcc S add r.view (zeroGradAll r G) "probe" p = S.grad r.view "probe" p) ∧
    (∀ o, r.dataset.opt = some o → ∀ p, o.params.contains p = true →
      backwardAcc S add r.view (zeroGradAll r G) "dataset" p = S.grad r.view "dataset" p) := by
  refine ⟨?_, ?_, ?_⟩ <;> intro o ho p hp <;> unfold backwardAcc zeroGradAll
  · rw [zeroModel_none_of_none _ _ _ _ _ (zeroModel_none_of_none _ _ _ _ _ (zeroModel_self "object" r.object G o p ho hp))]
    rfl
  · rw [zeroModel_none_of_none _ _ _ _ _ (zeroModel_self "probe" r.probe _ o p ho hp)]
    rfl
  · rw [zeroModel_self "dataset" r.dataset _ o p ho hp]
    rfl

/-! ### 3. the live loop is the `.grad`-free iteration -/

/-- **one iteration of the loop as the code is = `iter`**, for EVERY content of `.grad` (stale gradients of models
without optimizer included) -/
theorem liveIter_fst {θ γ μ σ : Type} (S : Step θ γ μ σ) (add : γ → γ → γ) (r : Recon θ μ σ) (G : Grads γ) :
    (liveIter S add (r, G)).1 = iter S r := by
  obtain ⟨h1, h2, h3⟩ := fresh_after_zero_backward S add r G
  simp only [liveIter, finishIter, iter]
  rw [stepModel_readGrads S _ r.view "object" r.object h1, stepModel_readGrads S _ r.view "probe" r.probe h2,
    stepModel_readGrads S _ r.view "dataset" r.dataset h3]

/-- **… for any number of iterations** -/
theorem liveIterate_fst {θ γ μ σ : Type} (S : Step θ γ μ σ) (add : γ → γ → γ) :
    ∀ (n : Nat) (r : Recon θ μ σ) (G : Grads γ), (iterN (liveIter S add) n (r, G)).1 = (iter S)^[n] r := by
  intro n
  induction n with
  | zero => intro r G; rfl
  | succ n ih =>
    intro r G
    have h : liveIter S add (r, G) = (iter S r, (liveIter S add (r, G)).2) := by
      rw [← liveIter_fst S add r G]
    simp only [iterN, Function.iterate_succ_apply]
    rw [h, ih]

/-- **C05 for the live loop, save / from_file**: `.grad` is not in the file — the reloaded object starts with every
`.grad` = None (`G' = Grads.none`; the statement holds for ANY `G'`, so nothing is assumed about what a reload does to
`.grad`), the uninterrupted one with whatever `G` and k iterations left behind -/
theorem live_resume_eq_checkpoint {θ γ μ σ : Type} (S : Step θ γ μ σ) (add : γ → γ → γ) (pk : Pickle (ModelSt θ μ σ))
    (r : Recon θ μ σ) (G G' : Grads γ) (h : r.wf) (k n : Nat) (hk : k ≤ n) :
    (fromFile pk (save reconnect pk (iterN (liveIter S add) k (r, G)).1)).map
        (fun r' => (iterN (liveIter S add) (n - k) (r', G')).1)
      = some (iterN (liveIter S add) n (r, G)).1 := by
  simp only [liveIterate_fst]
  exact resume_eq_checkpoint S pk r h k n hk

/-- **C05 for the live loop, clone** -/
theorem live_resume_eq_clone {θ γ μ σ : Type} (S : Step θ γ μ σ) (add : γ → γ → γ) (pk : Pickle (ModelSt θ μ σ))
    (r : Recon θ μ σ) (G G' : Grads γ) (h : r.wf) (k n : Nat) (hk : k ≤ n) :
    (clone reconnect pk (iterN (liveIter S add) k (r, G)).1).map
        (fun r' => (iterN (liveIter S add) (n - k) (r', G')).1)
      = some (iterN (liveIter S add) n (r, G)).1 := by
  simp only [liveIterate_fst]
  exact resume_eq_clone S pk r h k n hk

/-! ### 4. "zero_grad after the step" breaks it (witness of seeded change C05e-3) -/

/-- plain SGD with lr 1; the loss reaches the one probe parameter with gradient 1 on every pass -/
def stageStep : Step Int Int Int Unit where
  loss := fun _ => 0
  grad := fun _ key p => if key = "probe" ∧ p = 0 then some 1 else none
  upd := fun _ _ _ x g => (none, x - g)
  sched := fun s _ lr => (s, lr)

/-- first stage: nothing has an optimizer (the probe is not trained yet) -/
def stage0 : Recon Int Int Unit where
  object := { params := [], opt := none, sched := none, cons := [] }
  probe := { params := [(0, 0)], opt := none, sched := none, cons := [] }
  dataset := { params := [], opt := none, sched := none, cons := [] }
  book := Book.empty
  verbose := 0
  batchSize := 1
  preprocessed := true
  device := "cpu"

/-- `reconstruct(optimizer_params={"probe": sgd})` between two iterations -/
def addProbeOpt (r : Recon Int Int Unit) : Recon Int Int Unit :=
  { r with probe := { r.probe with opt := some { params := [0], state := [], lr := 1, hyper := 0 } } }

theorem zero_after_counterexample :
    -- the variant: the uninterrupted object consumes stale + fresh, the reloaded one (all .grad = None) the fresh one
    (let x1 := liveIterZeroAfter stageStep (· + ·) (stage0, Grads.none)
     (liveIterZeroAfter stageStep (· + ·) (addProbeOpt x1.1, x1.2)).1.probe.params = [(0, -2)] ∧
     (liveIterZeroAfter stageStep (· + ·) (addProbeOpt x1.1, Grads.none)).1.probe.params = [(0, -1)]) ∧
    -- the loop as it is: −1 in both
    (let x1 := liveIter stageStep (· + ·) (stage0, Grads.none)
     (liveIter stageStep (· + ·) (addProbeOpt x1.1, x1.2)).1.probe.params = [(0, -1)] ∧
     (liveIter stageStep (· + ·) (addProbeOpt x1.1, Grads.none)).1.probe.params = [(0, -1)]) := by
  refine ⟨⟨by decide, by decide⟩, ⟨by decide, by decide⟩⟩

/-! ### non-vacuity -/

/-- the stale gradient exists: after the first stage the probe's `.grad` is not None although it has no optimizer -/
example : (liveIter stageStep (· + ·) (stage0, Grads.none)).2 "probe" 0 = some 1 := by decide

/-- the hypothesis of `live_resume_eq_*` is satisfiable on the staged state -/
example : (addProbeOpt stage0).wf := by
  refine ⟨?_, ?_, ?_⟩ <;> intro o ho <;> simp [addProbeOpt, stage0] at ho
  subst ho
  exact ⟨rfl, by decide, by decide, by decide⟩

/-- the reading the property needs: the reloaded object starts with every `.grad` = None, the staged witness continues
like the uninterrupted one that carries a stale gradient 5 on every parameter -/
example (pk : Pickle (ModelSt Int Int Unit)) (hwf : (addProbeOpt stage0).wf) :
    (fromFile pk (save reconnect pk (iterN (liveIter stageStep (· + ·)) 1 (addProbeOpt stage0, fun _ _ => some 5)).1)).map
        (fun r' => (iterN (liveIter stageStep (· + ·)) (3 - 1) (r', Grads.none)).1)
      = some (iterN (liveIter stageStep (· + ·)) 3 (addProbeOpt stage0, fun _ _ => some 5)).1 :=
  live_resume_eq_checkpoint stageStep (· + ·) pk _ _ Grads.none hwf 1 3 (by decide)

/-- … and `liveIter_fst` says something there: the stale gradient does not reach the step -/
example : (liveIter stageStep (· + ·) (addProbeOpt stage0, fun _ _ => some 5)).1 = iter stageStep (addProbeOpt stage0) :=
  liveIter_fst _ _ _ _

end QuantemModel.Props.C05Ext
