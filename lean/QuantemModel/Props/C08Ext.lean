import QuantemModel.Props.C08
import QuantemModel.Model.SaveFrontExt
/-!
C08 — growth round 6 (listed in `EXTRA_PROPS` of harness/props/c08.py).

END-TO-END theorems: the front end of `save` (`SaveFront.front`: validation, store inference,
`.zip` suffix, write-once check), the filesystem protocol (`SaveFs.run`: staging, install, discard)
and the kind-level `_install()` / `_discard()` (`SaveInstall`) composed, for WHOLE HISTORIES of
complete calls onto ANY number of targets that are alive at once — every call with its own
arguments, its own staging path, and an exception at any primitive (or none).
-/
namespace QuantemModel.Props.C08
open QuantemModel.SaveFs QuantemModel.SaveFront

/-- the protocol on one target, both directions at once: a run that raised kept the target or
(fault inside `_install`) removed it; a run that did not raise installed the complete object -/
theorem run_target_cases (c : Cfg) (hne : c.target ≠ c.staged) (fs : Fs) (hu : Uniq fs)
    (zip : Bool) (nTmp nWrites : Nat) (fault : Option Nat) :
    let r := run c fs (steps zip nTmp nWrites (fsGet fs c.target).isSome) fault
    (r.2 = true ∧ (fsGet r.1 c.target = fsGet fs c.target ∨ fsGet r.1 c.target = .none)) ∨
      (r.2 = false ∧ fsGet r.1 c.target = some (.complete c.id)) := by
  intro r
  cases h : r.2 with
  | true => exact Or.inl ⟨rfl, raise_never_installs c hne fs hu zip nTmp nWrites fault h⟩
  | false => exact Or.inr ⟨rfl, (no_partial c hne fs hu zip nTmp nWrites fault).2 h⟩

theorem succeededFull_ok (name : P → String) (k : FullCall) (fs : Fs) (r : Resolved)
    (hr : front k.path k.mode k.store k.level (fun p => (fsGet fs (name p)).isSome) = .ok r) :
    succeededFull name fs k =
      !(run { target := name r.target, staged := k.staged, id := k.id } fs
          (steps r.zip k.nTmp k.nWrites (fsGet fs (name r.target)).isSome) k.fault).2 := by
  simp [succeededFull, saveFull, hr]

theorem succeededFull_error (name : P → String) (k : FullCall) (fs : Fs) (e : Err)
    (hr : front k.path k.mode k.store k.level (fun p => (fsGet fs (name p)).isSome) = .error e) :
    succeededFull name fs k = false := by
  simp [succeededFull, saveFull, hr]

theorem uniq_applyFull (name : P → String) (k : FullCall) (fs : Fs) (hu : Uniq fs) :
    Uniq (applyFull name fs k) := by
  cases hf : front k.path k.mode k.store k.level (fun p => (fsGet fs (name p)).isSome) with
  | error e => rw [(saveFull_eq name k fs).1 e hf]; exact hu
  | ok r => rw [(saveFull_eq name k fs).2 r hf]; exact uniq_run _ _ _ _ hu

/-- **one complete call and ANY path `T`** (its own target or somebody else's): afterwards `T` is what
it was, or — only if `T` is the call's resolved target — absent (the call raised) or the call's
complete object (the call returned normally); and a call that returned normally HAS installed
its complete object at its resolved target -/
theorem full_call_target (name : P → String) (k : FullCall) (fs : Fs) (hu : Uniq fs) (T : String)
    (hS : k.staged ≠ T) :
    (fsGet (applyFull name fs k) T = fsGet fs T ∨
      (succeededFull name fs k = false ∧ k.key name = T ∧ fsGet (applyFull name fs k) T = .none) ∨
      (succeededFull name fs k = true ∧ k.key name = T ∧
        fsGet (applyFull name fs k) T = some (.complete k.id))) ∧
    (succeededFull name fs k = true → k.key name = T →
      fsGet (applyFull name fs k) T = some (.complete k.id)) := by
  cases hf : front k.path k.mode k.store k.level (fun p => (fsGet fs (name p)).isSome) with
  | error e =>
    rw [(saveFull_eq name k fs).1 e hf, succeededFull_error name k fs e hf]
    exact ⟨Or.inl rfl, fun h => by cases h⟩
  | ok r =>
    rw [(saveFull_eq name k fs).2 r hf, succeededFull_ok name k fs r hf]
    obtain ⟨_, _, _, hr⟩ := (front_ok_iff _ _ _ _ _ r).1 hf
    subst hr
    by_cases hT : name (targetOf k.path k.store) = T
    · have hne : name (targetOf k.path k.store) ≠ k.staged := by rw [hT]; exact Ne.symm hS
      have h := run_target_cases { target := name (targetOf k.path k.store), staged := k.staged, id := k.id }
        hne fs hu (decide (resolveStore k.path k.store = "zip")) k.nTmp k.nWrites k.fault
      subst hT
      rcases h with ⟨h2, h | h⟩ | ⟨h2, h⟩
      · exact ⟨Or.inl h, fun hs => by simp [h2] at hs⟩
      · exact ⟨Or.inr (Or.inl ⟨by simp [h2], rfl, h⟩), fun hs => by simp [h2] at hs⟩
      · exact ⟨Or.inr (Or.inr ⟨by simp [h2], rfl, h⟩), fun _ _ => h⟩
    · refine ⟨Or.inl ?_, fun _ hk => absurd hk hT⟩
      exact others_untouched _ _ fs k.fault T (fun h => hT h.symm) (fun h => hS h.symm)

/-- **C08 end to end, over whole histories onto any targets.**  For ANY sequence of complete
`save(path, mode, store, compression_level)` calls — any spelling of the arguments (rejected
calls included), different targets alive at once, any object graphs, an exception at any
primitive of any call (or none) — and ANY path `T` that is not a staging path: afterwards `T`
is what it was before the history, or absent, or the COMPLETE object of one of the calls that
named `T` AND returned normally.  Never a partial object, never the object of a call that
raised, never the object of a call onto another target. -/
theorem runFull_history (name : P → String) (T : String) (ks : List FullCall) :
    ∀ (fs : Fs), Uniq fs → (∀ k ∈ ks, k.staged ≠ T) →
      Uniq (runFull name fs ks) ∧
      (fsGet (runFull name fs ks) T = fsGet fs T ∨ fsGet (runFull name fs ks) T = .none ∨
        ∃ i, (T, i) ∈ succeededFullIds name fs ks ∧
          fsGet (runFull name fs ks) T = some (.complete i)) := by
  induction ks with
  | nil => intro fs hu _; exact ⟨hu, Or.inl rfl⟩
  | cons k rest ih =>
    intro fs hu hall
    have hS := hall k (by simp)
    have hu1 := uniq_applyFull name k fs hu
    obtain ⟨h1, _⟩ := full_call_target name k fs hu T hS
    obtain ⟨hu2, h2⟩ := ih (applyFull name fs k) hu1 (fun k' hk' => hall k' (by simp [hk']))
    have hrc : runFull name fs (k :: rest) = runFull name (applyFull name fs k) rest := by simp [runFull]
    rw [hrc]
    refine ⟨hu2, ?_⟩
    simp only [succeededFullIds]
    rcases h2 with h2 | h2 | ⟨i, hi, h2⟩
    · rw [h2]
      rcases h1 with h1 | ⟨_, _, h1⟩ | ⟨hs, hk, h1⟩
      · exact Or.inl h1
      · exact Or.inr (Or.inl h1)
      · exact Or.inr (Or.inr ⟨k.id, by simp [hs, hk], h1⟩)
    · exact Or.inr (Or.inl h2)
    · exact Or.inr (Or.inr ⟨i, List.mem_append_right _ hi, h2⟩)

/-- in particular no path ever holds a partial object after any history of complete calls -/
theorem runFull_never_partial (name : P → String) (T : String) (ks : List FullCall) (fs : Fs) (hu : Uniq fs)
    (hall : ∀ k ∈ ks, k.staged ≠ T) (hpre : ∀ i n, fsGet fs T ≠ some (.partialObj i n)) :
    ∀ i n, fsGet (runFull name fs ks) T ≠ some (.partialObj i n) := by
  intro i n
  rcases (runFull_history name T ks fs hu hall).2 with h | h | ⟨j, _, h⟩ <;> rw [h]
  · exact hpre i n
  · simp
  · simp

/-- **no complete call alters a path other than its resolved target — whole histories** -/
theorem runFull_others_untouched (name : P → String) (ks : List FullCall) : ∀ (fs : Fs) (q : String),
    (∀ k ∈ ks, q ≠ k.key name ∧ q ≠ k.staged) → fsGet (runFull name fs ks) q = fsGet fs q := by
  induction ks with
  | nil => intro fs q _; rfl
  | cons k rest ih =>
    intro fs q h
    have hk := h k (by simp)
    have : runFull name fs (k :: rest) = runFull name (applyFull name fs k) rest := by simp [runFull]
    rw [this, ih _ _ (fun k' hk' => h k' (by simp [hk'])),
      saveFull_others_untouched name k fs q hk.1 hk.2]

/-- **nothing is ever left behind — whole histories of complete calls**: an absent path that no call
names as its resolved target (it may be the staging path of any number of calls) stays absent -/
theorem runFull_no_leftover (name : P → String) (ks : List FullCall) : ∀ (fs : Fs) (q : String), Uniq fs →
    (∀ k ∈ ks, q ≠ k.key name) → fsGet fs q = .none → fsGet (runFull name fs ks) q = .none := by
  induction ks with
  | nil => intro fs q _ _ h; exact h
  | cons k rest ih =>
    intro fs q hu h h0
    have hk := h k (by simp)
    have hrc : runFull name fs (k :: rest) = runFull name (applyFull name fs k) rest := by simp [runFull]
    rw [hrc]
    refine ih _ _ (uniq_applyFull name k fs hu) (fun k' hk' => h k' (by simp [hk'])) ?_
    by_cases hs : q = k.staged
    · subst hs
      exact (saveFull_no_partial name k fs hu (fun e => hk e.symm)).2 h0
    · rw [saveFull_others_untouched name k fs q hk hs]; exact h0

/-- **write-once over whole histories, several targets alive**: if no call of the history uses
mode "o", a path that exists is NEVER modified — whatever the calls name (this path or others),
however they spell it, whatever fails -/
theorem runFull_write_once (name : P → String) (T : String) (ks : List FullCall) : ∀ (fs : Fs),
    (∀ k ∈ ks, k.mode ≠ "o" ∧ k.staged ≠ T) → (fsGet fs T).isSome = true →
      fsGet (runFull name fs ks) T = fsGet fs T := by
  induction ks with
  | nil => intro fs _ _; rfl
  | cons k rest ih =>
    intro fs h hex
    obtain ⟨hm, hS⟩ := h k (by simp)
    have hrc : runFull name fs (k :: rest) = runFull name (applyFull name fs k) rest := by simp [runFull]
    have h1 : fsGet (applyFull name fs k) T = fsGet fs T := by
      by_cases hT : T = name (targetOf k.path k.store)
      · rw [saveFull_write_once name k fs hm (by rw [← hT]; exact hex)]
      · exact saveFull_others_untouched name k fs T hT (fun e => hS e.symm)
    rw [hrc, ih _ (fun k' hk' => h k' (by simp [hk'])) (by rw [h1]; exact hex), h1]

/-- **refinement of one complete call to a map update** (`specApply`): on its resolved target the
call behaves like "bind the target to the complete object if the call returned normally, else
leave it (or, fault inside `_install`, drop it)" -/
theorem applyFull_refines_spec (name : P → String) (k : FullCall) (fs : Fs) (hu : Uniq fs)
    (hne : k.key name ≠ k.staged) :
    ∃ lost, fsGet (applyFull name fs k) (k.key name) =
      fsGet (specApply (k.key name) k.id (succeededFull name fs k) lost fs) (k.key name) := by
  obtain ⟨h, hs⟩ := full_call_target name k fs hu (k.key name) (Ne.symm hne)
  cases hsucc : succeededFull name fs k with
  | true =>
    refine ⟨false, ?_⟩
    rw [hs hsucc rfl]
    simp [specApply, fsGet_fsSet_same]
  | false =>
    rcases h with h | ⟨_, _, h⟩ | ⟨h2, _, _⟩
    · exact ⟨false, by rw [h]; simp [specApply]⟩
    · exact ⟨true, by rw [h]; simp [specApply, fsGet_fsErase_same _ _ hu]⟩
    · rw [hsucc] at h2; cases h2

/-! ### `_install()` / `_discard()` of `SaveInstall` refine the steps `removeOld`, `replace`, `discard` -/
section bridge
open QuantemModel.SaveInstall

/-- **the install phase of the protocol model IS `_install()` on kinds of entries**: whatever kind of
entry holds the staged object (not a link) and whatever sits at the target (nothing or any
content of any kind, links included), running `installPart` in `SaveFs` and calling
`SaveInstall.install` on the kinds gives the same staged / target entries -/
theorem install_refines_steps (κ : Content → Kind) (c : Cfg) (hne : c.target ≠ c.staged) (fs : Fs) (hu : Uniq fs)
    (x : Content) (hx : fsGet fs c.staged = some x) (hk : islink (some (κ x)) = false) :
    let fs' := (run c fs (installPart (fsGet fs c.target).isSome) .none).1
    install (absEnt κ (fsGet fs c.staged)) (absEnt κ (fsGet fs c.target)) =
      .ok (absEnt κ (fsGet fs' c.staged), absEnt κ (fsGet fs' c.target)) := by
  intro fs'
  have hl : install (absEnt κ (fsGet fs c.staged)) (absEnt κ (fsGet fs c.target)) = .ok (.none, some (κ x)) := by
    rw [hx]; exact install_total (κ x) _ hk
  rw [hl]
  have hs : fsGet fs' c.staged = .none ∧ fsGet fs' c.target = some x := by
    show fsGet (run c fs (installPart (fsGet fs c.target).isSome) .none).1 c.staged = .none ∧
      fsGet (run c fs (installPart (fsGet fs c.target).isSome) .none).1 c.target = some x
    cases (fsGet fs c.target).isSome with
    | true =>
      have h1 : fsGet (fsErase fs c.target) c.staged = some x := by
        rw [fsGet_fsErase_other _ _ _ (Ne.symm hne)]; exact hx
      simp only [installPart, if_true, List.cons_append, List.nil_append, run, exec, h1]
      exact ⟨fsGet_fsErase_same _ _ (uniq_fsSet _ _ _ (uniq_fsErase _ _ hu)),
        by rw [fsGet_fsErase_other _ _ _ hne]; exact fsGet_fsSet_same _ _ _⟩
    | false =>
      simp only [installPart, Bool.false_eq_true, if_false, List.nil_append, run, exec, hx]
      exact ⟨fsGet_fsErase_same _ _ (uniq_fsSet _ _ _ hu),
        by rw [fsGet_fsErase_other _ _ _ hne]; exact fsGet_fsSet_same _ _ _⟩
  rw [hs.1, hs.2]; rfl

/-- **`_discard()` on kinds refines the model's `discard`**: whatever staging left (nothing, a file, a
directory), both end with the staging path absent -/
theorem discard_refines_step (κ : Content → Kind) (c : Cfg) (fs : Fs) (hu : Uniq fs)
    (hk : islink (absEnt κ (fsGet fs c.staged)) = false) :
    SaveInstall.discard (absEnt κ (fsGet fs c.staged)) =
      .ok (absEnt κ (fsGet (SaveFs.discard c fs) c.staged)) := by
  rw [discard_total _ hk]
  simp [SaveFs.discard, fsGet_fsErase_same _ _ hu, absEnt]

end bridge

/-! ### non-vacuity: two targets alive at once, second of two consecutive saves faulted -/
private def pA : P := ['a']
private def pAZ : P := ['a', '.', 'z', 'i', 'p']
private def pB : P := ['b']
private def nm2 (p : P) : String := if p = pA then "a" else if p = pAZ then "a.zip" else if p = pB then "b" else "?"
private def fc (path : P) (mode store : String) (level : Option Int) (id : Nat) (fault : Option Nat) : FullCall :=
  { path := path, mode := mode, store := store, level := level, id := id, staged := "S" ++ toString id,
    nTmp := 2, nWrites := 3, fault := fault }
/-- save→a.zip ok; save→b ok; save→a.zip (overwrite) faulted in the zip assembly; save→b write-once refused;
save→b with a bad level; save→b overwrite faulted at `os.replace` (old object already removed) -/
private def histF : List FullCall :=
  [fc pA "w" "zip" (some 4) 1 .none, fc pB "w" "auto" .none 2 .none, fc pA "o" "zip" (some 4) 3 (some 5),
   fc pB "w" "dir" (some 4) 4 .none, fc pB "o" "dir" (some 10) 5 .none, fc pB "o" "dir" (some 0) 6 (some 6)]
example : runFull nm2 [("sib", .foreign 1)] (histF.take 2) =
    [("sib", .foreign 1), ("a.zip", .complete 1), ("b", .complete 2)] := by decide
example : runFull nm2 [("sib", .foreign 1)] (histF.take 5) =
    [("sib", .foreign 1), ("a.zip", .complete 1), ("b", .complete 2)] := by decide
example : runFull nm2 [("sib", .foreign 1)] histF = [("sib", .foreign 1), ("a.zip", .complete 1)] := by decide
example : succeededFullIds nm2 [("sib", .foreign 1)] histF = [("a.zip", 1), ("b", 2)] := by decide
example : ∀ k ∈ histF, k.staged ≠ "a.zip" ∧ k.staged ≠ "b" := by decide
example : ∀ k ∈ histF.take 2 ++ [fc pB "x" "dir" .none 7 .none], k.mode ≠ "o" ∧ k.staged ≠ "sib" := by decide
example : specApply "b" 6 false true [("b", .complete 2)] = [] := by decide
example : SaveInstall.install (SaveInstall.absEnt (fun _ => .file) (some (.complete 1)))
    (SaveInstall.absEnt (fun _ => .file) .none) = .ok (.none, some .file) := rfl

end QuantemModel.Props.C08
