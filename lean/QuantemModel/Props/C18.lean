import QuantemModel.Lemmas.OriginFit
import QuantemModel.Lemmas.OriginState
import QuantemModel.Generated.OriginSurface
/-!
C18 — centre-of-mass origin estimation (Model/Origin.lean) is exact, path independent and batch
invariant; constant / plane fits reproduce a surface the origins lie on; an integer shift is the
circular roll.  Only property theorems and non-vacuity examples live here.

Definitions used in the statements (Lemmas/Origin.lean, Lemmas/OriginFit.lean):
`comSpec I = (Σ_r r·Σ_c I[r][c] / Σ I, Σ_r Σ_c c·I[r][c] / Σ I)` — the intensity-weighted mean row and
column index; `Rect h w I` — `I` has `h` rows of length `w`; `maskWith (some m) I = I ⊙ m`;
`offPlane pos z a b c p = (a,b,c)·(p − centroid)`; `ssr F θ pts = Σ (F θ x − z)²`.
-/
namespace QuantemModel.Props.C18
open QuantemModel QuantemModel.Origin QuantemModel.Batcher

/-! ### 1. centre of mass: batch invariant, path independent, exact -/

/-- **Batch invariance** (any carrier, in particular binary64): for all batch sizes `b, b' ≥ 1`
(1, non-dividing, larger than the number of patterns) `calculate_origin` returns the same buffer,
and no entry of it is left unassigned. -/
theorem com_batch_invariant {R : Type} [Num R] (b b' : Nat) (hb : 0 < b) (hb' : 0 < b') (h w : Nat)
    (t3 : List (Pattern R)) :
    comTorchBatched b h w t3 = comTorchBatched b' h w t3 ∧
      ∀ o ∈ comTorchBatched b h w t3, o ≠ none := by
  rw [comTorchBatched_eq b hb, comTorchBatched_eq b' hb']
  refine ⟨rfl, ?_⟩
  intro o ho
  obtain ⟨I, _, rfl⟩ := List.mem_map.mp ho
  simp

/-- **Path independence** (any carrier): the vectorised and the looped numpy path return the same
arrays for every mask, and — without mask — the torch origin model returns, pattern by pattern
in scan order, the same (row, column) pair, for every batch size. -/
theorem com_paths_agree {R : Type} [Num R] (mask : Option (Pattern R)) (b : Nat) (hb : 0 < b) (h w : Nat)
    (I4 : List (List (Pattern R))) :
    comNumpyVectorised mask h w I4 = comNumpyLooped mask h w I4 ∧
      comTorchBatched b h w I4.flatten =
        List.zipWith (fun r c => some (r, c)) (comNumpyLooped none h w I4).1.flatten
          (comNumpyLooped none h w I4).2.flatten := by
  refine ⟨by rw [comNumpyVectorised_eq, comNumpyLooped_eq], ?_⟩
  rw [comTorchBatched_eq b hb, comNumpyLooped_eq]
  simp only [maskWith]
  rw [← List.map_flatten, ← List.map_flatten, zipWith_maps]

/-- **Exactness** (ℝ): on `h × w` patterns (and an `h × w` mask) every entry returned by the
three paths is the intensity-weighted mean detector coordinate — row first, then column — of the
(masked) pattern. -/
theorem com_is_weighted_mean (mask : Option (Pattern ℝ)) (b : Nat) (hb : 0 < b) (h w : Nat)
    (I4 : List (List (Pattern ℝ)))
    (hrect : ∀ row ∈ I4, ∀ I ∈ row, Rect h w I ∧ Rect h w (maskWith mask I)) :
    comNumpyLooped mask h w I4 =
        (I4.map (fun row => row.map (fun I => (comSpec (maskWith mask I)).1)),
         I4.map (fun row => row.map (fun I => (comSpec (maskWith mask I)).2))) ∧
      comNumpyVectorised mask h w I4 = comNumpyLooped mask h w I4 ∧
      comTorchBatched b h w I4.flatten = I4.flatten.map (fun I => some (comSpec I)) := by
  refine ⟨?_, by rw [comNumpyVectorised_eq, comNumpyLooped_eq], ?_⟩
  · rw [comNumpyLooped_eq]
    congr 1 <;>
    · apply List.map_congr_left
      intro row hrow
      apply List.map_congr_left
      intro I hI
      rw [comOne_eq_spec h w _ (hrect row hrow I hI).2]
  · rw [comTorchBatched_eq b hb]
    apply List.map_congr_left
    intro I hI
    obtain ⟨row, hrow, hIr⟩ := List.mem_flatten.mp hI
    rw [comOne_eq_spec h w _ (hrect row hrow I hIr).1]

/-- **Scale invariance** (ℝ): the centre of mass does not depend on the unit of the intensities.
Multiplying every pattern `I_i` by its own factor `c_i ≠ 0` (a whole dataset in tiny units, or a
few much weaker patterns inside a normal dataset) changes nothing in what the three paths
return — for every mask, every batch size, no rectangularity assumption. -/
theorem com_scale_invariant (mask : Option (Pattern ℝ)) (b : Nat) (hb : 0 < b) (h w : Nat)
    (I4 : List (List (Pattern ℝ × ℝ))) (hc : ∀ row ∈ I4, ∀ p ∈ row, p.2 ≠ 0) :
    let plain := I4.map (fun row => row.map (fun p => p.1))
    let scaled := I4.map (fun row => row.map (fun p => scale2 p.2 p.1))
    comNumpyLooped mask h w scaled = comNumpyLooped mask h w plain ∧
    comNumpyVectorised mask h w scaled = comNumpyVectorised mask h w plain ∧
    comTorchBatched b h w scaled.flatten = comTorchBatched b h w plain.flatten := by
  intro plain scaled
  have hloop : comNumpyLooped mask h w scaled = comNumpyLooped mask h w plain := by
    rw [comNumpyLooped_eq, comNumpyLooped_eq]
    simp only [plain, scaled, List.map_map]
    congr 1 <;>
    · apply List.map_congr_left
      intro row hrow
      simp only [Function.comp_def, List.map_map]
      apply List.map_congr_left
      intro p hp
      rw [maskWith_scale, comOne_scale _ (hc row hrow p hp)]
  refine ⟨hloop, ?_, ?_⟩
  · rw [comNumpyVectorised_eq, comNumpyVectorised_eq, ← comNumpyLooped_eq, ← comNumpyLooped_eq]
    exact hloop
  · rw [comTorchBatched_eq b hb, comTorchBatched_eq b hb]
    simp only [plain, scaled, ← List.map_flatten, List.map_map]
    apply List.map_congr_left
    intro p hp
    obtain ⟨row, hrow, hpr⟩ := List.mem_flatten.mp hp
    simp only [Function.comp_def]
    rw [comOne_scale _ (hc row hrow p hpr)]

/-- what `comSpec` means on a 2 × 2 pattern: rows weighted 0, 1; columns weighted 0, 1 -/
example (a b c d : ℝ) : comSpec [[a, b], [c, d]] =
    ((0 * (a + (b + 0)) + (1 * (c + (d + 0)) + 0)) / (a + (b + 0) + (c + (d + 0) + 0)),
     ((0 * a + (1 * b + 0)) + ((0 * c + (1 * d + 0)) + 0)) / (a + (b + 0) + (c + (d + 0) + 0))) := by
  simp [comSpec, rowMoment, colMoment, total, List.zipIdx]

example : Rect 2 3 [[(1 : ℝ), 2, 3], [4, 5, 6]] := by
  refine ⟨rfl, ?_⟩
  intro row hrow
  simp at hrow
  rcases hrow with rfl | rfl <;> rfl

/-! ### 2. fits -/

/-- **Constant fit**: origins that are all equal to `c` are fitted by `c` at every pattern
(torch `fit_origin_background("constant")` and numpy `fit_origin(…, "constant")`). -/
theorem constant_exact (o : List (ℝ × ℝ)) (c : ℝ × ℝ) (hne : o ≠ []) (hall : ∀ p ∈ o, p = c)
    (q : List (List ℝ)) (cq : ℝ) (hq : q.flatten ≠ []) (hqall : ∀ row ∈ q, ∀ v ∈ row, v = cq) :
    fitConstantTorch o = List.replicate o.length c ∧ fitConstantNumpy q = q :=
  ⟨fitConstantTorch_exact o c hne hall, fitConstantNumpy_exact q cq hq hqall⟩

/-- **Plane fit (PCA)**: let the measured origin component be `z_i = α x_i + β y_i + γ` at
positions `(x_i, y_i)` that are not all on one line.  Then
(1) `(α, β, −1)` is orthogonal to every centred point, i.e. the scatter form has the eigenvalue 0;
(2) every non-zero vector `(a, b, c)` on which the scatter form vanishes (every eigenvector of
    that smallest eigenvalue) has `c ≠ 0`, and
(3) the surface `fit_linear_plane` builds from it reproduces `z` at every position. -/
theorem plane_exact (pos : List (ℝ × ℝ)) (α β γ : ℝ) (hne : pos ≠ [])
    (hspan : ∃ p ∈ pos, ∃ q ∈ pos,
      (p.1 - meanX pos) * (q.2 - meanY pos) - (q.1 - meanX pos) * (p.2 - meanY pos) ≠ 0) :
    let z := pos.map (fun p => α * p.1 + β * p.2 + γ)
    (∀ pz ∈ pos.zip z, offPlane pos z α β (-1) pz = 0) ∧
    ∀ a b c : ℝ, (a, b, c) ≠ (0, 0, 0) →
      ((pos.zip z).map (fun pz => offPlane pos z a b c pz ^ 2)).sum = 0 →
      c ≠ 0 ∧ fitPlanePCA pos z (a, b, c) = z := by
  intro z
  have hn : (pos.length : ℝ) ≠ 0 := by
    have : 0 < pos.length := List.length_pos_iff.mpr hne
    exact_mod_cast this.ne'
  have hzlen : pos.length = z.length := by simp [z]
  have hmem : ∀ pz ∈ pos.zip z, pz.2 = α * pz.1.1 + β * pz.1.2 + γ := by
    intro pz hpz
    have : pos.zip z = pos.map (fun p => (p, α * p.1 + β * p.2 + γ)) := zip_map_self pos _
    rw [this] at hpz
    obtain ⟨p, _, rfl⟩ := List.mem_map.mp hpz
    rfl
  have hmz : meanZ pos z = α * meanX pos + β * meanY pos + γ := by
    unfold meanZ meanX meanY
    simp only [z]
    rw [sum_plane]
    field_simp
  constructor
  · intro pz hpz
    unfold offPlane
    rw [hmz, hmem pz hpz]; ring
  · intro a b c hne0 hq
    have hnull := sum_sq_eq_zero (pos.zip z) (offPlane pos z a b c) hq
    have hc : c ≠ 0 := by
      intro hc0
      obtain ⟨p, hp, q, hq', hdet⟩ := hspan
      have hpz : (p, α * p.1 + β * p.2 + γ) ∈ pos.zip z := by
        have : pos.zip z = pos.map (fun p => (p, α * p.1 + β * p.2 + γ)) := zip_map_self pos _
        rw [this]; exact List.mem_map.mpr ⟨p, hp, rfl⟩
      have hqz : (q, α * q.1 + β * q.2 + γ) ∈ pos.zip z := by
        have : pos.zip z = pos.map (fun p => (p, α * p.1 + β * p.2 + γ)) := zip_map_self pos _
        rw [this]; exact List.mem_map.mpr ⟨q, hq', rfl⟩
      have e1 := hnull _ hpz
      have e2 := hnull _ hqz
      unfold offPlane at e1 e2
      simp only [hc0, zero_mul, add_zero] at e1 e2
      have ha : a * ((p.1 - meanX pos) * (q.2 - meanY pos) - (q.1 - meanX pos) * (p.2 - meanY pos)) = 0 := by
        linear_combination (q.2 - meanY pos) * e1 - (p.2 - meanY pos) * e2
      have hb : b * ((p.1 - meanX pos) * (q.2 - meanY pos) - (q.1 - meanX pos) * (p.2 - meanY pos)) = 0 := by
        linear_combination (p.1 - meanX pos) * e2 - (q.1 - meanX pos) * e1
      have ha0 : a = 0 := (mul_eq_zero.mp ha).resolve_right hdet
      have hb0 : b = 0 := (mul_eq_zero.mp hb).resolve_right hdet
      exact hne0 (by rw [ha0, hb0, hc0])
    exact ⟨hc, fitPlanePCA_exact pos z a b c hzlen hc hnull⟩

/-- on the raster `meshgrid(arange(nx), arange(ny))` that `fit_origin_background` uses when no
probe positions are given, the span hypothesis holds as soon as `nx, ny ≥ 2` -/
theorem raster_spans (nx ny : Nat) (hx : 2 ≤ nx) (hy : 2 ≤ ny) :
    ∃ p ∈ (rasterPositions nx ny : List (ℝ × ℝ)), ∃ q ∈ (rasterPositions nx ny : List (ℝ × ℝ)),
      (p.1 - meanX (rasterPositions nx ny)) * (q.2 - meanY (rasterPositions nx ny))
        - (q.1 - meanX (rasterPositions nx ny)) * (p.2 - meanY (rasterPositions nx ny)) ≠ 0 := by
  have hmem : ∀ a b : Nat, a < nx → b < ny → (((a : ℝ), (b : ℝ)) : ℝ × ℝ) ∈ (rasterPositions nx ny : List (ℝ × ℝ)) := by
    intro a b ha hb
    unfold rasterPositions
    rw [List.mem_flatMap]
    refine ⟨a, List.mem_range.mpr ha, ?_⟩
    rw [List.mem_map]
    exact ⟨b, List.mem_range.mpr hb, by simp [NumReal.ofNat_eq]⟩
  have hnonneg : ∀ v ∈ (rasterPositions nx ny : List (ℝ × ℝ)).map (·.1), (0 : ℝ) ≤ v := by
    intro v hv
    obtain ⟨p, hp, rfl⟩ := List.mem_map.mp hv
    unfold rasterPositions at hp
    obtain ⟨a, _, hp⟩ := List.mem_flatMap.mp hp
    obtain ⟨b, _, rfl⟩ := List.mem_map.mp hp
    simp [NumReal.ofNat_eq]
  have h1 : (1 : ℝ) ≤ ((rasterPositions nx ny : List (ℝ × ℝ)).map (·.1)).sum := by
    apply List.single_le_sum hnonneg
    exact List.mem_map.mpr ⟨((1 : ℕ), (0 : ℕ)), by simpa using hmem 1 0 (by omega) (by omega), by simp⟩
  have hlen : (0 : ℝ) < ((rasterPositions nx ny : List (ℝ × ℝ)).length : ℝ) := by
    have : (rasterPositions nx ny : List (ℝ × ℝ)) ≠ [] := List.ne_nil_of_mem (hmem 0 0 (by omega) (by omega))
    exact_mod_cast List.length_pos_iff.mpr this
  have hmx : 0 < meanX (rasterPositions nx ny) := by
    unfold meanX
    exact div_pos (by linarith) hlen
  refine ⟨((0 : ℕ), (0 : ℕ)), by simpa using hmem 0 0 (by omega) (by omega),
    ((0 : ℕ), (1 : ℕ)), by simpa using hmem 0 1 (by omega) (by omega), ?_⟩
  have : ((((0 : ℕ) : ℝ)) - meanX (rasterPositions nx ny)) * ((((1 : ℕ) : ℝ)) - meanY (rasterPositions nx ny))
      - ((((0 : ℕ) : ℝ)) - meanX (rasterPositions nx ny)) * ((((0 : ℕ) : ℝ)) - meanY (rasterPositions nx ny))
      = - meanX (rasterPositions nx ny) := by push_cast; ring
  simp only at this ⊢
  rw [this]
  exact (neg_neg_iff_pos.mpr hmx).ne

/-- **Plane fit on the scan raster, unconditionally**: for every scan of at least 2 × 2 positions
and every plane `α x + β y + γ`, every eigenvector of the zero eigenvalue of the scatter form has a
non-zero third component and `fit_origin_background(fit_method="plane")` built from it returns
the plane at every scan position. -/
theorem plane_exact_raster (nx ny : Nat) (hx : 2 ≤ nx) (hy : 2 ≤ ny) (α β γ a b c : ℝ)
    (hne0 : (a, b, c) ≠ (0, 0, 0)) :
    let pos : List (ℝ × ℝ) := rasterPositions nx ny
    let z := pos.map (fun p => α * p.1 + β * p.2 + γ)
    ((pos.zip z).map (fun pz => offPlane pos z a b c pz ^ 2)).sum = 0 →
      c ≠ 0 ∧ fitPlanePCA pos z (a, b, c) = z := by
  intro pos z hq
  have hspan := raster_spans nx ny hx hy
  have hne : pos ≠ [] := by
    obtain ⟨p, hp, _⟩ := hspan
    exact List.ne_nil_of_mem hp
  exact (plane_exact pos α β γ hne hspan).2 a b c hne0 hq

/-- the hypotheses of `plane_exact` are satisfiable: a 2 × 2 raster is not collinear -/
example : ∃ p ∈ [((0 : ℝ), (0 : ℝ)), (0, 1), (1, 0), (1, 1)], ∃ q ∈ [((0 : ℝ), (0 : ℝ)), (0, 1), (1, 0), (1, 1)],
    (p.1 - meanX [((0 : ℝ), (0 : ℝ)), (0, 1), (1, 0), (1, 1)]) * (q.2 - meanY [((0 : ℝ), (0 : ℝ)), (0, 1), (1, 0), (1, 1)])
      - (q.1 - meanX [((0 : ℝ), (0 : ℝ)), (0, 1), (1, 0), (1, 1)]) * (p.2 - meanY [((0 : ℝ), (0 : ℝ)), (0, 1), (1, 0), (1, 1)]) ≠ 0 := by
  refine ⟨(0, 0), by simp, (0, 1), by simp, ?_⟩
  simp only [meanX, meanY]
  norm_num

/-- **Least-squares fits** (`fit_origin` with `curve_fit`: plane, parabola, bezier_two, …): if
the data lie exactly on a member `F θ₀` of the fitted family, every parameter vector that
minimises the sum of squared residuals reproduces the data at every position — whether or not
the minimiser is unique. -/
theorem lsq_minimiser_exact {Θ X : Type} (F : Θ → X → ℝ) (pts : List (X × ℝ)) (θ θ₀ : Θ)
    (hon : ∀ p ∈ pts, F θ₀ p.1 = p.2) (hmin : ∀ θ', ssr F θ pts ≤ ssr F θ' pts) :
    ∀ p ∈ pts, F θ p.1 = p.2 := by
  have h0 : ssr F θ₀ pts = 0 := by
    unfold ssr
    apply List.sum_eq_zero
    intro y hy
    obtain ⟨p, hp, rfl⟩ := List.mem_map.mp hy
    rw [hon p hp]; ring
  have hz : ssr F θ pts = 0 := le_antisymm (h0 ▸ hmin θ₀) (ssr_nonneg F θ pts)
  intro p hp
  have := sum_sq_eq_zero pts (fun p => F θ p.1 - p.2) hz p hp
  linarith

/-- the same for the three families `fit_origin` actually fits (`_plane`, `_parabola`,
`_bezier_two` as modelled by `surfaceF`): origins lying exactly on a plane / parabola / degree-2
Bézier surface are reproduced by every least-squares minimiser of that family. -/
theorem lsq_variants_exact (kind : FitKind) (pts : List ((ℝ × ℝ) × ℝ)) (θ θ₀ : List ℝ)
    (hon : ∀ p ∈ pts, surfaceF kind θ₀ p.1 = p.2)
    (hmin : ∀ θ', ssr (surfaceF kind) θ pts ≤ ssr (surfaceF kind) θ' pts) :
    ∀ p ∈ pts, surfaceF kind θ p.1 = p.2 :=
  lsq_minimiser_exact (surfaceF kind) pts θ θ₀ hon hmin

/-- `surfaceF .plane [mx, my, b]` is the plane `mx·x + my·y + b` -/
example (mx my b x y : ℝ) : surfaceF .plane [mx, my, b] (x, y) = mx * x + my * y + b := by
  simp [surfaceF]

/-- the rank condition on the 3 × 3 corner block: a quadratic that vanishes at the nine points
`{0,1,2}²` is the zero quadratic -/
theorem quad_unique (a0 a1 a2 a3 a4 a5 : ℝ)
    (h : ∀ i j : ℕ, i < 3 → j < 3 →
      a0 + a1 * (i : ℝ) + a3 * (j : ℝ) + a2 * ((i : ℝ) * (i : ℝ)) + a4 * ((j : ℝ) * (j : ℝ)) + a5 * (i : ℝ) * (j : ℝ) = 0) :
    a0 = 0 ∧ a1 = 0 ∧ a2 = 0 ∧ a3 = 0 ∧ a4 = 0 ∧ a5 = 0 := by
  have e00 := h 0 0 (by norm_num) (by norm_num)
  have e10 := h 1 0 (by norm_num) (by norm_num)
  have e20 := h 2 0 (by norm_num) (by norm_num)
  have e01 := h 0 1 (by norm_num) (by norm_num)
  have e02 := h 0 2 (by norm_num) (by norm_num)
  have e11 := h 1 1 (by norm_num) (by norm_num)
  norm_num at e00 e10 e20 e01 e02 e11
  refine ⟨by linarith, by linarith, by linarith, by linarith, by linarith, by linarith⟩

/-- **Parabola (quadratic surface) fit on a scan raster**: the rank condition for the six
monomials `1, x, y, x², y², xy` is that no non-zero quadratic vanishes on the positions; it holds
on every raster with at least 3 rows and 3 columns (already the 3 × 3 corner block determines the
six coefficients).  Hence, for origins lying exactly on a quadratic surface `θ₀`, every
least-squares minimiser `θ` of `fit_origin(..., "parabola")` has the coefficients of `θ₀` and
returns that surface — at the scan positions and everywhere else. -/
theorem parabola_exact_on_raster (nx ny : Nat) (hx : 3 ≤ nx) (hy : 3 ≤ ny) (θ θ₀ : List ℝ)
    (hmin : ∀ θ', ssr (surfaceF .parabola) θ
        ((rasterPositions nx ny : List (ℝ × ℝ)).map (fun p => (p, surfaceF .parabola θ₀ p)))
      ≤ ssr (surfaceF .parabola) θ'
        ((rasterPositions nx ny : List (ℝ × ℝ)).map (fun p => (p, surfaceF .parabola θ₀ p)))) :
    (∀ k, k < 6 → θ.getD k 0 = θ₀.getD k 0) ∧
      ∀ x y : ℝ, surfaceF .parabola θ (x, y) = surfaceF .parabola θ₀ (x, y) := by
  have hfit := lsq_variants_exact .parabola _ θ θ₀
    (by intro p hp; obtain ⟨q, _, rfl⟩ := List.mem_map.mp hp; rfl) hmin
  have hat : ∀ a b : Nat, a < 3 → b < 3 →
      surfaceF .parabola θ ((a : ℝ), (b : ℝ)) = surfaceF .parabola θ₀ ((a : ℝ), (b : ℝ)) := by
    intro a b ha hb
    exact hfit _ (List.mem_map.mpr ⟨_, mem_raster nx ny a b (by omega) (by omega), rfl⟩)
  have hq : ∀ i j : ℕ, i < 3 → j < 3 →
      (θ.getD 0 0 - θ₀.getD 0 0) + (θ.getD 1 0 - θ₀.getD 1 0) * (i : ℝ) + (θ.getD 3 0 - θ₀.getD 3 0) * (j : ℝ)
        + (θ.getD 2 0 - θ₀.getD 2 0) * ((i : ℝ) * (i : ℝ)) + (θ.getD 4 0 - θ₀.getD 4 0) * ((j : ℝ) * (j : ℝ))
        + (θ.getD 5 0 - θ₀.getD 5 0) * (i : ℝ) * (j : ℝ) = 0 := by
    intro i j hi hj
    have h := hat i j hi hj
    rw [parabola_eval, parabola_eval] at h
    linear_combination h
  obtain ⟨h0, h1, h2, h3, h4, h5⟩ := quad_unique _ _ _ _ _ _ hq
  have g0 : θ.getD 0 0 = θ₀.getD 0 0 := by linarith
  have g1 : θ.getD 1 0 = θ₀.getD 1 0 := by linarith
  have g2 : θ.getD 2 0 = θ₀.getD 2 0 := by linarith
  have g3 : θ.getD 3 0 = θ₀.getD 3 0 := by linarith
  have g4 : θ.getD 4 0 = θ₀.getD 4 0 := by linarith
  have g5 : θ.getD 5 0 = θ₀.getD 5 0 := by linarith
  constructor
  · intro k hk
    have : k = 0 ∨ k = 1 ∨ k = 2 ∨ k = 3 ∨ k = 4 ∨ k = 5 := by omega
    rcases this with rfl | rfl | rfl | rfl | rfl | rfl <;> assumption
  · intro x y
    rw [parabola_eval, parabola_eval, g0, g1, g2, g3, g4, g5]

/-- **… and on a degenerate raster the fit is not determined**: on a 2 × 2 scan `x` and `x²`
coincide at every position (both are least-squares minimisers for data `z = x`) but differ away
from the scan — what `curve_fit` returns there depends on its starting point, only the values at
the scan positions are fixed (`lsq_variants_exact`). -/
theorem parabola_degenerate_raster_counterexample :
    (∀ p ∈ (rasterPositions 2 2 : List (ℝ × ℝ)),
      surfaceF .parabola [0, 1, 0, 0, 0, 0] p = surfaceF .parabola [0, 0, 1, 0, 0, 0] p) ∧
    surfaceF .parabola [0, 1, 0, 0, 0, 0] ((2 : ℝ), (0 : ℝ)) ≠ surfaceF .parabola [0, 0, 1, 0, 0, 0] ((2 : ℝ), (0 : ℝ)) := by
  constructor
  · intro p hp
    simp only [rasterPositions, List.range, List.range.loop, List.flatMap_cons, List.flatMap_nil, List.map_cons,
      List.map_nil, List.append_nil, List.cons_append, List.nil_append, List.mem_cons, List.not_mem_nil, or_false,
      NumReal.ofNat_eq] at hp
    rcases hp with rfl | rfl | rfl | rfl <;> (rw [parabola_eval, parabola_eval]; norm_num)
  · rw [parabola_eval, parabola_eval]; norm_num

/-! ### 3. integer shift = circular roll -/

/-- **Integer shift**: for EVERY detector shape (an axis of length 1 included: line detectors), an
integer fitted origin `(oy, ox)` and an integer target coordinate `(cy, cx)`, `shift_origin_to`
returns exactly `roll(I, −(origin − coordinate))`: entry `[i][j]` is
`I[(i + oy − cy) mod h][(j + ox − cx) mod w]` (the periodic index lands on a pixel, the bilinear
weights are (1,0,0,0)).  Before the repair of the grid normalisation (`/ (size - 1)`) this needed
`2 ≤ h, w`: an axis of length 1 gave 0/0. -/
theorem shift_int_roll (h w : Nat) (hh : 1 ≤ h) (hw : 1 ≤ w) (oy ox cy cx : ℤ) (I : Pattern ℝ) :
    shiftOriginTo ((cy : ℝ), (cx : ℝ)) h w ((oy : ℝ), (ox : ℝ)) I = rollNeg h w (oy - cy) (ox - cx) I := by
  unfold shiftOriginTo rollNeg
  apply List.map_congr_left
  intro i _
  apply List.map_congr_left
  intro j _
  simp only
  have e1 : (Num.ofNat i + ((oy : ℝ) - (cy : ℝ)) : ℝ) = (((i : ℤ) + (oy - cy) : ℤ) : ℝ) := by
    simp only [NumReal.ofNat_eq]; push_cast; ring
  have e2 : (Num.ofNat j + ((ox : ℝ) - (cx : ℝ)) : ℝ) = (((j : ℤ) + (ox - cx) : ℤ) : ℝ) := by
    simp only [NumReal.ofNat_eq]; push_cast; ring
  simp only [NumReal.add_eq, NumReal.sub_eq] at e1 e2 ⊢
  rw [e1, e2, fmod_int, fmod_int]
  have g1 : h = 1 → ((((i : ℤ) + (oy - cy)) % (h : ℤ) : ℤ) : ℝ) = 0 := by
    intro h1; subst h1; simp
  have g2 : w = 1 → ((((j : ℤ) + (ox - cx)) % (w : ℤ) : ℤ) : ℝ) = 0 := by
    intro h1; subst h1; simp
  have u1 := unnormalise _ h hh g1
  have u2 := unnormalise _ w hw g2
  rw [u1, u2, sampleBilinear_int]
  have hhpos : (0 : ℤ) < (h : ℤ) := by omega
  have hwpos : (0 : ℤ) < (w : ℤ) := by omega
  rw [pix_inbounds I h w _ _ (Int.emod_nonneg _ hhpos.ne') (Int.emod_lt_of_pos _ hhpos)
    (Int.emod_nonneg _ hwpos.ne') (Int.emod_lt_of_pos _ hwpos)]
  rfl

/-- non-vacuity on a line detector: a 1 × 3 pattern whose origin (5, 1) is moved to the corner -/
example : shiftOriginTo ((0 : Rat), (0 : Rat)) 1 3 ((5 : Rat), (1 : Rat)) [[7, 8, 9]] = [[8, 9, 7]] := by decide +kernel

/-- the batched loop of `shift_origin_to` shifts every pattern by its own origin whatever the
batch size (any carrier) -/
theorem shift_batch_invariant {R : Type} [Num R] [HasFloor R] (b : Nat) (hb : 0 < b) (coord : R × R)
    (h w : Nat) (origins : List (R × R)) (t3 : List (Pattern R)) :
    shiftAllBatched b coord h w origins t3 =
      (List.range t3.length).map (fun i =>
        some (shiftOriginTo coord h w (origins.getD i (Num.zero, Num.zero)) (t3.getD i []))) := by
  unfold shiftAllBatched
  exact scatter_loop b hb t3.length _

example : rollNeg 2 3 1 2 [[(1 : Rat), 2, 3], [4, 5, 6]] = [[6, 4, 5], [3, 1, 2]] := by rfl

/-- the statement covers every integer origin — negative ones and ones beyond the far edge wrap
around with the floored modulus (not the sign-keeping `fmod`) — and every integer target: an
origin `(-1, -4)` moved to the corner of a 3 × 5 detector reads entry `[i][j]` from
`I[(i - 1) mod 3][(j - 4) mod 5]`, e.g. `[0][0]` from `I[2][1]`; an origin `(7, 9)` moved to the
centre `(1, 2)` reads `[0][0]` from `I[0][2]`. -/
theorem shift_negative_and_far_origins (I : Pattern ℝ) :
    shiftOriginTo (((0 : ℤ) : ℝ), ((0 : ℤ) : ℝ)) 3 5 (((-1 : ℤ) : ℝ), ((-4 : ℤ) : ℝ)) I = rollNeg 3 5 (-1) (-4) I ∧
    shiftOriginTo (((1 : ℤ) : ℝ), ((2 : ℤ) : ℝ)) 3 5 (((7 : ℤ) : ℝ), ((9 : ℤ) : ℝ)) I = rollNeg 3 5 6 7 I ∧
    (((Int.ofNat 0 + (-1 : ℤ)) % Int.ofNat 3).toNat = 2 ∧ ((Int.ofNat 0 + (-4 : ℤ)) % Int.ofNat 5).toNat = 1) ∧
    (((Int.ofNat 0 + (6 : ℤ)) % Int.ofNat 3).toNat = 0 ∧ ((Int.ofNat 0 + (7 : ℤ)) % Int.ofNat 5).toNat = 2) := by
  refine ⟨?_, ?_, by decide, by decide⟩
  · have := shift_int_roll 3 5 (by norm_num) (by norm_num) (-1) (-4) 0 0 I
    simpa using this
  · have := shift_int_roll 3 5 (by norm_num) (by norm_num) 7 9 1 2 I
    simpa using this

/-- **Sub-pixel shifts are NOT intensity conserving** (counterexample kept visible): the code
wraps the sampling coordinate but samples with `padding_mode="zeros"`, so the bilinear partner of
the last row / column is read as 0 instead of the first one.  Exact-carrier run of the model: the
2 × 3 pattern `[[1,2,3],[4,5,6]]` (sum 21) shifted by half a pixel has sum 18.  A periodic
bilinear shift (convex combination of the four neighbouring rolls) would conserve the sum; the
property only claims integer shifts, where `shift_int_roll` applies. -/
theorem subpixel_shift_not_conservative_counterexample :
    sum2 (shiftOriginTo ((0 : Rat), (0 : Rat)) 2 3 ((1 / 2 : Rat), (0 : Rat)) [[1, 2, 3], [4, 5, 6]]) = 18 ∧
      sum2 ([[1, 2, 3], [4, 5, 6]] : Pattern Rat) = 21 := by
  decide +kernel

/-! ### 3b. translation covariance: the link between estimating and shifting -/

/-- **Translation covariance** (ℝ): moving a (masked) pattern down by `a` rows and right by `b`
columns without wrap-around moves its centre of mass by exactly `(a, b)` — what makes "estimate
the origin, then shift it to the corner" consistent: the centre of mass of the shifted pattern is
the old one minus the shift. -/
theorem com_translation_covariant (a b : ℕ) (I : Pattern ℝ) (hT : total I ≠ 0) :
    comSpec (padShift a b I) = ((comSpec I).1 + (a : ℝ), (comSpec I).2 + (b : ℝ)) := by
  have hpad : padShift a b I = List.replicate a [] ++ I.map (fun row => List.replicate b (0 : ℝ) ++ row) := by
    unfold padShift; simp [NumReal.zero_eq]
  have htot : total (padShift a b I) = total I := by
    rw [hpad]; unfold total
    rw [List.map_append, List.sum_append, List.map_map]
    have h1 : ((List.replicate a ([] : List ℝ)).map List.sum).sum = 0 := by
      induction a with
      | zero => simp
      | succ a ih => simpa [List.replicate_succ] using ih
    rw [h1, zero_add]
    congr 1
    apply List.map_congr_left
    intro row _
    simp only [Function.comp_def]
    exact sum_replicate_zero_append b row
  have hrow : rowMoment (padShift a b I) = rowMoment I + (a : ℝ) * total I := by
    rw [hpad]; unfold rowMoment total
    rw [List.zipIdx_append, List.map_append, List.sum_append]
    have h1 : (((List.replicate a ([] : List ℝ)).zipIdx).map (fun p => (p.2 : ℝ) * p.1.sum)).sum = 0 := by
      apply List.sum_eq_zero
      intro v hv
      obtain ⟨p, hp, rfl⟩ := List.mem_map.mp hv
      have hm := List.mem_zipIdx hp
      have : p.1 = [] := List.eq_of_mem_replicate (hm.2.2 ▸ List.getElem_mem _)
      simp [this]
    rw [h1, zero_add, List.length_replicate, Nat.zero_add]
    have h2 := zipIdx_moment (fun r : List ℝ => r.sum) (I.map (fun row => List.replicate b (0 : ℝ) ++ row)) a
    rw [h2, List.map_map]
    have e1 : ((I.map (fun row => List.replicate b (0 : ℝ) ++ row)).zipIdx.map (fun p => (p.2 : ℝ) * p.1.sum)).sum
        = (I.zipIdx.map (fun p => (p.2 : ℝ) * p.1.sum)).sum := by
      rw [List.zipIdx_map, List.map_map]
      congr 1
      apply List.map_congr_left
      intro p _
      simp only [Function.comp_def, Prod.map, id]
      rw [sum_replicate_zero_append]
    have e2 : (I.map ((fun r : List ℝ => r.sum) ∘ fun row => List.replicate b (0 : ℝ) ++ row)).sum = (I.map List.sum).sum := by
      congr 1
      apply List.map_congr_left
      intro row _
      simp only [Function.comp_def]
      exact sum_replicate_zero_append b row
    rw [e1, e2]
  have hcol : colMoment (padShift a b I) = colMoment I + (b : ℝ) * total I := by
    rw [hpad]; unfold colMoment total
    rw [List.map_append, List.sum_append, List.map_map]
    have h1 : ((List.replicate a ([] : List ℝ)).map (fun row => (row.zipIdx.map (fun p => (p.2 : ℝ) * p.1)).sum)).sum = 0 := by
      apply List.sum_eq_zero
      intro v hv
      obtain ⟨r, hr, rfl⟩ := List.mem_map.mp hv
      rw [List.eq_of_mem_replicate hr]; simp
    rw [h1, zero_add]
    have hper : ∀ row : List ℝ, ((List.replicate b (0 : ℝ) ++ row).zipIdx.map (fun p => (p.2 : ℝ) * p.1)).sum
        = (row.zipIdx.map (fun p => (p.2 : ℝ) * p.1)).sum + (b : ℝ) * row.sum := by
      intro row
      rw [List.zipIdx_append, List.map_append, List.sum_append]
      have hz : (((List.replicate b (0 : ℝ)).zipIdx).map (fun p => (p.2 : ℝ) * p.1)).sum = 0 := by
        apply List.sum_eq_zero
        intro v hv
        obtain ⟨p, hp, rfl⟩ := List.mem_map.mp hv
        have hm := List.mem_zipIdx hp
        have : p.1 = 0 := List.eq_of_mem_replicate (hm.2.2 ▸ List.getElem_mem _)
        simp [this]
      rw [hz, zero_add, List.length_replicate, Nat.zero_add]
      have := zipIdx_moment (fun v : ℝ => v) row b
      simpa using this
    rw [sum_map_add_mul (b : ℝ) _ _ I (fun row => by simp only [Function.comp_def]; exact hper row)]
  unfold comSpec
  rw [htot, hrow, hcol]
  refine Prod.ext ?_ ?_
  · simp only; field_simp
  · simp only; field_simp

/-- a concrete instance: `[[1, 3]]` has its centre of mass at column 3/4; moved down 2 rows and
right 1 column it is at row 2, column 7/4 -/
example : comSpec (padShift 2 1 [[(1 : ℝ), 3]]) = (0 + 2, 3 / 4 + 1) := by
  rw [com_translation_covariant 2 1 _ (by norm_num [total])]
  simp [comSpec, rowMoment, colMoment, total, List.zipIdx]
  norm_num

/-! ### 4. input forms of the origin setters -/

/-- **The flat `(N, 2)` form and the `(Rx, Ry, 2)` scan-grid form denote the same origins**, for
every scan shape — including the degenerate `1 × n`, `n × 1`, `2 × n`, `n × 2`, `2 × 2` — : both
are stored as the row-major list of the grid, and pattern `(i, j)` of the grid is entry
`i * Ry + j` of the stored list; a single pair is broadcast to every pattern. -/
theorem origin_forms_agree {α : Type} (sr sc : Nat) (g : List (List (α × α))) (hr : g.length = sr)
    (hc : ∀ row ∈ g, row.length = sc) :
    storeOrigins (sr * sc) (.grid g) = some g.flatten ∧
    storeOrigins (sr * sc) (.flat g.flatten) = some g.flatten ∧
    (∀ i j, j < sc → g.flatten[i * sc + j]? = (g[i]?).bind (fun row => row[j]?)) ∧
    (∀ p : α × α, storeOrigins (sr * sc) (.pair p) = some (List.replicate (sr * sc) p)) := by
  have hlen : ∀ (g : List (List (α × α))), (∀ row ∈ g, row.length = sc) → g.flatten.length = g.length * sc := by
    intro g
    induction g with
    | nil => intro _; simp
    | cons r rs ih =>
      intro h
      rw [List.flatten_cons, List.length_append, ih (fun row hrow => h row (List.mem_cons_of_mem _ hrow)),
        h r List.mem_cons_self, List.length_cons]
      ring
  have hstore : expandPairs (sr * sc) g.flatten = some g.flatten := by
    have hl := hlen g hc
    rw [hr] at hl
    unfold expandPairs
    split
    · rename_i p heq
      rw [heq] at hl
      simp only [List.length_cons, List.length_nil] at hl
      rw [← hl]; simp [heq]
    · rw [if_pos hl]
  refine ⟨hstore, hstore, ?_, ?_⟩
  · clear hstore hr
    induction g with
    | nil => intro i j _; simp
    | cons r rs ih =>
      intro i j hj
      have hrl : r.length = sc := hc r List.mem_cons_self
      have ih' := ih (fun row hrow => hc row (List.mem_cons_of_mem _ hrow))
      cases i with
      | zero =>
        simp only [Nat.zero_mul, Nat.zero_add, List.flatten_cons, List.getElem?_cons_zero, Option.bind_some]
        rw [List.getElem?_append_left (by omega)]
      | succ i =>
        simp only [List.flatten_cons, List.getElem?_cons_succ]
        rw [List.getElem?_append_right (by rw [hrl, Nat.succ_mul]; omega)]
        have e : (i + 1) * sc + j - r.length = i * sc + j := by rw [hrl, Nat.succ_mul]; omega
        rw [e]
        exact ih' i j hj
  · intro p
    unfold storeOrigins viewPairs expandPairs
    by_cases h1 : sr * sc = 1
    · simp [h1]
    · simp [h1]

/-- **The layout test `ndim == 3 and shape[0] == 2` is too weak** (kept as a warning; the library
does not use it): a pattern-major grid of a scan with exactly two rows — here 2 × 2 and 2 × 3 —
would be taken for a component-first array and the stored origins scrambled. -/
theorem weak_layout_test_counterexample :
    storeOriginsWeakTest 4 (.grid [[((0 : Nat), 1), (2, 3)], [(4, 5), (6, 7)]])
        ≠ storeOrigins 4 (.grid [[((0 : Nat), 1), (2, 3)], [(4, 5), (6, 7)]]) ∧
    storeOriginsWeakTest 6 (.grid [[((0 : Nat), 1), (2, 3), (4, 5)], [(6, 7), (8, 9), (10, 11)]])
        = some [(0, 6), (1, 7), (2, 8), (3, 9), (4, 10), (5, 11)] ∧
    storeOrigins 6 (.grid [[((0 : Nat), 1), (2, 3), (4, 5)], [(6, 7), (8, 9), (10, 11)]])
        = some [(0, 1), (2, 3), (4, 5), (6, 7), (8, 9), (10, 11)] ∧
    storeOriginsWeakTest 6 (.grid [[((0 : Nat), 1), (2, 3)], [(4, 5), (6, 7)], [(8, 9), (10, 11)]])
        = storeOrigins 6 (.grid [[((0 : Nat), 1), (2, 3)], [(4, 5), (6, 7)], [(8, 9), (10, 11)]]) := by
  decide

example : storeOrigins 6 (.grid [[((0 : Nat), 1), (2, 3), (4, 5)], [(6, 7), (8, 9), (10, 11)]])
    = storeOrigins 6 (.flat [((0 : Nat), 1), (2, 3), (4, 5), (6, 7), (8, 9), (10, 11)]) := by decide
example : storeOrigins 3 (.flat [((0 : Nat), 1), (2, 3)]) = none := by decide

/-! ### 6. the two objects over whole histories — rejected calls, re-runs, in-place edits

`Model/OriginState.lean` models `CenterOfMassOriginModel` and the centre-of-mass state of
`PtychographyDatasetRaster` as state machines whose steps either return or raise. -/

/-- **Exception safety** (any carrier): a primitive call on the origin model that raises — a setter
given the wrong number of rows / an odd number of entries / complex data, an unknown fit method,
probe positions of the wrong length, fitting before measuring, shifting before fitting, batch
size 0 — leaves the object EXACTLY as it was. -/
theorem om_rejected_call_leaves_object_unchanged {R : Type} [Num R] [HasFloor R] (s : OmState R) (op : OmOp R)
    (hp : op.primitive) (e : Rejected) (h : (omStep s op).2 = some e) : (omStep s op).1 = s :=
  omStep_rejected s op hp e h

/-- **Histories** (any carrier): running any history of primitive calls gives the same object as
running only those of its calls that returned — what a refused call was given is never used by a
later call. -/
theorem om_history_ignores_rejected_calls {R : Type} [Num R] [HasFloor R] (s : OmState R) (ops : List (OmOp R))
    (hp : ∀ op ∈ ops, op.primitive) : omRun s ops = omRun s (omAccepted s ops) :=
  (omRun_accepted ops s hp).symm

/-- non-vacuity: of four calls (a 3-row assignment on 2 patterns, a valid one, a shift with batch size 0, a
valid shift) exactly the two valid ones are accepted, and the stored roll is that of the valid origins -/
example :
    let s0 : OmState Rat := OmState.init (some (1, 2)) 1 2 [[[1, 2]], [[3, 4]]]
    let ops : List (OmOp Rat) := [.setFitted ⟨true, [0, 0, 1, 1, 2, 2]⟩, .setFitted ⟨true, [0, 0, 0, 1]⟩, .shift (0, 0) 0, .shift (0, 0) 1]
    (omAccepted s0 ops).length = 2 ∧ (omRun s0 ops).fitted = some [(0, 0), (0, 1)] ∧
      (omRun s0 ops).shifted = some [[[1, 2]], [[4, 3]]] := by
  decide +kernel

/-- `forward()` is a sequence of three calls and is NOT atomic (kept visible): on a 3-D dataset it
measures, then the fit raises because no probe positions can be inferred — the measured origins
stay stored.  Replayed on the real code by the harness (`forward_partial_case`). -/
theorem forward_not_atomic_counterexample :
    let s0 : OmState Rat := OmState.init none 2 2 [[[1, 2], [3, 4]], [[4, 3], [2, 2]]]
    (omStep s0 (.forward 2 .constant ((0, 0, 1), (0, 0, 1)) (0, 0))).2 = some .valueError ∧
    (omStep s0 (.forward 2 .constant ((0, 0, 1), (0, 0, 1)) (0, 0))).1.measured = some [(7 / 10, 3 / 5), (4 / 11, 5 / 11)] ∧
    s0.measured = none := by
  decide +kernel

/-- a setter that stores the reshaped value FIRST and checks the row count afterwards breaks the
two theorems above (kept as a warning): the refused 3-row assignment stays in the object and the
next constant fit returns ITS mean `(0, 0)` instead of the mean `(2, 2)` of the measured origins. -/
theorem store_before_validate_counterexample :
    let s0 : OmState Rat := { OmState.init (some (1, 2)) 1 1 [[[1]], [[1]]] with measured := some [(1, 1), (3, 3)] }
    let bad : RawArray Rat := ⟨true, [0, 0, 0, 0, 0, 0]⟩
    (omSetMeasured s0 bad).2 = some .runtimeError ∧ (omSetMeasured s0 bad).1.measured = some [(1, 1), (3, 3)] ∧
    (omFit (omSetMeasured s0 bad).1 .inferred .constant ((0, 0, 1), (0, 0, 1))).1.fitted = some [(2, 2), (2, 2)] ∧
    (omSetMeasuredStoreFirst s0 bad).2 = some .runtimeError ∧
    (omSetMeasuredStoreFirst s0 bad).1.measured = some [(0, 0), (0, 0), (0, 0)] ∧
    (omFit (omSetMeasuredStoreFirst s0 bad).1 .inferred .constant ((0, 0, 1), (0, 0, 1))).1.fitted = some [(0, 0), (0, 0)] := by
  decide +kernel

/-- **`num_dps` follows the tensor** over EVERY history (tensor replacements, `forward`, rejected
calls included) — as repaired; before, a replaced tensor with another scan shape left `num_dps`
stale and `calculate_origin` skipped patterns or raised. -/
theorem om_num_dps_follows_tensor {R : Type} [Num R] [HasFloor R] (scan : Option (Nat × Nat)) (h w : Nat)
    (t3 : List (Pattern R)) (ops : List (OmOp R)) :
    (omRun (OmState.init scan h w t3) ops).numDps = (omRun (OmState.init scan h w t3) ops).tensor.length :=
  omRun_numDps ops _ rfl

/-- **Row invariant**: over every history that keeps the tensor, whatever is stored in
`origin_measured`, `origin_fitted`, `shifted_tensor` has exactly one row per pattern. -/
theorem om_rows_invariant {R : Type} [Num R] [HasFloor R] (scan : Option (Nat × Nat)) (h w : Nat)
    (t3 : List (Pattern R)) (ops : List (OmOp R)) (hk : ∀ op ∈ ops, op.keepsTensor) :
    OmRows (omRun (OmState.init scan h w t3) ops) :=
  omRun_rows ops _ hk ⟨rfl, fun _ h => by simp [OmState.init] at h, fun _ h => by simp [OmState.init] at h,
    fun _ h => by simp [OmState.init] at h⟩

/-- **`calculate_origin` after ANY history** (ℝ): whatever calls came before — accepted or rejected,
setters, fits, shifts, earlier measurements with other batch sizes — `calculate_origin` returns and
stores, for every batch size `b ≥ 1`, the intensity-weighted mean (row, column) of every pattern. -/
theorem om_measure_after_any_history (scan : Option (Nat × Nat)) (h w : Nat) (t3 : List (Pattern ℝ))
    (ops : List (OmOp ℝ)) (hk : ∀ op ∈ ops, op.keepsTensor) (hrect : ∀ I ∈ t3, Rect h w I) (b : Nat) (hb : 0 < b) :
    (omStep (omRun (OmState.init scan h w t3) ops) (.measure b)).2 = none ∧
    (omStep (omRun (OmState.init scan h w t3) ops) (.measure b)).1.measured = some (t3.map comSpec) := by
  have hf := omRun_frame ops (OmState.init scan h w t3) hk
  have hn := omRun_numDps ops (OmState.init scan h w t3) rfl
  simp only [omStep]
  rw [omCalc_eq _ hn b hb]
  refine ⟨rfl, ?_⟩
  simp only
  rw [hf.1, hf.2.1, hf.2.2.1]
  simp only [OmState.init]
  congr 1
  apply List.map_congr_left
  intro I hI
  exact comOne_eq_spec h w I (hrect I hI)

/-- **`shift_origin_to` after ANY history** (ℝ): if the last accepted write of `origin_fitted` stored
integer origins `os`, then — whatever calls (accepted or rejected) came before, for every batch
size, every integer target and EVERY detector shape — the call returns and stores the circular
roll of each pattern by its own origin. -/
theorem om_shift_after_any_history (scan : Option (Nat × Nat)) (h w : Nat) (hh : 1 ≤ h) (hw : 1 ≤ w)
    (t3 : List (Pattern ℝ)) (ops : List (OmOp ℝ)) (hk : ∀ op ∈ ops, op.keepsTensor) (os : List (ℤ × ℤ))
    (hfit : (omRun (OmState.init scan h w t3) ops).fitted = some (os.map (fun o => ((o.1 : ℝ), (o.2 : ℝ)))))
    (cy cx : ℤ) (b : Nat) (hb : 0 < b) :
    (omStep (omRun (OmState.init scan h w t3) ops) (.shift ((cy : ℝ), (cx : ℝ)) b)).2 = none ∧
    (omStep (omRun (OmState.init scan h w t3) ops) (.shift ((cy : ℝ), (cx : ℝ)) b)).1.shifted =
      some ((List.range t3.length).map (fun i =>
        rollNeg h w ((os.getD i (0, 0)).1 - cy) ((os.getD i (0, 0)).2 - cx) (t3.getD i []))) := by
  have hf := omRun_frame ops (OmState.init scan h w t3) hk
  have hE : shiftE (omRun (OmState.init scan h w t3) ops) ((cy : ℝ), (cx : ℝ)) b =
      .ok ((List.range t3.length).map (fun i =>
        rollNeg h w ((os.getD i (0, 0)).1 - cy) ((os.getD i (0, 0)).2 - cx) (t3.getD i []))) := by
    unfold shiftE
    rw [hfit]
    simp only
    rw [if_neg (Nat.pos_iff_ne_zero.mp hb), shift_batch_invariant b hb, hf.1, hf.2.1, hf.2.2.1]
    simp only [OmState.init]
    rw [allSome_map_some]
    simp only [Except.ok.injEq]
    apply List.map_congr_left
    intro i _
    have hz : ((Num.zero : ℝ), (Num.zero : ℝ)) = (fun o : ℤ × ℤ => ((o.1 : ℝ), (o.2 : ℝ))) (0, 0) := by simp
    rw [hz, List.getD_map]
    exact shift_int_roll h w hh hw _ _ cy cx _
  simp only [omStep, omShift]
  rw [commit_ok _ _ _ _ hE]
  exact ⟨rfl, rfl⟩

/-- **constant fit after ANY history** (ℝ): on any object whose stored measured origins (one per
pattern) all equal `c`, the constant fit returns and stores `c` for every pattern. -/
theorem om_constant_fit_in_any_state (s : OmState ℝ) (o : List (ℝ × ℝ)) (c : ℝ × ℝ) (hm : s.measured = some o)
    (hne : o ≠ []) (hall : ∀ p ∈ o, p = c) (nx ny : Nat) (hscan : s.scan = some (nx, ny))
    (nrm : (ℝ × ℝ × ℝ) × (ℝ × ℝ × ℝ)) :
    omStep s (.fit .inferred .constant nrm) = ({ s with fitted := some (List.replicate s.numDps c) }, none) := by
  have hmean : meanPair o = c := by
    have := fitConstantTorch_exact o c hne hall
    unfold fitConstantTorch at this
    have hpos : 0 < o.length := List.length_pos_iff.mpr hne
    have h0 := congrArg (fun l => l[0]?) this
    simp only [List.getElem?_replicate, hpos, if_true, Option.some.injEq] at h0
    exact h0
  have hE : fitE s .inferred .constant nrm = .ok (List.replicate s.numDps c) := by
    unfold fitE
    rw [hm]
    simp only [fitPositions, hscan]
    rw [hmean]
    exact storePairs_single _ _
  simp only [omStep, omFit]
  rw [commit_ok _ _ _ _ hE]

/-- **Exception safety, dataset model** (any carrier): a call that raises — a mask of the wrong
shape, an unknown fit function, a `com_measured` / `com_fit` of the wrong shape — leaves
`intensities_4d`, `com_measured`, `com_fit` exactly as they were. -/
theorem ds_rejected_call_leaves_object_unchanged {R : Type} [Num R] (s : DsState R) (op : DsOp R) (e : Rejected)
    (h : (dsStep s op).2 = some e) : (dsStep s op).1 = s := by
  cases op with
  | setCom src mask fit vec =>
    cases src with
    | held => exact commit_rejected _ _ _ e h
    | external hh ww I4 => exact commit_rejected _ _ _ e h
  | preprocess fit vec => exact commit_rejected _ _ _ e h
  | edit a b pat => simp [dsStep] at h
  | assign I4 => simp [dsStep] at h
  | setComMeasured v => exact commit_rejected _ _ _ e h
  | setComFit v => exact commit_rejected _ _ _ e h

/-- **No stale state** (any carrier): the centre-of-mass stage of `preprocess()` depends on the
patterns the object holds NOW (and its shapes) and on nothing else it stores: two objects with the
same patterns — one fresh, one after any history of measurements, hand-set `com_measured` /
`com_fit`, in-place edits — get the same outcome and, when the call returns, the same `com_measured`
and `com_fit`. -/
theorem ds_preprocess_reads_current_patterns_only {R : Type} [Num R] (s s' : DsState R) (hh : s.held = s'.held)
    (hg : s.gpts = s'.gpts) (hr : s.roi = s'.roi) (fit : DsFit) (vec : Bool) :
    (dsStep s (.preprocess fit vec)).2 = (dsStep s' (.preprocess fit vec)).2 ∧
    ((dsStep s (.preprocess fit vec)).2 = none →
      (dsStep s (.preprocess fit vec)).1.comMeasured = (dsStep s' (.preprocess fit vec)).1.comMeasured ∧
      (dsStep s (.preprocess fit vec)).1.comFit = (dsStep s' (.preprocess fit vec)).1.comFit) := by
  simp only [dsStep, dsSetCom]
  rw [hh, hg, hr]
  cases hE : dsComE s'.gpts s'.roi s'.roi.1 s'.roi.2 s'.held none fit vec with
  | ok r => exact ⟨rfl, fun _ => ⟨rfl, rfl⟩⟩
  | error e' => exact ⟨rfl, fun hnone => by simp [commit] at hnone⟩

/-- **`preprocess()` after ANY history** (ℝ): whatever happened to the object before (measurements on
either path, rejected calls, hand-set centres of mass, in-place edits of the patterns), the
centre-of-mass stage returns and stores the intensity-weighted mean (row, column) of every pattern
it holds at that moment, on the vectorised and on the looped path. -/
theorem ds_com_after_any_history (s0 : DsState ℝ) (ops : List (DsOp ℝ)) (fit : DsFit) (vec : Bool) (hfit : fit ≠ .other)
    (hshape : validCom (dsRun s0 ops).gpts
      (comGrids none (dsRun s0 ops).roi.1 (dsRun s0 ops).roi.2 (dsRun s0 ops).held vec) = true)
    (hrect : ∀ row ∈ (dsRun s0 ops).held, ∀ I ∈ row, Rect (dsRun s0 ops).roi.1 (dsRun s0 ops).roi.2 I) :
    (dsStep (dsRun s0 ops) (.preprocess fit vec)).2 = none ∧
    (dsStep (dsRun s0 ops) (.preprocess fit vec)).1.comMeasured =
      some ((dsRun s0 ops).held.map (fun row => row.map (fun I => (comSpec I).1)),
            (dsRun s0 ops).held.map (fun row => row.map (fun I => (comSpec I).2))) := by
  generalize dsRun s0 ops = s at hshape hrect ⊢
  have hcm : comGrids none s.roi.1 s.roi.2 s.held vec =
      (s.held.map (fun row => row.map (fun I => (comSpec I).1)), s.held.map (fun row => row.map (fun I => (comSpec I).2))) := by
    have hw := com_is_weighted_mean none 1 Nat.one_pos s.roi.1 s.roi.2 s.held
      (fun row hrow I hI => ⟨hrect row hrow I hI, hrect row hrow I hI⟩)
    unfold comGrids
    cases vec with
    | true => simp only [if_true]; rw [hw.2.1, hw.1]; rfl
    | false => simp only [Bool.false_eq_true, if_false]; rw [hw.1]; rfl
  obtain ⟨cf, hcf⟩ : ∃ cf, dsFitE s.roi fit (comGrids none s.roi.1 s.roi.2 s.held vec) = .ok cf := by
    cases fit with
    | none => exact ⟨_, rfl⟩
    | noShift => exact ⟨_, rfl⟩
    | constant => exact ⟨_, rfl⟩
    | other => exact absurd rfl hfit
  have hE : dsComE s.gpts s.roi s.roi.1 s.roi.2 s.held none fit vec =
      .ok (comGrids none s.roi.1 s.roi.2 s.held vec, cf) := by
    unfold dsComE
    simp only [maskOk, Bool.not_true, Bool.false_eq_true, if_false, hcf, hshape, if_true]
  simp only [dsStep, dsSetCom]
  rw [commit_ok _ _ _ _ hE]
  exact ⟨rfl, by simp only; rw [hcm]⟩

/-- non-vacuity / the history of the seeded kind at the exact carrier: measure, overwrite
`com_measured` by hand, edit one pattern in place, run the centre-of-mass stage again — the result is
the centre of mass of the EDITED patterns on both paths, and the rejected calls in between change nothing -/
example :
    let s0 : DsState Rat := { gpts := (1, 2), roi := (2, 2), held := [[[[1, 1], [1, 1]], [[1, 3], [1, 3]]]],
                              comMeasured := none, comFit := none }
    (dsRun s0 [.preprocess .constant true, .setComMeasured ([[9, 9]], [[9, 9]]), .setComMeasured ([[9]], [[9]]),
               .edit 0 0 [[1, 0], [0, 0]], .setCom .held (some [[1, 1, 1]]) .none true, .preprocess .none false]).comMeasured
      = some ([[0, 1 / 2]], [[0, 3 / 4]]) := by
  decide +kernel


/-! ### 7. the fitted families as the source states them NOW

`Generated/OriginSurface.lean` is re-translated from `_plane`, `_parabola`, `_bezier_two` in
`ptycho_utils.py` on every run (harness/translator/surface2lean.py).  The three theorems below tie
the hand-written `surfaceF` — the object of `lsq_variants_exact`, `parabola_exact_on_raster`,
`quad_unique` — to that translation; the tactics (`simp` with the carrier lemmas, then `ring`)
survive renamed locals, reordered terms, introduced temporaries, `x ** 2` vs `x * x`. -/

theorem generated_eq_spec_plane (xy : ℝ × ℝ) (mx my b : ℝ) :
    Generated.OriginSurface.plane xy mx my b = surfaceF .plane [mx, my, b] xy := by
  simp [Generated.OriginSurface.plane, surfaceF, NumReal.zero_eq, NumReal.one_eq, NumReal.two_eq]
  try ring

theorem generated_eq_spec_parabola (xy : ℝ × ℝ) (c0 cx1 cx2 cy1 cy2 cxy : ℝ) :
    Generated.OriginSurface.parabola xy c0 cx1 cx2 cy1 cy2 cxy = surfaceF .parabola [c0, cx1, cx2, cy1, cy2, cxy] xy := by
  simp [Generated.OriginSurface.parabola, surfaceF, NumReal.zero_eq, NumReal.one_eq, NumReal.two_eq]
  try ring

theorem generated_eq_spec_bezier_two (xy : ℝ × ℝ) (c00 c01 c02 c10 c11 c12 c20 c21 c22 : ℝ) :
    Generated.OriginSurface.bezierTwo xy c00 c01 c02 c10 c11 c12 c20 c21 c22 =
      surfaceF .bezierTwo [c00, c01, c02, c10, c11, c12, c20, c21, c22] xy := by
  simp [Generated.OriginSurface.bezierTwo, surfaceF, NumReal.zero_eq, NumReal.one_eq, NumReal.two_eq]
  try ring

/-- the translated functions compute (exact carrier): `_parabola((2, 3), 1, 1, 1, 1, 1, 1) = 1+2+3+4+9+6` -/
example : Generated.OriginSurface.parabola ((2 : Rat), (3 : Rat)) 1 1 1 1 1 1 = 25 := by decide +kernel


end QuantemModel.Props.C18
