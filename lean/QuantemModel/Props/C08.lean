import QuantemModel.Model.SaveFs
import QuantemModel.Model.SaveFront
import QuantemModel.Model.SaveInstall
/-!
C08 — failed saves leave no loadable partial object; write-once never overwrites; no other
path is altered.  Theorems about Model/SaveFs.lean, for every fault position, step count,
store and pre-state.
-/
namespace QuantemModel.Props.C08
open QuantemModel.SaveFs

theorem fsGet_fsSet_same (fs : Fs) (p : String) (c : Content) : fsGet (fsSet fs p c) p = some c := by
  induction fs with
  | nil => simp [fsSet, fsGet]
  | cons hd tl ih =>
    obtain ⟨q, c'⟩ := hd
    by_cases h : q = p <;> simp [fsSet, fsGet, h, ih]

theorem fsGet_fsSet_other (fs : Fs) (p q : String) (c : Content) (h : q ≠ p) :
    fsGet (fsSet fs p c) q = fsGet fs q := by
  induction fs with
  | nil => simp [fsSet, fsGet, Ne.symm h]
  | cons hd tl ih =>
    obtain ⟨r, c'⟩ := hd
    by_cases h1 : r = p
    · subst h1; simp [fsSet, fsGet, Ne.symm h]
    · by_cases h2 : r = q
      · subst h2; simp [fsSet, fsGet, h1]
      · simp [fsSet, fsGet, h1, h2, ih]

theorem fsGet_fsErase_other (fs : Fs) (p q : String) (h : q ≠ p) :
    fsGet (fsErase fs p) q = fsGet fs q := by
  induction fs with
  | nil => simp [fsErase, fsGet]
  | cons hd tl ih =>
    obtain ⟨r, c'⟩ := hd
    by_cases h1 : r = p
    · subst h1; simp [fsErase, fsGet, Ne.symm h]
    · by_cases h2 : r = q
      · subst h2; simp [fsErase, fsGet, h1]
      · simp [fsErase, fsGet, h1, h2, ih]

/-- paths are unique keys of the modelled filesystem -/
def Uniq : Fs → Prop
  | [] => True
  | (q, _) :: rest => fsGet rest q = .none ∧ Uniq rest

theorem fsGet_fsErase_same (fs : Fs) (p : String) (h : Uniq fs) : fsGet (fsErase fs p) p = .none := by
  induction fs with
  | nil => simp [fsErase, fsGet]
  | cons hd tl ih =>
    obtain ⟨r, c'⟩ := hd
    by_cases h1 : r = p
    · subst h1; simp [fsErase]; exact h.1
    · simp [fsErase, fsGet, h1, ih h.2]

theorem uniq_fsSet (fs : Fs) (p : String) (c : Content) (h : Uniq fs) : Uniq (fsSet fs p c) := by
  induction fs with
  | nil => simp [fsSet, Uniq, fsGet]
  | cons hd tl ih =>
    obtain ⟨r, c'⟩ := hd
    by_cases h1 : r = p
    · subst h1; simpa [fsSet, Uniq] using h
    · simp only [fsSet, h1, if_false, Uniq]
      exact ⟨by rw [fsGet_fsSet_other _ _ _ _ h1]; exact h.1, ih h.2⟩

theorem uniq_fsErase (fs : Fs) (p : String) (h : Uniq fs) : Uniq (fsErase fs p) := by
  induction fs with
  | nil => simp [fsErase, Uniq]
  | cons hd tl ih =>
    obtain ⟨r, c'⟩ := hd
    by_cases h1 : r = p
    · subst h1; simpa [fsErase] using h.2
    · simp only [fsErase, h1, if_false, Uniq]
      exact ⟨by rw [fsGet_fsErase_other _ _ _ h1]; exact h.1, ih h.2⟩

theorem exec_other (c : Cfg) (fs : Fs) (s : Step) (q : String) (h1 : q ≠ c.target) (h2 : q ≠ c.staged) :
    fsGet (exec c fs s) q = fsGet fs q := by
  cases s <;> simp only [exec]
  · exact fsGet_fsSet_other _ _ _ _ h2
  · split
    · exact fsGet_fsSet_other _ _ _ _ h2
    · rfl
  · exact fsGet_fsSet_other _ _ _ _ h2
  · exact fsGet_fsErase_other _ _ _ h1
  · split
    · rw [fsGet_fsErase_other _ _ _ h2, fsGet_fsSet_other _ _ _ _ h1]
    · rfl

/-- **no save, successful or not, alters any path other than its target** (and its own
staging path, which theorem `staged_gone` shows is gone afterwards): for every step list,
every fault position -/
theorem others_untouched (c : Cfg) (steps : List Step) : ∀ (fs : Fs) (fault : Option Nat) (q : String),
    q ≠ c.target → q ≠ c.staged → fsGet (run c fs steps fault).1 q = fsGet fs q := by
  induction steps with
  | nil => intro fs fault q _ _; simp [run]
  | cons s rest ih =>
    intro fs fault q h1 h2
    cases fault with
    | none => rw [run]; rw [ih _ _ _ h1 h2, exec_other _ _ _ _ h1 h2]
    | some k =>
      cases k with
      | zero => simp [run, SaveFs.discard, fsGet_fsErase_other _ _ _ h2]
      | succ k => rw [run]; rw [ih _ _ _ h1 h2, exec_other _ _ _ _ h1 h2]

/-- **write-once**: with mode 'w' an existing target makes save raise before any effect -/
theorem write_once (c : Cfg) (fs : Fs) (levelOk dirHasExt zip : Bool) (nTmp nWrites : Nat) (fault : Option Nat)
    (hex : (fsGet fs c.target).isSome = true) :
    (∃ e, save c fs false levelOk dirHasExt zip nTmp nWrites fault = .raisedBeforeAnyEffect e) := by
  unfold save
  by_cases hl : levelOk = true
  · exact ⟨"FileExistsError", by simp [hl, hex]⟩
  · exact ⟨"ValueError", by simp [hl]⟩

def stagingOnly : List Step → Bool
  | [] => true
  | .removeOld :: _ => false
  | .replace :: _ => false
  | _ :: rest => stagingOnly rest

theorem exec_staging_target (c : Cfg) (fs : Fs) (s : Step) (hne : c.target ≠ c.staged)
    (hs : stagingOnly [s] = true) : fsGet (exec c fs s) c.target = fsGet fs c.target := by
  cases s <;> simp [stagingOnly] at hs <;> simp only [exec]
  · exact fsGet_fsSet_other _ _ _ _ hne
  · split
    · exact fsGet_fsSet_other _ _ _ _ hne
    · rfl
  · exact fsGet_fsSet_other _ _ _ _ hne

/-- while staging (and when staging fails) the target is not touched at all -/
theorem staging_keeps_target (c : Cfg) (hne : c.target ≠ c.staged) (l : List Step) :
    ∀ (fs : Fs) (fault : Option Nat), stagingOnly l = true →
      fsGet (run c fs l fault).1 c.target = fsGet fs c.target := by
  induction l with
  | nil => intro fs fault _; simp [run]
  | cons s rest ih =>
    intro fs fault hs
    have hs1 : stagingOnly [s] = true ∧ stagingOnly rest = true := by
      cases s <;> simp [stagingOnly] at hs ⊢ <;> exact hs
    cases fault with
    | none => rw [run, ih _ _ hs1.2, exec_staging_target c fs s hne hs1.1]
    | some k =>
      cases k with
      | zero => simp [run, SaveFs.discard, fsGet_fsErase_other _ _ _ hne]
      | succ k => rw [run, ih _ _ hs1.2, exec_staging_target c fs s hne hs1.1]

theorem run_append (c : Cfg) (a b : List Step) : ∀ (fs : Fs) (fault : Option Nat),
    run c fs (a ++ b) fault =
      match fault with
      | .none => run c (run c fs a .none).1 b .none
      | some k => if k < a.length then run c fs a (some k) else run c (run c fs a .none).1 b (some (k - a.length)) := by
  induction a with
  | nil => intro fs fault; cases fault <;> simp [run]
  | cons s rest ih =>
    intro fs fault
    cases fault with
    | none => simp only [List.cons_append, run]; rw [ih]
    | some k =>
      cases k with
      | zero => simp [run]
      | succ k =>
        simp only [List.cons_append, run, List.length_cons]
        rw [ih]
        by_cases hk : k < rest.length
        · simp [hk]
        · simp [hk]

theorem stagePart_stagingOnly (zip : Bool) (nTmp nWrites : Nat) : stagingOnly (stagePart zip nTmp nWrites) = true := by
  have h1 : ∀ n (l : List Step), stagingOnly l = true → stagingOnly (List.replicate n Step.tmpWrite ++ l) = true := by
    intro n l hl; induction n with
    | zero => simpa
    | succ n ih => simpa [List.replicate_succ, stagingOnly] using ih
  have h2 : ∀ n (l : List Step), stagingOnly l = true → stagingOnly (List.replicate n Step.stageWrite ++ l) = true := by
    intro n l hl; induction n with
    | zero => simpa
    | succ n ih => simpa [List.replicate_succ, stagingOnly] using ih
  unfold stagePart
  have h3 : stagingOnly ([Step.stageOpen] ++ (List.replicate nWrites Step.stageWrite ++ [Step.stageFinish])) = true := by
    simp only [List.singleton_append, stagingOnly]
    exact h2 _ _ (by simp [stagingOnly])
  cases zip
  · simpa using h3
  · simpa using h1 _ _ h3

/-- once staging has completed, the staging path holds a complete object -/
theorem staged_complete (c : Cfg) (zip : Bool) (nTmp nWrites : Nat) (fs : Fs) :
    fsGet (run c fs (stagePart zip nTmp nWrites) .none).1 c.staged = some (.complete c.id) := by
  have hfin : ∀ (l : List Step) (fs : Fs), fsGet (run c fs (l ++ [Step.stageFinish]) .none).1 c.staged = some (.complete c.id) := by
    intro l
    induction l with
    | nil => intro fs; simp [run, exec, fsGet_fsSet_same]
    | cons s rest ih => intro fs; simp only [List.cons_append, run]; exact ih _
  unfold stagePart
  have : (if zip = true then List.replicate nTmp Step.tmpWrite else []) ++
      ([Step.stageOpen] ++ (List.replicate nWrites Step.stageWrite ++ [Step.stageFinish])) =
      ((if zip = true then List.replicate nTmp Step.tmpWrite else []) ++
      ([Step.stageOpen] ++ List.replicate nWrites Step.stageWrite)) ++ [Step.stageFinish] := by
    simp [List.append_assoc]
  rw [this]
  exact hfin _ _

/-- **C08, main statement**: whatever the store, the number of writes, the pre-state and the
position of the fault, after `save` returns or raises the target is exactly what it was
before, or absent, or the complete new object — never a partial one; and a call that
did not raise leaves the complete new object -/
theorem no_partial (c : Cfg) (hne : c.target ≠ c.staged) (fs : Fs) (hu : Uniq fs)
    (zip : Bool) (nTmp nWrites : Nat) (fault : Option Nat) :
    let r := run c fs (steps zip nTmp nWrites (fsGet fs c.target).isSome) fault
    (fsGet r.1 c.target = fsGet fs c.target ∨ fsGet r.1 c.target = .none ∨
      fsGet r.1 c.target = some (.complete c.id)) ∧
    (r.2 = false → fsGet r.1 c.target = some (.complete c.id)) := by
  intro r
  have hso := stagePart_stagingOnly zip nTmp nWrites
  have hst := staged_complete c zip nTmp nWrites fs
  have hkeep := staging_keeps_target c hne (stagePart zip nTmp nWrites) fs .none hso
  -- abbreviations
  generalize hfs1 : (run c fs (stagePart zip nTmp nWrites) .none).1 = fs1 at hst hkeep
  have hr : r = run c fs (stagePart zip nTmp nWrites ++ installPart (fsGet fs c.target).isSome) fault := rfl
  rw [run_append] at hr
  cases fault with
  | none =>
    simp only [hfs1] at hr
    cases hex : (fsGet fs c.target).isSome with
    | false =>
      simp only [hex, installPart, Bool.false_eq_true, if_false, List.nil_append, run, exec, hst] at hr
      rw [hr]
      simp [fsGet_fsErase_other _ _ _ hne, fsGet_fsSet_same]
    | true =>
      simp only [hex, installPart, if_true, List.singleton_append, run, exec] at hr
      rw [fsGet_fsErase_other _ _ _ (Ne.symm hne), hst] at hr
      rw [hr]
      simp [fsGet_fsErase_other _ _ _ hne, fsGet_fsSet_same]
  | some k =>
    by_cases hk : k < (stagePart zip nTmp nWrites).length
    · simp only [hk, if_true] at hr
      rw [hr]
      refine ⟨Or.inl (staging_keeps_target c hne _ fs (some k) hso), ?_⟩
      intro hfalse
      exfalso
      -- a fault inside the staging part always raises
      have : ∀ (l : List Step) (fs : Fs) (k : Nat), k < l.length → (run c fs l (some k)).2 = true := by
        intro l
        induction l with
        | nil => intro fs k hk; simp at hk
        | cons s rest ih =>
          intro fs k hk
          cases k with
          | zero => simp [run]
          | succ k => rw [run]; exact ih _ _ (by simpa using hk)
      rw [this _ _ _ hk] at hfalse
      exact Bool.noConfusion hfalse
    · simp only [hk, if_false, hfs1] at hr
      cases hex : (fsGet fs c.target).isSome with
      | false =>
        simp only [hex, installPart, Bool.false_eq_true, if_false, List.nil_append] at hr
        generalize k - (stagePart zip nTmp nWrites).length = j at hr
        cases j with
        | zero =>
          simp only [run, SaveFs.discard] at hr
          rw [hr]
          simp [fsGet_fsErase_other _ _ _ hne, hkeep]
        | succ j =>
          simp only [run, exec, hst] at hr
          rw [hr]
          simp [fsGet_fsErase_other _ _ _ hne, fsGet_fsSet_same]
      | true =>
        simp only [hex, installPart, if_true, List.singleton_append] at hr
        generalize k - (stagePart zip nTmp nWrites).length = j at hr
        cases j with
        | zero =>
          simp only [run, SaveFs.discard] at hr
          rw [hr]
          simp [fsGet_fsErase_other _ _ _ hne, hkeep]
        | succ j =>
          cases j with
          | zero =>
            simp only [run, exec, SaveFs.discard] at hr
            rw [hr]
            have hu1 : Uniq fs1 := by
              rw [← hfs1]
              clear hst hkeep hfs1 hr hso hk
              -- uniqueness is preserved by every step
              have : ∀ (l : List Step) (fs : Fs), Uniq fs → Uniq (run c fs l .none).1 := by
                intro l
                induction l with
                | nil => intro fs h; simpa [run] using h
                | cons s rest ih =>
                  intro fs h
                  rw [run]
                  apply ih
                  cases s <;> simp only [exec]
                  · exact uniq_fsSet _ _ _ h
                  · exact h
                  · split
                    · exact uniq_fsSet _ _ _ h
                    · exact h
                  · exact uniq_fsSet _ _ _ h
                  · exact uniq_fsErase _ _ h
                  · split
                    · exact uniq_fsErase _ _ (uniq_fsSet _ _ _ h)
                    · exact h
              exact this _ _ hu
            refine ⟨Or.inr (Or.inl ?_), ?_⟩
            · rw [fsGet_fsErase_other _ _ _ hne]
              exact fsGet_fsErase_same _ _ hu1
            · intro h; simp at h
          | succ j =>
            simp only [run, exec] at hr
            rw [fsGet_fsErase_other _ _ _ (Ne.symm hne), hst] at hr
            rw [hr]
            simp [fsGet_fsErase_other _ _ _ hne, fsGet_fsSet_same]

/-- in particular the target never holds a partial object of this save -/
theorem never_partial (c : Cfg) (hne : c.target ≠ c.staged) (fs : Fs) (hu : Uniq fs)
    (zip : Bool) (nTmp nWrites : Nat) (fault : Option Nat) (k : Nat)
    (hpre : fsGet fs c.target ≠ some (.partialObj c.id k)) :
    fsGet (run c fs (steps zip nTmp nWrites (fsGet fs c.target).isSome) fault).1 c.target ≠ some (.partialObj c.id k) := by
  have h := (no_partial c hne fs hu zip nTmp nWrites fault).1
  rcases h with h | h | h <;> rw [h]
  · exact hpre
  · simp
  · simp


/-! ### histories of saves onto one target -/

theorem uniq_exec (c : Cfg) (fs : Fs) (s : Step) (h : Uniq fs) : Uniq (exec c fs s) := by
  cases s <;> simp only [exec]
  · exact uniq_fsSet _ _ _ h
  · exact h
  · split
    · exact uniq_fsSet _ _ _ h
    · exact h
  · exact uniq_fsSet _ _ _ h
  · exact uniq_fsErase _ _ h
  · split
    · exact uniq_fsErase _ _ (uniq_fsSet _ _ _ h)
    · exact h

theorem uniq_run (c : Cfg) (l : List Step) : ∀ (fs : Fs) (fault : Option Nat), Uniq fs →
    Uniq (run c fs l fault).1 := by
  induction l with
  | nil => intro fs fault h; cases fault <;> simpa [run] using h
  | cons s rest ih =>
    intro fs fault h
    cases fault with
    | none => rw [run]; exact ih _ _ (uniq_exec c fs s h)
    | some k =>
      cases k with
      | zero => simp only [run, SaveFs.discard]; exact uniq_fsErase _ _ h
      | succ k => rw [run]; exact ih _ _ (uniq_exec c fs s h)

theorem run_none_not_raised (c : Cfg) (l : List Step) : ∀ (fs : Fs), (run c fs l .none).2 = false := by
  induction l with
  | nil => intro fs; simp [run]
  | cons s rest ih => intro fs; rw [run]; exact ih _

/-- **a call that raises never installs anything**: afterwards the target is what it was
before the call, or (when the fault hit the install step after the old target had been
removed) absent -/
theorem raise_never_installs (c : Cfg) (hne : c.target ≠ c.staged) (fs : Fs) (hu : Uniq fs)
    (zip : Bool) (nTmp nWrites : Nat) (fault : Option Nat) :
    let r := run c fs (steps zip nTmp nWrites (fsGet fs c.target).isSome) fault
    r.2 = true → (fsGet r.1 c.target = fsGet fs c.target ∨ fsGet r.1 c.target = .none) := by
  intro r hraised
  have hso := stagePart_stagingOnly zip nTmp nWrites
  have hkeep := staging_keeps_target c hne (stagePart zip nTmp nWrites) fs .none hso
  have hu1 : Uniq (run c fs (stagePart zip nTmp nWrites) .none).1 := uniq_run c _ fs .none hu
  generalize hfs1 : (run c fs (stagePart zip nTmp nWrites) .none).1 = fs1 at hkeep hu1
  have hr : r = run c fs (stagePart zip nTmp nWrites ++ installPart (fsGet fs c.target).isSome) fault := rfl
  rw [run_append] at hr
  cases fault with
  | none =>
    simp only [hfs1] at hr
    rw [hr, run_none_not_raised] at hraised
    cases hraised
  | some k =>
    by_cases hk : k < (stagePart zip nTmp nWrites).length
    · simp only [hk, if_true] at hr
      rw [hr]
      exact Or.inl (staging_keeps_target c hne _ fs (some k) hso)
    · simp only [hk, if_false, hfs1] at hr
      cases hex : (fsGet fs c.target).isSome with
      | false =>
        simp only [hex, installPart, Bool.false_eq_true, if_false, List.nil_append] at hr
        generalize k - (stagePart zip nTmp nWrites).length = j at hr
        cases j with
        | zero =>
          simp only [run, SaveFs.discard] at hr
          rw [hr]
          left
          simp [fsGet_fsErase_other _ _ _ hne, hkeep]
        | succ j =>
          simp only [run] at hr
          rw [hr] at hraised
          cases hraised
      | true =>
        simp only [hex, installPart, if_true, List.singleton_append] at hr
        generalize k - (stagePart zip nTmp nWrites).length = j at hr
        cases j with
        | zero =>
          simp only [run, SaveFs.discard] at hr
          rw [hr]
          left
          simp [fsGet_fsErase_other _ _ _ hne, hkeep]
        | succ j =>
          cases j with
          | zero =>
            simp only [run, exec, SaveFs.discard] at hr
            rw [hr]
            right
            rw [fsGet_fsErase_other _ _ _ hne]
            exact fsGet_fsErase_same _ _ hu1
          | succ j =>
            simp only [run] at hr
            rw [hr] at hraised
            cases hraised

/-- what one call does to the target: it keeps it, removes it, or — only if the call
returned normally — installs its own complete object -/
theorem call_target (T : String) (k : Call) (hT : k.cfg.target = T) (hS : k.cfg.staged ≠ T) (fs : Fs) (hu : Uniq fs) :
    Uniq (k.apply fs) ∧
    (fsGet (k.apply fs) T = fsGet fs T ∨ fsGet (k.apply fs) T = .none ∨
      (fsGet (k.apply fs) T = some (.complete k.cfg.id) ∧ k.succeeded fs = true)) := by
  have hne : k.cfg.target ≠ k.cfg.staged := by rw [hT]; exact Ne.symm hS
  unfold Call.apply Call.succeeded Call.outcome save
  by_cases h1 : (!k.levelOk) = true
  · simp only [h1, if_true]; exact ⟨hu, by simp⟩
  · simp only [h1]
    by_cases h2 : ((fsGet fs k.cfg.target).isSome && !k.modeO) = true
    · simp only [h2, if_true]; exact ⟨hu, by simp⟩
    · simp only [h2]
      by_cases h3 : (!k.zip && k.dirHasExt) = true
      · simp only [h3, if_true]; exact ⟨hu, by simp⟩
      · simp only [h3]
        refine ⟨uniq_run _ _ _ _ hu, ?_⟩
        have hnp := no_partial k.cfg hne fs hu k.zip k.nTmp k.nWrites k.fault
        have hri := raise_never_installs k.cfg hne fs hu k.zip k.nTmp k.nWrites k.fault
        simp only [] at hnp hri
        rw [← hT]
        cases hr2 : (run k.cfg fs (steps k.zip k.nTmp k.nWrites (fsGet fs k.cfg.target).isSome) k.fault).2 with
        | true =>
          rcases hri hr2 with h | h
          · exact Or.inl h
          · exact Or.inr (Or.inl h)
        | false => exact Or.inr (Or.inr ⟨hnp.2 hr2, by simp⟩)

/-- **C08 over histories.**  For ANY sequence of `save` calls onto one target — any stores,
modes, options, object graphs, with an exception injected at any primitive of any of the
calls, or none — the target afterwards is what it was before the history, or absent, or the
COMPLETE object written by one of the calls that returned normally.  In particular it never
holds a partial object, and never the object of a call that raised. -/
theorem saves_history (T : String) (ks : List Call) :
    ∀ (fs : Fs), Uniq fs → (∀ k ∈ ks, k.cfg.target = T ∧ k.cfg.staged ≠ T) →
      Uniq (runCalls fs ks) ∧
      (fsGet (runCalls fs ks) T = fsGet fs T ∨ fsGet (runCalls fs ks) T = .none ∨
        ∃ i ∈ succeededIds fs ks, fsGet (runCalls fs ks) T = some (.complete i)) := by
  induction ks with
  | nil => intro fs hu _; exact ⟨hu, Or.inl rfl⟩
  | cons k rest ih =>
    intro fs hu hall
    obtain ⟨hT, hS⟩ := hall k (by simp)
    obtain ⟨hu1, h1⟩ := call_target T k hT hS fs hu
    obtain ⟨hu2, h2⟩ := ih (k.apply fs) hu1 (fun k' hk' => hall k' (by simp [hk']))
    refine ⟨by simpa [runCalls] using hu2, ?_⟩
    have hrc : runCalls fs (k :: rest) = runCalls (k.apply fs) rest := by simp [runCalls]
    rw [hrc]
    simp only [succeededIds]
    rcases h2 with h2 | h2 | ⟨i, hi, h2⟩
    · rw [h2]
      rcases h1 with h1 | h1 | ⟨h1, hs⟩
      · exact Or.inl h1
      · exact Or.inr (Or.inl h1)
      · exact Or.inr (Or.inr ⟨k.cfg.id, by simp [hs], h1⟩)
    · exact Or.inr (Or.inl h2)
    · exact Or.inr (Or.inr ⟨i, List.mem_append_right _ hi, h2⟩)

/-- in particular: if the target held no partial object before the history, it never does -/
theorem saves_history_never_partial (T : String) (ks : List Call) (fs : Fs) (hu : Uniq fs)
    (hall : ∀ k ∈ ks, k.cfg.target = T ∧ k.cfg.staged ≠ T)
    (hpre : ∀ i n, fsGet fs T ≠ some (.partialObj i n)) :
    ∀ i n, fsGet (runCalls fs ks) T ≠ some (.partialObj i n) := by
  intro i n
  rcases (saves_history T ks fs hu hall).2 with h | h | ⟨j, _, h⟩ <;> rw [h]
  · exact hpre i n
  · simp
  · simp

/-! ### no leftover: the staging path is gone after every call, whatever happens -/

/-- any step list whose last step is the `os.replace` of `_install`, any fault position -/
theorem run_ends_replace_staged_gone (c : Cfg) (l : List Step) : ∀ (fs : Fs) (fault : Option Nat), Uniq fs →
    fsGet (run c fs (l ++ [Step.replace]) fault).1 c.staged = .none := by
  have hrep : ∀ fs : Fs, Uniq fs → fsGet (exec c fs .replace) c.staged = .none := by
    intro fs hu
    simp only [exec]
    split
    · exact fsGet_fsErase_same _ _ (uniq_fsSet _ _ _ hu)
    · assumption
  induction l with
  | nil =>
    intro fs fault hu
    cases fault with
    | none => simpa [run] using hrep fs hu
    | some k =>
      cases k with
      | zero => simpa [run, SaveFs.discard] using fsGet_fsErase_same _ _ hu
      | succ k => cases k <;> simpa [run] using hrep fs hu
  | cons s rest ih =>
    intro fs fault hu
    cases fault with
    | none => simp only [List.cons_append, run]; exact ih _ _ (uniq_exec c fs s hu)
    | some k =>
      cases k with
      | zero => simpa [run, SaveFs.discard] using fsGet_fsErase_same _ _ hu
      | succ k => simp only [List.cons_append, run]; exact ih _ _ (uniq_exec c fs s hu)

/-- **no save, successful or not, leaves its staging path behind**: for every store, number of
writes, pre-state and fault position (also a fault in `_install`, also one that never strikes) -/
theorem staged_gone (c : Cfg) (fs : Fs) (hu : Uniq fs) (zip : Bool) (nTmp nWrites : Nat) (targetExists : Bool)
    (fault : Option Nat) :
    fsGet (run c fs (steps zip nTmp nWrites targetExists) fault).1 c.staged = .none := by
  have : steps zip nTmp nWrites targetExists =
      (stagePart zip nTmp nWrites ++ (if targetExists then [Step.removeOld] else [])) ++ [Step.replace] := by
    simp [steps, installPart, List.append_assoc]
  rw [this]
  exact run_ends_replace_staged_gone c _ fs fault hu

/-- **write-once, as an equation on the whole filesystem**: a call with mode ≠ 'o' onto an
existing target changes NOTHING (not the target, not any other path) and does not return normally -/
theorem write_once_fs_unchanged (k : Call) (fs : Fs) (hm : k.modeO = false)
    (hex : (fsGet fs k.cfg.target).isSome = true) : k.apply fs = fs ∧ k.succeeded fs = false := by
  unfold Call.apply Call.succeeded Call.outcome save
  cases hl : k.levelOk <;> simp [hm, hex]

/-- a call is rejected before any effect, or it is the run of its step list -/
theorem apply_cases (k : Call) (fs : Fs) :
    k.apply fs = fs ∨
      k.apply fs = (run k.cfg fs (steps k.zip k.nTmp k.nWrites (fsGet fs k.cfg.target).isSome) k.fault).1 := by
  unfold Call.apply Call.outcome save
  by_cases h1 : (!k.levelOk) = true
  · left; simp [h1]
  · by_cases h2 : ((fsGet fs k.cfg.target).isSome && !k.modeO) = true
    · left; simp [h1, h2]
    · by_cases h3 : (!k.zip && k.dirHasExt) = true
      · left; simp [h1, h2, h3]
      · right; simp [h1, h2, h3]

/-- one call, any options, any fault: a path that is neither its target nor its staging path is untouched -/
theorem call_other (k : Call) (fs : Fs) (q : String) (h1 : q ≠ k.cfg.target) (h2 : q ≠ k.cfg.staged) :
    fsGet (k.apply fs) q = fsGet fs q := by
  rcases apply_cases k fs with h | h <;> rw [h]
  exact others_untouched k.cfg _ fs k.fault q h1 h2

/-- **no save alters any path other than its target — over histories onto ANY targets**: after any
sequence of calls (different targets, stores, modes, rejected calls, faults anywhere) a path that
was never the target or the staging path of a call is what it was -/
theorem history_others_untouched (ks : List Call) : ∀ (fs : Fs) (q : String),
    (∀ k ∈ ks, q ≠ k.cfg.target ∧ q ≠ k.cfg.staged) → fsGet (runCalls fs ks) q = fsGet fs q := by
  induction ks with
  | nil => intro fs q _; rfl
  | cons k rest ih =>
    intro fs q h
    have hk := h k (by simp)
    have : runCalls fs (k :: rest) = runCalls (k.apply fs) rest := by simp [runCalls]
    rw [this, ih _ _ (fun k' hk' => h k' (by simp [hk'])), call_other k fs q hk.1 hk.2]

theorem uniq_apply (k : Call) (fs : Fs) (hu : Uniq fs) : Uniq (k.apply fs) := by
  rcases apply_cases k fs with h | h <;> rw [h]
  · exact hu
  · exact uniq_run _ _ _ _ hu

/-- **no save creates any path other than its target — over histories**: a path that is absent and
is never the TARGET of a call (it may be the staging path of any number of them) is still absent
after any sequence of calls with any faults: nothing is ever left behind -/
theorem history_no_leftover (ks : List Call) : ∀ (fs : Fs) (q : String), Uniq fs →
    (∀ k ∈ ks, q ≠ k.cfg.target) → fsGet fs q = .none → fsGet (runCalls fs ks) q = .none := by
  induction ks with
  | nil => intro fs q _ _ h; exact h
  | cons k rest ih =>
    intro fs q hu h h0
    have hk := h k (by simp)
    have hrc : runCalls fs (k :: rest) = runCalls (k.apply fs) rest := by simp [runCalls]
    rw [hrc]
    refine ih _ _ (uniq_apply k fs hu) (fun k' hk' => h k' (by simp [hk'])) ?_
    by_cases hs : q = k.cfg.staged
    · subst hs
      rcases apply_cases k fs with h | h <;> rw [h]
      · exact h0
      · exact staged_gone k.cfg fs hu _ _ _ _ _
    · rw [call_other k fs q hk hs]; exact h0

/-! ### the front end of `save`: validation, store inference, suffix, write-once check -/
open QuantemModel.SaveFront

/-- **write-once at the API**: whatever the spelling of the path, the store argument (also
"auto", also an unknown one), the compression level and the mode string — every mode other than
"o" — a call whose RESOLVED target exists raises before any effect -/
theorem front_write_once (path : P) (mode store : String) (level : Option Int) (ex : P → Bool)
    (hm : mode ≠ "o") (hex : ex (targetOf path store) = true) :
    ∃ e, front path mode store level ex = .error e := by
  unfold front
  by_cases hl : levelOk level = false
  · exact ⟨.level, by simp [hl]⟩
  · refine ⟨.exists_, ?_⟩
    simp only [hl]
    have : ex (resolvePath path (resolveStore path store)) = true := hex
    simp [this, hm]

/-- exactly when a call gets past the front end, and what it then names -/
theorem front_ok_iff (path : P) (mode store : String) (level : Option Int) (ex : P → Bool) (r : Resolved) :
    front path mode store level ex = .ok r ↔
      (levelOk level = true ∧ (ex (targetOf path store) = true → mode = "o") ∧
        (resolveStore path store = "zip" ∨ (resolveStore path store = "dir" ∧ hasExt (targetOf path store) = false)) ∧
        { target := targetOf path store, zip := decide (resolveStore path store = "zip") } = r) := by
  unfold front targetOf
  dsimp only
  generalize resolveStore path store = s1
  generalize resolvePath path s1 = p1
  cases hl : levelOk level
  · simp
  · by_cases he : ex p1 = true <;> by_cases hmo : mode = "o" <;> by_cases hz : s1 = "zip" <;>
      by_cases hd : s1 = "dir" <;> by_cases hx : hasExt p1 = true <;> simp_all

/-- the target is the path as given, or (zip store, no `.zip` suffix yet) the path with `.zip`
appended — and that is a DIFFERENT path from the one given -/
theorem targetOf_cases (path : P) (store : String) :
    targetOf path store = path ∨
      (targetOf path store = path ++ zipExt ∧ endsZip path = false ∧ targetOf path store ≠ path) := by
  unfold targetOf resolvePath
  by_cases h : resolveStore path store = "zip" ∧ endsZip path = false
  · right
    simp only [h, and_self, if_true, true_and]
    intro heq
    have := congrArg List.length heq
    simp [zipExt] at this
  · left; simp [h]

/-- a zip target always carries the `.zip` suffix -/
theorem front_zip_suffix (path : P) (mode store : String) (level : Option Int) (ex : P → Bool) (r : Resolved)
    (h : front path mode store level ex = .ok r) (hz : r.zip = true) : endsZip r.target = true := by
  obtain ⟨_, _, _, hr⟩ := (front_ok_iff path mode store level ex r).1 h
  subst hr
  simp only [decide_eq_true_eq] at hz
  unfold targetOf resolvePath
  by_cases he : endsZip path = false
  · simp only [hz, he, and_self, if_true]
    unfold endsZip
    exact List.isSuffixOf_iff_suffix.2 (List.suffix_append _ _)
  · simp only [hz, he]
    simpa using he

/-- a rejected call has no effect at all; an accepted one is the protocol of `SaveFs.save` on the resolved target -/
theorem saveFull_eq (name : P → String) (k : FullCall) (fs : Fs) :
    (∀ e, front k.path k.mode k.store k.level (fun p => (fsGet fs (name p)).isSome) = .error e →
      applyFull name fs k = fs) ∧
    (∀ r, front k.path k.mode k.store k.level (fun p => (fsGet fs (name p)).isSome) = .ok r →
      applyFull name fs k =
        (run { target := name r.target, staged := k.staged, id := k.id } fs
          (steps r.zip k.nTmp k.nWrites (fsGet fs (name r.target)).isSome) k.fault).1) := by
  constructor
  · intro e he; simp [applyFull, saveFull, he]
  · intro r hr; simp [applyFull, saveFull, hr]

/-- **one complete call, any arguments, any fault: only the RESOLVED target can change** -/
theorem saveFull_others_untouched (name : P → String) (k : FullCall) (fs : Fs) (q : String)
    (h1 : q ≠ name (targetOf k.path k.store)) (h2 : q ≠ k.staged) :
    fsGet (applyFull name fs k) q = fsGet fs q := by
  cases hf : front k.path k.mode k.store k.level (fun p => (fsGet fs (name p)).isSome) with
  | error e => rw [(saveFull_eq name k fs).1 e hf]
  | ok r =>
    rw [(saveFull_eq name k fs).2 r hf]
    obtain ⟨_, _, _, hr⟩ := (front_ok_iff _ _ _ _ _ r).1 hf
    subst hr
    exact others_untouched _ _ fs k.fault q h1 h2

/-- **`save("run", store="zip")` writes `run.zip`; whatever lives at `run` is another path and is
never altered** (for every injective naming of paths, any mode, level, fault) -/
theorem saveFull_stem_untouched (name : P → String) (hinj : ∀ a b, name a = name b → a = b)
    (k : FullCall) (fs : Fs) (hne : targetOf k.path k.store ≠ k.path) (hs : name k.path ≠ k.staged) :
    fsGet (applyFull name fs k) (name k.path) = fsGet fs (name k.path) :=
  saveFull_others_untouched name k fs _ (fun h => hne (hinj _ _ h).symm) hs

/-- **write-once at the API, on the filesystem**: mode ≠ "o" and the resolved target exists ⇒ the
filesystem after the call IS the filesystem before it -/
theorem saveFull_write_once (name : P → String) (k : FullCall) (fs : Fs) (hm : k.mode ≠ "o")
    (hex : (fsGet fs (name (targetOf k.path k.store))).isSome = true) : applyFull name fs k = fs := by
  obtain ⟨e, he⟩ := front_write_once k.path k.mode k.store k.level (fun p => (fsGet fs (name p)).isSome) hm hex
  exact (saveFull_eq name k fs).1 e he

/-- **the main statement for a complete call**: afterwards the resolved target is what it was,
absent, or the complete new object; and no staging path is left -/
theorem saveFull_no_partial (name : P → String) (k : FullCall) (fs : Fs) (hu : Uniq fs)
    (hne : name (targetOf k.path k.store) ≠ k.staged) :
    let T := name (targetOf k.path k.store)
    (fsGet (applyFull name fs k) T = fsGet fs T ∨ fsGet (applyFull name fs k) T = .none ∨
      fsGet (applyFull name fs k) T = some (.complete k.id)) ∧
    (fsGet fs k.staged = .none → fsGet (applyFull name fs k) k.staged = .none) := by
  intro T
  cases hf : front k.path k.mode k.store k.level (fun p => (fsGet fs (name p)).isSome) with
  | error e =>
    rw [(saveFull_eq name k fs).1 e hf]
    exact ⟨Or.inl rfl, fun h => h⟩
  | ok r =>
    rw [(saveFull_eq name k fs).2 r hf]
    obtain ⟨_, _, _, hr⟩ := (front_ok_iff _ _ _ _ _ r).1 hf
    subst hr
    refine ⟨?_, fun _ => ?_⟩
    · exact (no_partial { target := T, staged := k.staged, id := k.id } hne fs hu _ k.nTmp k.nWrites k.fault).1
    · exact staged_gone { target := T, staged := k.staged, id := k.id } fs hu _ _ _ _ _

/-! ### `_install()` / `_discard()` against every KIND of directory entry -/
section kinds
open QuantemModel.SaveInstall

/-- **`_install()` never fails on what it finds at the target and never follows a link**: whatever
is at the target — nothing, a file, an empty or non-empty directory, a symbolic link to a
directory / to a file / to nothing — and whether the staged object is a file (zip) or a
directory, afterwards the target IS the staged object and the staging path is gone -/
theorem install_total (s : Kind) (path : Ent) (hs : islink (some s) = false) :
    install (some s) path = .ok (.none, some s) := by
  cases s with
  | file => rcases path with _ | (_ | e | ⟨d, g⟩) <;> first | rfl | (cases e <;> rfl) | (cases d <;> cases g <;> rfl)
  | dir e0 => rcases path with _ | (_ | e | ⟨d, g⟩) <;> first | rfl | (cases e <;> rfl) | (cases d <;> cases g <;> rfl)
  | link d g => simp [islink] at hs

/-- **`_discard()` removes whatever staging left**: nothing, a file (zip store), a directory
(empty or not) — afterwards the staging path is absent and no exception escapes -/
theorem discard_total (staged : Ent) (hs : islink staged = false) : SaveInstall.discard staged = .ok .none := by
  rcases staged with _ | (_ | e | ⟨d, g⟩)
  · rfl
  · rfl
  · cases e <;> rfl
  · simp [islink] at hs

/-- **the write-once guard refuses every kind of existing entry** (also a dangling link) -/
theorem guard_refuses_every_kind (k : Kind) : guardRefuses (some k) false = true := by
  cases k <;> rfl

/-- what the guard was before repo 1abdf99 (`os.path.exists`): a dangling link slipped through -/
theorem guard_exists_dangling_counterexample (d : Bool) :
    (pexists (some (.link d true)) && !false) = false := by
  cases d <;> rfl

/-- a clean-up that is only `shutil.rmtree(staged, ignore_errors=True)` leaves a staged FILE
(the zip store's staging archive) where it is -/
theorem discard_rmtree_only_counterexample : discardRmtreeOnly (some .file) = some .file := rfl

/-- an `_install()` without the `not islink` test fails on a link to a directory -/
theorem install_no_link_test_counterexample :
    installNoLinkTest (some .file) (some (.link true false)) = .error "OSError" := rfl

example : install (some (.dir false)) (some (.link true false)) = .ok (.none, some (.dir false)) := rfl
example : install (some .file) (some (.dir false)) = .ok (.none, some .file) := rfl
example : SaveInstall.discard (some (.dir true)) = .ok .none := rfl
end kinds

/-! ### non-vacuity -/
private def c0 : Cfg := { target := "out.zip", staged := "out.zip.tmp-1", id := 7 }
private def fs0 : Fs := [("sibling", .foreign 1), ("out.zip", .complete 3)]
example : Uniq fs0 := by simp [Uniq, fs0, fsGet]
example : (run c0 fs0 (steps true 3 4 true) (some 5)).1 = fs0 := by decide
example : (run c0 fs0 (steps true 3 4 true) (some 10)).1 = [("sibling", .foreign 1)] := by decide
example : (run c0 fs0 (steps true 3 4 true) .none).1 = [("sibling", .foreign 1), ("out.zip", .complete 7)] := by decide

/-- a history on one target: a save that fails while staging, a save that succeeds, an
overwriting save that fails at the install step (after the old object was removed), a
write-once save that is refused -/
private def mkCall (id : Nat) (modeO : Bool) (fault : Option Nat) : Call :=
  { cfg := { target := "out.zip", staged := "out.zip.tmp-" ++ toString id, id := id }, modeO := modeO,
    levelOk := true, dirHasExt := false, zip := true, nTmp := 2, nWrites := 3, fault := fault }
private def hist : List Call := [mkCall 1 true (some 4), mkCall 2 false .none, mkCall 3 true (some 8), mkCall 4 false .none]
example : runCalls [("sibling", .foreign 1)] (hist.take 1) = [("sibling", .foreign 1)] := by decide
example : runCalls [("sibling", .foreign 1)] (hist.take 2) = [("sibling", .foreign 1), ("out.zip", .complete 2)] := by decide
example : runCalls [("sibling", .foreign 1)] (hist.take 3) = [("sibling", .foreign 1)] := by decide
example : runCalls [("sibling", .foreign 1)] hist = [("sibling", .foreign 1), ("out.zip", .complete 4)] := by decide
example : succeededIds [("sibling", .foreign 1)] hist = [2, 4] := by decide
example : ∀ k ∈ hist, k.cfg.target = "out.zip" ∧ k.cfg.staged ≠ "out.zip" := by decide


/-! non-vacuity of the front-end theorems, the no-leftover theorems and the multi-target histories -/
private def pObj : P := ['o', 'b', 'j']
private def pObjZip : P := ['o', 'b', 'j', '.', 'z', 'i', 'p']
private def pAB : P := ['d', '.', 'x', '/', 'a', '.', 'b']
example : front pObj "w" "zip" (some 4) (fun _ => false) = .ok { target := pObjZip, zip := true } := by decide
example : front pObj "x" "zip" (some 4) (fun p => p == pObjZip) = .error .exists_ := by decide
example : front pObjZip "o" "auto" .none (fun _ => true) = .ok { target := pObjZip, zip := true } := by decide
example : front pAB "o" "dir" .none (fun _ => true) = .error .dirExt := by decide
example : front pAB "w" "dir" .none (fun _ => true) = .error .exists_ := by decide
example : front pObj "o" "hdf5" (some 9) (fun _ => false) = .error .store := by decide
example : front pObj "w" "hdf5" (some 10) (fun _ => true) = .error .level := by decide
example : front pObj "o" "dir" (some (-1)) (fun _ => false) = .error .level := by decide
example : hasExt ['.', 'h', 'i', 'd'] = false ∧ hasExt ['o', '.'] = true ∧ hasExt ['q', '.', 'x', '/', 'o'] = false ∧
    hasExt ['.', '.'] = false ∧ hasExt ['.', 'h', '.', 'z'] = true := by decide
example : targetOf pObj "zip" ≠ pObj ∧ targetOf pObj "auto" = pObj ∧ targetOf pObjZip "zip" = pObjZip := by decide
private def nm (p : P) : String := if p = pObj then "obj" else if p = pObjZip then "obj.zip" else "?"
private def kFull (fault : Option Nat) : FullCall :=
  { path := pObj, mode := "w", store := "zip", level := some 4, id := 7, staged := "S", nTmp := 2, nWrites := 3, fault := fault }
/-- `save("obj", store="zip")` next to a directory `obj`, fault in the zip assembly: nothing changes, nothing is left -/
example : applyFull nm [("obj", .complete 3)] (kFull (some 6)) = [("obj", .complete 3)] := by decide
example : applyFull nm [("obj", .complete 3)] (kFull .none) = [("obj", .complete 3), ("obj.zip", .complete 7)] := by decide
example : applyFull nm [("obj.zip", .foreign 4)] (kFull .none) = [("obj.zip", .foreign 4)] := by decide
example : (run c0 fs0 (steps true 3 4 true) (some 9)).1 = fs0 := by decide      -- fault at removeOld: staging file discarded
/-- a history onto two targets with a rejected call (bad level) and faults: the path "S2" (a staging path only) stays absent -/
private def mkCall2 (t : String) (id : Nat) (modeO levelOk : Bool) (fault : Option Nat) : Call :=
  { cfg := { target := t, staged := "S" ++ toString id, id := id }, modeO := modeO, levelOk := levelOk,
    dirHasExt := false, zip := false, nTmp := 0, nWrites := 2, fault := fault }
private def hist2 : List Call := [mkCall2 "a" 1 false true .none, mkCall2 "b" 2 true true (some 2), mkCall2 "a" 3 true false .none,
  mkCall2 "a" 4 true true (some 4), mkCall2 "b" 5 false true .none]
example : runCalls [("sibling", .foreign 1)] hist2 = [("sibling", .foreign 1), ("a", .complete 1), ("b", .complete 5)] := by decide
example : ∀ k ∈ hist2, "S2" ≠ k.cfg.target := by decide

end QuantemModel.Props.C08
