import QuantemModel.Props.C19Ext
/-!
C19, growth round 6 (second part): the refinement of `Props/C19Ext.lean` with `update_defaults`
in the histories.  The spec state is a pair of simple maps — the configuration `m` and the
accumulated defaults `D`; `update_defaults` writes a key of `m` when it is absent or still
holds the registered default (Python `==`), overlays `D`; `refresh` installs `D`.  Histories of
ANY length (every layer of defaults, in any '-'/'_' spelling) refine to it, and no call raises.
-/
namespace QuantemModel.Props.C19
open QuantemModel.Config

/-- what `update_defaults` does to one mentioned key, on the simple maps -/
def udItem (D m : SMap) (k : Key) (v : Tree) : SMap :=
  match m k with
  | .none => m.put k v
  | some oldv =>
      match D k with
      | some dv => if pyEq dv oldv then m.put k v else m
      | .none => m

structure SState where
  m : SMap
  D : SMap

inductive DOp where
  | set (items : List (Key × Tree))
  | withBlock (items : List (Key × Tree))
  | refresh
  | updateDefaults (new : List (Key × Atom))

def leafItems (new : List (Key × Atom)) : List (Key × Tree) := new.map (fun ka => (ka.1, Tree.leaf ka.2))

def DOp.toHOp : DOp → HOp
  | .set items => .set items
  | .withBlock items => .withBlock items
  | .refresh => .refresh
  | .updateDefaults new => .updateDefaults (leafItems new)

def dstep (x : SState) : DOp → SState
  | .set items => { x with m := sset x.m items }
  | .withBlock _ => x
  | .refresh => { x with m := x.D }
  | .updateDefaults new =>
      { m := new.foldl (fun m ka => udItem x.D m ka.1 (.leaf ka.2)) x.m,
        D := new.foldl (fun D ka => SMap.put D ka.1 (.leaf ka.2)) x.D }

def drun (x : SState) (ops : List DOp) : SState := ops.foldl dstep x

/-- a top-level scalar default: not the validated key `device`, '-' and '_' not mixed -/
def FlatKey (k : Key) : Prop := k ≠ "device".toList ∧ Uniform k

def DOpOK : DOp → Prop
  | .set items => ∀ kv ∈ items, FlatItem kv
  | .withBlock items => ∀ kv ∈ items, FlatItem kv
  | .refresh => True
  | .updateDefaults new => ∀ ka ∈ new, FlatKey ka.1

theorem absm_congr (d : Dict) (a b : Key) (h : nkey a = nkey b) : absm d a = absm d b := by
  unfold absm; rw [h]

theorem nkey_canonicalName (k : Key) (d : Dict) : nkey (canonicalName k d) = nkey k := by
  rcases canonicalName_mem k d with e | e
  · rw [e]
  · rw [e]; exact nkey_altKey k

theorem uniform_canonicalName (k : Key) (d : Dict) (hu : Uniform k) : Uniform (canonicalName k d) := by
  rcases canonicalName_mem k d with e | e
  · rw [e]; exact hu
  · rw [e]; exact uniform_altKey k

theorem checkKeyVal_flat (env : Env) (k : Key) (v : Tree) (h : k ≠ "device".toList) : checkKeyVal env k v = .ok v := by
  have hd' : ¬ (k = ['d', 'e', 'v', 'i', 'c', 'e']) := by simpa using h
  simp [checkKeyVal, hd']

/-- the leaf branch of `update` with priority `new-defaults`, on the maps -/
theorem updateLeaf_newDefaults_flat (cfg cur : Dict) (k0 : Key) (v : Tree)
    (hw : WellKeyed (.node cfg)) (hc : WellKeyed (.node cur)) (hu : Uniform k0) (hv : WellKeyed v) :
    ∃ cfg', updateLeaf .newDefaults cfg (some (.node cur)) (canonicalName k0 cfg)
        (defaultsKey (some (.node cur)) (canonicalName k0 cfg)) v = .ok cfg' ∧
      WellKeyed (.node cfg') ∧ absm cfg' = udItem (absm cur) (absm cfg) k0 v := by
  have hk := uniform_canonicalName k0 cfg hu
  have hnk := nkey_canonicalName k0 cfg
  have hread : dget cfg (canonicalName k0 cfg) = absm cfg k0 := read_any_spelling cfg k0 hw hu
  have hdk : dget cur (defaultsKey (some (.node cur)) (canonicalName k0 cfg)) = absm cur k0 := by
    cases cur with
    | nil => simp [absm, dget]
    | cons hd tl =>
      simp only [defaultsKey, List.isEmpty_cons, Bool.false_eq_true, if_false]
      rw [read_any_spelling _ _ hc hk]
      exact absm_congr _ _ _ hnk
  have hput : absm (dset cfg (canonicalName k0 cfg) v) = SMap.put (absm cfg) k0 v := absm_dset cfg k0 v hw hu
  have hwd := wellKeyed_dset cfg k0 v hw hu hv
  unfold updateLeaf udItem
  rw [hread]
  cases hm : absm cfg k0 with
  | none => exact ⟨_, rfl, hwd, hput⟩
  | some oldv =>
    simp only [defaultMatches, hdk]
    cases hD : absm cur k0 with
    | none => exact ⟨cfg, by simp [bind, Except.bind], hw, rfl⟩
    | some dv =>
      by_cases hp : pyEq dv oldv = true
      · exact ⟨_, by simp [bind, Except.bind, hp], hwd, by simp [hp, hput]⟩
      · exact ⟨cfg, by simp [bind, Except.bind, hp], hw, by simp [hp]⟩

/-- `update(config, new, priority="new-defaults", defaults=current)` over a mapping of top-level
scalars: never raises, keeps the level well keyed, and is the item-by-item `udItem` on the maps -/
theorem updateP_newDefaults_flat (env : Env) (cur : Dict) (hc : WellKeyed (.node cur)) (new : List (Key × Atom)) :
    ∀ (cfg : Dict), WellKeyed (.node cfg) → (∀ ka ∈ new, FlatKey ka.1) →
      ∃ cfg', updateP env .newDefaults false cfg (some (.node cur)) (leafItems new) = (cfg', .none) ∧
        WellKeyed (.node cfg') ∧
        absm cfg' = new.foldl (fun m ka => udItem (absm cur) m ka.1 (.leaf ka.2)) (absm cfg) := by
  induction new with
  | nil => intro cfg hw _; exact ⟨cfg, by simp [leafItems, updateP], hw, rfl⟩
  | cons ka rest ih =>
    intro cfg hw hall
    obtain ⟨k0, a⟩ := ka
    have hk := hall (k0, a) (by simp)
    obtain ⟨cfg1, h1, hw1, ha1⟩ := updateLeaf_newDefaults_flat cfg cur k0 (.leaf a) hw hc hk.2 (.leaf a)
    obtain ⟨cfg', h2, hw2, ha2⟩ := ih cfg1 hw1 (fun ka' h' => hall ka' (by simp [h']))
    refine ⟨cfg', ?_, hw2, ?_⟩
    · simp only [leafItems, List.map_cons]
      rw [updateP]
      simp only [Bool.false_eq_true, if_false, checkKeyVal_flat env k0 _ hk.1, h1]
      exact h2
    · rw [ha2, ha1]; rfl

/-- the same for priority `new` without defaults (what `refresh` replays): plain overwrite -/
theorem updateP_new_flat (env : Env) (new : List (Key × Atom)) :
    ∀ (cur : Dict), WellKeyed (.node cur) → (∀ ka ∈ new, FlatKey ka.1) →
      ∃ cur', updateP env .new false cur .none (leafItems new) = (cur', .none) ∧
        WellKeyed (.node cur') ∧
        absm cur' = new.foldl (fun D ka => SMap.put D ka.1 (.leaf ka.2)) (absm cur) := by
  induction new with
  | nil => intro cur hw _; exact ⟨cur, by simp [leafItems, updateP], hw, rfl⟩
  | cons ka rest ih =>
    intro cur hw hall
    obtain ⟨k0, a⟩ := ka
    have hk := hall (k0, a) (by simp)
    have h1 : updateLeaf .new cur .none (canonicalName k0 cur) (defaultsKey .none (canonicalName k0 cur)) (.leaf a) =
        .ok (dset cur (canonicalName k0 cur) (.leaf a)) := by
      unfold updateLeaf
      split <;> simp
    have hw1 := wellKeyed_dset cur k0 (.leaf a) hw hk.2 (.leaf a)
    obtain ⟨cur', h2, hw2, ha2⟩ := ih _ hw1 (fun ka' h' => hall ka' (by simp [h']))
    refine ⟨cur', ?_, hw2, ?_⟩
    · simp only [leafItems, List.map_cons]
      rw [updateP]
      simp only [Bool.false_eq_true, if_false, checkKeyVal_flat env k0 _ hk.1, h1]
      exact h2
    · rw [ha2, absm_dset cur k0 (.leaf a) hw hk.2]; rfl

theorem normaliseTop_flat (env : Env) (new : List (Key × Atom)) (h : ∀ ka ∈ new, FlatKey ka.1) :
    normaliseTop env (leafItems new) = .ok (leafItems new) := by
  induction new with
  | nil => rfl
  | cons ka rest ih =>
    have hk := h ka (by simp)
    simp only [leafItems, List.map_cons, normaliseTop, checkKeyVal_flat env ka.1 _ hk.1, bind, Except.bind]
    have := ih (fun ka' h' => h ka' (by simp [h']))
    simp only [leafItems] at this
    rw [this]

theorem refreshP_go_append (env : Env) (d : Dict) : ∀ (ds : List Dict) (cfg c c' : Dict),
    refreshP.go env cfg ds = (c, .none) → updateP env .new false c .none d = (c', .none) →
    refreshP.go env cfg (ds ++ [d]) = (c', .none) := by
  intro ds
  induction ds with
  | nil =>
    intro cfg c c' h1 h2
    simp [refreshP.go] at h1
    subst h1
    simp [refreshP.go, h2]
  | cons d0 rest ih =>
    intro cfg c c' h1 h2
    rw [refreshP.go] at h1
    rw [List.cons_append, refreshP.go]
    split at h1
    · rename_i c1 hc1
      exact ih _ _ _ h1 h2
    · simp at h1

theorem ukeys_leafItems (new : List (Key × Atom)) (h : ∀ ka ∈ new, FlatKey ka.1) : UKeys (.node (leafItems new)) := by
  refine .node _ ?_ ?_
  · intro k t hm
    obtain ⟨ka, hka, he⟩ := List.mem_map.mp hm
    cases he
    exact (h ka hka).2
  · intro k t hm
    obtain ⟨ka, hka, he⟩ := List.mem_map.mp hm
    cases he
    exact .leaf _

/-- the abstraction relation: state well keyed, replaying the defaults does not raise, and the
two maps are what `absm` reads from the configuration and from the replayed defaults -/
def Abs (env : Env) (s : State) (x : SState) : Prop :=
  StateOK s ∧ (refreshP.go env [] s.defaults).2 = .none ∧ absm s.config = x.m ∧
    absm (refreshCfg env s.defaults) = x.D

theorem refreshCfg_eq (env : Env) (defs : List Dict) : refreshCfg env defs = (refreshP.go env [] defs).1 := rfl

/-- **one call = one step of the map spec, and it does not raise** -/
theorem dstep_refines (env : Env) (s : State) (x : SState) (op : DOp) (h : Abs env s x) (hop : DOpOK op) :
    Abs env (hstep env s op.toHOp) (dstep x op) ∧ hstepErr env s op.toHOp = .none := by
  obtain ⟨hs, hR, hm, hD⟩ := h
  cases op with
  | set items =>
    have h1 := flat_step_refines env s (.set items) hs hop
    have hs' : StateOK (hstep env s (HOp.set items)) := by
      simpa [hrun] using wellKeyed_history env [HOp.set items] s hs (by
        intro o ho; simp at ho; subst ho; exact flatOK_opOK (.set items) hop)
    refine ⟨⟨hs', hR, ?_, hD⟩, (flat_op_never_raises env s items hop).1⟩
    show absm _ = sset x.m items
    rw [← hm]; exact h1.2
  | withBlock items =>
    have hn := withBlock_noop env s items (flat_op_never_raises env s items hop).2
    refine ⟨?_, (flat_op_never_raises env s items hop).2⟩
    rw [show (DOp.withBlock items).toHOp = HOp.withBlock items from rfl, hn]
    exact ⟨hs, hR, hm, hD⟩
  | refresh =>
    refine ⟨⟨stateOK_refreshP env s hs, hR, hD, hD⟩, ?_⟩
    exact hR
  | updateDefaults new =>
    have hcur : WellKeyed (.node (refreshCfg env s.defaults)) :=
      wellKeyed_refreshP_go env s.defaults [] wellKeyed_nil hs.2
    have hgo : refreshP.go env [] s.defaults = (refreshCfg env s.defaults, .none) := by
      rw [refreshCfg_eq]
      exact Prod.ext rfl hR
    have hmerge : merge env s.defaults = .ok (refreshCfg env s.defaults) := refreshP_go_ok env _ _ _ hgo
    obtain ⟨cfg', h1, hw1, ha1⟩ := updateP_newDefaults_flat env _ hcur new s.config hs.1 hop
    obtain ⟨cur', h2, hw2, ha2⟩ := updateP_new_flat env new _ hcur hop
    have hgo' := refreshP_go_append env (leafItems new) s.defaults [] _ _ hgo h2
    have hstepEq : updateDefaultsP env s (leafItems new) =
        ({ config := cfg', defaults := s.defaults ++ [leafItems new] }, .none) := by
      unfold updateDefaultsP
      simp only [normaliseTop_flat env new hop, hmerge, h1]
    have hOK := stateOK_updateDefaultsP env s (leafItems new) hs (ukeys_leafItems new hop)
    simp only [DOp.toHOp, hstep, hstepErr, hstepEq] at hOK ⊢
    refine ⟨⟨hOK, ?_, ?_, ?_⟩, trivial⟩
    · rw [hgo']
    · rw [ha1, hD, hm]; rfl
    · rw [refreshCfg_eq, hgo', ha2, hD]; rfl

/-- **refinement with `update_defaults`.**  Every history — of any length — of top-level `set`
calls, `with` blocks, `refresh` and `update_defaults` calls registering top-level scalar defaults
(any '-'/'_' spelling), from any related pair of states, stays related to the run of the simple
two-map spec; in particular after the history the configuration IS the spec's map, and a
`refresh` installs the spec's accumulated-defaults map, layer count notwithstanding. -/
theorem flat_history_refines_defaults (env : Env) (ops : List DOp) :
    ∀ (s : State) (x : SState), Abs env s x → (∀ op ∈ ops, DOpOK op) →
      Abs env (hrun env s (ops.map DOp.toHOp)) (drun x ops) := by
  induction ops with
  | nil => intro s x h _; exact h
  | cons op rest ih =>
    intro s x h hall
    simp only [List.map_cons, hrun, List.foldl_cons, drun]
    exact ih _ _ (dstep_refines env s x op h (hall op (by simp))).1 (fun o ho => hall o (by simp [ho]))

/-- **no call of such a history raises** -/
theorem flat_history_never_raises (env : Env) (pre : List DOp) (op : DOp) (s : State) (x : SState)
    (h : Abs env s x) (hpre : ∀ o ∈ pre, DOpOK o) (hop : DOpOK op) :
    hstepErr env (hrun env s (pre.map DOp.toHOp)) op.toHOp = .none :=
  (dstep_refines env _ _ op (flat_history_refines_defaults env pre s x h hpre) hop).2

/-- the start of a process: an empty store is related to the empty maps -/
theorem abs_empty (env : Env) : Abs env { config := [], defaults := [] } { m := fun _ => .none, D := fun _ => .none } :=
  ⟨⟨wellKeyed_nil, by simp⟩, rfl, rfl, rfl⟩

/-- **reads**: in related states `get` of a top-level key under EITHER spelling returns the
entry of the spec's configuration map (KeyError when there is none) -/
theorem abs_get (env : Env) (s : State) (x : SState) (h : Abs env s x) (k : Key) (hu : Uniform k) :
    Config.get s.config [k] = (match x.m k with
      | .none => .error .keyError
      | some t => .ok t) := by
  rw [get_top, read_any_spelling _ k h.1.1 hu, h.2.2.1]
  generalize x.m k = o
  cases o <;> rfl

/-- every default a history registers, in registration order -/
def defaultItems : List DOp → List (Key × Atom)
  | [] => []
  | .updateDefaults new :: rest => new ++ defaultItems rest
  | .set _ :: rest => defaultItems rest
  | .withBlock _ :: rest => defaultItems rest
  | .refresh :: rest => defaultItems rest

/-- **the accumulated defaults of the spec are ALL registered items, overlaid in order** — however
many layers were registered and whatever else happened in between; nothing is dropped or folded -/
theorem spec_defaults_accumulate (ops : List DOp) : ∀ (x : SState),
    (drun x ops).D = (defaultItems ops).foldl (fun D ka => SMap.put D ka.1 (.leaf ka.2)) x.D := by
  induction ops with
  | nil => intro x; rfl
  | cons op rest ih =>
    intro x
    simp only [drun, List.foldl_cons] at ih ⊢
    rw [ih]
    cases op <;> simp [dstep, defaultItems, List.foldl_append]

/-- **refresh restores exactly the accumulated defaults**, end to end: after ANY such history a
`refresh` does not raise, and `get` of a top-level key under either spelling returns the value
of the LAST registered default for that key (or the start state's default map entry; KeyError
if there is none) — whatever was `set` in between -/
theorem refresh_restores_accumulated (env : Env) (ops : List DOp) (s : State) (x : SState)
    (h : Abs env s x) (hops : ∀ op ∈ ops, DOpOK op) (k : Key) (hu : Uniform k) :
    hstepErr env (hrun env s (ops.map DOp.toHOp)) .refresh = .none ∧
    Config.get (hrun env s ((ops ++ [DOp.refresh]).map DOp.toHOp)).config [k] =
      (match (defaultItems ops).foldl (fun D ka => SMap.put D ka.1 (.leaf ka.2)) x.D k with
       | .none => .error .keyError
       | some t => .ok t) := by
  refine ⟨flat_history_never_raises env ops .refresh s x h hops trivial, ?_⟩
  have hall : ∀ op ∈ ops ++ [DOp.refresh], DOpOK op := by
    intro op hop
    rcases List.mem_append.mp hop with h1 | h1
    · exact hops op h1
    · simp at h1; subst h1; trivial
  rw [abs_get env _ _ (flat_history_refines_defaults env _ s x h hall) k hu]
  have : (drun x (ops ++ [DOp.refresh])).m = (drun x ops).D := by
    simp [drun, List.foldl_append, dstep]
  rw [this, spec_defaults_accumulate]

/-! ### non-vacuity -/
private def yab : Key := ['a', '_', 'b']
private def yab' : Key := ['a', '-', 'b']
private def yenv : Env := { cuda := false, mps := false, numDevices := 0 }

example : FlatKey yab ∧ FlatKey yab' := ⟨⟨by decide, by unfold Uniform; decide⟩, ⟨by decide, by unfold Uniform; decide⟩⟩
/-- register a default, the user overrides it under the other spelling, a new default is registered
(kept out of the configuration, installed by refresh) -/
example :
    let ops := [DOp.updateDefaults [(yab, .int 1)], .updateDefaults [(yab', .int 2)], .set [(yab', .leaf (.int 7))],
                .updateDefaults [(yab, .int 3)]]
    (drun { m := fun _ => .none, D := fun _ => .none } ops).m yab = some (.leaf (.int 7)) ∧
    (drun { m := fun _ => .none, D := fun _ => .none } ops).D yab' = some (.leaf (.int 3)) ∧
    (drun { m := fun _ => .none, D := fun _ => .none } (ops.take 2)).m yab' = some (.leaf (.int 2)) ∧
    (drun { m := fun _ => .none, D := fun _ => .none } (ops ++ [DOp.refresh])).m yab' = some (.leaf (.int 3)) :=
  ⟨rfl, rfl, rfl, rfl⟩
/-- the operations of that history meet the hypotheses of the refinement theorem -/
example : DOpOK (.updateDefaults [(yab, .int 1), (yab', .int 2)]) ∧ DOpOK (.set [(yab', .leaf (.int 7))]) ∧ DOpOK .refresh := by
  have fk : FlatKey yab ∧ FlatKey yab' :=
    ⟨⟨by decide, by unfold Uniform; decide⟩, ⟨by decide, by unfold Uniform; decide⟩⟩
  refine ⟨?_, ?_, trivial⟩
  · intro ka hka
    simp at hka
    rcases hka with rfl | rfl
    · exact fk.1
    · exact fk.2
  · intro kv hkv
    simp at hkv
    subst hkv
    exact ⟨by decide, by decide, by unfold Uniform; decide, .leaf _⟩

/-- thirteen layers of defaults for one key, a user value in between: the accumulated map holds the last layer -/
example :
    let layers := (List.range 13).map (fun (i : Nat) => DOp.updateDefaults [(if i % 2 = 0 then yab else yab', .int (i : Int))])
    let ops := layers.take 6 ++ [DOp.set [(yab', .leaf (.str "user"))]] ++ layers.drop 6
    (defaultItems ops).length = 13 ∧
    (defaultItems ops).foldl (fun D ka => SMap.put D ka.1 (.leaf ka.2)) (fun _ => .none) yab' = some (.leaf (.int 12)) ∧
    (drun { m := fun _ => .none, D := fun _ => .none } ops).m yab = some (.leaf (.str "user")) := ⟨rfl, rfl, rfl⟩

end QuantemModel.Props.C19
