import QuantemModel.Props.C19
/-!
C19, growth round 6: **refinement of whole histories to a simple map spec.**

The specification is the simplest thing the property text can mean: a finite map from key
*normal forms* (every '-' spelled '_', `nkey`) to values, `set` = overwrite entry by entry,
a `with` block = nothing, `refresh` = the map of the accumulated defaults.  The abstraction
function reads the model's nested association list through `canonical_name` under the normal
form (`absm`).  `flat_history_refines` says that EVERY history of top-level `set` calls (any
number of items, any '-'/'_' spelling, scalar or nested-mapping values), `with` blocks and
`refresh` calls, from any well-keyed state, is mapped by `absm` onto the run of that simple
map; `read_any_spelling` / `flat_history_get` carry the statement to `get` under every spelling.
-/
namespace QuantemModel.Props.C19
open QuantemModel.Config

/-- the normal form of a key: every '-' spelled '_' -/
def nkey (k : Key) : Key := k.map swapSU

theorem swapSU_swapUS (c : Char) : swapSU (swapUS c) = swapSU c := by
  by_cases h : c = '_'
  · subst h; decide
  · simp [swapUS, h]

theorem swapSU_idem (c : Char) : swapSU (swapSU c) = swapSU c := by
  by_cases h : c = '-'
  · subst h; decide
  · simp [swapSU, h]

/-- both spellings of a key have the same normal form -/
theorem nkey_altKey (k : Key) : nkey (altKey k) = nkey k := by
  unfold nkey altKey
  split
  · rw [List.map_map]; apply List.map_congr_left; intro c _; exact swapSU_swapUS c
  · rw [List.map_map]; apply List.map_congr_left; intro c _; exact swapSU_idem c

theorem nkey_nkey (k : Key) : nkey (nkey k) = nkey k := by
  unfold nkey
  rw [List.map_map]; apply List.map_congr_left; intro c _; exact swapSU_idem c

theorem uniform_nkey (k : Key) : Uniform (nkey k) := by
  unfold Uniform nkey
  intro h
  obtain ⟨c, _, hc⟩ := List.mem_map.mp h.2
  exact swapSU_ne c hc

/-- **keys with one normal form are the two spellings of one key** (for keys that do not mix
'-' and '_'): the map spec identifies exactly what `canonical_name` identifies -/
theorem nkey_eq_cases (k k' : Key) (hk : Uniform k) (hk' : Uniform k') (h : nkey k = nkey k') :
    k' = k ∨ k' = altKey k := by
  by_cases hd : '-' ∈ k
  · have hu : '_' ∉ k := fun hu => hk ⟨hu, hd⟩
    by_cases hd' : '-' ∈ k'
    · have hu' : '_' ∉ k' := fun hu' => hk' ⟨hu', hd'⟩
      left
      have := congrArg (List.map swapUS) h
      simp only [nkey] at this
      rw [map_swapUS_swapSU k hu, map_swapUS_swapSU k' hu'] at this
      exact this.symm
    · right
      have e' : nkey k' = k' := map_swapSU_id k' hd'
      have : altKey k = nkey k := by simp [altKey, hu, nkey]
      rw [this, h, e']
  · have e : nkey k = k := map_swapSU_id k hd
    by_cases hd' : '-' ∈ k'
    · have hu' : '_' ∉ k' := fun hu' => hk' ⟨hu', hd'⟩
      right
      have hk_eq : k = k'.map swapSU := by rw [← e]; exact h
      have hmem : '_' ∈ k := by rw [hk_eq]; exact mem_map_swapSU k' hd'
      have : altKey k = k.map swapUS := by simp [altKey, hmem]
      rw [this, hk_eq, map_swapUS_swapSU k' hu']
    · left
      have e' : nkey k' = k' := map_swapSU_id k' hd'
      rw [← e', ← h, e]

/-- the abstraction function: the entry of a dictionary level under a key, whatever the
spelling it is stored or asked under -/
def absm (d : Dict) : Key → Option Tree := fun n => dget d (canonicalName (nkey n) d)

theorem dget_canonicalName_alt (k : Key) (d : Dict) (hu : Uniform k) (htf : TwinFree d) :
    dget d (canonicalName (altKey k) d) = dget d (canonicalName k d) := by
  have hinv := altKey_involutive k hu
  by_cases he : altKey k = k
  · rw [he]
  · by_cases h1 : dhas d k = true
    · have hna : dhas d (altKey k) = false := htf k h1 he
      have c1 : canonicalName k d = k := by simp [canonicalName, h1]
      have c2 : canonicalName (altKey k) d = k := by simp [canonicalName, hna, hinv, h1]
      rw [c1, c2]
    · by_cases h2 : dhas d (altKey k) = true
      · have c1 : canonicalName k d = altKey k := by simp [canonicalName, h1, h2]
        have c2 : canonicalName (altKey k) d = altKey k := by simp [canonicalName, h2]
        rw [c1, c2]
      · have c1 : canonicalName k d = k := by simp [canonicalName, h1, h2]
        have c2 : canonicalName (altKey k) d = altKey k := by simp [canonicalName, h2, hinv, h1]
        rw [c1, c2]
        have n1 : dget d k = none := by simpa [dhas] using h1
        have n2 : dget d (altKey k) = none := by simpa [dhas] using h2
        rw [n1, n2]

/-- **'-' and '_' spellings are one entry**: in a well-keyed level a key read under any
spelling is the entry the map spec holds under its normal form -/
theorem read_any_spelling (d : Dict) (k : Key) (hw : WellKeyed (.node d)) (hu : Uniform k) :
    dget d (canonicalName k d) = absm d k := by
  cases hw with
  | node _ hU htf hsub =>
    unfold absm
    by_cases hd : '-' ∈ k
    · have hus : '_' ∉ k := fun h => hu ⟨h, hd⟩
      have : nkey k = altKey k := by simp [altKey, hus, nkey]
      rw [this, dget_canonicalName_alt k d hu htf]
    · rw [show nkey k = k from map_swapSU_id k hd]

/-- one write under `canonical_name` is one overwrite of the map entry -/
theorem absm_dset (d : Dict) (k : Key) (v : Tree) (hw : WellKeyed (.node d)) (hu : Uniform k) :
    absm (dset d (canonicalName k d) v) = fun n => if nkey n = nkey k then some v else absm d n := by
  cases hw with
  | node _ hU htf hsub =>
    funext n
    unfold absm
    have hun := uniform_nkey n
    by_cases hn : nkey n = nkey k
    · rw [if_pos hn]
      rcases nkey_eq_cases k (nkey n) hu hun (by rw [nkey_nkey]; exact hn.symm) with e | e
      · rw [e, canonicalName_dset, dget_dset_same]
      · rw [e, canonicalName_alt_dset k d v hu htf, dget_dset_same]
    · rw [if_neg hn]
      have hck : nkey (canonicalName k d) = nkey k := by
        rcases canonicalName_mem k d with e | e
        · rw [e]
        · rw [e]; exact nkey_altKey k
      have h1 : canonicalName k d ≠ nkey n := fun h => hn (by
        have := congrArg nkey h
        rw [hck, nkey_nkey] at this
        exact this.symm)
      have h2 : canonicalName k d ≠ altKey (nkey n) := fun h => hn (by
        have := congrArg nkey h
        rw [hck, nkey_altKey, nkey_nkey] at this
        exact this.symm)
      rw [canonicalName_dset_other _ _ _ _ h1 h2]
      apply dget_dset_other
      rcases canonicalName_mem (nkey n) d with e | e <;> rw [e]
      · exact Ne.symm h1
      · exact Ne.symm h2

/-! ### the simple map spec -/

abbrev SMap := Key → Option Tree

/-- `m[k] = v` on the map of normal forms -/
def SMap.put (m : SMap) (k : Key) (v : Tree) : SMap := fun n => if nkey n = nkey k then some v else m n

/-- a `set` call: its items in order -/
def sset (m : SMap) (items : List (Key × Tree)) : SMap := items.foldl (fun m kv => m.put kv.1 kv.2) m

/-- the operations of a flat history -/
inductive FOp where
  | set (items : List (Key × Tree))
  | withBlock (items : List (Key × Tree))
  | refresh

def FOp.toHOp : FOp → HOp
  | .set items => .set items
  | .withBlock items => .withBlock items
  | .refresh => .refresh

/-- the spec: `set` overwrites, a `with … : pass` block does nothing, `refresh` installs the map
`D` of the accumulated defaults -/
def sstep (D : SMap) (m : SMap) : FOp → SMap
  | .set items => sset m items
  | .withBlock _ => m
  | .refresh => D

def srun (D : SMap) (m : SMap) (ops : List FOp) : SMap := ops.foldl (sstep D) m

/-- a top-level item: one key component (no '.'), not the validated key `device`, '-' and '_'
not mixed; the value is any well-keyed tree (scalar or nested mapping) -/
def FlatItem (kv : Key × Tree) : Prop :=
  splitDots kv.1 = [kv.1] ∧ kv.1 ≠ "device".toList ∧ Uniform kv.1 ∧ WellKeyed kv.2

def FlatOK : FOp → Prop
  | .set items => ∀ kv ∈ items, FlatItem kv
  | .withBlock items => ∀ kv ∈ items, FlatItem kv
  | .refresh => True

theorem splitDots_go_flat : ∀ (k cur : List Char) (acc : List Key), '.' ∉ k →
    splitDots.go cur acc k = ((cur.reverse ++ k) :: acc).reverse := by
  intro k
  induction k with
  | nil => intro cur acc _; simp [splitDots.go]
  | cons c cs ih =>
    intro cur acc h
    have hc : c ≠ '.' := fun e => h (by simp [e])
    have hcs : '.' ∉ cs := fun e => h (by simp [e])
    simp [splitDots.go, hc, ih _ _ hcs]

/-- a key without a dot is one path component -/
theorem splitDots_flat (k : Key) (h : '.' ∉ k) : splitDots k = [k] := by
  simp [splitDots, splitDots_go_flat k [] [] h]

theorem setItem_flat (env : Env) (cfg : Dict) (kv : Key × Tree) (h : FlatItem kv) :
    ∃ r, setItem env cfg kv = .ok (dset cfg (canonicalName kv.1 cfg) kv.2, r) := by
  obtain ⟨k, v⟩ := kv
  obtain ⟨hs, hd, _, _⟩ := h
  simp only at hs hd
  have : setItem env cfg (k, v) = assign [k] v cfg true := by
    have hd' : ¬ (k = ['d', 'e', 'v', 'i', 'c', 'e']) := by simpa using hd
    simp [setItem, checkKeyVal, hs, hd', bind, Except.bind]
  rw [this]
  simp [assign]

/-- a `set` call of top-level items never raises, and is the item-by-item overwrite of the map -/
theorem setItems_flat (env : Env) (items : List (Key × Tree)) :
    ∀ (cfg : Dict) (rec_ : List RecOp), WellKeyed (.node cfg) → (∀ kv ∈ items, FlatItem kv) →
      (setItems env cfg rec_ items).2.2 = .none ∧
      absm (setItems env cfg rec_ items).1 = sset (absm cfg) items := by
  induction items with
  | nil => intro cfg rec_ _ _; simp [setItems, sset]
  | cons kv rest ih =>
    intro cfg rec_ hw hall
    have hkv := hall kv (by simp)
    obtain ⟨r, hr⟩ := setItem_flat env cfg kv hkv
    have hw' : WellKeyed (.node (dset cfg (canonicalName kv.1 cfg) kv.2)) :=
      wellKeyed_dset cfg kv.1 kv.2 hw hkv.2.2.1 hkv.2.2.2
    have := ih (dset cfg (canonicalName kv.1 cfg) kv.2) (rec_ ++ r) hw' (fun kv' h' => hall kv' (by simp [h']))
    rw [setItems, hr]
    simp only []
    refine ⟨this.1, ?_⟩
    rw [this.2, absm_dset cfg kv.1 kv.2 hw hkv.2.2.1]
    rfl

/-- **top-level `set` calls and `with` blocks never raise** (from any state at all) -/
theorem flat_op_never_raises (env : Env) (s : State) (items : List (Key × Tree)) (h : ∀ kv ∈ items, FlatItem kv) :
    hstepErr env s (.set items) = .none ∧ hstepErr env s (.withBlock items) = .none := by
  have : ∀ (its : List (Key × Tree)) (cfg : Dict) (rec_ : List RecOp), (∀ kv ∈ its, FlatItem kv) →
      (setItems env cfg rec_ its).2.2 = .none := by
    intro its
    induction its with
    | nil => intro cfg rec_ _; simp [setItems]
    | cons kv rest ih =>
      intro cfg rec_ hall
      obtain ⟨r, hr⟩ := setItem_flat env cfg kv (hall kv (by simp))
      rw [setItems, hr]
      exact ih _ _ (fun kv' h' => hall kv' (by simp [h']))
  exact ⟨this items s.config [] h, this items s.config [] h⟩

/-- the configuration `refresh` installs: a function of the accumulated defaults only -/
def refreshCfg (env : Env) (defs : List Dict) : Dict := (refreshP env { config := [], defaults := defs }).1.config

theorem flatOK_opOK (op : FOp) (h : FlatOK op) : OpOK op.toHOp := by
  cases op with
  | set items =>
    intro kv hkv
    have := h kv hkv
    refine ⟨?_, this.2.2.2⟩
    intro c hc
    rw [this.1] at hc
    simp at hc
    subst hc
    exact this.2.2.1
  | withBlock items =>
    intro kv hkv
    have := h kv hkv
    refine ⟨?_, this.2.2.2⟩
    intro c hc
    rw [this.1] at hc
    simp at hc
    subst hc
    exact this.2.2.1
  | refresh => trivial

/-- one step of a flat history is one step of the map spec -/
theorem flat_step_refines (env : Env) (s : State) (op : FOp) (hs : StateOK s) (hop : FlatOK op) :
    (hstep env s op.toHOp).defaults = s.defaults ∧
    absm (hstep env s op.toHOp).config = sstep (absm (refreshCfg env s.defaults)) (absm s.config) op := by
  cases op with
  | set items =>
    exact ⟨rfl, (setItems_flat env items s.config [] hs.1 hop).2⟩
  | withBlock items =>
    have hn := withBlock_noop env s items (flat_op_never_raises env s items hop).2
    rw [show (FOp.withBlock items).toHOp = HOp.withBlock items from rfl, hn]
    exact ⟨rfl, rfl⟩
  | refresh => exact ⟨rfl, rfl⟩

/-- **refinement: every flat history is a run of the simple map spec.**  From any well-keyed
state, after ANY sequence of top-level `set` calls (any number of items in any '-'/'_'
spelling, scalar or nested-mapping values), `with` blocks and `refresh` calls, the defaults are
those of the start and the configuration — read through the abstraction function — is the
last-writer-wins map the spec computes: overwrite per `set` item, nothing for a `with` block,
the defaults' map for `refresh`. -/
theorem flat_history_refines (env : Env) (ops : List FOp) :
    ∀ (s : State), StateOK s → (∀ op ∈ ops, FlatOK op) →
      (hrun env s (ops.map FOp.toHOp)).defaults = s.defaults ∧
      absm (hrun env s (ops.map FOp.toHOp)).config =
        srun (absm (refreshCfg env s.defaults)) (absm s.config) ops := by
  induction ops with
  | nil => intro s _ _; exact ⟨rfl, rfl⟩
  | cons op rest ih =>
    intro s hs hall
    have hop := hall op (by simp)
    have h1 := flat_step_refines env s op hs hop
    have hs' : StateOK (hstep env s op.toHOp) := by
      have := wellKeyed_history env [op.toHOp] s hs (by
        intro o ho
        simp at ho
        subst ho
        exact flatOK_opOK op hop)
      simpa [hrun] using this
    have h2 := ih (hstep env s op.toHOp) hs' (fun o ho => hall o (by simp [ho]))
    simp only [List.map_cons, hrun, List.foldl_cons, srun] at h2 ⊢
    rw [h1.1, h1.2] at h2
    exact h2

/-- `get` of a one-component key is the entry under its canonical name -/
theorem get_top (d : Dict) (k : Key) :
    Config.get d [k] = (match dget d (canonicalName k d) with
      | .none => .error .keyError
      | some t => .ok t) := by
  rw [Config.get]
  split
  · rename_i h; rw [h]
  · rename_i sub h; rw [h]; simp [Config.get]
  · rename_i a h; rw [h]

/-- **end to end**: after any flat history, `get` of a top-level key under EITHER spelling
returns what the simple map holds under the key's normal form (KeyError when it holds nothing) -/
theorem flat_history_get (env : Env) (ops : List FOp) (s : State) (hs : StateOK s)
    (hops : ∀ op ∈ ops, FlatOK op) (k : Key) (hu : Uniform k) :
    Config.get (hrun env s (ops.map FOp.toHOp)).config [k] =
      (match srun (absm (refreshCfg env s.defaults)) (absm s.config) ops k with
       | .none => .error .keyError
       | some t => .ok t) := by
  have hw : StateOK (hrun env s (ops.map FOp.toHOp)) := by
    apply wellKeyed_history env _ s hs
    intro o ho
    obtain ⟨f, hf, rfl⟩ := List.mem_map.mp ho
    exact flatOK_opOK f (hops f hf)
  rw [get_top, read_any_spelling _ k hw.1 hu, (flat_history_refines env ops s hs hops).2]

/-! ### non-vacuity -/

private def xab : Key := ['a', '_', 'b']
private def xab' : Key := ['a', '-', 'b']
private def xviz : Key := ['v', 'i', 'z']
private def xenv : Env := { cuda := false, mps := false, numDevices := 0 }

example : nkey xab' = xab ∧ nkey xab = xab ∧ altKey xab = xab' := by decide
example : FlatItem (xab', .leaf (.int 2)) :=
  ⟨by decide, by decide, by unfold Uniform; decide, .leaf _⟩
example : FlatItem (xviz, .node []) :=
  ⟨by decide, by decide, by unfold Uniform; decide, wellKeyed_nil⟩
example : '.' ∉ xab' := by decide
example : StateOK { config := [], defaults := [] } := ⟨wellKeyed_nil, by simp⟩
/-- a flat history: stored with '_', overwritten with '-', a with block, a refresh, a later write;
the spec and the model agree on the value read under each spelling -/
example :
    let ops := [FOp.set [(xab, .leaf (.int 1)), (xviz, .leaf (.int 5))], .set [(xab', .leaf (.int 2))],
                .withBlock [(xab, .leaf (.int 9))]]
    srun (absm (refreshCfg xenv [])) (absm []) ops xab' = some (.leaf (.int 2)) ∧
    Config.get (hrun xenv { config := [], defaults := [] } (ops.map FOp.toHOp)).config [xab'] = .ok (.leaf (.int 2)) ∧
    Config.get (hrun xenv { config := [], defaults := [] } ((ops ++ [FOp.refresh]).map FOp.toHOp)).config [xab] = .error .keyError :=
  ⟨rfl, rfl, rfl⟩

end QuantemModel.Props.C19
