import QuantemModel.Lemmas.Config
import QuantemModel.Lemmas.ConfigTwin
import QuantemModel.Lemmas.ConfigUpdate
import QuantemModel.Lemmas.ConfigHistory
import QuantemModel.Lemmas.ConfigWellKeyed
import QuantemModel.Lemmas.ConfigDevice
/-!
C19 — the configuration store (Model/Config.lean) behaves as a last-writer-wins nested
map.  Only property theorems and non-vacuity examples live here.
-/
namespace QuantemModel.Props.C19
open QuantemModel.Config

/-- **get after set**: whatever the previous state, nesting depth and spelling, reading a
path back right after a successful `set` of that path returns the value set. -/
theorem get_assign_same (keys : List Key) (v : Tree) :
    ∀ (d d' : Dict) (rc : Bool) (r : List RecOp),
      assign keys v d rc = .ok (d', r) → get d' keys = .ok v := by
  induction keys with
  | nil => intro d d' rc r h; simp [assign] at h
  | cons k rest ih =>
    intro d d' rc r h
    cases rest with
    | nil =>
      simp [assign] at h
      obtain ⟨hd, _⟩ := h
      subst hd
      rw [Config.get, canonicalName_dset, dget_dset_same]
      cases v <;> simp [Config.get]
    | cons k2 rest2 =>
      rw [assign] at h
      rotate_left
      · simp
      split at h
      · split at h
        · rename_i sub r0 hsub
          simp at h
          obtain ⟨hd, _⟩ := h
          subst hd
          rw [Config.get, canonicalName_dset, dget_dset_same]
          exact ih _ _ _ _ hsub
        · simp at h
      · split at h
        · rename_i sub' r0 hsub
          simp at h
          obtain ⟨hd, _⟩ := h
          subst hd
          rw [Config.get, canonicalName_dset, dget_dset_same]
          exact ih _ _ _ _ hsub
        · simp at h
      · simp at h

/-- Two paths are *apart* in `d` when they leave each other at some level through keys that
are neither equal nor '-'/'_' twins of one another (siblings). -/
def Apart : Dict → List Key → List Key → Prop
  | d, k :: krest, k' :: qrest =>
      (canonicalName k d ≠ k' ∧ canonicalName k d ≠ altKey k') ∨
      (canonicalName k' d = canonicalName k d ∧ krest ≠ [] ∧
        ∃ sub, dget d (canonicalName k d) = some (.node sub) ∧ Apart sub krest qrest)
  | _, _, _ => False

theorem canonicalName_dset_eq (k' c : Key) (d : Dict) (v : Tree) (h : canonicalName k' d = c) :
    canonicalName k' (dset d c v) = c := by
  subst h; exact canonicalName_dset k' d v

theorem canonicalName_dset_other (k' c : Key) (d : Dict) (v : Tree)
    (h1 : c ≠ k') (h2 : c ≠ altKey k') :
    canonicalName k' (dset d c v) = canonicalName k' d := by
  unfold canonicalName
  rw [dhas_dset_other _ _ _ _ (Ne.symm h1), dhas_dset_other _ _ _ _ (Ne.symm h2)]

theorem assign_top (k : Key) (rest : List Key) (v : Tree) (d d' : Dict) (rc : Bool) (r : List RecOp)
    (h : assign (k :: rest) v d rc = .ok (d', r)) : ∃ X, d' = dset d (canonicalName k d) X := by
  cases rest with
  | nil => simp [assign] at h; exact ⟨v, h.1.symm⟩
  | cons k2 rest2 =>
    rw [assign] at h
    rotate_left
    · simp
    split at h
    · split at h
      · simp at h; exact ⟨_, h.1.symm⟩
      · simp at h
    · split at h
      · simp at h; exact ⟨_, h.1.symm⟩
      · simp at h
    · simp at h

/-- **sibling preservation** (nested updates merge without dropping sibling keys): a
successful `set` of one path changes the result of `get` on no path that is apart from it. -/
theorem get_assign_frame (keys : List Key) (v : Tree) :
    ∀ (d d' : Dict) (rc : Bool) (r : List RecOp) (q : List Key),
      assign keys v d rc = .ok (d', r) → Apart d keys q → get d' q = get d q := by
  induction keys with
  | nil => intro d d' rc r q h; simp [assign] at h
  | cons k rest ih =>
    intro d d' rc r q h hap
    cases q with
    | nil => simp [Apart] at hap
    | cons k' qrest =>
      simp only [Apart] at hap
      rcases hap with ⟨h1, h2⟩ | ⟨hc, hne, sub, hsub, hap'⟩
      · obtain ⟨X, hX⟩ := assign_top _ _ _ _ _ _ _ h
        subst hX
        have hcn := canonicalName_dset_other k' _ d X h1 h2
        rw [Config.get, Config.get, hcn]
        have : canonicalName k' d ≠ canonicalName k d := by
          rcases canonicalName_cases k' d with e | ⟨e, _, _⟩
          · rw [e]; exact Ne.symm h1
          · rw [e]; exact Ne.symm h2
        rw [dget_dset_other _ _ _ _ this]
      · cases rest with
        | nil => exact absurd rfl hne
        | cons k2 rest2 =>
          rw [assign] at h
          rotate_left
          · simp
          rw [hsub] at h
          simp only at h
          split at h
          · rename_i sub' r0 hs
            simp at h
            obtain ⟨hd, _⟩ := h
            subst hd
            rw [Config.get, Config.get, canonicalName_dset_eq k' _ d _ hc, hc, dget_dset_same, hsub]
            exact ih _ _ _ _ _ hs hap'
          · simp at h

/-- **context manager**: leaving a `with set(...)` block restores the configuration that
was current before the block — replaced values come back, inserted keys disappear, key
order included — for every list of assignments. -/
theorem assign_exit_restores (keys : List Key) (v : Tree) :
    ∀ (d d' : Dict) (r : List RecOp), assign keys v d true = .ok (d', r) → exitCtx d' r = d := by
  induction keys with
  | nil => intro d d' r h; simp [assign] at h
  | cons k rest ih =>
    intro d d' r h
    cases rest with
    | nil =>
      simp [assign] at h
      obtain ⟨hd, hr⟩ := h
      subst hd; subst hr
      cases hg : dget d (canonicalName k d) with
      | none => simp [exitCtx, undo, restoreInsert, derase_dset_absent _ _ _ hg]
      | some old => simp [exitCtx, undo, restoreReplace, dset_dset, dset_same_val _ _ _ hg]
    | cons k2 rest2 =>
      rw [assign] at h
      rotate_left
      · simp
      split at h
      · rename_i hg
        split at h
        · rename_i sub r0 hsub
          have hnil := assign_norecord _ _ _ _ _ hsub
          simp at h
          obtain ⟨hd, hr⟩ := h
          subst hd; subst hr; subst hnil
          simp [exitCtx, undo, restoreInsert, derase_dset_absent _ _ _ hg]
        · simp at h
      · rename_i sub hg
        split at h
        · rename_i sub' r0 hsub
          simp at h
          obtain ⟨hd, hr⟩ := h
          subst hd; subst hr
          rw [exitCtx_prepend _ _ _ _ (assign_paths_nonempty _ _ _ _ _ _ hsub), ih _ _ _ hsub]
          exact dset_same_val _ _ _ hg
        · simp at h
      · simp at h

theorem ctx_restore (env : Env) (items : List (Key × Tree)) :
    ∀ (cfg cfg' : Dict) (rec0 rec' : List RecOp) (e : Option Err),
      setItems env cfg rec0 items = (cfg', rec', e) →
      ∃ r, rec' = rec0 ++ r ∧ exitCtx cfg' r = cfg := by
  induction items with
  | nil =>
    intro cfg cfg' rec0 rec' e h
    simp [setItems] at h
    exact ⟨[], by simp [h.2.1], by simp [exitCtx, h.1]⟩
  | cons kv rest ih =>
    intro cfg cfg' rec0 rec' e h
    rw [setItems] at h
    split at h
    · rename_i cfg1 r1 h1
      obtain ⟨r2, hr2, hex⟩ := ih _ _ _ _ _ h
      refine ⟨r1 ++ r2, by simp [hr2], ?_⟩
      rw [exitCtx_append, hex]
      unfold setItem at h1
      cases hc : checkKeyVal env kv.1 kv.2 with
      | error e' => simp [hc, bind, Except.bind] at h1
      | ok v' =>
        simp [hc, bind, Except.bind] at h1
        exact assign_exit_restores _ _ _ _ _ h1
    · simp at h
      exact ⟨[], by simp [h.2.1], by simp [exitCtx, h.1]⟩

/-- the statement users rely on: a `with set(items): …` block that was entered restores the
previous configuration on exit -/
theorem with_block_restores (env : Env) (items : List (Key × Tree)) (cfg cfg' : Dict)
    (rec' : List RecOp) (e : Option Err) (h : setItems env cfg [] items = (cfg', rec', e)) :
    exitCtx cfg' rec' = cfg := by
  obtain ⟨r, hr, hex⟩ := ctx_restore env items cfg cfg' [] rec' e h
  simp at hr; subst hr; exact hex

/-- **device rejection**: a device request that validation rejects raises and leaves the
configuration (in particular the stored device) exactly as it was. -/
theorem device_reject (env : Env) (cfg : Dict) (rec0 : List RecOp) (v : Tree) (rest : List (Key × Tree))
    (e : Err) (h : validateDevice env v = .error e) :
    setItems env cfg rec0 (("device".toList, v) :: rest) = (cfg, rec0, some e) := by
  simp [setItems, setItem, checkKeyVal, h, bind, Except.bind, Except.map]

/-- a failing item stops the call: what has been applied is exactly the successful prefix -/
theorem set_error_keeps_prefix (env : Env) (pre : List (Key × Tree)) (kv : Key × Tree) (post : List (Key × Tree)) :
    ∀ (cfg cfg1 : Dict) (rec0 rec1 : List RecOp) (e : Err),
      setItems env cfg rec0 pre = (cfg1, rec1, .none) → setItem env cfg1 kv = .error e →
      setItems env cfg rec0 (pre ++ kv :: post) = (cfg1, rec1, some e) := by
  induction pre with
  | nil =>
    intro cfg cfg1 rec0 rec1 e h he
    simp [setItems] at h
    obtain ⟨h1, h2⟩ := h
    subst h1; subst h2
    simp [setItems, he]
  | cons a pre ih =>
    intro cfg cfg1 rec0 rec1 e h he
    rw [setItems] at h
    simp only [List.cons_append]
    rw [setItems]
    split at h
    · rename_i cfg2 r2 h2
      exact ih _ _ _ _ _ h he
    · simp at h

/-- **only available devices are accepted — in every device environment.**  Whatever the
request (string, index, `None`, `torch.device` object, anything else) and whatever CUDA / MPS
availability, device count and current device: if `validate_device` returns, it returns
`("cpu", -1)`, or `("mps", 0)` with MPS available, or `("cuda:n", n)` with CUDA available and
`n` below the device count.  Every other request raises. -/
theorem device_accepted_available (env : Env) (v : Tree) (a : Atom) (i : Int)
    (h : validateDeviceFull env v = .ok (a, i)) : Accepted env a i := by
  unfold validateDeviceFull at h
  simp only [bind, Except.bind] at h
  repeat' split at h
  all_goals first
    | exact finishCuda_accepted _ _ _ _ h
    | exact finishMps_accepted _ _ _ h
    | exact cpu_accepted _ _ _ h
    | (simp at h)

/-- the converse ("exactly"): every available device is reached by some request -/
theorem device_accepted_reachable (env : Env) (a : Atom) (i : Int) (h : Accepted env a i) :
    ∃ v, validateDeviceFull env v = .ok (a, i) := by
  cases h with
  | cpu => exact ⟨.leaf (.dev "cpu" .none), by simp [validateDeviceFull]⟩
  | mps hm => exact ⟨.leaf (.dev "mps" .none), by simp [validateDeviceFull, finishMps, hm]⟩
  | cuda n hc hn =>
    refine ⟨.leaf (.int n), ?_⟩
    have : ¬ ((n : Int) < 0) := by omega
    have hge : ¬ (n ≥ env.numDevices) := by omega
    simp [validateDeviceFull, finishCuda, hc, this, hge]

/-- **malformed device strings are rejected**: a string request is only ever accepted when it
is torch's own `cuda` / `cuda:<decimal index>` spelling, or — ignoring case — exactly `gpu`,
`mps` or `cpu`; a string that merely contains one of these words raises -/
theorem device_string_forms (env : Env) (s : String) (r : Atom × Int)
    (h : validateDeviceFull env (.leaf (.str s)) = .ok r) :
    (∃ idx, parseCuda s = .ok idx) ∨ lowerStr s = "gpu" ∨ lowerStr s = "mps" ∨ lowerStr s = "cpu" := by
  unfold validateDeviceFull at h
  simp only [bind, Except.bind] at h
  split at h
  · left
    split at h
    · simp at h
    · rename_i idx hidx; exact ⟨idx, hidx⟩
  · split at h
    · right; left; assumption
    · split at h
      · right; right; left; assumption
      · split at h
        · right; right; right; assumption
        · simp at h

/-- on a machine without CUDA and MPS the only device value ever stored is "cpu" -/
theorem device_accepted_cpu_only (n c : Nat) (v : Tree) (a : Atom)
    (h : validateDevice { cuda := false, mps := false, numDevices := n, currentDevice := c } v = .ok a) :
    a = .str "cpu" := by
  unfold validateDevice at h
  cases hf : validateDeviceFull { cuda := false, mps := false, numDevices := n, currentDevice := c } v with
  | error e => simp [hf, Except.map] at h
  | ok r =>
    obtain ⟨a', i⟩ := r
    simp [hf, Except.map] at h
    subst h
    cases device_accepted_available _ _ _ _ hf with
    | cpu => rfl
    | mps hm => simp at hm
    | cuda n hc hn => simp at hc

/-- **refresh restores exactly the accumulated defaults** (with a hermetic, empty yaml
collection): the new configuration is the merge of the defaults list, nothing of the
previous configuration survives, and the defaults themselves are untouched. -/
theorem refresh_spec (env : Env) (s s' : State) (h : refresh env s = .ok s') :
    merge env s.defaults = .ok s'.config ∧ s'.defaults = s.defaults := by
  unfold refresh at h
  unfold merge
  cases hm : List.foldlM (fun acc d => update env Priority.new acc none d) [] s.defaults with
  | error e => simp [hm, bind, Except.bind] at h
  | ok cfg =>
    simp [hm, bind, Except.bind] at h
    subst h
    simp

theorem refresh_ignores_config (env : Env) (s : State) (cfg : Dict) :
    refresh env { s with config := cfg } = refresh env s := by
  simp [refresh]

theorem refresh_idempotent (env : Env) (s s' : State) (h : refresh env s = .ok s') :
    refresh env s' = .ok s' := by
  have h2 := h
  unfold refresh at h2
  cases hm : List.foldlM (fun acc d => update env Priority.new acc none d) [] s.defaults with
  | error e => simp [hm, bind, Except.bind] at h2
  | ok cfg =>
    simp [hm, bind, Except.bind] at h2
    subst h2
    simp [refresh, hm, bind, Except.bind]

/-- `update_defaults` only ever appends to the defaults list -/
theorem updateDefaults_appends (env : Env) (s s' : State) (new : Dict)
    (h : updateDefaults env s new = .ok s') : ∃ n, s'.defaults = s.defaults ++ [n] := by
  unfold updateDefaults at h
  cases h1 : normaliseTop env new with
  | error e => simp [h1, bind, Except.bind] at h
  | ok new' =>
    cases h2 : merge env s.defaults with
    | error e => simp [h1, h2, bind, Except.bind] at h
    | ok cur =>
      cases h3 : update env Priority.newDefaults s.config (some (Tree.node cur)) new' with
      | error e => simp [h1, h2, h3, bind, Except.bind] at h
      | ok cfg =>
        simp [h1, h2, h3, bind, Except.bind] at h
        subst h
        exact ⟨new', rfl⟩

/-- **'-' and '_' spellings are one entry**: after a successful `set` of a path, reading it
back under the *other* spelling of every component returns the value set — for keys that do
not mix the two characters and dictionaries that hold no key in both spellings -/
theorem get_assign_twin (keys : List Key) (v : Tree) :
    ∀ (d d' : Dict) (rc : Bool) (r : List RecOp),
      (∀ k ∈ keys, Uniform k) → TwinFreeAlong d keys →
      assign keys v d rc = .ok (d', r) → Config.get d' (keys.map altKey) = .ok v := by
  induction keys with
  | nil => intro d d' rc r _ _ h; simp [assign] at h
  | cons k rest ih =>
    intro d d' rc r hu htf h
    have huk : Uniform k := hu k (by simp)
    have hur : ∀ k' ∈ rest, Uniform k' := fun k' hk' => hu k' (by simp [hk'])
    cases rest with
    | nil =>
      simp [assign] at h
      obtain ⟨hd, _⟩ := h
      subst hd
      simp only [List.map_cons, List.map_nil]
      rw [Config.get, canonicalName_alt_dset k d v huk htf.1, dget_dset_same]
      cases v <;> simp [Config.get]
    | cons k2 rest2 =>
      rw [assign] at h
      rotate_left
      · simp
      simp only [List.map_cons]
      split at h
      · split at h
        · rename_i sub r0 hsub
          simp at h
          obtain ⟨hd, _⟩ := h
          subst hd
          rw [Config.get, canonicalName_alt_dset k d _ huk htf.1, dget_dset_same]
          have := ih [] sub false r0 hur (twinFreeAlong_nil _) hsub
          simpa using this
        · simp at h
      · rename_i sub hg
        split at h
        · rename_i sub' r0 hsub
          simp at h
          obtain ⟨hd, _⟩ := h
          subst hd
          rw [Config.get, canonicalName_alt_dset k d _ huk htf.1, dget_dset_same]
          have htf2 : TwinFreeAlong sub (k2 :: rest2) := by
            have := htf.2
            rw [hg] at this
            exact this
          have := ih sub sub' rc r0 hur htf2 hsub
          simpa using this
        · simp at h
      · simp at h

/-- **nested updates merge without dropping sibling keys** (`update`, used by
`update_defaults` and `refresh`): whatever the priority, the defaults and the nested content
of `new`, and even when the call raises half-way, every top-level key that `new` does not
mention in either spelling keeps exactly its previous value -/
theorem update_preserves_unmentioned (env : Env) (prio : Priority) (k' : Key)
    (new : List (Key × Tree)) (nested : Bool) (old : Dict) (defs : Option Tree)
    (h : ∀ kv ∈ new, kv.1 ≠ k' ∧ altKey kv.1 ≠ k') :
    dget (updateP env prio nested old defs new).1 k' = dget old k' :=
  update_frame env prio k' new nested old defs h

/-- the same for a successful `update_defaults`: entries of the configuration the new
defaults do not mention are untouched -/
theorem updateDefaults_preserves_unmentioned (env : Env) (s s' : State) (new : Dict) (k' : Key)
    (h : ∀ kv ∈ new, kv.1 ≠ k' ∧ altKey kv.1 ≠ k')
    (hs : updateDefaults env s new = .ok s') : dget s'.config k' = dget s.config k' := by
  unfold updateDefaults at hs
  cases h1 : normaliseTop env new with
  | error e => simp [h1, bind, Except.bind] at hs
  | ok new' =>
    cases h2 : merge env s.defaults with
    | error e => simp [h1, h2, bind, Except.bind] at hs
    | ok cur =>
      cases h3 : update env Priority.newDefaults s.config (some (Tree.node cur)) new' with
      | error e => simp [h1, h2, h3, bind, Except.bind] at hs
      | ok cfg =>
        simp [h1, h2, h3, bind, Except.bind] at hs
        subst hs
        have hk := normaliseTop_keys env new new' h1
        have h' : ∀ kv ∈ new', kv.1 ≠ k' ∧ altKey kv.1 ≠ k' := by
          intro kv hkv
          have : kv.1 ∈ new'.map (·.1) := List.mem_map.mpr ⟨kv, hkv, rfl⟩
          rw [hk] at this
          obtain ⟨kv0, hkv0, he⟩ := List.mem_map.mp this
          have := h kv0 hkv0
          rw [he] at this
          exact this
        have hf := update_frame env Priority.newDefaults k' new' false s.config (some (Tree.node cur)) h'
        unfold update at h3
        split at h3
        · rename_i d hd
          simp at h3; subst h3
          simpa [hd] using hf
        · simp at h3



/-- **priority rule of `update` for one scalar item** (`update_defaults` uses
`new-defaults`, `refresh`/`merge` use `new`): an absent key is always written; `new` always
overwrites; `old` never does; `new-defaults` overwrites exactly when the current value is
(Python-)equal to the default registered so far under either spelling of the key, and
otherwise keeps the value the user set -/
theorem update_leaf_priority_spec (old : Dict) (defs : Option Tree) (k dk : Key) (v oldv : Tree) :
    (dget old k = .none → ∀ prio, updateLeaf prio old defs k dk v = .ok (dset old k v)) ∧
    (updateLeaf .new old defs k dk v = .ok (dset old k v)) ∧
    (dget old k = some oldv → updateLeaf .old old defs k dk v = .ok old) ∧
    (dget old k = some oldv → defaultMatches defs dk oldv = .ok true →
        updateLeaf .newDefaults old defs k dk v = .ok (dset old k v)) ∧
    (dget old k = some oldv → defaultMatches defs dk oldv = .ok false →
        updateLeaf .newDefaults old defs k dk v = .ok old) := by
  refine ⟨?_, ?_, ?_, ?_, ?_⟩
  · intro h prio; simp [updateLeaf, h]
  · cases h : dget old k <;> simp [updateLeaf, h]
  · intro h; simp [updateLeaf, h]
  · intro h hm; simp [updateLeaf, h, hm, bind, Except.bind]
  · intro h hm; simp [updateLeaf, h, hm, bind, Except.bind]


/-- the default of a key is found under its other '-'/'_' spelling too (the defaults were
registered as `a-b`, the configuration holds `a_b`) -/
theorem defaults_found_under_twin (kvs : Dict) (k : Key) (t : Tree)
    (h1 : dget kvs k = .none) (h2 : dget kvs (altKey k) = some t) :
    defaultsGet (some (.node kvs)) (defaultsKey (some (.node kvs)) k) = .ok (some t) ∧
    ∀ oldv, defaultMatches (some (.node kvs)) (defaultsKey (some (.node kvs)) k) oldv = .ok (pyEq t oldv) := by
  have hne : kvs.isEmpty = false := by
    cases kvs with
    | nil => simp [dget] at h2
    | cons a b => rfl
  have hk : defaultsKey (some (.node kvs)) k = altKey k := by
    simp [defaultsKey, hne, canonicalName, dhas, h1, h2]
  rw [hk]
  exact ⟨by simp [defaultsGet, hne, h2], fun oldv => by simp [defaultMatches, h2]⟩

/-! ### whole histories (`Model/ConfigHistory.lean`: the transition function the driver runs) -/

/-- Two key paths are *separated* when they leave each other at some level through keys that
no '-'/'_' respelling identifies — a purely syntactic condition, independent of the state. -/
def Sep : List Key → List Key → Prop
  | k :: ps, k' :: qs => Unrelated k k' ∨ (k = k' ∧ ps ≠ [] ∧ qs ≠ [] ∧ Sep ps qs)
  | _, _ => False

/-- separated paths are apart in every dictionary in which the second one can be read -/
theorem sep_apart (q : List Key) : ∀ (p : List Key) (d : Dict) (t : Tree),
    Sep q p → Config.get d p = .ok t → Apart d q p := by
  induction q with
  | nil => intro p d t h; simp [Sep] at h
  | cons k krest ih =>
    intro p d t h hg
    cases p with
    | nil => simp [Sep] at h
    | cons k' prest =>
      simp only [Sep] at h
      simp only [Apart]
      rcases h with ⟨h1, h2, h3, h4⟩ | ⟨hk, hne, hpne, hsep⟩
      · left
        rcases canonicalName_mem k d with e | e <;> rw [e]
        · exact ⟨h1, h2⟩
        · exact ⟨h3, h4⟩
      · right
        subst hk
        refine ⟨rfl, hne, ?_⟩
        rw [Config.get] at hg
        split at hg
        · simp at hg
        · rename_i sub hsub
          exact ⟨sub, hsub, ih _ _ _ hsep hg⟩
        · split at hg
          · exact absurd rfl hpne
          · simp at hg

/-- one item of a `set` call that succeeds: the path reads back as the validated value -/
theorem setItem_get_same (env : Env) (cfg cfg' : Dict) (key : Key) (v v' : Tree) (r : List RecOp)
    (hv : checkKeyVal env key v = .ok v') (h : setItem env cfg (key, v) = .ok (cfg', r)) :
    Config.get cfg' (splitDots key) = .ok v' := by
  unfold setItem at h
  simp [hv, bind, Except.bind] at h
  exact get_assign_same _ _ _ _ _ _ h

/-- one item of a `set` call leaves every readable path separated from its own untouched -/
theorem setItem_frame (env : Env) (cfg cfg' : Dict) (kv : Key × Tree) (r : List RecOp)
    (p : List Key) (t : Tree) (h : setItem env cfg kv = .ok (cfg', r))
    (hs : Sep (splitDots kv.1) p) (hg : Config.get cfg p = .ok t) : Config.get cfg' p = .ok t := by
  unfold setItem at h
  cases hc : checkKeyVal env kv.1 kv.2 with
  | error e => simp [hc, bind, Except.bind] at h
  | ok v' =>
    simp [hc, bind, Except.bind] at h
    rw [get_assign_frame _ _ _ _ _ _ _ h (sep_apart _ _ _ _ hs hg)]
    exact hg

/-- a whole `set` call — successful or stopped by an exception after some items — leaves
every readable path separated from all its items untouched -/
theorem setItems_frame (env : Env) (p : List Key) (t : Tree) (items : List (Key × Tree)) :
    ∀ (cfg : Dict) (rec_ : List RecOp), (∀ kv ∈ items, Sep (splitDots kv.1) p) →
      Config.get cfg p = .ok t → Config.get (setItems env cfg rec_ items).1 p = .ok t := by
  induction items with
  | nil => intro cfg rec_ _ hg; simpa [setItems] using hg
  | cons kv rest ih =>
    intro cfg rec_ hs hg
    rw [setItems]
    split
    · rename_i cfg1 r1 h1
      exact ih _ _ (fun kv' hkv' => hs kv' (by simp [hkv'])) (setItem_frame _ _ _ _ _ _ _ h1 (hs kv (by simp)) hg)
    · exact hg

/-- the operations after which the value of path `p` must be unchanged: `set` calls and
`with` blocks whose items are all separated from `p`, `update_defaults` calls whose
top-level keys are unrelated to the first key of `p`; `refresh` is not among them (it
restores the defaults on purpose). -/
def Leaves : List Key → HOp → Prop
  | p, .set items => ∀ kv ∈ items, Sep (splitDots kv.1) p
  | p, .withBlock items => ∀ kv ∈ items, Sep (splitDots kv.1) p
  | k :: _, .updateDefaults new => ∀ kv ∈ new, Unrelated kv.1 k
  | [], .updateDefaults _ => False
  | _, .refresh => False

theorem hstep_frame (env : Env) (s : State) (op : HOp) (p : List Key) (t : Tree)
    (hl : Leaves p op) (hg : Config.get s.config p = .ok t) :
    Config.get (hstep env s op).config p = .ok t := by
  cases op with
  | set items => exact setItems_frame env p t items _ _ hl hg
  | withBlock items =>
    have := setItems_frame env p t items s.config [] hl hg
    rcases h : setItems env s.config [] items with ⟨cfg, rec_, e⟩
    cases e with
    | none =>
      simp only [hstep, h]
      rw [with_block_restores env items s.config cfg rec_ .none h]
      exact hg
    | some e => simpa [hstep, h] using this
  | updateDefaults new =>
    cases p with
    | nil => simp [Leaves] at hl
    | cons k rest =>
      simp only [hstep]
      rw [updateDefaultsP_get_frame env s new k rest hl]
      exact hg
  | refresh => simp [Leaves] at hl

theorem hrun_frame (env : Env) (p : List Key) (t : Tree) (ops : List HOp) :
    ∀ (s : State), (∀ op ∈ ops, Leaves p op) → Config.get s.config p = .ok t →
      Config.get (hrun env s ops).config p = .ok t := by
  induction ops with
  | nil => intro s _ hg; exact hg
  | cons op rest ih =>
    intro s hl hg
    simp only [hrun, List.foldl_cons]
    exact ih _ (fun o ho => hl o (by simp [ho])) (hstep_frame env s op p t (hl op (by simp)) hg)

/-- **last writer wins over the whole history.**  Take any history `pre`, from any state,
raising or not; then a `set` call one of whose items assigns `v` to `key` (the items up to
and including it succeed; the items after it, which may fail, are separated from `key`);
then any further history `post` of `set` calls, `with` blocks and `update_defaults` calls,
raising or not, that does not write to `key`.  Reading `key` at the end returns `v` (as
validated: a device request reads back as the normalised device). -/
theorem lww_history (env : Env) (s : State) (pre post : List HOp) (its1 its2 : List (Key × Tree))
    (key : Key) (v v' : Tree)
    (hv : checkKeyVal env key v = .ok v')
    (hok : (setItems env (hrun env s pre).config [] (its1 ++ [(key, v)])).2.2 = .none)
    (h2 : ∀ kv ∈ its2, Sep (splitDots kv.1) (splitDots key))
    (hpost : ∀ op ∈ post, Leaves (splitDots key) op) :
    Config.get (hrun env s (pre ++ HOp.set (its1 ++ (key, v) :: its2) :: post)).config (splitDots key)
      = .ok v' := by
  have hrun_app : hrun env s (pre ++ HOp.set (its1 ++ (key, v) :: its2) :: post) =
      hrun env (hstep env (hrun env s pre) (HOp.set (its1 ++ (key, v) :: its2))) post := by
    simp [hrun, List.foldl_append]
  rw [hrun_app]
  apply hrun_frame env _ _ _ _ hpost
  generalize hrun env s pre = s0 at hok ⊢
  simp only [hstep]
  rcases h1 : setItems env s0.config [] its1 with ⟨c1, r1, e1⟩
  rw [setItems_append, h1] at hok
  cases e1 with
  | some e => simp at hok
  | none =>
    simp only [] at hok
    rw [setItems] at hok
    split at hok
    · rename_i c2 r2 hset
      have hsame := setItem_get_same env c1 c2 key v v' r2 hv hset
      have : setItems env s0.config [] (its1 ++ (key, v) :: its2) = setItems env c2 (r1 ++ r2) its2 := by
        rw [setItems_append, h1]
        simp only []
        rw [setItems, hset]
      rw [this]
      exact setItems_frame env _ _ its2 _ _ h2 hsame
    · simp at hok

/-- a `with set(...): pass` block that was entered is a no-op on the whole module state -/
theorem withBlock_noop (env : Env) (s : State) (items : List (Key × Tree))
    (h : hstepErr env s (.withBlock items) = .none) : hstep env s (.withBlock items) = s := by
  rcases h1 : setItems env s.config [] items with ⟨cfg, rec_, e⟩
  simp only [hstepErr, h1] at h
  subst h
  simp only [hstep, h1]
  rw [with_block_restores env items s.config cfg rec_ .none h1]

/-- **defaults only grow**: over any history the accumulated defaults are extended, never
reordered, edited or dropped -/
theorem defaults_grow_history (env : Env) (ops : List HOp) :
    ∀ (s : State), s.defaults <+: (hrun env s ops).defaults := by
  induction ops with
  | nil => intro s; exact List.prefix_refl _
  | cons op rest ih =>
    intro s
    simp only [hrun, List.foldl_cons]
    exact List.IsPrefix.trans (hstep_defaults_prefix env s op) (ih _)

/-- **refresh after any history** restores exactly the accumulated defaults: whatever was
set before, a `refresh` that does not raise leaves the merge of the defaults list as the
configuration, and the defaults themselves as they were -/
theorem refresh_after_history (env : Env) (s : State) (ops : List HOp)
    (h : hstepErr env (hrun env s ops) .refresh = .none) :
    merge env (hrun env s ops).defaults = .ok (hstep env (hrun env s ops) .refresh).config ∧
    (hstep env (hrun env s ops) .refresh).defaults = (hrun env s ops).defaults := by
  generalize hrun env s ops = s1 at h ⊢
  refine ⟨?_, rfl⟩
  simp only [hstepErr, refreshP] at h
  simp only [hstep, refreshP, merge]
  rcases hgo : refreshP.go env [] s1.defaults with ⟨cfg, e⟩
  rw [hgo] at h
  simp only [] at h
  subst h
  exact refreshP_go_ok env _ _ _ hgo


/-! ### '-' and '_' spellings are one entry — over whole histories

`WellKeyed` (`Lemmas/ConfigWellKeyed.lean`): at every level no key mixes '-' and '_' and no
key is present in both spellings.  Every operation preserves it, because `_assign` and `update`
always write under the spelling that is already stored; so after ANY history a value can be
read back under the other spelling of every path component. -/

/-- the items of a `set` call use keys that do not mix the two characters and well-keyed values -/
def ItemsOK (items : List (Key × Tree)) : Prop :=
  ∀ kv ∈ items, (∀ c ∈ splitDots kv.1, Uniform c) ∧ WellKeyed kv.2

/-- the operations of a history use uniformly spelled keys (at every depth of a mapping) -/
def OpOK : HOp → Prop
  | .set items => ItemsOK items
  | .withBlock items => ItemsOK items
  | .updateDefaults new => UKeys (.node new)
  | .refresh => True

theorem wellKeyed_setItems (env : Env) (items : List (Key × Tree)) :
    ∀ (cfg : Dict) (rec_ : List RecOp), WellKeyed (.node cfg) → ItemsOK items →
      WellKeyed (.node (setItems env cfg rec_ items).1) := by
  induction items with
  | nil => intro cfg rec_ h _; simpa [setItems] using h
  | cons kv rest ih =>
    intro cfg rec_ h hok
    rw [setItems]
    split
    · rename_i cfg1 r1 h1
      apply ih _ _ _ (fun kv' hkv' => hok kv' (by simp [hkv']))
      unfold setItem at h1
      cases hc : checkKeyVal env kv.1 kv.2 with
      | error e => simp [hc, bind, Except.bind] at h1
      | ok v' =>
        simp [hc, bind, Except.bind] at h1
        have := hok kv (by simp)
        exact wellKeyed_assign _ v' (wellKeyed_checkKeyVal env _ _ _ this.2 hc) _ _ _ _ h this.1 h1
    · exact h

/-- **the invariant holds along every history** of `set` calls, `with` blocks,
`update_defaults` and `refresh` — raising or not — whose keys do not mix '-' and '_':
no level of the configuration ever holds a key in both spellings -/
theorem wellKeyed_history (env : Env) (ops : List HOp) :
    ∀ (s : State), StateOK s → (∀ op ∈ ops, OpOK op) → StateOK (hrun env s ops) := by
  induction ops with
  | nil => intro s h _; exact h
  | cons op rest ih =>
    intro s h hall
    simp only [hrun, List.foldl_cons]
    apply ih _ _ (fun o ho => hall o (by simp [ho]))
    have hop := hall op (by simp)
    cases op with
    | set items => exact ⟨wellKeyed_setItems env items _ _ h.1 hop, h.2⟩
    | withBlock items =>
      have hw := wellKeyed_setItems env items s.config [] h.1 hop
      rcases hs : setItems env s.config [] items with ⟨cfg, rec_, e⟩
      rw [hs] at hw
      cases e with
      | none =>
        simp only [hstep, hs]
        rw [with_block_restores env items s.config cfg rec_ .none hs]
        exact h
      | some e => exact ⟨by simpa [hstep, hs] using hw, by simpa [hstep, hs] using h.2⟩
    | updateDefaults new => exact stateOK_updateDefaultsP env s new h hop
    | refresh => exact stateOK_refreshP env s h

/-- **last writer wins under the other spelling too.**  From a well-keyed state, after any
history of `set` calls, `with` blocks, `update_defaults` and `refresh` (raising or not, keys
not mixing '-' and '_'), a `set` item writes `v` to `key`;
then any further history that does not write to the respelled path.  Reading `key` with
EVERY component in its other '-'/'_' spelling returns `v`. -/
theorem lww_history_twin (env : Env) (s : State) (pre post : List HOp) (its1 its2 : List (Key × Tree))
    (key : Key) (v v' : Tree)
    (hs : StateOK s) (hpre : ∀ op ∈ pre, OpOK op) (h1ok : ItemsOK its1)
    (hkey : ∀ c ∈ splitDots key, Uniform c)
    (hv : checkKeyVal env key v = .ok v')
    (hok : (setItems env (hrun env s pre).config [] (its1 ++ [(key, v)])).2.2 = .none)
    (h2 : ∀ kv ∈ its2, Sep (splitDots kv.1) ((splitDots key).map altKey))
    (hpost : ∀ op ∈ post, Leaves ((splitDots key).map altKey) op) :
    Config.get (hrun env s (pre ++ HOp.set (its1 ++ (key, v) :: its2) :: post)).config
      ((splitDots key).map altKey) = .ok v' := by
  have hrun_app : hrun env s (pre ++ HOp.set (its1 ++ (key, v) :: its2) :: post) =
      hrun env (hstep env (hrun env s pre) (HOp.set (its1 ++ (key, v) :: its2))) post := by
    simp [hrun, List.foldl_append]
  rw [hrun_app]
  apply hrun_frame env _ _ _ _ hpost
  have hw0 := (wellKeyed_history env pre s hs hpre).1
  generalize hrun env s pre = s0 at hok hw0 ⊢
  simp only [hstep]
  have hw1 := wellKeyed_setItems env its1 s0.config [] hw0 h1ok
  rcases h1 : setItems env s0.config [] its1 with ⟨c1, r1, e1⟩
  rw [h1] at hw1
  rw [setItems_append, h1] at hok
  cases e1 with
  | some e => simp at hok
  | none =>
    simp only [] at hok
    rw [setItems] at hok
    split at hok
    · rename_i c2 r2 hset
      have hsame : Config.get c2 ((splitDots key).map altKey) = .ok v' := by
        unfold setItem at hset
        simp [hv, bind, Except.bind] at hset
        exact get_assign_twin _ _ _ _ _ _ hkey (twinFreeAlong_of_wellKeyed _ _ hw1) hset
      have : setItems env s0.config [] (its1 ++ (key, v) :: its2) = setItems env c2 (r1 ++ r2) its2 := by
        rw [setItems_append, h1]
        simp only []
        rw [setItems, hset]
      rw [this]
      exact setItems_frame env _ _ its2 _ _ h2 hsame
    · simp at hok

/-! ### `update_defaults` on a key it mentions -/

/-- **what `update_defaults({k: a})` does to the key it mentions** (a scalar default for a
top-level key other than `device`, from any state whose accumulated defaults merge to `cur`):
the call does not raise, appends the mapping to the defaults, and — under the spelling the
configuration already uses for `k` — writes the new default when the key is absent or when its
current value is (Python-)equal to the default registered so far (looked up under the spelling
the defaults use); a value the user has set to something else is kept.  Nothing else changes. -/
theorem updateDefaults_mentioned_leaf (env : Env) (s : State) (k : Key) (a : Atom) (cur : Dict)
    (hk : k ≠ "device".toList) (hm : merge env s.defaults = .ok cur) :
    (updateDefaultsP env s [(k, .leaf a)]).1.config =
      (match dget s.config (canonicalName k s.config) with
       | .none => dset s.config (canonicalName k s.config) (.leaf a)
       | some oldv =>
          match dget cur (defaultsKey (some (.node cur)) (canonicalName k s.config)) with
          | some dv => if pyEq dv oldv then dset s.config (canonicalName k s.config) (.leaf a) else s.config
          | .none => s.config) ∧
    (updateDefaultsP env s [(k, .leaf a)]).1.defaults = s.defaults ++ [[(k, .leaf a)]] ∧
    (updateDefaultsP env s [(k, .leaf a)]).2 = .none := by
  have hc : checkKeyVal env k (.leaf a) = .ok (.leaf a) := by
    unfold checkKeyVal; rw [if_neg hk]
  simp only [updateDefaultsP, normaliseTop, hc, hm, bind, Except.bind, updateP, updateLeaf, defaultMatches]
  cases hg : dget s.config (canonicalName k s.config) with
  | none => simp
  | some oldv =>
    simp only []
    cases hd : dget cur (defaultsKey (some (.node cur)) (canonicalName k s.config)) with
    | none => simp
    | some dv =>
      by_cases hp : pyEq dv oldv = true <;> simp [hp]

/-! ### exception safety over histories: rejected device requests -/

private def kdev : Key := "device".toList

/-- a default mapping that holds a rejected device request anywhere among its top-level items is
rejected as a whole by the validation loop at the top of `update_defaults` -/
theorem normaliseTop_reject (env : Env) (v : Tree) (e : Err) (hv : validateDevice env v = .error e) :
    ∀ (new : List (Key × Tree)), ("device".toList, v) ∈ new → ∃ e', normaliseTop env new = .error e' := by
  intro new
  induction new with
  | nil => intro h; simp at h
  | cons kv rest ih =>
    intro hm
    obtain ⟨k0, v0⟩ := kv
    simp only [List.mem_cons] at hm
    rcases hm with heq | hin
    · simp only [Prod.mk.injEq] at heq
      obtain ⟨hk, hv0⟩ := heq
      subst hk; subst hv0
      exact ⟨e, by simp [normaliseTop, checkKeyVal, hv, bind, Except.bind, Except.map]⟩
    · obtain ⟨e', he'⟩ := ih hin
      cases hc : checkKeyVal env k0 v0 with
      | error e0 => exact ⟨e0, by simp [normaliseTop, hc, bind, Except.bind]⟩
      | ok v1 => exact ⟨e', by simp [normaliseTop, hc, he', bind, Except.bind]⟩

/-- a device request the validation rejects, through any entry point: first item of a `set`
call or `with` block, or anywhere in the mapping handed to `update_defaults` -/
inductive Rejected (env : Env) : HOp → Prop
  | set (v : Tree) (rest : List (Key × Tree)) (e : Err) :
      validateDevice env v = .error e → Rejected env (.set (("device".toList, v) :: rest))
  | withBlock (v : Tree) (rest : List (Key × Tree)) (e : Err) :
      validateDevice env v = .error e → Rejected env (.withBlock (("device".toList, v) :: rest))
  | updateDefaults (new : Dict) (v : Tree) (e : Err) :
      ("device".toList, v) ∈ new → validateDevice env v = .error e → Rejected env (.updateDefaults new)

/-- **a rejected request raises and leaves the WHOLE module state unchanged** — configuration
(hence the stored device) and the accumulated defaults, so that a later `refresh` is not
poisoned by it -/
theorem rejected_noop (env : Env) (s : State) (op : HOp) (h : Rejected env op) :
    hstep env s op = s ∧ ∃ e, hstepErr env s op = some e := by
  cases h with
  | set v rest e hv =>
    have := device_reject env s.config [] v rest e hv
    exact ⟨by simp only [hstep]; rw [this], e, by simp only [hstepErr]; rw [this]⟩
  | withBlock v rest e hv =>
    have := device_reject env s.config [] v rest e hv
    exact ⟨by simp only [hstep]; rw [this], e, by simp only [hstepErr]; rw [this]⟩
  | updateDefaults new v e hm hv =>
    obtain ⟨e', he'⟩ := normaliseTop_reject env v e hv new hm
    exact ⟨by simp [hstep, updateDefaultsP, he'], e', by simp [hstepErr, updateDefaultsP, he']⟩

/-- **rejected requests can be dropped from any history**: a caller that catches the exceptions
and carries on ends in exactly the state it would have reached without ever making those calls
(so every history theorem above holds verbatim with rejected requests interleaved) -/
theorem rejected_history_erase (env : Env) (pre rej post : List HOp) (s : State)
    (h : ∀ op ∈ rej, Rejected env op) :
    hrun env s (pre ++ rej ++ post) = hrun env s (pre ++ post) := by
  have hrej : ∀ (rej : List HOp) (s : State), (∀ op ∈ rej, Rejected env op) → hrun env s rej = s := by
    intro rej
    induction rej with
    | nil => intro s _; rfl
    | cons op rest ih =>
      intro s h
      simp only [hrun, List.foldl_cons]
      rw [(rejected_noop env s op (h op (by simp))).1]
      exact ih s (fun o ho => h o (by simp [ho]))
  simp only [hrun, List.foldl_append]
  have := hrej rej (List.foldl (hstep env) s pre) h
  simp only [hrun] at this
  rw [this]

/-! ### `refresh(path=…)`: what the user's yaml files add on top of the defaults -/

/-- with no configuration directory `refresh(path)` is the hermetic `refresh()` of the history
theorems -/
theorem refreshFrom_missing (env : Env) (s : State) :
    refreshFromP env s .missing = refreshP env s := by
  unfold refreshFromP
  rcases h : refreshP env s with ⟨s1, e⟩
  cases e with
  | some e => rfl
  | none => simp [collect, collectYaml, merge, bind, Except.bind, updateP, pure, Except.pure]

/-- **refresh with yaml files** that does not raise: the configuration is the merge of the
accumulated defaults followed by the collected files (sorted by name, later files win), and
the defaults are untouched -/
theorem refreshFrom_spec (env : Env) (s s' : State) (pk : PathKind)
    (h : refreshFromP env s pk = (s', .none)) :
    ∃ c, collect env pk = .ok c ∧ merge env (s.defaults ++ [c]) = .ok s'.config ∧
      s'.defaults = s.defaults := by
  unfold refreshFromP at h
  rcases h1 : refreshP env s with ⟨s1, e1⟩
  rw [h1] at h
  cases e1 with
  | some e => simp at h
  | none =>
    simp only [] at h
    cases hc : collect env pk with
    | error e => simp [hc] at h
    | ok c =>
      simp only [hc] at h
      refine ⟨c, rfl, ?_, ?_⟩
      · have hs1 : merge env s.defaults = .ok s1.config := by
          simp only [refreshP] at h1
          rcases hgo : refreshP.go env [] s.defaults with ⟨cfg, e⟩
          rw [hgo] at h1
          simp only [Prod.mk.injEq] at h1
          obtain ⟨hs, he⟩ := h1
          subst he
          rw [← hs]
          exact refreshP_go_ok env _ _ _ hgo
        simp only [merge] at hs1 ⊢
        rw [List.foldlM_append, hs1]
        simp only [Prod.mk.injEq] at h
        obtain ⟨hcfg, herr⟩ := h
        rw [← hcfg]
        simp only [List.foldlM_cons, List.foldlM_nil, bind, Except.bind, update]
        rcases hu : updateP env Priority.new false s1.config none c with ⟨d, e⟩
        rw [hu] at herr
        simp only [] at herr
        subst herr
        simp [pure, Except.pure]
      · simp only [Prod.mk.injEq] at h
        rw [← h.1]
        have : s1.defaults = s.defaults := by
          have := refreshP_defaults env s
          rw [h1] at this
          exact this
        simpa using this

/-! ### `with set(...)` blocks with a body, `get` options -/

/-- entering a block and leaving it at once restores the state, also with other blocks open
around it (so `with A: with B: pass` is the identity as well) -/
theorem xenter_xexit_noop (env : Env) (x : XState) (items : List (Key × Tree))
    (h : (xenter env x items).2 = .none) : xexit (xenter env x items).1 = x := by
  unfold xenter at h ⊢
  rcases hs : setItems env x.s.config [] items with ⟨cfg, rec_, e⟩
  rw [hs] at h
  cases e with
  | some e => simp at h
  | none =>
    simp only [xexit]
    rw [with_block_restores env items x.s.config cfg rec_ .none hs]

/-- **`get` options**: a non-`None` `override_with` is returned whatever it is (0, False, ""
included); a stored value is returned whatever default is given; an absent key gives the
default whatever its truthiness; without a default the exception of the plain walk escapes -/
theorem get_options_spec (d : Dict) (keys : List Key) (dflt : Option Tree) :
    (∀ a, a ≠ Atom.none → getFull d keys dflt (.leaf a) = .ok (.leaf a)) ∧
    (∀ kvs, getFull d keys dflt (.node kvs) = .ok (.node kvs)) ∧
    (∀ t, Config.get d keys = .ok t → getFull d keys dflt (.leaf .none) = .ok t) ∧
    (∀ e dv, Config.get d keys = .error e → getFull d keys (some dv) (.leaf .none) = .ok dv) ∧
    (∀ e, Config.get d keys = .error e → getFull d keys .none (.leaf .none) = .error e) := by
  refine ⟨?_, ?_, ?_, ?_, ?_⟩
  · intro a ha; cases a <;> simp_all [getFull]
  · intro kvs; simp [getFull]
  · intro t h; simp [getFull, h]
  · intro e dv h; simp [getFull, h]
  · intro e h; simp [getFull, h]

/-! ### non-vacuity: concrete states meeting the hypotheses -/

private def kab : Key := ['a', '_', 'b']
private def kab' : Key := ['a', '-', 'b']
private def kviz : Key := ['v', 'i', 'z']
private def kcmap : Key := ['c', 'm', 'a', 'p']
private def kpc : Key := ['p', '-', 'c']
private def cfg0 : Dict :=
  [(kab, .leaf (.int 1)), (kviz, .node [(kcmap, .leaf (.str "gray"))])]

example : assign [kviz, kpc] (.leaf (.str "magma")) cfg0 true =
    .ok ([(kab, .leaf (.int 1)), (kviz, .node [(kcmap, .leaf (.str "gray")), (kpc, .leaf (.str "magma"))])],
         [.insert [kviz, kpc]]) := by rfl
example : assign [kab'] (.leaf (.int 2)) cfg0 true =
    .ok ([(kab, .leaf (.int 2)), (kviz, .node [(kcmap, .leaf (.str "gray"))])], [.replace [kab] (.leaf (.int 1))]) := by
  rfl
example : Apart cfg0 [kviz, kpc] [kviz, kcmap] := by
  unfold Apart
  right
  refine ⟨by rfl, by decide, [(kcmap, .leaf (.str "gray"))], by rfl, ?_⟩
  unfold Apart
  left
  decide
example : Uniform kab' ∧ Uniform kviz ∧ altKey kab' = kab ∧ TwinFreeAlong cfg0 [kab'] := by
  refine ⟨by unfold Uniform; decide, by unfold Uniform; decide, by decide, ?_, trivial⟩
  intro k hk hne
  simp only [dhas, cfg0, dget] at hk ⊢
  by_cases h1 : kab = k
  · subst h1; decide
  · by_cases h2 : kviz = k
    · subst h2; exact absurd (by decide) hne
    · simp [h1, h2] at hk
example : (setItems { cuda := false, mps := false, numDevices := 0 } cfg0 []
    [(kviz ++ ['.'] ++ kcmap, .leaf (.str "hot")), (kpc, .leaf (.int 3))]).2.2 = .none := by rfl

/-- a history meeting every hypothesis of `lww_history`: defaults are registered, a two-item
`set` writes `viz.cmap`, later calls write siblings and unrelated keys -/
private def env0 : Env := { cuda := false, mps := false, numDevices := 0 }
private def kvizcmap : Key := kviz ++ ['.'] ++ kcmap
private def kvizpc : Key := kviz ++ ['.'] ++ kpc
example : splitDots kvizcmap = [kviz, kcmap] ∧ splitDots kvizpc = [kviz, kpc] := by decide
example : Sep (splitDots kvizpc) (splitDots kvizcmap) := by
  show Sep [kviz, kpc] [kviz, kcmap]
  unfold Sep; right
  refine ⟨rfl, by decide, by decide, ?_⟩
  unfold Sep; left
  unfold Unrelated; decide
example :
    let pre := [HOp.set cfg0, HOp.withBlock [(kab', .leaf (.int 9))]]
    let s0 : State := { config := [], defaults := [cfg0] }
    checkKeyVal env0 kvizcmap (.leaf (.str "hot")) = .ok (.leaf (.str "hot")) ∧
    (setItems env0 (hrun env0 s0 pre).config [] ([(kab', .leaf (.int 4))] ++ [(kvizcmap, .leaf (.str "hot"))])).2.2 = .none ∧
    (∀ op ∈ [HOp.updateDefaults [(kab, .leaf (.int 7))], HOp.set [(kvizpc, .leaf (.int 3))]],
      Leaves (splitDots kvizcmap) op) := by
  refine ⟨by rfl, by rfl, ?_⟩
  intro op hop
  simp only [List.mem_cons, List.not_mem_nil, or_false] at hop
  rcases hop with rfl | rfl
  · show ∀ kv ∈ [(kab, Tree.leaf (.int 7))], Unrelated kv.1 kviz
    intro kv hkv
    simp at hkv
    subst hkv
    unfold Unrelated; decide
  · show ∀ kv ∈ [(kvizpc, Tree.leaf (.int 3))], Sep (splitDots kv.1) [kviz, kcmap]
    intro kv hkv
    simp at hkv
    subst hkv
    show Sep [kviz, kpc] [kviz, kcmap]
    unfold Sep; right
    refine ⟨rfl, by decide, by decide, ?_⟩
    unfold Sep; left
    unfold Unrelated; decide

/-- the hypotheses of `lww_history_twin` are satisfiable: `cfg0` is well keyed, and writing
`a-b` is read back as `a_b` -/
example : WellKeyed (.node cfg0) := by
  have h1 := wellKeyed_dset [] kab (.leaf (.int 1)) wellKeyed_nil (by unfold Uniform; decide) (.leaf _)
  have hsub := wellKeyed_dset [] kcmap (.leaf (.str "gray")) wellKeyed_nil (by unfold Uniform; decide) (.leaf _)
  exact wellKeyed_dset _ kviz _ h1 (by unfold Uniform; decide) hsub
example : ItemsOK [(kab', .leaf (.int 2))] ∧ (∀ c ∈ splitDots kab', Uniform c) ∧
    (splitDots kab').map altKey = [kab] ∧
    (setItems env0 cfg0 [] ([] ++ [(kab', .leaf (.int 2))])).2.2 = .none ∧
    Config.get (setItems env0 cfg0 [] [(kab', .leaf (.int 2))]).1 [kab] = .ok (.leaf (.int 2)) := by
  have hu : ∀ c ∈ splitDots kab', Uniform c := by
    intro c hc
    have : splitDots kab' = [kab'] := by decide
    rw [this] at hc
    simp at hc
    subst hc
    unfold Uniform; decide
  refine ⟨?_, hu, by decide, by rfl, by rfl⟩
  intro kv hkv
  simp at hkv
  subst hkv
  exact ⟨hu, .leaf _⟩

example : StateOK { config := cfg0, defaults := [] } := by
  refine ⟨?_, by simp⟩
  have h1 := wellKeyed_dset [] kab (.leaf (.int 1)) wellKeyed_nil (by unfold Uniform; decide) (.leaf _)
  have hsub := wellKeyed_dset [] kcmap (.leaf (.str "gray")) wellKeyed_nil (by unfold Uniform; decide) (.leaf _)
  exact wellKeyed_dset _ kviz _ h1 (by unfold Uniform; decide) hsub
example : OpOK (.updateDefaults [(kab', .leaf (.int 7))]) ∧ OpOK .refresh := by
  refine ⟨.node _ ?_ ?_, trivial⟩
  · intro k t h; simp at h; rw [h.1]; unfold Uniform; decide
  · intro k t h; simp at h; rw [h.2]; exact .leaf _

/-! non-vacuity of the growth-5 theorems -/
private def envC : Env := { cuda := true, mps := false, numDevices := 2 }

/-- accepted requests in a CUDA environment, a request at the device count, malformed strings -/
example : validateDeviceFull envC (.leaf (.int 1)) = .ok (.str "cuda:1", 1) ∧
    validateDeviceFull envC (.leaf (.int 2)) = .error .runtimeError ∧
    validateDeviceFull env0 (.leaf (.str "CPU")) = .ok (.str "cpu", -1) ∧
    validateDeviceFull envC (.leaf (.str "xgpux")) = .error .valueError ∧
    validateDeviceFull envC (.leaf (.str "GPU")) = .ok (.str "cuda:0", 0) ∧
    validateDeviceFull envC (.leaf (.bool true)) = .error .runtimeError := ⟨rfl, rfl, rfl, rfl, rfl, rfl⟩
example : Accepted envC (.str "cuda:1") 1 := .cuda 1 rfl (by decide)

/-- rejected requests through the three entry points, and a history with them interleaved -/
example : Rejected env0 (.set [("device".toList, .leaf (.int (-1))), (kab, .leaf (.int 3))]) ∧
    Rejected env0 (.updateDefaults [(kab, .leaf (.int 3)), ("device".toList, .leaf (.str "tpu"))]) :=
  ⟨.set _ _ .valueError rfl, .updateDefaults _ (.leaf (.str "tpu")) .valueError (by simp) rfl⟩
example : (hrun env0 { config := cfg0, defaults := [] }
      [.updateDefaults [(kab, .leaf (.int 3)), ("device".toList, .leaf (.str "tpu"))], .refresh]).defaults = [] := by rfl

/-- a refresh that reads one user file on top of one default mapping -/
example : refreshFromP env0 { config := [], defaults := [cfg0] } (.file (.dict [(kab', .leaf (.int 5))])) =
    ({ config := [(kab, .leaf (.int 5)), (kviz, .node [(kcmap, .leaf (.str "gray"))])], defaults := [cfg0] }, .none) := by
  simp [refreshFromP, refreshP, refreshP.go, collect, collectYaml, loadFiles, merge, update, updateP, updateLeaf,
    checkKeyVal, canonicalName, defaultsGet, dhas, dget, dset, altKey, swapSU, cfg0, kab, kab', kviz, kcmap,
    bind, Except.bind, pure, Except.pure]
example : (sortByName [⟨"b.yml", .empty⟩, ⟨"B.yaml", .empty⟩, ⟨"10.yaml", .empty⟩]).map (·.name) =
    ["10.yaml", "B.yaml", "b.yml"] := by rfl
example : loadFiles [.empty, .dict cfg0, .unreadable] = .ok [cfg0] ∧ loadFiles [.dict cfg0, .nonDict] = .error .valueError :=
  ⟨rfl, rfl⟩

/-- `update_defaults` on a mentioned key: the hypotheses are satisfiable -/
example : kab ≠ "device".toList ∧ merge env0 [] = .ok [] := ⟨by decide, rfl⟩

/-- a block entered inside another open block -/
example : (xenter env0 { s := { config := cfg0, defaults := [] }, stack := [[.insert [kpc]]] }
    [(kab', .leaf (.int 2)), (kvizpc, .leaf (.int 1))]).2 = .none := by rfl

/-- falsy override / default values -/
example : getFull cfg0 [kpc] (some (.leaf (.int 0))) (.leaf .none) = .ok (.leaf (.int 0)) ∧
    getFull cfg0 [kab] .none (.leaf (.bool false)) = .ok (.leaf (.bool false)) ∧
    getFull cfg0 [kab'] (some (.leaf (.int 0))) (.leaf .none) = .ok (.leaf (.int 1)) := ⟨rfl, rfl, rfl⟩

end QuantemModel.Props.C19
