import QuantemModel.Lemmas.Dataset
import QuantemModel.Lemmas.DatasetCrop
import QuantemModel.Lemmas.DatasetHeap
import QuantemModel.Lemmas.DatasetExt
/-!
C03 — Dataset containers stay coherent under any history of operations.
Theorems about the state machine `Model/Dataset.lean` (array + calibration + class under
construction, copy, setters, pad, crop, bin, fourier_resample, `__getitem__`).
Only property theorems and non-vacuity examples live here.
-/
namespace QuantemModel.Props.C03
open QuantemModel.Nd QuantemModel.Resample QuantemModel.Dataset

/-- **construction**: whatever class, shape, calibration arguments (scalars, lists, defaults),
a `from_array` that does not raise yields a coherent dataset. -/
theorem inv_new {cls : DsClass} {shape : List Nat} {data : Option (List Val)} {kind : Kind}
    {o s : Option NdInfo} {u : Option UnitsArg} {d : Ds}
    (hd : dataOk shape data) (h : fromArray cls shape data kind o s u = .ok d) : Inv d :=
  fromArray_inv hd h

/-- **one step**: every public operation that does not raise maps a coherent receiver to a
coherent receiver and (when it returns a dataset) a coherent result: origin, sampling and
units have one entry per array axis, the class matches the dimensionality.  The alphabet
includes the subclass methods that return datasets: `Dataset4dstem.get_dp_mean / _max /
_median`, `Dataset4dstem.get_virtual_image(mask)` and `Dataset3d.to_dataset2d()[k]`. -/
theorem inv_step {d d' : Ds} {op : Op} {r : Option Ds} (hi : Inv d) (hw : op.WF)
    (h : step d op = .ok (d', r)) : Inv d' ∧ ∀ x, r = some x → Inv x := by
  cases op with
  | copy =>
    simp only [step, copy_eq hi] at h
    simp at h; obtain ⟨rfl, rfl⟩ := h
    exact ⟨hi, by intro x hx; simp at hx; subst hx; exact hi⟩
  | setOrigin v =>
    simp only [step] at h
    split at h
    · simp at h
    · rename_i x hx
      simp at h; obtain ⟨rfl, rfl⟩ := h
      exact ⟨setOrigin_inv hi hx, by intro x hx; simp at hx⟩
  | setSampling v =>
    simp only [step] at h
    split at h
    · simp at h
    · rename_i x hx
      simp at h; obtain ⟨rfl, rfl⟩ := h
      exact ⟨setSampling_inv hi hx, by intro x hx; simp at hx⟩
  | setUnits v =>
    simp only [step] at h
    split at h
    · simp at h
    · rename_i x hx
      simp at h; obtain ⟨rfl, rfl⟩ := h
      exact ⟨setUnits_inv hi hx, by intro x hx; simp at hx⟩
  | setArray sh dat k =>
    simp only [step] at h
    split at h
    · simp at h
    · rename_i x hx
      simp at h; obtain ⟨rfl, rfl⟩ := h
      exact ⟨setArray_inv hi hw hx, by intro x hx; simp at hx⟩
  | touch =>
    simp only [step] at h
    simp at h; obtain ⟨rfl, rfl⟩ := h
    exact ⟨hi, by intro x hx; simp at hx⟩
  | pad a ip =>
    exact normal_inv (pad_normal hi a) hi (fun _ _ hc => pad_inv hi hc) h
  | crop w a ip =>
    exact normal_inv (crop_normal hi w a) hi (fun _ _ hc => crop_inv hi hc) h
  | bin f a m b ip =>
    exact normal_inv (bin_normal hi f a m b) hi (fun _ _ hc => bin_inv hi hc) h
  | resample a ax ip =>
    exact normal_inv (resample_normal hi a ax) hi (fun _ _ hc => resample_inv hi hc) h
  | getitem ix =>
    simp only [step] at h
    split at h
    · simp at h
    · rename_i x hx
      simp at h; obtain ⟨rfl, rfl⟩ := h
      exact ⟨hi, by intro y hy; simp at hy; subst hy; exact getitem_inv hx⟩
  | dpReduce k =>
    simp only [step] at h
    split at h
    · simp at h
    · rename_i x hx
      simp at h; obtain ⟨rfl, rfl⟩ := h
      exact ⟨hi, by intro y hy; simp at hy; subst hy; exact dpReduce_inv hx⟩
  | virtualImage ms m =>
    simp only [step] at h
    split at h
    · simp at h
    · rename_i x hx
      simp at h; obtain ⟨rfl, rfl⟩ := h
      exact ⟨hi, by intro y hy; simp at hy; subst hy; exact virtualImage_inv hx⟩
  | frame k =>
    simp only [step] at h
    split at h
    · simp at h
    · rename_i x hx
      simp at h; obtain ⟨rfl, rfl⟩ := h
      exact ⟨hi, by intro y hy; simp at hy; subst hy; exact frame_inv hx⟩

/-- **any history**: coherence holds after every finite sequence of operations (raising
operations included: they leave the receiver), whichever of receiver / returned dataset each
step continues on.  Induction over the operation list — no depth bound. -/
theorem inv_run (ops : List (Op × Bool)) (hw : ∀ p ∈ ops, p.1.WF) :
    ∀ d : Ds, Inv d → Inv (run d ops) := by
  induction ops with
  | nil => intro d hi; exact hi
  | cons p rest ih =>
    intro d hi
    obtain ⟨op, follow⟩ := p
    have hw' : ∀ q ∈ rest, q.1.WF := fun q hq => hw q (by simp [hq])
    have hop : op.WF := hw (op, follow) (by simp)
    simp only [run]
    split
    · exact ih hw' d hi
    · rename_i d' r hs
      have := inv_step hi hop hs
      split
      · rename_i x
        exact ih hw' x (this.2 x rfl)
      · exact ih hw' d' this.1

/-- **operations that return a new dataset leave the source as it was** (model level: data
and calibration of the receiver are returned unchanged; aliasing is outside a pure model and
is covered by the bit-identical check of the correspondence run). -/
theorem pure_leaves_source {d d' x : Ds} {op : Op} (hi : Inv d)
    (h : step d op = .ok (d', some x)) : d' = d := by
  cases op with
  | copy => simp only [step, copy_eq hi] at h; simp at h; exact h.1.symm
  | setOrigin v => simp only [step] at h; split at h <;> simp at h
  | setSampling v => simp only [step] at h; split at h <;> simp at h
  | setUnits v => simp only [step] at h; split at h <;> simp at h
  | setArray sh dat k => simp only [step] at h; split at h <;> simp at h
  | touch => simp [step] at h
  | getitem ix => simp only [step] at h; split at h <;> simp at h; exact h.1.symm
  | dpReduce k => simp only [step] at h; split at h <;> simp at h; exact h.1.symm
  | virtualImage ms m => simp only [step] at h; split at h <;> simp at h; exact h.1.symm
  | frame k => simp only [step] at h; split at h <;> simp at h; exact h.1.symm
  | pad a ip =>
    simp only [step] at h; rw [pad_normal hi a ip] at h
    split at h
    · simp at h
    · cases ip <;> simp at h; exact h.1.symm
  | crop w a ip =>
    simp only [step] at h; rw [crop_normal hi w a ip] at h
    split at h
    · simp at h
    · cases ip <;> simp at h; exact h.1.symm
  | bin f a m b ip =>
    simp only [step] at h; rw [bin_normal hi f a m b ip] at h
    split at h
    · simp at h
    · cases ip <;> simp at h; exact h.1.symm
  | resample a ax ip =>
    simp only [step] at h; rw [resample_normal hi a ax ip] at h
    split at h
    · simp at h
    · cases ip <;> simp at h; exact h.1.symm

/-- **in place ≡ copy**: for pad, crop, bin and fourier_resample, on a coherent dataset,
the in-place variant stores in the receiver exactly the dataset (array, calibration, class)
that the copying variant returns, the copying variant leaves the receiver, and both raise
the same error in the same cases. -/
theorem inplace_eq_copy {d : Ds} (hi : Inv d) (op : Op) (hop : op.inplace? ≠ none) :
    (∀ e, step d (op.setInplace true) = .error e ↔ step d (op.setInplace false) = .error e) ∧
    (∀ a r, step d (op.setInplace true) = .ok (a, r) ↔
        (r = none ∧ step d (op.setInplace false) = .ok (d, some a))) := by
  have key : ∀ f : Bool → Except Err (Ds × Option Ds), NormalForm d f →
      (∀ e, f true = .error e ↔ f false = .error e) ∧
      (∀ a r, f true = .ok (a, r) ↔ (r = none ∧ f false = .ok (d, some a))) := by
    intro f hn
    have h1 := hn true
    have h0 := hn false
    cases hc : f true with
    | error e0 =>
      rw [hc] at h0
      simp only at h0
      constructor
      · intro e; rw [h0]
      · intro a r; rw [h0]; simp
    | ok p =>
      obtain ⟨a0, r0⟩ := p
      rw [hc] at h0 h1
      simp only [if_true] at h1
      simp only [Bool.false_eq_true, if_false] at h0
      constructor
      · intro e; rw [h0]; simp
      · intro a r
        rw [h0]
        have hr0 : r0 = none := by simp at h1; exact h1
        subst hr0
        constructor
        · intro h; simp at h; obtain ⟨rfl, rfl⟩ := h; simp
        · rintro ⟨rfl, h⟩; simp at h; subst h; rfl
  cases op with
  | pad a ip => exact key _ (pad_normal hi a)
  | crop w a ip => exact key _ (crop_normal hi w a)
  | bin f a m b ip => exact key _ (bin_normal hi f a m b)
  | resample a ax ip => exact key _ (resample_normal hi a ax)
  | copy => simp [Op.inplace?] at hop
  | setOrigin v => simp [Op.inplace?] at hop
  | setSampling v => simp [Op.inplace?] at hop
  | setUnits v => simp [Op.inplace?] at hop
  | setArray sh dat k => simp [Op.inplace?] at hop
  | touch => simp [Op.inplace?] at hop
  | getitem ix => simp [Op.inplace?] at hop
  | dpReduce k => simp [Op.inplace?] at hop
  | virtualImage ms m => simp [Op.inplace?] at hop
  | frame k => simp [Op.inplace?] at hop

/-- **indexing**: on a coherent dataset, `ds[ix]` (integers, slices with any step, Ellipsis, at
most one list) succeeds exactly when NumPy's index normalisation `plan` does and leaves at
least one axis (or has an Ellipsis); the result has one axis per kept source axis, in NumPy's
order `p.order`; result axis `k` carries origin and units of source axis `p.order[k]` and its
sampling multiplied by the slice step; the class is the receiver's if the dimensionality is
unchanged and the registered one otherwise; and the data is the gather through the same axis
map: `result[j] = source[srcIdx p.sels p.order j]`. -/
theorem getitem_spec {d r : Ds} {ix : List Item} (hi : Inv d) (h : getitem d ix = .ok r) :
    ∃ p, plan d.shape ix = .ok p ∧ p.multiList = false ∧
      r.shape = p.order.map (fun ax => (p.sels.getD ax default).len) ∧
      r.origin = p.order.map (fun ax => d.origin.getD ax 0) ∧
      r.sampling = p.order.map
        (fun ax => d.sampling.getD ax 0 * ((p.sels.getD ax default).step : Rat)) ∧
      r.units = p.order.map (fun ax => d.units.getD ax "") ∧
      r.cls = (if p.order.length = d.ndim then d.cls else registry p.order.length) ∧
      r.kind = d.kind ∧
      (∀ dat, d.data = some dat → ∃ dat', r.data = some dat' ∧
        ∀ j, InBox r.shape j →
          (⟨r.shape, dat'⟩ : Arr Val).get j
            = (⟨d.shape, dat⟩ : Arr Val).get (srcIdx p.sels p.order j)) := by
  unfold getitem at h
  split at h
  · simp at h
  · rename_i p hp
    split at h
    · simp at h
    · rename_i hml
      simp only at h
      split at h
      · simp at h
      · have hlen : p.shape.length = p.order.length := by simp [Plan.shape]
        rw [fromArray_lists_ok (by rw [hlen]; simpa [hlen] using classOk_getitem hi p.order.length)
          (by simp [calibOrder, Plan.shape]) (by simp [calibOrder, Plan.shape])
          (by simp [calibOrder, Plan.shape])] at h
        simp at h
        subst h
        refine ⟨p, hp, by simpa using hml, rfl, rfl, rfl, rfl, by simp [hlen], rfl, ?_⟩
        intro dat hdat
        refine ⟨(applyPlan ⟨d.shape, dat⟩ p).data, by simp [planData, hdat], ?_⟩
        intro j hj
        exact build_get p.shape _ hj

/-- **kept axes, in order**: for an index expression with at most one list, the axes of the
result are exactly the source axes that are not indexed by an integer, each exactly once; they
come in source order unless NumPy's advanced-index rule applies (integers and a list not next
to each other in the expression), in which case the list axis comes first; and result axis `k`
reads source axis `p.order[k]` through its own selector (`Sel.at`: `start + step·t` for a
slice, the `t`-th entry for a list) while integer axes are fixed. -/
theorem getitem_axes {shape : List Nat} {ix : List Item} {p : Plan} (h : plan shape ix = .ok p)
    (hm : p.multiList = false) :
    p.items.length = shape.length ∧ p.order.Nodup ∧
    (∀ a, a ∈ p.order ↔ a < shape.length ∧ (p.items.getD a default).isInt = false) ∧
    (advSeparated ix = false → p.order.Pairwise (· < ·)) ∧
    (∀ j k (hk : k < p.order.length), p.order[k] < p.sels.length →
      (srcIdx p.sels p.order j)[p.order[k]]? = some ((p.sels.getD p.order[k] default).at (j.getD k 0))) := by
  obtain ⟨h1, h2⟩ := plan_ok h
  have hlen := expandItems_length h1
  have ho := h2 hm
  refine ⟨hlen, ?_, ?_, ?_, ?_⟩
  · rw [ho]; exact npOrder_nodup _ _
  · intro a; rw [ho, mem_npOrder, hlen]
  · intro hs; rw [ho, hs]; exact npOrder_sorted _
  · intro j k hk ha
    exact srcIdx_axis p.sels p.order j (by rw [ho]; exact npOrder_nodup _ _) k hk ha

/-- **datasets derived from a `Dataset4dstem` carry the right axes' calibration**: on a coherent
4D-STEM dataset, `get_dp_mean / get_dp_max / get_dp_median` always succeed and return a
`Dataset2d` over the two diffraction axes with *their* origin, sampling and units (and, for the
mean, each pixel is the exact mean over all scan positions); `get_virtual_image(mask)` succeeds
exactly when the mask has the diffraction-pattern shape and returns a `Dataset2d` over the two
scan axes with their calibration, each pixel being `Σ array·mask` over the pattern. -/
theorem derived_4dstem_spec {d : Ds} (hi : Inv d) (hc : d.cls = .d4stem) :
    (∀ k, ∃ r, dpReduce d k = .ok r ∧ r.cls = .d2 ∧ r.shape = d.shape.drop 2 ∧
        r.origin = d.origin.drop 2 ∧ r.sampling = d.sampling.drop 2 ∧ r.units = d.units.drop 2) ∧
    (∀ dat, d.data = some dat → ∃ r out, dpReduce d .mean = .ok r ∧ r.data = some out ∧
        ∀ j, InBox (d.shape.drop 2) j → (⟨d.shape.drop 2, out⟩ : Arr Val).get j
          = (((allIdx (d.shape.take 2)).map fun s => (⟨d.shape, dat⟩ : Arr Val).get (s ++ j)).sum).divNat
              (d.shape.getD 0 0 * d.shape.getD 1 0)) ∧
    (∀ ms m, (∃ e, virtualImage d ms m = .error e) ↔ ms ≠ d.shape.drop 2) ∧
    (∀ m, ∃ r, virtualImage d (d.shape.drop 2) m = .ok r ∧ r.cls = .d2 ∧ r.shape = d.shape.take 2 ∧
        r.origin = d.origin.take 2 ∧ r.sampling = d.sampling.take 2 ∧ r.units = d.units.take 2 ∧
        ∀ dat, d.data = some dat → ∃ out, r.data = some out ∧
          ∀ s, InBox (d.shape.take 2) s → (⟨d.shape.take 2, out⟩ : Arr Val).get s
            = ((allIdx (d.shape.drop 2)).map fun j =>
                (⟨d.shape, dat⟩ : Arr Val).get (s ++ j) * (⟨d.shape.drop 2, m⟩ : Arr Val).get j).sum) := by
  obtain ⟨ho, hs, hu, hcl, _⟩ := hi
  have h4 : d.shape.length = 4 := hcl 4 (by rw [hc]; rfl)
  simp only [Ds.ndim] at ho hs hu
  have l2 : ∀ {β : Type} (l : List β), l.length = 4 → last2 l = l.drop 2 := by
    intro β l hl; simp [last2, hl]
  have hok2 : classOk .d2 (d.shape.drop 2).length := by
    intro k hk; simp [DsClass.reqNdim] at hk; simp [h4, ← hk]
  have hok2' : classOk .d2 (d.shape.take 2).length := by
    intro k hk; simp [DsClass.reqNdim] at hk; simp [h4, ← hk]
  have hdp : ∀ k, ∃ r, dpReduce d k = .ok r ∧ r.cls = .d2 ∧ r.shape = d.shape.drop 2 ∧
      r.origin = d.origin.drop 2 ∧ r.sampling = d.sampling.drop 2 ∧ r.units = d.units.drop 2 ∧
      r.data = (match k with | .mean => d.data.map (dpMeanData d.shape) | _ => none) := by
    intro k
    unfold dpReduce
    simp only [hc, ne_eq, not_true_eq_false, if_false]
    rw [l2 _ (ho.trans h4), l2 _ (hs.trans h4), l2 _ (hu.trans h4),
      fromArray_lists_ok hok2 (by simp [ho, h4]) (by simp [hs, h4]) (by simp [hu, h4])]
    exact ⟨_, rfl, rfl, rfl, rfl, rfl, rfl, rfl⟩
  refine ⟨fun k => by obtain ⟨r, h1, h2, h3, h4', h5, h6, _⟩ := hdp k; exact ⟨r, h1, h2, h3, h4', h5, h6⟩, ?_, ?_, ?_⟩
  · intro dat hdat
    obtain ⟨r, h1, _, _, _, _, _, h7⟩ := hdp .mean
    refine ⟨r, dpMeanData d.shape dat, h1, by rw [h7, hdat]; rfl, ?_⟩
    intro j hj
    exact build_get _ _ hj
  · intro ms m
    constructor
    · rintro ⟨e, he⟩ hms
      unfold virtualImage at he
      simp only [hc, ne_eq, not_true_eq_false, if_false, l2 _ h4, hms] at he
      rw [fromArray_lists_ok hok2' (by simp [ho, h4]) (by simp [hs, h4]) (by simp [hu, h4])] at he
      simp at he
    · intro hms
      exact ⟨.value, by unfold virtualImage; simp [hc, l2 _ h4, hms]⟩
  · intro m
    unfold virtualImage
    simp only [hc, ne_eq, not_true_eq_false, if_false, l2 _ h4]
    rw [fromArray_lists_ok hok2' (by simp [ho, h4]) (by simp [hs, h4]) (by simp [hu, h4])]
    refine ⟨_, rfl, rfl, rfl, rfl, rfl, rfl, ?_⟩
    intro dat hdat
    refine ⟨virtualImageData d.shape dat m, by simp [hdat], ?_⟩
    intro s hs'
    exact build_get _ _ hs'

/-- **frames of a `Dataset3d`**: `to_dataset2d()[k]` is `ds[k]` for `k < shape[0]` (so
`getitem_spec` applies: a `Dataset2d` over axes 1, 2 with their calibration), an IndexError
beyond, and not available on other classes. -/
theorem frame_spec (d : Ds) (k : Nat) :
    (d.cls = .d3 → k < d.shape.getD 0 0 → frame d k = getitem d [.int (k : Int)]) ∧
    (d.cls = .d3 → ¬ k < d.shape.getD 0 0 → frame d k = .error .index) ∧
    (d.cls ≠ .d3 → frame d k = .error .attribute) := by
  refine ⟨?_, ?_, ?_⟩
  · intro hc hk; unfold frame; rw [if_neg (by simp [hc]), if_pos hk]
  · intro hc hk; unfold frame; rw [if_neg (by simp [hc]), if_neg hk]
  · intro hc; simp [frame, hc]

/-- **two or more lists**: NumPy then indexes pointwise (the lists are broadcast against each
other into a single result axis), so there are more kept calibration entries than result
axes; `__getitem__` never returns an incoherent dataset for such an expression — whenever NumPy
accepts it, the call raises (ValueError from the calibration validators), and nothing else
happens to the receiver (`step` returns an error). -/
theorem getitem_multilist_raises {d : Ds} {ix : List Item} {p : Plan} (h : plan d.shape ix = .ok p)
    (hm : p.multiList = true) :
    getitem d ix = .error .value ∧ step d (.getitem ix) = .error .value := by
  have h1 : getitem d ix = .error .value := by
    unfold getitem; rw [h]; simp [hm]
  exact ⟨h1, by simp [step, h1]⟩

/-! ### aliasing: the heap layer (`Model/DatasetHeap.lean`) — every dataset object holds a
reference to the buffer behind its `array` and to its `origin` / `sampling` arrays -/

section Heap
open QuantemModel.DatasetHeap

/-- **the no-sharing contract holds after every history**: from the empty heap, after any
finite sequence of constructions, copies, copying and in-place pad/crop/bin/fourier_resample,
indexing (views and copies), derived datasets, setters and element-wise updates: every cell
is allocated, origin and sampling of a dataset are different arrays, two different datasets
never hold a common origin/sampling array, and no calibration array is a data buffer. -/
theorem alias_inv_all_histories (ops : List HOp) : HInv (run init ops) :=
  hinv_run ops init hinv_init

/-- **no operation on one dataset changes another one** (`alias_free_all_histories`): after any
history, whatever operation comes next — in-place operation, setter, element-wise update
(`ds.sampling *= 2`, `ds.origin[0] = 3`) or an operation returning a new dataset — every other
existing dataset `j` shows the same calibration as before, and the same data unless the
operation is an element write into the array of a dataset holding the very same buffer (the
documented exception: `__getitem__` views). -/
theorem alias_free_all_histories (ops : List HOp) (op : HOp) (j : Nat)
    (hj : j < (run init ops).objs.length) (hr : recv op ≠ some j) :
    obsCal (step (run init ops) op) j = obsCal (run init ops) j ∧
    (obsArr (step (run init ops) op) j = obsArr (run init ops) j ∨
      ∃ i v oi oj, op = .writeArray i v ∧ (run init ops).objs[i]? = some oi ∧
        (run init ops).objs[j]? = some oj ∧ oi.buf = oj.buf) :=
  step_frame (alias_inv_all_histories ops) op j hj hr

/-- **what a returned dataset holds**: after any history, `copy()`, the copying variants of
pad/crop/bin/fourier_resample, list indexing and the derived datasets return an object whose
array buffer, origin and sampling are all newly allocated (ids beyond everything any existing
dataset holds); a `__getitem__` view shares exactly one cell with its source — the array
buffer — while its origin and sampling are new. -/
theorem returned_datasets_fresh (ops : List HOp) (i : Nat) (oi : Obj)
    (hi : (run init ops).objs[i]? = some oi) :
    (∀ op ∈ [HOp.copy i, .padCp i, .cropCp i, .binCp i, .resampleCp i, .getitemCopy i, .derived i],
      (step (run init ops) op).objs = (run init ops).objs ++
          [⟨(run init ops).next, (run init ops).next + 1, (run init ops).next + 2⟩] ∧
      ∀ o ∈ (run init ops).objs, o.buf < (run init ops).next ∧ o.org < (run init ops).next ∧
        o.smp < (run init ops).next) ∧
    ((step (run init ops) (.getitemView i)).objs = (run init ops).objs ++
          [⟨oi.buf, (run init ops).next, (run init ops).next + 1⟩] ∧
      ∀ o ∈ (run init ops).objs, o.org < (run init ops).next ∧ o.smp < (run init ops).next ∧
        o.buf ≠ (run init ops).next ∧ o.buf ≠ (run init ops).next + 1) :=
  returned_cells (alias_inv_all_histories ops) i oi hi

-- non-vacuity: a history with a copy, a view, an in-place pad and element-wise updates
example : (run init [.new, .copy 0, .getitemView 0, .writeSampling 1 5, .padIp 0]).objs
    = [⟨8, 1, 2⟩, ⟨3, 4, 5⟩, ⟨0, 6, 7⟩] := rfl
example : recv (.writeSampling 1 5) ≠ some 0 := by simp [recv]

end Heap

/-! ### dtype kind (bool / int / float / complex) through the operations -/

/-- **dtype rules, for every operation and every dtype kind**: on a coherent dataset the result
of the in-place variant (hence, by `inplace_eq_copy`, the dataset returned by the copying
variant — same dtype included) has kind: pad, crop — unchanged; bin — `binKind` (`np.sum` makes
booleans integers, the mean reducer makes booleans and integers floats, floats and complex stay);
fourier_resample — complex stays complex, everything else becomes float; the `array` setter —
the kind of the array assigned (never cast back to the old dtype). -/
theorem dtype_rules {d a : Ds} {r : Option Ds} :
    (∀ arg, step d (.pad arg true) = .ok (a, r) → a.kind = d.kind) ∧
    (∀ w ax, step d (.crop w ax true) = .ok (a, r) → a.kind = d.kind) ∧
    (∀ f ax m b, step d (.bin f ax m b true) = .ok (a, r) → a.kind = binKind d.kind m) ∧
    (∀ arg ax, step d (.resample arg ax true) = .ok (a, r) →
        a.kind = (if d.kind = .complex then .complex else .float)) ∧
    (∀ sh dat k, step d (.setArray sh dat k) = .ok (a, r) → a.kind = k) := by
  refine ⟨?_, ?_, ?_, ?_, ?_⟩
  · intro arg h
    simp only [step, pad] at h
    split at h
    · simp at h
    · simp at h; rw [← h.1]
  · intro w ax h
    simp only [step, crop] at h
    split at h
    · simp at h
    · split at h
      · simp at h
      · simp only [if_true] at h
        split at h
        · simp at h
        · rename_i x hx
          simp at h
          rw [← h.1]
          unfold setArray at hx
          split at hx
          · simp at hx
          · simp at hx; rw [← hx]
  · intro f ax m b h
    simp only [step, bin] at h
    split at h
    · simp at h
    · split at h
      · simp at h
      · split at h
        · simp at h
        · split at h
          · simp at h
          · simp at h; rw [← h.1]
  · intro arg ax h
    simp only [step, resample] at h
    split at h
    · simp at h
    · split at h
      · simp at h
      · split at h
        · simp at h
        · split at h
          · simp at h
          · simp at h
            rw [← h.1]
  · intro sh dat k h
    simp only [step] at h
    split at h
    · simp at h
    · rename_i x hx
      simp at h
      rw [← h.1]
      unfold setArray at hx
      split at hx
      · simp at hx
      · simp at hx; rw [← hx]

/-- the dtype table of `bin` -/
theorem binKind_table :
    binKind .bool false = .int ∧ binKind .int false = .int ∧ binKind .float false = .float ∧
    binKind .complex false = .complex ∧ binKind .bool true = .float ∧ binKind .int true = .float ∧
    binKind .float true = .float ∧ binKind .complex true = .complex := by decide

/-! ### Ellipsis expansion -/

/-- **one Ellipsis, at any position, also standing for no axis**: with `pre` items before and
`post` items after it (none of them an Ellipsis, together at most `ndim`), the expression is
normalised to `pre ++ (ndim - |pre| - |post|) full slices ++ post` — `getitem_spec` /
`getitem_axes` then describe the result through exactly these items; without an Ellipsis the
expression is padded with trailing full slices; **two Ellipses are rejected** (IndexError), and
so are more items than axes. -/
theorem ellipsis_expansion (nd : Nat) (pre post : List Item)
    (hpre : ∀ it ∈ pre, it.isEllipsis = false) (hpost : ∀ it ∈ post, it.isEllipsis = false) :
    (pre.length + post.length ≤ nd →
      expandItems nd (pre ++ [Item.ellipsis] ++ post)
        = .ok (pre ++ List.replicate (nd - pre.length - post.length) Item.full ++ post)) ∧
    (pre.length ≤ nd → expandItems nd pre = .ok (pre ++ List.replicate (nd - pre.length) Item.full)) ∧
    (∀ mid, (∀ it ∈ mid, it.isEllipsis = false) →
      expandItems nd (pre ++ [Item.ellipsis] ++ mid ++ [Item.ellipsis] ++ post) = .error .index) ∧
    (nd < pre.length → expandItems nd pre = .error .index) :=
  ⟨fun hle => ellipsis_one nd pre post hpre hpost hle, (ellipsis_none nd pre hpre).1,
   fun mid hmid => ellipsis_two nd pre mid post hpre hmid hpost, (ellipsis_none nd pre hpre).2⟩

/-! ### exact error guards -/

/-- `crop` without `axes` raises exactly when `crop_widths` does not have one entry per axis
(ValueError): with the right number of entries the slices `slice(before, after or None)` are
always accepted, whatever their values. -/
theorem crop_all_error_iff {d : Ds} (ws : List (Int × Int)) (ip : Bool) (hi : Inv d) :
    (∃ e, crop d ws .all ip = .error e) ↔ ws.length ≠ d.ndim :=
  crop_all_error_iff' ws ip hi

/-- `bin` raises ValueError for a non-positive factor, TypeError for a non-integral one,
whatever the other arguments (valid reducer, valid axes). -/
theorem bin_factor_guards {d : Ds} (ax : AxesArg) (m ip : Bool) {axs : List Nat}
    (hax : axesList d.ndim ax = .ok axs) (hne : axs ≠ []) :
    (∀ f : Int, f ≤ 0 → bin d (.one f) ax m false ip = .error .value) ∧
    bin d .badType ax m false ip = .error .type ∧
    (∀ fs : List (Option Int), fs.length ≠ axs.length → bin d (.many fs) ax m false ip = .error .value) := by
  refine ⟨?_, ?_, ?_⟩
  · intro f hf
    unfold bin
    simp only [hax, binFactors, Bool.false_eq_true, if_false]
    have : (List.replicate axs.length f).any (fun x => decide (x ≤ 0)) = true := by
      cases axs with
      | nil => exact absurd rfl hne
      | cons a t => simp [List.replicate_succ, hf]
    simp [this]
  · unfold bin; simp [hax, binFactors]
  · intro fs hfs
    unfold bin; simp [hax, binFactors, hfs]

/-- `fourier_resample` needs exactly one of `out_shape` / `factors`. -/
theorem resample_both_neither {d : Ds} (ax : AxesArg) (ip : Bool) {axs : List Nat}
    (hax : axesList d.ndim ax = .ok axs) :
    resample d .both ax ip = .error .value ∧ resample d .neither ax ip = .error .value := by
  constructor <;> (unfold resample; simp [hax, resampleOuts])

/-- an axis outside `-ndim ≤ a < ndim` is rejected (IndexError) by crop, bin and
fourier_resample before anything else is looked at (after the reducer check in `bin`). -/
theorem axis_out_of_range {d : Ds} (a : Int) (h : a < -(d.ndim : Int) ∨ (d.ndim : Int) ≤ a)
    (ws : List (Int × Int)) (f : FacArg) (arg : RsArg) (m ip : Bool) :
    crop d ws (.one a) ip = .error .index ∧ bin d f (.one a) m false ip = .error .index ∧
      resample d arg (.one a) ip = .error .index := by
  have hn : normAxes d.ndim [a] = .error .index := by
    unfold normAxes mapMExcept normPos
    have h1 : ¬ (0 ≤ a ∧ a < (d.ndim : Int)) := by omega
    have h2 : ¬ (a < 0 ∧ -(d.ndim : Int) ≤ a) := by omega
    simp [h1, h2]
  refine ⟨?_, ?_, ?_⟩
  · unfold crop cropArgs; simp [hn]
  · unfold bin axesList; simp [hn]
  · unfold resample axesList; simp [hn]

/-! ### histories from the caller's side: rejected calls, in-place histories vs copying histories -/
section Histories
open QuantemModel.DatasetExt

/-- **a rejected call is a no-op on the whole state**: whatever the reason of the rejection
(bad argument, failing validation, part-way through a multi-axis argument) the history
continues as if the call had not been made. -/
theorem rejected_call_is_noop {d : Ds} {op : Op} {e : Err} (follow : Bool) (rest : List (Op × Bool))
    (h : step d op = .error e) : run d ((op, follow) :: rest) = run d rest := by
  simp [run, h]

/-- **rejected calls can be erased from any history**: the history with every rejected call
removed contains no rejected call and ends in the same dataset. -/
theorem rejected_calls_erasable (ops : List (Op × Bool)) :
    ∀ d : Ds, run d (eraseRejected d ops) = run d ops ∧ AllAccepted d (eraseRejected d ops) := by
  induction ops with
  | nil => intro d; simp [eraseRejected, run, AllAccepted]
  | cons p rest ih =>
    intro d
    obtain ⟨op, follow⟩ := p
    cases hs : step d op with
    | error e =>
      simp only [eraseRejected, hs, run]
      exact ih d
    | ok pr =>
      obtain ⟨d', r⟩ := pr
      simp only [eraseRejected, hs, run, AllAccepted]
      cases follow <;> cases r <;> simp <;> exact ih _

/-- **in-place histories ≡ copying histories** (`inplace_eq_copy` lifted from one call to
every finite history, rejected calls included): replace every in-place pad / crop / bin /
fourier_resample by the copying call and continue on what it returns, and every copying call
whose result the history continues on by the in-place call — the history ends in the same
dataset (array, calibration, class). -/
theorem mirror_history (ops : List (Op × Bool)) (hw : ∀ p ∈ ops, p.1.WF) :
    ∀ d : Ds, Inv d → run d (mirror ops) = run d ops := by
  induction ops with
  | nil => intro d _; rfl
  | cons p rest ih =>
    intro d hi
    obtain ⟨op, follow⟩ := p
    have hw' : ∀ q ∈ rest, q.1.WF := fun q hq => hw q (by simp [hq])
    have hop : op.WF := hw (op, follow) (by simp)
    have ih' := ih hw'
    -- a step that is kept as it is
    have same : run d ((op, follow) :: mirror rest) = run d ((op, follow) :: rest) := by
      simp only [run]
      split
      · exact ih' d hi
      · rename_i d' r hs
        have := inv_step hi hop hs
        split
        · rename_i x; exact ih' x (this.2 x rfl)
        · exact ih' d' this.1
    cases hip : op.inplace? with
    | none => simp only [mirror, List.map_cons, mirrorOp, hip]; exact same
    | some b =>
      have hne : op.inplace? ≠ none := by simp [hip]
      have key := inplace_eq_copy hi op hne
      cases b with
      | true =>
        have hself : op.setInplace true = op := setInplace_self hip
        rw [hself] at key
        simp only [mirror, List.map_cons, mirrorOp, hip]
        show run d ((op.setInplace false, true) :: mirror rest) = run d ((op, follow) :: rest)
        cases hs : step d op with
        | error e =>
          have := (key.1 e).1 hs
          simp only [run, hs, this]; exact ih' d hi
        | ok pr =>
          obtain ⟨a, r⟩ := pr
          obtain ⟨hr, hc⟩ := (key.2 a r).1 hs
          subst hr
          have hia := (inv_step hi hop hs).1
          simp only [run, hs, hc]
          cases follow <;> exact ih' a hia
      | false =>
        have hself : op.setInplace false = op := setInplace_self hip
        rw [hself] at key
        cases follow with
        | false => simp only [mirror, List.map_cons, mirrorOp, hip]; exact same
        | true =>
          simp only [mirror, List.map_cons, mirrorOp, hip, if_true]
          show run d ((op.setInplace true, false) :: mirror rest) = run d ((op, true) :: rest)
          cases hs : step d (op.setInplace true) with
          | error e =>
            have := (key.1 e).1 hs
            simp only [run, hs, this]; exact ih' d hi
          | ok pr =>
            obtain ⟨a, r⟩ := pr
            obtain ⟨hr, hc⟩ := (key.2 a r).1 hs
            subst hr
            have hia := (inv_step hi (setInplace_WF true hop) hs).1
            simp only [run, hs, hc]
            exact ih' a hia

end Histories

/-! ### input forms in front of the state machine (`Model/DatasetExt.lean`) -/
section Forms
open QuantemModel.DatasetExt

/-- **coherence also through every input form**: a public call in any of its input forms
(`axes` as int / bool / float / NumPy scalar / sequence, calibration as scalar / flat / nested /
non-numeric / ragged, data as ndarray / nested sequence / bare number, index items as Python or
NumPy integers, lists or integer arrays, `copy(copy_custom_attributes=…)`) that does not raise
keeps the invariant. -/
theorem inv_stepX {d d' : Ds} {ox : OpX} {r : Option Ds} (hi : Inv d) (hw : OpX.WF ox)
    (h : stepX d ox = .ok (d', r)) : Inv d' ∧ ∀ x, r = some x → Inv x := by
  obtain ⟨op, hwf, hs⟩ := stepX_reduces h
  exact inv_step hi (hwf hw) hs

/-- **construction from any container and calibration form** (`from_array` behind
`ensure_valid_array`, `from_shape`): when it does not raise the dataset is coherent, of the
class asked for, and holds the data handed in. -/
theorem inv_newX {cls : DsClass} {form : ArrayForm} {shape : List Nat} {data : Option (List Val)} {kind : Kind}
    {o s : Option NdForm} {u : Option UnitsForm} {d : Ds} (hd : dataOk shape data)
    (h : fromArrayF cls form shape data kind o s u = .ok d) :
    Inv d ∧ d.cls = cls ∧ d.kind = kind ∧ d.data = data :=
  fromArrayF_inv hd h

/-- `from_shape`: not on the base class; otherwise a coherent float dataset filled with `fill_value`. -/
theorem from_shape_spec {cls : DsClass} {shape : List Nat} {fill : Val} {o s : Option NdForm} {u : Option UnitsForm} :
    (cls = .base → fromShape cls shape fill o s u = .error .attribute) ∧
    (∀ d, fromShape cls shape fill o s u = .ok d →
      Inv d ∧ d.cls = cls ∧ d.kind = .float ∧ d.data = some (List.replicate (prod shape) fill)) := by
  constructor
  · intro hc; simp [fromShape, hc]
  · intro d h
    simp only [fromShape] at h
    split at h
    · simp at h
    · exact fromArrayF_inv (by intro dat hdat; simp at hdat; subst hdat; simp) h

/-- **`_normalize_axes` by input form**: `None` is all axes, a Python int is that axis, a NumPy
integer scalar is rejected (TypeError), a sequence of ints is that sequence; floats go through
`int()` (truncation toward zero, `pyInt`). -/
theorem axes_forms :
    axesOfForm .none = .ok .all ∧
    (∀ a : Int, axesOfForm (.scalar (a : Rat)) = .ok (.one a)) ∧
    (∀ a : Int, axesOfForm (.npInt a) = .error .type) ∧
    (∀ as : List Int, axesOfForm (.seq (as.map fun i => (i : Rat))) = .ok (.many as)) := by
  refine ⟨rfl, ?_, fun _ => rfl, ?_⟩
  · intro a; simp [axesOfForm, pyInt_intCast]
  · intro as
    have key : ∀ l : List Int, (l.map fun i => (i : Rat)).map pyInt = l := by
      intro l
      induction l with
      | nil => rfl
      | cons x xs ih =>
        show pyInt (x : Rat) :: (xs.map fun i => (i : Rat)).map pyInt = x :: xs
        rw [pyInt_intCast, ih]
    show Except.ok (AxesArg.many ((as.map fun i => (i : Rat)).map pyInt)) = _
    rw [key as]

/-- a NumPy integer scalar as `axes` is rejected by crop, bin and fourier_resample -/
theorem npint_axes_rejected (d : Ds) (a : Int) (w : List (Int × Int)) (f : FacArg) (arg : RsArg) (m ip : Bool) :
    stepX d (.cropF w (.npInt a) ip) = .error .type ∧
    stepX d (.binF f (.npInt a) m false ip) = .error .type ∧
    stepX d (.resampleF arg (.npInt a) ip) = .error .type := by
  simp [stepX, axesOfForm]

/-- **`validate_ndinfo` by input form**: bool / string scalars and non-numeric sequences are
ValueErrors whatever their length, ragged nestings and non-sequences TypeErrors, a rectangular
nesting counts with its flattened length; an accepted value has one entry per axis. -/
theorem ndinfo_forms (n : Nat) :
    validateNdForm .boolScalar n = .error .value ∧ validateNdForm .strScalar n = .error .value ∧
    (∀ len, validateNdForm (.nonNumeric len) n = .error .value) ∧
    validateNdForm .ragged n = .error .type ∧ validateNdForm .other n = .error .type ∧
    (∀ rows, validateNdForm (.nested rows) n = validateNdForm (.flat rows.flatten) n) := by
  refine ⟨rfl, rfl, ?_, rfl, rfl, fun _ => rfl⟩
  intro len; simp [validateNdForm]

/-- **the plain forms are the state machine's own arguments**: on Python ints, lists, strings and
ndarrays the calls with input forms are exactly the operations of `Model/Dataset.lean` (so every
theorem above about `step` speaks about them). -/
theorem stepX_plain (d : Ds) :
    (∀ v, stepX d (.setOriginF (NdForm.ofNdInfo v)) = step d (.setOrigin v)) ∧
    (∀ v, stepX d (.setSamplingF (NdForm.ofNdInfo v)) = step d (.setSampling v)) ∧
    (∀ v, stepX d (.setUnitsF (UnitsForm.ofArg v)) = step d (.setUnits v)) ∧
    (∀ sh dat k, stepX d (.setArrayF .ndarray sh dat k) = step d (.setArray sh dat k)) ∧
    (∀ w (a : Int) ip, stepX d (.cropF w (.scalar (a : Rat)) ip) = step d (.crop w (.one a) ip)) ∧
    (∀ f (a : Int) m b ip, stepX d (.binF f (.scalar (a : Rat)) m b ip) = step d (.bin f (.one a) m b ip)) ∧
    (∀ arg (a : Int) ip, stepX d (.resampleF arg (.scalar (a : Rat)) ip) = step d (.resample arg (.one a) ip)) ∧
    (∀ i : Int, stepX d (.getitemF (.bare (.npInt i))) = step d (.getitem [.int i])) ∧
    (∀ c, stepX d (.copyWith c) = step d .copy) := by
  refine ⟨?_, ?_, ?_, fun _ _ _ => rfl, ?_, ?_, ?_, fun _ => rfl, fun _ => rfl⟩
  · intro v
    cases v with
    | scalar q => simp [stepX, setNd, NdForm.ofNdInfo, validateNdForm, step, setOrigin, validateNdinfo]
    | list qs =>
      by_cases hl : qs.length = d.ndim <;>
        simp [stepX, setNd, NdForm.ofNdInfo, validateNdForm, step, setOrigin, validateNdinfo, hl]
    | badType => simp [stepX, setNd, NdForm.ofNdInfo, validateNdForm, step, setOrigin, validateNdinfo]
  · intro v
    cases v with
    | scalar q => simp [stepX, setNd, NdForm.ofNdInfo, validateNdForm, step, setSampling, validateNdinfo]
    | list qs =>
      by_cases hl : qs.length = d.ndim <;>
        simp [stepX, setNd, NdForm.ofNdInfo, validateNdForm, step, setSampling, validateNdinfo, hl]
    | badType => simp [stepX, setNd, NdForm.ofNdInfo, validateNdForm, step, setSampling, validateNdinfo]
  · intro v
    cases v with
    | str s => simp [stepX, UnitsForm.ofArg, validateUnitsForm, step, setUnits, validateUnits]
    | list ss =>
      by_cases hl : ss.length = d.ndim <;>
        simp [stepX, UnitsForm.ofArg, validateUnitsForm, step, setUnits, validateUnits, hl, Function.comp_def, UEntry.toStr]
    | badType => simp [stepX, UnitsForm.ofArg, validateUnitsForm, step, setUnits, validateUnits]
  · intro w a ip; simp [stepX, axesOfForm, pyInt_intCast]
  · intro f a m b ip
    cases b <;> simp [stepX, axesOfForm, pyInt_intCast, step, bin]
  · intro arg a ip; simp [stepX, axesOfForm, pyInt_intCast]

end Forms

/-! ### non-vacuity: the hypotheses are satisfiable and the operations succeed on concrete data -/

/-- a coherent `Dataset3d` of shape (3,4,5) -/
def ex3 : Ds := ⟨.d3, [3, 4, 5], none, .int, [1, 2, 3], [1, 1, 2], ["a", "b", "c"]⟩

/-- a coherent 1-D base `Dataset` with data -/
def ex1 : Ds := ⟨.base, [4], some [⟨1, 0⟩, ⟨2, 0⟩, ⟨3, 0⟩, ⟨4, 0⟩], .int, [0], [1], ["nm"]⟩

example : Inv ex3 := by
  refine ⟨rfl, rfl, rfl, ?_, ?_⟩
  · intro k hk; simp [ex3, DsClass.reqNdim] at hk; simp [ex3, Ds.ndim, ← hk]
  · intro dat h; simp [ex3] at h

example : Inv ex1 := by
  refine ⟨rfl, rfl, rfl, ?_, ?_⟩
  · intro k hk; simp [ex1, DsClass.reqNdim] at hk
  · intro dat h; simp [ex1] at h; subst h; rfl

-- `from_array` succeeds (hypothesis of `inv_new`), also through the expand-dims branch
example : ∃ d, fromArray .d2 [5] none .float none (some (.scalar 2)) (some (.str "nm")) = .ok d ∧
    d.shape = [1, 5] := ⟨_, rfl, rfl⟩

-- `ds[0, :, [1, 2]]`: NumPy puts the list axis first; the plan exists and orders axes (2, 1)
example : ∃ p, plan ex3.shape [.int 0, Item.full, .list [1, 2]] = .ok p ∧ p.order = [2, 1] ∧
    p.multiList = false := ⟨_, rfl, rfl, rfl⟩

-- … and `getitem` succeeds on it (hypothesis of `getitem_spec`), giving a `Dataset2d`
example : ∃ r, getitem ex3 [.int 0, Item.full, .list [1, 2]] = .ok r ∧ r.cls = .d2 ∧
    r.shape = [2, 4] ∧ r.units = ["c", "b"] := ⟨_, rfl, rfl, rfl, rfl⟩

-- in-place operations succeed (hypotheses of `inv_step` / `inplace_eq_copy`)
example : ∃ a, step ex3 (.pad (.outShape [4, 4, 7]) true) = .ok (a, none) ∧ a.shape = [4, 4, 7] :=
  ⟨_, rfl, rfl⟩
example : ∃ a, step ex3 (.crop [(1, -1)] (.one (-1)) true) = .ok (a, none) ∧ a.shape = [3, 4, 3] :=
  ⟨_, rfl, rfl⟩
example : ∃ a, step ex3 (.bin (.one 2) (.many [0, -1]) false false true) = .ok (a, none) ∧
    a.shape = [1, 4, 2] := ⟨_, rfl, rfl⟩
example : ∃ a, step ex3 (.resample (.outShape [7]) (.one 2) true) = .ok (a, none) ∧
    a.shape = [3, 4, 7] := ⟨_, rfl, rfl⟩
example : (Op.pad (.outShape [4, 4, 7]) true).inplace? ≠ none := by simp [Op.inplace?]

-- error guards are reachable
example : axesList ex3.ndim (.one 1) = .ok [1] := rfl
example : (3 : Int) < -(ex3.ndim : Int) ∨ (ex3.ndim : Int) ≤ 3 := by right; decide

/-- a coherent `Dataset4dstem` of shape (2,3,4,4) -/
def ex4 : Ds := ⟨.d4stem, [2, 3, 4, 4], none, .float, [0, 1, 2, 3], [1, 2, 3, 4], ["a", "b", "c", "d"]⟩

example : Inv ex4 := by
  refine ⟨rfl, rfl, rfl, ?_, ?_⟩
  · intro k hk; simp [ex4, DsClass.reqNdim] at hk; simp [ex4, Ds.ndim, ← hk]
  · intro dat h; simp [ex4] at h

-- the derived-dataset operations succeed on it (hypotheses of `derived_4dstem_spec`)
example : ∃ r, step ex4 (.dpReduce .mean) = .ok (ex4, some r) ∧ r.cls = .d2 ∧ r.shape = [4, 4] ∧
    r.units = ["c", "d"] := ⟨_, rfl, rfl, rfl, rfl⟩
example : ∃ r, step ex4 (.virtualImage [4, 4] []) = .ok (ex4, some r) ∧ r.shape = [2, 3] ∧
    r.units = ["a", "b"] := ⟨_, rfl, rfl, rfl⟩
example : ∃ r, step ex3 (.frame 2) = .ok (ex3, some r) ∧ r.cls = .d2 ∧ r.units = ["b", "c"] :=
  ⟨_, rfl, rfl, rfl⟩

-- a two-list expression NumPy accepts: the plan exists and is multi-list
example : ∃ p, plan ex3.shape [.list [0, 1], .list [1, 2]] = .ok p ∧ p.multiList = true := ⟨_, rfl, rfl⟩

-- every position of an Ellipsis on a 3-D dataset, also where it stands for no axis: the plan exists
-- and the Ellipsis between an integer and a list separates them (list axis first)
example : ∃ p, plan ex3.shape [Item.full, .int 1, .ellipsis, .list [0, 2]] = .ok p ∧ p.order = [2, 0] ∧
    p.items = [Item.full, .int 1, .list [0, 2]] := ⟨_, rfl, rfl, rfl⟩
example : ∃ p, plan ex3.shape [.ellipsis, Item.full, .int 1, .list [0, 2]] = .ok p ∧ p.order = [0, 2] :=
  ⟨_, rfl, rfl⟩
example : ∃ p, plan ex3.shape [.int 1, .ellipsis] = .ok p ∧ p.items = [.int 1, Item.full, Item.full] :=
  ⟨_, rfl, rfl⟩
example : plan ex3.shape [.ellipsis, .int 0, .ellipsis] = .error .index := rfl

-- rejected calls: `bin((2, 2, 0))` in place on the (3,4,5) dataset is rejected (hypothesis of `rejected_call_is_noop`) …
example : step ex3 (.bin (.many [some 2, some 2, some 0]) .all false false true) = .error .value := rfl
-- … and erased from a history, the accepted call after it stays
example : QuantemModel.DatasetExt.eraseRejected ex3
    [(.bin (.many [some 2, some 2, some 0]) .all false false true, false), (.touch, false)] = [(.touch, false)] := rfl
-- mirror histories differ from the history itself (in place <-> copying)
example : QuantemModel.DatasetExt.mirror [(Op.pad (.outShape [4, 4, 7]) true, false), (Op.crop [(1, -1)] (.one (-1)) false, true),
      (Op.touch, false)] =
    [(Op.pad (.outShape [4, 4, 7]) false, true), (Op.crop [(1, -1)] (.one (-1)) true, false), (Op.touch, false)] := rfl
-- input forms: `axes=1.5` is axis 1, `axes=-0.5` is axis 0 (truncation), a NumPy scalar is rejected
example : QuantemModel.DatasetExt.pyInt ⟨3, 2, by decide, by decide⟩ = 1 := by decide
example : QuantemModel.DatasetExt.pyInt ⟨-1, 2, by decide, by decide⟩ = 0 := by decide
example : QuantemModel.DatasetExt.pyInt ⟨-3, 2, by decide, by decide⟩ = -1 := by decide
-- a call through an input form succeeds (hypothesis of `inv_stepX`), construction through a nested list too
example : ∃ a, QuantemModel.DatasetExt.stepX ex3 (.cropF [(1, -1)] (.scalar (-1)) true) = .ok (a, none) ∧ a.shape = [3, 4, 3] :=
  ⟨_, rfl, rfl⟩
example : ∃ d, QuantemModel.DatasetExt.fromArrayF .d2 .seq [5] none .float none
    (some (.nested [[1], [2]])) (some (.seq [.str "nm", .int 3])) = .ok d ∧ d.shape = [1, 5] ∧ d.units = ["nm", "3"] :=
  ⟨_, rfl, rfl, rfl⟩
example : QuantemModel.DatasetExt.fromArrayF .base .seq [2, 2] none .bool none none none = .error .type := rfl
example : ∃ d, QuantemModel.DatasetExt.fromShape .d3 [4, 4] ⟨1, 0⟩ none none none = .ok d ∧ d.shape = [1, 4, 4] := ⟨_, rfl, rfl⟩

end QuantemModel.Props.C03
