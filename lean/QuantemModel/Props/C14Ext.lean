import QuantemModel.Props.C14
import QuantemModel.Model.SerializeAttrsExt
/-!
C14, growth round 6.

1. **Only the SET of entries of a skip argument matters** (`stripAttrsG_congr2`, `skip_form_irrelevant`):
   two skip arguments with the same entries — a list, a tuple, any other sequence, in any order, with
   repetitions, with entries that are neither `str` nor `type`, a bare name against the one-element
   list — load the same object, at save time and at load time, names and types alike.
2. **Absent at EVERY level, path by path** (`strip_atPath`, `strip_name_absent_every_level`,
   `strip_unlisted_path_kept`): the values found in the required graph under an attribute path
   `root.a.b.c` are exactly the stripped values found under that path in the original graph through
   steps none of which is listed (by name) or an instance of a listed type.  A listed name is found
   under NO path, however deep and whether or not the objects above carry that name themselves; a path
   none of whose steps is listed is untouched by the name list.
   `loaded_name_absent_every_level` carries the absence statement through save and load (`canon`), end to end.
3. **`Ptychography.save` inside histories** (`ptycho_history`): whatever calls came before (e.g. a save of
   the same live object with the SAME caller list and the other `save_raw_data`), a later load returns
   the graph stripped by exactly the caller's entries of THAT call, plus `_dset`/`dset` iff
   `save_raw_data` was false in THAT call.
4. **attrs classes** (`Model/SerializeAttrsExt.lean`): only declared fields are items of the save loop; the skip filter
   commutes with the field selection at every level (`strip_view_comm`), hence `skip_general_attrs`.
-/
namespace QuantemModel.Props.C14
open QuantemModel.Serialize QuantemModel.SerializeSkip

section Growth6

/-! ### 1. the entries of a skip argument as a set -/

/-- the membership views of the name list AND of the type list are all the strip uses -/
theorem stripAttrsG_congr2 (inst : Val → String → Bool) (N N' ts ts' : List String)
    (hn : ∀ k, k ∈ N ↔ k ∈ N') (ht : ∀ t, t ∈ ts ↔ t ∈ ts') :
    ∀ attrs, stripAttrsG inst N ts attrs = stripAttrsG inst N' ts' attrs := by
  have hany : ∀ v, ts.any (inst v) = ts'.any (inst v) := by
    intro v
    rw [Bool.eq_iff_iff]
    simp only [List.any_eq_true]
    constructor
    · rintro ⟨x, hx, h⟩; exact ⟨x, (ht x).1 hx, h⟩
    · rintro ⟨x, hx, h⟩; exact ⟨x, (ht x).2 hx, h⟩
  have hc : ∀ k, N.contains k = N'.contains k := by
    intro k
    rw [Bool.eq_iff_iff]
    simp [hn k]
  apply attrs_ind
  · simp [stripAttrsG]
  · intro k cls sub rest ih1 ih2
    simp only [stripAttrsG, stripG, hc k, hany, ih1, ih2]
  · intro k v rest hno ih
    simp only [stripAttrsG, hc k, hany, ih, (nonobj_stripG inst N ts v hno).1, (nonobj_stripG inst N' ts' v hno).1]

/-- **the form of the skip argument is irrelevant**: two save-time arguments with the same entries and
two load-time arguments with the same entries (whatever the container, the order, the multiplicity;
entries that are neither a name nor a type do not count) give the same loaded object -/
theorem skip_form_irrelevant (inst : Val → String → Bool) (hI : InstOk inst) (a a' b b' : SkipArg)
    (hsave : ∀ i, i ≠ SkipItem.other → (i ∈ a.items ↔ i ∈ a'.items))
    (hload : ∀ i, i ≠ SkipItem.other → (i ∈ b.items ↔ i ∈ b'.items))
    (cls : String) (attrs : List (String × Val))
    (hw : wfA (.obj cls attrs) = true) (ha : attrNested (.obj cls attrs) = true) :
    loadX ⟨(normSkip b).names, []⟩ (saveG inst (normSkip a) (.obj cls attrs)) =
      loadX ⟨(normSkip b').names, []⟩ (saveG inst (normSkip a') (.obj cls attrs)) := by
  have e1 : normSkip a = ⟨(normSkip a).names, (normSkip a).types⟩ := rfl
  have e2 : normSkip a' = ⟨(normSkip a').names, (normSkip a').types⟩ := rfl
  rw [e1, e2, skip_general inst hI _ _ _ cls attrs hw ha, skip_general inst hI _ _ _ cls attrs hw ha]
  have hn : ∀ k, k ∈ (normSkip b).names ++ (normSkip a).names ↔ k ∈ (normSkip b').names ++ (normSkip a').names := by
    intro k
    simp only [List.mem_append, (normSkip_mem a k).1, (normSkip_mem a' k).1, (normSkip_mem b k).1, (normSkip_mem b' k).1,
      hsave (.name k) (by simp), hload (.name k) (by simp)]
  have ht : ∀ t, t ∈ (normSkip a).types ↔ t ∈ (normSkip a').types := by
    intro t
    simp only [(normSkip_mem a t).2, (normSkip_mem a' t).2, hsave (.type t) (by simp)]
  simp only [stripG, stripAttrsG_congr2 inst _ _ _ _ hn ht attrs]

/-! ### 2. attribute paths -/

/-- the values of the attribute called `k` of an object (a Python object has at most one; the
model's association list is not assumed duplicate-free, so this is a list) -/
def childrenAt (v : Val) (k : String) : List Val :=
  match v with
  | .obj _ attrs => (attrs.filter (fun kv => kv.1 == k)).map (·.2)
  | _ => []

/-- `root.k1.k2.….kn` -/
def atPath : List String → Val → List Val
  | [], v => [v]
  | k :: ks, v => (childrenAt v k).flatMap (atPath ks)

/-- the children under `k` that the skip lists let through -/
def keptChildren (inst : Val → String → Bool) (ns ts : List String) (v : Val) (k : String) : List Val :=
  (childrenAt v k).filter (fun c => !(ns.contains k || ts.any (inst c)))

/-- `root.k1.….kn` through steps none of which is listed by name or an instance of a listed type -/
def keptAtPath (inst : Val → String → Bool) (ns ts : List String) : List String → Val → List Val
  | [], v => [v]
  | k :: ks, v => (keptChildren inst ns ts v k).flatMap (keptAtPath inst ns ts ks)

theorem childrenAt_stripAttrs (inst : Val → String → Bool) (ns ts : List String) (k : String) :
    ∀ attrs : List (String × Val),
    ((stripAttrsG inst ns ts attrs).filter (fun kv => kv.1 == k)).map (·.2) =
      ((((attrs.filter (fun kv => kv.1 == k)).map (·.2)).filter
        (fun c => !(ns.contains k || ts.any (inst c)))).map (stripG inst ns ts))
  | [] => by simp [stripAttrsG]
  | (k', v) :: rest => by
      have ih := childrenAt_stripAttrs inst ns ts k rest
      by_cases hk : k' = k
      · subst hk
        by_cases hb : (k' ∈ ns ∨ ∃ x, x ∈ ts ∧ inst v x = true)
        · have hb2 : ¬(¬k' ∈ ns ∧ ∀ x, x ∈ ts → inst v x = false) := by
            rintro ⟨h1, h2⟩
            rcases hb with h | ⟨x, hx, hi⟩
            · exact h1 h
            · simp [h2 x hx] at hi
          simpa [stripAttrsG, hb, hb2, List.filter_cons] using ih
        · have hb2 : (¬k' ∈ ns ∧ ∀ x, x ∈ ts → inst v x = false) := by
            constructor
            · exact fun h => hb (Or.inl h)
            · intro x hx
              by_cases hi : inst v x = true
              · exact absurd (Or.inr ⟨x, hx, hi⟩) hb
              · simpa using hi
          have hb3 : ¬∃ x, x ∈ ts ∧ inst v x = true := fun h => hb (Or.inr h)
          have hb4 := eq_true hb2.2
          simpa [stripAttrsG, hb2.1, hb3, hb4, List.filter_cons] using ih
      · by_cases hb : (k' ∈ ns ∨ ∃ x, x ∈ ts ∧ inst v x = true)
        · simpa [stripAttrsG, hb, hk, List.filter_cons] using ih
        · simpa [stripAttrsG, hb, hk, List.filter_cons] using ih

/-- one step: the children of the required graph are the stripped children that are let through -/
theorem childrenAt_strip (inst : Val → String → Bool) (ns ts : List String) (v : Val) (k : String) :
    childrenAt (stripG inst ns ts v) k = (keptChildren inst ns ts v k).map (stripG inst ns ts) := by
  cases v with
  | obj cls attrs => simpa [childrenAt, keptChildren, stripG] using childrenAt_stripAttrs inst ns ts k attrs
  | _ => simp [childrenAt, keptChildren, stripG]

/-- **path by path**: what the required graph holds under `root.k1.….kn` is the stripped image of what
the original graph holds there through unlisted steps — at every depth, whatever the objects in
between carry -/
theorem strip_atPath (inst : Val → String → Bool) (ns ts : List String) :
    ∀ (p : List String) (v : Val),
    atPath p (stripG inst ns ts v) = (keptAtPath inst ns ts p v).map (stripG inst ns ts)
  | [], v => by simp [atPath, keptAtPath]
  | k :: ks, v => by
      simp only [atPath, keptAtPath, childrenAt_strip, List.flatMap_map, List.map_flatMap]
      congr 1
      funext c
      exact strip_atPath inst ns ts ks c

/-- **a listed name is absent at EVERY level**: under no path `root.….k` with `k` listed is anything
found — however deep, and whether or not the objects above carry an attribute of that name -/
theorem strip_name_absent_every_level (inst : Val → String → Bool) (ns ts : List String) (k : String) (hk : k ∈ ns) :
    ∀ (p : List String) (v : Val), atPath (p ++ [k]) (stripG inst ns ts v) = [] := by
  intro p v
  rw [strip_atPath]
  have h : ∀ (p : List String) (v : Val), keptAtPath inst ns ts (p ++ [k]) v = [] := by
    intro p
    induction p with
    | nil =>
        intro v
        simp [keptAtPath, keptChildren, hk]
    | cons q p ih =>
        intro v
        simp [keptAtPath, ih]
  simp [h p v]

/-- **nothing else is removed by the name list**: a path none of whose steps is listed is untouched
(with no type list): the same objects are reached, each stripped below in turn -/
theorem strip_unlisted_path_kept (inst : Val → String → Bool) (ns : List String) :
    ∀ (p : List String) (v : Val), (∀ k ∈ p, k ∉ ns) →
    atPath p (stripG inst ns [] v) = (atPath p v).map (stripG inst ns [])
  | [], v, _ => by simp [atPath]
  | k :: ks, v, h => by
      have hk : k ∉ ns := h k (List.mem_cons_self ..)
      have hrest : ∀ k' ∈ ks, k' ∉ ns := fun k' hk' => h k' (List.mem_cons_of_mem _ hk')
      simp only [atPath, childrenAt_strip, List.flatMap_map, List.map_flatMap]
      have hkc : keptChildren inst ns [] v k = childrenAt v k := by
        simp [keptChildren, hk]
      rw [hkc]
      congr 1
      funext c
      exact strip_unlisted_path_kept inst ns ks c hrest

/-! ### 3. `Ptychography.save` inside histories -/

/-- **the list `Ptychography.save` composes is a function of THIS call only, over every history**:
after any calls `pre` (saves of the same live object with the same caller argument `a` and the other
`save_raw_data` included, completed or not) and any calls `post` that do not write `c.path`, a load
returns the graph stripped by the caller's entries of that call and by `_dset` / `dset` exactly when
that call had `save_raw_data = False` -/
theorem ptycho_history (inst : Val → String → Bool) (hI : InstOk inst) (pool : List Val) (fs0 : SFs)
    (pre post : List SOp) (c : SaveCall) (a b : SkipArg) (raw : Bool) (cls : String) (attrs : List (String × Val))
    (hskip : c.skip = ptychoSkipArg a raw)
    (hv : pool[c.obj]? = some (.obj cls attrs))
    (hw : wfA (.obj cls attrs) = true) (ha : attrNested (.obj cls attrs) = true)
    (hlevel : c.badLevel = false)
    (hfree : (sfsGet (srun inst pool fs0 pre).1 c.path).isSome = true → c.overwrite = true)
    (hsave : raisesG inst (normSkip c.skip) (.obj cls attrs) = false)
    (hpost : ∀ op ∈ post, SerializeSkip.quietOn c.path op = true)
    (hty : (normSkip b).types = []) :
    (sstep inst pool (srun inst pool fs0 (pre ++ [.save c] ++ post)).1 (.load c.path b)).2 =
      .loaded (canon (stripG inst ((normSkip b).names ++ ((normSkip a).names ++ (if raw then [] else ["_dset", "dset"])))
        (normSkip a).types (.obj cls attrs))) := by
  have h := skip_history inst hI pool fs0 pre post c b cls attrs hv hw ha hlevel hfree hsave hpost hty
  rw [h, hskip, (ptychoSkip_spec a raw).1, (ptychoSkip_spec a raw).2]

/-! ### 4. attrs classes (`__attrs_attrs__`): only the declared fields are items -/

theorem viewA_nonobj (ci : ClassInfo) (v : Val) (h : isObjV v = false) : viewA ci v = v := by
  cases v <;> simp [isObjV] at h <;> simp [viewA]

/-- the view keeps graphs well-formed and attribute-nested -/
theorem viewAttrs_facts (ci : ClassInfo) : ∀ attrs, ∀ f : Option (List String),
    wfAttrs attrs = true → attrNestedAttrs attrs = true →
    wfAttrs (viewAttrs ci f attrs) = true ∧ attrNestedAttrs (viewAttrs ci f attrs) = true := by
  apply attrs_ind
  · intro f _ _; simp [viewAttrs, wfAttrs, attrNestedAttrs]
  · intro k cls sub rest ih1 ih2 f hw ha
    have hw' : wfAttrs sub = true ∧ wfAttrs rest = true := by simpa [wfAttrs, wfA] using hw
    have ha' : attrNestedAttrs sub = true ∧ attrNestedAttrs rest = true := by
      simpa [attrNestedAttrs, attrNested] using ha
    obtain ⟨a1, a2⟩ := ih1 (ci cls) hw'.1 ha'.1
    obtain ⟨b1, b2⟩ := ih2 f hw'.2 ha'.2
    cases hk : keepField f k <;> simp [viewAttrs, hk, viewA, wfAttrs, wfA, attrNestedAttrs, attrNested, a1, a2, b1, b2]
  · intro k v rest hno ih f hw ha
    have hw' : wfA v = true ∧ wfAttrs rest = true := by simpa [wfAttrs] using hw
    have ha' : attrNested v = true ∧ attrNestedAttrs rest = true := by simpa [attrNestedAttrs] using ha
    obtain ⟨b1, b2⟩ := ih f hw'.2 ha'.2
    cases hk : keepField f k <;>
      simp [viewAttrs, hk, viewA_nonobj ci v hno, wfAttrs, attrNestedAttrs, hw'.1, ha'.1, b1, b2]

/-- **skip filter and field selection commute**: stripping the items `_recursive_save` iterates
over is selecting the fields of the stripped graph -/
theorem strip_view_comm (ci : ClassInfo) (inst : Val → String → Bool) (hI : InstOk inst) (ns ts : List String) :
    ∀ attrs, ∀ f : Option (List String),
    stripAttrsG inst ns ts (viewAttrs ci f attrs) = viewAttrs ci f (stripAttrsG inst ns ts attrs) := by
  apply attrs_ind
  · intro f; simp [viewAttrs, stripAttrsG]
  · intro k cls sub rest ih1 ih2 f
    have hobj : ∀ t, inst (.obj cls (viewAttrs ci (ci cls) sub)) t = inst (.obj cls sub) t :=
      fun t => hI.objCls cls _ sub t
    by_cases hb : (k ∈ ns ∨ ∃ x, x ∈ ts ∧ inst (.obj cls sub) x = true) <;> cases hk : keepField f k <;>
      simp [viewAttrs, stripAttrsG, viewA, stripG, hk, hb, hobj, ih1 (ci cls), ih2 f]
  · intro k v rest hno ih f
    have hv := viewA_nonobj ci v hno
    have hs := (nonobj_stripG inst ns ts v hno).1
    by_cases hb : (k ∈ ns ∨ ∃ x, x ∈ ts ∧ inst v x = true) <;> cases hk : keepField f k <;>
      simp [viewAttrs, stripAttrsG, hk, hb, hv, hs, ih f]

/-- **C14 for graphs with attrs-class objects**: names / types at save time, names at load time —
the loaded object is the field view of the graph with every listed attribute removed at every
attribute-nested level; attributes that are not fields are lost with or without skipping -/
theorem skip_general_attrs (ci : ClassInfo) (inst : Val → String → Bool) (hI : InstOk inst) (ns1 ns2 ts : List String)
    (cls : String) (attrs : List (String × Val))
    (hw : wfA (.obj cls attrs) = true) (ha : attrNested (.obj cls attrs) = true) :
    loadX ⟨ns2, []⟩ (saveG inst ⟨ns1, ts⟩ (viewA ci (.obj cls attrs))) =
      .ok (canon (viewA ci (stripG inst (ns2 ++ ns1) ts (.obj cls attrs)))) := by
  have hw' : wfAttrs attrs = true := by simpa [wfA] using hw
  have ha' : attrNestedAttrs attrs = true := by simpa [attrNested] using ha
  obtain ⟨f1, f2⟩ := viewAttrs_facts ci attrs (ci cls) hw' ha'
  have h := skip_general inst hI ns1 ns2 ts cls (viewAttrs ci (ci cls) attrs) (by simpa [wfA] using f1) (by simpa [attrNested] using f2)
  simp only [viewA] at h ⊢
  rw [h]
  simp only [stripG, viewA, strip_view_comm ci inst hI (ns2 ++ ns1) ts attrs (ci cls)]

/-- without skip lists: what is lost is exactly what is no field -/
theorem attrs_noskip (ci : ClassInfo) (inst : Val → String → Bool) (hI : InstOk inst)
    (cls : String) (attrs : List (String × Val))
    (hw : wfA (.obj cls attrs) = true) (ha : attrNested (.obj cls attrs) = true) :
    loadX {} (saveG inst {} (viewA ci (.obj cls attrs))) = .ok (canon (viewA ci (stripG inst [] [] (.obj cls attrs)))) := by
  simpa using skip_general_attrs ci inst hI [] [] [] cls attrs hw ha

/-! ### non-vacuity -/

private def deep : Val :=
  .obj "SA" [("gain", .scalar (.int 1)),
    ("stage", .obj "SB" [("w", .scalar (.float 0)), ("we", .scalar (.bool true)),
      ("frame", .obj "SA" [("raw", .ndarray "float64" [1] [.float 0]), ("weight", .npScalar "float64" (.float 1)),
        ("inner", .obj "SB" [("raw", .scalar (.int 7)), ("keep", .scalar (.str "k"))])])])]

example : wfA deep = true ∧ attrNested deep = true := by decide
-- `raw` sits two and three levels below objects that lack it
example : atPath ["stage", "frame", "raw"] deep = [.ndarray "float64" [1] [.float 0]] ∧
    atPath ["stage", "frame", "raw"] (stripG isInstanceX ["raw"] [] deep) = [] ∧
    atPath ["stage", "frame", "inner", "raw"] (stripG isInstanceX ["raw"] [] deep) = [] ∧
    atPath ["stage", "frame", "inner", "keep"] (stripG isInstanceX ["raw"] [] deep) = [.scalar (.str "k")] :=
  ⟨rfl, rfl, rfl, rfl⟩
-- names that are prefixes of each other; `int` takes the bool, `float` takes the np.float64
example : atPath ["stage", "we"] (stripG isInstanceX ["we"] [] deep) = [] ∧
    atPath ["stage", "weight"] (stripG isInstanceX ["we"] [] deep) = [] ∧
    atPath ["stage", "w"] (stripG isInstanceX ["we"] [] deep) = [.scalar (.float 0)] ∧
    atPath ["stage", "we"] (stripG isInstanceX [] ["int"] deep) = [] ∧
    atPath ["stage", "frame", "weight"] (stripG isInstanceX [] ["float"] deep) = [] :=
  ⟨rfl, rfl, rfl, rfl, rfl⟩
-- the same entries in another container / order / multiplicity
example : ∀ i, i ≠ SkipItem.other →
    (i ∈ (SkipArg.seq [.name "raw", .type "int", .other, .name "raw"]).items ↔ i ∈ (SkipArg.seq [.type "int", .name "raw"]).items) := by
  intro i h
  cases i with
  | name s => simp [SkipArg.items]
  | type t => simp [SkipArg.items]
  | other => exact absurd rfl h
-- the caller's list re-used for a second Ptychography.save with the other save_raw_data
example : (normSkip (ptychoSkipArg (.seq [.name "a"]) false)).names = ["a", "_dset", "dset"] ∧
    (normSkip (ptychoSkipArg (.seq [.name "a"]) true)).names = ["a"] := by decide

-- an attrs class: `scratch` is no field and never written; `raw` is skipped inside it and below it
private def ciAT : ClassInfo := classInfoOf [("AT", ["count", "raw", "child"])]
private def atree : Val :=
  .obj "AT" [("count", .scalar (.int 3)), ("raw", .scalar (.int 1)), ("scratch", .scalar (.int 9)),
    ("child", .obj "SB" [("raw", .scalar (.int 2)), ("deep", .obj "AT" [("count", .scalar (.bool true)), ("raw", .scalar (.int 4)),
      ("child", .scalar .none), ("tmp", .scalar (.int 0))])])]
example : wfA atree = true ∧ attrNested atree = true := by decide
example : viewA ciAT (stripG isInstanceX ["raw"] [] atree) =
    .obj "AT" [("count", .scalar (.int 3)), ("child", .obj "SB" [("deep", .obj "AT" [("count", .scalar (.bool true)), ("child", .scalar .none)])])] := by rfl

end Growth6

section Growth6b

/-! ### 5. the path statements carried through save and load (`canon`) -/

theorem mem_canonKvs : ∀ (attrs : List (String × Val)) (k : String) (n : Ns) (c' : Val),
    (k, n, c') ∈ canonKvs attrs → ∃ c, (k, c) ∈ attrs ∧ c' = canon c
  | [], k, n, c', h => by simp [canonKvs] at h
  | (k0, v0) :: rest, k, n, c', h => by
      simp only [canonKvs, List.mem_cons] at h
      rcases h with h | h
      · simp only [Prod.mk.injEq] at h
        exact ⟨v0, by simp [h.1], h.2.2⟩
      · obtain ⟨c, hc, e⟩ := mem_canonKvs rest k n c' h
        exact ⟨c, List.mem_cons_of_mem _ hc, e⟩

theorem mem_reorder (xs : List (String × Ns × Val)) (k : String) (c : Val) (h : (k, c) ∈ reorder xs) :
    ∃ n, (k, n, c) ∈ xs := by
  simp only [reorder, List.mem_append, List.mem_map, List.mem_filter] at h
  rcases h with (⟨x, hx, e⟩ | ⟨x, hx, e⟩) | ⟨x, hx, e⟩ <;>
  · simp only [Prod.mk.injEq] at e
    exact ⟨x.2.1, by rw [← e.1, ← e.2]; exact hx.1⟩

/-- every child the loaded (canonical) object has under `k` is the canonical form of a child of the original -/
theorem childrenAt_canon (v : Val) (k : String) (c' : Val) (h : c' ∈ childrenAt (canon v) k) :
    ∃ c, c ∈ childrenAt v k ∧ c' = canon c := by
  cases v with
  | obj cls attrs =>
      simp only [canon, childrenAt, List.mem_map, List.mem_filter] at h
      obtain ⟨kv, ⟨hm, hk⟩, e⟩ := h
      have hk' : kv.1 = k := by simpa using hk
      obtain ⟨n, hn⟩ := mem_reorder (canonKvs attrs) kv.1 kv.2 hm
      obtain ⟨c, hc, ec⟩ := mem_canonKvs attrs kv.1 n kv.2 hn
      refine ⟨c, ?_, by rw [← e, ec]⟩
      simp only [childrenAt, List.mem_map, List.mem_filter]
      exact ⟨(kv.1, c), ⟨hc, by simp [hk']⟩, rfl⟩
  | list xs => simp only [canon] at h; split at h <;> simp [childrenAt] at h
  | tuple xs => simp only [canon] at h; split at h <;> simp [childrenAt] at h
  | set xs => simp only [canon] at h; split at h <;> simp [childrenAt] at h
  | _ => simp [canon, childrenAt] at h

/-- whatever the canonical (loaded) form holds under a path is the canonical form of something the graph holds there -/
theorem atPath_canon : ∀ (p : List String) (v w : Val), w ∈ atPath p (canon v) → ∃ u, u ∈ atPath p v ∧ w = canon u
  | [], v, w, h => by
      simp only [atPath, List.mem_singleton] at h
      exact ⟨v, by simp [atPath], h⟩
  | k :: ks, v, w, h => by
      simp only [atPath, List.mem_flatMap] at h
      obtain ⟨c', hc', hw⟩ := h
      obtain ⟨c, hc, e⟩ := childrenAt_canon v k c' hc'
      subst e
      obtain ⟨u, hu, eu⟩ := atPath_canon ks c w hw
      exact ⟨u, by simp only [atPath, List.mem_flatMap]; exact ⟨c, hc, hu⟩, eu⟩

/-- **end to end: a name listed at save time, at load time or both is found under NO attribute path of the
loaded object** — at every depth, whether or not the objects above carry that name, next to any type list,
for every instance relation -/
theorem loaded_name_absent_every_level (inst : Val → String → Bool) (hI : InstOk inst) (ns1 ns2 ts : List String)
    (cls : String) (attrs : List (String × Val))
    (hw : wfA (.obj cls attrs) = true) (ha : attrNested (.obj cls attrs) = true)
    (w : Val) (hload : loadX ⟨ns2, []⟩ (saveG inst ⟨ns1, ts⟩ (.obj cls attrs)) = .ok w)
    (k : String) (hk : k ∈ ns1 ∨ k ∈ ns2) (p : List String) :
    atPath (p ++ [k]) w = [] := by
  rw [skip_general inst hI ns1 ns2 ts cls attrs hw ha] at hload
  have e : w = canon (stripG inst (ns2 ++ ns1) ts (.obj cls attrs)) := by
    injection hload with h; exact h.symm
  subst e
  have hk' : k ∈ ns2 ++ ns1 := by simp [hk.symm]
  apply List.eq_nil_iff_forall_not_mem.2
  intro x hx
  obtain ⟨u, hu, _⟩ := atPath_canon (p ++ [k]) _ x hx
  rw [strip_name_absent_every_level inst (ns2 ++ ns1) ts k hk' p] at hu
  simp at hu

/-- strict-subclass instances are instances: `int` takes a bool, `float` takes an np.float64, `Tensor` takes a Parameter -/
theorem strict_subclass_instances (b : Bool) (s : Scalar) (c : String) (t : Nat) :
    isInstance (.scalar (.bool b)) "int" = true ∧ isInstance (.npScalar "float64" s) "float" = true ∧
    isInstanceX (.scalar (.bool b)) "int" = true ∧ isInstanceX (.npScalar "float64" s) "float" = true ∧
    isInstanceX (.torch .parameter c t) "Tensor" = true := by
  simp [isInstance, isInstanceX]

example : loadX ⟨["raw"], []⟩ (saveG isInstanceX ⟨[], ["int"]⟩ (.obj "SA" [("a", .obj "SB" [("raw", .scalar (.int 1)), ("x", .scalar (.str "s"))])])) =
    .ok (.obj "SA" [("a", .obj "SB" [("x", .scalar (.str "s"))])]) := by
  rw [skip_general isInstanceX instOk_isInstanceX _ _ _ _ _ (by decide) (by decide)]; rfl

end Growth6b

end QuantemModel.Props.C14
