import QuantemModel.Lemmas.RegistrationExt
/-!
C13 — image registration (Model/Registration.lean, read at the carrier ℝ).
Only property theorems and non-vacuity examples live here.

Not proved (measured by the correspondence run only): the "within 1/upsample_factor" accuracy
for band-limited sub-pixel shifts.  The correlation theorem that identifies the spatial
correlation `cc` with `real(ifft2(fft2(ref)·conj(fft2(im))))` of the code is proved
(`correlation_theorem`, from the shared spectral core), so the `_fft` theorems below are about
the table the code really computes; the Fourier shift theorem for the aligned image
(`aligned_image_integer_shift`) and the exact condition for a strict patch maximum
(`patch_strict_max_iff_*`) are proved as well.
-/
namespace QuantemModel.Props.C13
open QuantemModel QuantemModel.Registration Finset

/-- **Autocorrelation peak** (Cauchy–Schwarz in its elementary form): for every image, shape
and lag, `ac[s,t] ≤ ac[0,0]`. -/
theorem autocorr_peak (M N : ℕ) (x : ℕ → ℕ → ℝ) (s t : ℤ) :
    cc M N x x s t ≤ cc M N x x 0 0 := by
  have h := autocorr_gap M N x s t
  have hnn : 0 ≤ ∑ i ∈ range M, ∑ j ∈ range N,
      (x i j - x (wrap M ((i : ℤ) - s)) (wrap N ((j : ℤ) - t))) ^ 2 :=
    Finset.sum_nonneg fun i _ => Finset.sum_nonneg fun j _ => sq_nonneg _
  linarith

/-- … and the peak is strict exactly when the image is not periodic with that lag. -/
theorem autocorr_peak_strict_iff (M N : ℕ) (x : ℕ → ℕ → ℝ) (s t : ℤ) :
    cc M N x x s t < cc M N x x 0 0 ↔
      ∃ i j, i < M ∧ j < N ∧ x i j ≠ x (wrap M ((i : ℤ) - s)) (wrap N ((j : ℤ) - t)) := by
  have h := autocorr_gap M N x s t
  constructor
  · intro hlt
    by_contra hcon
    have hall : ∀ i j, i < M → j < N → x i j = x (wrap M ((i : ℤ) - s)) (wrap N ((j : ℤ) - t)) := by
      intro i j hi hj
      by_contra hne
      exact hcon ⟨i, j, hi, hj, hne⟩
    have : ∑ i ∈ range M, ∑ j ∈ range N,
        (x i j - x (wrap M ((i : ℤ) - s)) (wrap N ((j : ℤ) - t))) ^ 2 = 0 := by
      apply Finset.sum_eq_zero; intro i hi
      apply Finset.sum_eq_zero; intro j hj
      rw [← hall i j (mem_range.mp hi) (mem_range.mp hj)]; ring
    rw [this] at h
    linarith
  · rintro ⟨i, j, hi, hj, hne⟩
    have hpos : 0 < ∑ i ∈ range M, ∑ j ∈ range N,
        (x i j - x (wrap M ((i : ℤ) - s)) (wrap N ((j : ℤ) - t))) ^ 2 := by
      have hle : ∀ i' ∈ range M, 0 ≤ ∑ j ∈ range N,
          (x i' j - x (wrap M ((i' : ℤ) - s)) (wrap N ((j : ℤ) - t))) ^ 2 :=
        fun i' _ => Finset.sum_nonneg fun j _ => sq_nonneg _
      refine lt_of_lt_of_le ?_ (Finset.single_le_sum hle (mem_range.mpr hi))
      refine lt_of_lt_of_le ?_ (Finset.single_le_sum (fun j' _ => sq_nonneg _) (mem_range.mpr hj))
      exact pow_pos_of_ne_zero' hne
    linarith
where
  pow_pos_of_ne_zero' {a b : ℝ} (h : a ≠ b) : 0 < (a - b) ^ 2 := by
    have : a - b ≠ 0 := sub_ne_zero.mpr h
    positivity

/-- **Integer-shift exactness, NumPy estimator without upsampling.**  For every shape, every
image with a unique correlation peak and every integer translation `(a, b)` — anywhere in the
periodic cell, beyond half the size, or outside the cell — `cross_correlation_shift(x, roll(x,(a,b)))`
returns exactly the representative of `(-a, -b)` in `[-M/2, M/2) × [-N/2, N/2)`: the parabolic
term vanishes by the symmetry of the autocorrelation and the modulo centring picks the
representative. -/
theorem integer_shift_np {M N : ℕ} (hM : 0 < M) (hN : 0 < N) (x : ℕ → ℕ → ℝ)
    (hx : UniquePeak M N x) (a b : ℤ) :
    let c := corrTable M N x (rollImg M N x a b)
    IsCentredRep M (-a) (shiftNp1 M N c c).1 ∧ IsCentredRep N (-b) (shiftNp1 M N c c).2 := by
  have h := coarseNp_roll hM hN x hx a b
  dsimp only
  simp only [shiftNp1, h.1, h.2]
  exact ⟨centre_nat_isRep (wrap_lt hM _) _ (wrap_neg_dvd hM a), centre_nat_isRep (wrap_lt hN _) _ (wrap_neg_dvd hN b)⟩

/-- **Integer-shift exactness, torch estimator (`upsample_factor ≤ 2`)**: the half-pixel
rounding leaves the integer peak untouched and the same centring applies. -/
theorem integer_shift_torch {M N : ℕ} (hM : 0 < M) (hN : 0 < N) (x : ℕ → ℕ → ℝ)
    (hx : UniquePeak M N x) (a b : ℤ) :
    let c := corrTable M N x (rollImg M N x a b)
    IsCentredRep M (-a) (shiftTorch2 M N c).1 ∧ IsCentredRep N (-b) (shiftTorch2 M N c).2 := by
  have h := coarseTorch_roll hM hN x hx a b
  dsimp only
  simp only [shiftTorch2, h.1, h.2]
  exact ⟨centre_nat_isRep (wrap_lt hM _) _ (wrap_neg_dvd hM a), centre_nat_isRep (wrap_lt hN _) _ (wrap_neg_dvd hN b)⟩

/-- **Sign convention**: translating the second image (`roll(x, (a, b))`) by any shift congruent
to the returned one (`≡ (-a, -b)`) reproduces the first image on the whole cell. -/
theorem sign_convention {M N : ℕ} (hM : 0 < M) (hN : 0 < N) (x : ℕ → ℕ → ℝ) (a b r c : ℤ)
    (hr : (M : ℤ) ∣ (r - -a)) (hc : (N : ℤ) ∣ (c - -b)) :
    ∀ i j, i < M → j < N → applyShift M N (rollImg M N x a b) r c i j = x i j := by
  intro i j hi hj
  unfold applyShift rollImg
  rw [wrap_wrap_sub hM, wrap_wrap_sub hN]
  obtain ⟨k, hk⟩ := hr
  obtain ⟨l, hl⟩ := hc
  have e1 : (i : ℤ) - (r + a) = (i : ℤ) + (M : ℤ) * (-k) := by
    have : r + a = (M : ℤ) * k := by linarith
    rw [this]; ring
  have e2 : (j : ℤ) - (c + b) = (j : ℤ) + (N : ℤ) * (-l) := by
    have : c + b = (N : ℤ) * l := by linarith
    rw [this]; ring
  rw [e1, e2, wrap_add_mul, wrap_add_mul, wrap_of_lt hi, wrap_of_lt hj]

/-- **Swapping the two images negates the result** (NumPy estimator, no upsampling): for every
pair of images whose correlation has a unique maximum, peak and parabolic term are mirrored and
the modulo centring is odd — except exactly at the tie `-M/2` (which is its own negative mod `M`). -/
theorem swap_negates_np {M N : ℕ} (hM : 0 < M) (hN : 0 < N) (x y : ℕ → ℕ → ℝ) (p q : ℕ)
    (hmax : UniqueMaxAt M N (corrTable M N x y) p q) :
    let s := shiftNp1 M N (corrTable M N x y) (corrTable M N x y)
    let s' := shiftNp1 M N (corrTable M N y x) (corrTable M N y x)
    (s.1 ≠ -((M : ℝ) / 2) → s'.1 = -s.1) ∧ (s.2 ≠ -((N : ℝ) / 2) → s'.2 = -s.2) :=
  shiftNp1_mirror hM hN (corrTable_swap hM hN x y) hmax

/-- **Swapping the two images negates the result, torch estimator (`upsample_factor ≤ 2`)**:
`torch.round` (half to even) is an odd function and commutes with even integer translations, so the
half-pixel rounding does not break the symmetry; again except exactly at the `-M/2` tie. -/
theorem swap_negates_torch {M N : ℕ} (hM : 0 < M) (hN : 0 < N) (x y : ℕ → ℕ → ℝ) (p q : ℕ)
    (hmax : UniqueMaxAt M N (corrTable M N x y) p q) :
    let s := shiftTorch2 M N (corrTable M N x y)
    let s' := shiftTorch2 M N (corrTable M N y x)
    (s.1 ≠ -((M : ℝ) / 2) → s'.1 = -s.1) ∧ (s.2 ≠ -((N : ℝ) / 2) → s'.2 = -s.2) :=
  shiftTorch2_mirror hM hN (corrTable_swap hM hN x y) hmax

/-- the swap also mirrors the peak that both variants (NumPy and torch) start from -/
theorem swap_mirrors_peak {M N : ℕ} (hM : 0 < M) (hN : 0 < N) (x y : ℕ → ℕ → ℝ) (p q : ℕ)
    (hmax : UniqueMaxAt M N (corrTable M N x y) p q) :
    argmax2 M N (corrTable M N x y) = (p, q) ∧
    argmax2 M N (corrTable M N y x) = (wrap M (-(p : ℤ)), wrap N (-(q : ℤ))) :=
  ⟨argmax2_unique hmax, argmax2_unique (uniqueMax_mirror hM hN (corrTable_swap hM hN x y) hmax)⟩

/-- **Identical images, every upsampling factor, NumPy variant — the patch.**  Whatever the
Fourier table `G` of the image, shape and `up ≥ 1`: every entry of the upsampled patch
`dft_upsample(G·conj G, up, (0,0))` is bounded by the entry at index `(du, du)`, `du = ⌈1.5·up⌉`
(`Re Σ c_k e^{iθ_k} ≤ Σ c_k` for `c_k = |G_k|² ≥ 0`), that grid point is the one the caller's
conversion `(peak - local.shape[0]//2)/up` maps to offset `0`, and the two neighbours used by
the sub-pixel parabola are equal there. -/
theorem identical_patch_np (M N up : ℕ) (hup : 1 ≤ up) (G : ℕ → ℕ → Cx ℝ) :
    let p := patchNp M N up (ccF G G) 0 0
    (∀ u v, p u v ≤ p (du up) (du up)) ∧
    finalNp up (0 : ℝ) (du up) 0 = 0 ∧
    p (du up - 1) (du up) = p (du up + 1) (du up) ∧ p (du up) (du up - 1) = p (du up) (du up + 1) := by
  intro p
  have hF := ccF_self_im G
  have hpos := ccF_self_re G
  have hc : posNp up (0 : ℝ) (du up) = 0 := by rw [posNp_zero]; simp
  refine ⟨?_, finalNp_centre up, ?_, ?_⟩
  · intro u v
    show patchAt M N up 1 (ccF G G) _ _ ≤ patchAt M N up 1 (ccF G G) _ _
    rw [hc]
    exact patchAt_le_centre M N up 1 _ hF hpos _ _
  · show patchAt M N up 1 (ccF G G) _ _ = patchAt M N up 1 (ccF G G) _ _
    rw [hc]
    have h1 : posNp up (0 : ℝ) (du up - 1) = -posNp up (0 : ℝ) (du up + 1) := by
      rw [posNp_zero, posNp_zero]
      have : 1 ≤ du up := by have := du_pos hup; omega
      push_cast [Nat.cast_sub this]; ring
    rw [h1, patchAt_row_even _ _ _ _ _ hF]
  · show patchAt M N up 1 (ccF G G) _ _ = patchAt M N up 1 (ccF G G) _ _
    rw [hc]
    have h1 : posNp up (0 : ℝ) (du up - 1) = -posNp up (0 : ℝ) (du up + 1) := by
      rw [posNp_zero, posNp_zero]
      have : 1 ≤ du up := by have := du_pos hup; omega
      push_cast [Nat.cast_sub this]; ring
    rw [h1, patchAt_col_even _ _ _ _ _ hF]

/-- **Identical images give a zero shift for every upsampling factor (NumPy variant).**
For every shape, every image with a unique correlation peak, every `up ≥ 1` and every Fourier
table `G` (in particular `G = fft2(x)`): if the patch maximum at `(du, du)` is attained only
there, `cross_correlation_shift(x, x, upsample_factor=up)` is exactly `(0, 0)`. -/
theorem identical_zero_upsampled_np {M N : ℕ} (hM : 0 < M) (hN : 0 < N) (x : ℕ → ℕ → ℝ)
    (hx : UniquePeak M N x) (up : ℕ) (hup : 1 ≤ up) (G : ℕ → ℕ → Cx ℝ)
    (hstrict : UniqueMaxAt (sideNp up) (sideNp up) (patchNp M N up (ccF G G) 0 0) (du up) (du up)) :
    shiftNpUp M N up (corrTable M N x x) (corrTable M N x x) (ccF G G) = (0, 0) :=
  shiftNpUp_identical hM hN x _ (uniquePeak_uniqueMax hM hN x hx) up hup G hstrict

/-- the same with a `max_shift` mask on the search table (as `align_translation` calls it):
the mask keeps the zero lag, and the refinement reads the unmasked correlation. -/
theorem identical_zero_upsampled_np_masked {M N : ℕ} (hM : 0 < M) (hN : 0 < N) (x : ℕ → ℕ → ℝ)
    (hx : UniquePeak M N x) (hpos : 0 < cc M N x x 0 0) (m : ℝ) (hm : 0 < m)
    (up : ℕ) (hup : 1 ≤ up) (G : ℕ → ℕ → Cx ℝ)
    (hstrict : UniqueMaxAt (sideNp up) (sideNp up) (patchNp M N up (ccF G G) 0 0) (du up) (du up)) :
    shiftNpUp M N up (masked M N (some m) (corrTable M N x x)) (corrTable M N x x) (ccF G G) = (0, 0) ∧
    shiftNp1 M N (masked M N (some m) (corrTable M N x x)) (corrTable M N x x) = (0, 0) := by
  have hcs := masked_uniqueMax_zero hM hN _ (some m) (fun m' h => by cases h; exact hm)
    (uniquePeak_uniqueMax hM hN x hx) (by simpa [corrTable] using hpos)
  exact ⟨shiftNpUp_identical hM hN x _ hcs up hup G hstrict, shiftNp1_identical hM hN x _ hcs⟩

/-- **Identical images, every upsampling factor, torch variant — the patch**: with the snapped
coarse position `0`, `upsampleCenter = globalShift`, every entry of
`dftUpsample_torch(conj(G·conj G), up, center)` is bounded by the entry at index
`(globalShift, globalShift)`, which `xySubShift - globalShift` maps to offset `0`. -/
theorem identical_patch_torch (M N up : ℕ) (G : ℕ → ℕ → Cx ℝ) :
    let p := patchTorch M N up (conjF (ccF G G)) (centerTorch up (snapTorch up (0 : ℝ))) (centerTorch up (snapTorch up (0 : ℝ)))
    (∀ u v, p u v ≤ p (gShift up) (gShift up)) ∧
    finalTorch up (snapTorch up (0 : ℝ)) (gShift up) 0 = 0 ∧
    (1 ≤ gShift up → p (gShift up - 1) (gShift up) = p (gShift up + 1) (gShift up) ∧
      p (gShift up) (gShift up - 1) = p (gShift up) (gShift up + 1)) := by
  intro p
  have hF := conjF_self_im G
  have hpos := conjF_self_re G
  have hc : posTorch (centerTorch up (0 : ℝ)) (gShift up) = 0 := by rw [posTorch_centre]; simp
  refine ⟨?_, by rw [snapTorch_zero]; exact finalTorch_centre up, ?_⟩
  · intro u v
    show patchAt M N up (-1) (conjF (ccF G G)) _ _ ≤ patchAt M N up (-1) (conjF (ccF G G)) _ _
    rw [snapTorch_zero, hc]
    exact patchAt_le_centre M N up (-1) _ hF hpos _ _
  · intro hg
    have h1 : posTorch (centerTorch up (0 : ℝ)) (gShift up - 1) = -posTorch (centerTorch up (0 : ℝ)) (gShift up + 1) := by
      rw [posTorch_centre, posTorch_centre]
      push_cast [Nat.cast_sub hg]; ring
    constructor
    · show patchAt M N up (-1) (conjF (ccF G G)) _ _ = patchAt M N up (-1) (conjF (ccF G G)) _ _
      rw [snapTorch_zero, hc, h1, patchAt_row_even _ _ _ _ _ hF]
    · show patchAt M N up (-1) (conjF (ccF G G)) _ _ = patchAt M N up (-1) (conjF (ccF G G)) _ _
      rw [snapTorch_zero, hc, h1, patchAt_col_even _ _ _ _ _ hF]

/-- **Identical images give a zero shift for every upsampling factor (torch variant, `up > 2`
path; `up ≤ 2` is `integer_shift_torch` with `a = b = 0`).** -/
theorem identical_zero_upsampled_torch {M N : ℕ} (hM : 0 < M) (hN : 0 < N) (x : ℕ → ℕ → ℝ)
    (hx : UniquePeak M N x) (up : ℕ) (hup : 2 ≤ up) (G : ℕ → ℕ → Cx ℝ)
    (hstrict : UniqueMaxAt (sideTorch up) (sideTorch up)
      (patchTorch M N up (conjF (ccF G G)) (centerTorch up (snapTorch up (0 : ℝ))) (centerTorch up (snapTorch up (0 : ℝ))))
      (gShift up) (gShift up)) :
    shiftTorchUp M N up (corrTable M N x x) (ccF G G) = (0, 0) := by
  have hco := coarseTorch_roll hM hN x hx 0 0
  rw [corrTable_roll_zero hM hN] at hco
  have hw1 : ((wrap M (-(0 : ℤ)) : ℕ) : ℝ) = 0 := by simp [wrap_zero]
  have hw2 : ((wrap N (-(0 : ℤ)) : ℕ) : ℝ) = 0 := by simp [wrap_zero]
  rw [hw1] at hco; rw [hw2] at hco
  have hg : 1 ≤ gShift up := by unfold gShift du; omega
  obtain ⟨_, hfin, hsym⟩ := identical_patch_torch M N up G
  obtain ⟨hsym1, hsym2⟩ := hsym hg
  unfold shiftTorchUp
  simp only [hco.1, hco.2]
  unfold upsampledTorch upsampledTorchOf
  simp only [argmax2_unique hstrict]
  have hcond : 1 ≤ gShift up ∧ gShift up + 2 ≤ sideTorch up ∧ 1 ≤ gShift up ∧ gShift up + 2 ≤ sideTorch up := by
    unfold sideTorch gShift du; omega
  simp only [patchRefine, hcond, and_self, if_true]
  rw [hsym1, hsym2, parabolic_symm, parabolic_symm, hfin, centre_zero hM, centre_zero hN]

/-- **Intensity-scale invariance**: multiplying both images by the same non-zero factor `a`
(any size: `1e-12`, `1e+6`, …) changes neither estimator's result — the correlation table is
multiplied by `a² > 0`, which moves no comparison of the arg-max and cancels in the parabola.
In particular nothing may depend on the absolute pixel values being "large enough". -/
theorem shift_scale_invariant {M N : ℕ} (a : ℝ) (ha : a ≠ 0) (x y : ℕ → ℕ → ℝ) :
    let sx : ℕ → ℕ → ℝ := fun i j => a * x i j
    let sy : ℕ → ℕ → ℝ := fun i j => a * y i j
    shiftNp1 M N (corrTable M N sx sy) (corrTable M N sx sy)
        = shiftNp1 M N (corrTable M N x y) (corrTable M N x y) ∧
    shiftTorch2 M N (corrTable M N sx sy) = shiftTorch2 M N (corrTable M N x y) := by
  have hl : 0 < a * a := mul_self_pos.mpr ha
  dsimp only
  rw [corrTable_scale]
  exact ⟨shiftNp1_scale hl M N _ _, shiftTorch2_scale hl M N _⟩

/-! ### the FFT formula the code evaluates -/

/-- **Correlation theorem.**  For every shape and every pair of real images, the table
`real(ifft2(fft2(ref) * conj(fft2(im))))` (defining DFT sums, as the code evaluates it) *is* the
spatial circular cross-correlation table all coarse-stage theorems are about. -/
theorem correlation_theorem {M N : ℕ} (hM : 0 < M) (hN : 0 < N) (ref im : ℕ → ℕ → ℝ) :
    ccRealFFT M N ref im = corrTable M N ref im := by
  funext s t
  exact Registration.correlation_theorem hM hN ref im s t

/-- integer-shift exactness of the NumPy estimator, stated on the FFT table -/
theorem integer_shift_np_fft {M N : ℕ} (hM : 0 < M) (hN : 0 < N) (x : ℕ → ℕ → ℝ)
    (hx : UniquePeak M N x) (a b : ℤ) :
    let c := ccRealFFT M N x (rollImg M N x a b)
    IsCentredRep M (-a) (shiftNp1 M N c c).1 ∧ IsCentredRep N (-b) (shiftNp1 M N c c).2 := by
  rw [correlation_theorem hM hN]
  exact integer_shift_np hM hN x hx a b

/-- integer-shift exactness of the torch estimator, stated on the FFT table -/
theorem integer_shift_torch_fft {M N : ℕ} (hM : 0 < M) (hN : 0 < N) (x : ℕ → ℕ → ℝ)
    (hx : UniquePeak M N x) (a b : ℤ) :
    let c := ccRealFFT M N x (rollImg M N x a b)
    IsCentredRep M (-a) (shiftTorch2 M N c).1 ∧ IsCentredRep N (-b) (shiftTorch2 M N c).2 := by
  rw [correlation_theorem hM hN]
  exact integer_shift_torch hM hN x hx a b

/-- swap negation, stated on the FFT tables of `(x, y)` and `(y, x)` -/
theorem swap_negates_np_fft {M N : ℕ} (hM : 0 < M) (hN : 0 < N) (x y : ℕ → ℕ → ℝ) (p q : ℕ)
    (hmax : UniqueMaxAt M N (ccRealFFT M N x y) p q) :
    let s := shiftNp1 M N (ccRealFFT M N x y) (ccRealFFT M N x y)
    let s' := shiftNp1 M N (ccRealFFT M N y x) (ccRealFFT M N y x)
    (s.1 ≠ -((M : ℝ) / 2) → s'.1 = -s.1) ∧ (s.2 ≠ -((N : ℝ) / 2) → s'.2 = -s.2) := by
  rw [correlation_theorem hM hN] at hmax ⊢
  rw [correlation_theorem hM hN y x]
  exact swap_negates_np hM hN x y p q hmax

/-- swap negation of the torch estimator, stated on the FFT tables -/
theorem swap_negates_torch_fft {M N : ℕ} (hM : 0 < M) (hN : 0 < N) (x y : ℕ → ℕ → ℝ) (p q : ℕ)
    (hmax : UniqueMaxAt M N (ccRealFFT M N x y) p q) :
    let s := shiftTorch2 M N (ccRealFFT M N x y)
    let s' := shiftTorch2 M N (ccRealFFT M N y x)
    (s.1 ≠ -((M : ℝ) / 2) → s'.1 = -s.1) ∧ (s.2 ≠ -((N : ℝ) / 2) → s'.2 = -s.2) := by
  rw [correlation_theorem hM hN] at hmax ⊢
  rw [correlation_theorem hM hN y x]
  exact swap_negates_torch hM hN x y p q hmax

/-- identical images, every upsampling factor, on the tables the code computes: `cc_real` from the
FFT formula and the Fourier product `fft2(x)·conj(fft2(x))` handed to `dft_upsample` -/
theorem identical_zero_upsampled_np_fft {M N : ℕ} (hM : 0 < M) (hN : 0 < N) (x : ℕ → ℕ → ℝ)
    (hx : UniquePeak M N x) (up : ℕ) (hup : 1 ≤ up)
    (hstrict : UniqueMaxAt (sideNp up) (sideNp up)
      (patchNp M N up (ccF (dft2At M N x) (dft2At M N x)) 0 0) (du up) (du up)) :
    shiftNpUp M N up (ccRealFFT M N x x) (ccRealFFT M N x x) (ccF (dft2At M N x) (dft2At M N x)) = (0, 0) := by
  rw [correlation_theorem hM hN]
  exact identical_zero_upsampled_np hM hN x hx up hup _ hstrict

/-- **Fourier shift theorem for the returned aligned image** (`return_shifted_image=True`): for an
integer shift `(r, c)`, `real(ifft2(fft2(im) * exp(-2πi(kx·r + ky·c))))` is `im` rolled by `(r, c)`
— the phase ramp with the signed `fftfreq` frequencies acts as `np.roll`. -/
theorem aligned_image_integer_shift {M N : ℕ} (hM : 0 < M) (hN : 0 < N) (im : ℕ → ℕ → ℝ) (r c : ℤ) (n m : ℕ) :
    idft2ReAt M N (rampAt M N (dft2At M N im) (r : ℝ) (c : ℝ)) n m = applyShift M N im r c n m :=
  aligned_integer_shift hM hN im r c n m

/-- **The aligned image matches the reference**: for `im = roll(x, (a, b))` and any integer shift
congruent to the returned one, the aligned image the code returns reproduces `x` on the whole cell. -/
theorem aligned_image_reproduces_reference {M N : ℕ} (hM : 0 < M) (hN : 0 < N) (x : ℕ → ℕ → ℝ) (a b r c : ℤ)
    (hr : (M : ℤ) ∣ (r - -a)) (hc : (N : ℤ) ∣ (c - -b)) :
    ∀ i j, i < M → j < N →
      idft2ReAt M N (rampAt M N (dft2At M N (rollImg M N x a b)) (r : ℝ) (c : ℝ)) i j = x i j := by
  intro i j hi hj
  rw [aligned_integer_shift hM hN]
  exact sign_convention hM hN x a b r c hr hc i j hi hj

/-! ### when the patch maximum is strict (hypothesis `hstrict` of the zero-shift theorems) -/

/-- **Exact characterisation, NumPy patch.**  The upsampled autocorrelation patch has its maximum
*only* at the zero-offset index iff for every other patch position `(u, v)` some non-zero Fourier
coefficient `G[k,l]` of the image sees a phase that is not a multiple of `2π`, i.e.
`M·N·up ∤ N·(u-du)·f_k + M·(v-du)·f_l` (`f` the signed frequencies): the image is not invariant
under the fractional translation `((u-du)/up, (v-du)/up)`. -/
theorem patch_strict_max_iff_np {M N up : ℕ} (hM : 0 < M) (hN : 0 < N) (hup : 1 ≤ up) (G : ℕ → ℕ → Cx ℝ) :
    UniqueMaxAt (sideNp up) (sideNp up) (patchNp M N up (ccF G G) 0 0) (du up) (du up) ↔
      ∀ u v, u < sideNp up → v < sideNp up → (u ≠ du up ∨ v ≠ du up) →
        ∃ k, k < M ∧ ∃ l, l < N ∧ ((G k l).re ≠ 0 ∨ (G k l).im ≠ 0) ∧
          ¬ (((M * N * up : ℕ) : ℤ) ∣
              (N : ℤ) * ((u : ℤ) - du up) * freq M k + (M : ℤ) * ((v : ℤ) - du up) * freq N l) := by
  have h := uniqueMax_patch_iff hM hN (by omega : 0 < up) (Or.inl rfl) (ccF G G) (ccF_self_im G) (ccF_self_re G)
    (sideNp up) (du up) (by unfold sideNp; omega) (posNp up (0 : ℝ)) (fun u => by rw [posNp_zero])
  have hp : patchNp M N up (ccF G G) 0 0
      = fun u v => patchAt M N up 1 (ccF G G) (posNp up (0 : ℝ) u) (posNp up (0 : ℝ) v) := rfl
  rw [hp, h]
  simp only [ccF_self_re_pos_iff]

/-- **Exact characterisation, torch patch** (snapped coarse position 0, offsets `j - globalShift`). -/
theorem patch_strict_max_iff_torch {M N up : ℕ} (hM : 0 < M) (hN : 0 < N) (hup : 1 ≤ up) (G : ℕ → ℕ → Cx ℝ) :
    UniqueMaxAt (sideTorch up) (sideTorch up)
        (patchTorch M N up (conjF (ccF G G)) (centerTorch up (snapTorch up (0 : ℝ))) (centerTorch up (snapTorch up (0 : ℝ))))
        (gShift up) (gShift up) ↔
      ∀ u v, u < sideTorch up → v < sideTorch up → (u ≠ gShift up ∨ v ≠ gShift up) →
        ∃ k, k < M ∧ ∃ l, l < N ∧ ((G k l).re ≠ 0 ∨ (G k l).im ≠ 0) ∧
          ¬ (((M * N * up : ℕ) : ℤ) ∣
              (N : ℤ) * ((u : ℤ) - gShift up) * freq M k + (M : ℤ) * ((v : ℤ) - gShift up) * freq N l) := by
  have h := uniqueMax_patch_iff hM hN (by omega : 0 < up) (Or.inr rfl) (conjF (ccF G G)) (conjF_self_im G)
    (conjF_self_re G) (sideTorch up) (gShift up) (by unfold sideTorch gShift du; omega)
    (posTorch (centerTorch up (0 : ℝ))) (fun u => by rw [posTorch_centre])
  have hp : patchTorch M N up (conjF (ccF G G)) (centerTorch up (snapTorch up (0 : ℝ))) (centerTorch up (snapTorch up (0 : ℝ)))
      = fun u v => patchAt M N up (-1) (conjF (ccF G G)) (posTorch (centerTorch up (0 : ℝ)) u)
          (posTorch (centerTorch up (0 : ℝ)) v) := by
    rw [snapTorch_zero]; rfl
  rw [hp, h]
  have hre : ∀ k l, (conjF (ccF G G) k l).re = (ccF G G k l).re := fun k l => rfl
  simp only [hre, ccF_self_re_pos_iff]

/-- **A sufficient condition that covers every non-degenerate image**: at least 3 × 3 pixels and a
non-zero Fourier coefficient at the lowest frequency of each axis (`G[1,0] ≠ 0`, `G[0,1] ≠ 0`).
Then the NumPy patch maximum is strict for every upsampling factor. -/
theorem patch_strict_of_axis_coeffs_np {M N up : ℕ} (hM : 3 ≤ M) (hN : 3 ≤ N) (hup : 1 ≤ up) (G : ℕ → ℕ → Cx ℝ)
    (h10 : (G 1 0).re ≠ 0 ∨ (G 1 0).im ≠ 0) (h01 : (G 0 1).re ≠ 0 ∨ (G 0 1).im ≠ 0) :
    UniqueMaxAt (sideNp up) (sideNp up) (patchNp M N up (ccF G G) 0 0) (du up) (du up) := by
  rw [patch_strict_max_iff_np (by omega) (by omega) hup]
  intro u v hu hv hne
  have hf0M : freq M 0 = 0 := freq_zero (by omega)
  have hf0N : freq N 0 = 0 := freq_zero (by omega)
  have hbound : ∀ w, w < sideNp up → |(w : ℤ) - du up| < 3 * (up : ℤ) := by
    intro w hw
    unfold sideNp du at *
    rw [abs_lt]; constructor <;> omega
  by_cases hu0 : u = du up
  · have hv0 : v ≠ du up := by rcases hne with h | h; exact absurd hu0 h; exact h
    refine ⟨0, by omega, 1, by omega, h01, ?_⟩
    rw [hu0, hf0M, freq_one hN, sub_self]
    have := not_dvd_axis (M := N) (N := M) (up := up) hN (by omega) ((v : ℤ) - du up)
      (sub_ne_zero.mpr (by exact_mod_cast hv0)) (hbound v hv)
    intro hd; apply this
    have e : ((N * M * up : ℕ) : ℤ) = ((M * N * up : ℕ) : ℤ) := by push_cast; ring
    rw [e]
    convert hd using 1; ring
  · refine ⟨1, by omega, 0, by omega, h10, ?_⟩
    rw [hf0N, freq_one hM]
    have := not_dvd_axis (M := M) (N := N) (up := up) hM (by omega) ((u : ℤ) - du up)
      (sub_ne_zero.mpr (by exact_mod_cast hu0)) (hbound u hu)
    intro hd; apply this
    convert hd using 1; ring

/-- the same sufficient condition for the torch patch -/
theorem patch_strict_of_axis_coeffs_torch {M N up : ℕ} (hM : 3 ≤ M) (hN : 3 ≤ N) (hup : 1 ≤ up) (G : ℕ → ℕ → Cx ℝ)
    (h10 : (G 1 0).re ≠ 0 ∨ (G 1 0).im ≠ 0) (h01 : (G 0 1).re ≠ 0 ∨ (G 0 1).im ≠ 0) :
    UniqueMaxAt (sideTorch up) (sideTorch up)
      (patchTorch M N up (conjF (ccF G G)) (centerTorch up (snapTorch up (0 : ℝ))) (centerTorch up (snapTorch up (0 : ℝ))))
      (gShift up) (gShift up) := by
  rw [patch_strict_max_iff_torch (by omega) (by omega) hup]
  intro u v hu hv hne
  have hf0M : freq M 0 = 0 := freq_zero (by omega)
  have hf0N : freq N 0 = 0 := freq_zero (by omega)
  have hbound : ∀ w, w < sideTorch up → |(w : ℤ) - gShift up| < 3 * (up : ℤ) := by
    intro w hw
    unfold sideTorch gShift du at *
    rw [abs_lt]; constructor <;> omega
  by_cases hu0 : u = gShift up
  · have hv0 : v ≠ gShift up := by rcases hne with h | h; exact absurd hu0 h; exact h
    refine ⟨0, by omega, 1, by omega, h01, ?_⟩
    rw [hu0, hf0M, freq_one hN, sub_self]
    have := not_dvd_axis (M := N) (N := M) (up := up) hN (by omega) ((v : ℤ) - gShift up)
      (sub_ne_zero.mpr (by exact_mod_cast hv0)) (hbound v hv)
    intro hd; apply this
    have e : ((N * M * up : ℕ) : ℤ) = ((M * N * up : ℕ) : ℤ) := by push_cast; ring
    rw [e]
    convert hd using 1; ring
  · refine ⟨1, by omega, 0, by omega, h10, ?_⟩
    rw [hf0N, freq_one hM]
    have := not_dvd_axis (M := M) (N := N) (up := up) hM (by omega) ((u : ℤ) - gShift up)
      (sub_ne_zero.mpr (by exact_mod_cast hu0)) (hbound u hu)
    intro hd; apply this
    convert hd using 1; ring

/-- **Zero shift at every upsampling factor without the strictness hypothesis** (NumPy, on the
code's own FFT formulas): unique correlation peak, at least 3 × 3 pixels and non-zero lowest
Fourier coefficients on both axes suffice. -/
theorem identical_zero_upsampled_np_of_axis_coeffs {M N : ℕ} (hM : 3 ≤ M) (hN : 3 ≤ N) (x : ℕ → ℕ → ℝ)
    (hx : UniquePeak M N x) (up : ℕ) (hup : 1 ≤ up)
    (h10 : (dft2At M N x 1 0).re ≠ 0 ∨ (dft2At M N x 1 0).im ≠ 0)
    (h01 : (dft2At M N x 0 1).re ≠ 0 ∨ (dft2At M N x 0 1).im ≠ 0) :
    shiftNpUp M N up (ccRealFFT M N x x) (ccRealFFT M N x x) (ccF (dft2At M N x) (dft2At M N x)) = (0, 0) :=
  identical_zero_upsampled_np_fft (by omega) (by omega) x hx up hup
    (patch_strict_of_axis_coeffs_np hM hN hup _ h10 h01)

/-- **Ties really occur**: for a single-column image (`N = 1`) the patch does not depend on the
column offset, so the strictness hypothesis fails for every image and every factor — the first-maximum
rule then picks column index 0 and the "identical images ⇒ zero shift" clause is not provable there. -/
theorem patch_strict_single_column_counterexample {M up : ℕ} (hM : 0 < M) (hup : 1 ≤ up) (G : ℕ → ℕ → Cx ℝ) :
    ¬ UniqueMaxAt (sideNp up) (sideNp up) (patchNp M 1 up (ccF G G) 0 0) (du up) (du up) := by
  rw [patch_strict_max_iff_np hM (by norm_num) hup]
  intro h
  have hd := du_pos hup
  obtain ⟨k, _, l, hl, _, hnd⟩ := h (du up) (du up + 1) (by unfold sideNp; omega) (by unfold sideNp; omega)
    (Or.inr (by omega))
  apply hnd
  have hl0 : l = 0 := by omega
  subst hl0
  have : freq 1 0 = 0 := freq_zero (by norm_num)
  rw [this]; simp

/-- … and for a constant image (only the DC coefficient is non-zero) in any shape. -/
theorem patch_strict_constant_image_counterexample {M N up : ℕ} (hM : 0 < M) (hN : 0 < N) (hup : 1 ≤ up)
    (G : ℕ → ℕ → Cx ℝ) (hG : ∀ k l, (k ≠ 0 ∨ l ≠ 0) → (G k l).re = 0 ∧ (G k l).im = 0) :
    ¬ UniqueMaxAt (sideNp up) (sideNp up) (patchNp M N up (ccF G G) 0 0) (du up) (du up) := by
  rw [patch_strict_max_iff_np hM hN hup]
  intro h
  have hd := du_pos hup
  obtain ⟨k, _, l, _, hne, hnd⟩ := h (du up + 1) (du up) (by unfold sideNp; omega) (by unfold sideNp; omega)
    (Or.inl (by omega))
  by_cases hkl : k ≠ 0 ∨ l ≠ 0
  · have := hG k l hkl
    rcases hne with h1 | h1
    · exact h1 this.1
    · exact h1 this.2
  · rw [not_or, not_not, not_not] at hkl
    apply hnd
    rw [hkl.1, hkl.2, freq_zero hM, freq_zero hN]; simp

/-- the 3 × 3 image with a single bright pixel -/
def deltaImg : ℕ → ℕ → ℝ := fun i j => if i = 0 ∧ j = 0 then 1 else 0

theorem deltaImg_dft (k l : ℕ) : (dft2At 3 3 deltaImg k l).re = 1 := by
  unfold dft2At dft2AtW
  rw [csum_re]
  simp only [Finset.sum_range_succ, Finset.sum_range_zero, csum_re, deltaImg]
  simp [Cx.smul, root]

theorem deltaImg_uniquePeak : UniquePeak 3 3 deltaImg := by
  intro s t hs ht hne
  have hs' : s = 0 ∨ s = 1 ∨ s = 2 := by omega
  have ht' : t = 0 ∨ t = 1 ∨ t = 2 := by omega
  rcases hs' with rfl | rfl | rfl <;> rcases ht' with rfl | rfl | rfl <;>
    first
      | (exfalso; omega)
      | (rw [cc_eq, cc_eq]; simp [Finset.sum_range_succ, deltaImg, wrap]; try norm_num)

/-- **Non-vacuity of the zero-shift theorems, with every hypothesis discharged**: for the 3 × 3
single-pixel image, `cross_correlation_shift(x, x, upsample_factor=up)` as modelled on the code's own
FFT formulas is exactly `(0, 0)` for *every* `up ≥ 1`. -/
theorem identical_zero_upsampled_np_delta (up : ℕ) (hup : 1 ≤ up) :
    shiftNpUp 3 3 up (ccRealFFT 3 3 deltaImg deltaImg) (ccRealFFT 3 3 deltaImg deltaImg)
      (ccF (dft2At 3 3 deltaImg) (dft2At 3 3 deltaImg)) = (0, 0) :=
  identical_zero_upsampled_np_of_axis_coeffs (by norm_num) (by norm_num) deltaImg deltaImg_uniquePeak up hup
    (Or.inl (by rw [deltaImg_dft]; norm_num)) (Or.inl (by rw [deltaImg_dft]; norm_num))

/-! ### growth round 5: every upsampling factor, `max_shift`, the entry points with their dispatch -/

/-- **The entry points are the branch functions** (`Model/RegistrationExt.lean`): for every factor —
`0` included — `cross_correlation_shift` takes the parabolic branch iff `upsample_factor ≤ 1`,
`cross_correlation_shift_torch` iff `upsample_factor ≤ 2`; the guarded parabola of the NumPy variant
(`0.0` for a flat triple) is the plain quotient over ℝ. -/
theorem entry_points_dispatch (M N up : ℕ) (cs c : ℕ → ℕ → ℝ) (F : ℕ → ℕ → Cx ℝ) :
    shiftNp M N up cs c F = (if up ≤ 1 then shiftNp1 M N cs c else shiftNpUp M N up cs c F) ∧
    shiftTorch M N up c F = (if up ≤ 2 then shiftTorch2 M N c else shiftTorchUp M N up c F) ∧
    (shiftTorch M N up c F).1 = centre (alignTorch M N up c F).1 M :=
  ⟨shiftNp_eq M N up cs c F, shiftTorch_eq M N up c F, rfl⟩

/-- **The upsampled patch does not see an integer translation**: for an integer-shifted copy the patch
`dft_upsample(F_ref·conj(F_im), up, coarse peak)` (NumPy) / `dftUpsample_torch(conj(cc), up, upsampleCenter)`
(torch) is, entry by entry, the patch of identical images around zero — DFT shift theorem plus the
periodicity of the matrix-multiply kernels in the integer part of the sample position. -/
theorem upsampled_patch_shift_invariant {M N up : ℕ} (hM : 0 < M) (hN : 0 < N) (hup : 0 < up) (x : ℕ → ℕ → ℝ) (a b : ℤ) :
    patchNp M N up (ccF (dft2At M N x) (dft2At M N (rollImg M N x a b))) ((wrap M (-a) : ℕ) : ℝ) ((wrap N (-b) : ℕ) : ℝ)
        = patchNp M N up (ccF (dft2At M N x) (dft2At M N x)) 0 0 ∧
    patchTorch M N up (conjF (ccF (dft2At M N x) (dft2At M N (rollImg M N x a b))))
        (centerTorch up (((wrap M (-a) : ℕ) : ℝ))) (centerTorch up (((wrap N (-b) : ℕ) : ℝ)))
        = patchTorch M N up (conjF (ccF (dft2At M N x) (dft2At M N x))) (centerTorch up (0 : ℝ)) (centerTorch up (0 : ℝ)) :=
  ⟨patchNp_roll hM hN hup x a b, patchTorch_roll hM hN hup x a b⟩

/-- **Integer-shift exactness of `cross_correlation_shift` for EVERY upsampling factor and `max_shift`
setting**, on the tables the code computes (FFT formula for `cc_real`, `fft2(x)·conj(fft2(y))` for the
kernel): for every shape, image with a unique correlation peak, integer translation `(a, b)` anywhere in
or outside the cell, factor `up = 0, 1, 2, …`, and `max_shift` that leaves the true lag inside the search
disc, the entry point returns exactly the representative of `(-a, -b)` in `[-M/2, M/2) × [-N/2, N/2)`.
For `up ≥ 2` the patch of identical images must have a strict maximum (`hstrict`; exactly characterised by
`patch_strict_max_iff_np`, implied by non-zero lowest Fourier coefficients — next theorem). -/
theorem integer_shift_np_every_factor {M N : ℕ} (hM : 0 < M) (hN : 0 < N) (x : ℕ → ℕ → ℝ)
    (hx : UniquePeak M N x) (hpos : 0 < cc M N x x 0 0) (a b : ℤ) (up : ℕ) (ms : Option ℝ)
    (hvis : ∀ m, ms = some m →
      ((freq M (wrap M (-a)) * freq M (wrap M (-a)) + freq N (wrap N (-b)) * freq N (wrap N (-b)) : ℤ) : ℝ) < m * m)
    (hstrict : 2 ≤ up → UniqueMaxAt (sideNp up) (sideNp up)
      (patchNp M N up (ccF (dft2At M N x) (dft2At M N x)) 0 0) (du up) (du up)) :
    IsCentredRep M (-a) (shiftNp M N up (masked M N ms (ccRealFFT M N x (rollImg M N x a b)))
        (ccRealFFT M N x (rollImg M N x a b)) (ccF (dft2At M N x) (dft2At M N (rollImg M N x a b)))).1 ∧
    IsCentredRep N (-b) (shiftNp M N up (masked M N ms (ccRealFFT M N x (rollImg M N x a b)))
        (ccRealFFT M N x (rollImg M N x a b)) (ccF (dft2At M N x) (dft2At M N (rollImg M N x a b)))).2 := by
  rw [correlation_theorem hM hN]
  have hmax := corrTable_roll_uniqueMax hM hN x hx a b
  have hpk : 0 < corrTable M N x (rollImg M N x a b) (wrap M (-a)) (wrap N (-b)) := by
    rw [corrTable_roll_peak hM hN]; exact hpos
  have hcs := masked_uniqueMax_inside (corrTable M N x (rollImg M N x a b)) ms _ _ hvis hmax hpk
  have hco := coarseNp_roll_of hM hN x a b _ hcs
  have hfin : IsCentredRep M (-a) (centre (((wrap M (-a) : ℕ) : ℝ)) M) ∧ IsCentredRep N (-b) (centre (((wrap N (-b) : ℕ) : ℝ)) N) :=
    ⟨centre_nat_isRep (wrap_lt hM _) _ (wrap_neg_dvd hM a), centre_nat_isRep (wrap_lt hN _) _ (wrap_neg_dvd hN b)⟩
  rw [shiftNp_eq]
  split
  · simp only [shiftNp1, hco.1, hco.2]
    exact hfin
  · have hup : 2 ≤ up := by omega
    unfold shiftNpUp
    simp only [hco.1, hco.2]
    rw [patchNp_roll hM hN (by omega) x a b, upsampledNpOf_centre M N up (by omega) _ _ _ (hstrict hup)]
    exact hfin

/-- … with the strictness hypothesis discharged: at least 3 × 3 pixels and non-zero lowest Fourier
coefficients on both axes. -/
theorem integer_shift_np_every_factor_of_axis_coeffs {M N : ℕ} (hM : 3 ≤ M) (hN : 3 ≤ N) (x : ℕ → ℕ → ℝ)
    (hx : UniquePeak M N x) (hpos : 0 < cc M N x x 0 0) (a b : ℤ) (up : ℕ) (ms : Option ℝ)
    (hvis : ∀ m, ms = some m →
      ((freq M (wrap M (-a)) * freq M (wrap M (-a)) + freq N (wrap N (-b)) * freq N (wrap N (-b)) : ℤ) : ℝ) < m * m)
    (h10 : (dft2At M N x 1 0).re ≠ 0 ∨ (dft2At M N x 1 0).im ≠ 0)
    (h01 : (dft2At M N x 0 1).re ≠ 0 ∨ (dft2At M N x 0 1).im ≠ 0) :
    IsCentredRep M (-a) (shiftNp M N up (masked M N ms (ccRealFFT M N x (rollImg M N x a b)))
        (ccRealFFT M N x (rollImg M N x a b)) (ccF (dft2At M N x) (dft2At M N (rollImg M N x a b)))).1 ∧
    IsCentredRep N (-b) (shiftNp M N up (masked M N ms (ccRealFFT M N x (rollImg M N x a b)))
        (ccRealFFT M N x (rollImg M N x a b)) (ccF (dft2At M N x) (dft2At M N (rollImg M N x a b)))).2 :=
  integer_shift_np_every_factor (by omega) (by omega) x hx hpos a b up ms hvis
    (fun hup => patch_strict_of_axis_coeffs_np hM hN (by omega) _ h10 h01)

/-- **Integer-shift exactness of `cross_correlation_shift_torch` for EVERY upsampling factor**
(`up ≤ 2`: half-pixel parabolic branch, `up ≥ 3`: `upsampled_correlation_torch`), on the FFT tables. -/
theorem integer_shift_torch_every_factor {M N : ℕ} (hM : 0 < M) (hN : 0 < N) (x : ℕ → ℕ → ℝ)
    (hx : UniquePeak M N x) (a b : ℤ) (up : ℕ)
    (hstrict : 3 ≤ up → UniqueMaxAt (sideTorch up) (sideTorch up)
      (patchTorch M N up (conjF (ccF (dft2At M N x) (dft2At M N x))) (centerTorch up (0 : ℝ)) (centerTorch up (0 : ℝ)))
      (gShift up) (gShift up)) :
    IsCentredRep M (-a) (shiftTorch M N up (ccRealFFT M N x (rollImg M N x a b))
        (ccF (dft2At M N x) (dft2At M N (rollImg M N x a b)))).1 ∧
    IsCentredRep N (-b) (shiftTorch M N up (ccRealFFT M N x (rollImg M N x a b))
        (ccF (dft2At M N x) (dft2At M N (rollImg M N x a b)))).2 := by
  rw [correlation_theorem hM hN, shiftTorch_eq]
  split
  · exact integer_shift_torch hM hN x hx a b
  · have hup : 3 ≤ up := by omega
    have hco := coarseTorch_roll hM hN x hx a b
    unfold shiftTorchUp upsampledTorch
    simp only [hco.1, hco.2]
    rw [snapTorch_nat (by omega), snapTorch_nat (by omega), patchTorch_roll hM hN (by omega) x a b,
      upsampledTorchOf_centre M N up (by omega) _ _ _ (hstrict hup)]
    exact ⟨centre_nat_isRep (wrap_lt hM _) _ (wrap_neg_dvd hM a), centre_nat_isRep (wrap_lt hN _) _ (wrap_neg_dvd hN b)⟩

/-- … with the strictness hypothesis discharged as for the NumPy variant. -/
theorem integer_shift_torch_every_factor_of_axis_coeffs {M N : ℕ} (hM : 3 ≤ M) (hN : 3 ≤ N) (x : ℕ → ℕ → ℝ)
    (hx : UniquePeak M N x) (a b : ℤ) (up : ℕ)
    (h10 : (dft2At M N x 1 0).re ≠ 0 ∨ (dft2At M N x 1 0).im ≠ 0)
    (h01 : (dft2At M N x 0 1).re ≠ 0 ∨ (dft2At M N x 0 1).im ≠ 0) :
    IsCentredRep M (-a) (shiftTorch M N up (ccRealFFT M N x (rollImg M N x a b))
        (ccF (dft2At M N x) (dft2At M N (rollImg M N x a b)))).1 ∧
    IsCentredRep N (-b) (shiftTorch M N up (ccRealFFT M N x (rollImg M N x a b))
        (ccF (dft2At M N x) (dft2At M N (rollImg M N x a b)))).2 :=
  integer_shift_torch_every_factor (by omega) (by omega) x hx a b up (fun hup => by
    have h := patch_strict_of_axis_coeffs_torch hM hN (by omega : 1 ≤ up) (dft2At M N x) h10 h01
    rwa [snapTorch_zero] at h)

/-- the centred representative of `0` is `0`: with `a = b = 0` the two theorems above say that identical
images give exactly `(0, 0)` through either entry point, at every factor and `max_shift` setting -/
theorem isCentredRep_zero {M : ℕ} (hM : 0 < M) {v : ℝ} (h : IsCentredRep M (-0) v) : v = 0 := by
  obtain ⟨r, hv, ⟨c, hc⟩, h1, h2⟩ := h
  have hr : r = (M : ℤ) * c := by linarith
  have hM' : (0 : ℤ) < M := by exact_mod_cast hM
  have hc0 : c = 0 := by
    by_contra hne
    rcases lt_or_gt_of_ne hne with hlt | hgt
    · have : (M : ℤ) * c ≤ (M : ℤ) * (-1) := Int.mul_le_mul_of_nonneg_left (by omega) (le_of_lt hM')
      omega
    · have : (M : ℤ) * 1 ≤ (M : ℤ) * c := Int.mul_le_mul_of_nonneg_left (by omega) (le_of_lt hM')
      omega
  rw [hv, hr, hc0]; simp

/-- **Identical images give a zero shift for every upsampling factor, through both entry points**, on
the FFT tables and with any positive `max_shift`: one statement for `up = 0, 1, 2, 3, …` (the dispatch
is inside `shiftNp` / `shiftTorch`).  The strictness hypotheses are needed only on the upsampled
branches and are discharged by `patch_strict_of_axis_coeffs_np/_torch`. -/
theorem identical_zero_every_factor {M N : ℕ} (hM : 0 < M) (hN : 0 < N) (x : ℕ → ℕ → ℝ)
    (hx : UniquePeak M N x) (hpos : 0 < cc M N x x 0 0) (up : ℕ) (ms : Option ℝ) (hms : ∀ m, ms = some m → 0 < m)
    (hsn : 2 ≤ up → UniqueMaxAt (sideNp up) (sideNp up)
      (patchNp M N up (ccF (dft2At M N x) (dft2At M N x)) 0 0) (du up) (du up))
    (hst : 3 ≤ up → UniqueMaxAt (sideTorch up) (sideTorch up)
      (patchTorch M N up (conjF (ccF (dft2At M N x) (dft2At M N x))) (centerTorch up (snapTorch up (0 : ℝ)))
        (centerTorch up (snapTorch up (0 : ℝ)))) (gShift up) (gShift up)) :
    shiftNp M N up (masked M N ms (ccRealFFT M N x x)) (ccRealFFT M N x x) (ccF (dft2At M N x) (dft2At M N x)) = (0, 0) ∧
    shiftTorch M N up (ccRealFFT M N x x) (ccF (dft2At M N x) (dft2At M N x)) = (0, 0) := by
  rw [correlation_theorem hM hN]
  have hcs := masked_uniqueMax_zero hM hN _ ms hms (uniquePeak_uniqueMax hM hN x hx) (by simpa [corrTable] using hpos)
  constructor
  · rw [shiftNp_eq]
    split
    · exact shiftNp1_identical hM hN x _ hcs
    · exact shiftNpUp_identical hM hN x _ hcs up (by omega) _ (hsn (by omega))
  · rw [shiftTorch_eq]
    split
    · have h := integer_shift_torch hM hN x hx 0 0
      dsimp only at h
      rw [corrTable_roll_zero hM hN] at h
      exact Prod.ext (isCentredRep_zero hM h.1) (isCentredRep_zero hN h.2)
    · exact identical_zero_upsampled_torch hM hN x hx up (by omega) _ (hst (by omega))

/-- **Non-vacuity, every hypothesis discharged**: the 3 × 3 single-pixel image translated by `(1, 2)` is
located exactly by the NumPy entry point at every factor `up` (0, 1, 2, …, 64, …), with `max_shift = 2`. -/
theorem integer_shift_np_every_factor_delta (up : ℕ) :
    IsCentredRep 3 (-1) (shiftNp 3 3 up (masked 3 3 (some 2) (ccRealFFT 3 3 deltaImg (rollImg 3 3 deltaImg 1 2)))
        (ccRealFFT 3 3 deltaImg (rollImg 3 3 deltaImg 1 2)) (ccF (dft2At 3 3 deltaImg) (dft2At 3 3 (rollImg 3 3 deltaImg 1 2)))).1 ∧
    IsCentredRep 3 (-2) (shiftNp 3 3 up (masked 3 3 (some 2) (ccRealFFT 3 3 deltaImg (rollImg 3 3 deltaImg 1 2)))
        (ccRealFFT 3 3 deltaImg (rollImg 3 3 deltaImg 1 2)) (ccF (dft2At 3 3 deltaImg) (dft2At 3 3 (rollImg 3 3 deltaImg 1 2)))).2 := by
  refine integer_shift_np_every_factor_of_axis_coeffs (by norm_num) (by norm_num) deltaImg deltaImg_uniquePeak ?_ 1 2 up (some 2) ?_
    (Or.inl (by rw [deltaImg_dft]; norm_num)) (Or.inl (by rw [deltaImg_dft]; norm_num))
  · rw [cc_eq]; simp [Finset.sum_range_succ, deltaImg, wrap]
  · intro m hm
    cases hm
    have h1 : freq 3 (wrap 3 (-1)) = -1 := by decide
    have h2 : freq 3 (wrap 3 (-2)) = 1 := by decide
    rw [h1, h2]; norm_num

/-! ### non-vacuity -/

/-- a 2×3 image with a bright pixel: its autocorrelation peak is unique -/
def demoImg : ℕ → ℕ → ℝ := fun i j => if i = 0 ∧ j = 0 then 3 else if i = 1 ∧ j = 2 then 1 else 0

example : UniquePeak 2 3 demoImg := by
  intro s t hs ht hne
  have hs' : s = 0 ∨ s = 1 := by omega
  have ht' : t = 0 ∨ t = 1 ∨ t = 2 := by omega
  rcases hs' with rfl | rfl <;> rcases ht' with rfl | rfl | rfl <;>
    first
      | (exfalso; omega)
      | (rw [cc_eq, cc_eq]; simp [Finset.sum_range_succ, demoImg, wrap]; try norm_num)

/-- `IsCentredRep` is satisfiable and pins the value: shift `a = 3` on `M = 4` is returned as `-3 ≡ 1` -/
example : IsCentredRep 4 (-3) (1 : ℝ) := ⟨1, by norm_num, ⟨1, by norm_num⟩, by norm_num, by norm_num⟩

/-- the hypotheses of `swap_negates_np` hold for the demo image against its rolled copy -/
example : UniqueMaxAt 2 3 (corrTable 2 3 demoImg (rollImg 2 3 demoImg 1 1)) (wrap 2 (-1)) (wrap 3 (-1)) :=
  corrTable_roll_uniqueMax (by norm_num) (by norm_num) demoImg (by
    intro s t hs ht hne
    have hs' : s = 0 ∨ s = 1 := by omega
    have ht' : t = 0 ∨ t = 1 ∨ t = 2 := by omega
    rcases hs' with rfl | rfl <;> rcases ht' with rfl | rfl | rfl <;>
      first
        | (exfalso; omega)
        | (rw [cc_eq, cc_eq]; simp [Finset.sum_range_succ, demoImg, wrap]; try norm_num)) 1 1

end QuantemModel.Props.C13
