import QuantemModel.Lemmas.PtychoOpsProjection
import QuantemModel.Lemmas.PtychoOpsExt
/-!
C16 — the forward-model operators of Model/PtychoOps.lean obey their energy, adjoint and
projection identities.  All statements are about the executable model instantiated at the
real numbers (`R = ℝ`, complex numbers `Cx ℝ`, DFT = the defining sums of Core/Dft.lean);
images are arbitrary rectangular lists (`Rect nr nc x`), any positive size.
Only property theorems and non-vacuity examples live here.
-/
namespace QuantemModel.Props.C16
open QuantemModel QuantemModel.PtychoOps

/-! ## 1. scatter (index_add) is the exact adjoint of gather -/

/-- **adjoint**: for every flat index list — repeats, wrap-around, any order, any length — over
any commutative semiring (so also exactly on `Int`):
`Σ_t obj[idx[t]]·p[t] = Σ_j obj[j]·index_add(zeros, idx, p)[j]`. -/
theorem adjoint {α : Type} [CommSemiring α] (d : α) (o p : List α) (idx : List Nat)
    (hidx : ∀ i ∈ idx, i < o.length) :
    dot (gather d o idx) p = dot o (scatter 0 o.length p idx) :=
  dot_gather_eq_dot_scatter d o p idx hidx

/-- **adjoint, complex form, for the code as written** (`_get_obj_patches` / `sum_patches` move
real and imaginary parts separately): `⟨patches(obj_s), p⟩ = ⟨obj_s, sum_patches(p)⟩` with the
sesquilinear pairing `Σ conj(a)·b`, for every slice `obj_s`. -/
theorem adjoint_complex (obj : List (List (Cx ℝ))) (p : List (Cx ℝ)) (idx : List Nat)
    (hidx : ∀ o ∈ obj, ∀ i ∈ idx, i < o.length) :
    (getObjPatches obj idx).map (fun g => innerC g p)
      = obj.map (fun o => innerC o (sumPatchesCx o.length p idx)) := by
  rw [getObjPatches_eq, List.map_map]
  apply List.map_congr_left
  intro o ho
  simp only [Function.comp]
  rw [sumPatchesCx_eq]
  exact innerC_gather_eq_innerC_scatter o p idx (hidx o ho)

-- non-vacuity: an index list with repeats on a 3-pixel object, evaluated exactly on `Int`
example : (∀ i ∈ [2, 2, 0, 1, 2], i < [10, 20, 30].length) := by decide
example : dot (gather 0 [10, 20, 30] [2, 2, 0, 1, 2]) [1, 2, 3, 4, 5]
    = dot [10, 20, 30] (scatter (0 : Int) 3 [1, 2, 3, 4, 5] [2, 2, 0, 1, 2]) := by decide
example : scatter (0 : Int) 3 [1, 2, 3, 4, 5] [2, 2, 0, 1, 2] = [3, 4, 8] := by decide

/-! ## 2. unit modulus, additivity, energy preservation -/

/-- every entry of the phase ramp `exp(-2πi·(k_r·r + k_c·c))` has modulus one -/
theorem translation_unit_modulus (nr nc : ℕ) (r c : ℝ) : UnitModulus (translationOperator nr nc r c) := by
  rw [translationOperator_eq, unitModulus_build]
  intro k _ l _
  rw [abs2_mul, abs2_rampC, abs2_rampC, mul_one]

/-- ramps compose additively: `T(r+r', c+c') = T(r,c)·T(r',c')` -/
theorem translation_add (nr nc : ℕ) (r c r' c' : ℝ) :
    translationOperator nr nc (r + r') (c + c')
      = mulImg (translationOperator nr nc r c) (translationOperator nr nc r' c') := by
  simp only [translationOperator_eq, mulImg_build]
  apply build_toC_inj
  intro k _ l _
  rw [rampC_add, rampC_add]
  simp only [toC_mul]; ring

/-- the Fresnel kernel has modulus one for every real thickness, wavelength, sampling and tilt -/
theorem propagator_unit_modulus (nr nc : ℕ) (sr sc lam dz thr thc : ℝ) :
    UnitModulus (propagator nr nc sr sc lam dz thr thc) := by
  rw [propagator_eq, unitModulus_build]
  intro k _ l _
  exact abs2_propC ..

/-- kernels compose additively in the propagation distance -/
theorem propagator_add (nr nc : ℕ) (sr sc lam dz dz' thr thc : ℝ) :
    propagator nr nc sr sc lam (dz + dz') thr thc
      = mulImg (propagator nr nc sr sc lam dz thr thc) (propagator nr nc sr sc lam dz' thr thc) := by
  simp only [propagator_eq, mulImg_build]
  exact build_congr fun k _ l _ => propC_add ..

/-- **shift_energy**: sub-pixel Fourier translation preserves `Σ|x|²` -/
theorem shift_energy {nr nc : ℕ} (hr : 0 < nr) (hc : 0 < nc) {x : Img ℝ} (hx : Rect nr nc x) (r c : ℝ) :
    energy (fourierShift x r c) = energy x := by
  obtain ⟨g, rfl⟩ := hx.cx_build
  have : fourierShift (build nr nc g) r c = propagate (build nr nc g) (translationOperator nr nc r c) := by
    unfold fourierShift propagate; rw [nrows_build, ncols_build hr]
  rw [this]
  exact energy_propagate hr hc (rect_build _ _ _) (by rw [translationOperator_eq]; exact rect_build _ _ _)
    (translation_unit_modulus nr nc r c)

/-- **shift_add**: translations compose additively -/
theorem shift_add {nr nc : ℕ} (hr : 0 < nr) (hc : 0 < nc) {x : Img ℝ} (hx : Rect nr nc x) (r c r' c' : ℝ) :
    fourierShift (fourierShift x r c) r' c' = fourierShift x (r + r') (c + c') := by
  obtain ⟨g, rfl⟩ := hx.cx_build
  have hT : ∀ r c : ℝ, Rect nr nc (translationOperator nr nc r c) := fun r c => by
    rw [translationOperator_eq]; exact rect_build _ _ _
  have h1 : ∀ (y : Img ℝ) (r c : ℝ), Rect nr nc y →
      fourierShift y r c = propagate y (translationOperator nr nc r c) := by
    intro y r c hy
    obtain ⟨f, rfl⟩ := hy.cx_build
    unfold fourierShift propagate; rw [nrows_build, ncols_build hr]
  rw [h1 _ r c (rect_build _ _ _), h1 _ r' c' (rect_propagate hr hc (rect_build _ _ _) (hT r c)),
    h1 _ _ _ (rect_build _ _ _), propagate_propagate hr hc (rect_build _ _ _) (hT r c) (hT r' c'),
    translation_add]

/-- **prop_energy**: free-space propagation preserves `Σ|a|²` -/
theorem prop_energy {nr nc : ℕ} (hr : 0 < nr) (hc : 0 < nc) {a : Img ℝ} (ha : Rect nr nc a)
    (sr sc lam dz thr thc : ℝ) :
    energy (propagate a (propagator nr nc sr sc lam dz thr thc)) = energy a :=
  energy_propagate hr hc ha (by rw [propagator_eq]; exact rect_build _ _ _)
    (propagator_unit_modulus nr nc sr sc lam dz thr thc)

/-- **prop_add**: propagating by `dz` then `dz'` is propagating by `dz + dz'` -/
theorem prop_add {nr nc : ℕ} (hr : 0 < nr) (hc : 0 < nc) {a : Img ℝ} (ha : Rect nr nc a)
    (sr sc lam dz dz' thr thc : ℝ) :
    propagate (propagate a (propagator nr nc sr sc lam dz thr thc)) (propagator nr nc sr sc lam dz' thr thc)
      = propagate a (propagator nr nc sr sc lam (dz + dz') thr thc) := by
  have hP : ∀ d : ℝ, Rect nr nc (propagator nr nc sr sc lam d thr thc) := fun d => by
    rw [propagator_eq]; exact rect_build _ _ _
  rw [propagate_propagate hr hc ha (hP dz) (hP dz'), propagator_add]

/-- **prop_inverse**: propagating by a distance and then by its negative is the identity -/
theorem prop_inverse {nr nc : ℕ} (hr : 0 < nr) (hc : 0 < nc) {a : Img ℝ} (ha : Rect nr nc a)
    (sr sc lam dz thr thc : ℝ) :
    propagate (propagate a (propagator nr nc sr sc lam dz thr thc)) (propagator nr nc sr sc lam (-dz) thr thc)
      = a := by
  rw [prop_add hr hc ha, add_neg_cancel]
  obtain ⟨g, rfl⟩ := ha.cx_build
  rw [propagator_eq]
  exact propagate_one_build hr hc g _ (fun k _ l _ => propC_zero ..)

/-! ## 3. Parseval and inversion for the modelled DFT (Core/Dft.lean, list based) -/

/-- **Parseval** for the executable `fft2` model: `Σ|fft2 x|² = nr·nc·Σ|x|²` -/
theorem parseval {nr nc : ℕ} (hr : 0 < nr) (hc : 0 < nc) {x : Img ℝ} (hx : Rect nr nc x) :
    energy (Dft.dft2 x) = (nr * nc : ℝ) * energy x := energy_dft2 hr hc hx

/-- **inversion**: `ifft2(fft2 x) = x` and `fft2(ifft2 x) = x` as lists -/
theorem inversion {nr nc : ℕ} (hr : 0 < nr) (hc : 0 < nc) {x : Img ℝ} (hx : Rect nr nc x) :
    Dft.idft2 (Dft.dft2 x) = x ∧ Dft.dft2 (Dft.idft2 x) = x :=
  ⟨idft2_dft2_model hr hc hx, dft2_idft2_model hr hc hx⟩

/-! ## 4. integer translations are circular rolls -/

/-- **shift_int**: for integer shifts the Fourier translation is `np.roll(x, (s, t), axis=(0,1))`
(sign convention: positive shift moves content to higher indices) -/
theorem shift_int {nr nc : ℕ} (hr : 0 < nr) (hc : 0 < nc) {x : Img ℝ} (hx : Rect nr nc x) (s t : ℤ) :
    fourierShift x (s : ℝ) (t : ℝ) = roll2 x s t := by
  obtain ⟨g, rfl⟩ := hx.cx_build
  exact fourierShift_int_build hr hc g s t

/-- the real-input branch (`shifted_array.real`): integer shifts of a real array are rolls too -/
theorem shift_int_real {nr nc : ℕ} (hr : 0 < nr) (hc : 0 < nc) {x : RImg ℝ} (hx : Rect nr nc x) (s t : ℤ) :
    fourierShiftReal x (s : ℝ) (t : ℝ) = roll2 x s t := by
  obtain ⟨g, rfl⟩ := hx.exists_build
  unfold fourierShiftReal
  rw [build_map, fourierShift_int_build hr hc, roll2_build hr hc, roll2_build hr hc, build_map]
  exact build_congr fun _ _ _ _ => rfl

-- non-vacuity: rectangular images of every positive size exist, and `roll2` is the NumPy roll
example : Rect 2 3 (build 2 3 fun i j => (⟨(i : ℝ), (j : ℝ)⟩ : Cx ℝ)) := rect_build _ _ _
example : roll2 [[1, 2, 3], [4, 5, 6]] 1 (-1) = [[5, 6, 4], [2, 3, 1]] := by decide


/-! ## 5. pure-phase objects: the summed diffraction intensity equals the probe's intensity -/

/-- summed detector intensity = total exit-wave intensity (ortho-normalised FFT, incoherent mode
sum and `fftshift` included), for any number of modes -/
theorem detector_total {nr nc : ℕ} (hr : 0 < nr) (hc : 0 < nc) (ws : List (Img ℝ))
    (hws : ∀ w ∈ ws, Rect nr nc w) : rsum (detector ws) = (ws.map energy).sum :=
  rsum_detector hr hc ws hws

/-- **purephase_energy**: if every object slice patch has unit modulus and the propagators are
unit-modulus kernels (e.g. `propagator …`, see `propagator_unit_modulus`), then for ANY number of
slices and ANY number of probe modes the summed predicted diffraction intensity of the pattern
equals the total intensity of the probe stack.  Induction on the slices. -/
theorem purephase_energy {nr nc : ℕ} (hr : 0 < nr) (hc : 0 < nc)
    (patches props probes : List (Img ℝ))
    (hpatch : ∀ O ∈ patches, Rect nr nc O ∧ UnitModulus O)
    (hprops : ∀ P ∈ props, Rect nr nc P ∧ UnitModulus P)
    (hprobes : ∀ p ∈ probes, Rect nr nc p) :
    rsum (detector (overlapProjection patches props probes).2) = (probes.map energy).sum := by
  have hexit : ∀ w ∈ (overlapProjection patches props probes).2, Rect nr nc w := by
    intro w hw
    simp only [overlapProjection, List.map_map, List.mem_map] at hw
    obtain ⟨p, hp, rfl⟩ := hw
    exact (overlapProjection1_energy hr hc patches props p (hprobes p hp) hpatch hprops).1
  rw [rsum_detector hr hc _ hexit]
  simp only [overlapProjection, List.map_map]
  congr 1
  apply List.map_congr_left
  intro p hp
  exact (overlapProjection1_energy hr hc patches props p (hprobes p hp) hpatch hprops).2

/-- the same with the probe stack first translated to the (sub-pixel) scan position, as
`ProbePixelated.forward` does: the pattern's summed intensity is the UNSHIFTED probe's intensity -/
theorem purephase_energy_shifted {nr nc : ℕ} (hr : 0 < nr) (hc : 0 < nc)
    (patches props probes : List (Img ℝ)) (r c : ℝ)
    (hpatch : ∀ O ∈ patches, Rect nr nc O ∧ UnitModulus O)
    (hprops : ∀ P ∈ props, Rect nr nc P ∧ UnitModulus P)
    (hprobes : ∀ p ∈ probes, Rect nr nc p) :
    rsum (detector (overlapProjection patches props (probes.map fun p => fourierShift p r c)).2)
      = (probes.map energy).sum := by
  have hT : Rect nr nc (translationOperator nr nc r c) := by
    rw [translationOperator_eq]; exact rect_build _ _ _
  have hshift : ∀ p ∈ probes, fourierShift p r c = propagate p (translationOperator nr nc r c) := by
    intro p hp
    obtain ⟨f, rfl⟩ := (hprobes p hp).cx_build
    unfold fourierShift propagate; rw [nrows_build, ncols_build hr]
  rw [purephase_energy hr hc patches props _ hpatch hprops]
  · rw [List.map_map]
    congr 1
    apply List.map_congr_left
    intro p hp
    exact shift_energy hr hc (hprobes p hp) r c
  · intro q hq
    obtain ⟨p, hp, rfl⟩ := List.mem_map.1 hq
    rw [hshift p hp]
    exact rect_propagate hr hc (hprobes p hp) hT

/-- the full `forward_operator`, with or without a descan shift (the descan ramp is one more
unit-modulus factor on every exit wave): same conclusion for every `descan` argument -/
theorem purephase_energy_descan {nr nc : ℕ} (hr : 0 < nr) (hc : 0 < nc)
    (patches props probes : List (Img ℝ)) (descan : Option (ℝ × ℝ))
    (hpatch : ∀ O ∈ patches, Rect nr nc O ∧ UnitModulus O)
    (hprops : ∀ P ∈ props, Rect nr nc P ∧ UnitModulus P)
    (hprobes : ∀ p ∈ probes, Rect nr nc p) :
    rsum (detector (forwardOperator patches props probes descan).2) = (probes.map energy).sum := by
  cases descan with
  | none => exact purephase_energy hr hc patches props probes hpatch hprops hprobes
  | some rc =>
    obtain ⟨r, c⟩ := rc
    have hex : ∀ p ∈ probes, Rect nr nc (overlapProjection1 patches props p).2
        ∧ energy (overlapProjection1 patches props p).2 = energy p :=
      fun p hp => overlapProjection1_energy hr hc patches props p (hprobes p hp) hpatch hprops
    have hT : Rect nr nc (translationOperator nr nc r c) := by
      rw [translationOperator_eq]; exact rect_build _ _ _
    have hramp : ∀ o : Img ℝ, Rect nr nc o →
        mulImg o (translationOperator (nrows o) (ncols o) r c) = mulImg o (translationOperator nr nc r c) := by
      intro o ho
      obtain ⟨f, rfl⟩ := ho.cx_build
      rw [nrows_build, ncols_build hr]
    simp only [forwardOperator, overlapProjection, List.map_map]
    rw [rsum_detector hr hc]
    · rw [List.map_map]
      congr 1
      apply List.map_congr_left
      intro p hp
      simp only [Function.comp]
      rw [hramp _ (hex p hp).1, energy_mulImg_unit_right (hex p hp).1 hT (translation_unit_modulus nr nc r c)]
      exact (hex p hp).2
    · intro w hw
      obtain ⟨p, hp, rfl⟩ := List.mem_map.1 hw
      simp only [Function.comp]
      rw [hramp _ (hex p hp).1]
      exact rect_mulImg (hex p hp).1 hT

/-- **absorbing_energy_le** (beyond the property text: the general multislice energy bound): for an
absorbing object — every slice patch has modulus AT MOST one, as the clamped amplitude of
`obj_type = "complex"` guarantees — the summed predicted diffraction intensity never exceeds the
total probe intensity, for any number of slices and modes.  `purephase_energy` is the equality case. -/
theorem absorbing_energy_le {nr nc : ℕ} (hr : 0 < nr) (hc : 0 < nc)
    (patches props probes : List (Img ℝ))
    (hpatch : ∀ O ∈ patches, Rect nr nc O ∧ SubUnit O)
    (hprops : ∀ P ∈ props, Rect nr nc P ∧ UnitModulus P)
    (hprobes : ∀ p ∈ probes, Rect nr nc p) :
    rsum (detector (overlapProjection patches props probes).2) ≤ (probes.map energy).sum := by
  have hex : ∀ p ∈ probes, Rect nr nc (overlapProjection1 patches props p).2
      ∧ energy (overlapProjection1 patches props p).2 ≤ energy p :=
    fun p hp => overlapProjection1_energy_le hr hc patches props p (hprobes p hp) hpatch hprops
  simp only [overlapProjection, List.map_map]
  rw [rsum_detector hr hc]
  · rw [List.map_map]
    apply List.sum_le_sum
    intro p hp
    exact (hex p hp).2
  · intro w hw
    obtain ⟨p, hp, rfl⟩ := List.mem_map.1 hw
    exact (hex p hp).1

/-- the model's own propagator arrays satisfy the hypothesis of `purephase_energy` -/
theorem propagatorArrays_ok (nr nc : ℕ) (sr sc e thr thc : ℝ) (n : ℕ) (dzs : List ℝ) :
    ∀ P ∈ propagatorArrays nr nc sr sc e thr thc n dzs, Rect nr nc P ∧ UnitModulus P := by
  intro P hP
  unfold propagatorArrays at hP
  split_ifs at hP
  · simp at hP
  · obtain ⟨dz, _, rfl⟩ := List.mem_map.1 hP
    exact ⟨by rw [propagator_eq]; exact rect_build _ _ _, propagator_unit_modulus nr nc sr sc _ dz thr thc⟩

/-- patches of a real-valued (potential / pure-phase) object are unit modulus: `|exp(i·φ)| = 1` -/
theorem purephase_patches_unit (objFlat : List (List ℝ)) (idx : List Nat)
    (hidx : ∀ o ∈ objFlat, ∀ i ∈ idx, i < o.length) :
    ∀ row ∈ getObjPatchesReal objFlat idx, ∀ z ∈ row, Cx.abs2 z = 1 := by
  intro row hrow z hz
  unfold getObjPatchesReal at hrow
  rw [getObjPatches_eq, List.map_map] at hrow
  obtain ⟨o, ho, rfl⟩ := List.mem_map.1 hrow
  simp only [Function.comp, gather, List.mem_map] at hz
  obtain ⟨i, hi, rfl⟩ := hz
  have hlt : i < (o.map Cx.cis).length := by simpa using hidx o ho i hi
  rw [List.getD_eq_getElem?_getD, List.getElem?_eq_getElem hlt, Option.getD_some, List.getElem_map]
  exact abs2_cis _

-- non-vacuity: a 2-slice, 1-mode instance of the hypotheses (all-ones slices and kernels)
example : ∀ O ∈ [build 2 2 fun _ _ => (Cx.one : Cx ℝ), build 2 2 fun _ _ => Cx.one],
    Rect 2 2 O ∧ UnitModulus O := by
  intro O hO
  simp only [List.mem_cons, List.mem_nil_iff, or_false, or_self] at hO
  subst hO
  exact ⟨rect_build _ _ _, unitModulus_build.2 fun _ _ _ _ => abs2_one⟩

/-! ## 6. Fourier magnitude projection: exact and idempotent -/

/-- **proj_single_exact**: behind the single-state projection the detector sees exactly `A²` at
every pixel (zeros of `A` and zeros of the current far field included; no sign condition). -/
theorem proj_single_exact {nr nc : ℕ} (hr : 0 < nr) (hc : 0 < nc) {A : RImg ℝ} (hA : Rect nr nc A)
    {x : Img ℝ} (hx : Rect nr nc x) :
    detector [fourierProjectionSingle A x] = A.map (·.map fun a => a * a) :=
  detector_fourierProjectionSingle hr hc hA hx

/-- **proj_single_idempotent** (measured amplitudes are non-negative) -/
theorem proj_single_idempotent {nr nc : ℕ} (hr : 0 < nr) (hc : 0 < nc) {A : RImg ℝ} (hA : Rect nr nc A)
    (hpos : NonNeg A) {x : Img ℝ} (hx : Rect nr nc x) :
    fourierProjectionSingle A (fourierProjectionSingle A x) = fourierProjectionSingle A x :=
  fourierProjectionSingle_idem hr hc hA hpos hx

/-- **proj_mixed_exact** (corner-centred, pixel by pixel): the incoherent intensity of the
projected modes is `A'²` wherever the current incoherent far field is non-zero, and `0` where it
vanishes (there the code's `0 ↦ ∞` guard zeroes the pixel: no phase / mode ratio exists). -/
theorem proj_mixed_exact {nr nc : ℕ} (hr : 0 < nr) (hc : 0 < nc) {A : RImg ℝ} (hA : Rect nr nc A)
    (xs : List (Img ℝ)) (hxs : ∀ x ∈ xs, Rect nr nc x) (hne : xs ≠ []) :
    intensitiesCorner (fourierProjectionMixed A xs)
      = List.zipWith (List.zipWith fun a f => if f = 0 then 0 else a * a) (ifftshift2 A)
          (farfieldAmplitudes (xs.map fft2Ortho)) :=
  intensitiesCorner_fourierProjectionMixed hr hc hA xs hxs hne

/-- **proj_mixed_exact_detector**: with a nowhere-vanishing far field the detector sees exactly `A²` -/
theorem proj_mixed_exact_detector {nr nc : ℕ} (hr : 0 < nr) (hc : 0 < nc) {A : RImg ℝ} (hA : Rect nr nc A)
    (xs : List (Img ℝ)) (hxs : ∀ x ∈ xs, Rect nr nc x) (hne : xs ≠ [])
    (hff : ∀ row ∈ farfieldAmplitudes (xs.map fft2Ortho), ∀ f ∈ row, f ≠ 0) :
    detector (fourierProjectionMixed A xs) = A.map (·.map fun a => a * a) :=
  detector_fourierProjectionMixed hr hc hA xs hxs hne hff

/-- **proj_idempotent**: `fourier_projection` (either branch of the `num_probes` dispatch) applied
twice equals applying it once — everywhere, including vanishing far-field pixels. -/
theorem proj_idempotent {nr nc : ℕ} (hr : 0 < nr) (hc : 0 < nc) (n : ℕ) {A : RImg ℝ} (hA : Rect nr nc A)
    (hpos : NonNeg A) (xs : List (Img ℝ)) (hxs : ∀ x ∈ xs, Rect nr nc x) :
    fourierProjection n A (fourierProjection n A xs) = fourierProjection n A xs := by
  unfold fourierProjection
  split_ifs
  · rw [List.map_map]
    apply List.map_congr_left
    intro x hx
    exact fourierProjectionSingle_idem hr hc hA hpos (hxs x hx)
  · exact fourierProjectionMixed_idem hr hc hA hpos xs hxs

/-- the gradient step vanishes at a fixed point of the projection: `gradient_step(P x) = P(P x) − P x`,
so by idempotence it is the zero image pattern-wise (stated as: both operands coincide) -/
theorem gradient_step_fixed_point {nr nc : ℕ} (hr : 0 < nr) (hc : 0 < nc) (n : ℕ) {A : RImg ℝ} (hA : Rect nr nc A)
    (hpos : NonNeg A) (xs : List (Img ℝ)) (hxs : ∀ x ∈ xs, Rect nr nc x) :
    gradientStep n A (fourierProjection n A xs)
      = List.zipWith subImg (fourierProjection n A xs) (fourierProjection n A xs) := by
  unfold gradientStep
  rw [proj_idempotent hr hc n hA hpos xs hxs]

-- non-vacuity: non-negative rectangular amplitude arrays with zeros exist
example : Rect 2 3 ([[0, 1, 2], [3, 0, 5]] : RImg ℝ) ∧ NonNeg ([[0, 1, 2], [3, 0, 5]] : RImg ℝ) := by
  refine ⟨⟨rfl, ?_⟩, ?_⟩
  · intro row hrow
    simp only [List.mem_cons, List.mem_nil_iff, or_false] at hrow
    rcases hrow with rfl | rfl <;> rfl
  · intro row hrow a ha
    simp only [List.mem_cons, List.mem_nil_iff, or_false] at hrow
    rcases hrow with rfl | rfl <;>
      (simp only [List.mem_cons, List.mem_nil_iff, or_false] at ha; rcases ha with rfl | rfl | rfl <;> norm_num)

/-! ## 7. (growth 5) `sum_patches_base` with torch's checks: accepted calls, rejected calls, histories -/

/-- **scatter_checked_ok_iff**: a `sum_patches_base` call is accepted exactly when the index and
weight arrays have the same number of entries and every index lies in `[0, n)` (negative indices
are rejected by `index_add_`, not wrapped) -/
theorem scatter_checked_ok_iff {α : Type} [Add α] (z : α) (n : Nat) (p : List α) (idx : List Int) :
    (∃ out, sumPatchesBaseChecked z n p idx = .ok out) ↔
      (idx.length = p.length ∧ ∀ i ∈ idx, 0 ≤ i ∧ i.toNat < n) :=
  sumPatchesBaseChecked_ok_iff z n p idx

/-- **adjoint_checked**: whatever an accepted call returns is the adjoint of the extraction — the
model of the code WITH its failure branches (fresh buffer per call, partial writes of
`index_add_` before an IndexError) refines the scatter of `adjoint` -/
theorem adjoint_checked {α : Type} [CommSemiring α] (d : α) (o p : List α) (idx : List Int) (out : List α)
    (h : sumPatchesBaseChecked 0 o.length p idx = .ok out) :
    dot (gather d o (idx.map Int.toNat)) p = dot o out := by
  obtain ⟨hlen, hidx⟩ := (sumPatchesBaseChecked_ok_iff 0 o.length p idx).1 ⟨out, h⟩
  rw [sumPatchesBaseChecked_ok 0 o.length p idx hlen hidx] at h
  injection h with h
  subst h
  apply adjoint d o p (idx.map Int.toNat)
  intro i hi
  obtain ⟨j, hj, rfl⟩ := List.mem_map.1 hi
  exact (hidx j hj).2

/-- **adjoint_history**: in EVERY history of `sum_patches_base` calls — valid calls and calls that
raise (IndexError part-way, RuntimeError) in any order — every accepted call on the object's grid
returns the exact adjoint of the extraction: an earlier rejected call cannot leak into it -/
theorem adjoint_history {α : Type} [CommSemiring α] (d : α) (o : List α) (calls : List (ScatterCall α))
    (k : Nat) (c : ScatterCall α) (out : List α) (hc : calls[k]? = some c) (hn : c.n = o.length)
    (hout : (runScatterHistory 0 calls)[k]? = some (.ok out)) :
    dot (gather d o (c.idx.map Int.toNat)) c.patches = dot o out := by
  unfold runScatterHistory at hout
  rw [List.getElem?_map, hc] at hout
  simp only [Option.map_some, Option.some.injEq] at hout
  rw [hn] at hout
  exact adjoint_checked d o c.patches c.idx out hout

/-- **rejected_calls_erasable**: deleting the rejected calls from a history does not change what the
accepted calls return -/
theorem rejected_calls_erasable {α : Type} [Add α] (z : α) (calls : List (ScatterCall α)) :
    (runScatterHistory z calls).filter (fun r => r.toBool)
      = runScatterHistory z (calls.filter fun c => (sumPatchesBaseChecked z c.n c.patches c.idx).toBool) := by
  unfold runScatterHistory
  rw [List.filter_map]
  rfl

-- non-vacuity: a history `[raises part-way, valid]` on a 3-point grid, evaluated exactly on `Int`
example : runScatterHistory (0 : Int) [⟨3, [1, 2, 3], [0, 5, 1]⟩, ⟨3, [1, 2, 3, 4, 5], [2, 2, 0, 1, 2]⟩]
    = [.error .indexError, .ok [3, 4, 8]] := by decide
example : indexAddSeq ([0, 0, 0] : List Int) [(0, 1), (5, 2), (1, 3)] = ([1, 0, 0], true) := by decide
example : sumPatchesBaseChecked (0 : Int) 3 [1, 2] [0, -1] = .error .indexError := by decide
example : sumPatchesBaseChecked (0 : Int) 3 [1, 2] [0] = .error .runtimeError := by decide

/-! ## 8. (growth 5) forward multislice then `ObjectPixelated.backward`: the entrance wave comes back -/

/-- **backward_forward_identity**: for unit-modulus object patches and unit-modulus propagators —
ANY number of slices — back-transmitting and back-propagating the exit wave of
`overlap_projection` through the chain of `ObjectPixelated.backward` (conjugate patches,
conjugate kernels, slices in reverse order) returns the entrance probe.  This is "propagating by
a distance and then its negative is the identity" for the whole multislice operator. -/
theorem backward_forward_identity {nr nc : ℕ} (hr : 0 < nr) (hc : 0 < nc)
    (patches props : List (Img ℝ)) (probe : Img ℝ)
    (hpatch : ∀ O ∈ patches, Rect nr nc O ∧ UnitModulus O)
    (hprops : ∀ P ∈ props, Rect nr nc P ∧ UnitModulus P)
    (hprobe : Rect nr nc probe) :
    backwardGradient patches props (overlapProjection1 patches props probe).2 = probe := by
  cases patches with
  | nil => rfl
  | cons p0 rest =>
    have h0 := hpatch p0 (by simp)
    unfold backwardGradient overlapProjection1
    simp only
    rw [overlap_foldl_snd, backward_chain hr hc _ _ _ (rect_mulImg h0.1 hprobe)]
    · exact mulImg_conj_cancel h0.1 h0.2 hprobe
    · intro pp hpp
      have hm := List.of_mem_zip hpp
      exact ⟨hprops pp.1 hm.1, hpatch pp.2 (by simp [hm.2])⟩

-- non-vacuity: see the 2-slice instance of the hypotheses above (all-ones slices and kernels)

/-! ## 9. (growth 5) `estimate_intensities` -/

/-- the detector image is the `fftshift` of `estimate_intensities` (same ortho FFT, same mode sum) -/
theorem detector_eq_fftshift_intensities (ws : List (Img ℝ)) :
    detector ws = fftshift2 (estimateIntensities ws) := rfl

/-- `estimate_intensities` sums to the total exit-wave intensity (Parseval, any number of modes) -/
theorem estimate_intensities_total {nr nc : ℕ} (hr : 0 < nr) (hc : 0 < nc) (ws : List (Img ℝ))
    (hws : ∀ w ∈ ws, Rect nr nc w) : rsum (estimateIntensities ws) = (ws.map energy).sum := by
  rw [← rsum_fftshift2, ← detector_eq_fftshift_intensities]
  exact rsum_detector hr hc ws hws

/-! ## 10. (growth 5) `reset_recon` restores the object constraints after EVERY history -/

/-- **reset_restores_defaults**: start from a freshly built reconstruction; apply any history of
`ptycho.constraints = …` / `obj_model.constraints = …` / `add_constraint` / `reset_recon` calls,
accepted or rejected with KeyError (a rejected dict HAS written the items in front of the bad key,
and the caller carries on); then `reset_recon()`: it does not raise and the object's constraint
dictionary is exactly the defaults again. -/
theorem reset_restores_defaults (od pd dd : CDict) (hnd : od.keys.Nodup) (ops : List SessOp) :
    (((Session.fresh od pd dd).run ops).step .resetRecon).1.obj = od
      ∧ (((Session.fresh od pd dd).run ops).step .resetRecon).2 = false := by
  have hinv : SessInv od ((Session.fresh od pd dd).run ops) := run_inv od ops _ ⟨rfl, rfl⟩
  have h := applyItems_restore [] od ((Session.fresh od pd dd).run ops).obj
    (by simpa using hinv.2) (by simpa using hnd) (by simp)
  simp only [List.nil_append] at h
  show (applyItems _ _ _).1 = od ∧ (applyItems _ _ _).2 = false
  rw [hinv.1, h]
  exact ⟨rfl, rfl⟩

/-- the class-level defaults are never written, whatever the history: a model built LATER starts
from the same defaults (`Session.fresh`) -/
theorem defaults_never_change (od pd dd : CDict) (ops : List SessOp) :
    ((Session.fresh od pd dd).run ops).objDefaults = od :=
  (run_inv od ops _ ⟨rfl, rfl⟩).1

/-- a rejected `add_constraint` (unknown key) is a no-op on the whole state -/
theorem rejected_add_is_noop (s : Session) (k v : String) (hk : k ∉ s.objDefaults.keys) :
    s.step (.objAdd k v) = (s, true) := by
  show (let r := applyItems s.objDefaults s.obj [(k, v)]; (({ s with obj := r.1 } : Session), r.2)) = (s, true)
  rw [applyItems_rejected _ _ k v hk]

/-- **reset_modulus_neutral**: if the defaults keep a pure-phase object's modulus (no blur, no
Butterworth filter, no slice averaging — the gates of `apply_hard_constraints`), then so do the
constraints in force after a `reset_recon()` at the end of ANY history -/
theorem reset_modulus_neutral (od pd dd : CDict) (hnd : od.keys.Nodup) (numSlices : Nat)
    (hdef : modulusNeutral numSlices od = true) (ops : List SessOp) :
    modulusNeutral numSlices ((Session.fresh od pd dd).run (ops ++ [.resetRecon])).obj = true := by
  have : ((Session.fresh od pd dd).run (ops ++ [.resetRecon])).obj = od := by
    unfold Session.run
    rw [List.foldl_append, List.foldl_cons, List.foldl_nil]
    exact (reset_restores_defaults od pd dd hnd ops).1
  rw [this]; exact hdef

-- non-vacuity: the history of the round-5 seed (reset, blur, reset) and a rejected dict with a partial write
example :
    let od : CDict := [("identical_slices", "False"), ("gaussian_sigma", "None"), ("q_lowpass", "None"), ("q_highpass", "None")]
    let s := (Session.fresh od [] []).run [.resetRecon, .ptychoSet [("object", some [("gaussian_sigma", "2.0"), ("bogus", "1")])]]
    s.obj.get? "gaussian_sigma" = some "2.0" ∧ modulusNeutral 1 s.obj = false
      ∧ (s.step .resetRecon).1.obj = od ∧ modulusNeutral 1 od = true ∧ od.keys.Nodup := by decide

end QuantemModel.Props.C16
