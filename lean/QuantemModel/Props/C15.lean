import QuantemModel.Lemmas.Drift
import QuantemModel.Lemmas.RegistrationSpectral
import QuantemModel.Props.C13
/-!
C15 — drift-correction resampling geometry (Model/Drift.lean, read at the carrier ℝ).
Only property theorems and non-vacuity examples live here.

Not proved (measured by the correspondence run only): that `scipy.ndimage.gaussian_filter`
conserves the weight sum and that `interp1d` on 3/4 points is the interpolating polynomial.
The correlation theorem (hypothesis `hcc` of `identical_stack_fixed_point`) is discharged in
`identical_stack_fixed_point_fft` from the shared spectral core, and the strict-patch hypothesis in
`identical_stack_fixed_point_of_axis_coeffs` (C13's `patch_strict_of_axis_coeffs_np`).
-/
namespace QuantemModel.Props.C15
open QuantemModel QuantemModel.Registration QuantemModel.Drift Finset

/-- **Placement.**  For every image shape `H × W` (square or not), every canvas `Hc × Wc` (hence
every pad fraction), every pair of scan vectors (hence every scan angle) and every knot count
`nk = 1, 2, 3, 4`, the coordinates that `transform_coordinates` computes from the knots made by
`preprocess` place pixel `(r, c)` at the canvas centre plus `(c - (W-1)/2)·fast + (r - (H-1)/2)·slow`.
In particular the 1-, 2-, 3- and 4-knot descriptions of a straight scan line give identical
coordinates. -/
theorem placement (Hc Wc H W nk : ℕ) (hnk : 1 ≤ nk ∧ nk ≤ 4) (sc : Scan ℝ) {r c : ℕ}
    (hr : r < H) (hc : c < W) :
    coords Hc Wc H W nk sc r c
      = ( ((Hc : ℝ) - 1) / 2 + ((c : ℝ) - ((W : ℝ) - 1) / 2) * sc.f0 + ((r : ℝ) - ((H : ℝ) - 1) / 2) * sc.s0,
          ((Wc : ℝ) - 1) / 2 + ((c : ℝ) - ((W : ℝ) - 1) / 2) * sc.f1 + ((r : ℝ) - ((H : ℝ) - 1) / 2) * sc.s1 ) := by
  have hv := vslow_eq hr
  have e1 : (fun k => (initialKnot Hc Wc H W nk sc r k).1)
      = fun k => ((halfSpan Hc : ℝ) + linspace (-(halfSpan H : ℝ)) (halfSpan H) H r * sc.s0)
          + linspace (-(halfSpan W : ℝ)) (halfSpan W) nk k * sc.f0 := by
    funext k; simp only [initialKnot, NumReal.add_eq, NumReal.mul_eq, NumReal.neg_eq]; ring
  have e2 : (fun k => (initialKnot Hc Wc H W nk sc r k).2)
      = fun k => ((halfSpan Wc : ℝ) + linspace (-(halfSpan H : ℝ)) (halfSpan H) H r * sc.s1)
          + linspace (-(halfSpan W : ℝ)) (halfSpan W) nk k * sc.f1 := by
    funext k; simp only [initialKnot, NumReal.add_eq, NumReal.mul_eq, NumReal.neg_eq]; ring
  unfold coords
  simp only [NumReal.zero_eq, NumReal.one_eq]
  rw [e1, e2, transformRow_affine nk W hnk _ _ hc, transformRow_affine nk W hnk _ _ hc, hv,
    halfSpan_eq, halfSpan_eq]
  ext <;> simp <;> ring

/-- the knot count does not matter: any two of the 1..4-knot descriptions agree pixel by pixel -/
theorem knot_count_independent (Hc Wc H W nk nk' : ℕ) (h : 1 ≤ nk ∧ nk ≤ 4) (h' : 1 ≤ nk' ∧ nk' ≤ 4)
    (sc : Scan ℝ) {r c : ℕ} (hr : r < H) (hc : c < W) :
    coords Hc Wc H W nk sc r c = coords Hc Wc H W nk' sc r c := by
  rw [placement Hc Wc H W nk h sc hr hc, placement Hc Wc H W nk' h' sc hr hc]

/-- **Unit weight.**  Whatever the (possibly out-of-canvas, wrapped) position of a pixel, the four
bilinear contributions it makes to the canvas add up to exactly 1. -/
theorem weights_unit {rows cols : ℕ} (hr : 0 < rows) (hc : 0 < cols) (xa ya : ℝ) :
    ∑ i ∈ range rows, ∑ j ∈ range cols, splatAt rows cols xa ya i j = 1 := by
  simp_rw [splatAt_eq, Finset.sum_add_distrib]
  rw [sum_hit hr hc, sum_hit hr hc, sum_hit hr hc, sum_hit hr hc]
  ring

/-- … hence the raw weight map of `n` pixels sums to `n` (`H·W` for an image). -/
theorem weight_map_total {rows cols : ℕ} (hr : 0 < rows) (hc : 0 < cols) (n : ℕ) (pt : ℕ → ℝ × ℝ) :
    ∑ i ∈ range rows, ∑ j ∈ range cols, weightMapAt rows cols n pt i j = (n : ℝ) := by
  unfold weightMapAt
  simp_rw [sumN_eq]
  have : ∀ i, ∑ j ∈ range cols, ∑ p ∈ range n, splatAt rows cols (pt p).1 (pt p).2 i j
      = ∑ p ∈ range n, ∑ j ∈ range cols, splatAt rows cols (pt p).1 (pt p).2 i j := fun i => Finset.sum_comm
  simp_rw [this]
  rw [Finset.sum_comm]
  simp_rw [weights_unit hr hc]
  simp

/-- **Fixed point of the alignment loop.**  For any registration routine that, on the pair
`(F, F)`, returns zero shift and the unchanged image, a stack of `n + 1` copies of `F` measures
zero relative shifts, the mean removal leaves them zero and no knot moves. -/
theorem identical_stack_fixed_point_of_reg (reg : Reg ℝ) (F : FImg ℝ) (hreg : reg F F = ((0, 0), F)) (n : ℕ) :
    removeMean (alignShifts reg (List.replicate (n + 1) F)) = List.replicate (n + 1) ((0 : ℝ), (0 : ℝ)) ∧
    ∀ k : ℝ × ℝ, ∀ d ∈ removeMean (alignShifts reg (List.replicate (n + 1) F)), moveKnot k d = k := by
  have h : alignShifts reg (List.replicate (n + 1) F) = List.replicate (n + 1) ((0 : ℝ), (0 : ℝ)) := by
    simp only [List.replicate_succ, alignShifts, NumReal.zero_eq]
    rw [alignLoop_identical reg F hreg]
  rw [h, removeMean_zero]
  refine ⟨rfl, ?_⟩
  intro k d hd
  rw [List.eq_of_mem_replicate hd]
  simp [moveKnot]

/-- **… given C13.**  The routine `align_translation` actually uses —
`cross_correlation_shift(F_ref, F_im, upsample_factor=up, max_shift=m, fft_input=True,
fft_output=True, return_shifted_image=True)` as modelled for C13 — satisfies that hypothesis:
if `F` is the transform of a canvas image `x` with a unique, positive correlation peak
(`hcc`: the correlation theorem, assumed) and the upsampled patch has a strict maximum at its
centre (always `≤`, see `C13.identical_patch_np`), it returns `((0, 0), F)` for every
upsampling factor and every positive `max_shift`. -/
theorem registration_fixed_on_identical {M N : ℕ} (hM : 0 < M) (hN : 0 < N) (x : ℕ → ℕ → ℝ)
    (hx : UniquePeak M N x) (hpos : 0 < cc M N x x 0 0) (ms : Option ℝ) (hms : ∀ m, ms = some m → 0 < m)
    (up : ℕ) (F : FImg ℝ) (ccReal : FImg ℝ → FImg ℝ → ℕ → ℕ → ℝ)
    (hcc : ccReal F F = corrTable M N x x)
    (hstrict : 2 ≤ up → UniqueMaxAt (sideNp up) (sideNp up) (patchNp M N up (ccF F F) 0 0) (du up) (du up)) :
    regNp M N up ms ccReal F F = ((0, 0), F) := by
  have hcs := masked_uniqueMax_zero hM hN _ ms hms (uniquePeak_uniqueMax hM hN x hx)
    (by simpa [corrTable] using hpos)
  unfold regNp
  simp only [hcc]
  by_cases hup : up ≤ 1
  · simp only [hup, if_true, shiftNp1_identical hM hN x _ hcs, rampAt_zero]
  · have h2 : 2 ≤ up := by omega
    simp only [hup, if_false, shiftNpUp_identical hM hN x _ hcs up (by omega) F (hstrict h2), rampAt_zero]

/-- the two combined: identical stacks are a fixed point of `align_translation` as it is coded -/
theorem identical_stack_fixed_point {M N : ℕ} (hM : 0 < M) (hN : 0 < N) (x : ℕ → ℕ → ℝ)
    (hx : UniquePeak M N x) (hpos : 0 < cc M N x x 0 0) (ms : Option ℝ) (hms : ∀ m, ms = some m → 0 < m)
    (up : ℕ) (F : FImg ℝ) (ccReal : FImg ℝ → FImg ℝ → ℕ → ℕ → ℝ)
    (hcc : ccReal F F = corrTable M N x x)
    (hstrict : 2 ≤ up → UniqueMaxAt (sideNp up) (sideNp up) (patchNp M N up (ccF F F) 0 0) (du up) (du up))
    (n : ℕ) :
    removeMean (alignShifts (regNp M N up ms ccReal) (List.replicate (n + 1) F))
      = List.replicate (n + 1) ((0 : ℝ), (0 : ℝ)) :=
  (identical_stack_fixed_point_of_reg _ F
    (registration_fixed_on_identical hM hN x hx hpos ms hms up F ccReal hcc hstrict) n).1

/-- **Fixed point, on the code's own formulas** (no correlation-theorem hypothesis): with
`ccReal = real(ifft2(F_ref·conj(F_im)))` and `F = fft2(x)` for a canvas image `x` with a unique,
positive correlation peak, `align_translation` on `n + 1` copies measures zero shifts. -/
theorem identical_stack_fixed_point_fft {M N : ℕ} (hM : 0 < M) (hN : 0 < N) (x : ℕ → ℕ → ℝ)
    (hx : UniquePeak M N x) (hpos : 0 < cc M N x x 0 0) (ms : Option ℝ) (hms : ∀ m, ms = some m → 0 < m)
    (up : ℕ)
    (hstrict : 2 ≤ up → UniqueMaxAt (sideNp up) (sideNp up)
      (patchNp M N up (ccF (dft2At M N x) (dft2At M N x)) 0 0) (du up) (du up))
    (n : ℕ) :
    removeMean (alignShifts (regNp M N up ms (ccRealDft M N)) (List.replicate (n + 1) (dft2At M N x)))
      = List.replicate (n + 1) ((0 : ℝ), (0 : ℝ)) := by
  refine identical_stack_fixed_point hM hN x hx hpos ms hms up (dft2At M N x) (ccRealDft M N) ?_ hstrict n
  funext s t
  exact Registration.correlation_theorem hM hN x x s t

/-- **Fixed point with every analytic hypothesis discharged**: canvas of at least 3 × 3 pixels, image
with a unique positive correlation peak and non-zero lowest Fourier coefficients on both axes —
no correlation-theorem hypothesis, no strict-patch hypothesis, every upsampling factor and every
positive `max_image_shift`. -/
theorem identical_stack_fixed_point_of_axis_coeffs {M N : ℕ} (hM : 3 ≤ M) (hN : 3 ≤ N) (x : ℕ → ℕ → ℝ)
    (hx : UniquePeak M N x) (hpos : 0 < cc M N x x 0 0) (ms : Option ℝ) (hms : ∀ m, ms = some m → 0 < m)
    (up : ℕ)
    (h10 : (dft2At M N x 1 0).re ≠ 0 ∨ (dft2At M N x 1 0).im ≠ 0)
    (h01 : (dft2At M N x 0 1).re ≠ 0 ∨ (dft2At M N x 0 1).im ≠ 0) (n : ℕ) :
    removeMean (alignShifts (regNp M N up ms (ccRealDft M N)) (List.replicate (n + 1) (dft2At M N x)))
      = List.replicate (n + 1) ((0 : ℝ), (0 : ℝ)) :=
  identical_stack_fixed_point_fft (by omega) (by omega) x hx hpos ms hms up
    (fun h2 => QuantemModel.Props.C13.patch_strict_of_axis_coeffs_np hM hN (by omega) _ h10 h01) n

/-- a concrete witness: a stack of 3 × 3 single-pixel images, `max_image_shift = 32`, any factor -/
theorem identical_stack_fixed_point_delta (up n : ℕ) :
    removeMean (alignShifts (regNp 3 3 up (some 32) (ccRealDft 3 3))
        (List.replicate (n + 1) (dft2At 3 3 QuantemModel.Props.C13.deltaImg)))
      = List.replicate (n + 1) ((0 : ℝ), (0 : ℝ)) := by
  refine identical_stack_fixed_point_of_axis_coeffs (by norm_num) (by norm_num) _
    QuantemModel.Props.C13.deltaImg_uniquePeak ?_ (some 32) (fun m h => by cases h; norm_num) up
    (Or.inl (by rw [QuantemModel.Props.C13.deltaImg_dft]; norm_num))
    (Or.inl (by rw [QuantemModel.Props.C13.deltaImg_dft]; norm_num)) n
  rw [cc_eq]
  simp [Finset.sum_range_succ, QuantemModel.Props.C13.deltaImg, wrap]

/-! ### non-vacuity -/

/-- a concrete configuration (6 × 9 image, 8 × 12 canvas, 3 knots, oblique rational scan vectors):
the placement formula gives pixel (5, 8) its rotated offset -/
example : coords 8 12 6 9 3 (⟨-3/5, 4/5, 4/5, 3/5⟩ : Scan ℝ) 5 8
    = ((8 - 1) / 2 + (8 - (9 - 1) / 2) * (-3 / 5) + (5 - (6 - 1) / 2) * (4 / 5),
       (12 - 1) / 2 + (8 - (9 - 1) / 2) * (4 / 5) + (5 - (6 - 1) / 2) * (3 / 5)) := by
  have := placement 8 12 6 9 3 (by norm_num) (⟨-3/5, 4/5, 4/5, 3/5⟩ : Scan ℝ) (r := 5) (c := 8) (by norm_num) (by norm_num)
  rw [this]; norm_num

/-- the hypothesis of the fixed-point theorem is satisfiable: the trivial routine -/
example : ∃ reg : Reg ℝ, ∀ F, reg F F = ((0, 0), F) := ⟨fun _ Fi => ((0, 0), Fi), fun _ => rfl⟩

/-- a point outside the canvas still carries unit weight (wrap indexing) -/
example : ∑ i ∈ range 3, ∑ j ∈ range 4, splatAt 3 4 (-0.25 : ℝ) (7.5 : ℝ) i j = 1 :=
  weights_unit (by norm_num) (by norm_num) _ _

end QuantemModel.Props.C15
