import QuantemModel.Lemmas.Drift
import QuantemModel.Lemmas.DriftSession
import QuantemModel.Lemmas.RegistrationSpectral
import QuantemModel.Props.C13
/-!
C15 — drift-correction resampling geometry (Model/Drift.lean, read at the carrier ℝ).
Only property theorems and non-vacuity examples live here.

Not proved (measured by the correspondence run only): that `scipy.ndimage.gaussian_filter`
conserves the weight sum and that `interp1d` on 3/4 points is the interpolating polynomial.
The correlation theorem (hypothesis `hcc` of `identical_stack_fixed_point`) is discharged in
`identical_stack_fixed_point_fft` from the shared spectral core, and the strict-patch hypothesis in
`identical_stack_fixed_point_of_axis_coeffs` (C13's `patch_strict_of_axis_coeffs_np`).
-/
namespace QuantemModel.Props.C15
open QuantemModel QuantemModel.Registration QuantemModel.Drift QuantemModel.DriftSession Finset

/-- **Placement.**  For every image shape `H × W` (square or not), every canvas `Hc × Wc` (hence
every pad fraction), every pair of scan vectors (hence every scan angle) and every knot count
`nk = 1, 2, 3, 4`, the coordinates that `transform_coordinates` computes from the knots made by
`preprocess` place pixel `(r, c)` at the canvas centre plus `(c - (W-1)/2)·fast + (r - (H-1)/2)·slow`.
In particular the 1-, 2-, 3- and 4-knot descriptions of a straight scan line give identical
coordinates. -/
theorem placement (Hc Wc H W nk : ℕ) (hnk : 1 ≤ nk ∧ nk ≤ 4) (sc : Scan ℝ) {r c : ℕ}
    (hr : r < H) (hc : c < W) :
    coords Hc Wc H W nk sc r c
      = ( ((Hc : ℝ) - 1) / 2 + ((c : ℝ) - ((W : ℝ) - 1) / 2) * sc.f0 + ((r : ℝ) - ((H : ℝ) - 1) / 2) * sc.s0,
          ((Wc : ℝ) - 1) / 2 + ((c : ℝ) - ((W : ℝ) - 1) / 2) * sc.f1 + ((r : ℝ) - ((H : ℝ) - 1) / 2) * sc.s1 ) := by
  have hv := vslow_eq hr
  have e1 : (fun k => (initialKnot Hc Wc H W nk sc r k).1)
      = fun k => ((halfSpan Hc : ℝ) + linspace (-(halfSpan H : ℝ)) (halfSpan H) H r * sc.s0)
          + linspace (-(halfSpan W : ℝ)) (halfSpan W) nk k * sc.f0 := by
    funext k; simp only [initialKnot, NumReal.add_eq, NumReal.mul_eq, NumReal.neg_eq]; ring
  have e2 : (fun k => (initialKnot Hc Wc H W nk sc r k).2)
      = fun k => ((halfSpan Wc : ℝ) + linspace (-(halfSpan H : ℝ)) (halfSpan H) H r * sc.s1)
          + linspace (-(halfSpan W : ℝ)) (halfSpan W) nk k * sc.f1 := by
    funext k; simp only [initialKnot, NumReal.add_eq, NumReal.mul_eq, NumReal.neg_eq]; ring
  unfold coords
  simp only [NumReal.zero_eq, NumReal.one_eq]
  rw [e1, e2, transformRow_affine nk W hnk _ _ hc, transformRow_affine nk W hnk _ _ hc, hv,
    halfSpan_eq, halfSpan_eq]
  ext <;> simp <;> ring

/-- the knot count does not matter: any two of the 1..4-knot descriptions agree pixel by pixel -/
theorem knot_count_independent (Hc Wc H W nk nk' : ℕ) (h : 1 ≤ nk ∧ nk ≤ 4) (h' : 1 ≤ nk' ∧ nk' ≤ 4)
    (sc : Scan ℝ) {r c : ℕ} (hr : r < H) (hc : c < W) :
    coords Hc Wc H W nk sc r c = coords Hc Wc H W nk' sc r c := by
  rw [placement Hc Wc H W nk h sc hr hc, placement Hc Wc H W nk' h' sc hr hc]

/-- **Unit weight.**  Whatever the (possibly out-of-canvas, wrapped) position of a pixel, the four
bilinear contributions it makes to the canvas add up to exactly 1. -/
theorem weights_unit {rows cols : ℕ} (hr : 0 < rows) (hc : 0 < cols) (xa ya : ℝ) :
    ∑ i ∈ range rows, ∑ j ∈ range cols, splatAt rows cols xa ya i j = 1 := by
  simp_rw [splatAt_eq, Finset.sum_add_distrib]
  rw [sum_hit hr hc, sum_hit hr hc, sum_hit hr hc, sum_hit hr hc]
  ring

/-- … hence the raw weight map of `n` pixels sums to `n` (`H·W` for an image). -/
theorem weight_map_total {rows cols : ℕ} (hr : 0 < rows) (hc : 0 < cols) (n : ℕ) (pt : ℕ → ℝ × ℝ) :
    ∑ i ∈ range rows, ∑ j ∈ range cols, weightMapAt rows cols n pt i j = (n : ℝ) := by
  unfold weightMapAt
  simp_rw [sumN_eq]
  have : ∀ i, ∑ j ∈ range cols, ∑ p ∈ range n, splatAt rows cols (pt p).1 (pt p).2 i j
      = ∑ p ∈ range n, ∑ j ∈ range cols, splatAt rows cols (pt p).1 (pt p).2 i j := fun i => Finset.sum_comm
  simp_rw [this]
  rw [Finset.sum_comm]
  simp_rw [weights_unit hr hc]
  simp

/-- **Fixed point of the alignment loop.**  For any registration routine that, on the pair
`(F, F)`, returns zero shift and the unchanged image, a stack of `n + 1` copies of `F` measures
zero relative shifts, the mean removal leaves them zero and no knot moves. -/
theorem identical_stack_fixed_point_of_reg (reg : Reg ℝ) (F : FImg ℝ) (hreg : reg F F = ((0, 0), F)) (n : ℕ) :
    removeMean (alignShifts reg (List.replicate (n + 1) F)) = List.replicate (n + 1) ((0 : ℝ), (0 : ℝ)) ∧
    ∀ k : ℝ × ℝ, ∀ d ∈ removeMean (alignShifts reg (List.replicate (n + 1) F)), moveKnot k d = k := by
  have h : alignShifts reg (List.replicate (n + 1) F) = List.replicate (n + 1) ((0 : ℝ), (0 : ℝ)) := by
    simp only [List.replicate_succ, alignShifts, NumReal.zero_eq]
    rw [alignLoop_identical reg F hreg]
  rw [h, removeMean_zero]
  refine ⟨rfl, ?_⟩
  intro k d hd
  rw [List.eq_of_mem_replicate hd]
  simp [moveKnot]

/-- **… given C13.**  The routine `align_translation` actually uses —
`cross_correlation_shift(F_ref, F_im, upsample_factor=up, max_shift=m, fft_input=True,
fft_output=True, return_shifted_image=True)` as modelled for C13 — satisfies that hypothesis:
if `F` is the transform of a canvas image `x` with a unique, positive correlation peak
(`hcc`: the correlation theorem, assumed) and the upsampled patch has a strict maximum at its
centre (always `≤`, see `C13.identical_patch_np`), it returns `((0, 0), F)` for every
upsampling factor and every positive `max_shift`. -/
theorem registration_fixed_on_identical {M N : ℕ} (hM : 0 < M) (hN : 0 < N) (x : ℕ → ℕ → ℝ)
    (hx : UniquePeak M N x) (hpos : 0 < cc M N x x 0 0) (ms : Option ℝ) (hms : ∀ m, ms = some m → 0 < m)
    (up : ℕ) (F : FImg ℝ) (ccReal : FImg ℝ → FImg ℝ → ℕ → ℕ → ℝ)
    (hcc : ccReal F F = corrTable M N x x)
    (hstrict : 2 ≤ up → UniqueMaxAt (sideNp up) (sideNp up) (patchNp M N up (ccF F F) 0 0) (du up) (du up)) :
    regNp M N up ms ccReal F F = ((0, 0), F) := by
  have hcs := masked_uniqueMax_zero hM hN _ ms hms (uniquePeak_uniqueMax hM hN x hx)
    (by simpa [corrTable] using hpos)
  unfold regNp
  simp only [hcc]
  by_cases hup : up ≤ 1
  · simp only [hup, if_true, shiftNp1_identical hM hN x _ hcs, rampAt_zero]
  · have h2 : 2 ≤ up := by omega
    simp only [hup, if_false, shiftNpUp_identical hM hN x _ hcs up (by omega) F (hstrict h2), rampAt_zero]

/-- the two combined: identical stacks are a fixed point of `align_translation` as it is coded -/
theorem identical_stack_fixed_point {M N : ℕ} (hM : 0 < M) (hN : 0 < N) (x : ℕ → ℕ → ℝ)
    (hx : UniquePeak M N x) (hpos : 0 < cc M N x x 0 0) (ms : Option ℝ) (hms : ∀ m, ms = some m → 0 < m)
    (up : ℕ) (F : FImg ℝ) (ccReal : FImg ℝ → FImg ℝ → ℕ → ℕ → ℝ)
    (hcc : ccReal F F = corrTable M N x x)
    (hstrict : 2 ≤ up → UniqueMaxAt (sideNp up) (sideNp up) (patchNp M N up (ccF F F) 0 0) (du up) (du up))
    (n : ℕ) :
    removeMean (alignShifts (regNp M N up ms ccReal) (List.replicate (n + 1) F))
      = List.replicate (n + 1) ((0 : ℝ), (0 : ℝ)) :=
  (identical_stack_fixed_point_of_reg _ F
    (registration_fixed_on_identical hM hN x hx hpos ms hms up F ccReal hcc hstrict) n).1

/-- **Fixed point, on the code's own formulas** (no correlation-theorem hypothesis): with
`ccReal = real(ifft2(F_ref·conj(F_im)))` and `F = fft2(x)` for a canvas image `x` with a unique,
positive correlation peak, `align_translation` on `n + 1` copies measures zero shifts. -/
theorem identical_stack_fixed_point_fft {M N : ℕ} (hM : 0 < M) (hN : 0 < N) (x : ℕ → ℕ → ℝ)
    (hx : UniquePeak M N x) (hpos : 0 < cc M N x x 0 0) (ms : Option ℝ) (hms : ∀ m, ms = some m → 0 < m)
    (up : ℕ)
    (hstrict : 2 ≤ up → UniqueMaxAt (sideNp up) (sideNp up)
      (patchNp M N up (ccF (dft2At M N x) (dft2At M N x)) 0 0) (du up) (du up))
    (n : ℕ) :
    removeMean (alignShifts (regNp M N up ms (ccRealDft M N)) (List.replicate (n + 1) (dft2At M N x)))
      = List.replicate (n + 1) ((0 : ℝ), (0 : ℝ)) := by
  refine identical_stack_fixed_point hM hN x hx hpos ms hms up (dft2At M N x) (ccRealDft M N) ?_ hstrict n
  funext s t
  exact Registration.correlation_theorem hM hN x x s t

/-- **Fixed point with every analytic hypothesis discharged**: canvas of at least 3 × 3 pixels, image
with a unique positive correlation peak and non-zero lowest Fourier coefficients on both axes —
no correlation-theorem hypothesis, no strict-patch hypothesis, every upsampling factor and every
positive `max_image_shift`. -/
theorem identical_stack_fixed_point_of_axis_coeffs {M N : ℕ} (hM : 3 ≤ M) (hN : 3 ≤ N) (x : ℕ → ℕ → ℝ)
    (hx : UniquePeak M N x) (hpos : 0 < cc M N x x 0 0) (ms : Option ℝ) (hms : ∀ m, ms = some m → 0 < m)
    (up : ℕ)
    (h10 : (dft2At M N x 1 0).re ≠ 0 ∨ (dft2At M N x 1 0).im ≠ 0)
    (h01 : (dft2At M N x 0 1).re ≠ 0 ∨ (dft2At M N x 0 1).im ≠ 0) (n : ℕ) :
    removeMean (alignShifts (regNp M N up ms (ccRealDft M N)) (List.replicate (n + 1) (dft2At M N x)))
      = List.replicate (n + 1) ((0 : ℝ), (0 : ℝ)) :=
  identical_stack_fixed_point_fft (by omega) (by omega) x hx hpos ms hms up
    (fun h2 => QuantemModel.Props.C13.patch_strict_of_axis_coeffs_np hM hN (by omega) _ h10 h01) n

/-- a concrete witness: a stack of 3 × 3 single-pixel images, `max_image_shift = 32`, any factor -/
theorem identical_stack_fixed_point_delta (up n : ℕ) :
    removeMean (alignShifts (regNp 3 3 up (some 32) (ccRealDft 3 3))
        (List.replicate (n + 1) (dft2At 3 3 QuantemModel.Props.C13.deltaImg)))
      = List.replicate (n + 1) ((0 : ℝ), (0 : ℝ)) := by
  refine identical_stack_fixed_point_of_axis_coeffs (by norm_num) (by norm_num) _
    QuantemModel.Props.C13.deltaImg_uniquePeak ?_ (some 32) (fun m h => by cases h; norm_num) up
    (Or.inl (by rw [QuantemModel.Props.C13.deltaImg_dft]; norm_num))
    (Or.inl (by rw [QuantemModel.Props.C13.deltaImg_dft]; norm_num)) n
  rw [cc_eq]
  simp [Finset.sum_range_succ, QuantemModel.Props.C13.deltaImg, wrap]

/-! ### interpolation through the knots (`interp1d` linear / quadratic / cubic) -/

/-- **Polynomial reproduction.**  `transform_rows` with `nk = 2, 3, 4` knots (`interp1d` "linear",
"quadratic", "cubic" through exactly `nk` points = the Lagrange interpolating polynomial on the
nodes `np.linspace(0, 1, nk)`) reproduces *every* polynomial of degree `≤ nk - 1` exactly, at
every abscissa `u` (inside or outside `[0, 1]`: `fill_value="extrapolate"`). -/
theorem transform_rows_reproduces_polynomials (nk W : ℕ) (hnk : 2 ≤ nk ∧ nk ≤ 4) (a0 a1 a2 a3 f u : ℝ)
    (h2 : nk = 2 → a2 = 0 ∧ a3 = 0) (h3 : nk = 3 → a3 = 0) :
    transformRow nk W (fun k => a0 + a1 * linspace (0 : ℝ) 1 nk k + a2 * linspace (0 : ℝ) 1 nk k ^ 2
        + a3 * linspace (0 : ℝ) 1 nk k ^ 3) f u
      = a0 + a1 * u + a2 * u ^ 2 + a3 * u ^ 3 := by
  obtain ⟨hl, hu⟩ := hnk
  interval_cases nk
  · obtain ⟨ha2, ha3⟩ := h2 rfl
    obtain ⟨t0, t1⟩ := basis2
    simp only [transformRow, show (2 : ℕ) ≠ 1 by norm_num, if_false, if_true, NumReal.zero_eq, NumReal.one_eq,
      NumReal.add_eq, NumReal.mul_eq, NumReal.sub_eq, NumReal.div_eq, t0, t1, ha2, ha3]
    ring
  · have ha3 := h3 rfl
    obtain ⟨t0, t1, t2⟩ := basis3
    simp only [transformRow, show (3 : ℕ) ≠ 1 by norm_num, show (3 : ℕ) ≠ 2 by norm_num, if_false,
      NumReal.zero_eq, NumReal.one_eq, ha3, zero_mul, add_zero]
    exact lagrange3_reproduces _ (by rw [t0, t1]; norm_num) (by rw [t0, t2]; norm_num) (by rw [t1, t2]; norm_num) a0 a1 a2 u
  · obtain ⟨t0, t1, t2, t3⟩ := basis4
    simp only [transformRow, show (4 : ℕ) ≠ 1 by norm_num, show (4 : ℕ) ≠ 2 by norm_num, if_false,
      NumReal.zero_eq, NumReal.one_eq]
    exact lagrange4_reproduces _ (by rw [t0, t1]; norm_num) (by rw [t0, t2]; norm_num) (by rw [t0, t3]; norm_num)
      (by rw [t1, t2]; norm_num) (by rw [t1, t3]; norm_num) (by rw [t2, t3]; norm_num) a0 a1 a2 a3 u

/-- the Lagrange form itself, for *any* three / four distinct nodes (not only the uniform ones) -/
theorem lagrange_reproduces_quadratics_and_cubics (t : ℕ → ℝ) (a0 a1 a2 a3 u : ℝ) :
    (t 0 ≠ t 1 → t 0 ≠ t 2 → t 1 ≠ t 2 →
      lagrange 3 t (fun i => a0 + a1 * t i + a2 * t i ^ 2) u = a0 + a1 * u + a2 * u ^ 2) ∧
    (t 0 ≠ t 1 → t 0 ≠ t 2 → t 0 ≠ t 3 → t 1 ≠ t 2 → t 1 ≠ t 3 → t 2 ≠ t 3 →
      lagrange 4 t (fun i => a0 + a1 * t i + a2 * t i ^ 2 + a3 * t i ^ 3) u
        = a0 + a1 * u + a2 * u ^ 2 + a3 * u ^ 3) :=
  ⟨fun h01 h02 h12 => lagrange3_reproduces t h01 h02 h12 a0 a1 a2 u,
   fun h01 h02 h03 h12 h13 h23 => lagrange4_reproduces t h01 h02 h03 h12 h13 h23 a0 a1 a2 a3 u⟩

/-- **Straight scan lines are sampled uniformly for every knot count** — derived from polynomial
reproduction (degree 1), not from the placement formula: knots lying on the line
`A + B·t` (`t ∈ linspace(0,1,nk)`) give the samples `A + B·u`, for 2, 3 and 4 knots; and the 1-knot
extrapolation along `scan_fast` gives the same samples when the line runs along `scan_fast`
(`B = fast·(W-1)`). -/
theorem straight_line_sampled_uniformly (nk W : ℕ) (hnk : 1 ≤ nk ∧ nk ≤ 4) (A B f u : ℝ)
    (h1 : nk = 1 → B = f * ((W : ℝ) - 1)) :
    transformRow nk W (fun k => A + B * linspace (0 : ℝ) 1 nk k) f u = A + B * u := by
  by_cases h : nk = 1
  · subst h
    simp only [transformRow, if_true, linspace_one, NumReal.ofInt_eq, NumReal.add_eq, NumReal.mul_eq]
    rw [h1 rfl]; push_cast; ring
  · have := transform_rows_reproduces_polynomials nk W ⟨by omega, hnk.2⟩ A B 0 0 f u (fun _ => ⟨rfl, rfl⟩) (fun _ => rfl)
    simpa using this

/-- **Knot-count independence, on top of polynomial reproduction**: the coordinates computed from
`preprocess`-made knots do not depend on the knot count, for every pair of counts in `1..4`. The
initial knots lie on a straight line in `t` (`linspace_affine`), so this is the degree-1 case above. -/
theorem knot_count_independent_via_interpolation (Hc Wc H W nk nk' : ℕ) (h : 1 ≤ nk ∧ nk ≤ 4) (h' : 1 ≤ nk' ∧ nk' ≤ 4)
    (sc : Scan ℝ) (r c : ℕ) :
    coords Hc Wc H W nk sc r c = coords Hc Wc H W nk' sc r c := by
  have key : ∀ n, 1 ≤ n ∧ n ≤ 4 → coords Hc Wc H W n sc r c
      = ( ((halfSpan Hc : ℝ) + linspace (-(halfSpan H : ℝ)) (halfSpan H) H r * sc.s0 - (halfSpan W : ℝ) * sc.f0)
            + (sc.f0 * ((W : ℝ) - 1)) * linspace (0 : ℝ) 1 W c,
          ((halfSpan Wc : ℝ) + linspace (-(halfSpan H : ℝ)) (halfSpan H) H r * sc.s1 - (halfSpan W : ℝ) * sc.f1)
            + (sc.f1 * ((W : ℝ) - 1)) * linspace (0 : ℝ) 1 W c ) := by
    intro n hn
    have hs : (halfSpan W : ℝ) - -(halfSpan W : ℝ) = (W : ℝ) - 1 := by rw [halfSpan_eq]; ring
    by_cases h1 : n = 1
    · subst h1
      unfold coords
      simp only [transformRow, if_true, initialKnot, linspace_one, NumReal.ofInt_eq, NumReal.add_eq, NumReal.mul_eq,
        NumReal.zero_eq, NumReal.one_eq, NumReal.neg_eq]
      ext <;> simp <;> ring
    · have hn2 : 2 ≤ n := by omega
      have e1 : (fun k => (initialKnot Hc Wc H W n sc r k).1)
          = fun k => ((halfSpan Hc : ℝ) + linspace (-(halfSpan H : ℝ)) (halfSpan H) H r * sc.s0 - (halfSpan W : ℝ) * sc.f0)
              + (sc.f0 * ((W : ℝ) - 1)) * linspace (0 : ℝ) 1 n k := by
        funext k
        simp only [initialKnot, NumReal.add_eq, NumReal.mul_eq, NumReal.neg_eq]
        rw [linspace_affine hn2 (-(halfSpan W : ℝ)) (halfSpan W) k, hs]; ring
      have e2 : (fun k => (initialKnot Hc Wc H W n sc r k).2)
          = fun k => ((halfSpan Wc : ℝ) + linspace (-(halfSpan H : ℝ)) (halfSpan H) H r * sc.s1 - (halfSpan W : ℝ) * sc.f1)
              + (sc.f1 * ((W : ℝ) - 1)) * linspace (0 : ℝ) 1 n k := by
        funext k
        simp only [initialKnot, NumReal.add_eq, NumReal.mul_eq, NumReal.neg_eq]
        rw [linspace_affine hn2 (-(halfSpan W : ℝ)) (halfSpan W) k, hs]; ring
      unfold coords
      simp only [NumReal.zero_eq, NumReal.one_eq]
      rw [e1, e2, straight_line_sampled_uniformly n W hn _ _ _ _ (fun h => absurd h h1),
        straight_line_sampled_uniformly n W hn _ _ _ _ (fun h => absurd h h1)]
  rw [key nk h, key nk' h']

/-! ### the bilinear splat: sign, total and first moment of the four weights -/

/-- **Weights are non-negative, sum to one and have their centroid exactly at the position**, for
every (also negative / out-of-canvas) sub-pixel position: `Σ w = 1`, `Σ w·row = xa`, `Σ w·col = ya`
over the four un-wrapped corners `(⌊xa⌋ + {0,1}, ⌊ya⌋ + {0,1})`. -/
theorem splat_weights_nonneg_unit_centroid (xa ya : ℝ) :
    (∀ q ∈ corners xa ya, 0 ≤ q.2.2) ∧
    ((corners xa ya).map fun q => q.2.2).sum = 1 ∧
    ((corners xa ya).map fun q => q.2.2 * (q.1 : ℝ)).sum = xa ∧
    ((corners xa ya).map fun q => q.2.2 * (q.2.1 : ℝ)).sum = ya := by
  have hx0 := Int.floor_le xa
  have hx1 := Int.lt_floor_add_one xa
  have hy0 := Int.floor_le ya
  have hy1 := Int.lt_floor_add_one ya
  have dx0 : 0 ≤ xa - ⌊xa⌋ := by linarith
  have dx1 : 0 ≤ 1 - (xa - ⌊xa⌋) := by linarith
  have dy0 : 0 ≤ ya - ⌊ya⌋ := by linarith
  have dy1 : 0 ≤ 1 - (ya - ⌊ya⌋) := by linarith
  refine ⟨?_, ?_, ?_, ?_⟩
  · intro q hq
    simp only [corners, floor_real, NumReal.ofInt_eq, NumReal.sub_eq, NumReal.mul_eq, NumReal.one_eq, List.mem_cons,
      List.not_mem_nil, or_false] at hq
    rcases hq with rfl | rfl | rfl | rfl <;> simp only <;> positivity
  · simp [corners]; ring
  · simp [corners]; ring_nf; exact Int.fract_add_floor xa
  · simp [corners]; ring_nf; exact Int.fract_add_floor ya

/-- **On the canvas the first moment is conserved cell by cell**: for a position whose four corners
lie inside the `rows × cols` canvas (no wrap), `Σ_{i,j} i·splat[i,j] = xa` and `Σ_{i,j} j·splat[i,j] = ya`. -/
theorem splat_centroid_on_canvas {rows cols : ℕ} (xa ya : ℝ) (hx0 : 0 ≤ ⌊xa⌋) (hx1 : ⌊xa⌋ + 1 < rows)
    (hy0 : 0 ≤ ⌊ya⌋) (hy1 : ⌊ya⌋ + 1 < cols) :
    ∑ i ∈ range rows, ∑ j ∈ range cols, (i : ℝ) * splatAt rows cols xa ya i j = xa ∧
    ∑ i ∈ range rows, ∑ j ∈ range cols, (j : ℝ) * splatAt rows cols xa ya i j = ya := by
  have hr : 0 < rows := by omega
  have hc : 0 < cols := by omega
  have w1 : ((wrap rows ⌊xa⌋ : ℕ) : ℝ) = (⌊xa⌋ : ℝ) := wrap_cast_of_mem hx0 (by omega)
  have w2 : ((wrap rows (⌊xa⌋ + 1) : ℕ) : ℝ) = ((⌊xa⌋ + 1 : ℤ) : ℝ) := wrap_cast_of_mem (by omega) (by omega)
  have w3 : ((wrap cols ⌊ya⌋ : ℕ) : ℝ) = (⌊ya⌋ : ℝ) := wrap_cast_of_mem hy0 (by omega)
  have w4 : ((wrap cols (⌊ya⌋ + 1) : ℕ) : ℝ) = ((⌊ya⌋ + 1 : ℤ) : ℝ) := wrap_cast_of_mem (by omega) (by omega)
  constructor
  · simp_rw [splatAt_eq, mul_add, Finset.sum_add_distrib]
    rw [sum_hit_row hr hc, sum_hit_row hr hc, sum_hit_row hr hc, sum_hit_row hr hc]
    simp only [w1, w2]
    push_cast; ring
  · simp_rw [splatAt_eq, mul_add, Finset.sum_add_distrib]
    rw [sum_hit_col hr hc, sum_hit_col hr hc, sum_hit_col hr hc, sum_hit_col hr hc]
    simp only [w3, w4]
    push_cast; ring

/-- **On the border the code wraps**: a position in the last row (`⌊xa⌋ = rows - 1`) sends the share `dx`
of its weight to row 0 (`ravel_multi_index(mode="wrap")`), so the total stays 1 (`weights_unit`) while the
row centroid is displaced by `-rows·dx`. -/
theorem splat_border_wraps {rows cols : ℕ} (hr : 2 ≤ rows) (xa ya : ℝ) (hx : ⌊xa⌋ = (rows : ℤ) - 1)
    (hy0 : 0 ≤ ⌊ya⌋) (hy1 : ⌊ya⌋ + 1 < cols) :
    ∑ i ∈ range rows, ∑ j ∈ range cols, (i : ℝ) * splatAt rows cols xa ya i j
      = xa - (rows : ℝ) * (xa - ⌊xa⌋) := by
  have hr' : 0 < rows := by omega
  have hc : 0 < cols := by omega
  have w1 : ((wrap rows ⌊xa⌋ : ℕ) : ℝ) = (⌊xa⌋ : ℝ) := wrap_cast_of_mem (by omega) (by omega)
  have w2 : ((wrap rows (⌊xa⌋ + 1) : ℕ) : ℝ) = 0 := by
    have : wrap rows (⌊xa⌋ + 1) = 0 := by
      rw [hx, show (rows : ℤ) - 1 + 1 = 0 + (rows : ℤ) * 1 by ring, wrap_add_mul, wrap_zero]
    rw [this]; simp
  simp_rw [splatAt_eq, mul_add, Finset.sum_add_distrib]
  rw [sum_hit_row hr' hc, sum_hit_row hr' hc, sum_hit_row hr' hc, sum_hit_row hr' hc]
  simp only [w1, w2]
  have : (⌊xa⌋ : ℝ) = (rows : ℝ) - 1 := by rw [hx]; push_cast; ring
  rw [this]; ring

/-! ### Gaussian KDE: a normalised kernel conserves the total weight -/

/-- **`mode="wrap"`: exact conservation** for any kernel (symmetric or not, any radius, also larger
than the canvas): the filtered total is the kernel sum times the input total; `= ` input total for a
normalised kernel.  (`gaussian_filter` is separable, so this is applied once per axis.) -/
theorem gaussian_wrap_conserves_total {n : ℕ} (r : ℕ) (w x : ℕ → ℝ) (hw : ∑ d ∈ range (2 * r + 1), w d = 1) :
    ∑ i ∈ range n, convWrap n r w x i = ∑ i ∈ range n, x i := by
  rw [convWrap_total, hw, one_mul]

/-- **`mode="reflect"` — the mode `gaussian_filter` uses by default and therefore the mode of the
code: exact conservation for every *symmetric* kernel** (`w[2r-d] = w[d]`, as the sampled Gaussian is),
any radius (also larger than the canvas: the extension is the even one of period `2n`).  Nothing is
lost at the border: what leaves on one side is reflected back in. -/
theorem gaussian_reflect_conserves_total {n : ℕ} (hn : 0 < n) (r : ℕ) (w x : ℕ → ℝ)
    (hsym : ∀ d, d ≤ 2 * r → w (2 * r - d) = w d) (hw : ∑ d ∈ range (2 * r + 1), w d = 1) :
    ∑ i ∈ range n, convReflect n r w x i = ∑ i ∈ range n, x i := by
  rw [convReflect_total hn r w x hsym, hw, one_mul]

/-- symmetry of the kernel is needed under `reflect`: the one-sided kernel `(1, 0, 0)` doubles the
first sample of `x = (1, 0)` (total 2 instead of 1), whereas `wrap` conserves it for any kernel. -/
theorem gaussian_reflect_asymmetric_counterexample :
    ∑ i ∈ range 2, convReflect 2 1 (fun d => if d = 0 then (1 : ℝ) else 0) (fun i => if i = 0 then (1 : ℝ) else 0) i
      ≠ ∑ i ∈ range 2, (fun i => if i = 0 then (1 : ℝ) else 0) i := by
  simp only [Finset.sum_range_succ, Finset.sum_range_zero, convReflect, sumN]
  norm_num [reflIdx, wrap]


/-! ### histories of public calls on ONE object, calls that raise included (Model/DriftSession.lean) -/

/-- **A call that raises leaves the resampling geometry alone, or has just re-made it from scratch.**  For every
state and every public operation — `preprocess` in all its rejected forms (`validate_pad_value`, `float()` /
`int()` conversions, `number_knots < 1`, `int(nan)`, a single image, an empty canvas, `sigma = inf`),
`align_translation` / `align_affine` with a wrong-typed argument, an even `num_tests`, or an exception raised
by a callee inside their loops — if the call raises, `shape`/knots/interpolators are exactly what they were
before the call, or exactly the fresh geometry `preprocess` makes for the object's current images and scan
directions.  Holds for every carrier (the executed `Float` instance included). -/
theorem raising_call_keeps_or_resets_geometry {R : Type} [Num R] [NumFloor R] (s : St R) (op : Op R)
    (h : (step s op).2 ≠ .ok) :
    (step s op).1.geom = s.geom ∨ ∃ Hc Wc k, (step s op).1.geom = some (freshGeom Hc Wc k s.shapes s.angles) := by
  cases op with
  | setAngles a => exact Or.inl rfl
  | preprocess pad pv sigma nk => exact preprocess_geom s pad pv sigma nk
  | alignTranslation up ms mn f raw =>
    simp only [step] at h ⊢
    rcases alignTranslation_raised s up ms mn f raw h with e | ⟨_, e⟩
    · rw [e]; exact Or.inl rfl
    · rw [e]; exact preprocess_geom s _ _ _ _
  | alignAffine stp nt rf up ms f m =>
    simp only [step] at h ⊢
    rw [alignAffine_raised s stp nt rf up ms f m h]
    exact Or.inl rfl

/-- **Alignment calls are atomic when they raise**: on an object that has knots, an `align_translation` or
`align_affine` call that raises (wrong-typed argument, even `num_tests`, exception from a callee inside the
search / registration loop) returns the object in exactly the state it was in — the trial knots of the affine
search are copies, the measured shifts are applied only after the loop. -/
theorem raising_alignment_call_is_atomic {R : Type} [Num R] [NumFloor R] (s : St R) (op : Op R)
    (hk : s.geom ≠ none) (ha : op.isAlign = true) (h : (step s op).2 ≠ .ok) : (step s op).1 = s := by
  cases op with
  | setAngles a => simp [Op.isAlign] at ha
  | preprocess pad pv sigma nk => simp [Op.isAlign] at ha
  | alignTranslation up ms mn f raw =>
    simp only [step] at h ⊢
    rcases alignTranslation_raised s up ms mn f raw h with e | ⟨e, _⟩
    · exact e
    · exact absurd e hk
  | alignAffine stp nt rf up ms f m =>
    simp only [step] at h ⊢
    exact alignAffine_raised s stp nt rf up ms f m h

/-- **Invariant over every history.**  Start from `from_data` and apply ANY sequence of public calls — assignments
to `scan_direction_degrees`, `preprocess` calls (accepted, rejected, failing late), alignment calls — in which no
alignment call has *succeeded* (they may have been attempted and raised, any number of times, anywhere).  Then
the knots of every image are exactly the ones `preprocess` places for that image's own shape, knot count and scan
vectors on the current canvas.  Every carrier. -/
theorem pristine_before_any_drift_estimate {R : Type} [Num R] [NumFloor R] (shapes : List (ℕ × ℕ)) (angles : List R)
    (ops : List (Op R)) (h : noDrift (fromData shapes angles) ops) :
    ∀ g, (run (fromData shapes angles) ops).geom = some g → Pristine g :=
  run_inv ops _ (fromData_inv shapes angles) h

/-- **Placement after any such history** ("before any drift is estimated"): pixel `(r, c)` of every image of the
stack — square or not, images of different shapes in one stack included — is placed at the canvas centre plus the
scan-direction rotation of its offset from the image centre, for 1..4 knots, whatever calls were made and rejected
before. -/
theorem placement_after_any_history_without_drift (shapes : List (ℕ × ℕ)) (angles : List ℝ) (ops : List (Op ℝ))
    (h : noDrift (fromData shapes angles) ops) (g : Geom ℝ) (hg : (run (fromData shapes angles) ops).geom = some g)
    (im : ImgGeom ℝ) (him : im ∈ g.imgs) (hnk : 1 ≤ im.nk ∧ im.nk ≤ 4) {r c : ℕ} (hr : r < im.H) (hc : c < im.W) :
    coordsOf im r c
      = ( ((g.Hc : ℝ) - 1) / 2 + ((c : ℝ) - ((im.W : ℝ) - 1) / 2) * im.scan.f0 + ((r : ℝ) - ((im.H : ℝ) - 1) / 2) * im.scan.s0,
          ((g.Wc : ℝ) - 1) / 2 + ((c : ℝ) - ((im.W : ℝ) - 1) / 2) * im.scan.f1 + ((r : ℝ) - ((im.H : ℝ) - 1) / 2) * im.scan.s1 ) := by
  have hp := pristine_before_any_drift_estimate shapes angles ops h g hg im him
  have : coordsOf im r c = coords g.Hc g.Wc im.H im.W im.nk im.scan r c := by
    unfold coordsOf coords
    rw [hp]
  rw [this, placement g.Hc g.Wc im.H im.W im.nk hnk im.scan hr hc]

/-- **`preprocess` forgets the history**: whether it succeeds, and the geometry it makes when it does, depend on the
object only through its images' shapes and its *current* scan directions — not on earlier configurations, earlier
knots, cached scan vectors or rejected calls. -/
theorem preprocess_forgets_history {R : Type} [Num R] [NumFloor R] (s s' : St R) (hsh : s.shapes = s'.shapes)
    (hang : s.angles = s'.angles) (pad : NumArg R) (pv : PadArg R) (sigma nk : NumArg R) :
    (preprocess s pad pv sigma nk).2 = (preprocess s' pad pv sigma nk).2 ∧
    ((preprocess s pad pv sigma nk).2 = .ok →
      (preprocess s pad pv sigma nk).1.geom = (preprocess s' pad pv sigma nk).1.geom) := by
  unfold preprocess
  rw [hsh, hang]
  repeat' split
  all_goals first
    | exact ⟨rfl, fun h => by simp at h⟩
    | (constructor
       · cases lateFailure _ _ _ <;> rfl
       · intro _; rw [finish_geom, finish_geom])

/-- **`align_translation` moves every pixel by exactly the shift it applies to the knots**, for 1, 2, 3 and 4
knots and arbitrary (not only initial) knots: the interpolation weights of `transform_rows` add up to one. -/
theorem translation_moves_every_pixel_by_the_shift (im : ImgGeom ℝ) (hnk : 1 ≤ im.nk ∧ im.nk ≤ 4) (d : ℝ × ℝ) (r c : ℕ) :
    coordsOf (translateImg im d) r c = ((coordsOf im r c).1 + d.1, (coordsOf im r c).2 + d.2) := by
  unfold coordsOf translateImg moveKnot
  simp only [NumReal.add_eq]
  rw [transformRow_add_const im.nk im.W hnk, transformRow_add_const im.nk im.W hnk]

/-- the shear a successful `align_affine` commits moves the pixels of scan line `r` by `drift · (r − (H−1)/2)` -/
theorem shear_moves_scan_line_rigidly (im : ImgGeom ℝ) (hnk : 1 ≤ im.nk ∧ im.nk ≤ 4) (d : ℝ × ℝ) (r c : ℕ) :
    coordsOf (shearImg im d) r c
      = ((coordsOf im r c).1 + d.1 * ((r : ℝ) - ((im.H : ℝ) - 1) / 2), (coordsOf im r c).2 + d.2 * ((r : ℝ) - ((im.H : ℝ) - 1) / 2)) := by
  unfold coordsOf shearImg
  simp only [NumReal.add_eq, NumReal.mul_eq, NumReal.sub_eq, NumReal.ofNat_eq, halfSpan_eq]
  rw [transformRow_add_const im.nk im.W hnk, transformRow_add_const im.nk im.W hnk]

/-- the shifts `align_translation` applies (`dxy -= mean(dxy)`) add up to zero: the stack as a whole does not move -/
theorem applied_shifts_sum_to_zero (raw : List (ℝ × ℝ)) :
    sumPairs (removeMean (((0 : ℝ), (0 : ℝ)) :: raw)) = (0, 0) :=
  removeMean_sum _ (by simp)

/-- **Fixed point, at the level of the object's state**: when the registration measures zero shifts, the whole
`align_translation` call — mean removal, the `min_image_shift` rule for any threshold, knot update — returns the
geometry unchanged, bit for bit, for any number of images and any knots. -/
theorem zero_shifts_leave_geometry_unchanged (g : Geom ℝ) (mn : Option ℝ) (k : ℕ) :
    commitTranslation g mn (List.replicate k ((0 : ℝ), (0 : ℝ))) = g := by
  unfold commitTranslation
  have h0 : ((Num.zero : ℝ), (Num.zero : ℝ)) :: List.replicate k ((0 : ℝ), (0 : ℝ)) = List.replicate (k + 1) ((0 : ℝ), (0 : ℝ)) := by
    simp [List.replicate_succ]
  rw [h0, removeMean_zero, applyMinShift_zero]
  simp only [zipApply_translate_zero]

/-- … hence a stack of identical images is a fixed point of the `align_translation` CALL on the object (for any
registration routine that returns zero shift and the unchanged image on identical inputs — C13's is one, see
`identical_stack_fixed_point_of_axis_coeffs`): outcome ok, state unchanged. -/
theorem identical_stack_fixed_point_of_the_call (reg : Reg ℝ) (F : FImg ℝ) (hreg : reg F F = ((0, 0), F)) (n : ℕ)
    (s : St ℝ) (g : Geom ℝ) (hg : s.geom = some g) (mn : Option ℝ) :
    step s (.alignTranslation .good .good mn false (alignLoop reg F 1 (List.replicate n F))) = (s, .ok) := by
  simp only [step, alignTranslation, hg]
  rw [alignLoop_identical reg F hreg, zero_shifts_leave_geometry_unchanged]
  simp only [reduceCtorEq, or_self, and_false, if_false, Bool.false_eq_true]
  cases s
  simp_all

/-- the candidate drift vectors of `align_affine` always contain the zero drift (odd `num_tests = 2h+1`) -/
theorem affine_candidates_contain_zero_drift (h : ℕ) : ((0 : ℤ), (0 : ℤ)) ∈ affineUnits h := by
  simp only [affineUnits, List.mem_filter, List.mem_flatMap, List.mem_map, List.mem_range]
  refine ⟨⟨0, ⟨h, by omega, by simp⟩, ⟨0, ⟨h, by omega, by simp⟩, rfl⟩⟩, ?_⟩
  simp
  positivity

/-- `num_tests = 3` searches 9 candidate drifts, `num_tests = 5` searches 21 (the corners of the 5×5 grid fall
outside the disc `x² + y² ≤ (num_tests/2)²`) -/
theorem affine_candidate_counts : (affineUnits 1).length = 9 ∧ (affineUnits 2).length = 21 := by
  constructor <;> decide

/-- **`validate_pad_value` accepts exactly** the four statistic names, numbers in `[0, 1]` and number lists with one
entry per image; everything else (unknown strings included) is rejected before `preprocess` changes anything. -/
theorem validate_pad_value_accepts_iff (n : ℕ) (pv : PadArg ℝ) :
    validatePadValue n pv = .ok () ↔
      match pv with
      | .str s => s = "median" ∨ s = "mean" ∨ s = "min" ∨ s = "max"
      | .num x => 0 ≤ x ∧ x ≤ 1
      | .numNan => False
      | .list items => (∀ i ∈ items, i = PadItem.number) ∧ items.length = n
      | .other => False := by
  cases pv with
  | str s => by_cases h : s = "median" ∨ s = "mean" ∨ s = "min" ∨ s = "max" <;> simp [validatePadValue, h]
  | num x =>
    simp only [validatePadValue]
    by_cases h0 : x < 0
    · simp [h0, not_le.mpr h0]
    · by_cases h1 : 1 < x
      · simp [h0, h1, not_le.mpr h1]
      · simp [h0, h1, not_lt.mp h0, not_lt.mp h1]
  | numNan => simp [validatePadValue]
  | list items =>
    simp only [validatePadValue, List.all_eq_true, decide_eq_true_eq]
    by_cases ha : ∀ i ∈ items, i = PadItem.number
    · by_cases hl : items.length = n
      · simp [hl]
      · rw [if_pos ha]; simp [hl]
    · simp [ha]
  | other => simp [validatePadValue]

/-- a rejected `pad_value` leaves the whole object untouched -/
theorem rejected_pad_value_changes_nothing {R : Type} [Num R] [NumFloor R] (s : St R) (pad : NumArg R) (pv : PadArg R)
    (sigma nk : NumArg R) (e : Err) (h : validatePadValue s.shapes.length pv = .error e) :
    preprocess s pad pv sigma nk = (s, .raised e) := by
  unfold preprocess
  rw [h]

/-! ### non-vacuity -/

/-- a concrete configuration (6 × 9 image, 8 × 12 canvas, 3 knots, oblique rational scan vectors):
the placement formula gives pixel (5, 8) its rotated offset -/
example : coords 8 12 6 9 3 (⟨-3/5, 4/5, 4/5, 3/5⟩ : Scan ℝ) 5 8
    = ((8 - 1) / 2 + (8 - (9 - 1) / 2) * (-3 / 5) + (5 - (6 - 1) / 2) * (4 / 5),
       (12 - 1) / 2 + (8 - (9 - 1) / 2) * (4 / 5) + (5 - (6 - 1) / 2) * (3 / 5)) := by
  have := placement 8 12 6 9 3 (by norm_num) (⟨-3/5, 4/5, 4/5, 3/5⟩ : Scan ℝ) (r := 5) (c := 8) (by norm_num) (by norm_num)
  rw [this]; norm_num

/-- the hypothesis of the fixed-point theorem is satisfiable: the trivial routine -/
example : ∃ reg : Reg ℝ, ∀ F, reg F F = ((0, 0), F) := ⟨fun _ Fi => ((0, 0), Fi), fun _ => rfl⟩

/-- the binomial kernel (1/4, 1/2, 1/4) is symmetric and normalised: the reflect-mode total is conserved -/
example (x : ℕ → ℝ) : ∑ i ∈ range 5, convReflect 5 1 (fun d => if d = 1 then (1 / 2 : ℝ) else 1 / 4) x i = ∑ i ∈ range 5, x i := by
  apply gaussian_reflect_conserves_total (by norm_num)
  · intro d hd
    have : d = 0 ∨ d = 1 ∨ d = 2 := by omega
    rcases this with rfl | rfl | rfl <;> norm_num
  · simp [Finset.sum_range_succ]; norm_num

/-- a cubic through four uniform knots is reproduced (degree 3 with 4 knots) -/
example (u : ℝ) : transformRow 4 7 (fun k => 1 + 2 * linspace (0 : ℝ) 1 4 k - linspace (0 : ℝ) 1 4 k ^ 2
      + 5 * linspace (0 : ℝ) 1 4 k ^ 3) 0 u = 1 + 2 * u - u ^ 2 + 5 * u ^ 3 := by
  have := transform_rows_reproduces_polynomials 4 7 (by norm_num) 1 2 (-1) 5 0 u (by norm_num) (by norm_num)
  simpa [sub_eq_add_neg] using this

/-- a point outside the canvas still carries unit weight (wrap indexing) -/
example : ∑ i ∈ range 3, ∑ j ∈ range 4, splatAt 3 4 (-0.25 : ℝ) (7.5 : ℝ) i j = 1 :=
  weights_unit (by norm_num) (by norm_num) _ _


/-- a history with calls that raise satisfies `noDrift`: `preprocess`, then an `align_affine` with an even
`num_tests` (ValueError), then an `align_translation` with a wrong-typed `upsample_factor` -/
example (m : AffineMeas ℝ) :
    noDrift (fromData [(6, 9), (6, 9)] [(30 : ℝ), 30])
      [.preprocess (.num (1/4)) (.str "median") (.num (1/2)) (.num 1),
       .alignAffine (1/100) 4 true .good .good false m] := by
  refine ⟨fun h => by simp [Op.isAlign] at h, fun _ => ?_, trivial⟩
  simp only [step]
  unfold alignAffine
  split <;> simp

/-- `validate_pad_value`: the typo "medain" is rejected, 0.25 and a 2-list for 2 images are accepted -/
example : validatePadValue 2 (PadArg.str "medain" : PadArg ℝ) = .error .valueError ∧
    validatePadValue 2 (PadArg.num (1/4) : PadArg ℝ) = .ok () ∧
    validatePadValue 2 (PadArg.list [.number, .number] : PadArg ℝ) = .ok () := by
  refine ⟨by simp [validatePadValue], ?_, by simp [validatePadValue]⟩
  rw [validate_pad_value_accepts_iff]; norm_num

/-- translation equivariance on a concrete bent 3-knot scan line -/
example (r c : ℕ) : coordsOf (translateImg ⟨4, 5, ⟨0, 1, 1, 0⟩, 3, fun r k => ((r : ℝ) + (k : ℝ) ^ 2, (k : ℝ))⟩ ((1 : ℝ) / 2, -2)) r c
    = ((coordsOf ⟨4, 5, ⟨0, 1, 1, 0⟩, 3, fun r k => ((r : ℝ) + (k : ℝ) ^ 2, (k : ℝ))⟩ r c).1 + 1 / 2,
       (coordsOf ⟨4, 5, ⟨0, 1, 1, 0⟩, 3, fun r k => ((r : ℝ) + (k : ℝ) ^ 2, (k : ℝ))⟩ r c).2 + -2) :=
  translation_moves_every_pixel_by_the_shift _ (by norm_num) _ r c

end QuantemModel.Props.C15
