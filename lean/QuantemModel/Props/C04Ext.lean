import QuantemModel.Props.C04
import QuantemModel.Model.DirectHalfsets
/-!
# C04 — growth round 6: half-set masks (`_make_checkerboard_bf_masks` / `_reconstruct_with_halfsets`)

The statement says "reconstructions from complementary sub-masks recombine (weighted by their aperture weights) to the
full-mask result".  The one place where the anchored code itself builds complementary sub-masks is the half-set split;
this file proves that the split is what the recombination theorem needs, for ANY splitting pattern (the checkerboard is
one instance), and composes front end (split + `_return_bf_context`) and core (`submask_recombine`):

* `split_are_submasks` — both halves are sub-masks of the construction mask (so `mapping_correct` applies to them);
* `split_disjoint_cover` — pointwise, a mask pixel is in exactly one half; a non-mask pixel in none;
* `split_rows_complementary` — the stack rows (`vbf_index_mapping`) of the two halves together are a permutation of ALL
  rows `0 … num_bf-1`: exactly the hypothesis `hS` of `submask_recombine`;
* `split_counts` — `num_bf1 + num_bf2 = num_bf`;
* `halfsets_recombine` — end to end: for a single-pass kernel the two half-set reconstructions recombine to the full one;
* `checkerboard_length`, `checkerboard_entry` — shape and closed form of the pattern; `halfsetContexts_ok`.
-/
namespace QuantemModel.Props.C04
open QuantemModel QuantemModel.DirectPtycho

/-! ## any splitting pattern -/

theorem subMask_zipWith_and (f : Bool → Bool) (mask pat : List Bool) (h : mask.length = pat.length) :
    SubMask mask (List.zipWith (fun m c => m && f c) mask pat) := by
  induction mask generalizing pat with
  | nil => cases pat with
    | nil => trivial
    | cons _ _ => simp at h
  | cons m ms ih => cases pat with
    | nil => simp at h
    | cons c cs =>
      simp only [List.length_cons, Nat.add_right_cancel_iff] at h
      refine ⟨?_, ih cs h⟩
      intro hs
      cases m <;> simp_all

/-- both halves are sub-masks of the mask that is split -/
theorem split_are_submasks (mask pat : List Bool) (h : mask.length = pat.length) :
    SubMask mask (splitBy mask pat).1 ∧ SubMask mask (splitBy mask pat).2 :=
  ⟨subMask_zipWith_and id mask pat h, subMask_zipWith_and (fun c => !c) mask pat h⟩

/-- pointwise: a pixel of the mask lies in exactly one half, a pixel outside in none -/
theorem split_disjoint_cover (mask pat : List Bool) (h : mask.length = pat.length) (p : Nat) (hp : p < mask.length) :
    ((splitBy mask pat).1.getD p false || (splitBy mask pat).2.getD p false) = mask.getD p false ∧
    ((splitBy mask pat).1.getD p false && (splitBy mask pat).2.getD p false) = false := by
  have hp' : p < pat.length := h ▸ hp
  simp only [splitBy, List.getD_eq_getElem?_getD, List.getElem?_zipWith, List.getElem?_eq_getElem hp,
    List.getElem?_eq_getElem hp', Option.getD_some]
  cases mask[p] <;> cases pat[p] <;> simp

theorem select_split_fst (mask pat : List Bool) :
    select mask (List.zipWith (fun m c => m && c) mask pat) = select mask pat := by
  induction mask generalizing pat with
  | nil => cases pat <;> rfl
  | cons m ms ih => cases pat with
    | nil => cases m <;> rfl
    | cons c cs => cases m <;> simp [select, ih]

theorem select_split_snd (mask pat : List Bool) :
    select mask (List.zipWith (fun m c => m && !c) mask pat) = (select mask pat).map (fun c => !c) := by
  induction mask generalizing pat with
  | nil => cases pat <;> rfl
  | cons m ms ih => cases pat with
    | nil => cases m <;> rfl
    | cons c cs => cases m <;> simp [select, ih]

theorem positionsFrom_compl_perm (k : Nat) (s : List Bool) :
    (positionsFrom k s ++ positionsFrom k (s.map fun c => !c)).Perm (List.range' k s.length) := by
  induction s generalizing k with
  | nil => simp [positionsFrom]
  | cons b bs ih =>
    cases b
    · simp only [positionsFrom, List.map_cons, Bool.not_false, Bool.false_eq_true, if_false, if_true,
        List.length_cons, List.range'_succ]
      exact (List.perm_middle).trans ((ih (k + 1)).cons k)
    · simp only [positionsFrom, List.map_cons, Bool.not_true, Bool.false_eq_true, if_false, if_true,
        List.length_cons, List.range'_succ, List.cons_append]
      exact (ih (k + 1)).cons k

theorem length_select_eq (mask pat : List Bool) (h : mask.length = pat.length) :
    (select mask pat).length = (positions mask).length := by
  unfold positions
  suffices H : ∀ k, (select mask pat).length = (positionsFrom k mask).length from H 0
  induction mask generalizing pat with
  | nil => cases pat <;> simp [select, positionsFrom]
  | cons m ms ih => cases pat with
    | nil => simp at h
    | cons c cs =>
      simp only [List.length_cons, Nat.add_right_cancel_iff] at h
      intro k
      cases m <;> simp [select, positionsFrom, ih cs h (k + 1)]

/-- the stack rows (`vbf_index_mapping`) of the two halves are, together, ALL rows of the stack, each once:
the hypothesis `hS` of `submask_recombine` with `S = range num_bf` -/
theorem split_rows_complementary (mask pat : List Bool) (h : mask.length = pat.length) :
    (indexMapping mask (splitBy mask pat).1 ++ indexMapping mask (splitBy mask pat).2).Perm
      (List.range (positions mask).length) := by
  unfold indexMapping splitBy positions
  simp only
  rw [select_split_fst, select_split_snd]
  have := positionsFrom_compl_perm 0 (select mask pat)
  rw [length_select_eq mask pat h] at this
  simpa [List.range_eq_range', positions] using this

/-- `num_bf` of the halves add up -/
theorem split_counts (mask pat : List Bool) (h : mask.length = pat.length) :
    (positions (splitBy mask pat).1).length + (positions (splitBy mask pat).2).length = (positions mask).length := by
  have h1 := (mapping_in_range mask _ (split_are_submasks mask pat h).1).1
  have h2 := (mapping_in_range mask _ (split_are_submasks mask pat h).2).1
  have := (split_rows_complementary mask pat h).length_eq
  simp only [List.length_append, List.length_range] at this
  omega

/-! ## the checkerboard pattern -/

theorem checkerboard_length (gr gc : Nat) : (checkerboard gr gc).length = gr * gc := by
  simp [checkerboard]

/-- entry `(i, j)`: parity of the `ifftshift`-ed coordinates -/
theorem checkerboard_entry (gr gc i j : Nat) (hi : i < gr) (hj : j < gc) :
    (checkerboard gr gc).getD (i * gc + j) false = (((i + gr / 2) % gr + (j + gc / 2) % gc) % 2 == 1) := by
  have hlt : i * gc + j < gr * gc := by
    calc i * gc + j < i * gc + gc := by omega
      _ = (i + 1) * gc := by ring
      _ ≤ gr * gc := Nat.mul_le_mul_right _ hi
  have hgc : 0 < gc := by omega
  have hd : (i * gc + j) / gc = i := by
    rw [Nat.add_comm, Nat.add_mul_div_right _ _ hgc, Nat.div_eq_of_lt hj, Nat.zero_add]
  have hm : (i * gc + j) % gc = j := by
    rw [Nat.add_comm, Nat.add_mul_mod_self_right, Nat.mod_eq_of_lt hj]
  simp only [checkerboard, List.getD_eq_getElem?_getD, List.getElem?_map, List.getElem?_range hlt, Option.map_some,
    Option.getD_some, hd, hm]

/-- on a detector mask of the right size the two `_return_bf_context` calls of the half-set reconstruction succeed
and hand out complementary row lists -/
theorem halfsetContexts_ok (gr gc : Nat) (mask : List Bool) (h : mask.length = gr * gc) :
    ∃ b1 b2, halfsetContexts gr gc mask = .ok (b1, b2) ∧
      (b1.mapping ++ b2.mapping).Perm (List.range (positions mask).length) ∧
      b1.numBf + b2.numBf = (positions mask).length := by
  have hl : mask.length = (checkerboard gr gc).length := by rw [checkerboard_length, h]
  have l1 : mask.length = (halfsetMasks gr gc mask).1.length := by
    simp [halfsetMasks, splitBy, ← hl]
  have l2 : mask.length = (halfsetMasks gr gc mask).2.length := by
    simp [halfsetMasks, splitBy, ← hl]
  let pos1 := positions (halfsetMasks gr gc mask).1
  let pos2 := positions (halfsetMasks gr gc mask).2
  refine ⟨{ indsI := pos1.map (· / gc), indsJ := pos1.map (· % gc), numBf := pos1.length,
            mapping := indexMapping mask (halfsetMasks gr gc mask).1 },
          { indsI := pos2.map (· / gc), indsJ := pos2.map (· % gc), numBf := pos2.length,
            mapping := indexMapping mask (halfsetMasks gr gc mask).2 }, ?_,
          split_rows_complementary mask _ hl, split_counts mask _ hl⟩
  unfold halfsetContexts bfContext
  simp only [bind, Except.bind, pure, Except.pure]
  rw [if_neg (by simpa using l1), if_neg (by simpa using l2)]

/-! ## composition: split + bf context + streaming core -/

/--
**Half-set recombination (single-pass kernels).**  Split the construction mask by ANY pattern (the checkerboard of
`_make_checkerboard_bf_masks` in particular), let `_return_bf_context` compute the stack rows of the two halves, and
reconstruct each half and the full mask with arbitrary schedules and non-zero aperture weights: then
`W_1·bf_1 + W_2·bf_2 = W·bf`.
-/
theorem halfsets_recombine (F : Fourier ℝ) (k : Kernel) (hk : k.twoPass = false) (pb : Problem ℝ)
    (hlen : ∀ s, (singlePassValue F pb s).length = pb.rows * pb.cols)
    (mask pat : List Bool) (hmp : mask.length = pat.length)
    (W1 W2 W : ℝ) (h1 : W1 ≠ 0) (h2 : W2 ≠ 0) (hW : W ≠ 0)
    (s1 s2 sS : List (List Nat))
    (hs1 : s1.flatten.Perm (List.range (indexMapping mask (splitBy mask pat).1).length))
    (hs2 : s2.flatten.Perm (List.range (indexMapping mask (splitBy mask pat).2).length))
    (hsS : sS.flatten.Perm (List.range (List.range (positions mask).length).length)) :
    addI (smulI W1 (correctedBf (pb.rows * pb.cols)
            (reconstruct F k (subProblem pb (indexMapping mask (splitBy mask pat).1) W1) s1)))
         (smulI W2 (correctedBf (pb.rows * pb.cols)
            (reconstruct F k (subProblem pb (indexMapping mask (splitBy mask pat).2) W2) s2))) =
      smulI W (correctedBf (pb.rows * pb.cols)
        (reconstruct F k (subProblem pb (List.range (positions mask).length) W) sS)) :=
  submask_recombine F k hk pb hlen _ _ _ (split_rows_complementary mask pat hmp) W1 W2 W h1 h2 hW s1 s2 sS hs1 hs2 hsS

/-! ## non-vacuity -/

example : checkerboard 3 4 = [true, false, true, false, false, true, false, true, false, true, false, true] := by decide
example : halfsetMasks 2 3 [true, true, false, true, false, true] =
    ([false, true, false, true, false, false], [true, false, false, false, false, true]) := by decide
example : (indexMapping [true, true, false, true, false, true] [false, true, false, true, false, false] ++
    indexMapping [true, true, false, true, false, true] [true, false, false, false, false, true]).Perm [0, 1, 2, 3] := by
  decide
example : ∃ b1 b2, halfsetContexts 2 3 [true, true, false, true, false, true] = .ok (b1, b2) ∧ b1.mapping = [1, 2] ∧
    b2.mapping = [0, 3] := ⟨_, _, rfl, rfl, rfl⟩

end QuantemModel.Props.C04
