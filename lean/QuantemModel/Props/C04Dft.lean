import QuantemModel.Props.C04
import QuantemModel.Lemmas.DirectPtychoDft
/-!
# C04 — growth round 6: the two DFT identities, proved for the model's executable FFT pair

`Lemmas/DirectPtychoDft.lean` proves, for `Fourier.dft` (the flat-array separable DFT the driver runs), inversion
(`ifft2 ∘ fft2 = id`, from roots-of-unity orthogonality) and the comb identity (DC bin = N·mean; tiled spectrum = spectrum of
the zero-interleaved image).  With them the `_partial` parallax theorems of `Props/C04.lean` lose their hypotheses on the FFT
pair, and summing over the mask gives the two analytic limits of the statement for the WHOLE reconstruction:

* `fft_pair_inverts`, `fft_pair_comb_identity` — the two identities;
* `parallax_zero_pixel`, `parallax_shift_pixel` — per bright-field pixel, no hypothesis on the FFT pair left;
* `parallax_zero_full` — zero aberrations, no sign flip, no filter: `corrected_bf` of the whole model (kernel branch, gradient,
  sign, envelope, weight translated from the source; ANY valid schedule) = (Σ_i mean-subtracted virtual image i, on every
  `u`-th point of the finer grid) / (total aperture weight of the mask);
* `parallax_shift_full` — with defocus / astigmatism: `corrected_bf` = `prlxClosed`, the independent closed form (Σ_i image i
  translated by the geometric shift of its detector pixel) / W that the driver evaluates and the harness compares with the
  real code on every run.
-/
namespace QuantemModel.Props.C04
open QuantemModel QuantemModel.DirectPtycho

/-- `ifft2 (fft2 x) = x` for the model's executable FFT pair, every grid, every image of the grid's size -/
theorem fft_pair_inverts (r c : Nat) (x : Img (Cx ℝ)) (h : x.length = r * c) :
    (Fourier.dft : Fourier ℝ).ifft2 r c ((Fourier.dft : Fourier ℝ).fft2 r c x) = x := dft_inverse r c x h

/-- zeroing the DC bin = subtracting the mean; `u × u` tiling of the spectrum = zero-interleaving of the image -/
theorem fft_pair_comb_identity (u r c : Nat) : (Fourier.dft : Fourier ℝ).CombIdentity u r c := dft_combIdentity u r c

example : ((Fourier.dft : Fourier ℝ).fft2 2 3 [Cx.one, Cx.zero, Cx.zero, Cx.zero, Cx.zero, Cx.zero]).length = 2 * 3 :=
  dft_fft2_length 2 3 _

/-- `parallax_shift_full_partial` with the FFT-pair hypotheses discharged -/
theorem parallax_shift_pixel (g : KGeom ℝ) (pix : List (Nat × Nat)) (mapping : List Nat)
    (hflip : g.flip = false) (hl : g.qLow = none ∨ g.qLow = some 0) (hh : g.qHigh = none ∨ g.qHigh = some 0)
    (h0 : g.detRows ≠ 0) (h1 : g.detCols ≠ 0) (r0 : g.rs0 ≠ 0) (r1 : g.rs1 ≠ 0)
    (hlow : LowOrder g.coefs) (hab : Generated.DirectKernel.hasAny g.coefs ["C10", "C12", "phi12"] = true)
    (hdx : g.sx / (g.u : ℝ) ≠ 0) (hdy : g.sy / (g.u : ℝ) ≠ 0)
    (stack : List (Img ℝ)) (i : Nat) (hi : i < pix.length) (hm : mapping.getD i 0 < stack.length)
    (hvl : (stack.getD (mapping.getD i 0) []).length = g.scanRows * g.scanCols) (power : Img ℝ) :
    itemValue Fourier.dft .prlx (problemOfStack Fourier.dft (geometryOf g .prlx pix mapping) stack) power i =
      (translate Fourier.dft (g.u * g.scanRows) (g.u * g.scanCols)
        (comb g.u g.scanRows g.scanCols (meanSub (stack.getD (mapping.getD i 0) [])))
        ((prlxShift (prlxGeomOf g) pix[i].1 pix[i].2).1 / (g.sx / (g.u : ℝ)))
        ((prlxShift (prlxGeomOf g) pix[i].1 pix[i].2).2 / (g.sy / (g.u : ℝ)))).map (· / bfWeights g pix) :=
  parallax_shift_full_partial Fourier.dft g pix mapping (dft_combIdentity _ _ _) (fun y => dft_fft2_length _ _ y)
    hflip hl hh h0 h1 r0 r1 hlow hab hdx hdy stack i hi hm hvl power

/-- `parallax_zero_full_partial` with the FFT-pair hypotheses discharged -/
theorem parallax_zero_pixel (g : KGeom ℝ) (pix : List (Nat × Nat)) (mapping : List Nat)
    (hflip : g.flip = false) (hl : g.qLow = none ∨ g.qLow = some 0) (hh : g.qHigh = none ∨ g.qHigh = some 0)
    (hlow : LowOrder g.coefs) (hab : Generated.DirectKernel.hasAny g.coefs ["C10", "C12", "phi12"] = false)
    (stack : List (Img ℝ)) (i : Nat) (hi : i < pix.length) (hm : mapping.getD i 0 < stack.length)
    (hvl : (stack.getD (mapping.getD i 0) []).length = g.scanRows * g.scanCols) (power : Img ℝ) :
    itemValue Fourier.dft .prlx (problemOfStack Fourier.dft (geometryOf g .prlx pix mapping) stack) power i =
      (comb g.u g.scanRows g.scanCols (meanSub (stack.getD (mapping.getD i 0) []))).map (· / bfWeights g pix) :=
  parallax_zero_full_partial Fourier.dft g pix mapping (dft_combIdentity _ _ _) (fun y => dft_fft2_length _ _ y)
    (fun y hy => dft_inverse_real _ _ y hy) hflip hl hh hlow hab stack i hi hm hvl power

/-- the corrected stack of the whole model under a valid schedule, row by row -/
theorem corrected_bf_eq_sum (g : KGeom ℝ) (pix : List (Nat × Nat)) (mapping : List Nat) (hmap : mapping.length = pix.length)
    (stack : List (Img ℝ)) (batches : List (List Nat)) (hperm : batches.flatten.Perm (List.range pix.length))
    (T : Nat → Img ℝ)
    (hT : ∀ i < pix.length, ∀ power, itemValue Fourier.dft .prlx
      (problemOfStack Fourier.dft (geometryOf g .prlx pix mapping) stack) power i = (T i).map (· / bfWeights g pix)) :
    correctedBf ((g.u * g.scanRows) * (g.u * g.scanCols)) (reconstructFull Fourier.dft g .prlx pix mapping stack batches) =
      (sumImgs ((List.range pix.length).map T) (zeros ((g.u * g.scanRows) * (g.u * g.scanCols)))).map
        (· / bfWeights g pix) := by
  have hnd : batches.flatten.Nodup := hperm.nodup_iff.mpr List.nodup_range
  unfold reconstructFull
  rw [reconstruct_eq _ _ _ batches hnd]
  have hn : (problemOfStack Fourier.dft (geometryOf g .prlx pix mapping) stack).n = pix.length := hmap
  rw [hn]
  have hrows : ((List.range pix.length).map fun i =>
        if i ∈ batches.flatten then
          some (itemValue Fourier.dft .prlx (problemOfStack Fourier.dft (geometryOf g .prlx pix mapping) stack)
            (batches.foldl (fun p B => addI p (batchPower
              (problemOfStack Fourier.dft (geometryOf g .prlx pix mapping) stack) B))
              (zeros ((problemOfStack Fourier.dft (geometryOf g .prlx pix mapping) stack).rows *
                (problemOfStack Fourier.dft (geometryOf g .prlx pix mapping) stack).cols))) i)
        else none) =
      (((List.range pix.length).map T).map (List.map (· / bfWeights g pix))).map some := by
    rw [List.map_map, List.map_map]
    apply List.map_congr_left
    intro i hi
    have hi' := List.mem_range.mp hi
    have hmem : i ∈ batches.flatten := hperm.mem_iff.mpr hi
    simp only [hmem, if_true, Function.comp]
    rw [hT i hi']
  rw [hrows, correctedBf_some]
  conv_lhs => rw [zeros_div (bfWeights g pix), sumImgs_div]

/--
**Zero-aberration parallax, the whole reconstruction.**  No aberration coefficient, `parallax_flip_phase=False`, no filter:
for every mask (`pix`, `mapping` from `_return_bf_context`), every stack with rows of the scan's size, every upsampling factor
and ANY valid schedule, `corrected_bf` of the model built from the translated source equals the sum of the mean-subtracted
virtual images (on every `u`-th point of the finer grid) divided by the mask's total aperture weight.
-/
theorem parallax_zero_full (g : KGeom ℝ) (pix : List (Nat × Nat)) (mapping : List Nat) (hmap : mapping.length = pix.length)
    (hflip : g.flip = false) (hl : g.qLow = none ∨ g.qLow = some 0) (hh : g.qHigh = none ∨ g.qHigh = some 0)
    (hlow : LowOrder g.coefs) (hab : Generated.DirectKernel.hasAny g.coefs ["C10", "C12", "phi12"] = false)
    (stack : List (Img ℝ)) (hm : ∀ i < pix.length, mapping.getD i 0 < stack.length)
    (hvl : ∀ i < pix.length, (stack.getD (mapping.getD i 0) []).length = g.scanRows * g.scanCols)
    (batches : List (List Nat)) (hperm : batches.flatten.Perm (List.range pix.length)) :
    correctedBf ((g.u * g.scanRows) * (g.u * g.scanCols)) (reconstructFull Fourier.dft g .prlx pix mapping stack batches) =
      (sumImgs ((List.range pix.length).map fun i =>
          comb g.u g.scanRows g.scanCols (meanSub (stack.getD (mapping.getD i 0) [])))
        (zeros ((g.u * g.scanRows) * (g.u * g.scanCols)))).map (· / bfWeights g pix) :=
  corrected_bf_eq_sum g pix mapping hmap stack batches hperm _
    (fun i hi power => parallax_zero_pixel g pix mapping hflip hl hh hlow hab stack i hi (hm i hi) (hvl i hi) power)

/--
**Parallax with defocus / astigmatism, the whole reconstruction.**  First-order coefficients only, `parallax_flip_phase=False`,
no filter: for every mask, stack, rotation, upsampling factor and ANY valid schedule, `corrected_bf` of the model built from
the translated source IS the independent closed form `prlxClosed` — the sum of the mean-subtracted virtual images, each
translated by the geometric shift `prlxShift` of its detector pixel, divided by the mask's total aperture weight — which the
driver evaluates (`prlx_closed`) and the harness compares with the real code on every run.
-/
theorem parallax_shift_full (g : KGeom ℝ) (pix : List (Nat × Nat)) (mapping : List Nat) (hmap : mapping.length = pix.length)
    (hflip : g.flip = false) (hl : g.qLow = none ∨ g.qLow = some 0) (hh : g.qHigh = none ∨ g.qHigh = some 0)
    (h0 : g.detRows ≠ 0) (h1 : g.detCols ≠ 0) (r0 : g.rs0 ≠ 0) (r1 : g.rs1 ≠ 0)
    (hlow : LowOrder g.coefs) (hab : Generated.DirectKernel.hasAny g.coefs ["C10", "C12", "phi12"] = true)
    (hdx : g.sx / (g.u : ℝ) ≠ 0) (hdy : g.sy / (g.u : ℝ) ≠ 0)
    (stack : List (Img ℝ)) (hm : ∀ i < pix.length, mapping.getD i 0 < stack.length)
    (hvl : ∀ i < pix.length, (stack.getD (mapping.getD i 0) []).length = g.scanRows * g.scanCols)
    (batches : List (List Nat)) (hperm : batches.flatten.Perm (List.range pix.length)) :
    correctedBf ((g.u * g.scanRows) * (g.u * g.scanCols)) (reconstructFull Fourier.dft g .prlx pix mapping stack batches) =
      prlxClosed Fourier.dft (prlxGeomOf g) (bfWeights g pix) pix (mapping.map fun t => stack.getD t []) := by
  rw [corrected_bf_eq_sum g pix mapping hmap stack batches hperm
    (fun i => translate Fourier.dft (g.u * g.scanRows) (g.u * g.scanCols)
        (comb g.u g.scanRows g.scanCols (meanSub (stack.getD (mapping.getD i 0) [])))
        ((prlxShift (prlxGeomOf g) (pix.getD i (0, 0)).1 (pix.getD i (0, 0)).2).1 / (g.sx / (g.u : ℝ)))
        ((prlxShift (prlxGeomOf g) (pix.getD i (0, 0)).1 (pix.getD i (0, 0)).2).2 / (g.sy / (g.u : ℝ))))
    (fun i hi power => by
      rw [parallax_shift_pixel g pix mapping hflip hl hh h0 h1 r0 r1 hlow hab hdx hdy stack i hi (hm i hi) (hvl i hi) power]
      simp [List.getD_eq_getElem?_getD, hi])]
  unfold prlxClosed sumImgs
  simp only [prlxGeomOf, NumReal.ofNat_eq]
  congr 2
  apply List.ext_getElem
  · simp [hmap]
  · intro j hj1 hj2
    have hj : j < pix.length := by simpa using hj1
    have hjm : j < mapping.length := hmap ▸ hj
    simp [List.getD_eq_getElem?_getD, hj, hjm]

/-! ## non-vacuity: the hypotheses of the two full theorems are satisfiable together -/

/-- a two-pixel mask on a 3 × 3 detector, a 1 × 2 scan, upsampling 2, rotation 2.2 rad; `coefs` is the parameter -/
noncomputable def exampleGeom (coefs : List (String × ℝ)) : KGeom ℝ :=
  { wavelength := 0.04, semiangle := 20, soft := true, rs0 := 0.2, rs1 := 0.2, detRows := 3, detCols := 3, rotation := 2.2,
    coefs := coefs, scanRows := 1, scanCols := 2, sx := 0.7, sy := 0.5, u := 2, qLow := none, qHigh := some 0, order := 12,
    eps := 0.1, flip := false }

example : correctedBf ((2 * 1) * (2 * 2))
      (reconstructFull Fourier.dft (exampleGeom []) .prlx [(0, 0), (2, 1)] [1, 0] [[3, 5], [1, 2]] [[1], [0]]) =
    (sumImgs ((List.range 2).map fun i => comb 2 1 2 (meanSub (([[3, 5], [1, 2]] : List (Img ℝ)).getD (([1, 0] : List Nat).getD i 0) [])))
      (zeros ((2 * 1) * (2 * 2)))).map (· / bfWeights (exampleGeom []) [(0, 0), (2, 1)]) :=
  parallax_zero_full (exampleGeom []) [(0, 0), (2, 1)] [1, 0] rfl rfl (Or.inl rfl) (Or.inr rfl)
    (by refine ⟨?_, ?_, ?_, ?_⟩ <;> simp [exampleGeom, Generated.DirectKernel.hasAny, Generated.DirectKernel.hasKey])
    (by simp [exampleGeom, Generated.DirectKernel.hasAny, Generated.DirectKernel.hasKey])
    [[3, 5], [1, 2]]
    (by intro i hi; have : i = 0 ∨ i = 1 := by simp at hi; omega
        rcases this with rfl | rfl <;> simp)
    (by intro i hi; have : i = 0 ∨ i = 1 := by simp at hi; omega
        rcases this with rfl | rfl <;> simp [exampleGeom])
    [[1], [0]] (by decide)

example : correctedBf ((2 * 1) * (2 * 2))
      (reconstructFull Fourier.dft (exampleGeom [("C10", 50), ("C12", -20), ("phi12", 0.4)]) .prlx [(0, 0), (2, 1)] [1, 0]
        [[3, 5], [1, 2]] [[1, 0]]) =
    prlxClosed Fourier.dft (prlxGeomOf (exampleGeom [("C10", 50), ("C12", -20), ("phi12", 0.4)]))
      (bfWeights (exampleGeom [("C10", 50), ("C12", -20), ("phi12", 0.4)]) [(0, 0), (2, 1)]) [(0, 0), (2, 1)]
      (([1, 0] : List Nat).map fun t => ([[3, 5], [1, 2]] : List (Img ℝ)).getD t []) :=
  parallax_shift_full (exampleGeom [("C10", 50), ("C12", -20), ("phi12", 0.4)]) [(0, 0), (2, 1)] [1, 0] rfl rfl (Or.inl rfl)
    (Or.inr rfl) (by simp [exampleGeom]) (by simp [exampleGeom]) (by simp [exampleGeom]; norm_num)
    (by simp [exampleGeom]; norm_num)
    (by refine ⟨?_, ?_, ?_, ?_⟩ <;> simp [exampleGeom, Generated.DirectKernel.hasAny, Generated.DirectKernel.hasKey])
    (by simp [exampleGeom, Generated.DirectKernel.hasAny, Generated.DirectKernel.hasKey])
    (by simp [exampleGeom]; norm_num) (by simp [exampleGeom]; norm_num)
    [[3, 5], [1, 2]]
    (by intro i hi; have : i = 0 ∨ i = 1 := by simp at hi; omega
        rcases this with rfl | rfl <;> simp)
    (by intro i hi; have : i = 0 ∨ i = 1 := by simp at hi; omega
        rcases this with rfl | rfl <;> simp [exampleGeom])
    [[1, 0]] (by decide)

end QuantemModel.Props.C04
