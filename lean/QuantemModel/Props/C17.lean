import QuantemModel.Lemmas.Unwrap
/-!
C17 — reliability-sorted phase unwrapping (Model/Unwrap.lean) recovers any Itoh-smooth phase
up to one additive constant per connected component of the masked edge graph.

Conventions.  `half` is π in the units of the carrier (`half = Real.pi` is the code; the
correspondence run executes the same definitions at `Rat` with `half = 1`).  Every theorem is
for ALL `half > 0`, all sizes, all edge lists **in every order** (the merge order is an input of
the model: reliabilities and `argsort` ties cannot matter), with self-loops and duplicate edges
allowed.  Pixels are flat indices `< N`.  `Conn pairs a b` is connectivity in the undirected
multigraph of the pixel pairs.  Only property theorems and non-vacuity examples live here.
-/
namespace QuantemModel.Props.C17
open QuantemModel QuantemModel.Unwrap QuantemModel.Unwrap.UF

/-! ## 1. Union–find: termination and offset consistency -/

/-- **Termination of `find_root_and_offset` / `_final_offsets`.**  From the initial structure,
after the unions of ANY edge list (any order, any increments, duplicates and self-loops
included) the `while parent[root] != root` walk from every pixel stops at a root within `N`
tests: the model's fuel never runs out (`none` = "Python would still be looping"), and neither
does any `union` on the way (`unionAll` is `some`).  Reason (field `rank_lt` of `WF`): rank
strictly increases along every parent link. -/
theorem find_terminates (N : Nat) (es : List Edge) (hin : ∀ e ∈ es, e.i1 < N ∧ e.i2 < N) :
    ∃ u, unionAll (UF.init N) es = some u ∧ WF u N ∧
      ∀ x, x < N → ∃ r t, u.find x = some (r, t) ∧ r < N ∧ u.par r = r := by
  obtain ⟨u, _, _, hu, hwf, _⟩ := offsets_spec es hin
  refine ⟨u, hu, hwf, fun x hx => ?_⟩
  obtain ⟨r, t, h⟩ := UF.find_terminates hwf x hx
  exact ⟨r, t, h, UF.find_root hwf hx h⟩

/-- **Union–find offset invariant** (the heart of C17).  Let the increments of the processed
edges be the differences of *some* integer field `n` (`inc = n i1 - n i2` — the code's sign
convention; under Itoh `n` is the true wrap count, see `itoh`).  Then after ANY prefix/order of
unions: every non-root pixel stores `n pixel - n parent` (`Consistent`), hence the offset
accumulated by `find` telescopes to `n x - n root`, i.e. `offset_to_root x - n x` is the same
number `-n root` for every pixel of a tree. -/
theorem uf_offset_invariant (N : Nat) (es : List Edge) (hin : ∀ e ∈ es, e.i1 < N ∧ e.i2 < N)
    (n : Nat → Int) (hn : ∀ e ∈ es, e.inc = n e.i1 - n e.i2) :
    ∃ u, unionAll (UF.init N) es = some u ∧ WF u N ∧ Consistent u N n ∧
      ∀ x r t, x < N → u.find x = some (r, t) → t = n x - n r := by
  obtain ⟨u, _, _, hu, hwf, _, _, _, _, hcons⟩ := offsets_spec es hin
  obtain ⟨hc, _⟩ := hcons n hn
  exact ⟨u, hu, hwf, hc, fun x r t hx h => UF.find_consistent hwf hc hx h⟩

/-- One `union` step preserves all of it, from ANY well-formed state (not only reachable ones):
stays well-formed, stays consistent with every `n` the new increment is a difference of, joins
the two ends, never separates pixels already joined. -/
theorem union_preserves (N : Nat) (u : UF) (hwf : WF u N) (x y : Nat) (inc : Int) (hx : x < N) (hy : y < N) :
    ∃ u', u.union x y inc = some u' ∧ WF u' N ∧
      (∀ n : Nat → Int, Consistent u N n → inc = n x - n y → Consistent u' N n) ∧
      SameRoot u' x y ∧ (∀ a b, a < N → b < N → SameRoot u a b → SameRoot u' a b) :=
  UF.union_step hwf inc hx hy

/-! ## 2. Itoh: the increments are differences of the true wrap counts -/

/-- `_find_wrap` of two wrapped values returns the difference of their wrap counts whenever the
true values differ by less than π.  (`[-half, half]` closed: covers `[-π, π)` of `_wrap_to_pi`
and `(-π, π]` of `torch.angle`.) -/
theorem itoh (half : ℝ) (hh : 0 < half) (pa pb wa wb : ℝ) (na nb : ℤ)
    (ha : wa = pa - 2 * half * na) (hb : wb = pb - 2 * half * nb)
    (hra : -half ≤ wa ∧ wa ≤ half) (hrb : -half ≤ wb ∧ wb ≤ half)
    (hitoh : |pa - pb| < half) :
    findWrap half wa wb = na - nb :=
  itoh_findWrap hh ha hb hra hrb hitoh

/-! ## 3. The unwrapper -/

/-- On the pixels in `S`, `w` is `φ` wrapped: moved by whole multiples of `2·half` into
`[-half, half]`.  (Nothing is asked of pixels outside `S` — e.g. outside the mask.) -/
def IsWrapOn (half : ℝ) (S : Nat → Prop) (w φ : Nat → ℝ) (n : Nat → ℤ) : Prop :=
  ∀ i, S i → w i = φ i - 2 * half * n i ∧ -half ≤ w i ∧ w i ≤ half

/-- **unwrap_mod** — for EVERY input (no smoothness, any edges in any order): the run
terminates, and the result differs from the input by integer multiples of `2·half` (= 2π) plus
one single constant (the subtracted mean). -/
theorem unwrap_mod (half : ℝ) (N : Nat) (w : Nat → ℝ) (order : List (Nat × Nat))
    (hin : ∀ p ∈ order, p.1 < N ∧ p.2 < N) :
    ∃ (out : List ℝ) (k : Nat → ℤ) (c : ℝ),
      unwrapSorted half N w (edgesOfPairs half w order) = some out ∧ out.length = N ∧
      ∀ i, i < N → out.getD i 0 - w i = 2 * half * (k i : ℝ) - c := by
  have hin' : ∀ e ∈ edgesOfPairs half w order, e.i1 < N ∧ e.i2 < N := by
    intro e he
    obtain ⟨p, hp, rfl⟩ := (mem_edgesOfPairs half w order e).mp he
    exact hin p hp
  obtain ⟨u, incs, _, hu, _, hincs, _, _, _, _⟩ := offsets_spec _ hin'
  obtain ⟨c, hlen, hout⟩ := assemble_spec half N w incs
  refine ⟨assemble half N w incs, fun i => incs.getD i 0, c, ?_, hlen, ?_⟩
  · simp [unwrapSorted, hu, hincs]
  · intro i hi
    rw [hout i hi]; ring

/-- **unwrap_correct** — for every size, every list of pixel pairs (every mask, wrap-around or
not, self-loops/duplicates included) merged in EVERY order: if the true field `φ` satisfies the
Itoh condition on every pair used and `w` is its wrapped version on the pixels that occur in
pairs (values elsewhere are arbitrary), then the unwrapper terminates and `out - φ` takes one
and the same value on all pixels of a connected component of the pair graph. -/
theorem unwrap_correct (half : ℝ) (hh : 0 < half) (N : Nat) (φ w : Nat → ℝ) (n : Nat → ℤ)
    (order : List (Nat × Nat)) (hin : ∀ p ∈ order, p.1 < N ∧ p.2 < N)
    (hwrap : IsWrapOn half (Touched order) w φ n)
    (hitoh : ∀ p ∈ order, |φ p.1 - φ p.2| < half) :
    ∃ out : List ℝ,
      unwrapSorted half N w (edgesOfPairs half w order) = some out ∧ out.length = N ∧
      ∀ a b, a < N → b < N → Conn order a b → out.getD a 0 - φ a = out.getD b 0 - φ b := by
  have hin' : ∀ e ∈ edgesOfPairs half w order, e.i1 < N ∧ e.i2 < N := by
    intro e he
    obtain ⟨p, hp, rfl⟩ := (mem_edgesOfPairs half w order e).mp he
    exact hin p hp
  obtain ⟨u, incs, root, hu, _, hincs, _, _, hroot, hcons⟩ := offsets_spec _ hin'
  have hn : ∀ e ∈ edgesOfPairs half w order, e.inc = n e.i1 - n e.i2 := by
    intro e he
    obtain ⟨p, hp, rfl⟩ := (mem_edgesOfPairs half w order e).mp he
    obtain ⟨ha, hra⟩ := hwrap p.1 ⟨p, hp, Or.inl rfl⟩
    obtain ⟨hb, hrb⟩ := hwrap p.2 ⟨p, hp, Or.inr rfl⟩
    exact itoh_findWrap hh ha hb hra hrb (hitoh p hp)
  obtain ⟨_, hoff⟩ := hcons n hn
  obtain ⟨c, hlen, hout⟩ := assemble_spec half N w incs
  refine ⟨assemble half N w incs, by simp [unwrapSorted, hu, hincs], hlen, ?_⟩
  intro a b ha hb hconn
  rcases conn_touched hconn with rfl | ⟨ta, tb⟩
  · rfl
  have hr : root a = root b := hroot a b ha hb ((conn_iff_edges half w order a b).mp hconn)
  rw [hout a ha, hout b hb, hoff a ha, hoff b hb, (hwrap a ta).1, (hwrap b tb).1, hr]
  push_cast
  ring

/-- **unwrap_correct on the pixel grid**: `unwrap_phase_2d_torch(wrap φ, mask, wrap_around)` for
every `H × W`, every mask, bounded or periodic, and every merge order the sort could produce
(`order` any permutation of the masked neighbour pairs): `out - φ` is constant on each connected
component of the masked edge graph.  `w` has to be the wrapped `φ` only INSIDE the mask (the
bright-field embedding puts zeros outside); `grid_is_4_neighbour_*` below say what the graph is. -/
theorem unwrap_correct_grid (half : ℝ) (hh : 0 < half) (H W : Nat) (mask : Nat → Bool) (wrap : Bool)
    (φ w : Nat → ℝ) (n : Nat → ℤ) (order : List (Nat × Nat))
    (hperm : order.Perm (maskedPairs H W mask wrap))
    (hwrap : IsWrapOn half (fun i => i < H * W ∧ mask i = true) w φ n)
    (hitoh : ∀ p ∈ maskedPairs H W mask wrap, |φ p.1 - φ p.2| < half) :
    ∃ out : List ℝ,
      unwrapPhase2d half H W w order = some out ∧ out.length = H * W ∧
      ∀ a b, a < H * W → b < H * W → Conn (maskedPairs H W mask wrap) a b →
        out.getD a 0 - φ a = out.getD b 0 - φ b := by
  have hin : ∀ p ∈ order, p.1 < H * W ∧ p.2 < H * W :=
    fun p hp => maskedPairs_lt H W mask wrap p (hperm.mem_iff.mp hp)
  have hwrap' : IsWrapOn half (Touched order) w φ n := by
    rintro i ⟨p, hp, hi⟩
    have hp' := hperm.mem_iff.mp hp
    have hm := maskedPairs_mask H W mask wrap p hp'
    have hl := maskedPairs_lt H W mask wrap p hp'
    rcases hi with rfl | rfl
    · exact hwrap _ ⟨hl.1, hm.1⟩
    · exact hwrap _ ⟨hl.2, hm.2⟩
  obtain ⟨out, h1, h2, h3⟩ := unwrap_correct half hh (H * W) φ w n order hin hwrap'
    (fun p hp => hitoh p (hperm.mem_iff.mp hp))
  exact ⟨out, h1, h2, fun a b ha hb hc => h3 a b ha hb ((conn_perm hperm a b).mpr hc)⟩

/-- The graph whose components the theorems speak of is the 4-neighbour graph of the grid,
bounded … -/
theorem grid_is_4_neighbour_bounded (H W a b : Nat) :
    (a, b) ∈ edgePairs H W false ↔
      ∃ r c, r < H ∧ c < W ∧ a = r * W + c ∧
        ((c + 1 < W ∧ b = r * W + (c + 1)) ∨ (r + 1 < H ∧ b = (r + 1) * W + c)) :=
  mem_edgePairs_bounded H W a b

/-- … or periodic (indices modulo the size: `W = 1` gives self-loops, `W = 2` every horizontal
pair twice); `maskedPairs` keeps the pairs with both ends in the mask. -/
theorem grid_is_4_neighbour_periodic (H W a b : Nat) :
    (a, b) ∈ edgePairs H W true ↔
      ∃ r c, r < H ∧ c < W ∧ a = r * W + c ∧
        (b = r * W + (c + 1) % W ∨ b = ((r + 1) % H) * W + c) :=
  mem_edgePairs_periodic H W a b

/-- **unwrap_idempotent_smooth** — input that is already unwrapped and Itoh-smooth on every pair
used is returned unchanged up to ONE global constant (all offsets are 0; the constant is the
subtracted mean), whatever the order. -/
theorem unwrap_idempotent_smooth (half : ℝ) (N : Nat) (φ : Nat → ℝ)
    (order : List (Nat × Nat)) (hin : ∀ p ∈ order, p.1 < N ∧ p.2 < N)
    (hitoh : ∀ p ∈ order, |φ p.1 - φ p.2| < half) :
    ∃ (out : List ℝ) (c : ℝ),
      unwrapSorted half N φ (edgesOfPairs half φ order) = some out ∧ out.length = N ∧
      ∀ i, i < N → out.getD i 0 = φ i - c := by
  have hin' : ∀ e ∈ edgesOfPairs half φ order, e.i1 < N ∧ e.i2 < N := by
    intro e he
    obtain ⟨p, hp, rfl⟩ := (mem_edgesOfPairs half φ order e).mp he
    exact hin p hp
  obtain ⟨u, incs, root, hu, _, hincs, _, _, _, hcons⟩ := offsets_spec _ hin'
  have hn : ∀ e ∈ edgesOfPairs half φ order, e.inc = (fun _ => (0 : ℤ)) e.i1 - (fun _ => (0 : ℤ)) e.i2 := by
    intro e he
    obtain ⟨p, hp, rfl⟩ := (mem_edgesOfPairs half φ order e).mp he
    have h := abs_lt.mp (hitoh p hp)
    have h3 : ¬ half < φ p.1 - φ p.2 := by linarith [h.2]
    have h4 : ¬ φ p.1 - φ p.2 < -half := by linarith [h.1]
    simp [findWrap_real, h3, h4]
  obtain ⟨_, hoff⟩ := hcons (fun _ => (0 : ℤ)) hn
  obtain ⟨c, hlen, hout⟩ := assemble_spec half N φ incs
  refine ⟨assemble half N φ incs, c, by simp [unwrapSorted, hu, hincs], hlen, ?_⟩
  intro i hi
  rw [hout i hi, hoff i hi]
  simp

/-! ## 4. Self-loops and duplicate edges are no-ops -/

/-- a self-loop edge (`W = 1` or `H = 1` with `wrap_around=True`) changes nothing (`rx == ry`) -/
theorem self_loop_noop (N : Nat) (u : UF) (hwf : WF u N) (x : Nat) (hx : x < N) (inc : Int) :
    u.union x x inc = some u :=
  UF.union_sameRoot inc (SameRoot.refl hwf hx)

/-- after an edge has been merged, the same edge again — in either direction, with any
increment (`W = 2` or `H = 2` with `wrap_around=True` lists every neighbour pair twice) — changes
nothing -/
theorem duplicate_edge_noop (N : Nat) (u u' : UF) (hwf : WF u N) (x y : Nat) (hx : x < N) (hy : y < N)
    (inc inc' : Int) (h : u.union x y inc = some u') :
    u'.union x y inc' = some u' ∧ u'.union y x inc' = some u' := by
  obtain ⟨u'', h'', _, _, hs, _⟩ := UF.union_step hwf inc hx hy
  rw [h] at h''
  obtain rfl : u' = u'' := by simpa using h''
  exact ⟨UF.union_sameRoot inc' hs, UF.union_sameRoot inc' hs.symm⟩

/-! ## Non-vacuity -/

/-- the grids that produce self-loops and duplicate edges -/
example : edgePairs 2 1 true = [(0, 0), (1, 1), (0, 1), (1, 0)] := by decide
example : edgePairs 1 2 true = [(0, 1), (1, 0), (0, 0), (1, 1)] := by decide
example : edgePairs 2 3 false = [(0, 1), (1, 2), (3, 4), (4, 5), (0, 3), (1, 4), (2, 5)] := by decide

/-- a 1×4 ramp of slope 3/4·π in units of π (`half = 1`): φ = 0, 3/4, 3/2, 9/4 wraps to
0, 3/4, -1/2, 1/4 with wrap counts 0,0,1,1; Itoh holds; the hypotheses of `unwrap_correct_grid`
are satisfiable with a field that really wraps. -/
example : ∃ (φ w : Nat → ℝ) (n : Nat → ℤ),
    IsWrapOn 1 (fun i => i < 1 * 4 ∧ (fun _ => true) i = true) w φ n ∧ (∀ p ∈ maskedPairs 1 4 (fun _ => true) false, |φ p.1 - φ p.2| < 1) ∧
    (∃ i, n i ≠ 0) ∧ [(2, 3), (0, 1), (1, 2)].Perm (maskedPairs 1 4 (fun _ => true) false) := by
  refine ⟨fun i => 3 / 4 * i, fun i => 3 / 4 * i - 2 * (if i < 2 then 0 else 1 : ℤ),
    fun i => if i < 2 then 0 else 1, ?_, ?_, ⟨2, by norm_num⟩, by decide⟩
  · intro i hi
    have : i = 0 ∨ i = 1 ∨ i = 2 ∨ i = 3 := by have := hi.1; omega
    rcases this with rfl | rfl | rfl | rfl <;> norm_num
  · have : maskedPairs 1 4 (fun _ => true) false = [(0, 1), (1, 2), (2, 3)] := by decide
    rw [this]
    intro p hp
    simp only [List.mem_cons, List.not_mem_nil, or_false] at hp
    rcases hp with rfl | rfl | rfl <;> norm_num [abs_lt]

/-- the executable model on that ramp, merged in the order (2,3),(0,1),(1,2): offsets 0,0,1,1 -/
example : (unionAll (UF.init 4) [⟨2, 3, 0⟩, ⟨0, 1, 0⟩, ⟨1, 2, -1⟩]).bind finalOffsets = some [0, 0, 1, 1] := by
  decide

/-- a consistent increment field exists for that run (`n = 0,0,1,1`, `inc = n i1 - n i2`) -/
example : ∀ e ∈ [(⟨2, 3, 0⟩ : Edge), ⟨0, 1, 0⟩, ⟨1, 2, -1⟩],
    e.inc = (fun i => if i < 2 then (0 : Int) else 1) e.i1 - (fun i => if i < 2 then (0 : Int) else 1) e.i2 := by
  decide

end QuantemModel.Props.C17
