import QuantemModel.Lemmas.UnwrapExtra
import QuantemModel.Lemmas.UnwrapSession
/-!
C17 — reliability-sorted phase unwrapping (Model/Unwrap.lean) recovers any Itoh-smooth phase
up to one additive constant per connected component of the masked edge graph.

Conventions.  `half` is π in the units of the carrier (`half = Real.pi` is the code; the
correspondence run executes the same definitions at `Rat` with `half = 1`).  Every theorem is
for ALL `half > 0`, all sizes, all edge lists **in every order** (the merge order is an input of
the model: reliabilities and `argsort` ties cannot matter), with self-loops and duplicate edges
allowed.  Pixels are flat indices `< N`.  `Conn pairs a b` is connectivity in the undirected
multigraph of the pixel pairs.  Only property theorems and non-vacuity examples live here.
-/
namespace QuantemModel.Props.C17
open QuantemModel QuantemModel.Unwrap QuantemModel.Unwrap.UF

/-! ## 1. Union–find: termination and offset consistency -/

/-- **Termination of `find_root_and_offset` / `_final_offsets`.**  From the initial structure,
after the unions of ANY edge list (any order, any increments, duplicates and self-loops
included) the `while parent[root] != root` walk from every pixel stops at a root within `N`
tests: the model's fuel never runs out (`none` = "Python would still be looping"), and neither
does any `union` on the way (`unionAll` is `some`).  Reason (field `rank_lt` of `WF`): rank
strictly increases along every parent link. -/
theorem find_terminates (N : Nat) (es : List Edge) (hin : ∀ e ∈ es, e.i1 < N ∧ e.i2 < N) :
    ∃ u, unionAll (UF.init N) es = some u ∧ WF u N ∧
      ∀ x, x < N → ∃ r t, u.find x = some (r, t) ∧ r < N ∧ u.par r = r := by
  obtain ⟨u, _, _, hu, hwf, _⟩ := offsets_spec es hin
  refine ⟨u, hu, hwf, fun x hx => ?_⟩
  obtain ⟨r, t, h⟩ := UF.find_terminates hwf x hx
  exact ⟨r, t, h, UF.find_root hwf hx h⟩

/-- **Union–find offset invariant** (the heart of C17).  Let the increments of the processed
edges be the differences of *some* integer field `n` (`inc = n i1 - n i2` — the code's sign
convention; under Itoh `n` is the true wrap count, see `itoh`).  Then after ANY prefix/order of
unions: every non-root pixel stores `n pixel - n parent` (`Consistent`), hence the offset
accumulated by `find` telescopes to `n x - n root`, i.e. `offset_to_root x - n x` is the same
number `-n root` for every pixel of a tree. -/
theorem uf_offset_invariant (N : Nat) (es : List Edge) (hin : ∀ e ∈ es, e.i1 < N ∧ e.i2 < N)
    (n : Nat → Int) (hn : ∀ e ∈ es, e.inc = n e.i1 - n e.i2) :
    ∃ u, unionAll (UF.init N) es = some u ∧ WF u N ∧ Consistent u N n ∧
      ∀ x r t, x < N → u.find x = some (r, t) → t = n x - n r := by
  obtain ⟨u, _, _, hu, hwf, _, _, _, _, hcons⟩ := offsets_spec es hin
  obtain ⟨hc, _⟩ := hcons n hn
  exact ⟨u, hu, hwf, hc, fun x r t hx h => UF.find_consistent hwf hc hx h⟩

/-- One `union` step preserves all of it, from ANY well-formed state (not only reachable ones):
stays well-formed, stays consistent with every `n` the new increment is a difference of, joins
the two ends, never separates pixels already joined. -/
theorem union_preserves (N : Nat) (u : UF) (hwf : WF u N) (x y : Nat) (inc : Int) (hx : x < N) (hy : y < N) :
    ∃ u', u.union x y inc = some u' ∧ WF u' N ∧
      (∀ n : Nat → Int, Consistent u N n → inc = n x - n y → Consistent u' N n) ∧
      SameRoot u' x y ∧ (∀ a b, a < N → b < N → SameRoot u a b → SameRoot u' a b) :=
  UF.union_step hwf inc hx hy

/-! ## 2. Itoh: the increments are differences of the true wrap counts -/

/-- `_find_wrap` of two wrapped values returns the difference of their wrap counts whenever the
true values differ by less than π.  (`[-half, half]` closed: covers `[-π, π)` of `_wrap_to_pi`
and `(-π, π]` of `torch.angle`.) -/
theorem itoh (half : ℝ) (hh : 0 < half) (pa pb wa wb : ℝ) (na nb : ℤ)
    (ha : wa = pa - 2 * half * na) (hb : wb = pb - 2 * half * nb)
    (hra : -half ≤ wa ∧ wa ≤ half) (hrb : -half ≤ wb ∧ wb ≤ half)
    (hitoh : |pa - pb| < half) :
    findWrap half wa wb = na - nb :=
  itoh_findWrap hh ha hb hra hrb hitoh

/-! ## 3. The unwrapper -/

/-- On the pixels in `S`, `w` is `φ` wrapped: moved by whole multiples of `2·half` into
`[-half, half]`.  (Nothing is asked of pixels outside `S` — e.g. outside the mask.) -/
def IsWrapOn (half : ℝ) (S : Nat → Prop) (w φ : Nat → ℝ) (n : Nat → ℤ) : Prop :=
  ∀ i, S i → w i = φ i - 2 * half * n i ∧ -half ≤ w i ∧ w i ≤ half

/-- **unwrap_mod** — for EVERY input (no smoothness, any edges in any order): the run
terminates, and the result differs from the input by integer multiples of `2·half` (= 2π) plus
one single constant (the subtracted mean). -/
theorem unwrap_mod (half : ℝ) (N : Nat) (w : Nat → ℝ) (order : List (Nat × Nat))
    (hin : ∀ p ∈ order, p.1 < N ∧ p.2 < N) :
    ∃ (out : List ℝ) (k : Nat → ℤ) (c : ℝ),
      unwrapSorted half N w (edgesOfPairs half w order) = some out ∧ out.length = N ∧
      ∀ i, i < N → out.getD i 0 - w i = 2 * half * (k i : ℝ) - c := by
  have hin' : ∀ e ∈ edgesOfPairs half w order, e.i1 < N ∧ e.i2 < N := by
    intro e he
    obtain ⟨p, hp, rfl⟩ := (mem_edgesOfPairs half w order e).mp he
    exact hin p hp
  obtain ⟨u, incs, _, hu, _, hincs, _, _, _, _⟩ := offsets_spec _ hin'
  obtain ⟨c, hlen, hout⟩ := assemble_spec half N w incs
  refine ⟨assemble half N w incs, fun i => incs.getD i 0, c, ?_, hlen, ?_⟩
  · simp [unwrapSorted, hu, hincs]
  · intro i hi
    rw [hout i hi]; ring

/-- **unwrap_correct** — for every size, every list of pixel pairs (every mask, wrap-around or
not, self-loops/duplicates included) merged in EVERY order: if the true field `φ` satisfies the
Itoh condition on every pair used and `w` is its wrapped version on the pixels that occur in
pairs (values elsewhere are arbitrary), then the unwrapper terminates and `out - φ` takes one
and the same value on all pixels of a connected component of the pair graph. -/
theorem unwrap_correct (half : ℝ) (hh : 0 < half) (N : Nat) (φ w : Nat → ℝ) (n : Nat → ℤ)
    (order : List (Nat × Nat)) (hin : ∀ p ∈ order, p.1 < N ∧ p.2 < N)
    (hwrap : IsWrapOn half (Touched order) w φ n)
    (hitoh : ∀ p ∈ order, |φ p.1 - φ p.2| < half) :
    ∃ out : List ℝ,
      unwrapSorted half N w (edgesOfPairs half w order) = some out ∧ out.length = N ∧
      ∀ a b, a < N → b < N → Conn order a b → out.getD a 0 - φ a = out.getD b 0 - φ b := by
  have hin' : ∀ e ∈ edgesOfPairs half w order, e.i1 < N ∧ e.i2 < N := by
    intro e he
    obtain ⟨p, hp, rfl⟩ := (mem_edgesOfPairs half w order e).mp he
    exact hin p hp
  obtain ⟨u, incs, root, hu, _, hincs, _, _, hroot, hcons⟩ := offsets_spec _ hin'
  have hn : ∀ e ∈ edgesOfPairs half w order, e.inc = n e.i1 - n e.i2 := by
    intro e he
    obtain ⟨p, hp, rfl⟩ := (mem_edgesOfPairs half w order e).mp he
    obtain ⟨ha, hra⟩ := hwrap p.1 ⟨p, hp, Or.inl rfl⟩
    obtain ⟨hb, hrb⟩ := hwrap p.2 ⟨p, hp, Or.inr rfl⟩
    exact itoh_findWrap hh ha hb hra hrb (hitoh p hp)
  obtain ⟨_, hoff⟩ := hcons n hn
  obtain ⟨c, hlen, hout⟩ := assemble_spec half N w incs
  refine ⟨assemble half N w incs, by simp [unwrapSorted, hu, hincs], hlen, ?_⟩
  intro a b ha hb hconn
  rcases conn_touched hconn with rfl | ⟨ta, tb⟩
  · rfl
  have hr : root a = root b := hroot a b ha hb ((conn_iff_edges half w order a b).mp hconn)
  rw [hout a ha, hout b hb, hoff a ha, hoff b hb, (hwrap a ta).1, (hwrap b tb).1, hr]
  push_cast
  ring

/-- **unwrap_correct on the pixel grid**: `unwrap_phase_2d_torch(wrap φ, mask, wrap_around)` for
every `H × W`, every mask, bounded or periodic, and every merge order the sort could produce
(`order` any permutation of the masked neighbour pairs): `out - φ` is constant on each connected
component of the masked edge graph.  `w` has to be the wrapped `φ` only INSIDE the mask (the
bright-field embedding puts zeros outside); `grid_is_4_neighbour_*` below say what the graph is. -/
theorem unwrap_correct_grid (half : ℝ) (hh : 0 < half) (H W : Nat) (mask : Nat → Bool) (wrap : Bool)
    (φ w : Nat → ℝ) (n : Nat → ℤ) (order : List (Nat × Nat))
    (hperm : order.Perm (maskedPairs H W mask wrap))
    (hwrap : IsWrapOn half (fun i => i < H * W ∧ mask i = true) w φ n)
    (hitoh : ∀ p ∈ maskedPairs H W mask wrap, |φ p.1 - φ p.2| < half) :
    ∃ out : List ℝ,
      unwrapPhase2d half H W w order = some out ∧ out.length = H * W ∧
      ∀ a b, a < H * W → b < H * W → Conn (maskedPairs H W mask wrap) a b →
        out.getD a 0 - φ a = out.getD b 0 - φ b := by
  have hin : ∀ p ∈ order, p.1 < H * W ∧ p.2 < H * W :=
    fun p hp => maskedPairs_lt H W mask wrap p (hperm.mem_iff.mp hp)
  have hwrap' : IsWrapOn half (Touched order) w φ n := by
    rintro i ⟨p, hp, hi⟩
    have hp' := hperm.mem_iff.mp hp
    have hm := maskedPairs_mask H W mask wrap p hp'
    have hl := maskedPairs_lt H W mask wrap p hp'
    rcases hi with rfl | rfl
    · exact hwrap _ ⟨hl.1, hm.1⟩
    · exact hwrap _ ⟨hl.2, hm.2⟩
  obtain ⟨out, h1, h2, h3⟩ := unwrap_correct half hh (H * W) φ w n order hin hwrap'
    (fun p hp => hitoh p (hperm.mem_iff.mp hp))
  exact ⟨out, h1, h2, fun a b ha hb hc => h3 a b ha hb ((conn_perm hperm a b).mpr hc)⟩

/-- The graph whose components the theorems speak of is the 4-neighbour graph of the grid,
bounded … -/
theorem grid_is_4_neighbour_bounded (H W a b : Nat) :
    (a, b) ∈ edgePairs H W false ↔
      ∃ r c, r < H ∧ c < W ∧ a = r * W + c ∧
        ((c + 1 < W ∧ b = r * W + (c + 1)) ∨ (r + 1 < H ∧ b = (r + 1) * W + c)) :=
  mem_edgePairs_bounded H W a b

/-- … or periodic (indices modulo the size: `W = 1` gives self-loops, `W = 2` every horizontal
pair twice); `maskedPairs` keeps the pairs with both ends in the mask. -/
theorem grid_is_4_neighbour_periodic (H W a b : Nat) :
    (a, b) ∈ edgePairs H W true ↔
      ∃ r c, r < H ∧ c < W ∧ a = r * W + c ∧
        (b = r * W + (c + 1) % W ∨ b = ((r + 1) % H) * W + c) :=
  mem_edgePairs_periodic H W a b

/-- **unwrap_idempotent_smooth** — input that is already unwrapped and Itoh-smooth on every pair
used is returned unchanged up to ONE global constant (all offsets are 0; the constant is the
subtracted mean), whatever the order. -/
theorem unwrap_idempotent_smooth (half : ℝ) (N : Nat) (φ : Nat → ℝ)
    (order : List (Nat × Nat)) (hin : ∀ p ∈ order, p.1 < N ∧ p.2 < N)
    (hitoh : ∀ p ∈ order, |φ p.1 - φ p.2| < half) :
    ∃ (out : List ℝ) (c : ℝ),
      unwrapSorted half N φ (edgesOfPairs half φ order) = some out ∧ out.length = N ∧
      ∀ i, i < N → out.getD i 0 = φ i - c := by
  have hin' : ∀ e ∈ edgesOfPairs half φ order, e.i1 < N ∧ e.i2 < N := by
    intro e he
    obtain ⟨p, hp, rfl⟩ := (mem_edgesOfPairs half φ order e).mp he
    exact hin p hp
  obtain ⟨u, incs, root, hu, _, hincs, _, _, _, hcons⟩ := offsets_spec _ hin'
  have hn : ∀ e ∈ edgesOfPairs half φ order, e.inc = (fun _ => (0 : ℤ)) e.i1 - (fun _ => (0 : ℤ)) e.i2 := by
    intro e he
    obtain ⟨p, hp, rfl⟩ := (mem_edgesOfPairs half φ order e).mp he
    have h := abs_lt.mp (hitoh p hp)
    have h3 : ¬ half < φ p.1 - φ p.2 := by linarith [h.2]
    have h4 : ¬ φ p.1 - φ p.2 < -half := by linarith [h.1]
    simp [findWrap_real, h3, h4]
  obtain ⟨_, hoff⟩ := hcons (fun _ => (0 : ℤ)) hn
  obtain ⟨c, hlen, hout⟩ := assemble_spec half N φ incs
  refine ⟨assemble half N φ incs, c, by simp [unwrapSorted, hu, hincs], hlen, ?_⟩
  intro i hi
  rw [hout i hi, hoff i hi]
  simp

/-! ## 4. Self-loops and duplicate edges are no-ops -/

/-- a self-loop edge (`W = 1` or `H = 1` with `wrap_around=True`) changes nothing (`rx == ry`) -/
theorem self_loop_noop (N : Nat) (u : UF) (hwf : WF u N) (x : Nat) (hx : x < N) (inc : Int) :
    u.union x x inc = some u :=
  UF.union_sameRoot inc (SameRoot.refl hwf hx)

/-- after an edge has been merged, the same edge again — in either direction, with any
increment (`W = 2` or `H = 2` with `wrap_around=True` lists every neighbour pair twice) — changes
nothing -/
theorem duplicate_edge_noop (N : Nat) (u u' : UF) (hwf : WF u N) (x y : Nat) (hx : x < N) (hy : y < N)
    (inc inc' : Int) (h : u.union x y inc = some u') :
    u'.union x y inc' = some u' ∧ u'.union y x inc' = some u' := by
  obtain ⟨u'', h'', _, _, hs, _⟩ := UF.union_step hwf inc hx hy
  rw [h] at h''
  obtain rfl : u' = u'' := by simpa using h''
  exact ⟨UF.union_sameRoot inc' hs, UF.union_sameRoot inc' hs.symm⟩

/-! ## 5. The bright-field embedding -/

/-- **bf-overlap** — the grid-level body of `unwrap_bf_overlap_phase_torch` (`bfUnwrapGrid`:
`mask_grid.any()` test, `max - min > π` test, first pass on `phase_grid * mask_grid` with the
mask, optional second pass on the masked result), for every grid, mask, `two_pass`, wrap-around
setting and merge orders: it terminates, and whichever branch is taken the returned grid differs
from the truth by one constant on each connected region of the overlap mask — provided the
stored phases are the wrapped truth INSIDE the mask (outside they are arbitrary: the embedding
puts zeros there) and the truth is Itoh on the masked neighbour pairs.  The second pass is an
instance of `unwrap_idempotent_smooth`; when no pass runs (`max - min ≤ π`) no neighbour pair can
hide a wrap.  (The scatter `phase_grid[bf_mask] = …` and gather `phase_grid[bf_mask]` around this
body are plain indexing and are tied by the correspondence run only.) -/
theorem bf_overlap_correct (half : ℝ) (hh : 0 < half) (H W : Nat) (m : Nat → Bool) (wrap twoPass : Bool)
    (g0 φ : Nat → ℝ) (n : Nat → ℤ) (order1 order2 : List (Nat × Nat))
    (hp1 : order1.Perm (maskedPairs H W m wrap)) (hp2 : order2.Perm (maskedPairs H W m wrap))
    (hwrap : IsWrapOn half (fun i => i < H * W ∧ m i = true) g0 φ n)
    (hitoh : ∀ p ∈ maskedPairs H W m wrap, |φ p.1 - φ p.2| < half) :
    ∃ br g, bfUnwrapGrid half H W g0 m twoPass order1 order2 = some (br, g) ∧
      ∀ a b, a < H * W → b < H * W → m a = true → m b = true →
        Conn (maskedPairs H W m wrap) a b → g a - φ a = g b - φ b := by
  unfold bfUnwrapGrid
  simp only
  split
  · -- `mask_grid.any()` is false: there is no mask pixel
    rename_i hany
    refine ⟨_, _, rfl, ?_⟩
    intro a b ha _ hma
    simp only [Bool.not_eq_eq_eq_not, Bool.not_true, List.any_eq_false, List.mem_range] at hany
    exact absurd hma (by simpa using hany a ha)
  split
  · -- `max - min <= pi`: the raw phases are returned; no neighbour pair can hide a wrap
    rename_i _ hsmall
    refine ⟨_, _, rfl, ?_⟩
    have hspan : maxList ((List.range (H * W)).map g0) - minList ((List.range (H * W)).map g0) ≤ half := by
      have : ¬ half < maxList ((List.range (H * W)).map g0) - minList ((List.range (H * W)).map g0) := by
        intro hlt
        have h := (NumReal.ltb_eq _ _).mpr hlt
        rw [NumReal.sub_eq] at hsmall
        simp [h] at hsmall
      exact not_lt.mp this
    have hpair : ∀ p ∈ maskedPairs H W m wrap, g0 p.1 - φ p.1 = g0 p.2 - φ p.2 := by
      intro p hp
      have hl := maskedPairs_lt H W m wrap p hp
      have hm := maskedPairs_mask H W m wrap p hp
      obtain ⟨e1, _⟩ := hwrap p.1 ⟨hl.1, hm.1⟩
      obtain ⟨e2, _⟩ := hwrap p.2 ⟨hl.2, hm.2⟩
      have hmem : ∀ i, i < H * W → g0 i ∈ (List.range (H * W)).map g0 :=
        fun i hi => List.mem_map.mpr ⟨i, List.mem_range.mpr hi, rfl⟩
      have b1 := le_maxList (hmem _ hl.1)
      have b2 := minList_le (hmem _ hl.1)
      have b3 := le_maxList (hmem _ hl.2)
      have b4 := minList_le (hmem _ hl.2)
      obtain ⟨i1, i2⟩ := abs_lt.mp (hitoh p hp)
      -- 2·half·(n₁ - n₂) = (φ₁ - φ₂) - (g₁ - g₂) lies strictly between ±2·half
      have hk : n p.1 = n p.2 := by
        have hlt : ((n p.1 - n p.2 : ℤ) : ℝ) < 1 := by
          by_contra hc
          have hc : (1 : ℝ) ≤ ((n p.1 - n p.2 : ℤ) : ℝ) := not_lt.mp hc
          push_cast at hc
          nlinarith
        have hgt : (-1 : ℝ) < ((n p.1 - n p.2 : ℤ) : ℝ) := by
          by_contra hc
          have hc : ((n p.1 - n p.2 : ℤ) : ℝ) ≤ -1 := not_lt.mp hc
          push_cast at hc
          nlinarith
        have h1 : n p.1 - n p.2 < 1 := by exact_mod_cast hlt
        have h2 : -1 < n p.1 - n p.2 := by exact_mod_cast hgt
        omega
      rw [e1, e2, hk]; ring
    intro a b _ _ _ _ hconn
    unfold Conn at hconn
    clear * - hconn hpair
    induction hconn with
    | rel x y hxy => exact hpair (x, y) hxy
    | refl x => rfl
    | symm x y _ ih => exact ih.symm
    | trans x y z _ _ ih1 ih2 => exact ih1.trans ih2
  -- first pass on `phase_grid * mask_grid`
  have hwrap1 : IsWrapOn half (fun i => i < H * W ∧ m i = true)
      (fun i => if m i = true then g0 i else Num.zero) φ n := by
    intro i hi
    have := hwrap i hi
    simpa [hi.2] using this
  obtain ⟨o1, ho1, hlen1, hc1⟩ := unwrap_correct_grid half hh H W m wrap φ _ n order1 hp1 hwrap1 hitoh
  rw [ho1]
  simp only
  have hg1 : ∀ a b, a < H * W → b < H * W → m a = true → m b = true →
      Conn (maskedPairs H W m wrap) a b →
      (if m a = true then o1.getD a Num.zero else Num.zero) - φ a =
        (if m b = true then o1.getD b Num.zero else Num.zero) - φ b := by
    intro a b ha hb hma hmb hconn
    simp only [hma, hmb, if_true]
    have := hc1 a b ha hb hconn
    simpa [NumReal.zero_eq] using this
  cases twoPass with
  | false => exact ⟨_, _, rfl, hg1⟩
  | true =>
    simp only [Bool.not_true, Bool.false_eq_true, if_false]
    -- second pass: the input is already unwrapped and Itoh-smooth on every pair used
    have hin2 : ∀ p ∈ order2, p.1 < H * W ∧ p.2 < H * W :=
      fun p hp => maskedPairs_lt H W m wrap p (hp2.mem_iff.mp hp)
    have hitoh2 : ∀ p ∈ order2,
        |(fun i => if m i = true then o1.getD i Num.zero else Num.zero) p.1 -
          (fun i => if m i = true then o1.getD i Num.zero else Num.zero) p.2| < half := by
      intro p hp
      have hp' := hp2.mem_iff.mp hp
      have hl := maskedPairs_lt H W m wrap p hp'
      have hm := maskedPairs_mask H W m wrap p hp'
      have hconn : Conn (maskedPairs H W m wrap) p.1 p.2 := Relation.EqvGen.rel _ _ hp'
      have := hg1 p.1 p.2 hl.1 hl.2 hm.1 hm.2 hconn
      have h2 := hitoh p hp'
      simp only at this ⊢
      have e : (if m p.1 = true then o1.getD p.1 Num.zero else Num.zero) -
          (if m p.2 = true then o1.getD p.2 Num.zero else Num.zero) = φ p.1 - φ p.2 := by linarith
      rw [e]; exact h2
    obtain ⟨o2, c, ho2, hlen2, hout2⟩ := unwrap_idempotent_smooth half (H * W)
      (fun i => if m i = true then o1.getD i Num.zero else Num.zero) order2 hin2 hitoh2
    have ho2' : unwrapPhase2d half H W (fun i => if m i = true then o1.getD i Num.zero else Num.zero) order2 = some o2 := ho2
    rw [ho2']
    refine ⟨_, _, rfl, ?_⟩
    intro a b ha hb hma hmb hconn
    simp only [hma, hmb, if_true]
    have e1 := hout2 a ha
    have e2 := hout2 b hb
    have e3 := hg1 a b ha hb hma hmb hconn
    simp only [hma, hmb, if_true] at e1 e2 e3
    have z : (Num.zero : ℝ) = 0 := NumReal.zero_eq
    rw [z] at e1 e2 e3 ⊢
    rw [e1, e2]
    linarith

/-! ## 6. Inputs that are not wrapped into [-π, π) -/

/-- **Itoh, general form**: the stored values may be ANY representatives `w = φ - 2·half·n` of the
truth (no window); `_find_wrap` returns the difference of the wrap counts as soon as the counts of
the two neighbours are at most one apart. -/
theorem itoh_general (half : ℝ) (hh : 0 < half) (pa pb wa wb : ℝ) (na nb : ℤ)
    (ha : wa = pa - 2 * half * na) (hb : wb = pb - 2 * half * nb)
    (hstep : -1 ≤ na - nb ∧ na - nb ≤ 1) (hitoh : |pa - pb| < half) :
    findWrap half wa wb = na - nb :=
  itoh_findWrap_step hh ha hb hstep hitoh

/-- **unwrap_correct for raw input** — the model takes the values as they are (no wrapping is
applied to the input, exactly as the code).  Let the input be any representative
`w = φ - 2·half·n` of an Itoh-smooth truth on the pixels used.  If the wrap counts of the two ends
of every pair used are at most one apart — true for input wrapped into ANY window of width 2π
(`unwrap_correct_window`), for already-unwrapped input (`n = 0`), and for partially unwrapped
input — the result is the truth up to one constant per connected component, for every order. -/
theorem unwrap_correct_general (half : ℝ) (hh : 0 < half) (N : Nat) (φ w : Nat → ℝ) (n : Nat → ℤ)
    (order : List (Nat × Nat)) (hin : ∀ p ∈ order, p.1 < N ∧ p.2 < N)
    (hrep : ∀ i, Touched order i → w i = φ i - 2 * half * n i)
    (hstep : ∀ p ∈ order, -1 ≤ n p.1 - n p.2 ∧ n p.1 - n p.2 ≤ 1)
    (hitoh : ∀ p ∈ order, |φ p.1 - φ p.2| < half) :
    ∃ out : List ℝ,
      unwrapSorted half N w (edgesOfPairs half w order) = some out ∧ out.length = N ∧
      ∀ a b, a < N → b < N → Conn order a b → out.getD a 0 - φ a = out.getD b 0 - φ b := by
  have hin' : ∀ e ∈ edgesOfPairs half w order, e.i1 < N ∧ e.i2 < N := by
    intro e he
    obtain ⟨p, hp, rfl⟩ := (mem_edgesOfPairs half w order e).mp he
    exact hin p hp
  obtain ⟨u, incs, root, hu, _, hincs, _, _, hroot, hcons⟩ := offsets_spec _ hin'
  have hn : ∀ e ∈ edgesOfPairs half w order, e.inc = n e.i1 - n e.i2 := by
    intro e he
    obtain ⟨p, hp, rfl⟩ := (mem_edgesOfPairs half w order e).mp he
    exact itoh_findWrap_step hh (hrep p.1 ⟨p, hp, Or.inl rfl⟩) (hrep p.2 ⟨p, hp, Or.inr rfl⟩)
      (hstep p hp) (hitoh p hp)
  obtain ⟨_, hoff⟩ := hcons n hn
  obtain ⟨c, hlen, hout⟩ := assemble_spec half N w incs
  refine ⟨assemble half N w incs, by simp [unwrapSorted, hu, hincs], hlen, ?_⟩
  intro a b ha hb hconn
  rcases conn_touched hconn with rfl | ⟨ta, tb⟩
  · rfl
  have hr : root a = root b := hroot a b ha hb ((conn_iff_edges half w order a b).mp hconn)
  rw [hout a ha, hout b hb, hoff a ha, hoff b hb, hrep a ta, hrep b tb, hr]
  push_cast
  ring

/-- On the pixels in `S`, `w` is `φ` moved by whole multiples of `2·half` into the window
`[c, c + 2·half]` (`c = -half`: the `[-π, π)` convention; `c = 0`: the `[0, 2π)` convention). -/
def IsWrapInWindow (half c : ℝ) (S : Nat → Prop) (w φ : Nat → ℝ) (n : Nat → ℤ) : Prop :=
  ∀ i, S i → w i = φ i - 2 * half * n i ∧ c ≤ w i ∧ w i ≤ c + 2 * half

/-- **unwrap_correct for any wrapping convention**: input wrapped into any window of width 2π. -/
theorem unwrap_correct_window (half c : ℝ) (hh : 0 < half) (N : Nat) (φ w : Nat → ℝ) (n : Nat → ℤ)
    (order : List (Nat × Nat)) (hin : ∀ p ∈ order, p.1 < N ∧ p.2 < N)
    (hwrap : IsWrapInWindow half c (Touched order) w φ n)
    (hitoh : ∀ p ∈ order, |φ p.1 - φ p.2| < half) :
    ∃ out : List ℝ,
      unwrapSorted half N w (edgesOfPairs half w order) = some out ∧ out.length = N ∧
      ∀ a b, a < N → b < N → Conn order a b → out.getD a 0 - φ a = out.getD b 0 - φ b := by
  apply unwrap_correct_general half hh N φ w n order hin (fun i hi => (hwrap i hi).1) _ hitoh
  intro p hp
  obtain ⟨ea, la, ua⟩ := hwrap p.1 ⟨p, hp, Or.inl rfl⟩
  obtain ⟨eb, lb, ub⟩ := hwrap p.2 ⟨p, hp, Or.inr rfl⟩
  exact step_of_window hh ea eb (abs_le.mpr ⟨by linarith, by linarith⟩) (hitoh p hp)

/-- … on the pixel grid: every `H × W`, mask, bounded or periodic, every merge order, every window. -/
theorem unwrap_correct_grid_window (half c : ℝ) (hh : 0 < half) (H W : Nat) (mask : Nat → Bool) (wrap : Bool)
    (φ w : Nat → ℝ) (n : Nat → ℤ) (order : List (Nat × Nat))
    (hperm : order.Perm (maskedPairs H W mask wrap))
    (hwrap : IsWrapInWindow half c (fun i => i < H * W ∧ mask i = true) w φ n)
    (hitoh : ∀ p ∈ maskedPairs H W mask wrap, |φ p.1 - φ p.2| < half) :
    ∃ out : List ℝ,
      unwrapPhase2d half H W w order = some out ∧ out.length = H * W ∧
      ∀ a b, a < H * W → b < H * W → Conn (maskedPairs H W mask wrap) a b →
        out.getD a 0 - φ a = out.getD b 0 - φ b := by
  have hin : ∀ p ∈ order, p.1 < H * W ∧ p.2 < H * W :=
    fun p hp => maskedPairs_lt H W mask wrap p (hperm.mem_iff.mp hp)
  have hwrap' : IsWrapInWindow half c (Touched order) w φ n := by
    rintro i ⟨p, hp, hi⟩
    have hp' := hperm.mem_iff.mp hp
    have hm := maskedPairs_mask H W mask wrap p hp'
    have hl := maskedPairs_lt H W mask wrap p hp'
    rcases hi with rfl | rfl
    · exact hwrap _ ⟨hl.1, hm.1⟩
    · exact hwrap _ ⟨hl.2, hm.2⟩
  obtain ⟨out, h1, h2, h3⟩ := unwrap_correct_window half c hh (H * W) φ w n order hin hwrap'
    (fun p hp => hitoh p (hperm.mem_iff.mp hp))
  exact ⟨out, h1, h2, fun a b ha hb hc => h3 a b ha hb ((conn_perm hperm a b).mpr hc)⟩

/-- The boundary of the domain, kept visible: when two neighbours are stored TWO cycles apart
(`n = 0, -2` on a flat truth) the increment `_find_wrap` returns (±1 at most) is not the difference
of the wrap counts and the truth is NOT recovered.  Such input is neither a wrapped nor an
unwrapped smooth field, so it is outside the property; the step hypothesis of
`unwrap_correct_general` cannot be dropped. -/
theorem unwrap_multicycle_counterexample :
    ∃ (φ w : Nat → ℝ) (n : Nat → ℤ), (∀ i, w i = φ i - 2 * 1 * n i) ∧ |φ 0 - φ 1| < 1 ∧
      ∃ out : List ℝ, unwrapSorted (1 : ℝ) 2 w (edgesOfPairs 1 w [(0, 1)]) = some out ∧
        out.getD 0 0 - φ 0 ≠ out.getD 1 0 - φ 1 := by
  refine ⟨fun _ => 0, fun i => if i = 1 then 4 else 0, fun i => if i = 1 then -2 else 0, ?_, by norm_num, ?_⟩
  · intro i
    by_cases h : i = 1
    · simp [h]; norm_num
    · simp [h]
  · have he : edgesOfPairs (1 : ℝ) (fun i => if i = 1 then (4 : ℝ) else 0) [(0, 1)] = [⟨0, 1, 1⟩] := by
      simp [edgesOfPairs, findWrap_real]; norm_num
    have hu : (unionAll (UF.init 2) [⟨0, 1, 1⟩]).bind finalOffsets = some [0, -1] := by decide
    obtain ⟨c, _, hout⟩ := assemble_spec (1 : ℝ) 2 (fun i => if i = 1 then (4 : ℝ) else 0) [0, -1]
    refine ⟨assemble 1 2 (fun i => if i = 1 then (4 : ℝ) else 0) [0, -1], ?_, ?_⟩
    · rw [he]
      unfold unwrapSorted
      cases h1 : unionAll (UF.init 2) [⟨0, 1, 1⟩] with
      | none => simp [h1] at hu
      | some u =>
        simp only [h1, Option.bind_some] at hu
        simp [hu]
    · rw [hout 0 (by norm_num), hout 1 (by norm_num)]
      norm_num
      intro h
      linarith

/-! ## 7. The reliability only chooses the order -/

/-- **Independence of the reliability / of the sort.**  Sort the masked neighbour pairs with ANY
comparison function whatsoever (`le` need not even be an order) — in particular by any
reliability values, by the code's `_pixel_reliability`, ascending or descending, stable or not:
the specification of `unwrap_correct_grid` holds. -/
theorem unwrap_correct_any_sort (half : ℝ) (hh : 0 < half) (H W : Nat) (mask : Nat → Bool) (wrap : Bool)
    (φ w : Nat → ℝ) (n : Nat → ℤ) (le : Nat × Nat → Nat × Nat → Bool)
    (hwrap : IsWrapOn half (fun i => i < H * W ∧ mask i = true) w φ n)
    (hitoh : ∀ p ∈ maskedPairs H W mask wrap, |φ p.1 - φ p.2| < half) :
    ∃ out : List ℝ,
      unwrapPhase2d half H W w (sortPairs le (maskedPairs H W mask wrap)) = some out ∧
      out.length = H * W ∧
      ∀ a b, a < H * W → b < H * W → Conn (maskedPairs H W mask wrap) a b →
        out.getD a 0 - φ a = out.getD b 0 - φ b :=
  unwrap_correct_grid half hh H W mask wrap φ w n _ (List.mergeSort_perm _ _) hwrap hitoh

/-- The complete function with nothing left as an input (`unwrapReliability`: reliability from
wrapped second differences, sort, unions, offsets, assembly) meets the specification for ANY
function `wrapf` put in the place of `_wrap_to_pi` inside `_pixel_reliability`, i.e. for any
reliability formula of that shape; `sortedPairs` is a permutation of the masked pairs. -/
theorem unwrap_reliability_correct (half : ℝ) (hh : 0 < half) (wrapf : ℝ → ℝ) (H W : Nat) (mask : Nat → Bool)
    (wrap : Bool) (φ w : Nat → ℝ) (n : Nat → ℤ)
    (hwrap : IsWrapOn half (fun i => i < H * W ∧ mask i = true) w φ n)
    (hitoh : ∀ p ∈ maskedPairs H W mask wrap, |φ p.1 - φ p.2| < half) :
    ∃ out : List ℝ,
      unwrapReliability half wrapf H W w mask wrap = some out ∧ out.length = H * W ∧
      ∀ a b, a < H * W → b < H * W → Conn (maskedPairs H W mask wrap) a b →
        out.getD a 0 - φ a = out.getD b 0 - φ b :=
  unwrap_correct_any_sort half hh H W mask wrap φ w n _ hwrap hitoh

/-- `_wrap_to_pi` (run at `Rat`, units of π): the value lies in `[-1, 1)` and differs from the
argument by an even integer -/
theorem wrap_to_pi_spec (x : Rat) :
    -1 ≤ wrapToPiRat x ∧ wrapToPiRat x < 1 ∧
      x - wrapToPiRat x = 2 * ((((x + 1) / 2).floor : Int) : Rat) :=
  wrapToPiRat_spec x

/-! ## 8. The periodic grid is the torus graph, with multiplicities -/

/-- **The periodic edge list as a multiset**, for every `H × W` (square or not, `H` or `W` equal to
1 or 2 included): pixel `a` contributes exactly the pair to its right torus neighbour and the pair
to its lower torus neighbour.  Hence for `W = 1` the "right" pairs are self-loops, for `W = 2` the
two horizontal neighbours are joined by two pairs `(a,b)`, `(b,a)` (same for `H`), and nothing
else is ever doubled; in particular every seam pair `(r, W-1)—(r, 0)` and `(H-1, c)—(0, c)` is
there exactly once for sizes ≥ 3. -/
theorem periodic_edges_multiset (H W a b : Nat) :
    (edgePairs H W true).count (a, b) =
      (if a < H * W ∧ rightNb W a = b then 1 else 0) + (if a < H * W ∧ downNb H W a = b then 1 else 0) :=
  edgePairs_periodic_count H W a b

theorem periodic_edges_length (H W : Nat) : (edgePairs H W true).length = 2 * (H * W) :=
  edgePairs_periodic_length H W

/-! ## 9. Scatter and gather of the bright-field embedding -/

/-- **Per-pixel specification of the scatter** `phase_grid[bf_mask] = phase_bf`,
`mask_grid[bf_mask] = mask_bf`: the `k`-th true pixel of `bf_mask` (row-major) receives the `k`-th
entry; every other pixel keeps `0` / `False`. -/
theorem bf_scatter_spec {α : Type} (N : Nat) (bfMask : Nat → Bool) (vals : List α) (d : α) :
    (∀ k (hk : k < (bfPositions N bfMask).length) (hk' : k < vals.length),
      (scatter N (bfPositions N bfMask) vals d).getD (bfPositions N bfMask)[k] d = vals[k]) ∧
    (∀ i, ¬ (i < N ∧ bfMask i = true) → (scatter N (bfPositions N bfMask) vals d).getD i d = d) ∧
    (∀ i, i ∈ bfPositions N bfMask ↔ i < N ∧ bfMask i = true) :=
  ⟨fun k hk hk' => scatter_at_pos N bfMask vals d k hk hk',
   fun i hi => scatter_off_pos N bfMask vals d i (fun h => hi (mem_bfPositions.mp h)),
   fun _ => mem_bfPositions⟩

/-- **`unwrap_bf_overlap_phase_torch`, whole function** (scatter, grid body, gather), for every grid,
`bf_mask`, overlap mask, `two_pass`, wrap-around setting and merge orders.  `K` = number of
bright-field pixels; `pos k` = flat grid index of the `k`-th one.  If the `K` phases handed in are
the wrapped truth at the overlap pixels and the truth is Itoh on neighbouring overlap pixels, the
`K` values handed back are, entry by entry (`out[k]` belongs to pixel `pos k`), the truth up to one
constant per connected region of the overlap mask. -/
theorem bf_overlap_full_correct (half : ℝ) (hh : 0 < half) (H W : Nat) (bfMask : Nat → Bool)
    (maskBf : List Bool) (phaseBf : List ℝ) (wrap twoPass : Bool) (φ : Nat → ℝ) (n : Nat → ℤ)
    (order1 order2 : List (Nat × Nat))
    (hlenM : maskBf.length = (bfPositions (H * W) bfMask).length)
    (hlenP : phaseBf.length = (bfPositions (H * W) bfMask).length)
    (hp1 : order1.Perm (maskedPairs H W (bfMaskGrid (H * W) bfMask maskBf) wrap))
    (hp2 : order2.Perm (maskedPairs H W (bfMaskGrid (H * W) bfMask maskBf) wrap))
    (hwrap : ∀ k, k < (bfPositions (H * W) bfMask).length → maskBf.getD k false = true →
      phaseBf.getD k 0 = φ ((bfPositions (H * W) bfMask).getD k 0)
          - 2 * half * n ((bfPositions (H * W) bfMask).getD k 0) ∧
        -half ≤ phaseBf.getD k 0 ∧ phaseBf.getD k 0 ≤ half)
    (hitoh : ∀ p ∈ maskedPairs H W (bfMaskGrid (H * W) bfMask maskBf) wrap, |φ p.1 - φ p.2| < half) :
    ∃ br out, unwrapBfOverlap half H W bfMask maskBf phaseBf twoPass order1 order2 = some (br, out) ∧
      out.length = (bfPositions (H * W) bfMask).length ∧
      ∀ k l, k < out.length → l < out.length →
        maskBf.getD k false = true → maskBf.getD l false = true →
        Conn (maskedPairs H W (bfMaskGrid (H * W) bfMask maskBf) wrap)
          ((bfPositions (H * W) bfMask).getD k 0) ((bfPositions (H * W) bfMask).getD l 0) →
        out.getD k 0 - φ ((bfPositions (H * W) bfMask).getD k 0)
          = out.getD l 0 - φ ((bfPositions (H * W) bfMask).getD l 0) := by
  set N := H * W with hN
  set pos := bfPositions N bfMask with hpos
  -- what the scatter produced
  have hgetD : ∀ {β : Type} (l : List β) (d : β) (k : Nat) (hk : k < l.length), l.getD k d = l[k] := by
    intro β l d k hk
    rw [List.getD_eq_getElem?_getD, List.getElem?_eq_getElem hk]; rfl
  have hm_at : ∀ k (hk : k < pos.length), bfMaskGrid N bfMask maskBf (pos.getD k 0) = maskBf.getD k false := by
    intro k hk
    have hk' : k < maskBf.length := by omega
    rw [hgetD pos 0 k hk, hgetD maskBf false k hk']
    exact scatter_at_pos N bfMask maskBf false k hk hk'
  have hg_at : ∀ k (hk : k < pos.length),
      (scatter N pos phaseBf (Num.zero : ℝ)).getD (pos.getD k 0) Num.zero = phaseBf.getD k 0 := by
    intro k hk
    have hk' : k < phaseBf.length := by omega
    rw [hgetD pos 0 k hk, hgetD phaseBf 0 k hk']
    exact scatter_at_pos N bfMask phaseBf Num.zero k hk hk'
  have hm_pos : ∀ i, bfMaskGrid N bfMask maskBf i = true → ∃ k, k < pos.length ∧ pos.getD k 0 = i := by
    intro i hi
    by_contra hne
    have hnot : i ∉ pos := by
      intro hmem
      obtain ⟨k, hk, rfl⟩ := List.getElem_of_mem hmem
      exact hne ⟨k, hk, hgetD pos 0 k hk⟩
    have : bfMaskGrid N bfMask maskBf i = false := scatter_off_pos N bfMask maskBf false i hnot
    rw [this] at hi; exact Bool.noConfusion hi
  -- the grid-level hypotheses
  have hwrapG : IsWrapOn half (fun i => i < H * W ∧ bfMaskGrid N bfMask maskBf i = true)
      (fun i => (scatter N pos phaseBf (Num.zero : ℝ)).getD i Num.zero) φ n := by
    rintro i ⟨_, hi⟩
    obtain ⟨k, hk, rfl⟩ := hm_pos i hi
    rw [hm_at k hk] at hi
    simp only [hg_at k hk]
    exact hwrap k hk hi
  obtain ⟨br, g, hbody, hspec⟩ := bf_overlap_correct half hh H W (bfMaskGrid N bfMask maskBf) wrap twoPass
    (fun i => (scatter N pos phaseBf (Num.zero : ℝ)).getD i Num.zero) φ n order1 order2 hp1 hp2 hwrapG hitoh
  refine ⟨br, pos.map g, ?_, by simp, ?_⟩
  · unfold unwrapBfOverlap
    simp only [← hN, ← hpos, hbody]
  · intro k l hk hl hmk hml hconn
    simp only [List.length_map] at hk hl
    have ek : (pos.map g).getD k 0 = g (pos.getD k 0) := by
      rw [hgetD _ 0 k (by simpa using hk), hgetD pos 0 k hk]; simp
    have el : (pos.map g).getD l 0 = g (pos.getD l 0) := by
      rw [hgetD _ 0 l (by simpa using hl), hgetD pos 0 l hl]; simp
    rw [ek, el]
    have hk_in : pos.getD k 0 ∈ pos := by rw [hgetD pos 0 k hk]; exact List.getElem_mem hk
    have hl_in : pos.getD l 0 ∈ pos := by rw [hgetD pos 0 l hl]; exact List.getElem_mem hl
    exact hspec _ _ (mem_bfPositions.mp hk_in).1 (mem_bfPositions.mp hl_in).1
      (by rw [hm_at k hk]; exact hmk) (by rw [hm_at l hl]; exact hml) hconn

/-- **Every image count**: the caller's loop hands each image to the function with the same
`bf_mask`; the `j`-th result is the function applied to the `j`-th image and nothing else (no state
is shared), so `bf_overlap_full_correct` applies to every column, whatever the number of images. -/
theorem bf_stack_independent (half : ℝ) (H W : Nat) (bfMask : Nat → Bool) (twoPass : Bool)
    (imgs : List (BfImage ℝ)) :
    (unwrapBfStack half H W bfMask twoPass imgs).length = imgs.length ∧
    ∀ j (hj : j < imgs.length),
      (unwrapBfStack half H W bfMask twoPass imgs)[j]? =
        some (unwrapBfOverlap half H W bfMask imgs[j].maskBf imgs[j].phaseBf twoPass
          imgs[j].order1 imgs[j].order2) := by
  refine ⟨by simp [unwrapBfStack], fun j hj => ?_⟩
  simp [unwrapBfStack, hj]

/-! ## 10. Argument handling, rejected calls, and histories of calls (growth 5)

`Model/UnwrapSession.lean`: `unwrap_phase_2d_torch` with its dispatch on `method` and what the
worker does with `phi.shape` and the mask's shape; histories of calls on the module and of `union`
calls on one `UnionFindPhase` object, accepted and REJECTED ones. -/

/-- the mask a call means: entry `i` of the flattened mask tensor; all-true without a mask -/
def effMask (mask : Option MaskArg) : Nat → Bool :=
  match mask with
  | none => fun _ => true
  | some m => fun i => m.vals.toArray.getD i false

/-- a well-formed call on an `H × W` grid: reliability sorting, a 2-D phase, no mask or a mask of
the grid's shape (any values), and — when the merge order is handed in — an order that is a
permutation of the masked neighbour pairs -/
structure WellFormed (c : Call ℝ) (H W : Nat) : Prop where
  method : c.method = .reliabilitySorting
  shape : c.phiShape = [H, W]
  mask : ∀ m, c.mask = some m → m.shape = [H, W]
  order : ∀ o, c.order = some o → o.Perm (maskedPairs H W (effMask c.mask) c.wrap)

/-- **A well-formed call never raises and never diverges, and it is correct** (total correctness
of the public entry point): the outcome is a field of `H*W` values, and if the stored phase is the
wrapped truth inside the mask and the truth is Itoh on the masked neighbour pairs, `out - φ` is
constant on every connected region of the mask — with the merge order handed in or with the
model's own sort (any function in the place of `_wrap_to_pi`). -/
theorem call_valid_correct (half : ℝ) (hh : 0 < half) (wrapf : ℝ → ℝ) (c : Call ℝ) (H W : Nat)
    (hwf : WellFormed c H W) (φ : Nat → ℝ) (n : Nat → ℤ)
    (hwrap : IsWrapOn half (fun i => i < H * W ∧ effMask c.mask i = true) c.phi φ n)
    (hitoh : ∀ p ∈ maskedPairs H W (effMask c.mask) c.wrap, |φ p.1 - φ p.2| < half) :
    ∃ out : List ℝ, callOutcome half wrapf c = .unwrapped out ∧ out.length = H * W ∧
      ∀ a b, a < H * W → b < H * W → Conn (maskedPairs H W (effMask c.mask) c.wrap) a b →
        out.getD a 0 - φ a = out.getD b 0 - φ b := by
  obtain ⟨meth, shape, phi, mask, wrap, order⟩ := c
  obtain ⟨hm, hs, hmask, hord⟩ := hwf
  simp only at hm hs hmask hord hwrap hitoh
  subst hm hs
  have hval : validateWorker [H, W] mask wrap = .ok (H, W, effMask mask) := by
    cases mask with
    | none => rfl
    | some m =>
      obtain ⟨ms, mv⟩ := m
      have : ms = [H, W] := hmask ⟨ms, mv⟩ rfl
      subst this
      exact validateWorker_full H W mv wrap
  cases order with
  | some o =>
    obtain ⟨out, h1, h2, h3⟩ := unwrap_correct_grid half hh H W (effMask mask) wrap φ phi n o
      (hord o rfl) hwrap hitoh
    exact ⟨out, by simp [callOutcome, hval, h1], h2, h3⟩
  | none =>
    obtain ⟨out, h1, h2, h3⟩ := unwrap_reliability_correct half hh wrapf H W (effMask mask) wrap φ phi n
      hwrap hitoh
    refine ⟨out, ?_, h2, h3⟩
    unfold unwrapReliability at h1
    simp [callOutcome, hval, h1]

/-- **Exception safety over histories of calls on the module.**  In ANY history of calls —
before and after it any number of other calls, valid ones and rejected ones (unknown method,
non-2-D phase, mask of a wrong shape, …) — every well-formed call on a smooth field returns what it
returns when called alone, i.e. the truth up to one constant per connected mask region.  (The
module keeps no state: `runSession` is the map of `callOutcome`; the harness compares every call
of real histories, rejected calls included, with exactly this function.) -/
theorem session_exception_safe (half : ℝ) (hh : 0 < half) (wrapf : ℝ → ℝ) (pre post : List (Call ℝ))
    (c : Call ℝ) (H W : Nat) (hwf : WellFormed c H W) (φ : Nat → ℝ) (n : Nat → ℤ)
    (hwrap : IsWrapOn half (fun i => i < H * W ∧ effMask c.mask i = true) c.phi φ n)
    (hitoh : ∀ p ∈ maskedPairs H W (effMask c.mask) c.wrap, |φ p.1 - φ p.2| < half) :
    ∃ out : List ℝ, (runSession half wrapf (pre ++ c :: post))[pre.length]? = some (.unwrapped out) ∧
      out.length = H * W ∧
      ∀ a b, a < H * W → b < H * W → Conn (maskedPairs H W (effMask c.mask) c.wrap) a b →
        out.getD a 0 - φ a = out.getD b 0 - φ b := by
  obtain ⟨out, h1, h2, h3⟩ := call_valid_correct half hh wrapf c H W hwf φ n hwrap hitoh
  refine ⟨out, ?_, h2, h3⟩
  simp [runSession, h1]

/-- every call of a history has the outcome it has alone, rejected calls included -/
theorem session_pointwise {R : Type} [Num R] (half : R) (wrapf : R → R) (cs : List (Call R)) :
    (runSession half wrapf cs).length = cs.length ∧
    ∀ k (hk : k < cs.length), (runSession half wrapf cs)[k]? = some (callOutcome half wrapf cs[k]) := by
  refine ⟨by simp [runSession], fun k hk => ?_⟩
  simp [runSession, hk]

/-- **The rejected calls** of `unwrap_phase_2d_torch`, by exception type: an unknown method is a
ValueError whatever the other arguments are; a phase that is not 2-D is a ValueError under both
methods; the Poisson method on a bounded grid is NotImplementedError; a mask whose shape does not
broadcast against the grid is a RuntimeError; a mask that does broadcast but has fewer elements
than the grid (shape `(W,)`, `(1, W)`, `(H, 1)`, `(1, 1)`, …) is an IndexError — it is never silently
broadcast — on every grid that has a neighbour pair. -/
theorem rejected_calls {R : Type} [Num R] (half : R) (wrapf : R → R) (c : Call R) :
    (c.method = .other → callOutcome half wrapf c = .raised .valueError) ∧
    (c.method ≠ .other → c.phiShape.length ≠ 2 → callOutcome half wrapf c = .raised .valueError) ∧
    (∀ H W, c.method = .poisson → c.phiShape = [H, W] → c.wrap = false →
      callOutcome half wrapf c = .raised .notImplementedError) ∧
    (∀ H W m, c.method = .reliabilitySorting → c.phiShape = [H, W] → c.mask = some m →
      broadcastShape m.shape [H, W] = none → callOutcome half wrapf c = .raised .runtimeError) ∧
    (∀ H W m s, c.method = .reliabilitySorting → c.phiShape = [H, W] → c.mask = some m →
      broadcastShape m.shape [H, W] = some s → numel m.shape < H * W → (c.wrap = true ∨ 2 ≤ H * W) →
      callOutcome half wrapf c = .raised .indexError) := by
  obtain ⟨meth, shape, phi, mask, wrap, order⟩ := c
  refine ⟨?_, ?_, ?_, ?_, ?_⟩
  · intro h; simp only at h; subst h; rfl
  · intro hm hl
    simp only at hm hl
    have hshape : ∀ a b, shape ≠ [a, b] := by
      intro a b h; subst h; simp at hl
    cases meth with
    | other => exact absurd rfl hm
    | poisson =>
      match shape, hshape with
      | [], _ => rfl
      | [_], _ => rfl
      | [a, b], h => exact absurd rfl (h a b)
      | _ :: _ :: _ :: _, _ => rfl
    | reliabilitySorting =>
      match shape, hshape with
      | [], _ => rfl
      | [_], _ => rfl
      | [a, b], h => exact absurd rfl (h a b)
      | _ :: _ :: _ :: _, _ => rfl
  · intro H W hm hs hw
    simp only at hm hs hw
    subst hm hs hw
    rfl
  · intro H W m hm hs hmask hb
    simp only at hm hs hmask
    subst hm hs hmask
    simp [callOutcome, validateWorker, hb]
  · intro H W m s hm hs hmask hb hsmall hgrid
    simp only at hm hs hmask hgrid
    subst hm hs hmask
    simp [callOutcome, validateWorker_small_mask H W m wrap s hb hsmall hgrid]

/-- **Invariant over every history of `union` calls on one `UnionFindPhase` object, calls that
RAISE included.**  Take any list of calls `uf.union(i1, i2, inc)` with arbitrary indices.  Exactly
the calls with an index past the end raise (IndexError from `self.parent[root]`), and they leave
the object untouched: the final state is the state after the accepted calls alone.  So everything
proved for accepted edge lists holds after any history: the structure is a rank-ordered forest,
`find` terminates at a root from every pixel, and the offsets are consistent with every integer
field the ACCEPTED increments are differences of. -/
theorem uf_history_invariant (N : Nat) (es : List Edge) :
    ∃ u, ufHistory (UF.init N) es = some (u, es.map fun e => !InRange N e) ∧
      unionAll (UF.init N) (es.filter (InRange N)) = some u ∧ WF u N ∧
      (∀ x, x < N → ∃ r t, u.find x = some (r, t) ∧ r < N ∧ u.par r = r) ∧
      (∀ n : Nat → Int, (∀ e ∈ es, InRange N e = true → e.inc = n e.i1 - n e.i2) →
        Consistent u N n ∧ ∀ x r t, x < N → u.find x = some (r, t) → t = n x - n r) := by
  obtain ⟨u, hhist, hall, hwf⟩ := ufHistory_spec es (UF.init N) (UF.init_wf N)
  refine ⟨u, hhist, hall, hwf, fun x hx => ?_, fun n hn => ?_⟩
  · obtain ⟨r, t, h⟩ := UF.find_terminates hwf x hx
    exact ⟨r, t, h, UF.find_root hwf hx h⟩
  · have hin : ∀ e ∈ es.filter (InRange N), e.i1 < N ∧ e.i2 < N := by
      intro e he
      have := (List.mem_filter.mp he).2
      simpa [InRange] using this
    obtain ⟨u', hu', _, hc, _⟩ := unionAll_spec (es.filter (InRange N)) (UF.init N) (UF.init_wf N) hin
    rw [hall] at hu'
    obtain rfl : u = u' := by simpa using hu'
    have hcons : Consistent u N n := hc n (UF.init_consistent N n) (fun e he =>
      hn e (List.mem_filter.mp he).1 (List.mem_filter.mp he).2)
    exact ⟨hcons, fun x r t hx h => UF.find_consistent hwf hcons hx h⟩

/-- **Argument handling of `unwrap_bf_overlap_phase_torch`.**  With value tensors of the right
length: (i) under `method="reliability-sorting"` the function is `unwrapBfOverlap` (to which
`bf_overlap_full_correct` applies); (ii) `method` is validated LAZILY — an unknown method either
raises ValueError or, when no unwrapping pass is needed (empty overlap mask, or `max - min ≤ π`),
returns exactly what the valid method returns.  (iii) A value tensor whose length is neither the
number of bright-field pixels nor 1 is a RuntimeError. -/
theorem bf_args_spec (half : ℝ) (H W : Nat) (bfMask : Nat → Bool) (maskBf : List Bool) (phaseBf : List ℝ)
    (twoPass wrap : Bool) (order1 order2 : List (Nat × Nat)) :
    (maskBf.length = (bfPositions (H * W) bfMask).length →
     phaseBf.length = (bfPositions (H * W) bfMask).length →
      (unwrapBfOverlapM half .reliabilitySorting H W bfMask maskBf phaseBf twoPass wrap order1 order2
        = match unwrapBfOverlap half H W bfMask maskBf phaseBf twoPass order1 order2 with
          | none => .diverged
          | some (br, out) => .result br out) ∧
      (unwrapBfOverlapM half .other H W bfMask maskBf phaseBf twoPass wrap order1 order2 = .raised .valueError ∨
        ∃ br out, (br = .noMask ∨ br = .smallRange) ∧
          unwrapBfOverlapM half .other H W bfMask maskBf phaseBf twoPass wrap order1 order2 = .result br out ∧
          unwrapBfOverlapM half .reliabilitySorting H W bfMask maskBf phaseBf twoPass wrap order1 order2
            = .result br out)) ∧
    (phaseBf.length ≠ (bfPositions (H * W) bfMask).length → phaseBf.length ≠ 1 →
      ∀ meth, unwrapBfOverlapM half meth H W bfMask maskBf phaseBf twoPass wrap order1 order2
        = .raised .runtimeError) := by
  refine ⟨fun hM hP => ⟨?_, ?_⟩, fun hne h1 meth => ?_⟩
  · unfold unwrapBfOverlapM
    simp only [scatterVals, hM, hP, beq_self_eq_true, if_true]
    split
    · next h =>
      unfold unwrapBfOverlap bfUnwrapGrid
      simp only [h, ↓reduceIte]
    · next h =>
      split
      · next h' =>
        unfold unwrapBfOverlap bfUnwrapGrid
        simp only [h, h', ↓reduceIte, Bool.false_eq_true]
      · generalize unwrapBfOverlap half H W bfMask maskBf phaseBf twoPass order1 order2 = r
        cases r with
        | none => rfl
        | some p => obtain ⟨br, out⟩ := p; rfl
  · unfold unwrapBfOverlapM
    simp only [scatterVals, hM, hP, beq_self_eq_true, if_true]
    split
    · exact Or.inr ⟨.noMask, _, Or.inl rfl, rfl, rfl⟩
    · split
      · exact Or.inr ⟨.smallRange, _, Or.inr rfl, rfl, rfl⟩
      · exact Or.inl rfl
  · unfold unwrapBfOverlapM
    simp only [scatterVals_mismatch _ phaseBf hne h1]

/-! ## Non-vacuity -/

/-- the grids that produce self-loops and duplicate edges -/
example : edgePairs 2 1 true = [(0, 0), (1, 1), (0, 1), (1, 0)] := by decide
example : edgePairs 1 2 true = [(0, 1), (1, 0), (0, 0), (1, 1)] := by decide
example : edgePairs 2 3 false = [(0, 1), (1, 2), (3, 4), (4, 5), (0, 3), (1, 4), (2, 5)] := by decide

/-- a 1×4 ramp of slope 3/4·π in units of π (`half = 1`): φ = 0, 3/4, 3/2, 9/4 wraps to
0, 3/4, -1/2, 1/4 with wrap counts 0,0,1,1; Itoh holds; the hypotheses of `unwrap_correct_grid`
are satisfiable with a field that really wraps. -/
example : ∃ (φ w : Nat → ℝ) (n : Nat → ℤ),
    IsWrapOn 1 (fun i => i < 1 * 4 ∧ (fun _ => true) i = true) w φ n ∧ (∀ p ∈ maskedPairs 1 4 (fun _ => true) false, |φ p.1 - φ p.2| < 1) ∧
    (∃ i, n i ≠ 0) ∧ [(2, 3), (0, 1), (1, 2)].Perm (maskedPairs 1 4 (fun _ => true) false) := by
  refine ⟨fun i => 3 / 4 * i, fun i => 3 / 4 * i - 2 * (if i < 2 then 0 else 1 : ℤ),
    fun i => if i < 2 then 0 else 1, ?_, ?_, ⟨2, by norm_num⟩, by decide⟩
  · intro i hi
    have : i = 0 ∨ i = 1 ∨ i = 2 ∨ i = 3 := by have := hi.1; omega
    rcases this with rfl | rfl | rfl | rfl <;> norm_num
  · have : maskedPairs 1 4 (fun _ => true) false = [(0, 1), (1, 2), (2, 3)] := by decide
    rw [this]
    intro p hp
    simp only [List.mem_cons, List.not_mem_nil, or_false] at hp
    rcases hp with rfl | rfl | rfl <;> norm_num [abs_lt]

/-- the executable model on that ramp, merged in the order (2,3),(0,1),(1,2): offsets 0,0,1,1 -/
example : (unionAll (UF.init 4) [⟨2, 3, 0⟩, ⟨0, 1, 0⟩, ⟨1, 2, -1⟩]).bind finalOffsets = some [0, 0, 1, 1] := by
  decide

/-- a consistent increment field exists for that run (`n = 0,0,1,1`, `inc = n i1 - n i2`) -/
example : ∀ e ∈ [(⟨2, 3, 0⟩ : Edge), ⟨0, 1, 0⟩, ⟨1, 2, -1⟩],
    e.inc = (fun i => if i < 2 then (0 : Int) else 1) e.i1 - (fun i => if i < 2 then (0 : Int) else 1) e.i2 := by
  decide

/-- the executable model (run at `Rat`, `half = 1`, as the driver does) on that ramp: the wrapped
input 0, 3/4, -1/2, 1/4 comes back as the ramp 0, 3/4, 3/2, 9/4 minus its mean -/
example : unwrapPhase2d (1 : Rat) 1 4 (fun i => #[0, 3/4, -1/2, 1/4].getD i 0) [(2, 3), (0, 1), (1, 2)]
    = some [-9/8, -3/8, 3/8, 9/8] := by decide +kernel

/-- … and through the bright-field body with all four pixels in the overlap mask: both passes run -/
example : (bfUnwrapGrid (1 : Rat) 1 4 (fun i => #[0, 3/4, -1/2, 1/4].getD i 0) (fun _ => true) true
      [(2, 3), (0, 1), (1, 2)] [(0, 1), (1, 2), (2, 3)]).map (fun r => (r.1, (List.range 4).map r.2))
    = some (.twoPass, [-9/8, -3/8, 3/8, 9/8]) := by decide +kernel

/-- the same ramp stored in the `[0, 2π)` convention (0, 3/4, 3/2, 1/4 with wrap counts 0,0,0,1):
the hypotheses of `unwrap_correct_grid_window` with `c = 0` are satisfiable by a field that wraps -/
example : ∃ (φ w : Nat → ℝ) (n : Nat → ℤ),
    IsWrapInWindow 1 0 (fun i => i < 1 * 4 ∧ (fun _ => true) i = true) w φ n ∧
    (∀ p ∈ maskedPairs 1 4 (fun _ => true) false, |φ p.1 - φ p.2| < 1) ∧ (∃ i, n i ≠ 0) ∧ (∃ i, 1 < w i) := by
  refine ⟨fun i => 3 / 4 * i, fun i => 3 / 4 * i - 2 * (if i < 3 then 0 else 1 : ℤ),
    fun i => if i < 3 then 0 else 1, ?_, ?_, ⟨3, by norm_num⟩, ⟨2, by norm_num⟩⟩
  · intro i hi
    have : i = 0 ∨ i = 1 ∨ i = 2 ∨ i = 3 := by have := hi.1; omega
    rcases this with rfl | rfl | rfl | rfl <;> norm_num
  · have : maskedPairs 1 4 (fun _ => true) false = [(0, 1), (1, 2), (2, 3)] := by decide
    rw [this]
    intro p hp
    simp only [List.mem_cons, List.not_mem_nil, or_false] at hp
    rcases hp with rfl | rfl | rfl <;> norm_num [abs_lt]

/-- … and the executable model on it: the `[0, 2π)` input and the already-unwrapped input both come
back as the ramp minus its mean (the model never wraps its input) -/
example : unwrapPhase2d (1 : Rat) 1 4 (fun i => #[0, 3/4, 3/2, 1/4].getD i 0) [(2, 3), (0, 1), (1, 2)]
    = some [-9/8, -3/8, 3/8, 9/8] := by decide +kernel
example : unwrapPhase2d (1 : Rat) 1 4 (fun i => #[0, 3/4, 3/2, 9/4].getD i 0) [(2, 3), (0, 1), (1, 2)]
    = some [-9/8, -3/8, 3/8, 9/8] := by decide +kernel

/-- `_pixel_reliability` and the sort, executed: on the 2×3 field below (units of π) the pixel
reliabilities are as listed, the order shown is ascending in the edge reliability and a permutation
of the seven bounded-grid pairs (what `sortedPairs` returns), and the unions in that order give the
output below -/
example : (List.range 6).map (pixelReliability wrapToPiRat 2 3 (fun i => #[0, 1/2, -3/4, 1/4, 3/4, -1/2].getD i 0) (fun _ => true))
    = [some (7/16), some (39/16), some (11/4), some (39/16), some (7/16), some (11/4)] := by decide +kernel
example : ascendingIn (pixelReliability wrapToPiRat 2 3 (fun i => #[0, 1/2, -3/4, 1/4, 3/4, -1/2].getD i 0) (fun _ => true))
      [(0, 1), (3, 4), (0, 3), (1, 4), (4, 5), (1, 2), (2, 5)] = true ∧
    [(0, 1), (3, 4), (0, 3), (1, 4), (4, 5), (1, 2), (2, 5)].Perm (maskedPairs 2 3 (fun _ => true) false) := by
  constructor
  · decide +kernel
  · decide
example : unwrapPhase2d (1 : Rat) 2 3 (fun i => #[0, 1/2, -3/4, 1/4, 3/4, -1/2].getD i 0)
      [(0, 1), (3, 4), (0, 3), (1, 4), (4, 5), (1, 2), (2, 5)]
    = some [-17/24, -5/24, 13/24, -11/24, 1/24, 19/24] := by decide +kernel

/-- periodic grids with `H` or `W` in {1, 2}, non-square: self-loops and double edges exactly where
`periodic_edges_multiset` says -/
example : edgePairs 1 3 true = [(0, 1), (1, 2), (2, 0), (0, 0), (1, 1), (2, 2)] := by decide
example : edgePairs 2 3 true =
    [(0, 1), (1, 2), (2, 0), (3, 4), (4, 5), (5, 3), (0, 3), (1, 4), (2, 5), (3, 0), (4, 1), (5, 2)] := by decide
example : edgePairs 3 2 true =
    [(0, 1), (1, 0), (2, 3), (3, 2), (4, 5), (5, 4), (0, 2), (1, 3), (2, 4), (3, 5), (4, 0), (5, 1)] := by decide
example : (edgePairs 3 2 true).count (0, 1) = 1 ∧ (edgePairs 3 2 true).count (1, 0) = 1 ∧
    (edgePairs 1 1 true).count (0, 0) = 2 := by decide

/-- the whole bright-field function executed: 2×3 grid, bf pixels 1,2,4,5, overlap mask = bf pixels
1,2,5 (entry 2 of the four is switched off); the four entries come back in bf order -/
example : unwrapBfOverlap (1 : Rat) 2 3 (fun i => i % 3 != 0) [true, true, false, true] [3/4, -1/2, 1/8, 1/4] false
      [(2, 5), (1, 2)] []
    = some (.onePass, [-1, -1/4, 0, 1/2]) := by decide +kernel

/-! ### growth 5: argument handling and histories -/

/-- outcome of a call, flattened for comparison in the examples -/
def outcomeTag {R : Type} : Outcome R → String × Option (List R)
  | .raised .valueError => ("ValueError", none)
  | .raised .notImplementedError => ("NotImplementedError", none)
  | .raised .indexError => ("IndexError", none)
  | .raised .runtimeError => ("RuntimeError", none)
  | .unwrapped out => ("ok", some out)
  | .poisson => ("poisson", none)
  | .diverged => ("diverged", none)

/-- a history on the module as the harness runs it (2×2 grid, `half = 1`): a row mask of shape
`(2,)` that broadcasts but has too few elements (IndexError), an unknown method, a 1-D phase, a mask
that does not broadcast, Poisson on a bounded grid — and the valid call after all of them returns
what it returns alone -/
example :
    let φ : Nat → Rat := fun i => #[0, 3/4, -1/2, 1/4].getD i 0
    (runSession (1 : Rat) wrapToPiRat [
      ⟨.reliabilitySorting, [2, 2], φ, some ⟨[2], [true, true]⟩, false, none⟩,
      ⟨.other, [2, 2], φ, none, false, none⟩,
      ⟨.reliabilitySorting, [4], φ, none, true, none⟩,
      ⟨.reliabilitySorting, [2, 2], φ, some ⟨[3], [true, true, true]⟩, true, none⟩,
      ⟨.poisson, [2, 2], φ, none, false, none⟩,
      ⟨.poisson, [2, 2], φ, none, true, none⟩,
      ⟨.reliabilitySorting, [2, 2], φ, some ⟨[2, 2], [true, true, true, true]⟩, false, some [(0, 1), (2, 3), (0, 2), (1, 3)]⟩]).map outcomeTag
    = [("IndexError", none), ("ValueError", none), ("ValueError", none), ("RuntimeError", none),
       ("NotImplementedError", none), ("poisson", none),
       (outcomeTag (callOutcome (1 : Rat) wrapToPiRat
          ⟨.reliabilitySorting, [2, 2], φ, some ⟨[2, 2], [true, true, true, true]⟩, false,
            some [(0, 1), (2, 3), (0, 2), (1, 3)]⟩))] := by
  decide +kernel

/-- `WellFormed` and the hypotheses of `call_valid_correct` / `session_exception_safe` are
satisfiable by a field that really wraps: the 1×4 ramp above, with a full-shape mask -/
example : ∃ (c : Call ℝ) (φ : Nat → ℝ) (n : Nat → ℤ), WellFormed c 1 4 ∧
    IsWrapOn 1 (fun i => i < 1 * 4 ∧ effMask c.mask i = true) c.phi φ n ∧
    (∀ p ∈ maskedPairs 1 4 (effMask c.mask) c.wrap, |φ p.1 - φ p.2| < 1) ∧ (∃ i, n i ≠ 0) := by
  refine ⟨⟨.reliabilitySorting, [1, 4], fun i => 3 / 4 * i - 2 * (if i < 2 then 0 else 1 : ℤ),
      some ⟨[1, 4], [true, true, true, true]⟩, false, none⟩,
    fun i => 3 / 4 * i, fun i => if i < 2 then 0 else 1, ?_, ?_, ?_, ⟨2, by norm_num⟩⟩
  · exact ⟨rfl, rfl, fun m hm => by cases hm; rfl, fun o ho => by cases ho⟩
  · intro i hi
    have : i = 0 ∨ i = 1 ∨ i = 2 ∨ i = 3 := by have := hi.1; omega
    rcases this with rfl | rfl | rfl | rfl <;> norm_num
  · have : maskedPairs 1 4 (effMask (some ⟨[1, 4], [true, true, true, true]⟩)) false = [(0, 1), (1, 2), (2, 3)] := by
      decide
    simp only [this]
    intro p hp
    simp only [List.mem_cons, List.not_mem_nil, or_false] at hp
    rcases hp with rfl | rfl | rfl <;> norm_num [abs_lt]

/-- a history of `union` calls with two rejected ones: flags, and the state equals the state after
the accepted calls alone -/
example : (ufHistory (UF.init 3) [⟨0, 1, 1⟩, ⟨0, 3, 0⟩, ⟨5, 1, 2⟩, ⟨1, 2, -1⟩]).map (·.2)
    = some [false, true, true, false] := by decide
example : ((ufHistory (UF.init 3) [⟨0, 1, 1⟩, ⟨0, 3, 0⟩, ⟨5, 1, 2⟩, ⟨1, 2, -1⟩]).bind fun r => finalOffsets r.1)
    = (unionAll (UF.init 3) [⟨0, 1, 1⟩, ⟨1, 2, -1⟩]).bind finalOffsets := by decide

/-- lazy validation of `method` in the bright-field function, executed: an unknown method is accepted
while the range is small, and rejected as soon as a pass is needed; a value tensor of a wrong length
is rejected -/
example : (match unwrapBfOverlapM (1 : Rat) .other 1 3 (fun _ => true) [true, true, true] [0, 1/4, 1/2] true true [] [] with
    | .result br out => some (br, out) | _ => none) = some (.smallRange, [0, 1/4, 1/2]) := by decide +kernel
example : (match unwrapBfOverlapM (1 : Rat) .other 1 3 (fun _ => true) [true, true, true] [0, 3/4, -1/2] true true [] [] with
    | .raised e => some e | _ => none) = some .valueError := by decide +kernel
example : (match unwrapBfOverlapM (1 : Rat) .reliabilitySorting 1 3 (fun _ => true) [true, true, true] [0, 3/4] true true [] [] with
    | .raised e => some e | _ => none) = some .runtimeError := by decide +kernel

end QuantemModel.Props.C17
