import QuantemModel.Lemmas.DatasetAbs
import QuantemModel.Props.C03
/-!
C03 — growth round 6 (listed in `EXTRA_PROPS` of harness/props/c03.py).

* refinement of whole histories (raising calls included) to the calibration skeleton machine
  (`Model/DatasetAbs.lean`): `step_forget`, `outcome_value_free`, `run_forget`;
* negative slice steps / reversed slices / last index for every axis length: `reversed_slice`,
  `neg_step_slice`, `last_index_and_length`.
-/
namespace QuantemModel.Props.C03
open QuantemModel QuantemModel.Nd QuantemModel.Resample QuantemModel.Dataset QuantemModel.DatasetAbs

/-- **one call refines to the skeleton machine**: the same call on the value-free dataset raises exactly
when the call on the full dataset raises, with the same error kind, and otherwise ends in the value-free
images of the receiver and of the returned dataset — for EVERY public operation, in place or copying, every
argument (malformed ones included), no hypothesis on the state. -/
theorem step_forget (d : Ds) (op : Op) :
    step (forget d) (forgetOp op) = mapOk forgetRes (step d op) := by
  cases op with
  | copy =>
    simp only [step, forgetOp, copy_forget]
    cases Dataset.copy d <;> rfl
  | setOrigin v =>
    simp only [step, forgetOp, setOrigin_forget]
    cases setOrigin d v <;> rfl
  | setSampling v =>
    simp only [step, forgetOp, setSampling_forget]
    cases setSampling d v <;> rfl
  | setUnits v =>
    simp only [step, forgetOp, setUnits_forget]
    cases setUnits d v <;> rfl
  | setArray sh dat k =>
    simp only [step, forgetOp, setArray_forget d sh dat k]
    cases setArray d sh dat k <;> rfl
  | touch => rfl
  | pad a ip => exact pad_forget d a ip
  | crop w a ip => exact crop_forget d w a ip
  | bin f a m b ip => exact bin_forget d f a m b ip
  | resample a ax ip => exact resample_forget d a ax ip
  | getitem ix =>
    simp only [step, forgetOp, getitem_forget]
    cases getitem d ix <;> rfl
  | dpReduce k =>
    simp only [step, forgetOp, dpReduce_forget]
    cases dpReduce d k <;> rfl
  | virtualImage ms m =>
    simp only [step, forgetOp, virtualImage_forget]
    cases virtualImage d ms m <;> rfl
  | frame k =>
    simp only [step, forgetOp, frame_forget]
    cases frame d k <;> rfl

/-- **which calls raise, and with which error, never depends on the array values** -/
theorem outcome_value_free (d : Ds) (op : Op) (e : Err) :
    step d op = .error e ↔ step (forget d) (forgetOp op) = .error e := by
  rw [step_forget]
  cases step d op <;> simp [mapOk]

/-- **whole histories refine to the skeleton machine** (raising calls included, whichever of receiver /
returned dataset every step continues on, no depth bound): running a history on the full machine and then
erasing the values is the same as running the value-erased history on the value-free dataset.  So class,
shape, dtype kind, origin, sampling and units after ANY history are those of the skeleton machine — they
cannot depend on the data — and by `inv_run` they are coherent. -/
theorem run_forget (ops : List (Op × Bool)) :
    ∀ d : Ds, forget (run d ops) = run (forget d) (forgetHist ops) := by
  induction ops with
  | nil => intro d; rfl
  | cons p rest ih =>
    intro d
    obtain ⟨op, follow⟩ := p
    simp only [forgetHist, List.map_cons, run]
    rw [step_forget]
    cases step d op with
    | error e => simpa [forgetHist] using ih d
    | ok q =>
      obtain ⟨d', r⟩ := q
      simp only [mapOk_ok, forgetRes]
      cases follow <;> cases r <;> simpa [forgetHist] using ih _


/-- **every history, seen through its skeleton**: for a coherent start and well-formed calls, class, shape, dtype
kind, origin, sampling and units after the history are exactly those the value-free skeleton machine computes
(`run_forget`), and the dataset is coherent (`inv_run`) — raising calls included. -/
theorem skeleton_history_spec (ops : List (Op × Bool)) (hw : ∀ p ∈ ops, p.1.WF) (d : Ds) (hi : Inv d) :
    Inv (run d ops) ∧ Inv (run (forget d) (forgetHist ops)) ∧
    (run d ops).cls = (run (forget d) (forgetHist ops)).cls ∧
    (run d ops).shape = (run (forget d) (forgetHist ops)).shape ∧
    (run d ops).kind = (run (forget d) (forgetHist ops)).kind ∧
    (run d ops).origin = (run (forget d) (forgetHist ops)).origin ∧
    (run d ops).sampling = (run (forget d) (forgetHist ops)).sampling ∧
    (run d ops).units = (run (forget d) (forgetHist ops)).units := by
  have h := run_forget ops d
  have hinv := inv_run ops hw d hi
  refine ⟨hinv, ?_, ?_, ?_, ?_, ?_, ?_, ?_⟩
  · rw [← h]
    obtain ⟨h1, h2, h3, h4, _⟩ := hinv
    exact ⟨h1, h2, h3, h4, by intro dat hd; simp at hd⟩
  all_goals rw [← h]

/-! ### calls that change nothing (the candidates for a fast path) -/

/-- **padding that adds nothing is the identity on shape and calibration**: `pad(output_shape=o)` with every
`o[i] ≤ shape[i]` (the current shape in particular), `pad(0)` and `pad((0, 0))`, in place, succeed and leave class,
shape, dtype kind, origin, sampling, units; on a coherent dataset the copying variant returns exactly the dataset the
in-place variant produces and leaves the receiver (`inplace_eq_copy`). -/
theorem pad_noop (d : Ds) (a : PadArg)
    (ha : (∃ o, a = .outShape o ∧ List.Forall₂ (fun (x : Int) (n : Nat) => x ≤ n) o d.shape) ∨
      a = .width (.all 0) ∨ a = .width (.pair 0 0)) :
    ∃ r, step d (.pad a true) = .ok (r, none) ∧ forget r = forget d ∧
      (Inv d → step d (.pad a false) = .ok (d, some r)) := by
  have hw : ∃ w, padWidthsOf d.shape a = .ok w ∧ padShape d.shape w = d.shape := by
    rcases ha with ⟨o, rfl, ho⟩ | rfl | rfl
    · refine ⟨List.zipWith padWidths o d.shape, ?_, padShape_le ho⟩
      simp [padWidthsOf, ho.length_eq]
    · exact ⟨List.replicate d.shape.length (0, 0), by simp [padWidthsOf], padShape_zero _⟩
    · exact ⟨List.replicate d.shape.length (0, 0), by simp [padWidthsOf, nonneg2], padShape_zero _⟩
  obtain ⟨w, hw1, hw2⟩ := hw
  have hs : step d (.pad a true) = .ok ({ d with shape := padShape d.shape w, data := padData d w }, none) := by
    simp [step, pad, hw1]
  refine ⟨_, hs, ?_, ?_⟩
  · simp [forget, hw2]
  · intro hi
    have := (inplace_eq_copy hi (.pad a true) (by simp [Op.inplace?])).2 _ _ |>.mp hs
    exact this.2

/-- **binning by 1 is the identity on shape and calibration**: `bin(1, axes)` for any valid `axes` (sum or mean, in
place) succeeds and leaves class, shape, origin, sampling and units; only the dtype kind follows `binKind` (a boolean
array becomes an integer one under `np.sum`, integers become floats under `mean`). -/
theorem bin_by_one_noop (d : Ds) (ax : AxesArg) (mean : Bool) {axs : List Nat} (h : axesList d.ndim ax = .ok axs) :
    ∃ r, step d (.bin (.one 1) ax mean false true) = .ok (r, none) ∧
      forget r = { forget d with kind := binKind d.kind mean } ∧
      (Inv d → step d (.bin (.one 1) ax mean false false) = .ok (d, some r)) := by
  have hv : ∀ p ∈ dictZip (axs.map Int.ofNat) (List.replicate axs.length (1 : Int)), p.2 = 1 := by
    intro p hp
    have := dictZip_vals _ _ p hp
    simpa using (List.eq_of_mem_replicate this)
  have hs : ∃ r, step d (.bin (.one 1) ax mean false true) = .ok (r, none) ∧
      forget r = { forget d with kind := binKind d.kind mean } := by
    refine ⟨{ d with
        shape := binShape d.shape (facsPerAxis d.ndim (dictZip (axs.map Int.ofNat) (List.replicate axs.length (1 : Int)))),
        data := binData d (facsPerAxis d.ndim (dictZip (axs.map Int.ofNat) (List.replicate axs.length (1 : Int)))) mean
          (prod ((dictZip (axs.map Int.ofNat) (List.replicate axs.length (1 : Int))).map fun p => p.2.toNat)),
        kind := binKind d.kind mean,
        origin := (binCalib d.origin d.sampling (dictZip (axs.map Int.ofNat) (List.replicate axs.length (1 : Int)))).1,
        sampling := (binCalib d.origin d.sampling (dictZip (axs.map Int.ofNat) (List.replicate axs.length (1 : Int)))).2 }, ?_, ?_⟩
    · simp [step, bin, h, binFactors]
    · simp only [forget, facsPerAxis_ones _ _ hv, binCalib_ones _ _ _ hv, Ds.ndim, binShape_ones]
  obtain ⟨r, hs, hf⟩ := hs
  refine ⟨r, hs, hf, ?_⟩
  intro hi
  have := (inplace_eq_copy hi (.bin (.one 1) ax mean false true) (by simp [Op.inplace?])).2 _ _ |>.mp hs
  exact this.2

/-! ### negative steps, reversed slices, last index -/

/-- **`a[::-1]` for every axis length** (0 included): start `n-1`, step `-1`, all `n` entries; result
position `t` reads source position `n-1-t`; the calibration sees step `-1` (sampling is negated by
`getitem_spec`). -/
theorem reversed_slice (n : Nat) :
    selOf n (.slice none none (some (-1))) = .ok (.rng ((n : Int) - 1) (-1) n) ∧
    (Sel.rng ((n : Int) - 1) (-1) n).step = -1 ∧
    ∀ t, t < n → (Sel.rng ((n : Int) - 1) (-1) n).at t = n - 1 - t := by
  refine ⟨?_, rfl, ?_⟩
  · simp only [selOf, sliceIndices]
    simp
    omega
  · intro t ht
    simp only [Sel.at]
    omega

/-- **`a[::-k]` for every axis length `n ≥ 1` and every `k ≥ 1`**: start at the LAST index `n-1`, step `-k`,
`(n-1)/k + 1` entries, and every position read, `n-1-k·t`, lies inside the axis. -/
theorem neg_step_slice (n : Nat) (k : Int) (hn : 0 < n) (hk : 0 < k) :
    selOf n (.slice none none (some (-k)))
      = .ok (.rng ((n : Int) - 1) (-k) ((((n : Int) - 1) / k + 1).toNat)) ∧
    ∀ t : Nat, t < ((((n : Int) - 1) / k + 1).toNat) →
      0 ≤ (n : Int) - 1 + -k * (t : Int) ∧ (n : Int) - 1 + -k * (t : Int) < n := by
  constructor
  · simp only [selOf, sliceIndices]
    have h0 : ¬ ((some (-k) : Option Int).getD 1 = 0) := by simp; omega
    have h1 : (some (-k) : Option Int).getD 1 < 0 := by simp; omega
    have h2 : ¬ ((some (-k) : Option Int).getD 1 > 0) := by simp; omega
    simp only [h0, h1, h2, if_true, if_false]
    have h3 : (-1 : Int) < (n : Int) - 1 := by omega
    simp only [h3, if_true]
    simp
  · intro t ht
    have hq : 0 ≤ ((n : Int) - 1) / k := Int.ediv_nonneg (by omega) (by omega)
    have ht' : (t : Int) ≤ ((n : Int) - 1) / k := by omega
    have hm : ((n : Int) - 1) / k * k ≤ (n : Int) - 1 := Int.ediv_mul_le _ (by omega)
    have : k * (t : Int) ≤ ((n : Int) - 1) / k * k := by
      rw [Int.mul_comm k]; exact Int.mul_le_mul_of_nonneg_right ht' (by omega)
    have hnn : 0 ≤ k * (t : Int) := Int.mul_nonneg (by omega) (by omega)
    constructor
    · have : -k * (t : Int) = -(k * (t : Int)) := Int.neg_mul _ _
      omega
    · have : -k * (t : Int) = -(k * (t : Int)) := Int.neg_mul _ _
      omega

/-- **last index and index == length**, for every axis length: `n-1` and `-1` both address the last entry,
`-n` the first, while `n` and `-n-1` are IndexErrors — as integers and as list entries. -/
theorem last_index_and_length (n : Nat) (hn : 0 < n) :
    selOf n (.int ((n : Int) - 1)) = .ok (.pt (n - 1)) ∧ selOf n (.int (-1)) = .ok (.pt (n - 1)) ∧
    selOf n (.int (-(n : Int))) = .ok (.pt 0) ∧
    selOf n (.int n) = .error .index ∧ selOf n (.int (-(n : Int) - 1)) = .error .index ∧
    selOf n (.list [0, (n : Int)]) = .error .index ∧ selOf n (.list [-1, 0]) = .ok (.lst [n - 1, 0]) := by
  have a1 : normPos n ((n : Int) - 1) = .ok (n - 1) := by
    simp only [normPos]; rw [if_pos (by omega)]; congr 1; omega
  have a2 : normPos n (-1) = .ok (n - 1) := by
    simp only [normPos]; rw [if_neg (by omega), if_pos (by omega)]; congr 1; omega
  have a3 : normPos n (-(n : Int)) = .ok 0 := by
    simp only [normPos]; rw [if_neg (by omega), if_pos (by omega)]; congr 1; omega
  have a4 : normPos n (n : Int) = .error .index := by
    simp only [normPos]; rw [if_neg (by omega), if_neg (by omega)]
  have a5 : normPos n (-(n : Int) - 1) = .error .index := by
    simp only [normPos]; rw [if_neg (by omega), if_neg (by omega)]
  have a0 : normPos n 0 = .ok 0 := by
    simp only [normPos]; rw [if_pos (by omega)]; rfl
  refine ⟨by simp [selOf, a1], by simp [selOf, a2], by simp [selOf, a3], by simp [selOf, a4], by simp [selOf, a5], ?_, ?_⟩
  · simp [selOf, mapMExcept, a0, a4]
  · simp [selOf, mapMExcept, a0, a2]

/-! ### non-vacuity -/

/-- a coherent `Dataset2d` with data -/
def exA : Ds := ⟨.d2, [2, 3], some [⟨1, 0⟩, ⟨2, 0⟩, ⟨3, 0⟩, ⟨4, 0⟩, ⟨5, 0⟩, ⟨6, 0⟩], .int, [0, 1], [1, 2], ["nm", "A"]⟩

-- a history with data, a rejected call (bin by 0) in the middle, an array setter carrying values and a reversed,
-- stepped index: the call is rejected on both machines …
example : step exA (.bin (.many [some 1, some 0]) .all false false true) = .error .value := rfl
example : step (forget exA) (forgetOp (.bin (.many [some 1, some 0]) .all false false true)) = .error .value := rfl
-- … the value-erased history differs from the history (the setter's values are gone) …
example : forgetHist [(Op.setArray [2, 3] (some []) .int, false)] = [(Op.setArray [2, 3] none .int, false)] := rfl
-- … and the full machine does track values where the skeleton has none
example : (run exA [(.getitem [Item.full, .slice none none (some (-2))], true)]).data = some [⟨3, 0⟩, ⟨1, 0⟩, ⟨6, 0⟩, ⟨4, 0⟩] := rfl
example : (run exA [(.getitem [Item.full, .slice none none (some (-2))], true)]).shape = [2, 2] := rfl
example : (run (forget exA) (forgetHist [(.getitem [Item.full, .slice none none (some (-2))], true)])).data = none := rfl
-- hypotheses of `neg_step_slice` / `last_index_and_length` are satisfiable; the general formula on a literal
example : (0 : Nat) < 5 ∧ (0 : Int) < 2 := by decide
example : selOf 5 (.slice none none (some (-2))) = .ok (.rng 4 (-2) 3) := rfl
example : selOf 0 (.slice none none (some (-1))) = .ok (.rng (-1) (-1) 0) := rfl

-- calls that change nothing: hypotheses of `pad_noop` / `bin_by_one_noop` are satisfiable
example : List.Forall₂ (fun (x : Int) (n : Nat) => x ≤ n) [2, 1] exA.shape := by
  refine .cons (by decide) (.cons (by decide) .nil)
example : axesList exA.ndim (.many [-1]) = .ok [1] := rfl

end QuantemModel.Props.C03
