import QuantemModel.Lemmas.DatasetAbs
/-!
C03 — growth round 6 (listed in `EXTRA_PROPS` of harness/props/c03.py).

* refinement of whole histories (raising calls included) to the calibration skeleton machine
  (`Model/DatasetAbs.lean`): `step_forget`, `outcome_value_free`, `run_forget`;
* negative slice steps / reversed slices / last index for every axis length: `reversed_slice`,
  `neg_step_slice`, `last_index_and_length`.
-/
namespace QuantemModel.Props.C03
open QuantemModel QuantemModel.Nd QuantemModel.Resample QuantemModel.Dataset QuantemModel.DatasetAbs

/-- **one call refines to the skeleton machine**: the same call on the value-free dataset raises exactly
when the call on the full dataset raises, with the same error kind, and otherwise ends in the value-free
images of the receiver and of the returned dataset — for EVERY public operation, in place or copying, every
argument (malformed ones included), no hypothesis on the state. -/
theorem step_forget (d : Ds) (op : Op) :
    step (forget d) (forgetOp op) = mapOk forgetRes (step d op) := by
  cases op with
  | copy =>
    simp only [step, forgetOp, copy_forget]
    cases Dataset.copy d <;> rfl
  | setOrigin v =>
    simp only [step, forgetOp, setOrigin_forget]
    cases setOrigin d v <;> rfl
  | setSampling v =>
    simp only [step, forgetOp, setSampling_forget]
    cases setSampling d v <;> rfl
  | setUnits v =>
    simp only [step, forgetOp, setUnits_forget]
    cases setUnits d v <;> rfl
  | setArray sh dat k =>
    simp only [step, forgetOp, setArray_forget d sh dat k]
    cases setArray d sh dat k <;> rfl
  | touch => rfl
  | pad a ip => exact pad_forget d a ip
  | crop w a ip => exact crop_forget d w a ip
  | bin f a m b ip => exact bin_forget d f a m b ip
  | resample a ax ip => exact resample_forget d a ax ip
  | getitem ix =>
    simp only [step, forgetOp, getitem_forget]
    cases getitem d ix <;> rfl
  | dpReduce k =>
    simp only [step, forgetOp, dpReduce_forget]
    cases dpReduce d k <;> rfl
  | virtualImage ms m =>
    simp only [step, forgetOp, virtualImage_forget]
    cases virtualImage d ms m <;> rfl
  | frame k =>
    simp only [step, forgetOp, frame_forget]
    cases frame d k <;> rfl

/-- **which calls raise, and with which error, never depends on the array values** -/
theorem outcome_value_free (d : Ds) (op : Op) (e : Err) :
    step d op = .error e ↔ step (forget d) (forgetOp op) = .error e := by
  rw [step_forget]
  cases step d op <;> simp [mapOk]

/-- **whole histories refine to the skeleton machine** (raising calls included, whichever of receiver /
returned dataset every step continues on, no depth bound): running a history on the full machine and then
erasing the values is the same as running the value-erased history on the value-free dataset.  So class,
shape, dtype kind, origin, sampling and units after ANY history are those of the skeleton machine — they
cannot depend on the data — and by `inv_run` they are coherent. -/
theorem run_forget (ops : List (Op × Bool)) :
    ∀ d : Ds, forget (run d ops) = run (forget d) (forgetHist ops) := by
  induction ops with
  | nil => intro d; rfl
  | cons p rest ih =>
    intro d
    obtain ⟨op, follow⟩ := p
    simp only [forgetHist, List.map_cons, run]
    rw [step_forget]
    cases step d op with
    | error e => simpa [forgetHist] using ih d
    | ok q =>
      obtain ⟨d', r⟩ := q
      simp only [mapOk_ok, forgetRes]
      cases follow <;> cases r <;> simpa [forgetHist] using ih _

/-! ### negative steps, reversed slices, last index -/

/-- **`a[::-1]` for every axis length** (0 included): start `n-1`, step `-1`, all `n` entries; result
position `t` reads source position `n-1-t`; the calibration sees step `-1` (sampling is negated by
`getitem_spec`). -/
theorem reversed_slice (n : Nat) :
    selOf n (.slice none none (some (-1))) = .ok (.rng ((n : Int) - 1) (-1) n) ∧
    (Sel.rng ((n : Int) - 1) (-1) n).step = -1 ∧
    ∀ t, t < n → (Sel.rng ((n : Int) - 1) (-1) n).at t = n - 1 - t := by
  refine ⟨?_, rfl, ?_⟩
  · simp only [selOf, sliceIndices]
    simp
    omega
  · intro t ht
    simp only [Sel.at]
    omega

/-- **`a[::-k]` for every axis length `n ≥ 1` and every `k ≥ 1`**: start at the LAST index `n-1`, step `-k`,
`(n-1)/k + 1` entries, and every position read, `n-1-k·t`, lies inside the axis. -/
theorem neg_step_slice (n : Nat) (k : Int) (hn : 0 < n) (hk : 0 < k) :
    selOf n (.slice none none (some (-k)))
      = .ok (.rng ((n : Int) - 1) (-k) ((((n : Int) - 1) / k + 1).toNat)) ∧
    ∀ t : Nat, t < ((((n : Int) - 1) / k + 1).toNat) →
      0 ≤ (n : Int) - 1 + -k * (t : Int) ∧ (n : Int) - 1 + -k * (t : Int) < n := by
  constructor
  · simp only [selOf, sliceIndices]
    have h0 : ¬ ((some (-k) : Option Int).getD 1 = 0) := by simp; omega
    have h1 : (some (-k) : Option Int).getD 1 < 0 := by simp; omega
    have h2 : ¬ ((some (-k) : Option Int).getD 1 > 0) := by simp; omega
    simp only [h0, h1, h2, if_true, if_false]
    have h3 : (-1 : Int) < (n : Int) - 1 := by omega
    simp only [h3, if_true]
    simp
  · intro t ht
    have hq : 0 ≤ ((n : Int) - 1) / k := Int.ediv_nonneg (by omega) (by omega)
    have ht' : (t : Int) ≤ ((n : Int) - 1) / k := by omega
    have hm : ((n : Int) - 1) / k * k ≤ (n : Int) - 1 := Int.ediv_mul_le _ (by omega)
    have : k * (t : Int) ≤ ((n : Int) - 1) / k * k := by
      rw [Int.mul_comm k]; exact Int.mul_le_mul_of_nonneg_right ht' (by omega)
    have hnn : 0 ≤ k * (t : Int) := Int.mul_nonneg (by omega) (by omega)
    constructor
    · have : -k * (t : Int) = -(k * (t : Int)) := Int.neg_mul _ _
      omega
    · have : -k * (t : Int) = -(k * (t : Int)) := Int.neg_mul _ _
      omega

/-- **last index and index == length**, for every axis length: `n-1` and `-1` both address the last entry,
`-n` the first, while `n` and `-n-1` are IndexErrors — as integers and as list entries. -/
theorem last_index_and_length (n : Nat) (hn : 0 < n) :
    selOf n (.int ((n : Int) - 1)) = .ok (.pt (n - 1)) ∧ selOf n (.int (-1)) = .ok (.pt (n - 1)) ∧
    selOf n (.int (-(n : Int))) = .ok (.pt 0) ∧
    selOf n (.int n) = .error .index ∧ selOf n (.int (-(n : Int) - 1)) = .error .index ∧
    selOf n (.list [0, (n : Int)]) = .error .index ∧ selOf n (.list [-1, 0]) = .ok (.lst [n - 1, 0]) := by
  have a1 : normPos n ((n : Int) - 1) = .ok (n - 1) := by
    simp only [normPos]; rw [if_pos (by omega)]; congr 1; omega
  have a2 : normPos n (-1) = .ok (n - 1) := by
    simp only [normPos]; rw [if_neg (by omega), if_pos (by omega)]; congr 1; omega
  have a3 : normPos n (-(n : Int)) = .ok 0 := by
    simp only [normPos]; rw [if_neg (by omega), if_pos (by omega)]; congr 1; omega
  have a4 : normPos n (n : Int) = .error .index := by
    simp only [normPos]; rw [if_neg (by omega), if_neg (by omega)]
  have a5 : normPos n (-(n : Int) - 1) = .error .index := by
    simp only [normPos]; rw [if_neg (by omega), if_neg (by omega)]
  have a0 : normPos n 0 = .ok 0 := by
    simp only [normPos]; rw [if_pos (by omega)]; rfl
  refine ⟨by simp [selOf, a1], by simp [selOf, a2], by simp [selOf, a3], by simp [selOf, a4], by simp [selOf, a5], ?_, ?_⟩
  · simp [selOf, mapMExcept, a0, a4]
  · simp [selOf, mapMExcept, a0, a2]

/-! ### non-vacuity -/

/-- a coherent `Dataset2d` with data -/
def exA : Ds := ⟨.d2, [2, 3], some [⟨1, 0⟩, ⟨2, 0⟩, ⟨3, 0⟩, ⟨4, 0⟩, ⟨5, 0⟩, ⟨6, 0⟩], .int, [0, 1], [1, 2], ["nm", "A"]⟩

-- a history with data, a rejected call (bin by 0) in the middle, an array setter carrying values and a reversed,
-- stepped index: the call is rejected on both machines …
example : step exA (.bin (.many [some 1, some 0]) .all false false true) = .error .value := rfl
example : step (forget exA) (forgetOp (.bin (.many [some 1, some 0]) .all false false true)) = .error .value := rfl
-- … the value-erased history differs from the history (the setter's values are gone) …
example : forgetHist [(Op.setArray [2, 3] (some []) .int, false)] = [(Op.setArray [2, 3] none .int, false)] := rfl
-- … and the full machine does track values where the skeleton has none
example : (run exA [(.getitem [Item.full, .slice none none (some (-2))], true)]).data = some [⟨3, 0⟩, ⟨1, 0⟩, ⟨6, 0⟩, ⟨4, 0⟩] := rfl
example : (run exA [(.getitem [Item.full, .slice none none (some (-2))], true)]).shape = [2, 2] := rfl
example : (run (forget exA) (forgetHist [(.getitem [Item.full, .slice none none (some (-2))], true)])).data = none := rfl
-- hypotheses of `neg_step_slice` / `last_index_and_length` are satisfiable; the general formula on a literal
example : (0 : Nat) < 5 ∧ (0 : Int) < 2 := by decide
example : selOf 5 (.slice none none (some (-2))) = .ok (.rng 4 (-2) 3) := rfl
example : selOf 0 (.slice none none (some (-1))) = .ok (.rng (-1) (-1) 0) := rfl

end QuantemModel.Props.C03
