import QuantemModel.Lemmas.Constraints
import QuantemModel.Lemmas.GramSchmidt
import QuantemModel.Lemmas.ConstraintsWeights
import QuantemModel.Lemmas.ConstraintsParseval
import QuantemModel.Lemmas.ConstraintsHistory
import QuantemModel.Lemmas.ConstraintsRegistry
/-!
C10 — object and probe constraints yield physically admissible models.
Theorems are about `Model/Constraints.lean` at the real instance of the numeric carrier
(`Real/NumReal.lean`).  Only property theorems and non-vacuity examples live here.

`MaskAll P mask` : every entry of the FOV mask (when one is given) satisfies `P`.
`effMask c.applyFovMask mask` : the mask that is actually applied
(`mask is not None and constraints["apply_fov_mask"]`).
-/
namespace QuantemModel.Props.C10
open QuantemModel QuantemModel.Constraints

/-! ## objects -/

/-- **complex objects have amplitude at most one** — for every raw parameter array, every slice
count, with or without the FOV mask (values in `[0,1]`), with or without slice tying. -/
theorem complex_amp_le_one (c : ObjCons ℝ) (mask : Option (List (List ℝ)))
    (obj : List (List (Cx ℝ)))
    (hmask : MaskAll (fun x => 0 ≤ x ∧ x ≤ 1) (effMask c.applyFovMask mask)) :
    ∀ row ∈ applyHardCx .complex c mask obj, ∀ z ∈ row, Cx.abs z ≤ 1 := by
  rw [applyHardCx_eq]
  have h := mapMasked_forall (cxOut .complex (meanPhase obj)) (effMask c.applyFovMask mask) obj
    (fun z => Cx.abs z ≤ 1) _ hmask
    (fun z => abs_cxOut_complex_le_one _ none z (by simp))
    (fun mk z hmk => abs_cxOut_complex_le_one _ (some mk) z (by intro mk' e; cases e; exact hmk))
  exact tieSlicesC_forall _ _ _ h (meanSlicesC_abs_le _ h)

/-- **pure-phase objects have amplitude exactly one** — for every raw array and EVERY mask (no
side condition on the mask values: the repaired code lets the mask taper the phase only);
slice tying off (the quantifier: "slice tying is only claimed to tie slices"). -/
theorem purephase_amp_eq_one (c : ObjCons ℝ) (mask : Option (List (List ℝ)))
    (obj : List (List (Cx ℝ))) (hid : c.identicalSlices = false) :
    ∀ row ∈ applyHardCx .purePhase c mask obj, ∀ z ∈ row, Cx.abs z = 1 := by
  rw [applyHardCx_eq, hid]
  simp only [tieSlicesC, Bool.and_false, Bool.false_eq_true, if_false]
  exact mapMasked_forall (cxOut .purePhase (meanPhase obj)) (effMask c.applyFovMask mask) obj
    (fun z => Cx.abs z = 1) (fun _ => True) (fun _ _ _ _ _ _ => trivial)
    (fun z => abs_cxOut_pure _ none z) (fun mk z _ => abs_cxOut_pure _ (some mk) z)

/-- **potential objects are non-negative under positivity** — any baseline handling, FOV mask
with non-negative values, with or without slice tying. -/
theorem potential_nonneg (c : ObjCons ℝ) (mask : Option (List (List ℝ))) (obj : List (List ℝ))
    (hpos : c.positivity = true)
    (hmask : MaskAll (fun x => 0 ≤ x) (effMask c.applyFovMask mask)) :
    ∀ row ∈ applyHardPot c mask obj, ∀ v ∈ row, 0 ≤ v := by
  unfold applyHardPot
  simp only [hpos, if_true]
  apply tie_mapMasked_nonneg (P := fun x => 0 ≤ x) (hmask := hmask)
  · intro row hrow z hz
    simp only [List.mem_map] at hrow
    obtain ⟨r, _, rfl⟩ := hrow
    simp only [List.mem_map] at hz
    obtain ⟨x, _, rfl⟩ := hz
    exact clampMin0_nonneg _
  · intro z hz; exact hz
  · intro mk z hmk hz
    simpa using mul_nonneg hz hmk

/-- **identical slices when requested** (complex / pure-phase objects) -/
theorem identical_slices_cx (t : CxType) (c : ObjCons ℝ) (mask : Option (List (List ℝ)))
    (obj : List (List (Cx ℝ))) (hid : c.identicalSlices = true) :
    ∀ s ∈ applyHardCx t c mask obj, ∀ s' ∈ applyHardCx t c mask obj, s = s' := by
  rw [applyHardCx_eq, hid]; exact tieSlicesC_identical _

/-- **identical slices when requested** (potential objects) -/
theorem identical_slices_pot (c : ObjCons ℝ) (mask : Option (List (List ℝ)))
    (obj : List (List ℝ)) (hid : c.identicalSlices = true) :
    ∀ s ∈ applyHardPot c mask obj, ∀ s' ∈ applyHardPot c mask obj, s = s' := by
  unfold applyHardPot; simp only [hid]; exact tieSlicesR_identical _

/-- **amplitude idempotence**: applying the constraint to an already constrained object does not
change its amplitude.  Exact side condition: the object is pure-phase, OR the mask is not
applied, OR every applied mask value is 0 or 1 (binary mask).  Slice tying off. -/
theorem amp_idempotent (t : CxType) (c : ObjCons ℝ) (mask : Option (List (List ℝ)))
    (obj : List (List (Cx ℝ))) (hid : c.identicalSlices = false)
    (hmask : t = .purePhase ∨ MaskAll (fun x => x = 0 ∨ x = 1) (effMask c.applyFovMask mask)) :
    ampArr (applyHardCx t c mask (applyHardCx t c mask obj)) = ampArr (applyHardCx t c mask obj) := by
  simp only [applyHardCx_eq, hid, tieSlicesC, Bool.and_false, Bool.false_eq_true, if_false]
  unfold ampArr
  rw [mapMasked_mapMasked, map_map_mapMasked, map_map_mapMasked]
  rcases hmask with h | h
  · subst h
    exact mapMasked_congr _ _ (fun _ => True) _ _ (fun _ _ _ _ _ _ => trivial)
      (fun z => abs_cxOut_cxOut _ _ _ none z (Or.inl rfl))
      (fun mk z _ => abs_cxOut_cxOut _ _ _ (some mk) z (Or.inl rfl))
  · exact mapMasked_congr _ _ _ _ _ h
      (fun z => abs_cxOut_cxOut _ _ _ none z (Or.inr (by simp)))
      (fun mk z hmk => abs_cxOut_cxOut _ _ _ (some mk) z
        (Or.inr (by intro mk' e; cases e; exact hmk)))

/-- the constraint dictionary of the counterexample: only `apply_fov_mask` on -/
def cexCons : ObjCons ℝ :=
  { positivity := true, fixBaseline := false, baselineFactor := 1, identicalSlices := false,
    applyFovMask := true }

/-- **the side condition of `amp_idempotent` is sharp**: complex object `1`, soft mask value `1/2`
(inside the quantifier: masks in [0,1]): amplitude `1/4` after one application, `1/16` after two.
Replayed on the real class by the harness (known finding). -/
theorem amp_idempotent_complex_counterexample :
    ampArr (applyHardCx .complex cexCons (some [[1/2]]) [[⟨1, 0⟩]]) = [[1/4]] ∧
    ampArr (applyHardCx .complex cexCons (some [[1/2]])
      (applyHardCx .complex cexCons (some [[1/2]]) [[⟨1, 0⟩]])) = [[1/16]] := by
  have h1 : ∀ μ : ℝ, Cx.abs (cxOut .complex μ (some (1/2)) ⟨1, 0⟩) = 1/4 := by
    intro μ
    rw [abs_cxOut_complex_some]
    have : ampOf .complex (⟨1, 0⟩ : Cx ℝ) = 1 := by
      simp only [ampOf]
      rw [clip01_of_mem (cxAbs_nonneg _)] <;> simp [Cx.abs, Cx.abs2]
    rw [this]; norm_num
  have h2 : ∀ (μ : ℝ) (z : Cx ℝ), Cx.abs z = 1/4 → Cx.abs (cxOut .complex μ (some (1/2)) z) = 1/16 := by
    intro μ z hz
    rw [abs_cxOut_complex_some]
    have : ampOf .complex z = 1/4 := by
      simp only [ampOf, hz]
      exact clip01_of_mem (by norm_num) (by norm_num)
    rw [this]; norm_num
  constructor
  · simp only [applyHardCx_eq, cexCons, effMask, if_true, tieSlicesC, Bool.and_false,
      Bool.false_eq_true, if_false, mapMasked, List.zipWith_cons_cons, List.zipWith_nil_left,
      ampArr, List.map_cons, List.map_nil]
    rw [h1]
  · simp only [applyHardCx_eq, cexCons, effMask, if_true, tieSlicesC, Bool.and_false,
      Bool.false_eq_true, if_false, mapMasked, List.zipWith_cons_cons, List.zipWith_nil_left,
      ampArr, List.map_cons, List.map_nil]
    rw [h2 _ _ (h1 _)]

/-- **tomography object: non-negative under positivity** (with or without shrinkage ≥ 0) -/
theorem tomo_nonneg (shrinkage : Option ℝ) (obj : List ℝ) :
    ∀ v ∈ tomoApplyHard true shrinkage obj, 0 ≤ v := by
  intro v hv
  unfold tomoApplyHard at hv
  cases shrinkage with
  | none =>
    simp only [if_true, List.mem_map] at hv
    obtain ⟨x, _, rfl⟩ := hv
    exact clampMin0_nonneg x
  | some s =>
    simp only [if_true, List.mem_map] at hv
    obtain ⟨x, _, rfl⟩ := hv
    simp [NumReal.max_eq]

/-! ## mixed-state probe orthogonalisation

`ClampInactive [] vs` (Lemmas/GramSchmidt.lean): at every step of the code's outer loop the norm of
the running residual is at least the `clamp_min(1e-12)` threshold — the clamp does nothing.  It
implies linear independence (a dependent mode has residual 0).  `P` is the common pixel count. -/

/-- **mutually orthogonal modes**: the output of `_probe_orthogonalization_constraint` is pairwise
orthogonal (`torch.sum(p.conj() * q) = 0`), for any number of modes and pixels. -/
theorem gs_orthogonal (P : Nat) (vs : List (Vec ℝ)) (hlen : ∀ v ∈ vs, v.length = P)
    (hc : ClampInactive [] vs) :
    (gramSchmidt vs).Pairwise (fun p q => cdot p q = Cx.zero ∧ cdot q p = Cx.zero) := by
  have h := (gsUnsorted_spec P vs hlen hc).1
  unfold gramSchmidt
  have hperm := List.mergeSort_perm (gsUnsorted vs) descLe
  have h2 : (List.mergeSort (gsUnsorted vs) descLe).Pairwise (fun p q => ip p q = 0) :=
    (hperm.pairwise_iff (fun h => ip_symm_zero h)).mpr h
  exact h2.imp (fun h => ⟨(cdot_eq_zero_iff _ _).mpr h, (cdot_eq_zero_iff _ _).mpr (ip_symm_zero h)⟩)

/-- **same multiset of mode intensities**: the output intensities are a permutation of the input
intensities. -/
theorem gs_intensities (P : Nat) (vs : List (Vec ℝ)) (hlen : ∀ v ∈ vs, v.length = P)
    (hc : ClampInactive [] vs) :
    List.Perm ((gramSchmidt vs).map intensity) (vs.map intensity) := by
  rw [← (gsUnsorted_spec P vs hlen hc).2]
  exact (List.mergeSort_perm (gsUnsorted vs) descLe).map intensity

/-- **the `ClampInactive` hypothesis cannot be dropped**: a single (hence linearly independent) mode
of norm `1e-13`, below the absolute `clamp_min(1e-12)`, comes back with intensity `1e-28` instead of
`1e-26`.  Replayed on the real class by the harness (known finding `gs-intensity-multiset:clamp-active`). -/
theorem gs_intensities_clamp_counterexample :
    (gramSchmidt [[(⟨1/10^13, 0⟩ : Cx ℝ)]]).map intensity = [1/10^28] ∧
    ([[(⟨1/10^13, 0⟩ : Cx ℝ)]] : List (Vec ℝ)).map intensity = [1/10^26] := by
  have hv : vnorm [(⟨1/10^13, 0⟩ : Cx ℝ)] = 1/10^13 := by
    simp only [vnorm, NumReal.sqrt_eq]
    rw [norm2_eq]
    simp only [List.map_cons, List.map_nil, List.sum_cons, List.sum_nil, mul_zero, add_zero]
    exact Real.sqrt_mul_self (by positivity)
  have hc : clampedNorm [(⟨1/10^13, 0⟩ : Cx ℝ)] = 1/10^12 := by
    simp only [clampedNorm, hv, NumReal.max_eq, gsEps, NumReal.ofRat_eq]
    push_cast
    rw [max_eq_right] <;> norm_num
  constructor
  · simp only [gramSchmidt, gsUnsorted, orthoLoop, Constraints.residual, List.foldl_nil, List.nil_append,
      rescale, List.map_cons, List.map_nil, List.zipWith_cons_cons, List.zipWith_nil_left,
      List.mergeSort_singleton, Constraints.normalize, hc, hv, cdivR, Cx.smul, intensity_eq_norm2]
    rw [norm2_eq]
    norm_num
  · simp only [List.map_cons, List.map_nil, intensity_eq_norm2]
    rw [norm2_eq]
    norm_num

/-- **descending order**: the output modes are sorted by intensity, largest first (no hypothesis). -/
theorem gs_sorted (vs : List (Vec ℝ)) :
    ((gramSchmidt vs).map intensity).Pairwise (fun a b => b ≤ a) := by
  rw [List.pairwise_map]
  unfold gramSchmidt
  have h := List.pairwise_mergeSort (le := descLe)
    (fun a b c hab hbc => by
      rw [descLe_iff] at *; exact le_trans hbc hab)
    (fun a b => by
      rcases le_total (intensity a) (intensity b) with h | h
      · simp [(descLe_iff b a).mpr h]
      · simp [(descLe_iff a b).mpr h])
    (gsUnsorted vs)
  exact h.imp (fun h => (descLe_iff _ _).mp h)

/-! ## initial probe: `_apply_weights`

`RectImg nr nc p` (Lemmas/ConstraintsParseval.lean): `p` is a non-empty `nr × nc` image.
"Diffraction intensity" is `diffIntensity = Σ |fft2(p, norm="ortho")|²` with the model's O(N²) DFT
(Core/Dft); Parseval for it comes from the spectral core shared with C16
(`PtychoOps.energy_dft2`, Lemmas/PtychoOpsForward.lean). -/

/-- **real-space intensity of every mode** after `_apply_weights` — no Parseval needed:
`I_k = w_k · (M / D) · S`, `D` = total diffraction intensity, `S` = total real-space intensity of
the input stack. -/
theorem weights_realspace_intensity (M : ℝ) (w : List ℝ) (probes : List (Img ℝ))
    (hMD : 0 < M / diffIntensity probes) (hw : ∀ x ∈ w, 0 ≤ x)
    (hE : ∀ p ∈ probes, 0 < energy p) (hlen : w.length = probes.length) :
    (applyWeights M w probes).map energy
      = w.map (· * (M / diffIntensity probes * (probes.map energy).sum)) :=
  applyWeights_energy M w probes hMD hw hE hlen

/-- **requested relative mode weights**: real-space (= diffraction, by Parseval) intensity of mode
`k` of the initial probe is `w_k · M`, for every stack of non-empty rectangular images with
non-zero modes, non-negative weights and positive mean intensity `M`. -/
theorem weights_mode_intensity (M : ℝ) (w : List ℝ) (probes : List (Img ℝ))
    (hM : 0 < M) (hw : ∀ x ∈ w, 0 ≤ x) (hE : ∀ p ∈ probes, 0 < energy p)
    (hlen : w.length = probes.length) (hrect : ∀ p ∈ probes, ∃ nr nc, RectImg nr nc p) :
    (applyWeights M w probes).map energy = w.map (· * M) ∧
    (applyWeights M w probes).map (fun p => energy (fft2Ortho p)) = w.map (· * M) := by
  have hP := parsevalOn_of_rect probes hrect
  have hP' := parsevalOn_of_rect _ (applyWeights_rect M w probes hrect)
  have key : (applyWeights M w probes).map energy = w.map (· * M) := by
    cases probes with
    | nil =>
      have : w = [] := List.length_eq_zero_iff.mp (by simpa using hlen)
      subst this
      simp [applyWeights]
    | cons p ps =>
      have hD := diffIntensity_of_parseval (p :: ps) hP
      have hS : 0 < ((p :: ps).map energy).sum := by
        have h1 := hE p (by simp)
        have h2 : 0 ≤ (ps.map energy).sum := List.sum_nonneg (fun x hx => by
          simp only [List.mem_map] at hx; obtain ⟨q, _, rfl⟩ := hx; exact energy_nonneg q)
        simp only [List.map_cons, List.sum_cons]
        linarith
      rw [applyWeights_energy M w (p :: ps) (by rw [hD]; exact div_pos hM hS) hw hE hlen, hD]
      apply List.map_congr_left
      intro x _
      field_simp
  refine ⟨key, ?_⟩
  rw [← key]
  exact List.map_congr_left hP'

/-- **total diffraction intensity equals the measured mean intensity** for weights summing to one
(the setter normalises them, the defaults sum to one: see below). -/
theorem weights_total (M : ℝ) (w : List ℝ) (probes : List (Img ℝ))
    (hM : 0 < M) (hw : ∀ x ∈ w, 0 ≤ x) (hE : ∀ p ∈ probes, 0 < energy p)
    (hlen : w.length = probes.length) (hsum : Num.sum w = 1)
    (hrect : ∀ p ∈ probes, ∃ nr nc, RectImg nr nc p) :
    diffIntensity (applyWeights M w probes) = M := by
  rw [diffIntensity_of_parseval _ (parsevalOn_of_rect _ (applyWeights_rect M w probes hrect)),
    (weights_mode_intensity M w probes hM hw hE hlen hrect).1, List.sum_map_mul_right]
  rw [numSum_eq] at hsum
  simp [hsum]

/-- the setter's normalisation `w / sum(w)` and the default weights sum to one -/
theorem weights_normalised (w : List ℝ) (h : Num.sum w ≠ 0) : Num.sum (normWeights w) = 1 :=
  normWeights_sum w h
theorem default_weights_normalised (n : Nat) (hn : 1 ≤ n) : Num.sum (defaultWeights n : List ℝ) = 1 :=
  defaultWeights_sum n hn


/-! ## histories

The clauses above are about ONE constrained read.  The state they read — the constraints dictionary and
the requested probe weights — is reached through histories of public calls; these theorems say that
a request, once made, is what later reads see. -/

/-- **`add_constraint(k, v)` assigns exactly one entry**: a valid key reads back `v`, every other key
(present or not) reads back what it did before, and the key set is unchanged. -/
theorem add_constraint_frame {V : Type} (allowed : List String) (d d' : CDict V) (k : String) (v : V)
    (h : addConstraint allowed d k v = .ok d') :
    cget d' k = some v ∧ (∀ k', k' ≠ k → cget d' k' = cget d k') ∧
    ((cget d k).isSome → d'.map (·.1) = d.map (·.1)) := by
  unfold addConstraint at h
  split at h
  · simp only [Except.ok.injEq] at h
    subst h
    exact ⟨cget_cset_same d k v, fun k' hk' => cget_cset_other d k k' v hk', cset_keys d k v⟩
  · simp at h

/-- an invalid key raises `KeyError` (and `add_constraint` returns no new state) -/
theorem add_constraint_invalid_key {V : Type} (allowed : List String) (d : CDict V) (k : String) (v : V)
    (h : k ∉ allowed) : addConstraint allowed d k v = .error .keyError := by
  simp [addConstraint, h]

/-- **last writer wins, for every history**: after any sequence of valid `add_constraint` calls /
entries of `constraints = {...}` assignments (the setter is the same sequence of single
assignments), key `k` holds the value requested LAST for `k`, or its previous (default) value if it
was never mentioned — an earlier `identical_slices=True` survives any number of later requests on
other keys. -/
theorem constraints_last_writer_wins {V : Type} (allowed : List String) (d : CDict V)
    (items : List (String × V)) (hvalid : ∀ kv ∈ items, kv.1 ∈ allowed) (k : String) :
    (setConstraints allowed d items).2 = none ∧
    cget (setConstraints allowed d items).1 k = match lastWrite k items with
                                                | some v => some v
                                                | none => cget d k := by
  rw [setConstraints_valid allowed items d hvalid]
  exact ⟨rfl, cget_applyAdds items d k⟩

/-- the instance the seeded defect broke: `identical_slices` requested, then two other keys -/
example : cget (setConstraints ["identical_slices", "apply_fov_mask", "positivity"]
      [("positivity", true), ("identical_slices", false), ("apply_fov_mask", false)]
      [("identical_slices", true), ("apply_fov_mask", true), ("positivity", true)]).1 "identical_slices"
    = some true := by decide

/-- **the requested probe weights are never written**: after any number of `set_initial_probe` calls
with any mean intensities and phase ramps the stored weights are the requested ones. -/
theorem probe_history_weights_unchanged (st : ProbeState ℝ) (steps : List (ℝ × List (Img ℝ))) :
    (runProbeHistory st steps).weights = st.weights :=
  runProbeHistory_weights steps st

/-- **every (re-)initialisation is exact**: whatever history came before, after a further
`set_initial_probe` with mean intensity `M` the total diffraction intensity is `M` and mode `k`
carries `w_k · M` with the ORIGINALLY requested weights `w` — provided the phase-shifted stack it
starts from has non-zero rectangular modes. -/
theorem probe_history_total (st : ProbeState ℝ) (steps : List (ℝ × List (Img ℝ))) (M : ℝ)
    (ramps : List (Img ℝ)) (hM : 0 < M) (hw : ∀ x ∈ st.weights, 0 ≤ x) (hsum : Num.sum st.weights = 1)
    (hE : ∀ p ∈ List.zipWith mulImg (runProbeHistory st steps).stack ramps, 0 < energy p)
    (hlen : st.weights.length = (List.zipWith mulImg (runProbeHistory st steps).stack ramps).length)
    (hrect : ∀ p ∈ List.zipWith mulImg (runProbeHistory st steps).stack ramps, ∃ nr nc, RectImg nr nc p) :
    let fin := runProbeHistory st (steps ++ [(M, ramps)])
    diffIntensity fin.stack = M ∧ fin.stack.map energy = st.weights.map (· * M) ∧
      fin.weights = st.weights := by
  intro fin
  have hfin : fin = setInitialProbe M ramps (runProbeHistory st steps) := runProbeHistory_snoc st steps M ramps
  have hwt : (runProbeHistory st steps).weights = st.weights := runProbeHistory_weights steps st
  rw [hfin]
  simp only [setInitialProbe, hwt]
  exact ⟨weights_total M st.weights _ hM hw hE hlen hsum hrect,
         (weights_mode_intensity M st.weights _ hM hw hE hlen hrect).1, trivial⟩


/-! ## growth round 5: histories with REJECTED calls, several live models of one class

The theorems of the previous section assume every request is valid and look at one model.  These do
not: a call may raise (`KeyError` / `ValueError`) and the caller carries on; other models of the same
class are built and configured in between. -/

/-- **the `constraints` setter with an invalid key**: exactly the entries before the first invalid key
are assigned (in order), and it raises iff some key is invalid. -/
theorem constraints_setter_rejected_prefix {V : Type} (allowed : List String) (d : CDict V)
    (items : List (String × V)) :
    (setConstraints allowed d items).1 = applyAdds d (effectiveItems allowed items) ∧
    ((setConstraints allowed d items).2 = none ↔ ∀ kv ∈ items, kv.1 ∈ allowed) :=
  ⟨setConstraints_fst allowed items d, setConstraints_snd allowed items d⟩

/-- **last writer wins for EVERY history of one model** — valid and rejected `add_constraint`s, `constraints`
assignments with invalid keys, resets to the class defaults, and any operations on OTHER models in
between: key `k` of model `j` holds the value of the last assignment that was really made to it
(`writesTo`), or what it held before. -/
theorem constraints_any_history {V : Type} (allowed : List String) (defaults : CDict V) (j : Nat)
    (d : CDict V) (ops : List (RegOp V)) (k : String) :
    cget (runDict allowed defaults j d ops) k = match lastWrite k (writesTo allowed defaults j ops) with
                                                | some v => some v
                                                | none => cget d k := by
  rw [runDict_eq_applyAdds]
  exact cget_applyAdds _ d k

/-- **models do not share their constraints**: in a registry of live models of one class, after any history
(any interleaving of building models, valid / rejected configuration of any of them) model `j` holds
exactly what its OWN sub-history produces from its own dictionary. -/
theorem models_isolated {V : Type} (allowed : List String) (defaults : CDict V) (reg : Registry V)
    (ops : List (RegOp V)) (j : Nat) (hj : j < reg.length) :
    (runReg allowed defaults reg ops)[j]? = (reg[j]?).map (fun d => runDict allowed defaults j d ops) :=
  runReg_getElem? allowed defaults ops j reg hj

/-- the model an operation is addressed to -/
def opTarget {V : Type} : RegOp V → Option Nat
  | .new => none
  | .add i _ _ => some i
  | .set i _ => some i
  | .resetDefaults i => some i

/-- **configuring model A never changes model B**: a history none of whose operations is addressed to `j`
leaves model `j` as it was. -/
theorem other_models_untouched {V : Type} (allowed : List String) (defaults : CDict V) (reg : Registry V)
    (ops : List (RegOp V)) (j : Nat) (hj : j < reg.length) (hops : ∀ op ∈ ops, opTarget op ≠ some j) :
    (runReg allowed defaults reg ops)[j]? = reg[j]? := by
  rw [models_isolated allowed defaults reg ops j hj]
  have hw : writesTo allowed defaults j ops = [] := by
    induction ops with
    | nil => rfl
    | cons op rest ih =>
      have hrest := ih (fun o ho => hops o (by simp [ho]))
      have hop := hops op (by simp)
      cases op with
      | new => simpa [writesTo] using hrest
      | add i k v =>
        have : i ≠ j := fun e => hop (by simp [opTarget, e])
        simp [writesTo, this, hrest]
      | set i items =>
        have : i ≠ j := fun e => hop (by simp [opTarget, e])
        simp [writesTo, this, hrest]
      | resetDefaults i =>
        have : i ≠ j := fun e => hop (by simp [opTarget, e])
        simp [writesTo, this, hrest]
  cases h : reg[j]? with
  | none => simp
  | some d => simp [runDict_eq_applyAdds, hw, applyAdds]

/-- **a model built later starts from the class defaults** whatever was configured on the models before it,
and building it changes none of them. -/
theorem new_model_gets_defaults {V : Type} (allowed : List String) (defaults : CDict V) (reg : Registry V) :
    (regStep allowed defaults reg .new).1[reg.length]? = some defaults ∧
    (regStep allowed defaults reg .new).2 = none ∧
    ∀ j, j < reg.length → (regStep allowed defaults reg .new).1[j]? = reg[j]? := by
  refine ⟨by simp [regStep], rfl, fun j hj => ?_⟩
  simp only [regStep]
  exact List.getElem?_append_left hj

/-- two models, A switches positivity off (and tries an invalid key): B still has its default -/
example : (runReg ["positivity", "identical_slices"] [("positivity", true), ("identical_slices", false)]
      [[("positivity", true), ("identical_slices", false)], [("positivity", true), ("identical_slices", false)]]
      [.add 0 "positivity" false, .add 0 "bogus" true, .set 0 [("identical_slices", true), ("bogus", true)],
       .new])
    = [[("positivity", false), ("identical_slices", true)], [("positivity", true), ("identical_slices", false)],
       [("positivity", true), ("identical_slices", false)]] := by decide

/-- **a rejected call on the probe model changes nothing** (`initial_probe_weights` of the wrong length,
`set_initial_probe` with a conflicting `roi_shape` or a non-positive mean intensity, `probe = ` a stack of
the wrong shape): the state after the `ValueError` is the state before it. -/
theorem probe_rejected_call_changes_nothing (st : ProbeModel ℝ) (op : ProbeOp ℝ) (e : PErr)
    (h : (probeStep st op).2 = some e) : (probeStep st op).1 = st :=
  probeStep_rejected st op e h

/-- **the stored weights are the last ACCEPTED request**, for every history of valid and rejected calls
(nothing but an accepted `initial_probe_weights` assignment writes them). -/
theorem probe_weights_last_accepted (st : ProbeModel ℝ) (ops : List (ProbeOp ℝ)) :
    (runProbeOps st ops).weights = lastAcceptedWeights st.numProbes st.weights ops :=
  (runProbeOps_weights ops st).1

/-- **every valid (re-)initialisation is exact after ANY history** of valid and rejected calls: total
diffraction intensity `M`, mode `k` carries `W_k · M` where `W` are the last accepted weights, and the raw
parameter is the new initial probe. -/
theorem probe_ops_total (st : ProbeModel ℝ) (ops : List (ProbeOp ℝ)) (M : ℝ) (ramps : List (Img ℝ))
    (hM : 0 < M)
    (hw : ∀ x ∈ lastAcceptedWeights st.numProbes st.weights ops, 0 ≤ x)
    (hsum : Num.sum (lastAcceptedWeights st.numProbes st.weights ops) = 1)
    (hE : ∀ p ∈ List.zipWith mulImg (runProbeOps st ops).initial ramps, 0 < energy p)
    (hlen : (lastAcceptedWeights st.numProbes st.weights ops).length
              = (List.zipWith mulImg (runProbeOps st ops).initial ramps).length)
    (hrect : ∀ p ∈ List.zipWith mulImg (runProbeOps st ops).initial ramps, ∃ nr nc, RectImg nr nc p) :
    let r := probeStep (runProbeOps st ops) (.setInitial st.roi M ramps)
    r.2 = none ∧ diffIntensity r.1.initial = M ∧
      r.1.initial.map energy = (lastAcceptedWeights st.numProbes st.weights ops).map (· * M) ∧
      r.1.param = r.1.initial ∧ r.1.weights = lastAcceptedWeights st.numProbes st.weights ops := by
  intro r
  obtain ⟨hwt, _, hroi⟩ := runProbeOps_weights ops st
  have hleb : Num.leb M (Num.zero : ℝ) = false := by
    rw [Bool.eq_false_iff]; intro h; rw [NumReal.leb_eq] at h; simp at h; linarith
  have hr : r = ({ runProbeOps st ops with
                    initial := applyWeights M (runProbeOps st ops).weights
                      (List.zipWith mulImg (runProbeOps st ops).initial ramps),
                    param := applyWeights M (runProbeOps st ops).weights
                      (List.zipWith mulImg (runProbeOps st ops).initial ramps),
                    meanInt := some M }, none) := by
    simp only [r, probeStep, hroi, bne_self_eq_false, Bool.false_eq_true, if_false, hleb]
  rw [hr, hwt]
  exact ⟨rfl, weights_total M _ _ hM hw hE hlen hsum hrect,
         (weights_mode_intensity M _ _ hM hw hE hlen hrect).1, rfl, rfl⟩

/-- the seeded kind of history: a 2-mode model, a rejected length-1 assignment, the weights stay `[3/4, 1/4]` -/
example : lastAcceptedWeights 2 ([3/4, 1/4] : List ℝ) [.setWeights (some [1]), .reset] = [3/4, 1/4] := by
  simp [lastAcceptedWeights]

/-- **tomography object read through its dictionary**: a truthy `positivity` entry gives a non-negative
object, whatever the `shrinkage` entry holds (`False`, `None`, `0.0`, a number, `True`). -/
theorem tomo_nonneg_dict (pos shr : TomoVal ℝ) (obj : List ℝ) (hpos : pos.truthy = true) :
    ∀ v ∈ tomoApplyHardD pos shr obj, 0 ≤ v := by
  unfold tomoApplyHardD
  rw [hpos]
  exact tomo_nonneg _ obj

/-- **`orthogonalize_probe` on**: the probe handed to the forward model is the orthogonalised stack
(so the three Gram–Schmidt theorems apply to it); off: the raw stack, nothing is claimed. -/
theorem probe_apply_hard_on (vs : List (Vec ℝ)) : probeApplyHard true vs = gramSchmidt vs := rfl

/-- **a model left at its class defaults is admissible with NO side condition** (the FOV mask is not applied
by default, so nothing is required of it): potential objects are non-negative, complex objects have
amplitude at most one, for every raw array and every mask. -/
theorem default_constraints_admissible (mask : Option (List (List ℝ))) :
    (∀ obj : List (List ℝ), ∀ row ∈ applyHardPot objDefaultCons mask obj, ∀ v ∈ row, 0 ≤ v) ∧
    (∀ obj : List (List (Cx ℝ)), ∀ row ∈ applyHardCx .complex objDefaultCons mask obj, ∀ z ∈ row, Cx.abs z ≤ 1) := by
  have hm : ∀ P : ℝ → Prop, MaskAll P (effMask (objDefaultCons : ObjCons ℝ).applyFovMask mask) := by
    intro P m hm
    simp [objDefaultCons, effMask] at hm
  exact ⟨fun obj => potential_nonneg objDefaultCons mask obj rfl (hm _),
         fun obj => complex_amp_le_one objDefaultCons mask obj (hm _)⟩

/-! non-vacuity: the hypotheses are satisfiable on non-trivial inputs -/
example : MaskAll (fun x => 0 ≤ x ∧ x ≤ 1) (effMask cexCons.applyFovMask (some [[1/2, 1], [0, 1/4]])) := by
  intro m hm row hrow x hx
  simp only [cexCons, effMask, if_true, Option.some.injEq] at hm
  subst hm
  simp only [List.mem_cons, List.not_mem_nil, or_false] at hrow
  rcases hrow with rfl | rfl <;> simp only [List.mem_cons, List.not_mem_nil, or_false] at hx <;>
    rcases hx with rfl | rfl <;> norm_num
example : MaskAll (fun x => x = 0 ∨ x = 1) (effMask cexCons.applyFovMask (some [[0, 1]])) := by
  intro m hm row hrow x hx
  simp only [cexCons, effMask, if_true, Option.some.injEq] at hm
  subst hm
  simp only [List.mem_cons, List.not_mem_nil, or_false] at hrow
  subst hrow
  simp only [List.mem_cons, List.not_mem_nil, or_false] at hx
  rcases hx with rfl | rfl <;> simp

/-- two correlated, linearly independent modes on two pixels: the clamp is inactive -/
example : ClampInactive [] [[⟨1, 0⟩, ⟨0, 0⟩], [⟨1, 0⟩, ⟨1, 0⟩]] ∧
    ∀ v ∈ ([[⟨1, 0⟩, ⟨0, 0⟩], [⟨1, 0⟩, ⟨1, 0⟩]] : List (Vec ℝ)), v.length = 2 := by
  have hm : max (1 : ℝ) (1000000000000⁻¹) = 1 := max_eq_left (by norm_num)
  constructor
  · simp [ClampInactive, Constraints.residual, subProj, cdot, Constraints.normalize, clampedNorm, vnorm,
      norm2, Num.sum, Cx.sum, cdivR, Cx.conj, Cx.zero, NumReal.max_eq, gsEps, cx_add, cx_sub, cx_mul, hm]
    norm_num
  · intro v hv
    simp only [List.mem_cons, List.not_mem_nil, or_false] at hv
    rcases hv with rfl | rfl <;> rfl

/-- a two-mode stack of 1×2 images, weights (3/4, 1/4), mean intensity 5: every hypothesis of the
weight theorems holds -/
example :
    let probes : List (Img ℝ) := [[[⟨1, 0⟩, ⟨0, 1⟩]], [[⟨0, 2⟩, ⟨1, 0⟩]]]
    let w : List ℝ := [3/4, 1/4]
    (0 : ℝ) < 5 ∧ (∀ x ∈ w, 0 ≤ x) ∧ (∀ p ∈ probes, 0 < energy p) ∧ w.length = probes.length ∧
      Num.sum w = 1 ∧ (∀ p ∈ probes, ∃ nr nc, RectImg nr nc p) := by
  intro probes w
  refine ⟨by norm_num, ?_, ?_, rfl, ?_, ?_⟩
  · intro x hx
    simp only [w, List.mem_cons, List.not_mem_nil, or_false] at hx
    rcases hx with rfl | rfl <;> norm_num
  · intro p hp
    simp only [probes, List.mem_cons, List.not_mem_nil, or_false] at hp
    rcases hp with rfl | rfl <;> rw [energy_eq_norm2, norm2_eq] <;> norm_num
  · rw [numSum_eq]; norm_num [w]
  · intro p hp
    simp only [probes, List.mem_cons, List.not_mem_nil, or_false] at hp
    rcases hp with rfl | rfl <;> exact ⟨1, 2, by norm_num, by norm_num, rfl, by simp⟩

end QuantemModel.Props.C10
