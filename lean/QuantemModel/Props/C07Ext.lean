import QuantemModel.Lemmas.Radon
import QuantemModel.Lemmas.Radon180
import QuantemModel.Lemmas.RadonExt
import QuantemModel.Lemmas.RadonExt2
import QuantemModel.Lemmas.RadonGeometry
import QuantemModel.Lemmas.RadonPadSpec
import QuantemModel.Lemmas.RadonSymmetry
/-!
C07 — growth round 6 (listed in `EXTRA_PROPS` of harness/props/c07.py): what the two transforms do
with angle sets that are NOT an ascending list inside [0°, 180°] — angles beyond 180° / 360°,
negative angles, descending and unsorted angle lists — and the accumulation loop `recon += proj`
of iradon_torch.  Theorems about `Model/Radon.lean` (`radonTorchAt`, `radonSkAt`, `radonTorch`,
`detT`, `backprojAt`, `backproject`).
-/
namespace QuantemModel.Props.C07
open QuantemModel QuantemModel.Radon QuantemModel.NumReal

/-! ## 1. the angle enters only through cos / sin of `deg2rad θ`: period 360° -/

/-- `deg2rad` is additive and 360° is one turn. -/
theorem deg2rad_add_turns (θ : ℝ) (k : ℤ) : deg2rad (θ + 360 * (k : ℝ)) = deg2rad θ + (k : ℝ) * (2 * Real.pi) := by
  unfold deg2rad
  simp only [mul_eq, div_eq, pi_eq, ofNat_eq]
  push_cast
  ring

example : deg2rad (-90 + 360 * ((1 : ℤ) : ℝ)) = deg2rad (-90 : ℝ) + ((1 : ℤ) : ℝ) * (2 * Real.pi) := deg2rad_add_turns _ _

theorem cos_deg_turns (θ : ℝ) (k : ℤ) : Real.cos (deg2rad (θ + 360 * (k : ℝ))) = Real.cos (deg2rad θ) := by
  rw [deg2rad_add_turns, Real.cos_add_int_mul_two_pi]

theorem sin_deg_turns (θ : ℝ) (k : ℤ) : Real.sin (deg2rad (θ + 360 * (k : ℝ))) = Real.sin (deg2rad θ) := by
  rw [deg2rad_add_turns, Real.sin_add_int_mul_two_pi]

/-- **radon_coord_period**: the sampling point of radon_torch (and of scikit-image) for the angle
`θ + 360·k` (any whole number of turns, forwards or backwards: angles beyond 360°, negative angles)
is the sampling point for `θ` — for every size, pixel and angle. -/
theorem radon_coord_period (N : Nat) (θ : ℝ) (k : ℤ) (x y : Nat) :
    torchCoord N (θ + 360 * (k : ℝ)) x y = torchCoord N θ x y ∧
    skCoord N (θ + 360 * (k : ℝ)) x y = skCoord N θ x y := by
  unfold torchCoord skCoord
  simp only [cos_eq, sin_eq, cos_deg_turns, sin_deg_turns, and_self]

example : torchCoord 5 ((-30 : ℝ) + 360 * ((1 : ℤ) : ℝ)) 1 2 = torchCoord 5 (-30 : ℝ) 1 2 :=
  (radon_coord_period 5 (-30) 1 1 2).1

/-- **radon_angle_period**: every sinogram sample of radon_torch and of scikit-image's radon at
`θ + 360·k` equals the sample at `θ` (so 200° ↦ −160°, 450° ↦ 90°, −90° ↦ 270°): an angle set
outside [0°, 180°] is treated by the port exactly as by the reference, sample by sample. -/
theorem radon_angle_period (f : Int → Int → ℝ) (N : Nat) (θ : ℝ) (k : ℤ) (x : Nat) :
    radonTorchAt f N (θ + 360 * (k : ℝ)) x = radonTorchAt f N θ x ∧
    radonSkAt f N (θ + 360 * (k : ℝ)) x = radonSkAt f N θ x := by
  unfold radonTorchAt radonSkAt
  constructor
  · congr 1
    apply List.map_congr_left
    intro y _
    rw [(radon_coord_period N θ k x y).1]
  · congr 1
    apply List.map_congr_left
    intro y _
    rw [(radon_coord_period N θ k x y).2]

example (f : Int → Int → ℝ) : radonTorchAt f 6 ((90 : ℝ) + 360 * ((1 : ℤ) : ℝ)) 2 = radonTorchAt f 6 90 2 :=
  (radon_angle_period f 6 90 1 2).1

/-- **backprojection_angle_period**: the detector coordinate of every output pixel of
iradon_torch / iradon (`t = x·cos θ − y·sin θ`) is the same for `θ + 360·k` as for `θ`. -/
theorem backprojection_angle_period (radius : Nat) (θ : ℝ) (k : ℤ) (r c : Nat) :
    detT radius (θ + 360 * (k : ℝ)) r c = detT radius θ r c := by
  unfold detT
  simp only [cos_eq, sin_eq, cos_deg_turns, sin_deg_turns]

example : detT 4 ((-45 : ℝ) + 360 * ((2 : ℤ) : ℝ)) 1 3 = detT 4 (-45 : ℝ) 1 3 := backprojection_angle_period 4 (-45) 2 1 3

/-- **backprojection_half_turn**: at `θ + 180` the detector coordinate is mirrored, `t ↦ −t`
(a projection taken from the opposite side is the flipped detector row — the reason an angle set
may not be folded into [0°, 180°) without flipping the rows). -/
theorem backprojection_half_turn (radius : Nat) (θ : ℝ) (r c : Nat) :
    detT radius (θ + 180) r c = - detT radius θ r c := by
  have h : deg2rad (θ + 180 : ℝ) = deg2rad θ + Real.pi := by
    unfold deg2rad
    simp only [mul_eq, div_eq, pi_eq, ofNat_eq]
    push_cast
    ring
  unfold detT
  simp only [cos_eq, sin_eq, h, Real.cos_add_pi, Real.sin_add_pi, mul_eq, sub_eq]
  ring

example : detT 3 ((20 : ℝ) + 180) 0 1 = - detT 3 (20 : ℝ) 0 1 := backprojection_half_turn 3 20 0 1

/-! ## 2. order of the angle set -/

/-- **radon_angle_order**: the sinogram row of an angle does not depend on where the angle stands in
the set: for a descending (reversed) angle list the sinogram is the reversed sinogram, and for any
re-ordering (`List.Perm`) of the angles it is the same re-ordering of the rows; a repeated angle
gives a repeated row.  Port and reference. -/
theorem radon_angle_order (img : List (List ℝ)) (thetas thetas' : List ℝ) :
    radonTorch img thetas.reverse = (radonTorch img thetas).reverse ∧
    radonSk img thetas.reverse = (radonSk img thetas).reverse ∧
    (thetas.Perm thetas' → (radonTorch img thetas).Perm (radonTorch img thetas')) ∧
    radonTorch img (thetas ++ thetas') = radonTorch img thetas ++ radonTorch img thetas' := by
  unfold radonTorch radonSk
  refine ⟨by simp [List.map_reverse], by simp [List.map_reverse], fun h => h.map _, by simp⟩

example : radonTorch [[1, 2], [3, 4]] [170, 10].reverse = (radonTorch [[1, 2], [3, 4]] ([170, 10] : List ℝ)).reverse :=
  (radon_angle_order _ _ []).1

/-- **backprojection_order_independent**: the value iradon_torch / iradon accumulate at an output
pixel does not depend on the order in which the (filtered row, angle) pairs are visited — any
interpolant, any detector size; unsorted and descending angle sets reconstruct the same image as
the sorted set with the rows sorted alongside. -/
theorem backprojection_order_independent (interp : Nat → (Int → ℝ) → ℝ → ℝ) (D : Nat)
    (rows rows' : List ((Int → ℝ) × ℝ)) (h : rows.Perm rows') (radius r c : Nat) :
    backprojAt interp D rows radius r c = backprojAt interp D rows' radius r c := by
  unfold backprojAt
  rw [sum_eq, sum_eq]
  exact (h.map _).sum_eq

example (v w : Int → ℝ) : backprojAt (fun D v t => interpTorch D v t) 4 [(v, 10), (w, 170)] 2 1 1
    = backprojAt (fun D v t => interpTorch D v t) 4 [(w, 170), (v, 10)] 2 1 1 :=
  backprojection_order_independent _ 4 _ _ (List.Perm.swap _ _ _) 2 1 1

/-- **backproject_reverse**: list level — the reconstruction from the rows and angles in reversed
(descending) order is the reconstruction from the ascending order, for every output size, circle
flag and interpolant (rows and angles of equal number). -/
theorem backproject_reverse (interp : Nat → (Int → ℝ) → ℝ → ℝ) (D : Nat) (filtered : List (List ℝ))
    (thetas : List ℝ) (hl : filtered.length = thetas.length) (out : Nat) (circle : Bool) :
    backproject interp D filtered.reverse thetas.reverse out circle = backproject interp D filtered thetas out circle := by
  unfold backproject
  simp only [List.length_reverse]
  apply List.map_congr_left
  intro r _
  apply List.map_congr_left
  intro c _
  have hz : List.zip filtered.reverse thetas.reverse = (List.zip filtered thetas).reverse := by
    unfold List.zip
    exact (List.reverse_zipWith hl).symm
  rw [hz, List.map_reverse]
  rw [backprojection_order_independent interp D _ _ (List.reverse_perm _)]

example : backproject (fun D v t => interpTorch D v t) 3 [[1, 2, 3], [4, 5, 6]].reverse ([10, 170] : List ℝ).reverse 2 true
    = backproject (fun D v t => interpTorch D v t) 3 [[1, 2, 3], [4, 5, 6]] [10, 170] 2 true :=
  backproject_reverse _ 3 _ _ rfl 2 true

/-! ## 3. the accumulation loop of iradon_torch -/

/-- **backprojection_accumulate_refines**: `recon = zeros; for i, angle in enumerate(theta):
recon += proj_i` — the left fold that adds one projection per angle to a zero start value — is the
sum the model (`backprojAt`) and every theorem about iradon use, for every number of angles
(none, one, the second repetition of the loop, …) and every interpolant. -/
theorem backprojection_accumulate_refines (interp : Nat → (Int → ℝ) → ℝ → ℝ) (D : Nat)
    (rows : List ((Int → ℝ) × ℝ)) (radius r c : Nat) :
    rows.foldl (fun recon p => recon + interp D p.1 (detT radius p.2 r c)) 0 = backprojAt interp D rows radius r c := by
  unfold backprojAt
  rw [sum_eq]
  have : ∀ (l : List ((Int → ℝ) × ℝ)) (a : ℝ),
      l.foldl (fun recon p => recon + interp D p.1 (detT radius p.2 r c)) a
        = a + (l.map fun p => interp D p.1 (detT radius p.2 r c)).sum := by
    intro l
    induction l with
    | nil => intro a; simp
    | cons p t ih => intro a; rw [List.foldl_cons, ih, List.map_cons, List.sum_cons]; ring
  rw [this rows 0, zero_add]

example (v w : Int → ℝ) : [(v, (10 : ℝ)), (w, 170)].foldl (fun recon p => recon + interpTorch 4 p.1 (detT 2 p.2 1 1)) 0
    = backprojAt (fun D v t => interpTorch D v t) 4 [(v, 10), (w, 170)] 2 1 1 :=
  backprojection_accumulate_refines (fun D v t => interpTorch D v t) 4 _ 2 1 1

/-! ## 4. the batched call of iradon_torch as the code computes it (Model/RadonExt2.lean) -/

/-- **iradon_batch_accumulate_refines**: iradon_torch on a batch — one preallocated zero tensor
`recon[B, out, out]`, in iteration `i` of the angle loop one image per batch item computed from
`filtered[:, i, :]` and added in place, then mask and scaling on the whole batch — returns, for
every batch size (none, one, more than any chunk size), every number of angles, every output size,
filter and circle flag, exactly the per-sinogram reconstructions.  Batching of iradon_torch is a
theorem about the loop, not a property of the model by construction. -/
theorem iradon_batch_accumulate_refines (sinos : List (List (List ℝ))) (thetas : Option (List ℝ))
    (name : FilterName) (circle : Bool) (out A N : Nat)
    (hs : ∀ s ∈ sinos, s.length = A ∧ (s.headD []).length = N)
    (hth : ∀ t, thetas = some t → t.length = A) :
    iradonTorchBatchLoop sinos thetas name circle out = sinos.map fun s => iradonTorchOut s thetas name circle out :=
  iradonTorchBatchLoop_eq sinos thetas name circle out A N hs hth

example : iradonTorchBatchLoop [[[1, 2, 3], [4, 5, 6]], [[0, 1, 0], [2, 0, 2]]] (some ([10, 100] : List ℝ)) .hann true 3
    = [[[1, 2, 3], [4, 5, 6]], [[0, 1, 0], [2, 0, 2]]].map fun s => iradonTorchOut s (some [10, 100]) .hann true 3 :=
  iradon_batch_accumulate_refines _ _ _ _ 3 2 3 (by simp) (by intro t h; cases h; rfl)

/-- **iradon_batch_loop_agrees_reference**: end to end — the batched loop of the port equals
scikit-image's iradon applied to every sinogram of the batch. -/
theorem iradon_batch_loop_agrees_reference (sinos : List (List (List ℝ))) (thetas : Option (List ℝ))
    (name : FilterName) (circle : Bool) (out A N : Nat)
    (hs : ∀ s ∈ sinos, s.length = A ∧ (s.headD []).length = N)
    (hth : ∀ t, thetas = some t → t.length = A) :
    iradonTorchBatchLoop sinos thetas name circle out = sinos.map fun s => iradonSkOut s thetas name circle out := by
  rw [iradonTorchBatchLoop_eq sinos thetas name circle out A N hs hth]
  apply List.map_congr_left
  intro s _
  exact iradonOut_agree s thetas name circle out

example : iradonTorchBatchLoop [[[1, 2], [4, 5]]] (none : Option (List ℝ)) .ramp false 1
    = [[[1, 2], [4, 5]]].map fun s => iradonSkOut s none .ramp false 1 :=
  iradon_batch_loop_agrees_reference _ _ _ _ 1 2 2 (by simp) (by intro t h; cases h)

/-- **iradon_geometry_spec**: the integers iradon_torch derives from the detector width `N` before it
touches the data, for EVERY width, circle flag and output-size argument: the two circle-to-square
paddings and the row add up to the diagonal `D`, the rotation axis `N//2` lands on `D//2`, the FFT
padding fills `D` up to `P`, and `P` is the power of two that is ≥ 64 and ≥ `2·D` and the least such. -/
theorem iradon_geometry_spec (N : Nat) (circle : Bool) (out : Option Nat) :
    let g := iradonGeom (R := ℝ) N circle out
    g.padBefore + N + g.padAfter = g.D ∧ g.padBefore + N / 2 = g.D / 2 ∧ g.D + g.padY = g.P ∧
    (∃ k, g.P = 2 ^ k) ∧ 64 ≤ g.P ∧ 2 * g.D ≤ g.P ∧ (g.P = 64 ∨ g.P < 4 * g.D) ∧
    (circle = false → g.D = N ∧ g.padBefore = 0) ∧
    (∀ m, out = some m → g.out = m) := by
  have hD : N ≤ diagSize (R := ℝ) N := (diagSize_spec N).2.2
  have hP := fun D => paddedSize_ge_two_mul D
  intro g
  refine ⟨?_, ?_, ?_, paddedSize_pow2 _, paddedSize_ge _, paddedSize_ge_two_mul _, paddedSize_minimal _, ?_, ?_⟩
  · cases circle <;> simp only [g, iradonGeom] <;> simp <;> omega
  · cases circle <;> simp only [g, iradonGeom] <;> simp <;> omega
  · have := hP g.D
    simp only [g, iradonGeom] at this ⊢
    omega
  · intro h; subst h; simp [g, iradonGeom]
  · intro m h; subst h; simp [g, iradonGeom]

example : iradonGeom (R := ℝ) 4 false (some 3) = { D := 4, padBefore := 0, padAfter := 0, P := 64, padY := 60, out := 3 } := by
  simp [iradonGeom]; decide

/-! ## 5. whole-transform statements for angle sets outside [0°, 180°] -/

/-- **iradon_angle_period**: the whole reconstruction of iradon_torch (any sinogram, filter, circle flag,
output size) is unchanged when any whole number of turns is added to every angle of the set — an angle
set given as 200°…380° or −180°…0° reconstructs what the port reconstructs from the set reduced by 360°.
(With `iradon_output_size_agree`: and what scikit-image reconstructs.) -/
theorem iradon_angle_period (sino : List (List ℝ)) (th : List ℝ) (k : ℤ) (name : FilterName) (circle : Bool) (out : Nat) :
    iradonTorchOut sino (some (th.map fun θ => θ + 360 * (k : ℝ))) name circle out
      = iradonTorchOut sino (some th) name circle out := by
  unfold iradonTorchOut backproject
  simp only [Option.getD_some, List.length_map]
  apply List.map_congr_left
  intro r _
  apply List.map_congr_left
  intro c _
  have h : ∀ (filtered : List (List ℝ)) (D radius : Nat),
      backprojAt (fun D v t => interpTorch D v (t + Num.ofNat (D / 2))) D
          ((List.zip filtered (th.map fun θ => θ + 360 * (k : ℝ))).map fun p => (rowAcc p.1, p.2)) radius r c
        = backprojAt (fun D v t => interpTorch D v (t + Num.ofNat (D / 2))) D
          ((List.zip filtered th).map fun p => (rowAcc p.1, p.2)) radius r c := by
    intro filtered D radius
    unfold backprojAt
    congr 1
    rw [List.zip_map_right, List.map_map, List.map_map, List.map_map]
    apply List.map_congr_left
    intro p _
    simp only [Function.comp, Prod.map, id, backprojection_angle_period]
  simp only [h]

example : iradonTorchOut [[1, 2, 3], [4, 5, 6]] (some (([-170, 10] : List ℝ).map fun θ => θ + 360 * ((1 : ℤ) : ℝ))) .ramp true 3
    = iradonTorchOut [[1, 2, 3], [4, 5, 6]] (some ([-170, 10] : List ℝ)) .ramp true 3 :=
  iradon_angle_period _ _ 1 _ _ _

/-- **radon_half_turn** (reference, every size): the projection from the opposite side, `θ + 180°`, is the
projection at `θ` of the image rotated by 180° about `(N//2, N//2)` (two quarter turns) — NOT the same
projection: an image that is not symmetric under that rotation separates an implementation that folds
angles into [0°, 180°). -/
theorem radon_half_turn (f : Int → Int → ℝ) (N : Nat) (θ : ℝ) (x : Nat) :
    radonSkAt f N (θ + 180) x = radonSkAt (rot90 N (rot90 N f)) N θ x := by
  have h : θ + 180 = (θ + 90) + 90 := by ring
  rw [h, radonSkAt_add_90, radonSkAt_add_90]

example : radonSkAt pin 4 ((37 : ℝ) + 180) 1 = radonSkAt (rot90 4 (rot90 4 pin)) 4 37 1 := radon_half_turn pin 4 37 1

/-- **radon_half_turn_torch_odd**: the same for radon_torch at odd sizes (where the disc mask is invariant
under the quarter turn). -/
theorem radon_half_turn_torch_odd (f : Int → Int → ℝ) (N : Nat) (hN : 2 ≤ N) (hodd : N % 2 = 1) (θ : ℝ) (x : Nat) :
    radonTorchAt f N (θ + 180) x = radonTorchAt (rot90 N (rot90 N f)) N θ x := by
  have h : θ + 180 = (θ + 90) + 90 := by ring
  rw [h, radonTorchAt_add_90_odd f N hN hodd, radonTorchAt_add_90_odd _ N hN hodd]

example : radonTorchAt pin 3 ((37 : ℝ) + 180) 1 = radonTorchAt (rot90 3 (rot90 3 pin)) 3 37 1 :=
  radon_half_turn_torch_odd pin 3 (by norm_num) (by norm_num) 37 1

end QuantemModel.Props.C07
