import QuantemModel.Lemmas.DirectPtycho
import QuantemModel.Lemmas.DirectPtychoReal
import QuantemModel.Lemmas.DirectKernel
import QuantemModel.Lemmas.DirectKernelRecombine
/-!
# C04 — direct ptychography: batch-invariant, linear, exact on analytic cases

Property theorems about `Model/DirectPtycho.lean` (the streaming skeleton of
`DirectPtychography.reconstruct`, tied to /repo by `harness/props/c04.py`).

* `batch_invariant`, `batch_size_invariant` — any partition of the BF pixels into batches, in any
  order, gives the same corrected stack, for all five kernels and both the single- and the two-pass
  path.  Stated over **any carrier whose `+` is a commutative monoid** (`AddLaws`: ℝ, ℚ, …); float32
  summation order is not covered by this and is *measured* by the harness (≤ 1e-5 relative).
* `linear_in_stack` — the corrected stack is linear in the virtual-BF stack (over ℝ; the FFT pair is a
  parameter assumed linear — `Fourier.Linear`, which the defining DFT sums satisfy).
* `submask_recombine` — single-pass kernels: `W_A·bf_A + W_B·bf_B = W_S·bf_S` whenever the stack rows
  of `A` and `B` together are those of `S` (over ℝ).
* `mapping_correct`, `mapping_in_range` — `_return_bf_context`: the j-th pixel of a sub-mask is the
  `mapping[j]`-th pixel of the construction mask.
* alias table: `alias_table_total`, `canonical_names_fixed`, `alias_case_insensitive`,
  `unknown_name_rejected`.
* parallax: `prlx_operator_is_translation` (the operator `exp(-i grad·q)` *is* the Fourier translation
  by `grad/2π` Å — sign and 2π bookkeeping), `prlx_zero_aberration_operator`,
  `parallax_item_partial` (the two limits of the statement, given the two DFT identities listed there).
* growth round 5 — the kernel formulas as TRANSLATED FROM THE SOURCE on every run (`Generated/DirectKernel.lean`):
  `generated_probe_eq_spec`, `generated_gamma_eq_spec`, `generated_kernel_eq_spec`, `kernel_linear_in_spectrum`,
  `kernel_power_eq_spec`, `normalisation_positive`, `generated_norm_eq_model`, `butterworth_no_filter`,
  `aperture_weight_eq_spec`, `parallax_gradient_eq_shift`, `generated_factor_eq_model`; and the whole model
  (`reconstructFull`: no factor left as a parameter): `batch_invariant_full`, `linear_in_stack_full`,
  `submask_recombine_full`, `parallax_shift_full_partial`, `parallax_zero_full_partial`.
-/
namespace QuantemModel.Props.C04
open QuantemModel QuantemModel.DirectPtycho

deriving instance DecidableEq for Except

/-! ## alias table -/

/-- every alias of the source table resolves to its kernel -/
theorem alias_table_total : ∀ p ∈ aliasTable, normalizeKernelName p.1 = .ok p.2 := by decide

/-- the five canonical names are fixed points -/
theorem canonical_names_fixed (k : Kernel) : normalizeKernelName k.name.toList = .ok k := by
  cases k <;> decide

/-- resolution only looks at the lower-cased name -/
theorem alias_case_insensitive (s t : List Char) (h : lowerName s = lowerName t) :
    normalizeKernelName s = normalizeKernelName t := by
  unfold normalizeKernelName; rw [h]

/-- a name resolves iff its lower-cased form is a key of the table; everything else raises `ValueError` -/
theorem unknown_name_rejected (s : List Char) (h : ∀ p ∈ aliasTable, p.1 ≠ lowerName s) :
    normalizeKernelName s = .error .valueError := by
  unfold normalizeKernelName
  have : aliasTable.lookup (lowerName s) = none := by
    rw [List.lookup_eq_none_iff]
    intro p hp
    have := h p hp
    simpa [bne_iff_ne] using fun e => this e.symm
  rw [this]

theorem resolved_name_in_table (s : List Char) (k : Kernel) (h : normalizeKernelName s = .ok k) :
    (lowerName s, k) ∈ aliasTable := by
  unfold normalizeKernelName at h
  cases hl : aliasTable.lookup (lowerName s) with
  | none => rw [hl] at h; cases h
  | some k' =>
    rw [hl] at h
    cases h
    -- `lookup` returns the value of the first matching key
    obtain ⟨l₁, l₂, e, _⟩ := List.lookup_eq_some_iff.mp hl
    rw [e]; simp

example : normalizeKernelName "Tilt-Corrected-Bright-Field".toList = .ok .prlx ∧
    normalizeKernelName "wdd".toList = .error .valueError ∧
    normalizeKernelName "ssb ".toList = .error .valueError := by decide

/-! ## `_return_bf_context` -/

/-- the j-th true pixel of the sub-mask is the `mapping[j]`-th true pixel of the construction mask
(`positions` = row-major `nonzero`), for every sub-mask contained in the construction mask -/
theorem mapping_correct (cmask sub : List Bool) (h : SubMask cmask sub) :
    (indexMapping cmask sub).map (fun t => (positions cmask)[t]!) = positions sub := by
  unfold indexMapping positions
  exact mapping_positions 0 cmask sub h

/-- … and it has one entry per sub-mask pixel, each a valid row of the stack -/
theorem mapping_in_range (cmask sub : List Bool) (h : SubMask cmask sub) :
    (indexMapping cmask sub).length = (positions sub).length ∧
    ∀ t ∈ indexMapping cmask sub, t < (positions cmask).length := by
  refine ⟨?_, mapping_lt cmask sub⟩
  have := congrArg List.length (mapping_correct cmask sub h)
  simpa using this

/-- `bfContext` reports exactly these lists, and `(inds_i, inds_j)` are the row/column of the pixels -/
theorem bfContext_mapping (cols : Nat) (cmask sub : List Bool) (b : BFContext)
    (h : bfContext cols cmask sub = .ok b) :
    b.mapping = indexMapping cmask sub ∧ b.numBf = (positions sub).length ∧
    List.zipWith (fun i j => i * cols + j) b.indsI b.indsJ = positions sub := by
  unfold bfContext at h
  split at h
  · cases h
  · cases h
    refine ⟨rfl, rfl, ?_⟩
    rw [List.zipWith_map_left, List.zipWith_map_right, List.zipWith_self]
    conv => rhs; rw [← List.map_id (positions sub)]
    apply List.map_congr_left
    intro p _
    have := Nat.div_add_mod p cols
    simp only [id]
    rw [Nat.mul_comm]; exact this

example : SubMask [true, false, true, true, false, true] [false, false, true, false, false, true] ∧
    indexMapping [true, false, true, true, false, true] [false, false, true, false, false, true] = [1, 3] :=
  ⟨by simp [SubMask], by decide⟩

/-! ## batch invariance -/

/--
**Batch invariance.** For every kernel (single-pass `ssb/prlx/icom`, two-pass `obf/mf`), every FFT
pair, every problem (`G`, `P`, `W`, `env`, `eps` arbitrary; for the two-pass kernels the power images
of the scheduled pixels have the grid's size) and every duplicate-free list `items` of BF pixels: *any* schedule `batches`
whose concatenation is a permutation of `items` — any partition, in any order, empty batches allowed —
yields the same corrected stack as the single batch `[items]`.
-/
theorem batch_invariant {R : Type} [Num R] (hR : AddLaws R) (F : Fourier R) (k : Kernel) (pb : Problem R)
    (items : List Nat) (hnd : items.Nodup)
    (hP : k.twoPass = true → ∀ i ∈ items, (pb.P i).length = pb.rows * pb.cols)
    (batches : List (List Nat)) (hperm : batches.flatten.Perm items) :
    reconstruct F k pb batches = reconstruct F k pb [items] := by
  have hnd' : batches.flatten.Nodup := hperm.nodup_iff.mpr hnd
  rw [reconstruct_eq F k pb batches hnd', reconstruct_eq F k pb [items] (by simpa using hnd)]
  apply List.map_congr_left
  intro i _
  have hmem : i ∈ batches.flatten ↔ i ∈ [items].flatten := by
    simpa using hperm.mem_iff
  by_cases hi : i ∈ batches.flatten
  · have hi' := hmem.mp hi
    simp only [hi, hi', if_true]
    congr 1
    unfold itemValue
    cases hk : k.twoPass with
    | false => rfl
    | true =>
      have hP' := hP hk
      simp only [if_true]
      rw [power_flatten hR pb batches (fun i hi => hP' i (hperm.mem_iff.mp hi)) _ (by simp),
        power_flatten hR pb [items] (fun i hi => hP' i (by simpa using hi)) _ (by simp)]
      rw [sumP_perm hR pb hperm]
      simp
  · have hi' : i ∉ items := fun h => hi (hmem.mpr (by simpa using h))
    simp [hi, hi']

/-- every `max_batch_size = b ≥ 1` (the `SimpleBatcher` slices) gives the full-batch result -/
theorem batch_size_invariant {R : Type} [Num R] (hR : AddLaws R) (F : Fourier R) (k : Kernel) (pb : Problem R)
    (hP : k.twoPass = true → ∀ i < pb.n, (pb.P i).length = pb.rows * pb.cols) (b : Nat) (hb : 0 < b) :
    reconstruct F k pb (chunkSchedule pb.n b) = reconstruct F k pb [List.range pb.n] := by
  apply batch_invariant hR F k pb (List.range pb.n) List.nodup_range
    (fun hk i hi => hP hk i (List.mem_range.mp hi))
  rw [chunkSchedule_flatten pb.n b hb]

/-- with a valid schedule every row of the stack is written (nothing of `torch.empty` survives) -/
theorem all_rows_written {R : Type} [Num R] (F : Fourier R) (k : Kernel) (pb : Problem R)
    (batches : List (List Nat)) (hperm : batches.flatten.Perm (List.range pb.n)) :
    ∀ o ∈ reconstruct F k pb batches, o ≠ none := by
  have hnd : batches.flatten.Nodup := hperm.nodup_iff.mpr List.nodup_range
  rw [reconstruct_eq F k pb batches hnd]
  intro o ho
  simp only [List.mem_map, List.mem_range] at ho
  obtain ⟨i, hi, rfl⟩ := ho
  have : i ∈ batches.flatten := hperm.mem_iff.mpr (List.mem_range.mpr hi)
  simp [this]

/-- the carriers the statement is about: ℚ (exact) and ℝ -/
theorem addLaws_rat : AddLaws Rat :=
  ⟨Rat.add_comm, Rat.add_assoc, by intro a; show (0 : Rat) + a = a; exact Rat.zero_add a,
   by intro a; show a + (0 : Rat) = a; exact Rat.add_zero a⟩

theorem addLaws_real : AddLaws ℝ := DirectPtycho.addLaws_real

/-- non-vacuity: every hypothesis of `batch_invariant` holds of a concrete exact (ℚ) 3-pixel matched-filter
problem with the schedule `[[2], [], [0, 1]]` -/
example :
    let F : Fourier Rat := ⟨fun _ _ x => x, fun _ _ x => x⟩
    let pb : Problem Rat :=
      { rows := 1, cols := 2, n := 3, G := fun i => [⟨(i : Rat) + 1, 0⟩, ⟨1, (i : Rat)⟩],
        P := fun i => [(i : Rat) + 1, 2], W := 2, env := [1, 1 / 2], eps := 1 / 10 }
    reconstruct F .mf pb [[2], [], [0, 1]] = reconstruct F .mf pb [[0, 1, 2]] := by
  intro F pb
  exact batch_invariant addLaws_rat F .mf pb [0, 1, 2] (by decide) (fun _ i _ => rfl) [[2], [], [0, 1]] (by decide)

/-- non-vacuity: a 3-pixel two-pass problem, schedule `[[2], [], [0, 1]]` against `[[0, 1, 2]]` -/
example : [[2], [], [0, 1]].flatten.Perm [0, 1, 2] ∧ [0, 1, 2].Nodup ∧ Kernel.obf.twoPass = true ∧
    chunkSchedule 5 2 = [[0, 1], [2, 3], [4]] := by decide

/-! ## linearity in the stack -/

/-- `a·x + y` on two optional rows (defined iff both are) -/
noncomputable def linRow (a : ℝ) : Option (Img ℝ) → Option (Img ℝ) → Option (Img ℝ)
  | some x, some y => some (linR a x y)
  | _, _ => none

/--
**Linearity.** For every kernel, every geometry (mask, mapping, kernel factors, `P`, `W`, envelope,
`eps`, upsampling) and every schedule, the corrected stack of `a·v + w` is `a·stack(v) + stack(w)`,
row by row; the obf/mf normalisation is a function of the geometry only.  `F` is any linear FFT pair.
-/
theorem linear_in_stack (F : Fourier ℝ) (hF : F.Linear) (k : Kernel) (geo : Geometry ℝ) (a : ℝ)
    (v w : List (Img ℝ)) (h : SameShape v w) (batches : List (List Nat)) (hnd : batches.flatten.Nodup) :
    reconstruct F k (problemOfStack F geo (linStack a v w)) batches =
      List.zipWith (linRow a) (reconstruct F k (problemOfStack F geo v) batches)
        (reconstruct F k (problemOfStack F geo w) batches) := by
  rw [reconstruct_eq F k _ batches hnd, reconstruct_eq F k _ batches hnd, reconstruct_eq F k _ batches hnd]
  show List.map _ (List.range geo.mapping.length) =
    List.zipWith _ (List.map _ (List.range geo.mapping.length)) (List.map _ (List.range geo.mapping.length))
  rw [List.zipWith_map, List.zipWith_self]
  apply List.map_congr_left
  intro i _
  by_cases hi : i ∈ batches.flatten
  · simp only [hi, if_true, linRow]
    congr 1
    exact itemValue_lin F hF k geo _ a v w h i
  · simp [hi, linRow]

/-- … in particular for the model's executable FFT pair (the defining DFT sums), unconditionally -/
theorem linear_in_stack_dft (k : Kernel) (geo : Geometry ℝ) (a : ℝ)
    (v w : List (Img ℝ)) (h : SameShape v w) (batches : List (List Nat)) (hnd : batches.flatten.Nodup) :
    reconstruct Fourier.dft k (problemOfStack Fourier.dft geo (linStack a v w)) batches =
      List.zipWith (linRow a) (reconstruct Fourier.dft k (problemOfStack Fourier.dft geo v) batches)
        (reconstruct Fourier.dft k (problemOfStack Fourier.dft geo w) batches) :=
  linear_in_stack Fourier.dft dft_linear k geo a v w h batches hnd

example : SameShape [[1, 2], [3, 4]] [[0, 5], [7, 7]] ∧ [[1], [0]].flatten.Nodup := by
  refine ⟨⟨rfl, ?_⟩, by decide⟩
  intro i
  match i with
  | 0 => rfl
  | 1 => rfl
  | (n + 2) => rfl

/-! ## recombination of sub-masks -/

/--
**Recombination (single-pass kernels `ssb`, `prlx`, `icom`).**  Let `A`, `B`, `S` be the stack rows
(`vbf_index_mapping`, see `mapping_correct`) of three sub-masks with `A ++ B` a permutation of `S`
(complementary parts of `S`).  Whatever the three schedules and the three non-zero aperture weights,
`W_A·bf_A + W_B·bf_B = W_S·bf_S`, where `bf = corrected_bf` of `reconstruct(bf_mask = ·)`.
(`hlen`: `ifft2` returns images of the grid's size.)
-/
theorem submask_recombine (F : Fourier ℝ) (k : Kernel) (hk : k.twoPass = false) (pb : Problem ℝ)
    (hlen : ∀ s, (singlePassValue F pb s).length = pb.rows * pb.cols)
    (A B S : List Nat) (hS : (A ++ B).Perm S) (WA WB WS : ℝ) (hA : WA ≠ 0) (hB : WB ≠ 0) (hW : WS ≠ 0)
    (sA sB sS : List (List Nat))
    (hsA : sA.flatten.Perm (List.range A.length)) (hsB : sB.flatten.Perm (List.range B.length))
    (hsS : sS.flatten.Perm (List.range S.length)) :
    addI (smulI WA (correctedBf (pb.rows * pb.cols) (reconstruct F k (subProblem pb A WA) sA)))
         (smulI WB (correctedBf (pb.rows * pb.cols) (reconstruct F k (subProblem pb B WB) sB))) =
      smulI WS (correctedBf (pb.rows * pb.cols) (reconstruct F k (subProblem pb S WS) sS)) := by
  rw [bf_subProblem F k hk pb A WA hA sA hsA, bf_subProblem F k hk pb B WB hB sB hsB,
    bf_subProblem F k hk pb S WS hW sS hsS]
  rw [← sumImgs_append _ _ _ (by
    intro x hx
    obtain ⟨s, _, rfl⟩ := List.mem_map.mp hx
    rw [length_rawItem, hlen]), ← List.map_append]
  exact sumImgs_perm (hS.map _) _

example : Kernel.ssb.twoPass = false ∧ Kernel.prlx.twoPass = false ∧ Kernel.icom.twoPass = false ∧
    ([0, 3] ++ [1, 2]).Perm [0, 1, 2, 3] := by decide

/-! ## parallax: sign and 2π bookkeeping, and the two analytic limits -/

/--
The parallax operator `exp(-i (g_x q_x + g_y q_y))` on the (upsampled) scan grid
`q = fftfreq(N, d)` *is* the Fourier translation operator `exp(-2πi (f_r s_r + f_c s_c))` by
`s = (g / 2π) / d` pixels: each virtual image is moved by the aberration-surface gradient divided by
`2π` (in Å), in the direction of the gradient.
-/
theorem prlx_operator_is_translation (N M : Nat) (dx dy gx gy : ℝ) (hdx : dx ≠ 0) (hdy : dy ≠ 0) :
    prlxOperator gx gy (qGrid N M dx dy).1 (qGrid N M dx dy).2 (ones (N * M)) =
      translationOperator N M (gx / (2 * Real.pi) / dx) (gy / (2 * Real.pi) / dy) :=
  prlxOperator_eq_translation N M dx dy gx gy hdx hdy

/-- zero gradient, no sign flip: the operator is identically one, and without defocus/astigmatism the
geometric shift of the closed form is zero for every detector pixel and rotation -/
theorem prlx_zero_aberration_operator (n : Nat) (qx qy : Img ℝ) (hx : qx.length = n) (hy : qy.length = n)
    (g : PrlxGeom ℝ) (h10 : g.c10 = 0) (h12 : g.c12 = 0) (i j : Nat) :
    prlxOperator (0 : ℝ) 0 qx qy (ones n) = List.replicate n Cx.one ∧ prlxShift g i j = (0, 0) :=
  ⟨prlxOperator_zero n qx qy hx hy, prlxShift_zero g h10 h12 i j⟩

/-
FULL STATEMENTS (not proved here; evaluated on every run against the real code and against the
driver's independent closed form `prlxClosed`):
  parallax_zero_aberration : coefs = 0 → no flip → corrected_bf = (Σ_i (v_i − mean v_i)) / W
  parallax_shift           : corrected_bf = (Σ_i translate (v_i − mean v_i) (∇χ_i / 2π)) / W
What is missing for the full statements over the concrete DFT: the two DFT identities collected in
`Fourier.CombIdentity` (DC bin = N·mean; a `u×u`-tiled spectrum is the spectrum of the zero-interleaved
image) and `ifft2 ∘ fft2 = id` — roots-of-unity orthogonality for the list-based DFT, not developed
here.  The `_partial` theorems below take them as hypotheses on the FFT pair and prove everything
else: row selection through the mapping, the kernel factor, the envelope, `real / W`.
-/

/-- per-pixel form of `parallax_shift`, given the DFT identities -/
theorem parallax_shift_item_partial (F : Fourier ℝ) (geo : Geometry ℝ)
    (hcomb : F.CombIdentity geo.u geo.r geo.c)
    (hlen : ∀ y, (F.fft2 (geo.u * geo.r) (geo.u * geo.c) y).length = (geo.u * geo.r) * (geo.u * geo.c))
    (henv : geo.env = ones ((geo.u * geo.r) * (geo.u * geo.c)))
    (stack : List (Img ℝ)) (i : Nat) (hm : geo.mapping.getD i 0 < stack.length)
    (hvl : (stack.getD (geo.mapping.getD i 0) []).length = geo.r * geo.c)
    (dx dy gx gy : ℝ) (hdx : dx ≠ 0) (hdy : dy ≠ 0)
    (hK : geo.K i = prlxOperator gx gy (qGrid (geo.u * geo.r) (geo.u * geo.c) dx dy).1
        (qGrid (geo.u * geo.r) (geo.u * geo.c) dx dy).2 (ones ((geo.u * geo.r) * (geo.u * geo.c))))
    (power : Img ℝ) :
    itemValue F .prlx (problemOfStack F geo stack) power i =
      (translate F (geo.u * geo.r) (geo.u * geo.c)
        (comb geo.u geo.r geo.c (meanSub (stack.getD (geo.mapping.getD i 0) [])))
        (gx / (2 * Real.pi) / dx) (gy / (2 * Real.pi) / dy)).map (· / geo.W) :=
  prlx_item F geo hcomb hlen henv stack i hm hvl dx dy gx gy hdx hdy hK power

/-- per-pixel form of `parallax_zero_aberration`, given the DFT identities -/
theorem parallax_zero_item_partial (F : Fourier ℝ) (geo : Geometry ℝ)
    (hcomb : F.CombIdentity geo.u geo.r geo.c)
    (hlen : ∀ y, (F.fft2 (geo.u * geo.r) (geo.u * geo.c) y).length = (geo.u * geo.r) * (geo.u * geo.c))
    (hinv : ∀ y : Img ℝ, y.length = (geo.u * geo.r) * (geo.u * geo.c) →
      (F.ifft2 (geo.u * geo.r) (geo.u * geo.c)
        (F.fft2 (geo.u * geo.r) (geo.u * geo.c) (y.map Cx.ofReal))).map (·.re) = y)
    (henv : geo.env = ones ((geo.u * geo.r) * (geo.u * geo.c)))
    (stack : List (Img ℝ)) (i : Nat) (hm : geo.mapping.getD i 0 < stack.length)
    (hvl : (stack.getD (geo.mapping.getD i 0) []).length = geo.r * geo.c)
    (qx qy : Img ℝ) (hqx : qx.length = (geo.u * geo.r) * (geo.u * geo.c))
    (hqy : qy.length = (geo.u * geo.r) * (geo.u * geo.c))
    (hK : geo.K i = prlxOperator 0 0 qx qy (ones ((geo.u * geo.r) * (geo.u * geo.c))))
    (power : Img ℝ) :
    itemValue F .prlx (problemOfStack F geo stack) power i =
      (comb geo.u geo.r geo.c (meanSub (stack.getD (geo.mapping.getD i 0) []))).map (· / geo.W) :=
  prlx_item_zero F geo hcomb hlen hinv henv stack i hm hvl qx qy hqx hqy hK power

/-! ## call histories: the result is a function of the effective hyper-parameters only

In the model the reconstruction of a step is computed from `effective neg zero st s` (the aberration set
and rotation `reconstruct` resolves through `HyperparameterState`) and from nothing else of the object's
past; so history-independence is: the stored state after a history depends on the object's initial
hyper-parameters and on the last fixed-value grid search only, and per-call overrides never persist.
The real `HyperparameterState` is compared with this state machine after every step of every history
(exact stream `hyperparameter-state`), and every call of a history is compared with a fresh object. -/

/-- a `reconstruct` call, whatever it overrides, leaves the stored hyper-parameters untouched -/
theorem call_preserves_state {α ρ : Type} (neg : α → α) (st : HState α ρ) (ab : Option (Dict α)) (rot : Option ρ) :
    stepState neg st (.call ab rot) = st := rfl

/-- nothing ever rewrites the initial hyper-parameters -/
theorem initial_never_changes {α ρ : Type} (neg : α → α) (st : HState α ρ) (h : List (Step α ρ)) :
    (runHistory neg st h).initialAb = st.initialAb ∧ (runHistory neg st h).initialRot = st.initialRot := by
  unfold runHistory
  induction h generalizing st with
  | nil => exact ⟨rfl, rfl⟩
  | cons s t ih =>
    simp only [List.foldl_cons]
    obtain ⟨a, b⟩ := ih (stepState neg st s)
    obtain ⟨c, d⟩ := stepState_initial neg st s
    exact ⟨a.trans c, b.trans d⟩

/--
**History independence.** After *any* history of calls (with arbitrary per-call overrides) and
fixed-value grid searches, the object is in the state determined by its initial hyper-parameters and
the last grid search alone (`stateOf`): with no grid search it is the fresh object.
-/
theorem history_independent {α ρ : Type} (neg : α → α) (st : HState α ρ) (h : List (Step α ρ)) :
    runHistory neg st h = stateOf neg st (lastGrid h) :=
  runHistory_aux neg st h none

/-- hence every step after two histories with the same last grid search resolves the same hyper-parameters,
and after override-only histories the same as on a fresh object -/
theorem effective_history_independent {α ρ : Type} (neg : α → α) (zero : ρ) (st : HState α ρ)
    (h₁ h₂ : List (Step α ρ)) (hg : lastGrid h₁ = lastGrid h₂) (s : Step α ρ) :
    effective neg zero (runHistory neg st h₁) s = effective neg zero (runHistory neg st h₂) s := by
  rw [history_independent, history_independent, hg]

theorem effective_after_overrides_is_fresh {α ρ : Type} (neg : α → α) (zero : ρ) (st : HState α ρ)
    (h : List (Step α ρ)) (hc : ∀ s ∈ h, ∃ ab rot, s = Step.call ab rot) (s : Step α ρ) :
    effective neg zero (runHistory neg st h) s = effective neg zero st s := by
  have : lastGrid h = none := by
    unfold lastGrid
    suffices H : ∀ g, h.foldl (fun acc (s : Step α ρ) => match s with
        | .grid a r => some (a, r)
        | .call _ _ => acc) g = g from H none
    induction h with
    | nil => intro g; rfl
    | cons x t ih =>
      intro g
      obtain ⟨ab, rot, rfl⟩ := hc _ List.mem_cons_self
      simp only [List.foldl_cons]
      exact ih (fun s hs => hc s (List.mem_cons_of_mem _ hs)) g
  rw [history_independent, this]
  rfl

/-- a rotation that is given is used, whatever its value (in particular exactly zero); the optimized one
takes precedence over the initial one in the same way -/
theorem given_rotation_wins {α ρ : Type} (zero : ρ) (st : HState α ρ) (r : ρ) :
    currentRotation zero st (some r) = r ∧
    (st.optimizedRot = some r → currentRotation zero st none = r) ∧
    (st.optimizedRot = none → st.initialRot = some r → currentRotation zero st none = r) := by
  refine ⟨rfl, ?_, ?_⟩
  · intro h; simp [currentRotation, h]
  · intro h1 h2; simp [currentRotation, h1, h2]

/-- every coefficient the (canonicalised) override mentions takes the override's last value — whatever that
value is — and every other coefficient keeps its stored value -/
theorem override_coefficient_wins {α ρ : Type} (neg : α → α) (st : HState α ρ) (o c out : Dict α)
    (hc : canonicalize neg o = .ok c) (ho : currentAberrations neg st (some o) = .ok out) (k : String) :
    out.get? k = match lastVal c k with
      | some v => some v
      | none => (st.initialAb.update st.optimizedAb).get? k := by
  unfold currentAberrations at ho
  simp only [hc] at ho
  cases ho
  exact Dict.get?_update _ c k

example : canonicalize (fun x : Int => -x) [("defocus", 5), ("C12", 0), ("astigmatism_angle", 2)] =
      .ok [("C10", -5), ("C12", 0), ("phi12", 2)] ∧
    canonicalize (fun x : Int => -x) [("focus", 1)] = .error .valueError := by decide

/-! ## the kernel formulas, as translated from the current source (`Generated/DirectKernel.lean`)

`harness/translator/dpkernel2lean.py` re-translates `complex_probe.py` (`aperture`, `aberration_surface` and its
gradients, `evaluate_probe`, `gamma_factor`, `polar_coordinates`, `_passively_rotate_grid`) and
`direct_ptychography.py` (`_return_kernel_contributions` per kernel; Butterworth envelope, parallax gradient / sign,
aperture weight, obf / mf normalisation of `reconstruct`) on every run.  The theorems below are about THAT text. -/

open QuantemModel.Generated.DirectKernel in
/-- `evaluate_probe = aperture · exp(−iχ)` -/
theorem generated_probe_eq_spec (α φ sa as0 as1 lam : ℝ) (soft : Bool) (coefs : List (String × ℝ)) :
    evaluate_probe α φ sa as0 as1 lam soft coefs =
      Cx.smul (aperture α φ sa as0 as1 soft) (Cx.cis (-(aberration_surface α φ lam coefs))) :=
  evaluate_probe_eq α φ sa as0 as1 lam soft coefs

open QuantemModel.Generated.DirectKernel in
/-- `gamma_factor` on the path `reconstruct` uses (`asymmetric_version=True`, `normalize=False`):
`γ = ψ(q−k)·conj ψ(k) − conj ψ(q+k)·ψ(k)` -/
theorem generated_gamma_eq_spec (qm0 qm1 qp0 qp1 : ℝ) (pk : Cx ℝ) (lam sa : ℝ) (soft : Bool)
    (coefs : List (String × ℝ)) (as0 as1 : ℝ) :
    gamma_factor qm0 qm1 qp0 qp1 pk lam sa soft coefs as0 as1 true false =
      evaluate_probe ((polar_coordinates qm0 qm1).1 * lam) (polar_coordinates qm0 qm1).2 sa as0 as1 lam soft coefs *
          Cx.conj pk -
        Cx.conj (evaluate_probe ((polar_coordinates qp0 qp1).1 * lam) (polar_coordinates qp0 qp1).2 sa as0 as1 lam soft coefs) *
          pk :=
  gamma_factor_eq qm0 qm1 qp0 qp1 pk lam sa soft coefs as0 as1

/-- the five branches of `_return_kernel_contributions` at one grid point of one bright-field pixel:
ssb `−i·v·γ̄ / max(|γ|, 1e-8)`, obf = mf `−i·v·γ̄`, parallax `v·sign·exp(−i g·q)`, icom `v·(k·(−i q/q²))` with the DC bin zeroed -/
theorem generated_kernel_eq_spec (g : KGeom ℝ) (v : Cx ℝ) (kx ky qx qy : ℝ) (pk : Cx ℝ) (gx gy sg : ℝ) (dc : Bool) :
    pointFactor .ssb v kx ky qx qy pk gx gy sg dc g =
      Generated.DirectKernel.cdivR (((⟨0, -1⟩ : Cx ℝ) * v) * Cx.conj (gammaAt g kx ky qx qy pk))
        (max (Cx.abs (gammaAt g kx ky qx qy pk)) (1 / 100000000)) ∧
    pointFactor .obf v kx ky qx qy pk gx gy sg dc g = ((⟨0, -1⟩ : Cx ℝ) * v) * Cx.conj (gammaAt g kx ky qx qy pk) ∧
    pointFactor .mf v kx ky qx qy pk gx gy sg dc g = ((⟨0, -1⟩ : Cx ℝ) * v) * Cx.conj (gammaAt g kx ky qx qy pk) ∧
    pointFactor .prlx v kx ky qx qy pk gx gy sg dc g = v * Cx.smul sg (Cx.cis (-(gx * qx + gy * qy))) ∧
    pointFactor .icom v kx ky qx qy pk gx gy sg dc g =
      v * (if dc then Cx.zero else
        (⟨0, kx * (-qx / (qx * qx + qy * qy)) + ky * (-qy / (qx * qx + qy * qy))⟩ : Cx ℝ)) :=
  ⟨ssb_factor_eq g v kx ky qx qy pk gx gy sg dc, obf_factor_eq g v kx ky qx qy pk gx gy sg dc,
   mf_factor_eq g v kx ky qx qy pk gx gy sg dc, prlx_factor_eq g v kx ky qx qy pk gx gy sg dc,
   icom_factor_eq g v kx ky qx qy pk gx gy sg dc⟩

/-- **every kernel is `spectrum × factor`**, the factor being the kernel on a unit spectrum: this is why the first-pass
numerator of the skeleton is `tile(V) · K` (and why the factors may be captured from the real code on a unit spectrum) -/
theorem kernel_linear_in_spectrum (k : Kernel) (g : KGeom ℝ) (v : Cx ℝ) (kx ky qx qy : ℝ) (pk : Cx ℝ) (gx gy sg : ℝ)
    (dc : Bool) :
    pointFactor k v kx ky qx qy pk gx gy sg dc g = v * pointFactor k Cx.one kx ky qx qy pk gx gy sg dc g :=
  pointFactor_linear k g v kx ky qx qy pk gx gy sg dc

/-- the obf / mf power term is `|γ|²` (no data in it) and it is non-negative -/
theorem kernel_power_eq_spec (g : KGeom ℝ) (kx ky qx qy : ℝ) (pk : Cx ℝ) :
    pointPower .obf kx ky qx qy pk g = Cx.abs (gammaAt g kx ky qx qy pk) * Cx.abs (gammaAt g kx ky qx qy pk) ∧
    pointPower .mf kx ky qx qy pk g = Cx.abs (gammaAt g kx ky qx qy pk) * Cx.abs (gammaAt g kx ky qx qy pk) ∧
    0 ≤ pointPower .obf kx ky qx qy pk g ∧ 0 ≤ pointPower .mf kx ky qx qy pk g := by
  obtain ⟨a, b⟩ := pointPower_eq g kx ky qx qy pk
  refine ⟨a, b, ?_, ?_⟩
  · rw [a]; exact mul_self_nonneg _
  · rw [b]; exact mul_self_nonneg _

open QuantemModel.Generated.DirectKernel in
/-- the second pass never divides by zero: the translated normalisation is at least `1e-8`, whatever the accumulated power,
the aperture weight and `matched_filter_norm_epsilon` -/
theorem normalisation_positive (p mx W eps : ℝ) :
    (0 : ℝ) < reconstruct_norm_obf p mx W eps ∧ (0 : ℝ) < reconstruct_norm_mf p mx W eps :=
  ⟨lt_of_lt_of_le (by norm_num) (norm_obf_pos p mx W eps), lt_of_lt_of_le (by norm_num) (norm_mf_pos p mx W eps)⟩

/-- the normalisation of the streaming skeleton (`normOf`, which `batch_invariant` is about) IS the translated code -/
theorem generated_norm_eq_model {R : Type} [Num R] (k : Kernel) (pb : Problem R) (power : Img R) :
    normOf k pb power = normOfGenerated k pb.W pb.eps power :=
  normOf_eq_generated k pb power

open QuantemModel.Generated.DirectKernel in
/-- `q_lowpass` / `q_highpass` that are `None` or exactly `0` (both falsy) leave the spectrum untouched -/
theorem butterworth_no_filter (qx qy : ℝ) (ql qh : Option ℝ) (n : Nat)
    (hl : ql = none ∨ ql = some 0) (hh : qh = none ∨ qh = some 0) :
    reconstruct_butterworth_env qx qy ql qh n = 1 :=
  butterworth_env_none qx qy ql qh n hl hh

/-- **aperture weight.** The per-pixel term of `BF_weights` is the squared aperture of that detector pixel — between 0 and 1,
and independent of the aberration coefficients (so is `BF_weights`, "the mask's total aperture weight") -/
theorem aperture_weight_eq_spec (g : KGeom ℝ) (ij : Nat × Nat) :
    weightTerm g ij = apertureAt g ij ^ 2 ∧ 0 ≤ apertureAt g ij ∧ apertureAt g ij ≤ 1 :=
  ⟨weightTerm_eq g ij, (aperture_01 _ _ _ _ _ _).1, (aperture_01 _ _ _ _ _ _).2⟩

/-- **the geometric shift.** For every detector pixel, rotation angle and coefficient set holding defocus / astigmatism only,
the gradient the translated `reconstruct` hands to the parallax kernel (`aberration_surface_cartesian_gradients` at the
passively rotated pixel, through `polar_coordinates`) is `2π ×` the shift `prlxShift` of the independent closed form; with no
coefficient at all it is zero -/
theorem parallax_gradient_eq_shift (g : KGeom ℝ) (ij : Nat × Nat) (h0 : g.detRows ≠ 0) (h1 : g.detCols ≠ 0)
    (r0 : g.rs0 ≠ 0) (r1 : g.rs1 ≠ 0) (h : LowOrder g.coefs) :
    (Generated.DirectKernel.hasAny g.coefs ["C10", "C12", "phi12"] = true →
      gradAt g ij = (2 * Real.pi * (prlxShift (prlxGeomOf g) ij.1 ij.2).1,
                     2 * Real.pi * (prlxShift (prlxGeomOf g) ij.1 ij.2).2)) ∧
    (Generated.DirectKernel.hasAny g.coefs ["C10", "C12", "phi12"] = false → gradAt g ij = (0, 0)) :=
  ⟨gradAt_eq_prlxShift g ij h0 h1 r0 r1 h, gradAt_none g ij h⟩

/-- non-vacuity: a defocus + astigmatism dict satisfies the hypotheses, a dict with coma does not -/
example : LowOrder [("C10", (5 : ℝ)), ("C12", 2), ("phi12", 1)] ∧
    Generated.DirectKernel.hasAny [("C10", (5 : ℝ)), ("C12", 2), ("phi12", 1)] ["C10", "C12", "phi12"] = true ∧
    ¬ LowOrder [("C21", (5 : ℝ))] := by
  refine ⟨⟨?_, ?_, ?_, ?_⟩, ?_, ?_⟩ <;>
    simp [LowOrder, Generated.DirectKernel.hasAny, Generated.DirectKernel.hasKey]

/-- the factor images built from the translated kernel code are the hand-written operators the parallax theorems are about -/
theorem generated_factor_eq_model (g : KGeom ℝ) (sign : Img ℝ) (ij : Nat × Nat) :
    kernelFactor g .prlx sign ij = prlxOperator (gradAt g ij).1 (gradAt g ij).2 (qImgs g).1 (qImgs g).2 sign ∧
    (sign.length = ((qImgs g).1.zip (qImgs g).2).length →
      kernelFactor g .icom sign ij = icomOperator (kPoint g ij.1 ij.2).1 (kPoint g ij.1 ij.2).2 (qImgs g).1 (qImgs g).2) :=
  ⟨kernelFactor_prlx g sign ij, kernelFactor_icom g sign ij⟩

/-! ## the whole model: from (stack, mask pixels, hyper-parameters), no factor left as a parameter -/

/-- batch invariance of the WHOLE reconstruction (kernel formulas included), every kernel -/
theorem batch_invariant_full {R : Type} [Num R] (hR : AddLaws R) (F : Fourier R) (g : KGeom R) (k : Kernel)
    (pix : List (Nat × Nat)) (mapping : List Nat) (stack : List (Img R))
    (items : List Nat) (hnd : items.Nodup) (hi : ∀ i ∈ items, i < pix.length)
    (batches : List (List Nat)) (hperm : batches.flatten.Perm items) :
    reconstructFull F g k pix mapping stack batches = reconstructFull F g k pix mapping stack [items] := by
  unfold reconstructFull
  apply batch_invariant hR F k _ items hnd ?_ batches hperm
  intro hk i him
  have hlt := hi i him
  simp [problemOfStack, geometryOf, powerTerm, hk, qImgs, qGrid, hlt]

/-- linearity of the WHOLE reconstruction in the stack, every kernel, hyper-parameter set and schedule -/
theorem linear_in_stack_full (g : KGeom ℝ) (k : Kernel) (pix : List (Nat × Nat)) (mapping : List Nat) (a : ℝ)
    (v w : List (Img ℝ)) (h : SameShape v w) (batches : List (List Nat)) (hnd : batches.flatten.Nodup) :
    reconstructFull Fourier.dft g k pix mapping (linStack a v w) batches =
      List.zipWith (linRow a) (reconstructFull Fourier.dft g k pix mapping v batches)
        (reconstructFull Fourier.dft g k pix mapping w batches) :=
  linear_in_stack_dft k (geometryOf g k pix mapping) a v w h batches hnd

/--
**Recombination for the WHOLE model (single-pass kernels).**  `pixAll` = the detector pixels of the construction mask;
`A`, `B`, `S` = the stack rows of three sub-masks with `A ++ B` a permutation of `S`.  The three reconstructions computed
from (stack, their own mask pixels, hyper-parameters) — kernel formulas, aperture weights and all — satisfy
`W_A·bf_A + W_B·bf_B = W_S·bf_S` with `W = bfWeights` (the sum of the squared apertures of the mask's pixels), whatever the
three schedules.
-/
theorem submask_recombine_full (F : Fourier ℝ) (g : KGeom ℝ) (k : Kernel) (hk : k.twoPass = false)
    (pixAll : List (Nat × Nat)) (stack : List (Img ℝ))
    (hlen : ∀ s, (singlePassValue F (problemOfStack F (geometryOf g k pixAll (List.range pixAll.length)) stack) s).length =
      (g.u * g.scanRows) * (g.u * g.scanCols))
    (A B S : List Nat) (hS : (A ++ B).Perm S) (hA' : ∀ a ∈ A, a < pixAll.length) (hB' : ∀ a ∈ B, a < pixAll.length)
    (hA : bfWeights g (pixOf pixAll A) ≠ 0) (hB : bfWeights g (pixOf pixAll B) ≠ 0) (hW : bfWeights g (pixOf pixAll S) ≠ 0)
    (sA sB sS : List (List Nat))
    (hsA : sA.flatten.Perm (List.range A.length)) (hsB : sB.flatten.Perm (List.range B.length))
    (hsS : sS.flatten.Perm (List.range S.length)) :
    addI (smulI (bfWeights g (pixOf pixAll A))
            (correctedBf ((g.u * g.scanRows) * (g.u * g.scanCols)) (reconstructFull F g k (pixOf pixAll A) A stack sA)))
         (smulI (bfWeights g (pixOf pixAll B))
            (correctedBf ((g.u * g.scanRows) * (g.u * g.scanCols)) (reconstructFull F g k (pixOf pixAll B) B stack sB))) =
      smulI (bfWeights g (pixOf pixAll S))
        (correctedBf ((g.u * g.scanRows) * (g.u * g.scanCols)) (reconstructFull F g k (pixOf pixAll S) S stack sS)) :=
  submask_recombine_full_aux F g k hk pixAll stack hlen A B S hS hA' hB' hA hB hW sA sB sS hsA hsB hsS

example : pixOf [(0, 0), (0, 1), (1, 0), (6, 0)] [1, 3] = [(0, 1), (6, 0)] ∧ ([1, 3] ++ [0, 2]).Perm [0, 1, 2, 3] := by decide

/-- `geometryOf` hands the skeleton the factor image of the i-th mask pixel -/
theorem geometryOf_K_prlx (g : KGeom ℝ) (pix : List (Nat × Nat)) (mapping : List Nat) (i : Nat)
    (hi : i < pix.length) :
    (geometryOf g .prlx pix mapping).K i = kernelFactor g .prlx (signImg g) pix[i] := by
  simp [geometryOf, hi]

/--
**Parallax with defocus / astigmatism, whole model, per bright-field pixel** (`_partial`: the two DFT identities of
`Fourier.CombIdentity` stay hypotheses on the FFT pair).  With `parallax_flip_phase=False`, no filter, and a coefficient
set holding first-order terms only, the corrected image of mask pixel `i` computed by the model FROM THE TRANSLATED SOURCE
(kernel branch, gradient, sign, envelope, aperture weight) is the mean-subtracted virtual image, placed on the upsampled
grid, translated by the geometric shift `prlxShift` of that detector pixel (in scan pixels) and divided by the mask's total
aperture weight — i.e. exactly the i-th summand of the independent closed form `prlxClosed`.
-/
theorem parallax_shift_full_partial (F : Fourier ℝ) (g : KGeom ℝ) (pix : List (Nat × Nat)) (mapping : List Nat)
    (hcomb : F.CombIdentity g.u g.scanRows g.scanCols)
    (hlen : ∀ y, (F.fft2 (g.u * g.scanRows) (g.u * g.scanCols) y).length = (g.u * g.scanRows) * (g.u * g.scanCols))
    (hflip : g.flip = false) (hl : g.qLow = none ∨ g.qLow = some 0) (hh : g.qHigh = none ∨ g.qHigh = some 0)
    (h0 : g.detRows ≠ 0) (h1 : g.detCols ≠ 0) (r0 : g.rs0 ≠ 0) (r1 : g.rs1 ≠ 0)
    (hlow : LowOrder g.coefs) (hab : Generated.DirectKernel.hasAny g.coefs ["C10", "C12", "phi12"] = true)
    (hdx : g.sx / (g.u : ℝ) ≠ 0) (hdy : g.sy / (g.u : ℝ) ≠ 0)
    (stack : List (Img ℝ)) (i : Nat) (hi : i < pix.length) (hm : mapping.getD i 0 < stack.length)
    (hvl : (stack.getD (mapping.getD i 0) []).length = g.scanRows * g.scanCols) (power : Img ℝ) :
    itemValue F .prlx (problemOfStack F (geometryOf g .prlx pix mapping) stack) power i =
      (translate F (g.u * g.scanRows) (g.u * g.scanCols)
        (comb g.u g.scanRows g.scanCols (meanSub (stack.getD (mapping.getD i 0) [])))
        ((prlxShift (prlxGeomOf g) pix[i].1 pix[i].2).1 / (g.sx / (g.u : ℝ)))
        ((prlxShift (prlxGeomOf g) pix[i].1 pix[i].2).2 / (g.sy / (g.u : ℝ)))).map (· / bfWeights g pix) := by
  have hK := geometryOf_K_prlx g pix mapping i hi
  simp only [signImg_noflip g hflip, kernelFactor_prlx] at hK
  have hgrad := gradAt_eq_prlxShift g pix[i] h0 h1 r0 r1 hlow hab
  have key := parallax_shift_item_partial F (geometryOf g .prlx pix mapping) hcomb hlen
    (by simpa [geometryOf] using envImg_nofilter g hl hh) stack i hm hvl
    (g.sx / (g.u : ℝ)) (g.sy / (g.u : ℝ)) (gradAt g pix[i]).1 (gradAt g pix[i]).2 hdx hdy
    (by simpa [geometryOf, qImgs] using hK) power
  rw [key, hgrad]
  have hpi := Real.pi_ne_zero
  have e1 : 2 * Real.pi * (prlxShift (prlxGeomOf g) pix[i].1 pix[i].2).1 / (2 * Real.pi) / (g.sx / (g.u : ℝ)) =
      (prlxShift (prlxGeomOf g) pix[i].1 pix[i].2).1 / (g.sx / (g.u : ℝ)) := by field_simp
  have e2 : 2 * Real.pi * (prlxShift (prlxGeomOf g) pix[i].1 pix[i].2).2 / (2 * Real.pi) / (g.sy / (g.u : ℝ)) =
      (prlxShift (prlxGeomOf g) pix[i].1 pix[i].2).2 / (g.sy / (g.u : ℝ)) := by field_simp
  simp only [e1, e2]
  rfl

/--
**Zero-aberration parallax, whole model, per bright-field pixel** (`_partial`: DFT identities as hypotheses).  With no
aberration coefficient, no sign flipping and no filter, the corrected image of mask pixel `i` computed from the translated
source is the mean-subtracted virtual image (on every `u`-th point of the finer grid) divided by the total aperture weight.
-/
theorem parallax_zero_full_partial (F : Fourier ℝ) (g : KGeom ℝ) (pix : List (Nat × Nat)) (mapping : List Nat)
    (hcomb : F.CombIdentity g.u g.scanRows g.scanCols)
    (hlen : ∀ y, (F.fft2 (g.u * g.scanRows) (g.u * g.scanCols) y).length = (g.u * g.scanRows) * (g.u * g.scanCols))
    (hinv : ∀ y : Img ℝ, y.length = (g.u * g.scanRows) * (g.u * g.scanCols) →
      (F.ifft2 (g.u * g.scanRows) (g.u * g.scanCols)
        (F.fft2 (g.u * g.scanRows) (g.u * g.scanCols) (y.map Cx.ofReal))).map (·.re) = y)
    (hflip : g.flip = false) (hl : g.qLow = none ∨ g.qLow = some 0) (hh : g.qHigh = none ∨ g.qHigh = some 0)
    (hlow : LowOrder g.coefs) (hab : Generated.DirectKernel.hasAny g.coefs ["C10", "C12", "phi12"] = false)
    (stack : List (Img ℝ)) (i : Nat) (hi : i < pix.length) (hm : mapping.getD i 0 < stack.length)
    (hvl : (stack.getD (mapping.getD i 0) []).length = g.scanRows * g.scanCols) (power : Img ℝ) :
    itemValue F .prlx (problemOfStack F (geometryOf g .prlx pix mapping) stack) power i =
      (comb g.u g.scanRows g.scanCols (meanSub (stack.getD (mapping.getD i 0) []))).map (· / bfWeights g pix) := by
  have hK := geometryOf_K_prlx g pix mapping i hi
  simp only [signImg_noflip g hflip, kernelFactor_prlx, gradAt_none g pix[i] hlow hab] at hK
  have key := parallax_zero_item_partial F (geometryOf g .prlx pix mapping) hcomb hlen hinv
    (by simpa [geometryOf] using envImg_nofilter g hl hh) stack i hm hvl (qImgs g).1 (qImgs g).2
    (by simp [geometryOf, qImgs, qGrid]) (by simp [geometryOf, qImgs, qGrid])
    (by simpa [geometryOf] using hK) power
  rw [key]
  rfl

end QuantemModel.Props.C04
