import QuantemModel.Lemmas.BatcherFault
/-!
C09 — mini-batch scheduling (Model/Batcher.lean): the train/validation split is a partition of
all patterns, every epoch visits every training pattern exactly once, the reported number of
batches is the number yielded, `subdivide_batches` ranges are contiguous, and the batch-fraction
scaling makes the mean of the per-batch losses (and of any additive per-pattern quantity such
as the gradient) equal to the full-batch value whenever the batch size divides the number of
patterns.  Only property theorems and non-vacuity examples live here.
-/
namespace QuantemModel.Props.C09
open QuantemModel QuantemModel.Batcher

/-! ### 1. train/validation split -/

/-- **The split is a partition** of `0 … n-1`, for every `n`, every `n_val`, every grid step
`k`, both values of `invert`, both modes and every permutation the RNG may have drawn: train
and validation together are a rearrangement of all indices, neither repeats an index, and no
index is in both.  (Independent of how `n_val` and `k` were rounded.) -/
theorem splitWith_partition (n nVal : Nat) (mode : Mode) (k : Nat) (invert : Bool) (perm : List Nat)
    (hperm : perm.Perm (List.range n)) :
    let s := splitWith n nVal mode k invert perm
    (s.train ++ s.val).Perm (List.range n) ∧ s.train.Nodup ∧ s.val.Nodup ∧
      (∀ x ∈ s.train, x ∉ s.val) := by
  intro s
  have hp := splitWith_perm n nVal mode k invert perm hperm
  have hnd : (s.train ++ s.val).Nodup := hp.symm.nodup List.nodup_range
  rw [List.nodup_append] at hnd
  refine ⟨hp, hnd.1, hnd.2.1, ?_⟩
  intro x hx hx'
  exact hnd.2.2 x hx x hx' rfl

/-- the same for `SimpleBatcher.__init__` as a whole: every binary64 `val_ratio` (in or out of
`[0,1)`, even NaN), both modes, every drawn permutation. -/
theorem split_partition (n : Nat) (ratio : Float) (mode : Mode) (perm : List Nat)
    (hperm : perm.Perm (List.range n)) :
    let s := split n ratio mode perm
    (s.train ++ s.val).Perm (List.range n) ∧ s.train.Nodup ∧ s.val.Nodup ∧
      (∀ x ∈ s.train, x ∉ s.val) :=
  splitWith_partition n _ mode _ _ perm hperm

example : splitWith 10 3 .grid 4 false [] = { train := [1, 2, 3, 5, 6, 7, 9], val := [0, 4, 8] } := by decide
example : splitWith 10 6 .grid 2 true [] = { train := [0, 2, 4, 6, 8], val := [1, 3, 5, 7, 9] } := by decide
example : splitWith 5 2 .random 1 false [3, 0, 4, 1, 2] = { train := [1, 2, 4], val := [3, 0] } := by decide
example : [3, 0, 4, 1, 2].Perm (List.range 5) := by decide

/-! ### 2. one epoch -/

/-- **Every training pattern is visited exactly once per epoch**: for every batch size `b ≥ 1`
(1, non-dividing, larger than the set) and every shuffle `order` of `train`, the yielded
batches concatenate to `order`; hence they are a rearrangement of `train`, every index of
`train` occurs exactly once and no other index occurs. -/
theorem epoch_visits_once (b : Nat) (hb : 0 < b) (train order : List Nat)
    (horder : order.Perm train) (hnd : train.Nodup) :
    (epoch b order).flatten = order ∧ (epoch b order).flatten.Perm train ∧
      ∀ i, (epoch b order).flatten.count i = if i ∈ train then 1 else 0 := by
  have hf : (epoch b order).flatten = order := chunks_flatten b hb order
  refine ⟨hf, by rw [hf]; exact horder, ?_⟩
  intro i
  rw [hf, horder.count_eq]
  by_cases hi : i ∈ train
  · rw [if_pos hi]; exact List.count_eq_one_of_mem hnd hi
  · rw [if_neg hi]; exact List.count_eq_zero_of_not_mem hi

/-- **The reported number of batches equals the number yielded** (`__len__` vs `__iter__`),
every batch is non-empty and has at most `b` elements, and all batches but the last have
exactly `b`. -/
theorem epoch_len (b : Nat) (hb : 0 < b) (train order : List Nat) (horder : order.Perm train) :
    (epoch b order).length = numBatches b train ∧
      (∀ B ∈ epoch b order, B ≠ [] ∧ B.length ≤ b) ∧
      (∀ i, i + 1 < (epoch b order).length → ∃ B, (epoch b order)[i]? = some B ∧ B.length = b) := by
  refine ⟨?_, chunks_mem_bounds b hb order, fun i hi => chunks_init_full b hb order i hi⟩
  unfold epoch numBatches
  rw [chunks_length b hb, horder.length_eq]

/-- the `i`-th batch is the slice `order[i*b : i*b + b]` -/
theorem epoch_batch_is_slice (b : Nat) (hb : 0 < b) (order : List Nat) (i : Nat) :
    (epoch b order)[i]? = if i * b < order.length then some ((order.drop (i * b)).take b) else none :=
  chunks_getElem? b hb order i

/-- **Whole schedule**: with the split of `SimpleBatcher.__init__` and any shuffle of its
training set, an epoch visits exactly the indices that are not validation indices, once each. -/
theorem epoch_covers_complement_of_val (n : Nat) (ratio : Float) (mode : Mode) (perm order : List Nat)
    (b : Nat) (hb : 0 < b) (hperm : perm.Perm (List.range n))
    (horder : order.Perm (split n ratio mode perm).train) :
    ∀ i, (epoch b order).flatten.count i =
      if i < n ∧ i ∉ (split n ratio mode perm).val then 1 else 0 := by
  intro i
  obtain ⟨hp, hndt, _, hdis⟩ := split_partition n ratio mode perm hperm
  rw [(epoch_visits_once b hb _ order horder hndt).2.2 i]
  have hmem : i < n ↔ i ∈ (split n ratio mode perm).train ∨ i ∈ (split n ratio mode perm).val := by
    rw [← List.mem_range, ← hp.mem_iff, List.mem_append]
  by_cases hi : i ∈ (split n ratio mode perm).train
  · have : i < n ∧ i ∉ (split n ratio mode perm).val := ⟨hmem.mpr (Or.inl hi), hdis i hi⟩
    rw [if_pos hi, if_pos this]
  · have : ¬ (i < n ∧ i ∉ (split n ratio mode perm).val) := by
      rintro ⟨h1, h2⟩
      rcases hmem.mp h1 with h | h
      · exact hi h
      · exact h2 h
    rw [if_neg hi, if_neg this]

example : epoch 4 [5, 2, 9, 0, 7, 1, 3, 8, 6, 4] = [[5, 2, 9, 0], [7, 1, 3, 8], [6, 4]] := by decide
example : numBatches 4 [0, 1, 2, 3, 4, 5, 6, 7, 8, 9] = 3 := by decide
example : epoch 1 [2, 0, 1] = [[2], [0], [1]] ∧ epoch 7 [2, 0, 1] = [[2, 0, 1]] := by decide

/-! ### 3. validation pass, `subdivide_batches`, `generate_batches` -/

/-- the validation pass visits every validation index exactly once, in order, and `val_len`
is the number of validation batches yielded -/
theorem val_partition (b : Nat) (hb : 0 < b) (val : List Nat) :
    (iterVal b val).flatten = val ∧ (iterVal b val).length = valLen b val := by
  unfold iterVal valLen
  by_cases h : val.length = 0
  · have : val = [] := List.length_eq_zero_iff.mp h
    subst this; simp
  · have hpos : val.length > 0 := Nat.pos_of_ne_zero h
    simp only [beq_iff_eq, h, if_false, hpos, if_true]
    exact ⟨chunks_flatten b hb val, chunks_length b hb val⟩

/-- `subdivide_batches`: whenever it returns, the sizes sum to `num_items`, differ by at most
one, none is empty, there are `num_batches` of them, and none exceeds `max_batch`. -/
theorem subdivide_sum (n : Nat) (nb? mb? : Option Nat) (sizes : List Nat)
    (h : subdivideBatches n nb? mb? = .ok sizes) :
    sizes.sum = n ∧ (∃ base, ∀ s ∈ sizes, s = base ∨ s = base + 1) ∧ (∀ s ∈ sizes, 0 < s) ∧
      (∀ nb, nb? = some nb → sizes.length = nb) ∧ (∀ mb, mb? = some mb → ∀ s ∈ sizes, s ≤ mb) := by
  unfold subdivideBatches at h
  split at h
  · exact absurd h (by simp)
  · rename_i nb hres
    split at h
    · exact absurd h (by simp)
    · split at h
      · exact absurd h (by simp)
      · rename_i hle hnb0
        have hnb : 0 < nb := Nat.pos_of_ne_zero hnb0
        have hle' : nb ≤ n := Nat.le_of_not_lt hle
        injection h with h; subst h
        refine ⟨batchSizes_sum n nb hnb, ⟨n / nb, batchSizes_balanced n nb⟩,
          batchSizes_pos n nb hnb hle', ?_, ?_⟩
        · intro nb' hnb'
          subst hnb'
          cases mb? with
          | none => simp [resolveNumBatches] at hres; subst hres; exact batchSizes_length n _ hnb
          | some mb => simp [resolveNumBatches] at hres
        · intro mb hmb
          subst hmb
          cases nb? with
          | some nb' => simp [resolveNumBatches] at hres
          | none =>
            simp only [resolveNumBatches] at hres
            split at hres
            · exact absurd hres (by simp)
            · rename_i hmb0
              injection hres with hres; subst hres
              have hn : 0 < n := Nat.lt_of_lt_of_le hnb hle'
              exact batchSizes_le_maxBatch n mb (Nat.pos_of_ne_zero hmb0) hn

/-- `generate_batches`: the yielded half-open ranges, concatenated in order, are exactly
`start, …, start + num_items − 1` — contiguous, disjoint, nothing missing, nothing extra. -/
theorem generate_contiguous (n : Nat) (nb? mb? : Option Nat) (start : Nat) (rs : List (Nat × Nat))
    (h : generateBatches n nb? mb? start = .ok rs) :
    rs.flatMap (fun se => List.range' se.1 (se.2 - se.1)) = List.range' start n := by
  unfold generateBatches at h
  split at h
  · exact absurd h (by simp)
  · rename_i sizes hs
    injection h with h; subst h
    rw [rangesFrom_cover, (subdivide_sum n nb? mb? sizes hs).1]

example : subdivideBatches 10 none (some 4) = .ok [4, 3, 3] := by decide
example : subdivideBatches 10 (some 4) none = .ok [3, 3, 2, 2] := by decide
example : generateBatches 10 none (some 4) 5 = .ok [(5, 9), (9, 12), (12, 15)] := by decide
example : subdivideBatches 3 (some 4) none = .error .valueError := by decide

/-! ### 4. loss scaling -/

/-- **Batch invariance of the recorded loss** (over ℝ): `error_estimate` divides the summed
per-pattern errors of a batch by the batch fraction `|B| / num_gpts`, and `reconstruct`
averages the batch losses over `len(batcher)`.  If the batch size divides the number of
training patterns this average is the loss of the single full batch — for every shuffle
`order`, every per-pattern error `ell`, every normalisation `mu`, every `num_gpts`
(it may exceed `|order|` when a validation set is held out). -/
theorem epochLoss_eq_full (numGpts : Nat) (mu : ℝ) (b : Nat) (order : List Nat) (ell : Nat → ℝ)
    (hb : 0 < b) (hdvd : b ∣ order.length) (hne : order ≠ []) :
    epochLoss numGpts mu b order ell = batchLoss numGpts mu (order.map ell) := by
  unfold epochLoss batchLoss epoch numBatches
  have hfull := chunks_all_full b hb order hdvd
  have hmap : (chunks b order).map (fun B => Num.sum (B.map ell) /
        (Num.ofNat (B.map ell).length / Num.ofNat numGpts) / mu)
      = (chunks b order).map (fun B => (B.map ell).sum / ((b : ℝ) / (numGpts : ℝ)) / mu) := by
    apply List.map_congr_left
    intro B hB
    simp only [NumRealExt.sum_eq, NumReal.ofNat_eq, List.length_map, hfull B hB]
  rw [hmap]
  simp only [NumRealExt.sum_eq, NumReal.div_eq, NumReal.ofNat_eq, List.length_map]
  have hsum : ((chunks b order).map (fun B => (B.map ell).sum / ((b : ℝ) / (numGpts : ℝ)) / mu)).sum
      = (order.map ell).sum / ((b : ℝ) / (numGpts : ℝ)) / mu := by
    rw [← sum_chunks b hb order ell]
    induction chunks b order with
    | nil => simp
    | cons c cs ih => simp only [List.map_cons, List.sum_cons, ih]; ring
  rw [hsum]
  have hm := ceilDiv_of_dvd order.length b hb hdvd
  have hlen : 0 < order.length := List.length_pos_iff.mpr hne
  have hmpos : 0 < ceilDiv order.length b := by
    rcases Nat.eq_zero_or_pos (ceilDiv order.length b) with h0 | h0
    · rw [h0] at hm; omega
    · exact h0
  have hmR : ((ceilDiv order.length b : ℕ) : ℝ) ≠ 0 := by exact_mod_cast hmpos.ne'
  have hbR : (b : ℝ) ≠ 0 := by exact_mod_cast hb.ne'
  have hcast : (order.length : ℝ) = (ceilDiv order.length b : ℝ) * (b : ℝ) := by exact_mod_cast hm.symm
  rw [hcast]
  by_cases hN : (numGpts : ℝ) = 0
  · simp [hN]
  by_cases hmu : mu = 0
  · simp [hmu]
  field_simp

/-- **Batch invariance of the gradient** — the same identity for any additive per-pattern
quantity with values in a vector space (the gradient of the batch loss with respect to any
parameter is `(|B|/N)⁻¹ μ⁻¹ Σ_{i∈B} ∇ℓ_i` by linearity of differentiation): the mean over the
batches equals the full-batch value when `b` divides the number of patterns. -/
theorem grad_mean_eq_full {K V : Type} [Field K] [CharZero K] [AddCommGroup V] [Module K V]
    (N mu : K) (b : Nat) (order : List Nat) (g : Nat → V)
    (hb : 0 < b) (hdvd : b ∣ order.length) (hne : order ≠ []) :
    ((numBatches b order : ℕ) : K)⁻¹ •
        ((epoch b order).map (fun B => (((B.length : ℕ) : K) / N)⁻¹ • mu⁻¹ • (B.map g).sum)).sum
      = (((order.length : ℕ) : K) / N)⁻¹ • mu⁻¹ • (order.map g).sum := by
  unfold epoch numBatches
  have hfull := chunks_all_full b hb order hdvd
  have hmap : (chunks b order).map (fun B => (((B.length : ℕ) : K) / N)⁻¹ • mu⁻¹ • (B.map g).sum)
      = (chunks b order).map (fun B => (((b : ℕ) : K) / N)⁻¹ • mu⁻¹ • (B.map g).sum) := by
    apply List.map_congr_left
    intro B hB
    rw [hfull B hB]
  rw [hmap]
  have hsum : ((chunks b order).map (fun B => (((b : ℕ) : K) / N)⁻¹ • mu⁻¹ • (B.map g).sum)).sum
      = (((b : ℕ) : K) / N)⁻¹ • mu⁻¹ • (order.map g).sum := by
    rw [← sum_chunks b hb order g]
    induction chunks b order with
    | nil => simp
    | cons c cs ih => simp only [List.map_cons, List.sum_cons, ih, smul_add]
  rw [hsum]
  have hm := ceilDiv_of_dvd order.length b hb hdvd
  have hlen : 0 < order.length := List.length_pos_iff.mpr hne
  have hmpos : 0 < ceilDiv order.length b := by
    rcases Nat.eq_zero_or_pos (ceilDiv order.length b) with h0 | h0
    · rw [h0] at hm; omega
    · exact h0
  have hmK : ((ceilDiv order.length b : ℕ) : K) ≠ 0 := Nat.cast_ne_zero.mpr hmpos.ne'
  have hbK : ((b : ℕ) : K) ≠ 0 := Nat.cast_ne_zero.mpr hb.ne'
  have hcast : ((order.length : ℕ) : K) = ((ceilDiv order.length b : ℕ) : K) * ((b : ℕ) : K) := by
    rw [← Nat.cast_mul, hm]
  rw [hcast, smul_smul]
  congr 1
  by_cases hN : N = 0
  · simp [hN]
  field_simp

/-- The restriction to divisors is necessary: with 3 patterns and batch size 2 the batches
`[0,1]`, `[2]` are weighted 1/2 each although they hold 2/3 and 1/3 of the patterns; the mean
of the batch losses (15/2) is not the full-batch loss (6). -/
theorem epochLoss_nondivisor_counterexample :
    epochLoss 3 (1 : ℝ) 2 [0, 1, 2] (fun i => if i = 2 then 4 else 1)
      ≠ batchLoss 3 (1 : ℝ) ([0, 1, 2].map (fun i => if i = 2 then (4 : ℝ) else 1)) := by
  have h1 : epoch 2 [0, 1, 2] = [[0, 1], [2]] := by decide
  have h2 : numBatches 2 [0, 1, 2] = 2 := by decide
  unfold epochLoss batchLoss
  rw [h1, h2]
  simp only [NumRealExt.sum_eq, NumReal.div_eq, NumReal.ofNat_eq, List.map_cons, List.map_nil,
    List.sum_cons, List.sum_nil, List.length_cons, List.length_nil]
  norm_num

example : (2 : Nat) ∣ [3, 1, 0, 2].length ∧ [3, 1, 0, 2] ≠ [] := by decide

/-! ### 5. user supplied indices -/

/-- `SimpleBatcher(train_indices=t, val_indices=v)`: the lists are taken as given (no RNG draw);
supplying only one raises `ValueError`.  If the user's lists are a partition of `0 … n-1` every
clause of the schedule property holds for them as well: no repeats, disjoint, and every epoch
(any `b ≥ 1`, any shuffle) visits exactly the non-validation indices once each. -/
theorem user_indices_schedule (n : Nat) (ratio : Float) (mode : Mode) (perm t v : List Nat)
    (hpart : (t ++ v).Perm (List.range n)) (b : Nat) (hb : 0 < b) (order : List Nat) (horder : order.Perm t) :
    initSplit n ratio mode perm (some t) (some v) = .ok { train := t, val := v } ∧
    initSplit n ratio mode perm (some t) none = .error .valueError ∧
    initSplit n ratio mode perm none (some v) = .error .valueError ∧
    initSplit n ratio mode perm none none = .ok (split n ratio mode perm) ∧
    t.Nodup ∧ v.Nodup ∧ (∀ x ∈ t, x ∉ v) ∧
    (∀ i, (epoch b order).flatten.count i = if i < n ∧ i ∉ v then 1 else 0) := by
  have hnd : (t ++ v).Nodup := hpart.symm.nodup List.nodup_range
  rw [List.nodup_append] at hnd
  refine ⟨rfl, rfl, rfl, rfl, hnd.1, hnd.2.1, fun x hx hx' => hnd.2.2 x hx x hx' rfl, ?_⟩
  intro i
  rw [(epoch_visits_once b hb t order horder hnd.1).2.2 i]
  have hmem : i < n ↔ i ∈ t ∨ i ∈ v := by
    rw [← List.mem_range, ← hpart.mem_iff, List.mem_append]
  by_cases hi : i ∈ t
  · rw [if_pos hi, if_pos ⟨hmem.mpr (Or.inl hi), fun h => hnd.2.2 i hi i h rfl⟩]
  · have : ¬ (i < n ∧ i ∉ v) := by
      rintro ⟨h1, h2⟩
      rcases hmem.mp h1 with h | h
      · exact hi h
      · exact h2 h
    rw [if_neg hi, if_neg this]

example : ([2, 0] ++ [1, 3]).Perm (List.range 4) := by decide

/-! ### 6. `reconstruct`: loss bookkeeping and reset -/

section Reconstruct
variable {P R : Type} [Num R]
variable (draw : Gen → List Nat → List Nat)
variable (stepFn : P → List Nat → P × R) (valFn : P → List Nat → R)

/-- **The recorded epoch loss is the mean over the yielded batches** — for every batch size
`b ≥ 1` (dividing or not), every split, every generator behaviour, every numerical step
function: `reconstruct` appends exactly `num_iters` entries to the loss history (after emptying
it if `reset`), and each entry is the sum of the losses of the batches yielded in that
iteration — one loss per yielded batch — divided by their number. -/
theorem recorded_epoch_loss_is_mean (cfg : RunCfg) (s : Recon P R) (hb : 0 < cfg.b)
    (hdraw : ∀ g l, (draw g l).length = l.length) :
    ∃ (Y : List (List R)) (Z : List R),
      (reconstruct draw stepFn valFn cfg s).1.iterLosses
        = (if cfg.reset then [] else s.iterLosses) ++ Z ∧
      Z.length = cfg.numIters ∧ (reconstruct draw stepFn valFn cfg s).2.length = cfg.numIters ∧
      Y.length = cfg.numIters ∧
      ∀ t ∈ List.zip (reconstruct draw stepFn valFn cfg s).2 (List.zip Y Z),
        t.2.1.length = t.1.length ∧ t.2.2 = Num.sum t.2.1 / Num.ofNat t.2.1.length := by
  unfold reconstruct
  simp only
  obtain ⟨X, Y, Z, h1, _, h3, hx, hy, hz, hrel⟩ := iterate_trace draw stepFn valFn cfg.b
    (makeBatcher draw (if cfg.reset then resetRecon s else s).rng.gen cfg.n cfg.ratio cfg.mode).1 cfg.numIters
    { gen := (makeBatcher draw (if cfg.reset then resetRecon s else s).rng.gen cfg.n cfg.ratio cfg.mode).2,
      params := (if cfg.reset then resetRecon s else s).params,
      iterLosses := (if cfg.reset then resetRecon s else s).iterLosses,
      valLosses := (if cfg.reset then resetRecon s else s).valLosses, schedule := [], batchLosses := [] }
  refine ⟨Y, Z, ?_, hz, ?_, hy, ?_⟩
  · rw [h3]
    by_cases hr : cfg.reset <;> simp [hr, resetRecon]
  · rw [h1]; simpa using hx
  · rw [h1]
    simp only [List.nil_append]
    intro t ht
    obtain ⟨⟨g, hg⟩, hlen, hL⟩ := hrel t ht
    refine ⟨hlen, ?_⟩
    rw [hL]
    unfold recordedEpochLoss numBatches
    rw [hlen, hg]
    unfold epoch
    rw [chunks_length cfg.b hb, hdraw]

/-- **Validation bookkeeping**: a validation loss is recorded in every iteration exactly when the
validation set is non-empty (so `val_iter_losses` grows by `num_iters` or not at all), and the
loss history grows by `num_iters`. -/
theorem history_lengths (cfg : RunCfg) (s : Recon P R) (hb : 0 < cfg.b) :
    let s1 := if cfg.reset then resetRecon s else s
    let sp := (makeBatcher draw s1.rng.gen cfg.n cfg.ratio cfg.mode).1
    (reconstruct draw stepFn valFn cfg s).1.iterLosses.length = s1.iterLosses.length + cfg.numIters ∧
    (reconstruct draw stepFn valFn cfg s).1.valLosses.length
      = s1.valLosses.length + (if sp.val ≠ [] then cfg.numIters else 0) := by
  intro s1 sp
  unfold reconstruct
  simp only
  obtain ⟨_, _, Z, _, _, h3, _, _, hz, _⟩ := iterate_trace draw stepFn valFn cfg.b sp cfg.numIters
    { gen := (makeBatcher draw s1.rng.gen cfg.n cfg.ratio cfg.mode).2, params := s1.params,
      iterLosses := s1.iterLosses, valLosses := s1.valLosses, schedule := [], batchLosses := [] }
  constructor
  · show (iterate draw stepFn valFn cfg.b sp cfg.numIters _).iterLosses.length = _
    rw [h3, List.length_append, hz]
  · show (iterate draw stepFn valFn cfg.b sp cfg.numIters _).valLosses.length = _
    rw [iterate_valLosses_length draw stepFn valFn cfg.b hb]

/-- **Seeded determinism of the model**: two objects built with the same seed and the same
initial parameters — in whatever state they are now — produce, on `reconstruct(reset=True, …)`,
the same state (loss history, validation history, parameters, generator) and the same batch
schedule. -/
theorem same_seed_same_run (cfg : RunCfg) (hreset : cfg.reset = true) (s s' : Recon P R) (k : Nat)
    (h1 : s.rng.rngSeed = some k) (h2 : s'.rng.rngSeed = some k) (h3 : s.initParams = s'.initParams) :
    reconstruct draw stepFn valFn cfg s = reconstruct draw stepFn valFn cfg s' := by
  unfold reconstruct
  simp only [hreset, if_true]
  rw [resetRecon_eq s s' k h1 h2 h3]

/-- **The same run after a reset**: after ANY history of `reconstruct` calls on a seeded object
(resets, continuations without reset, other batch sizes, other iteration counts, other splits),
`reconstruct(reset=True, …)` returns exactly what it returns on the fresh object: identical
loss history and identical schedule.  (This is where the order "reset, then build the batcher on
the object's generator" matters.) -/
theorem reset_run_independent_of_history (hist : List RunCfg) (cfg : RunCfg) (hreset : cfg.reset = true)
    (s0 : Recon P R) (k : Nat) (hseed : s0.rng.rngSeed = some k) :
    reconstruct draw stepFn valFn cfg (runHistory draw stepFn valFn hist s0)
      = reconstruct draw stepFn valFn cfg s0 := by
  have hp := runHistory_preserves draw stepFn valFn hist s0
  exact same_seed_same_run draw stepFn valFn cfg hreset _ _ k (hp.1.trans hseed) hseed hp.2

/-- **Every entry point of a reset is the same operation**: `reconstruct(reset=True, …)` is
`reset_recon()` followed by `reconstruct(reset=False, …)` (also what `from_ptychography` does on its
clone) — so, after any history on a seeded object, the method route reproduces the fresh object's
run as well. -/
theorem reset_routes_agree (hist : List RunCfg) (cfg : RunCfg) (s0 : Recon P R) (k : Nat)
    (hseed : s0.rng.rngSeed = some k) :
    reconstruct draw stepFn valFn { cfg with reset := true } s0
        = reconstruct draw stepFn valFn { cfg with reset := false } (resetRecon s0) ∧
      reconstruct draw stepFn valFn { cfg with reset := false }
          (resetRecon (runHistory draw stepFn valFn hist s0))
        = reconstruct draw stepFn valFn { cfg with reset := true } s0 := by
  have h1 : ∀ s : Recon P R, reconstruct draw stepFn valFn { cfg with reset := true } s
      = reconstruct draw stepFn valFn { cfg with reset := false } (resetRecon s) := by
    intro s
    unfold reconstruct
    simp
  refine ⟨h1 s0, ?_⟩
  rw [← h1]
  exact reset_run_independent_of_history draw stepFn valFn hist { cfg with reset := true } rfl s0 k hseed

end Reconstruct

/-- the hypotheses are satisfiable: a seeded state, a history with a continuation, a reset run -/
example : ∃ (s0 : Recon Nat Rat) (hist : List RunCfg) (cfg : RunCfg),
    s0.rng.rngSeed = some 7 ∧ cfg.reset = true ∧ hist.length = 2 ∧ 0 < cfg.b :=
  ⟨{ rng := { rngSeed := some 7, gen := { seed := 7, pos := 0 } }, params := 0, initParams := 0,
     iterLosses := [], valLosses := [] },
   [{ reset := true, numIters := 2, b := 3, n := 10, ratio := 0.0, mode := .grid },
    { reset := false, numIters := 1, b := 3, n := 10, ratio := 0.0, mode := .grid }],
   { reset := true, numIters := 2, b := 3, n := 10, ratio := 0.0, mode := .grid }, rfl, rfl, rfl, by decide⟩

/-! ### 7. exception safety of configuration calls -/

/-- **A rejected configuration call leaves the session untouched**: whatever value is handed to the
`batch_size`, `val_ratio`, `val_mode` or `rng` setter, if the call raises nothing has been stored. -/
theorem rejected_call_is_noop {P R : Type} (entropy : Nat) (s : Session P R) (call : CfgCall)
    (h : (applyCall entropy s call).2 = true) : (applyCall entropy s call).1 = s := by
  cases call with
  | batchSize v =>
    cases v with
    | none => rfl
    | int i => simp only [applyCall] at h ⊢; split at h <;> first | rfl | (simp at h)
    | float f => simp only [applyCall] at h ⊢; split at h <;> first | rfl | (simp at h)
    | str t => simp only [applyCall] at h ⊢; split at h <;> first | rfl | (simp at h)
    | other => simp only [applyCall] at h ⊢; split at h <;> first | rfl | (simp at h)
  | valRatio v => simp only [applyCall] at h ⊢; split at h <;> first | rfl | (simp at h)
  | valMode v => simp only [applyCall] at h ⊢; split at h <;> first | rfl | (simp at h)
  | rng v =>
    cases v with
    | none => simp [applyCall] at h
    | int k =>
      simp only [applyCall] at h ⊢
      by_cases hk : k ≥ 0
      · simp [hk] at h
      · simp [hk]
    | float f => rfl
    | str t => rfl
    | other => rfl

/-- **… and so does the next run**: a run made after a rejected call — with `batch_size=None` or any
other request — is the run the object would have made had the rejected call never happened
(same schedule, same state, same loss history); a `reconstruct(batch_size=v)` whose `v` is
rejected changes nothing at all. -/
theorem run_after_rejected_call {P R : Type} [Num R] (draw : Gen → List Nat → List Nat)
    (stepFn : P → List Nat → P × R) (valFn : P → List Nat → R) (entropy n : Nat) (s : Session P R)
    (call : CfgCall) (h : (applyCall entropy s call).2 = true) (reset : Bool) (numIters : Nat) (v : CfgVal) :
    reconstructS draw stepFn valFn entropy n reset numIters v (applyCall entropy s call).1
        = reconstructS draw stepFn valFn entropy n reset numIters v s ∧
      ((applyCall entropy s (.batchSize v)).2 = true →
        reconstructS draw stepFn valFn entropy n reset numIters v s = (s, [], true)) := by
  refine ⟨by rw [rejected_call_is_noop entropy s call h], ?_⟩
  intro hv
  unfold reconstructS
  simp only [hv, if_true]

/-- rejected and accepted calls both exist -/
example : validBatchSize (.int (-1)) = none ∧ validBatchSize (.int 0) = none ∧ validBatchSize (.str "a") = none ∧
    validBatchSize (.int 4) = some 4 ∧ validValMode (.str "Grid") = none ∧ validValMode (.str "grid") = some .grid := by
  decide

/-! ### 8. `SimpleBatcher` with every Python integer as batch size, `None`, one whole-set batch -/

/-- **Reported = yielded for EVERY integer batch size**, not only the valid ones: whenever `len(batcher)` returns a
number and the epoch can be iterated (any `b : ℤ` — positive, zero, negative), that number is the number of batches
yielded.  (`b = 0`: both raise; `b < 0`: the epoch is empty and `len` is `0` or raises.) -/
theorem len_eq_yielded_every_int_batch_size (b : Int) (train order : List Nat) (horder : order.Perm train)
    (m : Nat) (bs : List (List Nat)) (hlen : lenPy b train = .ok m) (hiter : iterPy b order = .ok bs) :
    bs.length = m := by
  rcases Int.lt_trichotomy b 0 with hb | hb | hb
  · -- negative step: nothing is yielded; `len` can only have returned 0
    unfold iterPy at hiter
    have h0 : ¬ b = 0 := by omega
    simp only [h0, if_false, hb, if_true] at hiter
    injection hiter with hiter; subst hiter
    unfold lenPy at hlen
    simp only [h0, if_false] at hlen
    split at hlen
    · exact absurd hlen (by simp)
    · rename_i hv
      injection hlen with hlen; subst hlen
      unfold ceilDivPy at hv ⊢
      have hnp : ¬ b > 0 := by omega
      simp only [hnp, if_false] at hv ⊢
      simp only [Int.ofNat_eq_natCast] at hv ⊢
      have hq : (0 : Int) ≤ ((train.length / b.natAbs : Nat) : Int) := Int.natCast_nonneg _
      have hz : (-((train.length / b.natAbs : Nat) : Int)) = 0 := by omega
      rw [hz]; rfl
  · subst hb
    simp [iterPy] at hiter
  · rw [iterPy_pos b hb] at hiter
    rw [lenPy_pos b hb] at hlen
    injection hiter with hiter; injection hlen with hlen
    subst hiter; subst hlen
    exact (epoch_len b.toNat (by omega) train order horder).1

/-- for a valid batch size the Python-level functions are the ones the schedule theorems are about -/
theorem python_batcher_refines (b : Int) (hb : 0 < b) (train order : List Nat) :
    iterPy b order = .ok (epoch b.toNat order) ∧ lenPy b train = .ok (numBatches b.toNat train) :=
  ⟨iterPy_pos b hb order, lenPy_pos b hb train⟩

/-- **`batch_size=None` (and every batch size ≥ the number of patterns) is ONE batch holding the whole training set**,
for every `n`, every non-empty training set and every shuffle of it; `len` reports 1. -/
theorem whole_set_batch (n : Nat) (b? : Option Int) (train order : List Nat) (horder : order.Perm train)
    (hne : train ≠ []) (hn : train.length ≤ n) (hb : ∀ b, b? = some b → Int.ofNat n ≤ b) :
    iterPy (effBatch n b?) order = .ok [order] ∧ lenPy (effBatch n b?) train = .ok 1 := by
  have hlen : order.length = train.length := horder.length_eq
  have hone : order ≠ [] := fun h => hne (List.length_eq_zero_iff.mp (by rw [← hlen, h]; rfl))
  have hpos : 0 < train.length := List.length_pos_iff.mpr hne
  have hbig : Int.ofNat n ≤ effBatch n b? := by
    cases b? with
    | none => exact Int.le_refl _
    | some b => exact hb b rfl
  have hbpos : 0 < effBatch n b? := by
    have : (0 : Int) < Int.ofNat n := by simp only [Int.ofNat_eq_natCast]; omega
    omega
  have hnat : n ≤ (effBatch n b?).toNat := by
    simp only [Int.ofNat_eq_natCast] at hbig; omega
  have hch : epoch (effBatch n b?).toNat order = [order] :=
    chunks_whole _ order hone (by omega)
  refine ⟨by rw [iterPy_pos _ hbpos, hch], ?_⟩
  rw [lenPy_pos _ hbpos]
  have := (epoch_len (effBatch n b?).toNat (by omega) train order horder).1
  rw [hch] at this
  simp only [List.length_cons, List.length_nil] at this
  rw [← this]

example : iterPy (-2) [0, 1, 2] = .ok [] ∧ lenPy (-2) [0, 1, 2] = .error .valueError ∧ lenPy (-5) [0, 1, 2] = .ok 0 ∧
    iterPy 0 [0, 1, 2] = .error .valueError ∧ lenPy 0 [0, 1, 2] = .error .zeroDivisionError ∧
    valLenPy (-2) [0, 1, 2] = .ok (-1) := by decide
example : iterPy (effBatch 5 none) [3, 1, 4] = .ok [[3, 1, 4]] ∧ lenPy (effBatch 5 none) [1, 3, 4] = .ok 1 := by decide

/-- `val_len()` is a plain method, not `len()`: for a NEGATIVE batch size it reports a negative number of validation
batches while the validation pass yields none — outside the property's quantifier (batch sizes are ≥ 1; the
`Ptychography.batch_size` setter rejects anything else), kept visible here and replayed on the real class. -/
theorem val_len_negative_batch_counterexample :
    valLenPy (-2) [0, 1, 2] = .ok (-1) ∧ iterValPy (-2) [0, 1, 2] = .ok [] := by decide

/-! ### 9. whole `reconstruct` calls: exactly-once at the level of the loop -/

section ReconstructSchedule
variable {P R : Type} [Num R]
variable (draw : Gen → List Nat → List Nat)
variable (stepFn : P → List Nat → P × R) (valFn : P → List Nat → R)

/-- **In every reconstruction epoch each training pattern is visited exactly once, and no validation pattern is**:
for every state the object may be in, every configuration of the call (reset or not, any number of iterations, any
`b ≥ 1`, any `val_ratio` / mode) and every generator that returns permutations, each iteration of `reconstruct`
yields batches in which every index `i < n` outside the validation set of THIS call's batcher occurs exactly once
and no other index occurs. -/
theorem reconstruct_epochs_visit_once (cfg : RunCfg) (s : Recon P R) (hb : 0 < cfg.b)
    (hdraw : ∀ g l, (draw g l).Perm l) :
    let s1 := if cfg.reset then resetRecon s else s
    let sp := (makeBatcher draw s1.rng.gen cfg.n cfg.ratio cfg.mode).1
    ∀ X ∈ (reconstruct draw stepFn valFn cfg s).2, ∀ i,
      X.flatten.count i = if i < cfg.n ∧ i ∉ sp.val then 1 else 0 := by
  intro s1 sp X hX i
  obtain ⟨perm, hperm, hsp⟩ := makeBatcher_split draw hdraw s1.rng.gen cfg.n cfg.ratio cfg.mode
  have hX' : X ∈ (iterate draw stepFn valFn cfg.b sp cfg.numIters
      { gen := (makeBatcher draw s1.rng.gen cfg.n cfg.ratio cfg.mode).2, params := s1.params,
        iterLosses := s1.iterLosses, valLosses := s1.valLosses, schedule := [], batchLosses := [] }).schedule := hX
  rcases iterate_schedule_mem draw stepFn valFn cfg.b sp cfg.numIters _ X hX' with h | ⟨g, hg⟩
  · simp at h
  · subst hg
    have hsp' : sp = split cfg.n cfg.ratio cfg.mode perm := hsp
    rw [hsp']
    exact epoch_covers_complement_of_val cfg.n cfg.ratio cfg.mode perm _ cfg.b hb hperm
      (by rw [← hsp']; exact hdraw g sp.train) i

end ReconstructSchedule

/-! ### 10. `reconstruct` calls that do not return (exception from a callee, empty training set) -/

section Faulty
variable {P R : Type} [Num R]
variable (draw : Gen → List Nat → List Nat)
variable (stepFn : P → List Nat → P × R) (valFn : P → List Nat → R)

/-- the model with faults refines the model without: a call in which no exception is injected and whose training
set is not empty is exactly `reconstruct`, and it does not raise.  (With an EMPTY training set — random split,
`round(n·val_ratio) = n` — the real call raises `ZeroDivisionError` in its first iteration; that branch is in
`reconstructF` only.) -/
theorem reconstructF_refines_reconstruct (cfg : RunCfg) (s : Recon P R)
    (h : (makeBatcher draw (if cfg.reset then resetRecon s else s).rng.gen cfg.n cfg.ratio cfg.mode).1.train ≠ []
          ∨ cfg.numIters = 0) :
    reconstructF draw stepFn valFn cfg none s
      = ((reconstruct draw stepFn valFn cfg s).1, (reconstruct draw stepFn valFn cfg s).2, false) := by
  unfold reconstructF reconstruct
  simp only
  rw [iterateF_none draw stepFn valFn _ _ _ _ h]

/-- **An interrupted epoch leaves nothing in the loss histories**: if a call raises while a training batch or a
validation batch of iteration `i` is processed, the object's loss history and validation history are exactly those of
the call with `num_iters = i` — the losses of the batches of the unfinished epoch are in neither — and the generator
has made exactly one more draw (the shuffle of the unfinished epoch). -/
theorem interrupted_call_keeps_completed_epochs_only (cfg : RunCfg) (f : Fault) (s : Recon P R)
    (hk : f.kind ≠ .afterRecord)
    (hne : (makeBatcher draw (if cfg.reset then resetRecon s else s).rng.gen cfg.n cfg.ratio cfg.mode).1.train ≠ [])
    (hraised : (reconstructF draw stepFn valFn cfg (some f) s).2.2 = true) :
    let done := (reconstruct draw stepFn valFn { cfg with numIters := f.iter } s).1
    (reconstructF draw stepFn valFn cfg (some f) s).1.iterLosses = done.iterLosses ∧
    (reconstructF draw stepFn valFn cfg (some f) s).1.valLosses = done.valLosses ∧
    (reconstructF draw stepFn valFn cfg (some f) s).1.rng.gen
      = { seed := done.rng.gen.seed, pos := done.rng.gen.pos + 1 } ∧
    f.iter < cfg.numIters := by
  intro done
  exact iterateF_fault_losses draw stepFn valFn cfg.b _ cfg.numIters f _ hk hne hraised

/-- three iterations of three batches, interrupted in batch 1 of iteration 1: one loss recorded, four batches
stepped, two draws made, the schedule ends with the interrupted batch -/
example :
    let draw : Gen → List Nat → List Nat := fun _ l => l.reverse
    let stepFn : Nat → List Nat → Nat × Rat := fun p B => (p + 1, (B.length : Rat))
    let valFn : Nat → List Nat → Rat := fun _ _ => 0
    let st0 : LoopState Nat Rat := { gen := { seed := 0, pos := 0 }, params := 0, iterLosses := [], valLosses := [],
                                     schedule := [], batchLosses := [] }
    let out := iterateF draw stepFn valFn 2 { train := [0, 1, 2, 3, 4, 5], val := [] } 3 (some { iter := 1, kind := .train 1 }) st0
    out.2 = true ∧ out.1.iterLosses.length = 1 ∧ out.1.params = 4 ∧ out.1.gen.pos = 2 ∧
      out.1.schedule = [[[5, 4], [3, 2], [1, 0]], [[5, 4], [3, 2]]] := by
  decide

/-- **Reset after ANY history, including calls that raised**: on a seeded object, after any sequence of `reconstruct`
calls — completed or interrupted anywhere (training batch, validation batch, after the record, empty training set),
with or without reset, any batch sizes and splits — `reconstruct(reset=True, …)` returns exactly what it returns
on the fresh object: same loss history, same batch schedule, same state; and so does a reset call that is itself
interrupted. -/
theorem reset_run_after_interrupted_calls (hist : List (RunCfg × Option Fault)) (cfg : RunCfg) (hreset : cfg.reset = true)
    (f : Option Fault) (s0 : Recon P R) (k : Nat) (hseed : s0.rng.rngSeed = some k) :
    reconstruct draw stepFn valFn cfg (runHistoryF draw stepFn valFn hist s0)
        = reconstruct draw stepFn valFn cfg s0 ∧
      reconstructF draw stepFn valFn cfg f (runHistoryF draw stepFn valFn hist s0)
        = reconstructF draw stepFn valFn cfg f s0 := by
  have hp := runHistoryF_preserves draw stepFn valFn hist s0
  refine ⟨same_seed_same_run draw stepFn valFn cfg hreset _ _ k (hp.1.trans hseed) hseed hp.2, ?_⟩
  unfold reconstructF
  simp only [hreset, if_true]
  rw [resetRecon_eq _ s0 k (hp.1.trans hseed) hseed hp.2]

/-- **… and a run WITHOUT reset after interrupted calls still records honest means**: whatever calls were made before
(completed or interrupted), every entry the next `reconstruct` appends to the loss history is the sum of the losses
of the batches yielded in that iteration of THAT call divided by their number — nothing of an earlier, unfinished
epoch can enter it. -/
theorem run_after_interrupted_calls_records_means (hist : List (RunCfg × Option Fault)) (cfg : RunCfg) (s0 : Recon P R)
    (hb : 0 < cfg.b) (hdraw : ∀ g l, (draw g l).length = l.length) :
    ∃ (Y : List (List R)) (Z : List R),
      (reconstruct draw stepFn valFn cfg (runHistoryF draw stepFn valFn hist s0)).1.iterLosses
        = (if cfg.reset then [] else (runHistoryF draw stepFn valFn hist s0).iterLosses) ++ Z ∧
      Z.length = cfg.numIters ∧ Y.length = cfg.numIters ∧
      ∀ t ∈ List.zip (reconstruct draw stepFn valFn cfg (runHistoryF draw stepFn valFn hist s0)).2 (List.zip Y Z),
        t.2.1.length = t.1.length ∧ t.2.2 = Num.sum t.2.1 / Num.ofNat t.2.1.length := by
  obtain ⟨Y, Z, h1, h2, _, h4, h5⟩ :=
    recorded_epoch_loss_is_mean draw stepFn valFn cfg (runHistoryF draw stepFn valFn hist s0) hb hdraw
  exact ⟨Y, Z, h1, h2, h4, h5⟩

end Faulty

/-! ### 11. every form of seed -/

/-- **Seed 0 is a seed; every accepted form of seed is replayed by a reset.**  For every non-negative int (0
included), every `np.random.Generator` (whatever was already drawn from it) and every `torch.Generator`:
the setter stores the seed, `_reset_rng` puts the NumPy generator back to position 0 of that seed and the torch
generator to `seed mod 2³²`, resetting twice is resetting once — and for a seed handed over as an int, a torch
generator or an unused NumPy generator the reset state IS the state right after construction (so "the first run of a
fresh object" and "the same run after a reset" start from the same generator). -/
theorem reset_replays_every_seed_form (entropy : Nat) (form : SeedForm) (r : RngFull) (h : rngSet entropy form = some r)
    (hseeded : form ≠ .none) :
    ∃ k, r.rng.rngSeed = some k ∧
      resetRngFull r = { rng := { rngSeed := some k, gen := { seed := k, pos := 0 } }, torchSeed := some (k % 2 ^ 32) } ∧
      resetRngFull (resetRngFull r) = resetRngFull r ∧
      ((∀ e c, form = .npGen e c → c = 0) → resetRngFull r = r) := by
  cases form with
  | none => exact absurd rfl hseeded
  | int k =>
    simp only [rngSet] at h
    split at h
    · injection h with h; subst h
      exact ⟨k.toNat, rfl, rfl, rfl, fun _ => rfl⟩
    · exact absurd h (by simp)
  | npGen e c =>
    simp only [rngSet] at h
    injection h with h; subst h
    refine ⟨e, rfl, rfl, rfl, ?_⟩
    intro hc
    have : c = 0 := hc e c rfl
    subst this
    rfl
  | torchGen sd =>
    simp only [rngSet] at h
    injection h with h; subst h
    exact ⟨sd, rfl, rfl, rfl, fun _ => rfl⟩
  | float => simp [rngSet] at h
  | other => simp [rngSet] at h

example : rngSet 99 (.int 0) = some { rng := { rngSeed := some 0, gen := { seed := 0, pos := 0 } }, torchSeed := some 0 } ∧
    rngSet 99 (.int (-3)) = none ∧ rngSet 99 .float = none ∧
    (rngSet 99 (.int (2 ^ 32 + 42))).map (·.torchSeed) = some (some 42) := by decide

end QuantemModel.Props.C09
