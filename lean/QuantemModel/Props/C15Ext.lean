import QuantemModel.Lemmas.DriftBatch
import QuantemModel.Props.C15
/-!
C15, growth round 6 — the batch loop of `bilinear_kde` (Model/DriftBatch.lean): the weight map does not depend on
`max_batch_size`.  `subdivide_batches` / `generate_batches` cut the point list into consecutive slices that tile it
exactly — for every point count and every batch size (dividing the count exactly, leaving a remainder, exceeding it) —
so the slice-by-slice accumulation is the un-batched weight map about which Props/C15.lean proves unit total weight.
-/
namespace QuantemModel.Props.C15
open QuantemModel QuantemModel.Registration QuantemModel.Drift Finset

/-- `subdivide_batches(n, max_batch=mb)` returns (does not raise) exactly when there is at least one item and the
batch size is positive — `bilinear_kde` on an empty point list divides by zero. -/
theorem subdivide_batches_returns_iff (n mb : ℕ) : (subdivideBatches n mb).isSome ↔ 0 < n ∧ 0 < mb := by
  unfold subdivideBatches
  constructor
  · intro h
    split_ifs at h with h1 h2
    · simp at h
    · simp at h
    · refine ⟨?_, Nat.pos_of_ne_zero h1⟩
      rcases Nat.eq_zero_or_pos n with h0 | h0
      · exfalso; apply h2; subst h0; unfold numBatches
        exact Nat.div_eq_of_lt (by omega)
      · exact h0
  · rintro ⟨hn, hmb⟩
    have := numBatches_pos hmb hn
    rw [if_neg (by omega), if_neg (by omega)]; rfl

/-- The batch sizes add up to the number of items: no point is dropped and none is counted twice, for EVERY item
count and batch size. -/
theorem subdivide_batches_sum {n mb : ℕ} {sizes : List ℕ} (h : subdivideBatches n mb = some sizes) :
    sizes.sum = n := by
  unfold subdivideBatches at h
  split_ifs at h with h1 h2
  simp only [Option.some.injEq] at h
  subst h
  simp only [List.sum_append, List.sum_replicate, smul_eq_mul]
  generalize numBatches n mb = nb at h2 ⊢
  have hlt : n % nb < nb := Nat.mod_lt _ (Nat.pos_of_ne_zero h2)
  have hd := Nat.div_add_mod n nb
  obtain ⟨m, hm⟩ : ∃ m, nb = m + n % nb := ⟨nb - n % nb, by omega⟩
  have e : nb - n % nb = m := by omega
  rw [e]
  generalize n % nb = r at *
  generalize n / nb = b at *
  subst hm
  nlinarith

/-- `num_batches = ceil(n / max_batch)` slices; every slice is non-empty and holds at most `max_batch` points. -/
theorem subdivide_batches_bounds {n mb : ℕ} {sizes : List ℕ} (h : subdivideBatches n mb = some sizes) :
    sizes.length = numBatches n mb ∧ ∀ s ∈ sizes, 1 ≤ s ∧ s ≤ mb := by
  have hs := (subdivide_batches_returns_iff n mb).1 (by rw [h]; rfl)
  obtain ⟨hn, hmb⟩ := hs
  unfold subdivideBatches at h
  split_ifs at h with h1 h2
  simp only [Option.some.injEq] at h
  subst h
  have hge := numBatches_mul_ge (n := n) hmb
  have hle := numBatches_le hmb hn
  generalize numBatches n mb = nb at h2 hge hle ⊢
  have hnb : 0 < nb := Nat.pos_of_ne_zero h2
  have hlt : n % nb < nb := Nat.mod_lt _ hnb
  have hd := Nat.div_add_mod n nb
  have hb1 : 1 ≤ n / nb := Nat.div_pos hle hnb
  have hb2 : n / nb ≤ mb := Nat.div_le_of_le_mul hge
  refine ⟨by simp; omega, ?_⟩
  intro s hs
  rcases List.mem_append.1 hs with hs | hs
  · obtain ⟨hr, rfl⟩ := List.mem_replicate.1 hs
    refine ⟨by omega, ?_⟩
    by_contra hcon
    have hb : n / nb = mb := by omega
    rw [hb] at hd
    have hr' : 0 < n % nb := Nat.pos_of_ne_zero hr
    omega
  · obtain ⟨_, rfl⟩ := List.mem_replicate.1 hs
    exact ⟨hb1, hb2⟩

/-- **Batch-size independence.**  For every canvas, every point list and every `max_batch_size` (`None` included)
with which `bilinear_kde` returns, the raw weight map accumulated slice by slice equals the un-batched one. -/
theorem batched_weight_map_eq (rows cols n : ℕ) (maxBatch : Option ℕ) (pt : ℕ → ℝ × ℝ) {w : ℕ → ℕ → ℝ}
    (h : kdeCount rows cols n maxBatch pt = some w) (i j : ℕ) :
    w i j = weightMapAt rows cols n pt i j := by
  unfold kdeCount kdeBatches at h
  cases hs : subdivideBatches n (maxBatch.getD n) with
  | none => rw [hs] at h; simp at h
  | some sizes =>
    rw [hs] at h
    simp only [Option.map_some, Option.some.injEq] at h
    subst h
    rw [weightMapBatched_eq, subdivide_batches_sum hs]

/-- Two batch sizes give the same weight map (e.g. one that divides the point count and one that leaves remainder 1). -/
theorem weight_map_independent_of_batch_size (rows cols n : ℕ) (b₁ b₂ : Option ℕ) (pt : ℕ → ℝ × ℝ) {w₁ w₂ : ℕ → ℕ → ℝ}
    (h₁ : kdeCount rows cols n b₁ pt = some w₁) (h₂ : kdeCount rows cols n b₂ pt = some w₂) (i j : ℕ) :
    w₁ i j = w₂ i j := by
  rw [batched_weight_map_eq rows cols n b₁ pt h₁, batched_weight_map_eq rows cols n b₂ pt h₂]

/-- **Unit weight per pixel, as the code computes it** (front end `generate_batches` + splat core): whatever the batch
size, the weight map of `n` points on a non-empty canvas totals `n` — points on the last row / column or outside the
canvas included (they wrap). -/
theorem batched_weight_map_total {rows cols : ℕ} (hr : 0 < rows) (hc : 0 < cols) (n : ℕ) (maxBatch : Option ℕ)
    (pt : ℕ → ℝ × ℝ) {w : ℕ → ℕ → ℝ} (h : kdeCount rows cols n maxBatch pt = some w) :
    ∑ i ∈ range rows, ∑ j ∈ range cols, w i j = (n : ℝ) := by
  simp_rw [batched_weight_map_eq rows cols n maxBatch pt h]
  exact weight_map_total hr hc n pt

/-- `bilinear_kde` returns for every non-empty point list with `max_batch_size=None` or a positive batch size. -/
theorem kde_count_returns (rows cols n : ℕ) (maxBatch : Option ℕ) (pt : ℕ → ℝ × ℝ) (hn : 0 < n)
    (hb : ∀ b, maxBatch = some b → 0 < b) : (kdeCount rows cols n maxBatch pt).isSome := by
  unfold kdeCount kdeBatches
  have hmb : 0 < maxBatch.getD n := by
    cases maxBatch with
    | none => simpa using hn
    | some b => simpa using hb b rfl
  have := (subdivide_batches_returns_iff n (maxBatch.getD n)).2 ⟨hn, hmb⟩
  simp only [Option.isSome_map]; exact this

/-! ### non-vacuity -/
example : subdivideBatches 6 3 = some [3, 3] := by decide
example : subdivideBatches 7 3 = some [3, 2, 2] := by decide
example : subdivideBatches 6 7 = some [6] := by decide
example : subdivideBatches 0 3 = none := by decide
example : generateBatches [3, 2, 2] 0 = [(0, 3), (3, 5), (5, 7)] := by decide
example : (kdeCount 3 4 7 (some 3) (fun p => ((p : ℝ) - 2, (p : ℝ) / 2))).isSome :=
  kde_count_returns 3 4 7 (some 3) _ (by norm_num) (by intro b hb; cases hb; norm_num)
example : (kdeCount 3 4 7 none (fun p => ((p : ℝ) - 2, (p : ℝ) / 2))).isSome :=
  kde_count_returns 3 4 7 none _ (by norm_num) (by intro b hb; cases hb)

end QuantemModel.Props.C15
