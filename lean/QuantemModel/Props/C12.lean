import QuantemModel.Lemmas.AberrationPolar
import QuantemModel.Lemmas.AberrationAlias
import QuantemModel.Lemmas.AberrationGrad
import QuantemModel.Lemmas.AberrationGuard
import QuantemModel.Lemmas.AberrationState
/-!
C12 — one aberration surface across polar, Cartesian, gradient and fitted forms.
Only property theorems and non-vacuity examples live here.  Everything named
`aberration_surface…`, `polar_to_cartesian_aberrations`, `cartesian_to_polar_aberrations`,
`merge_aberration_coefficients`, `POLAR_SYMBOLS`, … is the *translated source*
(Generated/Aberration.lean, regenerated from /repo on every run); `chi` is the hand-written
specification (Model/Aberration.lean); all statements are at ℝ.
-/
namespace QuantemModel.Props.C12
open QuantemModel QuantemModel.Aberration QuantemModel.Generated.Aberration

/-- The (n,m) table of the specification names exactly the 25 polar symbols and the 25 Cartesian
labels of the source, both copies of the symbol/alias tables agree, and the conversions write
exactly these keys. -/
theorem symbols_cover :
    tableSymbols = POLAR_SYMBOLS ∧ tableLabels = CARTESIAN_LABELS ∧
    VALIDATORS_POLAR_SYMBOLS = POLAR_SYMBOLS ∧ VALIDATORS_POLAR_ALIASES = POLAR_ALIASES ∧
    POLAR_TO_CARTESIAN_KEYS = CARTESIAN_LABELS ∧ CARTESIAN_TO_POLAR_KEYS = POLAR_SYMBOLS ∧
    ABERRATION_PRESETS.lookup "all" = some CARTESIAN_LABELS := by decide

/-- **surface = spec**: the translated polar series is
χ(α,φ) = (2π/λ) Σ_{(n,m)} α^{n+1}/(n+1) · C_nm · cos(m(φ − φ_nm)) for all real α, φ, λ and all
25 coefficient values. -/
theorem surface_eq_spec (α φ lam : ℝ) (c : String → ℝ) :
    aberration_surface α φ lam c = chi α φ lam c := surface_eq_chi α φ lam c

/-- **guard soundness**: every `if any(k in coefs …)` block contributes 0 when all its guard keys
read as 0 (an absent key reads as 0), so emitting the unguarded sum loses nothing. -/
theorem guard_sound (α φ lam : ℝ) (c : String → ℝ) :
    ((∀ k ∈ aberration_surface_guards.getD 0 [], c k = 0) → aberration_surface_chi_term1 α φ lam c = 0) ∧
    ((∀ k ∈ aberration_surface_guards.getD 1 [], c k = 0) → aberration_surface_chi_term2 α φ lam c = 0) ∧
    ((∀ k ∈ aberration_surface_guards.getD 2 [], c k = 0) → aberration_surface_chi_term3 α φ lam c = 0) ∧
    ((∀ k ∈ aberration_surface_guards.getD 3 [], c k = 0) → aberration_surface_chi_term4 α φ lam c = 0) ∧
    ((∀ k ∈ aberration_surface_guards.getD 4 [], c k = 0) → aberration_surface_chi_term5 α φ lam c = 0) ∧
    ((∀ k ∈ aberration_surface_polar_gradients_guards.getD 0 [], c k = 0) →
      aberration_surface_polar_gradients_dchi_dk_term1 α φ c = 0 ∧ aberration_surface_polar_gradients_dchi_dphi_term1 α φ c = 0) ∧
    ((∀ k ∈ aberration_surface_polar_gradients_guards.getD 1 [], c k = 0) →
      aberration_surface_polar_gradients_dchi_dk_term2 α φ c = 0 ∧ aberration_surface_polar_gradients_dchi_dphi_term2 α φ c = 0) ∧
    ((∀ k ∈ aberration_surface_polar_gradients_guards.getD 2 [], c k = 0) →
      aberration_surface_polar_gradients_dchi_dk_term3 α φ c = 0 ∧ aberration_surface_polar_gradients_dchi_dphi_term3 α φ c = 0) ∧
    ((∀ k ∈ aberration_surface_polar_gradients_guards.getD 3 [], c k = 0) →
      aberration_surface_polar_gradients_dchi_dk_term4 α φ c = 0 ∧ aberration_surface_polar_gradients_dchi_dphi_term4 α φ c = 0) ∧
    ((∀ k ∈ aberration_surface_polar_gradients_guards.getD 4 [], c k = 0) →
      aberration_surface_polar_gradients_dchi_dk_term5 α φ c = 0 ∧ aberration_surface_polar_gradients_dchi_dphi_term5 α φ c = 0) := by
  refine ⟨?_, ?_, ?_, ?_, ?_, ?_, ?_, ?_, ?_, ?_⟩ <;>
  · intro h
    simp only [aberration_surface_guards, aberration_surface_polar_gradients_guards, List.getD_cons_zero,
      List.getD_cons_succ, List.mem_cons, List.not_mem_nil, or_false, forall_eq_or_imp, forall_eq] at h
    aberr_unfold
    num_real
    simp [h]

/-- **guards are transparent** (the guards of the source, translated faithfully as `…_guarded` with a presence
predicate, against the unguarded sums all other theorems are about): for EVERY set of present keys, as long as
absent keys read 0 (dict `.get(k, 0.0)` semantics), surface, polar gradients and Cartesian gradients with their
`if any(k in coefs …)` guards equal the unguarded ones.  A guard tuple that misses a key its block reads
(e.g. C56/phi56 dropped from the fifth-order guard) makes this statement false of the translated source. -/
theorem guards_transparent (α φ lam : ℝ) (c : String → ℝ) (present : String → Bool)
    (hc : ∀ k, present k = false → c k = 0) :
    aberration_surface_guarded α φ lam c present = aberration_surface α φ lam c ∧
    aberration_surface_polar_gradients_guarded α φ c present = aberration_surface_polar_gradients α φ c ∧
    aberration_surface_cartesian_gradients_guarded α φ c present = aberration_surface_cartesian_gradients α φ c := by
  obtain ⟨s1, s2, s3, s4, s5, g1, g2, g3, g4, g5⟩ := guard_sound α φ lam c
  simp only [aberration_surface_guards, aberration_surface_polar_gradients_guards, List.getD_cons_zero,
    List.getD_cons_succ] at s1 s2 s3 s4 s5 g1 g2 g3 g4 g5
  have hp : aberration_surface_polar_gradients_guarded α φ c present = aberration_surface_polar_gradients α φ c := by
    simp only [aberration_surface_polar_gradients_guarded, aberration_surface_polar_gradients]
    rw [guardAdd_eq present c hc _ _ _ (fun h => (g1 h).1), guardAdd_eq present c hc _ _ _ (fun h => (g2 h).1),
      guardAdd_eq present c hc _ _ _ (fun h => (g3 h).1), guardAdd_eq present c hc _ _ _ (fun h => (g4 h).1),
      guardAdd_eq present c hc _ _ _ (fun h => (g5 h).1),
      guardSub_eq present c hc _ _ _ (fun h => (g1 h).2), guardSub_eq present c hc _ _ _ (fun h => (g2 h).2),
      guardSub_eq present c hc _ _ _ (fun h => (g3 h).2), guardSub_eq present c hc _ _ _ (fun h => (g4 h).2),
      guardSub_eq present c hc _ _ _ (fun h => (g5 h).2)]
  refine ⟨?_, hp, ?_⟩
  · simp only [aberration_surface_guarded, aberration_surface]
    rw [guardAdd_eq present c hc _ _ _ s1, guardAdd_eq present c hc _ _ _ s2, guardAdd_eq present c hc _ _ _ s3,
      guardAdd_eq present c hc _ _ _ s4, guardAdd_eq present c hc _ _ _ s5]
  · simp only [aberration_surface_cartesian_gradients_guarded, aberration_surface_cartesian_gradients, hp]

/-- **guard completeness** (finite, by `decide`): each of the 25 polar symbols is listed in the guard tuple of
its own block, in the surface AND in the gradient function, and the two functions use the same tuples. -/
theorem guard_complete :
    (POLAR_SYMBOLS.all fun s =>
      (List.zip aberration_surface_guards aberration_surface_polar_gradients_guards).any
        fun g => g.1.contains s && g.2.contains s) = true ∧
    aberration_surface_guards = aberration_surface_polar_gradients_guards := by decide

/-- **every symbol individually** (all 14 table entries = 25 symbols, fifth order included): on the coefficient
set that holds only the entry (C_nm, φ_nm), the translated surface is (2π/λ)·α^{n+1}/(n+1)·C cos(m(φ−φ_nm)), the
translated radial gradient is 2π·α^n·C cos(m(φ−φ_nm)) and α × the translated azimuthal gradient is
−2π·α^{n+1}/(n+1)·m·C sin(m(φ−φ_nm)). -/
theorem single_symbol :
    ∀ t ∈ table, ∀ (C p0 α φ lam : ℝ),
      aberration_surface α φ lam (single t C p0)
        = 2 * Real.pi / lam * term t.1 t.2.1 C (if t.2.1 = 0 then 0 else p0) α φ ∧
      (aberration_surface_polar_gradients α φ (single t C p0)).1
        = 2 * Real.pi * termDAlpha t.1 t.2.1 C (if t.2.1 = 0 then 0 else p0) α φ ∧
      α * (aberration_surface_polar_gradients α φ (single t C p0)).2
        = 2 * Real.pi * termDPhi t.1 t.2.1 C (if t.2.1 = 0 then 0 else p0) α φ :=
  single_symbol_lemma

/-- **every symbol contributes to BOTH surface and gradient**: a non-zero amplitude alone already makes the
translated surface and the translated radial gradient non-zero at some (α, φ); for m ≠ 0 the azimuthal gradient
too (so no symbol of the 25 is silently dropped from either function). -/
theorem every_symbol_contributes :
    ∀ t ∈ table, ∀ (C p0 : ℝ), C ≠ 0 →
      (∃ α φ, aberration_surface α φ 1 (single t C p0) ≠ 0 ∧
        (aberration_surface_polar_gradients α φ (single t C p0)).1 ≠ 0) ∧
      (t.2.1 ≠ 0 → ∃ α φ, (aberration_surface_polar_gradients α φ (single t C p0)).2 ≠ 0) :=
  every_symbol_contributes_lemma

/-- **column order of the Cartesian basis for an ARBITRARY label list** (the loop of
`aberration_surface_cartesian_basis` translated with the label list dynamic): for every list of labels from the
25-label table — any order, repetitions allowed — the result has one column per label and column i is the
basis function of labels[i]; a label outside the table makes the model return `none`. -/
theorem basis_column_order (α φ lam : ℝ) (labels : List String) :
    ((∀ l ∈ labels, l ∈ CARTESIAN_LABELS) →
      aberration_surface_cartesian_basis_list α φ lam labels = some (labels.map (basisCol α φ lam))) ∧
    ((∃ l ∈ labels, l ∉ CARTESIAN_LABELS) → aberration_surface_cartesian_basis_list α φ lam labels = none) ∧
    aberration_surface_cartesian_basis_list α φ lam CARTESIAN_LABELS
      = some (aberration_surface_cartesian_basis α φ lam) := by
  refine ⟨fun h => ?_, fun h => ?_, ?_⟩
  · simp only [aberration_surface_cartesian_basis_list]
    rw [basis_fold_known α φ lam labels [] h]; simp
  · simp only [aberration_surface_cartesian_basis_list]
    exact basis_fold_unknown α φ lam labels [] h
  · simp only [aberration_surface_cartesian_basis_list]
    rw [basis_fold_known α φ lam CARTESIAN_LABELS [] (fun l h => h)]
    simp only [List.nil_append, Option.some.injEq]
    simp only [CARTESIAN_LABELS, List.map, basisCol, colOf, aberration_surface_cartesian_basis, String.reduceEq,
      if_true, if_false]

/-- **basis expansion**: Σ_l cart_l · basis_l(α,φ) with `cart = polar_to_cartesian(polar)` over the
25 labels is the same function χ(α,φ) as the polar form, for all values. -/
theorem basis_expansion (α φ lam : ℝ) (c : String → ℝ) :
    basisExpansion α φ lam (envOfDict (polar_to_cartesian_aberrations c)) = aberration_surface α φ lam c := by
  rw [surface_eq_chi]; exact basis_expansion_chi α φ lam c

/-- **Cartesian → polar → Cartesian** is the identity on all 25 labels, unconditionally. -/
theorem conversions_cart_polar_cart (c : String → ℝ) :
    ∀ l ∈ CARTESIAN_LABELS,
      envOfDict (polar_to_cartesian_aberrations (envOfDict (cartesian_to_polar_aberrations c))) l = c l :=
  cart_polar_cart c

/-- **polar → Cartesian → polar** returns the coefficients for C > 0 and m·φ ∈ (−π, π]
(every table entry; round terms unconditionally). -/
theorem conversions_polar_cart_polar (p : String → ℝ) :
    ∀ t ∈ table, PrincipalAt p t →
      envOfDict (cartesian_to_polar_aberrations (envOfDict (polar_to_cartesian_aberrations p))) t.2.2.1 = p t.2.2.1 ∧
      (t.2.1 ≠ 0 →
        envOfDict (cartesian_to_polar_aberrations (envOfDict (polar_to_cartesian_aberrations p))) t.2.2.2 = p t.2.2.2) :=
  polar_cart_polar p

/-- … and outside that range (negative C, any angle) the converted coefficients still describe the
**identical function** of (α, φ). -/
theorem conversions_same_surface (α φ lam : ℝ) (c : String → ℝ) :
    aberration_surface α φ lam
      (envOfDict (cartesian_to_polar_aberrations (envOfDict (polar_to_cartesian_aberrations c))))
      = aberration_surface α φ lam c := surface_polar_cart_polar α φ lam c

/-- **merge**: the merged polar coefficients describe `χ_init + Σ_l δ_l · basis_l`. -/
theorem merge_surface (α φ lam : ℝ) (init delta : String → ℝ) :
    aberration_surface α φ lam (envOfDict (merge_aberration_coefficients init delta))
      = aberration_surface α φ lam init + basisExpansion α φ lam delta :=
  Aberration.merge_surface α φ lam init delta

/-- merging a zero delta leaves the surface unchanged -/
theorem merge_zero_delta (α φ lam : ℝ) (init : String → ℝ) :
    aberration_surface α φ lam (envOfDict (merge_aberration_coefficients init (fun _ => 0)))
      = aberration_surface α φ lam init := by
  rw [Aberration.merge_surface]
  simp only [basisExpansion]
  aberr_unfold
  dict_eval
  num_real
  ring

/-- **gradient (radial)**: `dchi_dk` of the source is λ · ∂χ/∂α of the source's own surface. -/
theorem gradient_true_alpha (α φ lam : ℝ) (c : String → ℝ) :
    HasDerivAt (fun a => aberration_surface a φ lam c)
      ((aberration_surface_polar_gradients α φ c).1 / lam) α := by
  rw [dk_eq, show (fun a => aberration_surface a φ lam c) = fun a => chi a φ lam c from
    funext fun a => surface_eq_chi a φ lam c]
  exact chi_hasDerivAt_alpha α φ lam c

/-- **gradient (azimuthal)**: `dchi_dphi` of the source is λ · (1/α) ∂χ/∂φ, i.e.
∂χ/∂φ = α · dchi_dphi / λ. -/
theorem gradient_true_phi (α φ lam : ℝ) (c : String → ℝ) :
    HasDerivAt (fun p => aberration_surface α p lam c)
      (α * (aberration_surface_polar_gradients α φ c).2 / lam) φ := by
  rw [dphi_eq, show (fun p => aberration_surface α p lam c) = fun p => chi α p lam c from
    funext fun p => surface_eq_chi α p lam c]
  exact chi_hasDerivAt_phi α φ lam c

/-- **Cartesian gradients** are the rotation by φ of the polar ones
(∂x = cos φ ∂r − sin φ (1/r)∂φ, ∂y = sin φ ∂r + cos φ (1/r)∂φ). -/
theorem cartesian_gradient_rotation (α φ : ℝ) (c : String → ℝ) :
    (aberration_surface_cartesian_gradients α φ c).1 =
        Real.cos φ * (aberration_surface_polar_gradients α φ c).1
          - Real.sin φ * (aberration_surface_polar_gradients α φ c).2 ∧
    (aberration_surface_cartesian_gradients α φ c).2 =
        Real.sin φ * (aberration_surface_polar_gradients α φ c).1
          + Real.cos φ * (aberration_surface_polar_gradients α φ c).2 := by
  constructor <;> simp only [aberration_surface_cartesian_gradients] <;> num_real <;> try ring

/-- **Cartesian gradients = λ·∇_{x,y}χ** (chain rule through the polar coordinates the source itself computes,
`k = sqrt(kx² + ky²)`, `phi = arctan2(ky, kx)`): at every point (x, y) ≠ (0, 0) — the negative real axis, where
atan2 jumps, included — the partial derivatives of `(x, y) ↦ aberration_surface(k, phi)` in x and in y are
`dchi_dx / λ` and `dchi_dy / λ`, i.e. the analytic gradient used for the parallax shifts equals the wavelength
times the true gradient of the surface. -/
theorem cartesian_gradient_true (x y lam : ℝ) (c : String → ℝ) (h0 : x * x + y * y ≠ 0) :
    HasDerivAt (fun t => aberration_surface (√(t * t + y * y)) (Complex.arg ⟨t, y⟩) lam c)
      ((aberration_surface_cartesian_gradients (√(x * x + y * y)) (Complex.arg ⟨x, y⟩) c).1 / lam) x ∧
    HasDerivAt (fun t => aberration_surface (√(x * x + t * t)) (Complex.arg ⟨x, t⟩) lam c)
      ((aberration_surface_cartesian_gradients (√(x * x + y * y)) (Complex.arg ⟨x, y⟩) c).2 / lam) y :=
  cartesian_gradient_true_lemma x y lam c h0

/-- the surface is 2π-periodic in the azimuth (all m in the table are natural numbers) -/
theorem surface_periodic (α φ lam : ℝ) (c : String → ℝ) :
    aberration_surface α (φ + 2 * Real.pi) lam c = aberration_surface α φ lam c := by
  rw [surface_eq_chi, surface_eq_chi, chi_periodic]

/-! ### the `defocus` alias -/

/-- table facts (finite, by `decide`): `defocus` is no polar symbol; among all accepted keys the
only writers of C10 are `C10` and `defocus`, in both copies of the tables and in both loop bodies. -/
theorem defocus_alias_tables :
    POLAR_SYMBOLS.contains "defocus" = false ∧ VALIDATORS_POLAR_SYMBOLS.contains "defocus" = false ∧
    aliasTarget POLAR_ALIASES "defocus" = some "C10" ∧ aliasTarget VALIDATORS_POLAR_ALIASES "defocus" = some "C10" ∧
    (∀ k ∈ POLAR_SYMBOLS ++ POLAR_ALIASES.map (·.1),
      (writes POLAR_SYMBOLS POLAR_ALIASES k = some "C10" ↔ (k = "C10" ∨ k = "defocus")) ∧
      (swrites POLAR_ALIASES k = "C10" ↔ (k = "C10" ∨ k = "defocus"))) ∧
    (∀ k ∈ VALIDATORS_POLAR_SYMBOLS ++ VALIDATORS_POLAR_ALIASES.map (·.1),
      (writes VALIDATORS_POLAR_SYMBOLS VALIDATORS_POLAR_ALIASES k = some "C10" ↔ (k = "C10" ∨ k = "defocus"))) := by
  decide

/-- **defocus alias, complex_probe.standardize_aberration_coefs**: for every input dict holding
`defocus = x` with no later writer of C10, the result has C10 = −x. -/
theorem defocus_alias_standardize (l1 l2 : List (String × Option ℝ)) (r : List (String × ℝ)) (x : ℝ)
    (hn : ∀ kv ∈ l2, swrites POLAR_ALIASES kv.1 ≠ "C10")
    (h : standardize POLAR_SYMBOLS POLAR_ALIASES (l1 ++ ("defocus", some x) :: l2) = .ok r) :
    dget r "C10" = some (-x) := standardize_defocus _ _ l1 l2 r x hn h

/-- **defocus alias, validators.validate_aberration_coefficients** -/
theorem defocus_alias_validate (l1 l2 : List (String × Option ℝ)) (r : List (String × ℝ)) (x : ℝ)
    (hn : ∀ kv ∈ l2, kv.2 ≠ none → writes VALIDATORS_POLAR_SYMBOLS VALIDATORS_POLAR_ALIASES kv.1 ≠ some "C10")
    (h : validate VALIDATORS_POLAR_SYMBOLS VALIDATORS_POLAR_ALIASES (l1 ++ ("defocus", some x) :: l2) = .ok r) :
    dget r "C10" = some (-x) := validate_defocus _ _ (by decide) l1 l2 x r hn h

/-- **defocus alias, ProbeBase.probe_params setter** (top-level key, any max order fill) -/
theorem defocus_alias_probe_params (mo : Option Nat) (l1 l2 : List (String × PVal ℝ)) (r : List (String × ℝ)) (x : ℝ)
    (hn : ∀ kv ∈ l2, NonWriterTop POLAR_SYMBOLS POLAR_ALIASES "C10" kv)
    (h : probeParams DEFAULT_PROBE_PARAM_KEYS POLAR_SYMBOLS POLAR_ALIASES mo (l1 ++ ("defocus", .num x) :: l2) = .ok r) :
    dget r "C10" = some (-x) := probeParams_defocus _ _ _ (by decide) mo l1 l2 x r hn h

/-- … and for `defocus` inside a nested dict such as `aberration_coefs` -/
theorem defocus_alias_probe_params_nested (mo : Option Nat) (l1 l2 : List (String × PVal ℝ)) (kd : String)
    (i1 i2 : List (String × Option ℝ)) (r : List (String × ℝ)) (x : ℝ)
    (hi : ∀ kv ∈ i2, kv.2 ≠ none → writes POLAR_SYMBOLS POLAR_ALIASES kv.1 ≠ some "C10")
    (hn : ∀ kv ∈ l2, NonWriterTop POLAR_SYMBOLS POLAR_ALIASES "C10" kv)
    (h : probeParams DEFAULT_PROBE_PARAM_KEYS POLAR_SYMBOLS POLAR_ALIASES mo
          (l1 ++ (kd, .dict (i1 ++ ("defocus", some x) :: i2)) :: l2) = .ok r) :
    dget r "C10" = some (-x) := probeParams_defocus_nested _ _ _ (by decide) mo l1 l2 kd i1 i2 x r hi hn h

/-- **other aliases carry no sign change**: in both loop bodies every alias other than `defocus`
stores the value unchanged under its canonical symbol. -/
theorem other_aliases_no_sign :
    ∀ at_ ∈ POLAR_ALIASES, at_.1 ≠ "defocus" → ∀ (out : List (String × ℝ)) (x : ℝ),
      processStep POLAR_SYMBOLS POLAR_ALIASES out at_.1 (some x) = dset out at_.2 x ∧
      processStep VALIDATORS_POLAR_SYMBOLS VALIDATORS_POLAR_ALIASES out at_.1 (some x) = dset out at_.2 x ∧
      standardizeStep POLAR_SYMBOLS POLAR_ALIASES out at_.1 (some x) = .ok (dset out at_.2 x) := by
  intro at_ hmem hne out x
  simp only [POLAR_ALIASES, List.mem_cons, List.not_mem_nil, or_false] at hmem
  rcases hmem with rfl | rfl | rfl | rfl | rfl | rfl | rfl
  · exact absurd rfl hne
  all_goals
    refine ⟨?_, ?_, ?_⟩ <;>
    simp [processStep, standardizeStep, POLAR_SYMBOLS, POLAR_ALIASES, VALIDATORS_POLAR_SYMBOLS,
      VALIDATORS_POLAR_ALIASES, aliasTarget]

/-- **the alias loop bodies are the translated source**: one iteration of the key/value loop of each of the three
implementations — translated from the source by evaluating the body for every symbol, every alias and a generic
other key, for `None` and for a number IN THE CALLER'S TYPE (`TVal`: exact, unsigned-b-bit or signed-b-bit, so that
the order of `float(·)` and unary minus is part of the translation) — equals the step function of the hand model
the `defocus_alias_*` theorems are stated for, applied to the value's real number `float(v)`, for EVERY key, value,
numeric form and accumulated dict.  (The plumbing around the loops — key validation, recursion into nested dicts,
max-order zero fill, float32 conversion — stays hand-modelled.) -/
theorem alias_steps_are_translated (out : List (String × ℝ)) (k : String) (v : Option (TVal ℝ)) :
    standardize_aberration_coefs_step out k v
      = standardizeStep POLAR_SYMBOLS POLAR_ALIASES out k (v.map TVal.toFloat) ∧
    validate_aberration_coefficients_step out k v
      = .ok (processStep VALIDATORS_POLAR_SYMBOLS VALIDATORS_POLAR_ALIASES out k (v.map TVal.toFloat)) ∧
    probe_params_setter_step out k v
      = .ok (processStep POLAR_SYMBOLS POLAR_ALIASES out k (v.map TVal.toFloat)) :=
  ⟨standardize_step_translated out k v, validate_step_translated out k v, probe_params_step_translated out k v⟩

/-- **the sign of `defocus` in the source itself, as a real number, for every numeric form**: in all three
translated loop bodies `defocus = v` stores C10 = −float(v) — also when `v` is an unsigned (or minimal signed)
NumPy/torch integer, where negating BEFORE the conversion (`float(-v)`) would wrap (see the example below). -/
theorem defocus_sign_in_source (out : List (String × ℝ)) (v : TVal ℝ) :
    standardize_aberration_coefs_step out "defocus" (some v) = .ok (dset out "C10" (-v.x)) ∧
    validate_aberration_coefficients_step out "defocus" (some v) = .ok (dset out "C10" (-v.x)) ∧
    probe_params_setter_step out "defocus" (some v) = .ok (dset out "C10" (-v.x)) :=
  ⟨rfl, rfl, rfl⟩

/-- the distinction is real: negating in the caller's type first is NOT −float(v) for unsigned inputs
(`float(-np.uint16(300)) = 65236.0`, `float(-torch.uint8 200) = 56.0`), nor for the minimal signed value -/
theorem negate_before_convert_counterexample :
    (TVal.neg (⟨300, .unsigned 16⟩ : TVal ℝ)).toFloat = 65236 ∧ (TVal.neg (⟨200, .unsigned 8⟩ : TVal ℝ)).toFloat = 56 ∧
    (TVal.neg (⟨-128, .signed 8⟩ : TVal ℝ)).toFloat = -128 ∧ (TVal.neg (⟨300, .exact⟩ : TVal ℝ)).toFloat = -300 := by
  simp only [TVal.neg, TVal.toFloat, TVal.eqb, Num.leb, NumReal.zero_eq, NumReal.ofNat_eq, NumReal.sub_eq,
    NumReal.neg_eq]
  norm_num

/-! ### fitting defocus, astigmatism and rotation from shifts -/

/-- for quadratic aberrations the lateral shifts `∇χ_code/(2π)` are the linear map
`A(C10, C12, φ12)` applied to the scattering-angle vector (α cos φ, α sin φ) -/
theorem shifts_linear (α φ : ℝ) (c : String → ℝ) (hz : ∀ k ∈ POLAR_SYMBOLS.drop 3, c k = 0) :
    let A := aberrationMatrix (c "C10") (c "C12") (c "phi12")
    (aberration_surface_cartesian_gradients α φ c).1 / 2 / Real.pi = A.a * (α * Real.cos φ) + A.b * (α * Real.sin φ) ∧
    (aberration_surface_cartesian_gradients α φ c).2 / 2 / Real.pi = A.c * (α * Real.cos φ) + A.d * (α * Real.sin φ) :=
  shifts_linear_lemma α φ c hz

/-- **fit round trip, extraction step** (positive-definite aberration matrix): from the polar factors
`U = R_{−θ}`, `P = A(C10, C12, φ12)` of the fitted matrix the code returns (C10, C12, φ12, θ) for every
|θ| < π/2, C12 > 0, φ12 ∈ (−π/2, π/2]. -/
theorem fit_extract_roundtrip (θ C10 C12 φ : ℝ) (hθ1 : -Real.pi / 2 < θ) (hθ2 : θ < Real.pi / 2)
    (hC : 0 < C12) (h1 : -Real.pi / 2 < φ) (h2 : φ ≤ Real.pi / 2) :
    fitExtract (rotNeg θ) (aberrationMatrix C10 C12 φ) = (C10, C12, φ, θ) :=
  fitExtract_rot_pos θ C10 C12 φ hθ1 hθ2 hC h1 h2

/-- **fit round trip, sign-flip branch** (negative-definite aberration matrix, e.g. positive defocus):
the factors arrive as `U = −R_{−θ}`, `P = −A`; the same values are returned. -/
theorem fit_extract_roundtrip_flipped (θ C10 C12 φ : ℝ) (hθ1 : -Real.pi / 2 < θ) (hθ2 : θ < Real.pi / 2)
    (hC : 0 < C12) (h1 : -Real.pi / 2 < φ) (h2 : φ ≤ Real.pi / 2) :
    fitExtract (M2.neg (rotNeg θ)) (M2.neg (aberrationMatrix C10 C12 φ)) = (C10, C12, φ, θ) :=
  fitExtract_rot_neg θ C10 C12 φ hθ1 hθ2 hC h1 h2


/-- **polar decomposition is unique (real 2×2)**: for ANY factorisation `M = U·P` with `UᵀU = 1` and `P`
symmetric positive definite, the closed form `polar2` (P = √(MᵀM), U = M·P⁻¹) returns exactly (U, P) — so
every correct polar-decomposition routine (the SVD route of `_torch_polar` included) agrees with the model. -/
theorem polar_decomposition_unique (u1 u2 u3 u4 a b d : ℝ)
    (h1 : u1 * u1 + u3 * u3 = 1) (h2 : u1 * u2 + u3 * u4 = 0) (h3 : u2 * u2 + u4 * u4 = 1)
    (htr : 0 < a + d) (hdet : 0 < a * d - b * b) :
    polar2 (M2.mul ⟨u1, u2, u3, u4⟩ ⟨a, b, b, d⟩) = (⟨u1, u2, u3, u4⟩, ⟨a, b, b, d⟩) :=
  polar2_unique u1 u2 u3 u4 a b d h1 h2 h3 htr hdet

/-- the polar factors of `R_{−θ}·A(C10, C12, φ12)`: `(R_{−θ}, A)` for C10 > |C12| (A positive definite) and
`(−R_{−θ}, −A)` for C10 < −|C12| (A negative definite). -/
theorem polar_factors_of_rotated_aberration (θ C10 C12 φ : ℝ) :
    (C12 < C10 → -C10 < C12 →
      polar2 (M2.mul (rotNeg θ) (aberrationMatrix C10 C12 φ)) = (rotNeg θ, aberrationMatrix C10 C12 φ)) ∧
    (C10 < C12 → C12 < -C10 →
      polar2 (M2.mul (rotNeg θ) (aberrationMatrix C10 C12 φ)) =
        (M2.neg (rotNeg θ), M2.neg (aberrationMatrix C10 C12 φ))) :=
  ⟨polar2_rotNeg_pos θ C10 C12 φ, polar2_rotNeg_neg θ C10 C12 φ⟩

/-- **exact least squares**: a 2-column basis of full column rank has a non-zero Gram determinant, and then
the normal equations applied to `shifts = basis @ M` return `M` itself. -/
theorem lstsq_exact (basis : List (ℝ × ℝ)) (m : M2 ℝ) (hrank : FullRank basis) :
    gramDet basis ≠ 0 ∧ lstsq2 basis (basis.map (fun b => rowMul b m)) = m :=
  ⟨gramDet_ne_zero_of_fullRank basis hrank, lstsq2_exact basis m (gramDet_ne_zero_of_fullRank basis hrank)⟩

/-- **lateral shifts = basis @ (R_{−θ}·A)**: the model of `_return_lateral_shifts` (grid rotation, polar
coordinates via sqrt/atan2, translated Cartesian gradients / 2π) at pixel (kx, ky) is the row (kx·λ, ky·λ)
times `R_{−θ}·A(C10, C12, φ12)` for every quadratic coefficient set — at every pixel, the origin included. -/
theorem lateral_shifts_linear_map (kx ky lam θ : ℝ) (c : String → ℝ) (hz : ∀ k ∈ POLAR_SYMBOLS.drop 3, c k = 0) :
    lateralShift kx ky lam (some θ) c =
      rowMul (kx * lam, ky * lam) (M2.mul (rotNeg θ) (aberrationMatrix (c "C10") (c "C12") (c "phi12"))) :=
  lateralShift_eq kx ky lam θ c hz

/-- **fit round trip, end to end** (model of `_return_lateral_shifts` → `fit_aberrations_from_shifts`):
for every set of bright-field pixels whose basis (kx·λ, ky·λ) has full column rank, every grid rotation
|θ| < π/2 (or `None`), and every quadratic coefficient set with |C10| > C12 > 0, φ12 ∈ (−π/2, π/2],
fitting the predicted shifts returns exactly (C10, C12, φ12, θ). -/
theorem fit_roundtrip (pix : List (ℝ × ℝ)) (lam : ℝ) (theta : Option ℝ) (c : String → ℝ)
    (hz : ∀ k ∈ POLAR_SYMBOLS.drop 3, c k = 0)
    (hrank : FullRank (pix.map fun k => (k.1 * lam, k.2 * lam)))
    (hθ1 : -Real.pi / 2 < theta.getD 0) (hθ2 : theta.getD 0 < Real.pi / 2)
    (hC : 0 < c "C12") (hdef : c "C12" < |c "C10"|)
    (h1 : -Real.pi / 2 < c "phi12") (h2 : c "phi12" ≤ Real.pi / 2) :
    fit (pix.map fun k => (k.1 * lam, k.2 * lam)) (pix.map fun k => lateralShift k.1 k.2 lam theta c)
      = (c "C10", c "C12", c "phi12", theta.getD 0) :=
  fit_roundtrip_lemma pix lam theta c hz hrank hθ1 hθ2 hC hdef h1 h2

/-- **the extraction step is the translated source**: everything `fit_aberrations_from_shifts` does after
`M_rotation, M_aberration = _torch_polar(M)` (rotation angle, wrap test with `remainder`, sign flip of the
aberration matrix, symmetrisation, C10/C12/phi12), translated from the source, equals the extraction function the
fit theorems are stated for — so `fit_extract_roundtrip(_flipped)`, `fit_roundtrip` and
`fit_roundtrip_translated_polar` are statements about the code's own formulas. -/
theorem extraction_is_translated (u p : M2 ℝ) :
    fitExtractTranslated u p = fitExtract u p ∧ FIT_RESULT_KEYS = ["C10", "C12", "phi12", "rotation_angle"] :=
  ⟨fitExtractTranslated_eq u p, by decide⟩

/-- the grid rotation and the polar coordinates inside the lateral-shift model are the translated
`_passively_rotate_grid` and `polar_coordinates` -/
theorem lateral_shift_uses_translated (kx ky lam θ : ℝ) (c : String → ℝ) :
    lateralShift kx ky lam (some θ) c =
      (let k' := passively_rotate_grid kx ky θ
       let kp := polar_coordinates k'.1 k'.2
       let g := aberration_surface_cartesian_gradients (kp.1 * lam) kp.2 c
       (g.1 / 2 / Real.pi, g.2 / 2 / Real.pi)) := by
  simp only [lateralShift, rotateGrid]; num_real

/-- **the translated `_torch_polar` computes the polar decomposition the model uses — the RIGHT factor**:
for any svd routine that meets its specification at `m` (m = U·diag(S)·Vh, U and Vh orthogonal, S > 0), the pair
the source builds, `(U @ Vh, Vh.T @ diag(S) @ Vh)`, equals the closed form `polar2 m` (hence, by
`polar_decomposition_unique`, THE polar decomposition m = U'·P').  Returning the left factor U·S·Uᵀ instead makes
this statement false of the translated source. -/
theorem torch_polar_is_polar (svd : M2 ℝ → M2 ℝ × (ℝ × ℝ) × M2 ℝ) (m : M2 ℝ) (h : IsSVD svd m) :
    torch_polar svd m = polar2 m := torch_polar_eq_polar2 svd m h

/-- **fit round trip through the translated `_torch_polar`**: `fit_roundtrip` with the polar step taken from the
translated source on top of ANY svd routine meeting its specification on non-singular matrices — every rotation
|θ| < π/2 TOGETHER with every non-zero astigmatism C12 > 0, |C10| > C12, φ12 ∈ (−π/2, π/2]. -/
theorem fit_roundtrip_translated_polar (svd : M2 ℝ → M2 ℝ × (ℝ × ℝ) × M2 ℝ)
    (hsvd : ∀ m, M2.det m ≠ 0 → IsSVD svd m)
    (pix : List (ℝ × ℝ)) (lam : ℝ) (theta : Option ℝ) (c : String → ℝ)
    (hz : ∀ k ∈ POLAR_SYMBOLS.drop 3, c k = 0)
    (hrank : FullRank (pix.map fun k => (k.1 * lam, k.2 * lam)))
    (hθ1 : -Real.pi / 2 < theta.getD 0) (hθ2 : theta.getD 0 < Real.pi / 2)
    (hC : 0 < c "C12") (hdef : c "C12" < |c "C10"|)
    (h1 : -Real.pi / 2 < c "phi12") (h2 : c "phi12" ≤ Real.pi / 2) :
    fitTranslated svd (pix.map fun k => (k.1 * lam, k.2 * lam)) (pix.map fun k => lateralShift k.1 k.2 lam theta c)
      = (c "C10", c "C12", c "phi12", theta.getD 0) :=
  fit_roundtrip_svd_lemma svd hsvd pix lam theta c hz hrank hθ1 hθ2 hC hdef h1 h2

/-- **the remainder model is exact where it is used**: on `[-y, 2y)` the model's `rem1` is Python/torch
`remainder(x, y) = x − ⌊x/y⌋·y`, and both arguments the fit passes (`rot + π` and `rot`, with
`rot = −atan2(U₁₀, U₀₀)`) lie in `[-2π, 4π)` for every matrix `U`. -/
theorem remainder_model_exact :
    (∀ x y : ℝ, 0 < y → -y ≤ x → x < 2 * y → rem1 x y = x - (⌊x / y⌋ : ℝ) * y) ∧
    (∀ u : M2 ℝ,
      (-(2 * Real.pi) ≤ -Complex.arg ⟨u.a, u.c⟩ + Real.pi ∧ -Complex.arg ⟨u.a, u.c⟩ + Real.pi < 2 * (2 * Real.pi)) ∧
      (-(2 * Real.pi) ≤ -Complex.arg ⟨u.a, u.c⟩ ∧ -Complex.arg ⟨u.a, u.c⟩ < 2 * (2 * Real.pi))) :=
  ⟨rem1_eq_floor, fit_remainder_args_in_range⟩

/-! ### non-vacuity -/

/-- the hypotheses of `conversions_polar_cart_polar` are satisfiable at every table entry -/
example : ∀ t ∈ table, PrincipalAt (fun k => if k.startsWith "C" then (1 : ℝ) else 0) t := by
  intro t ht
  simp only [table, List.mem_cons, List.not_mem_nil, or_false] at ht
  rcases ht with rfl | rfl | rfl | rfl | rfl | rfl | rfl | rfl | rfl | rfl | rfl | rfl | rfl | rfl <;>
  · intro _
    have := Real.pi_pos
    refine ⟨by simp, by simp <;> linarith, by simp <;> linarith⟩

/-- the hypotheses of the fit theorems are satisfiable -/
example : ∃ θ C12 φ : ℝ, -Real.pi / 2 < θ ∧ θ < Real.pi / 2 ∧ 0 < C12 ∧ -Real.pi / 2 < φ ∧ φ ≤ Real.pi / 2 :=
  ⟨0, 1, 0, by have := Real.pi_pos; constructor <;> [linarith; exact ⟨by linarith, one_pos, by linarith, by linarith⟩]⟩

/-- `FullRank` is satisfiable (three pixels not on a line through the origin) and so are the domain
hypotheses of `fit_roundtrip` -/
example : FullRank [(1, 0), (0, 1), (1, 1)] := by
  intro u v h
  have h1 := h (1, 0) (by simp)
  have h2 := h (0, 1) (by simp)
  simp only [mul_one, mul_zero, add_zero, zero_add] at h1 h2
  exact ⟨h1, h2⟩

/-- the hypothesis of `guards_transparent` is satisfiable with absent keys and a non-trivial coefficient set -/
example : ∀ k, (fun k => k = "C56" || k = "phi56") k = false →
    (fun k => if k = "C56" then (3 : ℝ) else if k = "phi56" then 0.2 else 0) k = 0 := by
  intro k h
  simp only [Bool.or_eq_false_iff, decide_eq_false_iff_not] at h
  simp [h.1, h.2]

/-- an svd specification is satisfiable: the identity has the SVD (1, (1,1), 1) -/
example : IsSVD (fun _ => (I2, ((1 : ℝ), (1 : ℝ)), I2)) I2 := by
  refine ⟨?_, ?_, ?_, ?_, by norm_num, by norm_num⟩ <;>
    simp only [M2.mul, M2.transpose, M2.diag, I2] <;> (apply M2.ext' <;> simp)

/-- the column-order theorem speaks about interleaved orders too -/
example : ∀ l ∈ ["C10", "C30", "C50", "C12_a", "C21_a", "C12_a"], l ∈ CARTESIAN_LABELS := by decide

/-- the alias theorems are not vacuous: the model accepts `{"defocus": 100}` in all three places -/
example : ∃ r, standardize POLAR_SYMBOLS POLAR_ALIASES ([] ++ ("defocus", some (100 : ℝ)) :: []) = .ok r :=
  ⟨_, rfl⟩
example : ∃ r, validate VALIDATORS_POLAR_SYMBOLS VALIDATORS_POLAR_ALIASES ([] ++ ("defocus", some (100 : ℝ)) :: []) = .ok r :=
  ⟨_, by unfold validate; rw [if_pos (by decide)]⟩
example : ∃ r, probeParams DEFAULT_PROBE_PARAM_KEYS POLAR_SYMBOLS POLAR_ALIASES none
    ([] ++ ("defocus", PVal.num (100 : ℝ)) :: []) = .ok r :=
  ⟨_, by unfold probeParams; rw [if_pos (by decide)]⟩

/-- the guards' hypothesis is satisfiable with a non-trivial coefficient set -/
example : ∀ k ∈ aberration_surface_guards.getD 1 [], (fun k => if k = "C10" then (5 : ℝ) else 0) k = 0 := by
  simp [aberration_surface_guards]

/-! ### the alias code as STATE: histories, rejected calls, DirectPtychography entry points (growth round 5) -/

/-- the `ProbeBase.probe_params` setter with the tables of the source -/
noncomputable abbrev ppAssign (mo : Option Nat) := PState.assign (R := ℝ) DEFAULT_PROBE_PARAM_KEYS POLAR_SYMBOLS POLAR_ALIASES mo
noncomputable abbrev ppFinal (mo : Option Nat) := PState.final (R := ℝ) DEFAULT_PROBE_PARAM_KEYS POLAR_SYMBOLS POLAR_ALIASES mo
noncomputable abbrev ppAccepted (mo : Option Nat) := accepted (R := ℝ) DEFAULT_PROBE_PARAM_KEYS POLAR_SYMBOLS POLAR_ALIASES mo

/-- **exception safety of the setter**: an assignment is rejected (unknown key → ValueError at the key check, or a
value `float()` rejects → that error part-way through the conversions) exactly when it is not `accepted` — a
predicate of the assigned dict alone — and a rejected assignment leaves `_probe_params` (top-level settings AND
`aberration_coefs`) exactly as it was. -/
theorem probe_params_rejected_keeps_state (mo : Option Nat) (st : PState ℝ) (p : List (String × XTop ℝ)) :
    ((ppAssign mo st p).1 = none ↔ ppAccepted mo p = true) ∧
    ((ppAssign mo st p).1 ≠ none → (ppAssign mo st p).2 = st) := by
  refine ⟨assign_result_iff _ _ _ mo st p, fun h => ?_⟩
  have : ppAccepted mo p = false := by
    by_cases ha : ppAccepted mo p = true
    · exact absurd ((assign_result_iff _ _ _ mo st p).2 ha) h
    · simpa using ha
  exact (assign_rejected _ _ _ mo st p this).1

/-- **rejected assignments are no-ops in EVERY history**: deleting them from a history of assignments on one
object does not change the final `_probe_params`. -/
theorem probe_params_rejected_calls_are_noops (mo : Option Nat) (st : PState ℝ) (hist : List (List (String × XTop ℝ))) :
    ppFinal mo st hist = ppFinal mo st (hist.filter (ppAccepted mo)) :=
  final_filter_accepted _ _ _ mo hist st

/-- **what an accepted assignment stores is the hand model the `defocus_alias_probe_params*` theorems are about**
(on the same dict, values that are never converted erased). -/
theorem probe_params_setter_is_hand_model (mo : Option Nat) (st : PState ℝ) (p : List (String × XTop ℝ))
    (h : ppAccepted mo p = true) :
    probeParams DEFAULT_PROBE_PARAM_KEYS POLAR_SYMBOLS POLAR_ALIASES mo (p.map fun kv => (kv.1, eraseTop kv.2))
      = .ok (ppAssign mo st p).2.aber := by
  have hk : keysOk DEFAULT_PROBE_PARAM_KEYS POLAR_SYMBOLS POLAR_ALIASES p = true := by
    unfold ppAccepted accepted at h; simp only [Bool.and_eq_true] at h; exact h.1
  exact aberOf_eq_probeParams _ _ _ mo p _ hk (assign_accepted _ _ _ mo st p h).2

/-- **the defocus alias through every history**: whatever was assigned before (accepted or not) and however many
REJECTED assignments follow, if the last accepted assignment holds a top-level `defocus = x` with no later writer of
C10, the object stores C10 = −x. -/
theorem probe_params_history_defocus (mo : Option Nat) (st : PState ℝ) (h1 h2 : List (List (String × XTop ℝ)))
    (l1 l2 : List (String × XTop ℝ)) (x : ℝ)
    (hp : ppAccepted mo (l1 ++ ("defocus", .leaf (.num x)) :: l2) = true)
    (h2r : ∀ q ∈ h2, ppAccepted mo q = false)
    (hn : ∀ kv ∈ l2.map (fun kv => (kv.1, eraseTop kv.2)), NonWriterTop POLAR_SYMBOLS POLAR_ALIASES "C10" kv) :
    dget (ppFinal mo st (h1 ++ (l1 ++ ("defocus", .leaf (.num x)) :: l2) :: h2)).aber "C10" = some (-x) := by
  have hacc := final_aber_last_accepted DEFAULT_PROBE_PARAM_KEYS POLAR_SYMBOLS POLAR_ALIASES mo h1 h2 _ st hp h2r
  have hk : keysOk DEFAULT_PROBE_PARAM_KEYS POLAR_SYMBOLS POLAR_ALIASES (l1 ++ ("defocus", XTop.leaf (XVal.num x)) :: l2) = true := by
    unfold ppAccepted accepted at hp; simp only [Bool.and_eq_true] at hp; exact hp.1
  have hm := aberOf_eq_probeParams _ _ _ mo _ _ hk hacc
  rw [List.map_append, List.map_cons] at hm
  simp only [eraseTop] at hm
  exact probeParams_defocus _ _ _ (by decide) mo _ _ x _ hn hm

/-
FULL STATEMENT (false of the model, hence of the code): "whenever `probe_params` reports a number under its
top-level 'defocus' entry, `aberration_coefs['C10']` is minus that number".  The setter keeps the top-level entries of
earlier assignments (`DEFAULT | old | params`) but recomputes `aberration_coefs` from the new dict alone, so a later
assignment by canonical key leaves a stale report.  No alias that is ACCEPTED is misread (theorems above), so this
is not a violation of C12 as stated; it is recorded here and replayed on the real code by the `pphist` stream.
-/
/-- the stale top-level `defocus` report: `{"defocus": 100}` then `{"C10": -200}` -/
theorem probe_params_reported_defocus_counterexample :
    let st := PState.final (R := Rat) DEFAULT_PROBE_PARAM_KEYS POLAR_SYMBOLS POLAR_ALIASES (some 1) ⟨[], []⟩
      [[("defocus", .leaf (.num 100))], [("C10", .leaf (.num (-200)))]]
    st.top = [("defocus", .leaf (.num 100)), ("C10", .leaf (.num (-200)))] ∧ dget st.aber "C10" = some (-200) := by
  decide

/-- the tables are closed: every alias names a polar symbol (both copies) -/
theorem alias_tables_closed :
    TablesClosed POLAR_SYMBOLS POLAR_ALIASES ∧ TablesClosed VALIDATORS_POLAR_SYMBOLS VALIDATORS_POLAR_ALIASES :=
  ⟨⟨by decide, by decide⟩, ⟨by decide, by decide⟩⟩

/-- **only polar symbols ever reach the surface code through a HyperparameterState**: for every initial dict the
constructor accepts, every history of operations (reads with overrides, `clear_optimized`, `clear_all`, the
write-backs of `optimize_hyperparameters` / `grid_search_hyperparameters` for any best-parameter dict in the USER'S
key names, of `fit_hyperparameters_cross_correlation` / `…_least_squares`, accepted or rejected) and every override,
every key of the dict `current_aberrations` hands to `aberration_surface` / `…_gradients` is one of the 25 polar
symbols — an alias key is never left unresolved (where the surface code would silently read 0 for it). -/
theorem hstate_only_symbols_reach_surface (ini : List (String × XVal ℝ)) (ops : List (HOp ℝ))
    (o : Option (List (String × XVal ℝ))) (st0 : HState ℝ) (d : List (String × ℝ))
    (hc : HState.create VALIDATORS_POLAR_SYMBOLS VALIDATORS_POLAR_ALIASES ini = .ok st0)
    (h : HState.current VALIDATORS_POLAR_SYMBOLS VALIDATORS_POLAR_ALIASES
          (HState.final VALIDATORS_POLAR_SYMBOLS VALIDATORS_POLAR_ALIASES st0 ops) o = .ok d) :
    ∀ kv ∈ d, VALIDATORS_POLAR_SYMBOLS.contains kv.1 = true :=
  current_canon _ _ alias_tables_closed.2 _
    (final_canon _ _ alias_tables_closed.2 ops st0 (create_canon _ _ alias_tables_closed.2 ini st0 hc)) o d h

/-- **searching / fitting over the alias is searching over the symbol**: the write-back of a hyperparameter search
whose best parameter is `defocus = x` leaves the state (and hands the final reconstruction the coefficients) of the
same search over `C10 = −x`; the lateral shifts that seed the cross-correlation fit are computed from C10 = −x. -/
theorem entry_points_alias_eq_canonical (st : HState ℝ) (x : ℝ) :
    HState.step VALIDATORS_POLAR_SYMBOLS VALIDATORS_POLAR_ALIASES st (.search [("defocus", .num x)] [])
      = HState.step VALIDATORS_POLAR_SYMBOLS VALIDATORS_POLAR_ALIASES st (.search [("C10", .num (-x))] []) ∧
    crossCorrelationShiftCoefs VALIDATORS_POLAR_SYMBOLS VALIDATORS_POLAR_ALIASES [("defocus", XVal.num x)]
      = .ok [("C10", -x)] ∧
    crossCorrelationShiftCoefs VALIDATORS_POLAR_SYMBOLS VALIDATORS_POLAR_ALIASES [("C10", XVal.num (-x))]
      = .ok [("C10", -x)] := by
  have h1 := validateX_defocus_single VALIDATORS_POLAR_SYMBOLS VALIDATORS_POLAR_ALIASES x (by decide) (by decide)
  have h2 := validateX_symbol_single VALIDATORS_POLAR_SYMBOLS VALIDATORS_POLAR_ALIASES "C10" (-x) (by decide)
  exact ⟨step_search_nil_congr _ _ st _ _ (h1.trans h2.symm), h1, h2⟩

/-- non-vacuity: an accepted and a rejected assignment exist (`{"defocus": 250, "astigmatism": "strong"}` is
rejected part-way), and a state with an optimised alias exists -/
example : ppAccepted (some 5) [("defocus", .leaf (.num 250))] = true ∧
    ppAccepted (some 5) [("defocus", .leaf (.num 250)), ("astigmatism", .leaf (.bad .valueError))] = false ∧
    ppAccepted (some 5) [("defocuss", .leaf (.num 1))] = false := by
  refine ⟨?_, ?_, ?_⟩ <;> decide
example : ∃ st0, HState.create (R := ℝ) VALIDATORS_POLAR_SYMBOLS VALIDATORS_POLAR_ALIASES [("defocus", .num 100)] = .ok st0 := by
  refine ⟨⟨[("C10", -100)], []⟩, ?_⟩
  unfold HState.create
  rw [validateX_defocus_single VALIDATORS_POLAR_SYMBOLS VALIDATORS_POLAR_ALIASES (100 : ℝ) (by decide) (by decide)]


/-
`fit_roundtrip` is proved above for the MODEL (`lstsq2` = normal equations, `polar2` = closed form).  What ties
the model to torch and stays measured by the `fit` stream: `torch.linalg.lstsq` solves the least-squares
problem, `torch.linalg.svd` returns a correct SVD (then `_torch_polar` is *a* polar decomposition and
`polar_decomposition_unique` applies), and IEEE rounding.
-/

end QuantemModel.Props.C12
