import QuantemModel.Lemmas.ResampleCalibExt
/-!
C06 — growth round 6 (listed in `EXTRA_PROPS` of harness/props/c06.py): N-D calibration of `bin`,
order independence of the per-axis calibration folds of `bin` and `fourier_resample`, and the
rounding of the `factors=` entry point.  Theorems about `Model/Dataset.lean` (`binCalib`,
`resampleCalib`: the folds `Dataset.bin` / `Dataset.fourier_resample` run over
`axis_to_factor.items()` / `zip(axes, out_shape)`) and `Model/Resample.lean`.
-/
namespace QuantemModel.Props.C06
open QuantemModel QuantemModel.Nd QuantemModel.Resample

/-- **N-D calibration of `bin`**: after `Dataset.bin` has run its sequential update over the items
of `axis_to_factor` (distinct axes, each inside the calibration vectors), on EVERY binned axis
`ax` with factor `f ≥ 1` the sampling is multiplied by `f` and binned pixel `j` sits at the mean
coordinate of the `f` original pixels `j·f … j·f+f-1` of its block (so the new origin is the mean
coordinate of the first block) — origin and sampling of any sign —, and every other axis keeps its
origin and sampling.  (`bin_coords` is the 1-D statement.) -/
theorem bin_calibration_nd (o s : List Rat) (d : List (Int × Int))
    (hnd : (d.map fun p => p.1.toNat).Nodup) :
    (∀ p ∈ d, p.1.toNat < o.length → p.1.toNat < s.length → 0 < p.2.toNat → ∀ j : Nat,
      (Dataset.binCalib o s d).2.getD p.1.toNat 0 = s.getD p.1.toNat 0 * (p.2.toNat : Rat) ∧
      (Dataset.binCalib o s d).1.getD p.1.toNat 0 + (j : Rat) * (Dataset.binCalib o s d).2.getD p.1.toNat 0
        = (∑ i ∈ Finset.range p.2.toNat,
            (o.getD p.1.toNat 0 + (((j * p.2.toNat + i : Nat) : Rat)) * s.getD p.1.toNat 0)) / (p.2.toNat : Rat)) ∧
    (∀ ax, (∀ p ∈ d, p.1.toNat ≠ ax) →
      (Dataset.binCalib o s d).1.getD ax 0 = o.getD ax 0 ∧
      (Dataset.binCalib o s d).2.getD ax 0 = s.getD ax 0) := by
  constructor
  · intro p hp h1 h2 hf j
    rw [Dataset.binCalib_eq]
    obtain ⟨e1, e2⟩ := Dataset.binFold_mem d (o, s) hnd p hp h1 h2
    rw [e1, e2]
    refine ⟨rfl, ?_⟩
    rw [block_mean_coord _ _ _ hf j]
    simp only [binMeta]
    ring
  · intro ax h
    rw [Dataset.binCalib_eq]
    exact Dataset.binFold_other ax d (o, s) h

/-- **order independence of the per-axis calibration fold of `bin`**: the order in which the axes
were given (`axes=(1,0)` vs `(0,1)`, i.e. the item order of `axis_to_factor`) does not matter —
any permutation of the (axis, factor) items (distinct valid axes) gives the same origin and
sampling, although each step of the fold reads the accumulator it is updating. -/
theorem bin_calib_order_independent (o s : List Rat) (d1 d2 : List (Int × Int)) (hp : d1.Perm d2)
    (hnd : (d1.map fun p => p.1.toNat).Nodup)
    (hv : ∀ p ∈ d1, p.1.toNat < o.length ∧ p.1.toNat < s.length) :
    Dataset.binCalib o s d1 = Dataset.binCalib o s d2 :=
  Dataset.binCalib_perm o s d1 d2 hp hnd hv

/-- **order independence of the per-axis calibration fold of `fourier_resample`**: any permutation
of the (axis, new length) pairs (distinct valid axes) gives the same origin and sampling. -/
theorem resample_calib_order_independent (shape : List Nat) (o s : List Rat) (p1 p2 : List (Nat × Nat))
    (hp : p1.Perm p2) (hnd : (p1.map Prod.fst).Nodup)
    (hv : ∀ p ∈ p1, p.1 < o.length ∧ p.1 < s.length) :
    Dataset.resampleCalib shape o s p1 = Dataset.resampleCalib shape o s p2 :=
  Dataset.resampleCalib_perm shape o s p1 p2 hp hnd hv

/-- **the `factors=` entry point realises the nearest length**: Python's `round` is within one half
of its argument, so whenever `round(n·f) ≥ 1` (no clamping) the realised output length `m` satisfies
`|m − n·f| ≤ 1/2` — the realised ratio `m/n` differs from the requested factor by at most `1/(2n)` —
and an integral product `n·f = k ≥ 1` is realised exactly (`m = k`). -/
theorem resample_factor_nearest (n : Nat) (f : Rat) :
    (1 ≤ roundHalfEven ((n : Rat) * f) →
      -(1 / 2 : Rat) ≤ ((outLen n f : Int) : Rat) - (n : Rat) * f ∧
        ((outLen n f : Int) : Rat) - (n : Rat) * f ≤ 1 / 2) ∧
    (∀ k : Int, 1 ≤ k → (n : Rat) * f = (k : Rat) → outLen n f = k) := by
  constructor
  · intro h
    have : outLen n f = roundHalfEven ((n : Rat) * f) := by unfold outLen; omega
    rw [this]
    exact Dataset.round_nearest _
  · intro k hk he
    unfold outLen
    rw [he, Dataset.round_int]
    omega

/-! ### non-vacuity -/

example : Dataset.binCalib [0, 10] [1, -2] [(1, 3), (0, 2)] = ([1 / 2, 8], [2, -6]) := by
  simp [Dataset.binCalib, binMeta]; norm_num
example : ([(1, 3), (0, 2)] : List (Int × Int)).Perm [(0, 2), (1, 3)] := List.Perm.swap _ _ _
example : (([(1, 3), (0, 2)] : List (Int × Int)).map fun p => p.1.toNat).Nodup := by decide
example : Dataset.resampleCalib [4, 6] [0, 1] [1, -1] [(1, 3), (0, 8)]
    = Dataset.resampleCalib [4, 6] [0, 1] [1, -1] [(0, 8), (1, 3)] := by
  simp [Dataset.resampleCalib, resampleMeta]
example : outLen 6 (1 / 2) = 3 ∧ 1 ≤ roundHalfEven ((6 : Rat) * (1 / 2)) :=
  ⟨by with_unfolding_all rfl, by with_unfolding_all decide⟩

end QuantemModel.Props.C06
