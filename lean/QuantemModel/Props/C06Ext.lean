import QuantemModel.Lemmas.ResampleCalibExt
import QuantemModel.Lemmas.ResampleCommute
/-!
C06 — growth round 6 (listed in `EXTRA_PROPS` of harness/props/c06.py): N-D calibration of `bin`,
order independence of the per-axis calibration folds of `bin` and `fourier_resample`, and the
rounding of the `factors=` entry point.  Theorems about `Model/Dataset.lean` (`binCalib`,
`resampleCalib`: the folds `Dataset.bin` / `Dataset.fourier_resample` run over
`axis_to_factor.items()` / `zip(axes, out_shape)`) and `Model/Resample.lean`.
-/
namespace QuantemModel.Props.C06
open QuantemModel QuantemModel.Nd QuantemModel.Dft QuantemModel.Resample Complex

/-- **N-D calibration of `bin`**: after `Dataset.bin` has run its sequential update over the items
of `axis_to_factor` (distinct axes, each inside the calibration vectors), on EVERY binned axis
`ax` with factor `f ≥ 1` the sampling is multiplied by `f` and binned pixel `j` sits at the mean
coordinate of the `f` original pixels `j·f … j·f+f-1` of its block (so the new origin is the mean
coordinate of the first block) — origin and sampling of any sign —, and every other axis keeps its
origin and sampling.  (`bin_coords` is the 1-D statement.) -/
theorem bin_calibration_nd (o s : List Rat) (d : List (Int × Int))
    (hnd : (d.map fun p => p.1.toNat).Nodup) :
    (∀ p ∈ d, p.1.toNat < o.length → p.1.toNat < s.length → 0 < p.2.toNat → ∀ j : Nat,
      (Dataset.binCalib o s d).2.getD p.1.toNat 0 = s.getD p.1.toNat 0 * (p.2.toNat : Rat) ∧
      (Dataset.binCalib o s d).1.getD p.1.toNat 0 + (j : Rat) * (Dataset.binCalib o s d).2.getD p.1.toNat 0
        = (∑ i ∈ Finset.range p.2.toNat,
            (o.getD p.1.toNat 0 + (((j * p.2.toNat + i : Nat) : Rat)) * s.getD p.1.toNat 0)) / (p.2.toNat : Rat)) ∧
    (∀ ax, (∀ p ∈ d, p.1.toNat ≠ ax) →
      (Dataset.binCalib o s d).1.getD ax 0 = o.getD ax 0 ∧
      (Dataset.binCalib o s d).2.getD ax 0 = s.getD ax 0) := by
  constructor
  · intro p hp h1 h2 hf j
    rw [Dataset.binCalib_eq]
    obtain ⟨e1, e2⟩ := Dataset.binFold_mem d (o, s) hnd p hp h1 h2
    rw [e1, e2]
    refine ⟨rfl, ?_⟩
    rw [block_mean_coord _ _ _ hf j]
    simp only [binMeta]
    ring
  · intro ax h
    rw [Dataset.binCalib_eq]
    exact Dataset.binFold_other ax d (o, s) h

/-- **order independence of the per-axis calibration fold of `bin`**: the order in which the axes
were given (`axes=(1,0)` vs `(0,1)`, i.e. the item order of `axis_to_factor`) does not matter —
any permutation of the (axis, factor) items (distinct valid axes) gives the same origin and
sampling, although each step of the fold reads the accumulator it is updating. -/
theorem bin_calib_order_independent (o s : List Rat) (d1 d2 : List (Int × Int)) (hp : d1.Perm d2)
    (hnd : (d1.map fun p => p.1.toNat).Nodup)
    (hv : ∀ p ∈ d1, p.1.toNat < o.length ∧ p.1.toNat < s.length) :
    Dataset.binCalib o s d1 = Dataset.binCalib o s d2 :=
  Dataset.binCalib_perm o s d1 d2 hp hnd hv

/-- **order independence of the per-axis calibration fold of `fourier_resample`**: any permutation
of the (axis, new length) pairs (distinct valid axes) gives the same origin and sampling. -/
theorem resample_calib_order_independent (shape : List Nat) (o s : List Rat) (p1 p2 : List (Nat × Nat))
    (hp : p1.Perm p2) (hnd : (p1.map Prod.fst).Nodup)
    (hv : ∀ p ∈ p1, p.1 < o.length ∧ p.1 < s.length) :
    Dataset.resampleCalib shape o s p1 = Dataset.resampleCalib shape o s p2 :=
  Dataset.resampleCalib_perm shape o s p1 p2 hp hnd hv

/-- **the `factors=` entry point realises the nearest length**: Python's `round` is within one half
of its argument, so whenever `round(n·f) ≥ 1` (no clamping) the realised output length `m` satisfies
`|m − n·f| ≤ 1/2` — the realised ratio `m/n` differs from the requested factor by at most `1/(2n)` —
and an integral product `n·f = k ≥ 1` is realised exactly (`m = k`). -/
theorem resample_factor_nearest (n : Nat) (f : Rat) :
    (1 ≤ roundHalfEven ((n : Rat) * f) →
      -(1 / 2 : Rat) ≤ ((outLen n f : Int) : Rat) - (n : Rat) * f ∧
        ((outLen n f : Int) : Rat) - (n : Rat) * f ≤ 1 / 2) ∧
    (∀ k : Int, 1 ≤ k → (n : Rat) * f = (k : Rat) → outLen n f = k) := by
  constructor
  · intro h
    have : outLen n f = roundHalfEven ((n : Rat) * f) := by unfold outLen; omega
    rw [this]
    exact Dataset.round_nearest _
  · intro k hk he
    unfold outLen
    rw [he, Dataset.round_int]
    omega

/-! ### order independence of the per-axis resampling fold (the open end of growth round 5) -/

/-- **the 1-D operator is a linear map with a kernel that depends on the two lengths only**: output
sample `j` of the unscaled operator is `Σ_i kerC n m j i · x[i]` for every signal `x` of length `n`. -/
theorem resample_kernel (x : List (Cx ℝ)) (m j : ℕ) (hj : j < m) :
    toC ((resample1U m x).getD j Cx.zero)
      = ∑ i ∈ Finset.range x.length, kerC x.length m j i * toC (x.getD i Cx.zero) :=
  resample1U_kernel x m j hj

/-- **two steps of the fold along different axes commute**, for every array, all lengths (up, down,
odd, even). -/
theorem resample_steps_commute (a : Arr (Cx ℝ)) (ax1 m1 ax2 m2 : ℕ) (hne : ax1 ≠ ax2)
    (h1 : ax1 < a.shape.length) (h2 : ax2 < a.shape.length) :
    alongAxis (alongAxis a ax1 m1 (resample1U m1)) ax2 m2 (resample1U m2)
      = alongAxis (alongAxis a ax2 m2 (resample1U m2)) ax1 m1 (resample1U m1) :=
  alongAxis_comm a ax1 m1 ax2 m2 hne h1 h2

/-- **order independence of the per-axis resampling fold**: every permutation of the
(axis, new length) pairs (distinct valid axes) gives the same array — `axes=(1,0)` with the lengths
exchanged is `axes=(0,1)`. -/
theorem resampleFold_order_independent (a : Arr (Cx ℝ)) (l1 l2 : List (ℕ × ℕ)) (hp : l1.Perm l2)
    (hnd : (l1.map Prod.fst).Nodup) (hv : ∀ p ∈ l1, p.1 < a.shape.length) :
    resampleFold a l1 = resampleFold a l2 :=
  resampleFold_perm hp a hnd hv

/-- **`fourier_resample` is independent of the order of its axes** — the N-D operator as the code
runs it (real or complex path, rescale included). -/
theorem resampleNd_order_independent (a : Arr (Cx ℝ)) (axes outs axes' outs' : List ℕ) (isReal : Bool)
    (hl : axes.length = outs.length) (hl' : axes'.length = outs'.length)
    (hp : (axes.zip outs).Perm (axes'.zip outs')) (hnd : axes.Nodup)
    (hv : ∀ ax ∈ axes, ax < a.shape.length) :
    resampleNd a axes outs isReal = resampleNd a axes' outs' isReal :=
  resampleNd_perm a axes outs axes' outs' isReal hl hl' hp hnd hv

/-- **N-D round trip with the same `axes` argument both times** (complex data): up-sampling any
distinct axes and resampling THE SAME axes tuple back to the original lengths returns the original
array (`resampleNd_roundtrip` of round 5 needed the axes reversed on the way back). -/
theorem resampleNd_roundtrip_same_order (a : Arr (Cx ℝ)) (ha : WFArr a) (axes outs : List ℕ) (hnd : axes.Nodup)
    (hl : axes.length = outs.length) (hv : ∀ ax ∈ axes, ax < a.shape.length)
    (h : UpOk a.shape (axes.zip outs)) (hok : PairsOk a.shape (axes.zip outs)) :
    resampleNd (resampleNd a axes outs false) axes (axes.map fun ax => a.shape.getD ax 1) false = a :=
  resampleNd_up_down_same_order a ha axes outs hnd hl hv h hok

/-- the same for REAL arrays as the code runs them (`.real` after each inverse transform), under the
per-stage no-Nyquist condition `RealUp`. -/
theorem resampleNd_roundtrip_real_same_order (a : Arr (Cx ℝ)) (ha : WFArr a) (hr : IsRealArr a) (axes outs : List ℕ)
    (hnd : axes.Nodup) (hl : axes.length = outs.length) (hv : ∀ ax ∈ axes, ax < a.shape.length)
    (h : RealUp a (axes.zip outs)) :
    resampleNd (resampleNd a axes outs true) axes (axes.map fun ax => a.shape.getD ax 1) true = a :=
  resampleNd_up_down_real_same_order a ha hr axes outs hnd hl hv h

/-! ### non-vacuity -/

example : Dataset.binCalib [0, 10] [1, -2] [(1, 3), (0, 2)] = ([1 / 2, 8], [2, -6]) := by
  simp [Dataset.binCalib, binMeta]; norm_num
example : ([(1, 3), (0, 2)] : List (Int × Int)).Perm [(0, 2), (1, 3)] := List.Perm.swap _ _ _
example : (([(1, 3), (0, 2)] : List (Int × Int)).map fun p => p.1.toNat).Nodup := by decide
example : Dataset.resampleCalib [4, 6] [0, 1] [1, -1] [(1, 3), (0, 8)]
    = Dataset.resampleCalib [4, 6] [0, 1] [1, -1] [(0, 8), (1, 3)] := by
  simp [Dataset.resampleCalib, resampleMeta]
example : outLen 6 (1 / 2) = 3 ∧ 1 ≤ roundHalfEven ((6 : Rat) * (1 / 2)) :=
  ⟨by with_unfolding_all rfl, by with_unfolding_all decide⟩

example : ([1, 0].zip [7, 6] : List (ℕ × ℕ)).Perm ([0, 1].zip [6, 7]) := List.Perm.swap _ _ _
example : ([1, 0] : List ℕ).Nodup ∧ ∀ ax ∈ ([1, 0] : List ℕ), ax < ([5, 8] : List ℕ).length := by decide
example : PairsOk [3, 4] ([1, 0].zip [6, 3]) ∧ UpOk [3, 4] ([1, 0].zip [6, 3]) := by
  simp [PairsOk, UpOk]

end QuantemModel.Props.C06
