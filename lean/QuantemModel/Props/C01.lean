import QuantemModel.Model.SerializeSpec
import QuantemModel.Lemmas.SerializeCanon
import QuantemModel.Lemmas.SeqKeys
import QuantemModel.Lemmas.SerializeExt
/-!
C01 — serializer round-trip fidelity, for the executable model of serialize.py
(Model/Serialize.lean).  Only property theorems and non-vacuity examples live here.
-/
namespace QuantemModel.Props.C01
open QuantemModel.Serialize

/-- an array written by `_write_ndarray` is read back by `_array_to_np` with the same dtype,
shape and contents — including empty shapes and zero-dimensional arrays -/
theorem ndarray_roundtrip (dt : String) (sh : List Nat) (d : List Scalar)
    (h : (!(sh.any (· == 0)) || d.isEmpty) = true) :
    ∃ sh' d' o, writeNdarray dt sh d = .arr dt sh' d' o ∧ arrayToNp dt sh' d' o = .ndarray dt sh d := by
  unfold writeNdarray
  by_cases h0 : sh.isEmpty = true
  · simp only [h0, if_true]
    refine ⟨[], d, .none, rfl, ?_⟩
    have : sh = [] := by simpa using h0
    simp [arrayToNp, this]
  · by_cases h1 : sh.any (· == 0) = true
    · simp only [h0, h1, if_true]
      refine ⟨[], [], some sh, by simp, ?_⟩
      have : d = [] := by simpa [h1] using h
      simp [arrayToNp, this]
    · simp only [h0, h1]
      exact ⟨sh, d, .none, by simp, by simp [arrayToNp]⟩

private theorem fast_seq (ct : String) (hct : ct = "list" ∨ ct = "tuple" ∨ ct = "set") (xs : List Val)
    (hne : xs.isEmpty = false) (f : Flags)
    (hf1 : fget f "_container_type" = some (.str ct))
    (hf2 : fget f "_sequence_encoding" = some (.str "ndarray")) :
    decodeSeq f [writeNdarray (promotedDt (promote (xs.map scalarOf))) [(xs.map scalarOf).length]
        ((xs.map scalarOf).map (castTo (promote (xs.map scalarOf))))]
      = .ok (wrapSeq ct (canonNumeric xs)) := by
  have hlen : (xs.map scalarOf).length ≠ 0 := by
    cases xs with
    | nil => simp at hne
    | cons a b => simp
  have hxs : xs ≠ [] := by intro e; simp [e] at hne
  unfold decodeSeq
  rw [hf1]
  simp only [hct, if_true, hf2]
  unfold writeNdarray
  simp [hxs, canonNumeric]

theorem filter_true_eq {α : Type} : ∀ (l : List α), List.filter (fun _ => true) l = l
  | [] => rfl
  | a :: l => by simp [List.filter, filter_true_eq l]

/-- the storage namespace (attribute / array / sub-group) a value is written to does not
depend on the skip lists -/
theorem nsOf_encode (sk : Skip) (v : Val) : nsOf (encode sk v) = nsVal v := by
  cases v with
  | ndarray dt sh d =>
      simp only [encode, writeNdarray, nsVal]
      split
      · rfl
      · split <;> rfl
  | list xs => simp only [encode, encodeSeq, nsVal]; split <;> rfl
  | tuple xs => simp only [encode, encodeSeq, nsVal]; split <;> rfl
  | set xs =>
      simp only [encode, encodeSeq, nsVal]
      by_cases hf : (xs.all isNumeric && !xs.isEmpty) = true <;> simp [hf, nsOf]
  | scalar s => simp [encode, nsOf, nsVal]
  | npScalar dt s => simp [encode, nsOf, nsVal]
  | path p => simp [encode, nsOf, nsVal]
  | torch k c t => simp [encode, nsOf, nsVal]
  | fallback c t => simp [encode, nsOf, nsVal]
  | rawBytes p => simp [encode, nsOf, nsVal]
  | npRng b => simp [encode, nsOf, nsVal]
  | torchRng => simp [encode, nsOf, nsVal]
  | pyLogger n l => simp [encode, nsOf, nsVal]
  | dict kvs => simp [encode, nsOf, nsVal]
  | obj c a => simp [encode, nsOf, nsVal]

mutual
/-- **round trip, attribute position**: what `_recursive_load` restores for an attribute
saved by `_serialize_value` is the canonical form of the value — for every well-formed
value of every kind, depth and width -/
theorem roundtrip_attr : ∀ (v : Val), wfA v = true → decodeAttr {} (encode {} v) = .ok (canon v)
  | .scalar s, _ => by cases s <;> simp [encode, decodeAttr, attrVal, canon]
  | .npScalar _ s, _ => by cases s <;> simp [encode, decodeAttr, attrVal, canon]
  | .path p, _ => by simp [encode, decodeAttr, attrVal, canon]
  | .ndarray dt sh d, h => by
      obtain ⟨sh', d', o, h1, h2⟩ := ndarray_roundtrip dt sh d (by simpa [wfA] using h)
      simp [encode, h1, decodeAttr, h2, canon]
  | .torch k cls tok, _ => by
      cases k <;> simp [encode, decodeAttr, torchFlag, torchPayload, ftrue, fget, payload, canon]
  | .fallback cls tok, _ => by simp [encode, decodeAttr, canon]
  | .rawBytes p, _ => by cases p; simp [encode, decodeAttr, canon]
  | .npRng b, _ => by simp [encode, decodeAttr, ftrue, fget, canon]
  | .torchRng, _ => by simp [encode, decodeAttr, ftrue, fget, canon]
  | .pyLogger n l, _ => by simp [encode, decodeAttr, ftrue, fget, logger, canon]
  | .list xs, h => by
      have hw : wfItems xs = true := by simpa [wfA] using h
      rw [encode, decodeAttr_seq_of_encodeSeq "list" (Or.inl rfl) xs hw]
      simp [canon, wrapSeq]
      split <;> rfl
  | .tuple xs, h => by
      have hw : wfItems xs = true := by simpa [wfA] using h
      rw [encode, decodeAttr_seq_of_encodeSeq "tuple" (Or.inr (Or.inl rfl)) xs hw]
      simp [canon, wrapSeq]
      split <;> rfl
  | .set xs, h => by
      have hw : wfItems xs = true := by simpa [wfA] using h
      exact set_roundtrip xs hw
  | .dict kvs, h => by
      have hw : wfKids kvs = true := by simpa [wfA] using h
      simp [encode, decodeAttr, ftrue, fget, roundtrip_kids kvs hw, canon, bind, Except.bind]
  | .obj cls attrs, h => by
      have hw : wfAttrs attrs = true := by simpa [wfA] using h
      simp [encode, decodeAttr, ftrue, fget, roundtrip_attrs attrs hw, canon, bind, Except.bind, dropTypes, filter_true_eq]
/-- **round trip, container position** (`_deserialize_container`) -/
theorem roundtrip_item : ∀ (v : Val), wfC v = true → decodeItem (encode {} v) = .ok (canon v)
  | .scalar s, _ => by cases s <;> simp [encode, decodeItem, attrVal, canon]
  | .npScalar _ s, _ => by cases s <;> simp [encode, decodeItem, attrVal, canon]
  | .path p, _ => by simp [encode, decodeItem, attrVal, canon]
  | .ndarray dt sh d, h => by
      obtain ⟨sh', d', o, h1, h2⟩ := ndarray_roundtrip dt sh d (by simpa [wfC, wfA, containerOk] using h)
      simp [encode, h1, decodeItem, h2, canon]
  | .torch k cls tok, h => by
      cases k <;> simp [wfC, containerOk] at h <;>
        simp [encode, decodeItem, torchFlag, torchPayload, ftrue, fget, payload, canon]
  | .fallback cls tok, _ => by simp [encode, decodeItem, canon]
  | .rawBytes p, _ => by cases p; simp [encode, decodeItem, canon]
  | .npRng b, _ => by simp [encode, decodeItem, ftrue, fget, canon]
  | .torchRng, _ => by simp [encode, decodeItem, ftrue, fget, canon]
  | .pyLogger n l, _ => by simp [encode, decodeItem, ftrue, fget, logger, canon]
  | .list xs, h => by
      have hw : wfItems xs = true := by simpa [wfC, wfA, containerOk] using h
      rw [encode, decodeItem_seq_of_encodeSeq "list" (Or.inl rfl) xs hw]
      simp [canon, wrapSeq]
      split <;> rfl
  | .tuple xs, h => by
      have hw : wfItems xs = true := by simpa [wfC, wfA, containerOk] using h
      rw [encode, decodeItem_seq_of_encodeSeq "tuple" (Or.inr (Or.inl rfl)) xs hw]
      simp [canon, wrapSeq]
      split <;> rfl
  | .set xs, h => by
      have hw : wfItems xs = true := by simpa [wfC, wfA, containerOk] using h
      exact set_roundtrip_item xs hw
  | .dict kvs, h => by
      have hw : wfKids kvs = true := by simpa [wfC, wfA, containerOk] using h
      simp [encode, decodeItem, fget, roundtrip_kids kvs hw, canon, bind, Except.bind]
  | .obj cls attrs, h => by
      have hw : wfAttrs attrs = true := by simpa [wfC, wfA, containerOk] using h
      simp [encode, decodeItem, fget, roundtrip_attrs attrs hw, canon, bind, Except.bind]
theorem decodeAttr_seq_of_encodeSeq (ct : String) (hct : ct = "list" ∨ ct = "tuple" ∨ ct = "set")
    (xs : List Val) (hw : wfItems xs = true) :
    decodeAttr {} (encodeSeq {} ct xs (xs.all isNumeric && !xs.isEmpty) (xs.map scalarOf))
      = .ok (wrapSeq ct (if isFast xs then canonNumeric xs else canonList xs)) := by
  unfold encodeSeq
  by_cases hf : (xs.all isNumeric && !xs.isEmpty) = true
  · have hne : xs.isEmpty = false := by
      simp only [Bool.and_eq_true, Bool.not_eq_true'] at hf; exact hf.2
    simp only [hf, if_true, decodeAttr, isFast]
    exact fast_seq ct hct xs hne _ (by simp [fget]) (by simp [fget])
  · have hf' : (xs.all isNumeric && !xs.isEmpty) = false := by simpa using hf
    simp only [hf', Bool.false_eq_true, ↓reduceIte, decodeAttr, isFast]
    unfold decodeSeq
    simp [fget, hct, roundtrip_items xs hw, bind, Except.bind]
theorem decodeItem_seq_of_encodeSeq (ct : String) (hct : ct = "list" ∨ ct = "tuple" ∨ ct = "set")
    (xs : List Val) (hw : wfItems xs = true) :
    decodeItem (encodeSeq {} ct xs (xs.all isNumeric && !xs.isEmpty) (xs.map scalarOf))
      = .ok (wrapSeq ct (if isFast xs then canonNumeric xs else canonList xs)) := by
  unfold encodeSeq
  by_cases hf : (xs.all isNumeric && !xs.isEmpty) = true
  · have hne : xs.isEmpty = false := by
      simp only [Bool.and_eq_true, Bool.not_eq_true'] at hf; exact hf.2
    simp only [hf, if_true, decodeItem, isFast]
    exact fast_seq ct hct xs hne _ (by simp [fget]) (by simp [fget])
  · have hf' : (xs.all isNumeric && !xs.isEmpty) = false := by simpa using hf
    simp only [hf', Bool.false_eq_true, ↓reduceIte, decodeItem, isFast]
    unfold decodeSeq
    simp [fget, hct, roundtrip_items xs hw, bind, Except.bind]
theorem set_roundtrip (xs : List Val) (hw : wfItems xs = true) :
    decodeAttr {} (encode {} (.set xs)) = .ok (canon (.set xs)) := by
  rw [encode]
  unfold encodeSeq
  by_cases hf : (xs.all isNumeric && !xs.isEmpty) = true
  · have hne : xs.isEmpty = false := by
      simp only [Bool.and_eq_true, Bool.not_eq_true'] at hf; exact hf.2
    simp only [hf, if_true, decodeAttr, canon, isFast]
    rw [fast_seq "set" (Or.inr (Or.inr rfl)) xs hne _ (by simp [fset, fget]) (by simp [fset, fget])]
    simp [wrapSeq]
  · have hf' : (xs.all isNumeric && !xs.isEmpty) = false := by simpa using hf
    simp only [hf', Bool.false_eq_true, ↓reduceIte, decodeAttr, canon, isFast]
    unfold decodeSeq
    simp [fset, fget, roundtrip_items xs hw, bind, Except.bind, wrapSeq]
theorem set_roundtrip_item (xs : List Val) (hw : wfItems xs = true) :
    decodeItem (encode {} (.set xs)) = .ok (canon (.set xs)) := by
  rw [encode]
  unfold encodeSeq
  by_cases hf : (xs.all isNumeric && !xs.isEmpty) = true
  · have hne : xs.isEmpty = false := by
      simp only [Bool.and_eq_true, Bool.not_eq_true'] at hf; exact hf.2
    simp only [hf, if_true, decodeItem, canon, isFast]
    rw [fast_seq "set" (Or.inr (Or.inr rfl)) xs hne _ (by simp [fset, fget]) (by simp [fset, fget])]
    simp [wrapSeq]
  · have hf' : (xs.all isNumeric && !xs.isEmpty) = false := by simpa using hf
    simp only [hf', Bool.false_eq_true, ↓reduceIte, decodeItem, canon, isFast]
    unfold decodeSeq
    simp [fset, fget, roundtrip_items xs hw, bind, Except.bind, wrapSeq]
theorem roundtrip_items : ∀ (xs : List Val), wfItems xs = true →
    decodeItems (encodeItems {} xs) = .ok (canonList xs)
  | [], _ => by simp [encodeItems, decodeItems, canonList]
  | v :: rest, h => by
      have h' : containerOk v = true ∧ wfA v = true ∧ wfItems rest = true := by
        simpa [wfItems, Bool.and_assoc] using h
      simp [encodeItems, decodeItems, roundtrip_item v (by simp [wfC, h'.1, h'.2.1]),
        roundtrip_items rest h'.2.2, canonList, bind, Except.bind]
theorem roundtrip_kids : ∀ (kvs : List (String × Val)), wfKids kvs = true →
    decodeKids (encodeKids {} kvs) = .ok (canonKvs kvs)
  | [], _ => by simp [encodeKids, decodeKids, canonKvs]
  | (k, v) :: rest, h => by
      have h' : containerOk v = true ∧ wfA v = true ∧ wfKids rest = true := by
        simpa [wfKids, Bool.and_assoc] using h
      simp [encodeKids, decodeKids, roundtrip_item v (by simp [wfC, h'.1, h'.2.1]),
        roundtrip_kids rest h'.2.2, canonKvs, bind, Except.bind, nsOf_encode]
theorem roundtrip_attrs : ∀ (kvs : List (String × Val)), wfAttrs kvs = true →
    decodeAttrs {} (encodeAttrs {} kvs) = .ok (canonKvs kvs)
  | [], _ => by simp [encodeAttrs, decodeAttrs, canonKvs]
  | (k, v) :: rest, h => by
      have h' : wfA v = true ∧ wfAttrs rest = true := by simpa [wfAttrs] using h
      simp [encodeAttrs, decodeAttrs, roundtrip_attr v h'.1,
        roundtrip_attrs rest h'.2, canonKvs, bind, Except.bind, nsOf_encode]
end

/-- **C01, main statement**: saving any well-formed AutoSerialize object graph and loading
it back (no skip lists) yields an object of the same class whose attributes are the
canonical forms of the saved ones -/
theorem roundtrip (cls : String) (attrs : List (String × Val)) (h : wfA (.obj cls attrs) = true) :
    load {} (save {} (.obj cls attrs)) = .ok (canon (.obj cls attrs)) := by
  have hw : wfAttrs attrs = true := by simpa [wfA] using h
  simp [load, save, encode, fget, roundtrip_attrs attrs hw, canon, bind, Except.bind, dropTypes, filter_true_eq]

/-- restoration only permutes entries (attributes loop, arrays loop, sub-groups loop) -/
theorem reorder_perm (xs : List (String × Ns × Val)) :
    (reorder xs).Perm (xs.map (fun x => (x.1, x.2.2))) := by
  have e : ∀ a b : Ns, (a == b) = decide (a = b) := by intro a b; cases a <;> cases b <;> decide
  induction xs with
  | nil => simp [reorder]
  | cons x rest ih =>
    obtain ⟨k, ns, v⟩ := x
    unfold reorder at ih ⊢
    simp only [e] at ih
    cases ns
    · simp only [List.filter_cons, e, reduceCtorEq, decide_false, decide_true, if_true, List.map_cons,
        List.cons_append, Bool.false_eq_true, if_false]
      exact List.Perm.cons _ ih
    · simp only [List.filter_cons, e, reduceCtorEq, decide_false, decide_true, if_true, List.map_cons,
        List.cons_append, Bool.false_eq_true, if_false, List.append_assoc]
      exact List.perm_middle.trans (List.Perm.cons _ (by simpa [List.append_assoc] using ih))
    · simp only [List.filter_cons, e, reduceCtorEq, decide_false, decide_true, if_true, List.map_cons,
        List.cons_append, Bool.false_eq_true, if_false]
      exact List.perm_middle.trans (List.Perm.cons _ (by simpa [List.append_assoc] using ih))

theorem canonKvs_keys (kvs : List (String × Val)) :
    (canonKvs kvs).map (fun x => x.1) = kvs.map (fun x => x.1) := by
  induction kvs with
  | nil => simp [canonKvs]
  | cons kv rest ih => obtain ⟨k, v⟩ := kv; simp [canonKvs, ih]

/-- **exactly the same attribute names**: the loaded object has the saved attribute names,
no more and no fewer (as a multiset; the order is the restoration order) -/
theorem attr_names_exact (cls : String) (attrs : List (String × Val)) :
    ∃ attrs', canon (.obj cls attrs) = .obj cls attrs' ∧
      (attrs'.map (fun x => x.1)).Perm (attrs.map (fun x => x.1)) := by
  refine ⟨reorder (canonKvs attrs), by simp [canon], ?_⟩
  have h1 := (reorder_perm (canonKvs attrs)).map (fun x => x.1)
  have h2 := canonKvs_keys attrs
  simp only [List.map_map] at h1
  have : ((fun x : String × Val => x.1) ∘ fun x : String × Ns × Val => (x.1, x.2.2)) = (fun x => x.1) := by
    funext x; rfl
  rw [this, h2] at h1
  exact h1

/-- **fixed point**: saving the loaded object again and reloading it yields the very same
graph (`canon` is idempotent and preserves well-formedness, `Lemmas/SerializeCanon.lean`) -/
theorem roundtrip_fixed (cls : String) (attrs : List (String × Val)) (h : wfA (.obj cls attrs) = true) :
    ∃ w, load {} (save {} (.obj cls attrs)) = .ok w ∧ load {} (save {} w) = .ok w := by
  refine ⟨canon (.obj cls attrs), roundtrip cls attrs h, ?_⟩
  obtain ⟨hid, hwf⟩ := canon_stable (.obj cls attrs)
  have hw := hwf h
  have hc : canon (.obj cls attrs) = .obj cls (reorder (canonKvs attrs)) := by simp [canon]
  rw [hc] at hid hw ⊢
  rw [roundtrip cls _ hw, hid]


/-! ### element keys of sequences (`Model/SeqKeys.lean`)

`Model/Serialize.lean` keeps sequence elements as positional children; the real code stores
element `i` under `str(i)` and rebuilds the sequence from `max(int(k) …) + 1` and one lookup
per index (a missing index raises `KeyError`).  The theorems below show that this key layer is the identity on every list —
whatever order the store enumerates attributes, arrays and sub-groups in, and with any
non-digit metadata keys next to the elements — which is what justifies the positional
children of the model. -/

section SeqKeys
open QuantemModel.SeqKeys

/-- Python's `int(str(n)) == n` and `str(n).isdigit()` for the modelled decimal rendering;
distinct indices get distinct keys -/
theorem seq_key_parse (n : Nat) : undec (dec n) = some n ∧ ∀ m, dec n = dec m → n = m :=
  ⟨undec_dec n, fun _ h => dec_injective h⟩

/-- **the reconstruction loop rebuilds the list** from any dictionary-like child collection
that (1) holds no key twice, (2) holds element `i` under `str(i)` and (3) holds no digit key
beyond the last index — all three conditions are independent of enumeration order -/
theorem seqDecode_of_dict {α : Type} (items : List α) (kids : List (Key × α))
    (hnd : (kids.map (·.1)).Nodup)
    (hmem : ∀ i (h : i < items.length), (dec i, items[i]) ∈ kids)
    (hdig : ∀ k ∈ kids.map (·.1), ∀ i, undec k = some i → i < items.length) :
    seqDecode kids = some items := by
  have hlen : seqLen (kids.map (·.1)) = items.length := by
    unfold seqLen
    apply Nat.le_antisymm
    · apply foldl_max_le _ _ _ (Nat.zero_le _)
      intro i hi
      obtain ⟨k, hk, hki⟩ := List.mem_filterMap.mp hi
      exact hdig k hk i hki
    · cases hn : items.length with
      | zero => exact Nat.zero_le _
      | succ n =>
        apply mem_le_foldl_max
        apply List.mem_filterMap.mpr
        refine ⟨dec n, ?_, undec_dec n⟩
        exact List.mem_map.mpr ⟨(dec n, items[n]), hmem n (by omega), rfl⟩
  unfold seqDecode
  rw [hlen]
  apply collect_range_eq
  intro i h
  exact lookupKey_of_mem _ _ _ hnd (hmem i h)

/-- **sequence element keys round-trip for every list, in every storage order**: the children
written by `for i, v in enumerate(value): key = str(i)`, together with any metadata entries
under non-digit keys (`_container_type`, `_sequence_encoding`, `<i>.is_path` …), enumerated in
ANY order, are rebuilt into exactly the original list — any length (in particular across
9→10, 99→100, where the string order of the keys differs from the numeric one) -/
theorem seqDecode_keyed_perm {α : Type} (items : List α) (metas kids : List (Key × α))
    (hp : kids.Perm (keyed items ++ metas))
    (hmeta : ∀ m ∈ metas, undec m.1 = none) (hmnd : (metas.map (·.1)).Nodup) :
    seqDecode kids = some items := by
  apply seqDecode_of_dict
  · have : ((keyed items ++ metas).map (·.1)).Nodup := by
      rw [List.map_append, List.nodup_append]
      refine ⟨keyedFrom_nodup items 0, hmnd, ?_⟩
      intro a ha b hb hab
      subst hab
      obtain ⟨m, hm, rfl⟩ := List.mem_map.mp hb
      rw [keyed, keyedFrom_keys] at ha
      obtain ⟨j, _, hj⟩ := List.mem_map.mp ha
      have := hmeta m hm
      rw [← hj, undec_dec] at this
      cases this
    exact (hp.map _).nodup_iff.mpr this
  · intro i h
    apply hp.mem_iff.mpr
    apply List.mem_append_left
    have := keyedFrom_mem items 0 i h
    simpa [keyed] using this
  · intro k hk i hki
    have hk' : k ∈ (keyed items ++ metas).map (·.1) := (hp.map _).mem_iff.mp hk
    rw [List.map_append, List.mem_append] at hk'
    rcases hk' with hk' | hk'
    · have := keyedFrom_digits items 0 k hk' i hki
      omega
    · obtain ⟨m, hm, rfl⟩ := List.mem_map.mp hk'
      rw [hmeta m hm] at hki
      cases hki

theorem seqDecode_keyed {α : Type} (items : List α) : seqDecode (keyed items) = some items :=
  seqDecode_keyed_perm items [] (keyed items) (by simp) (by simp) (by simp)



/-- **the two layers composed**: the element nodes of ANY well-formed sequence, stored under
`str(i)` next to arbitrary non-digit metadata entries and enumerated by the store in ANY
order, are rebuilt by the key layer and decoded by the value layer into exactly the
canonical elements — the item-by-item round trip of `Model/Serialize.lean` does not depend
on its positional abstraction -/
theorem roundtrip_seq_keyed (xs : List Val) (hw : wfItems xs = true)
    (metas kids : List (Key × Node)) (hp : kids.Perm (keyed (encodeItems {} xs) ++ metas))
    (hmeta : ∀ m ∈ metas, undec m.1 = none) (hmnd : (metas.map (·.1)).Nodup) :
    (seqDecode kids).map decodeItems = some (.ok (canonList xs)) := by
  rw [seqDecode_keyed_perm _ metas kids hp hmeta hmnd]
  simp [roundtrip_items xs hw]

/-- an element key missing below the reconstructed length makes the load fail (`KeyError`)
instead of silently shortening or shifting the sequence -/
theorem seqDecode_missing_raises {α : Type} (kids : List (Key × α)) (i : Nat)
    (hi : i < seqLen (kids.map (·.1))) (hm : lookupKey (dec i) kids = none) :
    seqDecode kids = none :=
  collect_none_of_missing _ _ i (List.mem_range.mpr hi) hm

/-- twelve elements stored in string order ("0","1","10","11","2",…) come back in numeric order -/
example : seqDecode ([0, 1, 10, 11, 2, 3, 4, 5, 6, 7, 8, 9].map fun i => (dec i, i * i)) =
    some ((List.range 12).map fun i => i * i) := by decide +kernel

end SeqKeys

/-! ### `save()` argument handling and HISTORIES of public calls (`Model/SerializeExt.lean`)

"for both stores, all compression levels 0..9 and None, both write modes": the checks at the
top of `save()` accept exactly these configurations, the stored tree does not depend on the
level, and a target holds — after ANY history of further calls that do not overwrite it,
rejected and raising calls included — what the last save that returned normally wrote. -/

/-- **every configuration of the quantifier is accepted**: level `None` or `0..9`, store zip (any
path; `.zip` is appended when missing) or dir (extension-less path), target absent or `mode="o"` -/
theorem resolveSave_accepts (ex : String → Bool) (a : SaveArgs)
    (hl : levelOk a.level = true)
    (hs : resolveStore a = "zip" ∨ (resolveStore a = "dir" ∧ hasExt (resolvePath a) = false))
    (hm : ex (resolvePath a) = false ∨ a.mode = "o") :
    resolveSave ex a = .ok (resolveStore a, resolvePath a) := by
  unfold resolveSave
  have h1 : (ex (resolvePath a) && a.mode != "o") = false := by
    rcases hm with h | h <;> simp [h]
  rcases hs with h | ⟨h, he⟩
  · simp [hl, h1, h]
  · simp [hl, h1, h, he]

/-- **exactly these**: a call is accepted iff the level is `None`/`0..9`, the target is absent or
the mode is `"o"`, and the (resolved) store is zip, or dir with an extension-less path -/
theorem resolveSave_ok_iff (ex : String → Bool) (a : SaveArgs) (r : String × String) :
    resolveSave ex a = .ok r ↔
      (levelOk a.level = true ∧ (ex (resolvePath a) = false ∨ a.mode = "o") ∧
        (resolveStore a = "zip" ∨ (resolveStore a = "dir" ∧ hasExt (resolvePath a) = false)) ∧
        r = (resolveStore a, resolvePath a)) := by
  constructor
  · intro h
    have hr := resolveSave_ok_eq ex a r h
    unfold resolveSave at h
    split at h
    · cases h
    · rename_i hl
      simp only at h
      split at h
      · cases h
      · rename_i hm
        split at h
        · cases h
        · rename_i hd
          split at h
          · cases h
          · rename_i hu
            refine ⟨by simpa using hl, ?_, ?_, hr⟩
            · by_cases hex : ex (resolvePath a) = true
              · right; simpa [hex] using hm
              · left; simpa using hex
            · by_cases hz : resolveStore a = "zip"
              · left; exact hz
              · right
                have hdir : resolveStore a = "dir" := by
                  by_cases hdd : resolveStore a = "dir"
                  · exact hdd
                  · exact absurd (by simp [hz, hdd]) hu
                refine ⟨hdir, ?_⟩
                simpa [hdir] using hd
  · rintro ⟨hl, hm, hs, rfl⟩
    exact resolveSave_accepts ex a hl hs hm

/-- **every compression level gives the same result**: which target is written and what is stored
there (`save {} v` takes no level) do not depend on the level, for all levels `None`, `0..9` -/
theorem resolveSave_level_independent (ex : String → Bool) (a : SaveArgs) (l1 l2 : Option Int)
    (h1 : levelOk l1 = true) (h2 : levelOk l2 = true) :
    resolveSave ex { a with level := l1 } = resolveSave ex { a with level := l2 } := by
  simp [resolveSave, h1, h2, resolveStore, resolvePath]

/-- a level outside `0..9` is rejected whatever else is passed, before the target is looked at -/
theorem resolveSave_bad_level (ex : String → Bool) (a : SaveArgs) (h : levelOk a.level = false) :
    resolveSave ex a = .error .valueError := by
  simp [resolveSave, h]

/-- **exception safety**: a call that raises — rejected arguments, write protection, a failure while
writing, a failing load — leaves every target exactly as it was -/
theorem raised_call_is_noop (fs : Fs) (op : HOp) (e : CallErr) (h : (hstep fs op).2 = .raised e) :
    (hstep fs op).1 = fs := by
  cases op with
  | load p =>
    simp only [hstep] at h ⊢
    split
    · rfl
    · split <;> rfl
  | inspect p =>
    simp only [hstep] at h ⊢
    split <;> rfl
  | saveRaises a =>
    simp only [hstep] at h ⊢
    split <;> rfl
  | save v a =>
    simp only [hstep] at h ⊢
    split
    · rfl
    · rename_i store p hok
      rw [hok] at h
      cases h

/-- a call touches at most the one target it resolves to -/
theorem hstep_frame (fs : Fs) (op : HOp) (q : String)
    (hq : match op with | .save _ a => resolvePath a ≠ q | _ => True) :
    fsGet (hstep fs op).1 q = fsGet fs q := by
  cases op with
  | load p =>
    simp only [hstep]
    split
    · rfl
    · split <;> rfl
  | inspect p =>
    simp only [hstep]
    split <;> rfl
  | saveRaises a =>
    simp only [hstep]
    split <;> rfl
  | save v a =>
    simp only [hstep]
    split
    · rfl
    · rename_i store p hok
      have hp := resolveSave_ok_eq _ _ _ hok
      have hp2 : p = resolvePath a := by cases hp; rfl
      simp only
      rw [fsGet_fsSet_ne]
      rw [hp2]
      exact fun e => hq e.symm

/-- **round trip over every history**: after ANY history `pre`, a save of a well-formed object that
is accepted for `path`, followed by ANY history `post` of calls none of which overwrites `path`
(loads, `print_file` calls, saves to other targets, saves onto `path` without `mode="o"`, saves with a rejected level,
saves that raise part-way — in any number and order), `load(path)` returns the canonical form of
the saved object -/
theorem roundtrip_history (fs₀ : Fs) (pre post : List HOp) (cls : String) (attrs : List (String × Val))
    (a : SaveArgs) (store path : String)
    (hwf : wfA (.obj cls attrs) = true)
    (hacc : resolveSave (fun p => (fsGet (hrun fs₀ pre).1 p).isSome) a = .ok (store, path))
    (hq : ∀ op ∈ post, quietOn path op = true) :
    (hstep (hrun fs₀ (pre ++ [.save (.obj cls attrs) a] ++ post)).1 (.load path)).2
      = .loaded (canon (.obj cls attrs)) := by
  rw [List.append_assoc, hrun_append]
  have h1 : fsGet (hrun (hrun fs₀ pre).1 ([.save (.obj cls attrs) a] ++ post)).1 path
      = some (save {} (.obj cls attrs)) := by
    rw [hrun_append]
    apply quiet_run_keeps _ _ _ _ hq
    simp only [hrun, hstep, hacc]
    exact fsGet_fsSet_same _ _ _
  simp only [hstep, h1, roundtrip cls attrs hwf]

/-- **fixed point over histories**: what a load returned can be saved again — to any accepted
target, after any history, followed by any quiet history — and reloads as the very same graph -/
theorem fixed_point_history (fs₀ : Fs) (pre post : List HOp) (cls : String) (attrs : List (String × Val))
    (a : SaveArgs) (store path : String)
    (hwf : wfA (.obj cls attrs) = true)
    (hacc : resolveSave (fun p => (fsGet (hrun fs₀ pre).1 p).isSome) a = .ok (store, path))
    (hq : ∀ op ∈ post, quietOn path op = true) :
    (hstep (hrun fs₀ (pre ++ [.save (canon (.obj cls attrs)) a] ++ post)).1 (.load path)).2
      = .loaded (canon (.obj cls attrs)) := by
  obtain ⟨hid, hw⟩ := canon_stable (.obj cls attrs)
  have hc : canon (.obj cls attrs) = .obj cls (reorder (canonKvs attrs)) := by simp [canon]
  have h := roundtrip_history fs₀ pre post cls (reorder (canonKvs attrs)) a store path
    (by rw [← hc]; exact hw hwf) hacc hq
  rw [← hc, hid] at h
  exact h

/-- **same result for both stores, every level, every path spelling**: the same object saved under two
accepted configurations (e.g. zip with level 9 through a `Path`, dir with level `None` through a `str`) onto
two targets, after any history, loads back as the same graph — `canon` of the saved one — from both -/
theorem stores_agree (fs₀ : Fs) (pre : List HOp) (cls : String) (attrs : List (String × Val))
    (a1 a2 : SaveArgs) (s1 p1 s2 p2 : String)
    (hwf : wfA (.obj cls attrs) = true)
    (h1 : resolveSave (fun p => (fsGet (hrun fs₀ pre).1 p).isSome) a1 = .ok (s1, p1))
    (h2 : resolveSave (fun p => (fsGet (hrun fs₀ (pre ++ [.save (.obj cls attrs) a1])).1 p).isSome) a2 = .ok (s2, p2))
    (hne : p1 ≠ p2) :
    let fs := (hrun fs₀ (pre ++ [.save (.obj cls attrs) a1] ++ [.save (.obj cls attrs) a2])).1
    (hstep fs (.load p1)).2 = .loaded (canon (.obj cls attrs)) ∧
    (hstep fs (.load p2)).2 = (hstep fs (.load p1)).2 := by
  have hp2 : p2 = resolvePath a2 := by
    have := resolveSave_ok_eq _ _ _ h2; cases this; rfl
  have e1 := roundtrip_history fs₀ pre [.save (.obj cls attrs) a2] cls attrs a1 s1 p1 hwf h1
    (by
      intro op hop
      simp only [List.mem_singleton] at hop
      subst hop
      simp only [quietOn, Bool.or_eq_true, bne_iff_ne, ne_eq]
      left; left
      rw [← hp2]; exact fun e => hne e.symm)
  have e2 := roundtrip_history fs₀ (pre ++ [.save (.obj cls attrs) a1]) [] cls attrs a2 s2 p2 hwf h2
    (by intro op hop; cases hop)
  simp only [List.append_nil] at e2
  exact ⟨e1, by rw [e2, e1]⟩

/-- a target nothing was saved to does not load -/
theorem load_missing_raises (fs : Fs) (p : String) (h : fsGet fs p = none) :
    hstep fs (.load p) = (fs, .raised .fileNotFound) := by
  simp [hstep, h]

/-- `_is_numeric_scalar` on the `isinstance` facts of a value of the universe is the fast-path
test `isNumeric` that `encode` uses -/
theorem isNumericScalar_spec (v : Val) : isNumericScalar (numFeatOf v) = isNumeric v := by
  cases v with
  | scalar s => cases s <;> simp [numFeatOf, isNumericScalar, isNumeric]
  | npScalar dt s => cases s <;> simp [numFeatOf, isNumericScalar, isNumeric]
  | torch k c t => cases k <;> simp [numFeatOf, isNumericScalar, isNumeric]
  | _ => simp [numFeatOf, isNumericScalar, isNumeric]

/-- containers, arrays and tensors are never numeric scalars, whatever else they claim to be
(a 0-d array or a one-element tensor passes every `np.integer`-style duck test) -/
theorem isNumericScalar_arraylike (f : NumFeat) (h : f.isArrayLike = true) : isNumericScalar f = false := by
  simp [isNumericScalar, h]

/-! non-vacuity of the history layer: a concrete history with a rejected level, a write-protected
second save, a raising save and a save to another target between the save and the load -/

private def hA : SaveArgs := { path := "/d/run1", mode := "w", store := "dir", level := some 0 }
private def hB : SaveArgs := { path := "/d/run2", mode := "o", store := "zip", level := none }
private def hObj : Val := .obj "SA" [("n", .scalar (.int 5)), ("l", .list [.npScalar "int8" (.int 1), .scalar (.float 0)])]
private def hObj2 : Val := .obj "SB" [("x", .set [.scalar (.str "a")])]

example : resolveSave (fun _ => false) hA = .ok ("dir", "/d/run1") := by decide
example : resolveSave (fun _ => true) hB = .ok ("zip", "/d/run2.zip") := by decide
example : resolveSave (fun _ => true) hA = .error .fileExists := by decide
example : resolveSave (fun _ => false) { hA with level := some 10 } = .error .valueError := by decide
example : resolveSave (fun _ => false) { hA with path := "/d/run1.zarr" } = .error .valueError := by decide
example : resolveSave (fun _ => false) { hA with path := "/d.v2/.run1" } = .ok ("dir", "/d.v2/.run1") := by decide
example : resolveSave (fun _ => true) { hA with store := "tar" } = .error .fileExists := by decide
example : resolveSave (fun _ => false) { hA with store := "tar" } = .error .valueError := by decide
example : resolveSave (fun _ => false) { path := "x.zip" } = .ok ("zip", "x.zip") := by decide
example : ∀ op ∈ [HOp.save hObj2 { hA with level := some 10, mode := "o" }, .save hObj2 hA, .saveRaises { hA with mode := "o" },
      .save hObj2 hB, .load "/d/run2.zip", .load "/nowhere", .inspect "/d/run1"], quietOn "/d/run1" op = true := by decide
example : ∃ fs, (hrun [] [HOp.save hObj hA, .save hObj2 hA]).1 = fs ∧ (hrun [] [HOp.save hObj hA, .save hObj2 hA]).2.length = 2 :=
  ⟨_, rfl, rfl⟩
example : isNumericScalar (numFeatOf (.npScalar "float64" (.float 0))) = true := by decide
-- hypotheses of `stores_agree`: zip/level 9 then dir/level None of one object on an empty filesystem
example : resolveSave (fun p => (fsGet (hrun [] []).1 p).isSome) { hB with level := some 9 } = .ok ("zip", "/d/run2.zip") ∧
    resolveSave (fun p => (fsGet (hrun [] ([] ++ [HOp.save hObj { hB with level := some 9 }])).1 p).isSome) hA = .ok ("dir", "/d/run1") := by
  decide

/-! ### the type-dispatch chain of `_serialize_value` (`Model/SerializeDispatch.lean`).  The theorems that tie
the chain translated from the current source (`Generated/SerializeDispatch.lean`) to this model live in
`Props/C01Tie.lean` (audited on its own; nothing here or in Props/C14 depends on the generated file). -/

section Dispatch
open QuantemModel.SerDispatch

/-- **every supported value kind reaches its own branch**: tensors and Parameters (which also live in a torch
module and have `dtype`/`item`), optimizers and schedulers (torch modules by name), `torch.Generator` (module
branch, not the `get_state` branch), arrays incl. 0-d (not the NumPy-scalar duck test), `bool` / `np.float64` /
`np.str_` (Python scalars), the other NumPy reals (`.item()`), complex scalars (fallback), paths, AutoSerialize
objects, list/tuple/dict, set, generators, and the dill fallback kinds -/
theorem dispatch_kind : ∀ k, dispatch (featOf k) = branchOf k := by
  intro k; cases k <;> rfl

/-- the facts of every value kind satisfy the relations that hold for all Python objects (`Consistent`), so
the tie theorems of `Props/C01Tie.lean`, stated for consistent fact vectors, apply to every kind -/
theorem featOf_consistent : ∀ k, Consistent (featOf k) = true := by
  intro k; cases k <;> rfl

/-- the chain is "first test that holds, in the code's order" … -/
theorem dispatch_is_first_match (f : Feat) : dispatch f = firstMatch f chain := by
  rfl

theorem firstMatch_head (f : Feat) (l : List Branch) :
    firstMatch f l = ((l.filter (fun b => testOf b f)).head?).getD .fallback := by
  induction l with
  | nil => rfl
  | cons b bs ih =>
    by_cases h : testOf b f = true
    · simp [firstMatch, h]
    · simp [firstMatch, h, ih]

/-- … for every combination of facts: the branch taken is the head of the list of all tests that hold -/
theorem dispatch_first_match (f : Feat) : dispatch f = ((matching f).head?).getD .fallback := by
  rw [dispatch_is_first_match, firstMatch_head]; rfl

/-- the test of the branch taken holds -/
theorem dispatch_test_holds (f : Feat) : testOf (dispatch f) f = true := by
  rw [dispatch_is_first_match]
  generalize chain = l
  induction l with
  | nil => rfl
  | cons b bs ih =>
    by_cases h : testOf b f = true
    · simp [firstMatch, h]
    · simp [firstMatch, h, ih]

/-- **order matters**: for these kinds several tests hold, and only the position in the chain
sends them to the branch whose stored form `decode` restores (an ndarray would be stored as a
JSON attribute by the NumPy-scalar duck test, a Parameter or an optimizer as a whole module, …) -/
theorem order_decides :
    matching (featOf .ndarray) = [.ndarray, .npScalar, .fallback] ∧
    matching (featOf .npFloat64) = [.scalar, .npScalar, .fallback] ∧
    matching (featOf .npStr) = [.scalar, .npScalar, .fallback] ∧
    matching (featOf .parameter) = [.tensor, .module, .npScalar, .fallback] ∧
    matching (featOf .optimizer) = [.optimizer, .module, .fallback] ∧
    matching (featOf .scheduler) = [.scheduler, .module, .fallback] ∧
    matching (featOf .summaryWriter) = [.torchLogger, .module, .fallback] ∧
    matching (featOf .torchGenerator) = [.module, .torchRng, .fallback] ∧
    matching (featOf .torchSize) = [.container, .fallback] ∧
    matching (featOf .npComplex) = [.fallback] := by decide

/-- **the value model follows the chain**: what `encode` stores for a value of the universe shows
exactly the branch the dispatch chain takes for the Python kind of that value -/
theorem encode_follows_dispatch (v : Val) (h : v ≠ .torchRng) :
    nodeObs (encode {} v) = obsOf (dispatch (featOf (kindOf v))) := by
  rw [dispatch_kind]
  cases v with
  | scalar s => cases s <;> simp [encode, nodeObs, kindOf, branchOf, obsOf]
  | npScalar dt s =>
    cases s <;> simp only [kindOf, encode, nodeObs] <;> first | rfl | (split <;> rfl)
  | path p => simp [encode, nodeObs, kindOf, branchOf, obsOf]
  | ndarray dt sh d =>
    simp only [encode, writeNdarray, kindOf]
    split
    · rfl
    · split <;> rfl
  | torch k c t => cases k <;> simp [encode, nodeObs, kindOf, branchOf, obsOf, ftrue, fget, torchFlag]
  | fallback c t => simp [encode, nodeObs, kindOf, branchOf, obsOf]
  | rawBytes p => simp [encode, nodeObs, kindOf, branchOf, obsOf]
  | npRng b => simp [encode, nodeObs, kindOf, branchOf, obsOf, ftrue, fget]
  | torchRng => exact absurd rfl h
  | pyLogger n l => simp [encode, nodeObs, kindOf, branchOf, obsOf, ftrue, fget]
  | list xs => simp only [encode, encodeSeq]; split <;> simp [nodeObs, kindOf, branchOf, obsOf, fget]
  | tuple xs => simp only [encode, encodeSeq]; split <;> simp [nodeObs, kindOf, branchOf, obsOf, fget]
  | set xs =>
    simp only [encode, encodeSeq]
    by_cases hf : (xs.all isNumeric && !xs.isEmpty) = true
    · simp [hf, nodeObs, kindOf, branchOf, obsOf, fget, fset]
    · simp [hf, nodeObs, kindOf, branchOf, obsOf, fget, fset]
  | dict kvs => simp [encode, nodeObs, kindOf, branchOf, obsOf, ftrue, fget]
  | obj c a => simp [encode, nodeObs, kindOf, branchOf, obsOf, ftrue, fget]

example : dispatch (featOf .parameter) = .tensor := rfl
example : dispatch { hasDtype := true, hasItem := true, isNdarray := true, isSet := true } = .ndarray := rfl
example : nodeObs (encode {} (.set [.scalar (.int 1)])) = "set" := by
  rw [encode_follows_dispatch _ (by simp)]; rfl

end Dispatch

/-! ### non-vacuity: a depth-4 graph with every value kind is well-formed and round-trips -/

private def sample : Val :=
  .obj "SA" [
    ("n", .scalar (.int 5)), ("f", .npScalar "float32" (.float 4609434218613702656)), ("p", .path "a/b"),
    ("a0", .ndarray "float64" [] [.float 4]), ("ae", .ndarray "int8" [0, 3] []), ("a", .ndarray "uint8" [2] [.int 1, .int 2]),
    ("t", .torch .parameter "Parameter" 11), ("m", .torch .module "Linear" 12), ("o", .torch .optimizer "Adam" 13),
    ("z", .fallback "complex" 14), ("r", .npRng "MT19937"), ("g", .torchRng), ("lg", .pyLogger "q" 20),
    ("l", .list [.scalar (.int 1), .scalar (.float 4607182418800017408), .scalar (.bool true)]),
    ("s", .set [.scalar (.str "a"), .tuple [.scalar (.int 1), .scalar .none]]),
    ("d", .dict [("k", .obj "SB" [("x", .list [.npRng "PCG64", .fallback "bytes" 15, .dict []])])])]

example : wfA sample = true := by decide
example : ∃ v, load {} (save {} sample) = .ok v := ⟨_, roundtrip _ _ (by decide)⟩

end QuantemModel.Props.C01
