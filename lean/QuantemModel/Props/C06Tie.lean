import QuantemModel.Generated.ResampleTrace
import QuantemModel.Model.Resample
/-!
C06 — the mechanical tie (growth round 6; listed in `EXTRA_PROPS` of harness/props/c06.py).
`Generated/ResampleTrace.lean` is rewritten on every run by harness/translator/resample2lean.py, which
EXECUTES the current `Dataset.bin / pad / crop / fourier_resample` on tagged arrays and writes down
what the index arithmetic did.  Each theorem says: every traced entry equals the model definition the
theorems of Props/C06.lean / C06Ext.lean are about.  A change of the source that moves one pixel, one
frequency bin or one calibration value makes the corresponding `decide` fail.
-/
namespace QuantemModel.Props.C06
open QuantemModel QuantemModel.Nd QuantemModel.Resample QuantemModel.Generated

set_option maxRecDepth 100000

/-- bin, 1-D: pixel `i` carries `2^i`; the traced binned values are the model's block sums (so each
block read exactly the pixels `j·f … j·f+f-1` and the trailing remainder was dropped) -/
theorem generated_eq_spec_bin1 :
    ∀ e ∈ ResampleTrace.bin1,
      (binNd (⟨[e.1], (List.range e.1).map (2 ^ ·)⟩ : Arr Nat) [e.2.1]).data = e.2.2 := by decide

/-- bin, 2-D, traced through `axes=(1, 0)` with the factors in that order: the factor reaches its own axis -/
theorem generated_eq_spec_bin2 :
    ∀ e ∈ ResampleTrace.bin2,
      (binNd (⟨e.1, (List.range (prod e.1)).map (2 ^ ·)⟩ : Arr Nat) e.2.1).data = e.2.2 := by decide

/-- pad(output_shape): floor / ceil widths, original block at offset `before`, zeros elsewhere -/
theorem generated_eq_spec_pad :
    ∀ e ∈ ResampleTrace.pad,
      (padNd 0 (⟨[e.1], (List.range e.1).map (· + 1)⟩ : Arr Nat) [padWidths e.2.1 e.1]).data = e.2.2 := by decide

/-- the pixels `crop(((before, after),))` keeps, as the model's slice arithmetic reads them -/
def cropRow (n : Nat) (b e : Int) : Option (List Nat) :=
  (sliceIndices n (some b) (if e ≠ 0 then some e else none) none).map fun r =>
    (List.range r.2.2).map fun (t : Nat) => (r.1 + r.2.1 * Int.ofNat t).toNat + 1

theorem generated_eq_spec_crop :
    ∀ e ∈ ResampleTrace.crop, cropRow e.1 e.2.1 e.2.2.1 = some e.2.2.2 := by decide

/-- fourier_resample: the traced frequency index map is `freqMap` -/
theorem generated_eq_spec_freq :
    ∀ e ∈ ResampleTrace.freq, freqMap e.1 e.2.1 = e.2.2 := by decide

/-- calibration after `bin` on the probe calibrations (negative sampling included) -/
theorem generated_eq_spec_binMeta :
    ∀ e ∈ ResampleTrace.binMetaTab, binMeta e.2.1 e.2.2.1 e.1 = (e.2.2.2.1, e.2.2.2.2) := by decide +kernel

/-- calibration after `fourier_resample` on the probe calibrations -/
theorem generated_eq_spec_rsMeta :
    ∀ e ∈ ResampleTrace.rsMetaTab,
      resampleMeta e.2.2.1 e.2.2.2.1 e.1 e.2.1 = (e.2.2.2.2.1, e.2.2.2.2.2) := by decide +kernel

-- the tables are not empty
example : ResampleTrace.bin1.length = 54 ∧ ResampleTrace.freq.length = 64 := by decide

end QuantemModel.Props.C06
