import QuantemModel.Lemmas.VectorLaws
import QuantemModel.Lemmas.VectorView
/-!
C11 — the ragged `Vector` (Model/Vector.lean: a state machine over a heap of arrays, cells hold
references) keeps its structural invariants under any operation history.  Only property theorems
and non-vacuity examples live here; helper lemmas are in Lemmas/Vector.lean, Lemmas/VectorLaws.lean.
-/
namespace QuantemModel.Props.C11
open QuantemModel.Vector

/-! ## 1. Structural invariant over every history -/

/-- every operation (successful or raising, including partially executed fancy assignments)
preserves the invariant -/
theorem invariant_step (s : State) (op : Op) (h : Inv s) : Inv (step s op).1 := inv_step h op

/-- **all histories**: the invariant holds after any operation sequence from the empty world -/
theorem invariant_all_histories (ops : List Op) : Inv (run init ops) := inv_run_from inv_init ops

/-- the invariant spelled out: after any history, for every vector ever created, field names are
unique and aligned with units, there is one cell per index of the (positive) shape, and every
populated cell refers to a live rectangular 2-D array with exactly one column per field. -/
theorem structure_all_histories (ops : List Op) :
    ∀ v ∈ (run init ops).vecs,
      v.fields.Nodup ∧ v.units.length = v.fields.length ∧ v.cells.length = prod v.shape ∧
      (∀ d ∈ v.shape, 0 < d) ∧
      ∀ r, some r ∈ v.cells → ∃ a, (run init ops).heap[r]? = some a ∧ a.ncols = v.fields.length ∧
        ∀ row ∈ a.rows, row.length = v.fields.length ∧ (a.isInt = true → ∀ x ∈ row, IsIntQ x) := by
  intro v hv
  have hI := invariant_all_histories ops
  have hvok := hI.vecs v hv
  refine ⟨hvok.nodup, hvok.units, hvok.ncells, hvok.pos, ?_⟩
  intro r hr
  obtain ⟨a, ha, hn⟩ := hvok.cells _ hr r rfl
  refine ⟨a, ha, hn, ?_⟩
  intro row hrow
  rw [← hn]
  have hwf := hI.wf a (List.mem_of_getElem? ha)
  exact ⟨hwf.rect row hrow, fun ht => hwf.typed ht row hrow⟩

/-! ## 2. flatten / set_flattened -/

/-- a field's flattened view is the concatenation of that column over the populated cells in
storage (row-major) order -/
theorem flatten_spec (heap : List Arr) (j : Nat) : ∀ cells : List (Option Ref),
    flattenField heap cells j =
      (refsOf cells).flatMap fun r => match heap[r]? with
        | some a => a.col j
        | none => [] := by
  intro cells
  induction cells with
  | nil => rfl
  | cons c cs ih =>
    cases c with
    | none => simpa [flattenField, refsOf] using ih
    | some r =>
      simp only [flattenField, refsOf, List.flatMap_cons, List.filterMap_cons, id] at ih ⊢
      rw [ih]
      rfl

/-- **write-back**: `v[f].set_flattened(v[f].flatten())` changes nothing at all — on every state
whose arrays are rectangular and well-typed (int64 arrays hold integers: then the cast of the
assignment is the identity), also when one array sits in several cells or several vectors.
(With dtypes in the model this needs the typing half of the invariant; it holds on every
reachable state: `writeback_identity_all_histories`.) -/
theorem writeback_identity (s : State) (hwf : ∀ a ∈ s.heap, a.WF) (vid : Nat) (name : String) :
    (opWriteBack s vid name).1 = s := by
  unfold opWriteBack
  split
  · rfl
  · split
    · rfl
    · simp [setFlat, fill_flatten_self _ _ _ hwf]

theorem writeback_identity_all_histories (ops : List Op) (vid : Nat) (name : String) :
    (opWriteBack (run init ops) vid name).1 = run init ops :=
  writeback_identity _ (invariant_all_histories ops).wf vid name

/-- consequently the re-assignment hidden in `v[f] += c` adds nothing to `_apply_op` -/
theorem fieldOp_state (s : State) (hwf : ∀ a ∈ s.heap, a.WF) (vid : Nat) (name : String) (f : Rat → Rat)
    (v : Vec) (j : Nat) (hv : s.getVec vid = .ok v) (hj : fieldIndex v name = .ok j) :
    (opFieldOp s vid name f).1 = { s with heap := applyOp j f s.heap v.cells } := by
  unfold opFieldOp
  simp [hv, hj, setFlat, fill_flatten_self _ _ _ (applyOp_spec j f v.cells s.heap hwf).1]

/-- **set_flattened then flatten gives back what was written**, cell chunk by cell chunk cast to
that cell's dtype (`castFlat`: float64 cells keep the value, int64 cells truncate toward zero as
NumPy's assignment does), when no array sits in two cells of the vector (with aliased cells the
later chunk wins, as in the code). -/
theorem flatten_after_setFlattened {s : State} (hI : Inv s) {vid : Nat} {v : Vec} {name : String} {xs : List Rat}
    (hv : s.getVec vid = .ok v) (hn : name ∈ v.fields) (hnd : (refsOf v.cells).Nodup)
    (hl : xs.length = (flattenField s.heap v.cells (v.fields.idxOf name)).length) :
    (opSetFlattened s vid name (.oneD xs)).2 = .none ∧
    flattenField (opSetFlattened s vid name (.oneD xs)).1.heap v.cells (v.fields.idxOf name) =
      castFlat s.heap v.cells xs ∧
    (opSetFlattened s vid name (.oneD xs)).1.vecs = s.vecs := by
  have hvok := hI.vecs v (getVec_mem hv)
  have hj : fieldIndex v name = .ok (v.fields.idxOf name) := by
    simp [fieldIndex, hn]
  have hlt : v.fields.idxOf name < v.fields.length := List.idxOf_lt_length_of_mem hn
  unfold opSetFlattened
  simp only [hv, hj, setFlat]
  rw [if_neg (by simpa using hl)]
  exact ⟨rfl, flatten_fill _ _ hlt v.cells s.heap xs hI.wf hvok.cells hnd hl, rfl⟩

/-- on float64 cells: flatten after `set_flattened xs` is exactly `xs` -/
theorem flatten_after_setFlattened_float {s : State} (hI : Inv s) {vid : Nat} {v : Vec} {name : String} {xs : List Rat}
    (hv : s.getVec vid = .ok v) (hn : name ∈ v.fields) (hnd : (refsOf v.cells).Nodup)
    (hl : xs.length = (flattenField s.heap v.cells (v.fields.idxOf name)).length)
    (hf : ∀ r a, some r ∈ v.cells → s.heap[r]? = some a → a.isInt = false) :
    flattenField (opSetFlattened s vid name (.oneD xs)).1.heap v.cells (v.fields.idxOf name) = xs := by
  rw [(flatten_after_setFlattened hI hv hn hnd hl).2.1]
  exact castFlat_float _ v.cells s.heap xs hf hl

/-! ## 3. Frames: an operation on X writes only to arrays that sit in X -/

theorem frame_fieldOp (s : State) (vid : Nat) (name : String) (f : Rat → Rat) (v : Vec) (r : Ref)
    (hv : s.getVec vid = .ok v) (hr : some r ∉ v.cells) :
    (opFieldOp s vid name f).1.heap[r]? = s.heap[r]? ∧ (opFieldOp s vid name f).1.vecs = s.vecs ∧
    (opFieldOp s vid name f).1.metas = s.metas := by
  cases hj : fieldIndex v name with
  | error e => simp [opFieldOp, hv, hj]
  | ok j =>
    unfold opFieldOp
    simp only [hv, hj, setFlat]
    split
    · exact ⟨applyOp_frame j f r v.cells s.heap hr, rfl, rfl⟩
    · refine ⟨?_, rfl, rfl⟩
      show (fill j _ v.cells _)[r]? = _
      rw [fill_frame j r v.cells _ _ hr]
      exact applyOp_frame j f r v.cells s.heap hr

theorem frame_setFlattened (s : State) (vid : Nat) (name : String) (vals : FlatVal) (v : Vec) (r : Ref)
    (hv : s.getVec vid = .ok v) (hr : some r ∉ v.cells) :
    (opSetFlattened s vid name vals).1.heap[r]? = s.heap[r]? ∧ (opSetFlattened s vid name vals).1.vecs = s.vecs ∧
    (opSetFlattened s vid name vals).1.metas = s.metas := by
  unfold opSetFlattened
  simp only [hv]
  split
  · exact ⟨rfl, rfl, rfl⟩
  · unfold setFlat
    split
    · exact ⟨rfl, rfl, rfl⟩
    · split
      · exact ⟨rfl, rfl, rfl⟩
      · exact ⟨fill_frame _ r v.cells s.heap _ hr, rfl, rfl⟩

/-! ## 4. Copies and independently created vectors share no mutable state -/

/-- **copy**: on every reachable state `copy` succeeds; the copy has the source's schema, a
metadata dict of its own, every populated cell is an array allocated by this very call (so it
occurs in no older vector and is not held by the caller) holding the same values as the source
cell, unset cells stay unset, and nothing that existed before is modified. -/
theorem copy_fresh {s : State} (hI : Inv s) {vid : Nat} {v : Vec} (hv : s.getVec vid = .ok v) :
    ∃ (w : Vec) (ext : List Arr),
      opCopy s vid = ({ heap := s.heap ++ ext, vecs := s.vecs ++ [w], metas := s.metas ++ [[]] }, .newVec s.vecs.length) ∧
      w.shape = v.shape ∧ w.fields = v.fields ∧ w.units = v.units ∧
      w.mref = s.metas.length ∧ (∀ u ∈ s.vecs, u.mref ≠ w.mref) ∧
      (∀ r, some r ∈ w.cells → s.heap.length ≤ r) ∧
      (∀ u ∈ s.vecs, ∀ r, some r ∈ u.cells → some r ∉ w.cells) ∧
      All2 (CopyRel s.heap.length s.heap (s.heap ++ ext)) v.cells w.cells := by
  have hvok := hI.vecs v (getVec_mem hv)
  obtain ⟨ext, e1, _, e3⟩ := deepCopy_spec s.heap.length v.cells s.heap [] (Nat.le_refl _)
    (memoOK_nil _ _) (cells_live hvok.cells)
  have hpos : v.shape.any (· == 0) = false := by
    rw [List.any_eq_false]
    intro d hd
    have := hvok.pos d hd
    simp; omega
  have hvf : validateFields v.fields = .ok v.fields := by
    unfold validateFields
    simp [nodup_nodupB _ hvok.nodup]
  have hvu : validateUnits (some v.units) v.fields.length = .ok v.units := by
    simp [validateUnits, hvok.units]
  generalize hdc : deepCopyCells s.heap [] v.cells = dc at e1 e3
  obtain ⟨heap', cs⟩ := dc
  simp only at e1 e3
  subst e1
  have hfresh : ∀ r, some r ∈ cs → s.heap.length ≤ r := by
    intro r hr
    obtain ⟨c, hc, hrel⟩ := e3.mem_right _ hr
    cases c with
    | none => simp [CopyRel] at hrel
    | some r0 =>
      obtain ⟨r', a, h1, h2, _, _⟩ := hrel
      cases h1; exact h2
  refine ⟨{ shape := v.shape, cells := cs, fields := v.fields, units := v.units, mref := s.metas.length }, ext, ?_,
    rfl, rfl, rfl, rfl, ?_, hfresh, ?_, e3⟩
  · unfold opCopy
    simp [hv, hpos, hvf, hvu, hdc, State.mkVec]
  · intro u hu
    have := (hI.vecs u hu).mref
    simp only; omega
  · intro u hu r hr hr2
    obtain ⟨a, ha, _⟩ := (hI.vecs u hu).cells _ hr r rfl
    have h1 := getElem?_lt ha
    have h2 := hfresh r hr2
    omega

/-- **independent creation**: a vector made by `from_shape` has only unset cells and a metadata
dict that no earlier vector refers to; the heap is untouched. -/
theorem fromShape_fresh {s s' : State} (hI : Inv s) {shape : List Int} {nf : Option Int}
    {fields units : Option (List String)} {id : Nat}
    (h : opFromShape s shape nf fields units = (s', .newVec id)) :
    ∃ w, s'.vecs = s.vecs ++ [w] ∧ id = s.vecs.length ∧ s'.heap = s.heap ∧ s'.metas = s.metas ++ [[]] ∧
      (∀ c ∈ w.cells, c = none) ∧ w.mref = s.metas.length ∧ ∀ u ∈ s.vecs, u.mref ≠ w.mref := by
  unfold opFromShape at h
  split at h
  · simp at h
  · split at h
    · simp at h
    · split at h
      · simp at h
      · rename_i sh _ _ fs _ _ us _
        simp only [State.mkVec, Prod.mk.injEq, Res.newVec.injEq] at h
        obtain ⟨h1, h2⟩ := h
        subst h1; subst h2
        refine ⟨_, rfl, rfl, rfl, rfl, ?_, rfl, ?_⟩
        · intro c hc; exact List.eq_of_mem_replicate hc
        · intro u hu
          have := (hI.vecs u hu).mref
          simp only; omega

/-- **mutating a copy never shows in the original** (and vice versa): after `copy`, field
arithmetic on either of the two vectors leaves every array of the other one untouched. -/
theorem copy_independent {s : State} (hI : Inv s) {vid : Nat} {v : Vec} (hv : s.getVec vid = .ok v)
    (name : String) (f : Rat → Rat) :
    let s1 := (opCopy s vid).1
    let cid := s.vecs.length
    (∀ r, some r ∈ v.cells → (opFieldOp s1 cid name f).1.heap[r]? = s1.heap[r]?) ∧
    (∀ w, s1.getVec cid = .ok w → ∀ r, some r ∈ w.cells → (opFieldOp s1 vid name f).1.heap[r]? = s1.heap[r]?) := by
  obtain ⟨w, ext, hc, _, _, _, _, _, _, hdisj, _⟩ := copy_fresh hI hv
  simp only [hc]
  have hvm := getVec_mem hv
  have hgw : ({ heap := s.heap ++ ext, vecs := s.vecs ++ [w], metas := s.metas ++ [[]] } : State).getVec s.vecs.length = .ok w := by
    simp [State.getVec]
  have hgv : ({ heap := s.heap ++ ext, vecs := s.vecs ++ [w], metas := s.metas ++ [[]] } : State).getVec vid = .ok v := by
    have := getVec_ok' hv
    simp [State.getVec, List.getElem?_append_left (getElem?_lt this), this]
  constructor
  · intro r hr
    exact (frame_fieldOp _ _ name f w r hgw (hdisj v hvm r hr)).1
  · intro w' hw' r hr
    rw [hgw] at hw'; cases hw'
    refine (frame_fieldOp _ _ name f v r hgv ?_).1
    intro hr2
    exact hdisj v hvm r hr2 hr

/-! ## 4b. Recursive column add / remove -/

/-- **add_fields then remove_fields of the same (new, distinct) names restores the vector** on
every reachable state: both calls succeed; shape, fields and units are as before; the same cells
are populated and every populated cell holds an array with exactly the values it held before
(`SameValue`; the arrays themselves are new objects, as in the code). -/
theorem add_remove_fields {s : State} (hI : Inv s) {vid : Nat} {v : Vec} {names : List String}
    (hv : s.getVec vid = .ok v) (hnew : ∀ n ∈ names, n ∉ v.fields) (hnd : names.Nodup) (hne : names ≠ []) :
    ∃ (s1 s2 : State) (v2 : Vec), opAddFields s vid names = (s1, .none) ∧ opRemoveFields s1 vid names = (s2, .none) ∧
      s2.getVec vid = .ok v2 ∧ v2.shape = v.shape ∧ v2.fields = v.fields ∧ v2.units = v.units ∧
      All2 (SameValue s.heap s2.heap) v.cells v2.cells :=
  add_remove_spec hI hv hnew hnd hne

/-! ## 5. Slicing returns the addressed cells, for any number of fixed dimensions -/

/-- **slice_spec**: whenever `v[idx]` (slices, lists, ints, fewer indices than dimensions) returns
a vector `w`, then `w` has the source's fields and units, its shape is the per-dimension number of
selected indices, and — for ANY number of fixed dimensions — the cell of `w` at output coordinate
`o` IS (the same reference as) the cell of `v` at the source coordinate `src` that the index
expression assigns to `o` (`Addr`), both located by row-major offsets. -/
theorem slice_spec {s s' : State} {vid id : Nat} {idx : List Ix} (h : opGetItem s vid idx = (s', .newVec id)) :
    ∃ (v w : Vec) (ls : List (List Int)), s.vecs[vid]? = some v ∧ s'.vecs[id]? = some w ∧
      resolveAll false v.shape (padIdx v.shape.length (idx.take v.shape.length)) = .ok ls ∧
      w.shape = ls.map List.length ∧ w.fields = v.fields ∧ w.units = v.units ∧ s'.heap = s.heap ∧
      ∀ o src, Addr v.shape ls o src →
        (w.cells[flatIdx w.shape o]?).join = (v.cells[flatIdx v.shape src]?).join := by
  -- the work happens in `getItemCore` on at most `nd` indices (surplus indices are dropped by `zip`;
  -- with an all-int cell address they index into the cell array and never produce a vector)
  have core : ∀ (v : Vec) (idx' : List Ix), s.getVec vid = .ok v → getItemCore s v idx' = (s', .newVec id) →
      ∃ (w : Vec) (ls : List (List Int)), s'.vecs[id]? = some w ∧
        resolveAll false v.shape (padIdx v.shape.length idx') = .ok ls ∧
        w.shape = ls.map List.length ∧ w.fields = v.fields ∧ w.units = v.units ∧ s'.heap = s.heap ∧
        ∀ o src, Addr v.shape ls o src →
          (w.cells[flatIdx w.shape o]?).join = (v.cells[flatIdx v.shape src]?).join := by
    intro v idx' hv h
    unfold getItemCore at h
    simp only at h
    split at h
    · split at h
      · simp at h
      · split at h
        · simp at h
        · simp at h
    · split at h
      · simp at h
      · rename_i ls hls
        split at h
        · simp at h
        · rename_i ps hps
          split at h
          · simp at h
          · split at h
            · simp at h
            · rename_i fs hfs
              split at h
              · simp at h
              · rename_i us hus
                obtain ⟨e, _⟩ := validateFields_ok hfs
                subst e
                have hu : us = v.units := by
                  unfold validateUnits at hus
                  simp only at hus
                  split at hus
                  · cases hus
                  · cases hus; rfl
                simp only [State.mkVec, Prod.mk.injEq, Res.newVec.injEq] at h
                obtain ⟨h1, h2⟩ := h
                subst h1; subst h2
                refine ⟨Vec.mk (ls.map List.length) (ps.map fun p => (v.cells[p]?).join) v.fields us s.metas.length, ls, by simp, hls, rfl, rfl, hu, rfl, ?_⟩
                intro o src haddr
                have := positions_addr haddr ps hps
                simp only [List.getElem?_map, this, Option.map_some, Option.join_some]
  unfold opGetItem at h
  split at h
  · simp at h
  · rename_i v hv
    simp only at h
    split at h
    · split at h
      · -- indexing INTO a cell array returns a NumPy value or raises, never a vector
        exfalso
        unfold getItemLong at h
        simp only at h
        repeat' split at h
        all_goals simp at h
      · obtain ⟨w, ls, h1, h2, h3⟩ := core v _ hv h
        refine ⟨v, w, ls, getVec_ok' hv, h1, ?_, h3⟩
        exact h2
    · rename_i hle
      obtain ⟨w, ls, h1, h2, h3⟩ := core v _ hv h
      refine ⟨v, w, ls, getVec_ok' hv, h1, ?_, h3⟩
      rw [List.take_of_length_le (by omega)]; exact h2

/-- the same for the list returned by `get_data` with slice / list indices (explicit bounds
checks, so every index is already in range): entry number `flatIdx lens o` of the returned list
is the cell at the addressed source coordinate. -/
theorem getData_spec {s : State} {vid : Nat} {idx : List Ix} {v : Vec} {out : List (Option Ref)}
    (hv : s.getVec vid = .ok v) (h : (opGetData s vid idx).2 = .cells out) :
    ∃ ls, resolveAll true v.shape idx = .ok ls ∧ idx.length = v.shape.length ∧
      ∀ o src, Addr v.shape ls o src →
        out[flatIdx (ls.map List.length) o]? = some ((v.cells[flatIdx v.shape src]?).join) := by
  unfold opGetData at h
  simp only [hv] at h
  split at h
  · simp at h
  · rename_i hlen
    split at h
    · simp at h
    · rename_i ls hls
      split at h
      · simp at h
      · rename_i ps hps
        split at h
        · simp at h
        · simp only [Res.cells.injEq] at h
          subst h
          refine ⟨ls, hls, by simpa using hlen, ?_⟩
          intro o src haddr
          simp [List.getElem?_map, positions_addr haddr ps hps]

/-! ## 6. Value-level laws: what assignment, field arithmetic and column add/remove store -/

/-- **assignment** `v[idx] = [a₀, a₁, …]` (slices / lists / short index): when it succeeds, the heap
and every other vector are untouched, the vector keeps its schema, every cell that is not addressed
keeps what it held, and — for distinct addressed positions — the cell at the k-th addressed
position (`ps[k]`, whose coordinates `positions_addr` / `slice_spec` give) holds exactly the k-th
array of the list (the very reference, no copy). -/
theorem assign_spec {s s' : State} {vid : Nat} {v : Vec} {idx : List Ix} {xs : List Val}
    (hI : Inv s) (hv : s.getVec vid = .ok v) (hle : idx.length ≤ v.shape.length)
    (hf : (padIdx v.shape.length idx).any Ix.isFancy = true)
    (h : opSetItem s vid idx (.many xs) = (s', .none)) :
    ∃ (ls : List (List Int)) (ps : List Nat) (v' : Vec),
      resolveAll true v.shape (padIdx v.shape.length idx) = .ok ls ∧ positions v.shape ls = .ok ps ∧
      xs.length = ps.length ∧ s'.heap = s.heap ∧ s'.metas = s.metas ∧ s'.vecs = s.vecs.set vid v' ∧
      v'.shape = v.shape ∧ v'.fields = v.fields ∧ v'.units = v.units ∧
      (∀ p, p ∉ ps → v'.cells[p]? = v.cells[p]?) ∧
      (ps.Nodup → ∀ (k p : Nat), ps[k]? = some p → ∃ r, xs[k]? = some (.ref r) ∧ v'.cells[p]? = some (some r)) := by
  have hvok := hI.vecs v (getVec_mem hv)
  unfold opSetItem at h
  simp only [hv] at h
  rw [if_neg (by omega)] at h
  unfold setItemCore at h
  simp only [hf, if_true] at h
  split at h
  · simp at h
  · rename_i ls hls
    split at h
    · simp at h
    · rename_i ps hps
      split at h
      · simp at h
      · rename_i hlen
        have hlen' : xs.length = ps.length := by simpa using hlen
        unfold finish at h
        simp only [Prod.mk.injEq] at h
        obtain ⟨h1, h2⟩ := h
        have hok : (setCells s.heap v.fields.length v.cells ps xs).2 = none := by
          cases hr : (setCells s.heap v.fields.length v.cells ps xs).2 with
          | none => rfl
          | some e => rw [hr] at h2; simp at h2
        have hlt : ∀ p ∈ ps, p < v.cells.length := by
          intro p hp; rw [hvok.ncells]; exact positions_lt _ _ _ hps p hp
        obtain ⟨i1, i2⟩ := setCells_spec_values s.heap v.fields.length ps xs v.cells hok hlen' hlt
        subst h1
        refine ⟨ls, ps, _, hls, hps, hlen', rfl, rfl, rfl, rfl, rfl, rfl, i1, ?_⟩
        intro hnd k p hk
        obtain ⟨x, r, e1, e2, e3⟩ := i2 hnd k p hk
        exact ⟨r, by rw [e1, checkVal_ref e2], e3⟩

/-- **field arithmetic acts on exactly the vector's cells**: after `v[f] op= c` on a vector
without aliased cells, the array of every populated cell is `mapCol j f` of what it was (and by
`frame_fieldOp` every array that is not a cell of `v` is untouched). -/
theorem fieldOp_values {s : State} (hI : Inv s) {vid : Nat} {v : Vec} {name : String} {j : Nat} (f : Rat → Rat)
    (hv : s.getVec vid = .ok v) (hj : fieldIndex v name = .ok j) (hnd : (refsOf v.cells).Nodup) :
    ∀ r, some r ∈ v.cells → (opFieldOp s vid name f).1.heap[r]? = (s.heap[r]?).map (·.mapCol j f) := by
  intro r hr
  rw [fieldOp_state s hI.wf vid name f v j hv hj]
  exact applyOp_get j f v.cells s.heap hnd r hr

/-- **column-wise**: `mapCol j f` rewrites column `j` as `f` of its entries (cast to the array's
dtype: an int64 array truncates toward zero) and leaves every other column, the shape and the
dtype exactly as they were. -/
theorem fieldOp_columnwise {s : State} (hI : Inv s) {vid : Nat} {v : Vec} {name : String} {j : Nat} (f : Rat → Rat)
    (hv : s.getVec vid = .ok v) (hj : fieldIndex v name = .ok j) (hnd : (refsOf v.cells).Nodup)
    {r : Ref} {a : Arr} (hr : some r ∈ v.cells) (ha : s.heap[r]? = some a) :
    ∃ a', (opFieldOp s vid name f).1.heap[r]? = some a' ∧
      a'.col j = (a.col j).map (fun x => castTo a.isInt (f x)) ∧
      (∀ j', j' ≠ j → a'.col j' = a.col j') ∧
      a'.nrows = a.nrows ∧ a'.ncols = a.ncols ∧ a'.isInt = a.isInt := by
  have hvok := hI.vecs v (getVec_mem hv)
  obtain ⟨a0, ha0, hn⟩ := hvok.cells _ hr r rfl
  rw [ha] at ha0
  have e : a0 = a := by cases ha0; rfl
  subst e
  have hjlt : j < a0.ncols := by
    rw [hn]
    unfold fieldIndex at hj
    split at hj
    · rename_i hc; cases hj; exact List.idxOf_lt_length_of_mem (by simpa using hc)
    · cases hj
  refine ⟨a0.mapCol j f, ?_, Arr.mapCol_col_same (hI.wf a0 (List.mem_of_getElem? ha)) hjlt f,
    fun j' h => Arr.mapCol_col_other a0 f h, by simp [Arr.mapCol, Arr.nrows], rfl, rfl⟩
  rw [fieldOp_values hI f hv hj hnd r hr, ha]; rfl

/-- **field arithmetic through a slice** `v[idx][f] op= c` touches exactly the addressed cells of
`v`: the view `w = v[idx]` holds the addressed cells themselves (`slice_spec`), the heap is not
changed by slicing, the arrays in `w` become `mapCol j f` of what they were and every other array
— in particular every cell of `v` that is not addressed (and not the same array as an addressed
one) — is untouched. -/
theorem fieldOp_on_slice {s s1 : State} (hI : Inv s) {vid wid : Nat} {idx : List Ix} {w : Vec} {name : String}
    {j : Nat} (f : Rat → Rat) (hg : opGetItem s vid idx = (s1, .newVec wid)) (hw : s1.getVec wid = .ok w)
    (hj : fieldIndex w name = .ok j) :
    (∀ r, some r ∉ w.cells → (opFieldOp s1 wid name f).1.heap[r]? = s.heap[r]?) ∧
    ((refsOf w.cells).Nodup → ∀ r, some r ∈ w.cells →
        (opFieldOp s1 wid name f).1.heap[r]? = (s.heap[r]?).map (·.mapCol j f)) ∧
    (opFieldOp s1 wid name f).1.vecs = s1.vecs := by
  obtain ⟨_, _, _, _, _, _, _, _, _, hheap, _⟩ := slice_spec hg
  have hI1 : Inv s1 := by
    have := inv_getItem hI vid idx
    rw [hg] at this; exact this
  refine ⟨?_, ?_, by rw [fieldOp_state s1 hI1.wf wid name f w j hw hj]⟩
  · intro r hr
    rw [← hheap]; exact (frame_fieldOp s1 wid name f w r hw hr).1
  · intro hnd r hr
    rw [← hheap]; exact fieldOp_values hI1 f hw hj hnd r hr

/-- **field arithmetic with an ndarray (or scalar) operand**, `v[f] op= ys`: on a vector without
aliased cells, if the loop runs to the end (every cell's row count broadcasts with the operand),
every populated cell's column `j` becomes `g` of its entries and the broadcast operand, cast to the
cell's dtype; every other column and every array outside `v` is unchanged (`Arr.setCol_col_other`,
`applyGen_frame`).  When a cell does not broadcast the loop stops there with ValueError and the
earlier cells stay updated — modelled, and compared with the code on every run. -/
theorem fieldOpGen_values {s : State} (hI : Inv s) {vid : Nat} {v : Vec} {name : String} {j : Nat}
    (g : Rat → Rat → Rat) (neg : Bool) (rhs : RhsR) (hs : rhs.isStatic = true)
    (hj : fieldIndex v name = .ok j) (hnd : (refsOf v.cells).Nodup)
    (hok : (applyGen j g neg rhs s.heap v.cells).2 = none) :
    (∀ r a, some r ∈ v.cells → s.heap[r]? = some a →
      ∃ ys, rhs.vals a.nrows = some ys ∧ ∃ a', (applyGen j g neg rhs s.heap v.cells).1[r]? = some a' ∧
        a' = a.setCol j (List.zipWith g (a.col j) ys) ∧ (∀ j', j' ≠ j → a'.col j' = a.col j')) ∧
    (∀ r, some r ∉ v.cells → (applyGen j g neg rhs s.heap v.cells).1[r]? = s.heap[r]?) := by
  constructor
  · intro r a hr ha
    obtain ⟨ys, h1, h2⟩ := applyGen_get j g neg rhs hs v.cells s.heap hnd hok r a hr ha
    exact ⟨ys, h1, _, h2, rfl, fun j' h => Arr.setCol_col_other a _ h⟩
  · intro r hr
    exact applyGen_frame j g neg rhs r v.cells s.heap hr

/-- **add_fields keeps the other columns' values**: on every reachable state `add_fields names`
(new, distinct names) succeeds; each populated cell gets a new array with the same rows, the old
columns unchanged and one zero column per new field (`AddedCols`); unset cells stay unset and no
array that existed before is modified. -/
theorem add_fields_values {s : State} (hI : Inv s) {vid : Nat} {v : Vec} {names : List String}
    (hv : s.getVec vid = .ok v) (hnew : ∀ n ∈ names, n ∉ v.fields) (hnd : names.Nodup) :
    ∃ (s1 : State) (v1 : Vec) (ext : List Arr), opAddFields s vid names = (s1, .none) ∧ s1.getVec vid = .ok v1 ∧
      s1.heap = s.heap ++ ext ∧ v1.shape = v.shape ∧ v1.fields = v.fields ++ names ∧
      v1.units = v.units ++ List.replicate names.length "none" ∧
      All2 (AddedCols names.length s.heap s1.heap) v.cells v1.cells := by
  obtain ⟨s1, v1, ext, h1, h2, h3, h4, h5, h6, rel⟩ := addFields_spec hI hv hnew hnd
  refine ⟨s1, v1, ext, h1, h2, h3, h4, h5, h6, ?_⟩
  rw [h3]
  refine All2.imp_mem ?_ rel
  intro c _ c1 hrel
  cases c with
  | none => exact hrel
  | some r =>
    obtain ⟨r1, a, e1, ha, ha1⟩ := hrel
    have hwf := hI.wf a (List.mem_of_getElem? ha)
    exact ⟨r1, a, _, e1, ha, ha1, by simp [Arr.addCols, Arr.nrows], rfl,
      fun j hj => Arr.addCols_col_old hwf _ hj, fun j h1 h2 => Arr.addCols_col_new hwf _ h1 h2⟩

/-- **remove_fields keeps the other columns' values**: when at least one of the names is a field,
`remove_fields names` succeeds on every reachable state; the kept columns are exactly those whose
field name is not in `names` (`keep_mem_iff`), fields and units are the kept ones in order, and each
populated cell gets a new array of the same dtype whose i-th column is the old column `keep[i]`. -/
theorem remove_fields_values {s : State} (hI : Inv s) {vid : Nat} {v : Vec} {names : List String}
    (hv : s.getVec vid = .ok v) (hsome : ∃ n ∈ names, n ∈ v.fields) :
    ∃ (s2 : State) (v2 : Vec) (keep : List Nat) (ext : List Arr),
      opRemoveFields s vid names = (s2, .none) ∧ s2.getVec vid = .ok v2 ∧ s2.heap = s.heap ++ ext ∧
      (∀ i, i ∈ keep ↔ ∃ h : i < v.fields.length, v.fields[i] ∉ names) ∧
      v2.shape = v.shape ∧ v2.fields = keep.map (v.fields.getD · "") ∧ v2.units = keep.map (v.units.getD · "") ∧
      All2 (KeptCols keep s.heap s2.heap) v.cells v2.cells := by
  have hvok := hI.vecs v (getVec_mem hv)
  have hne : ((names.filter (v.fields.contains ·)).map (v.fields.idxOf ·)).isEmpty = false := by
    obtain ⟨n, hn, hf⟩ := hsome
    have : n ∈ names.filter (v.fields.contains ·) := by simp [hn, hf]
    cases hl : names.filter (v.fields.contains ·) with
    | nil => rw [hl] at this; cases this
    | cons _ _ => simp
  obtain ⟨s2, v2, ext, h1, h2, h3, h4, h5, h6, rel⟩ := removeFields_spec hI hv _ _ rfl rfl hne
  refine ⟨s2, v2, _, ext, h1, h2, h3, fun i => keep_mem_iff v.fields names hvok.nodup i, h4, h5, h6, ?_⟩
  rw [h3]
  refine All2.imp_mem ?_ rel
  intro c _ c2 hrel
  cases c with
  | none => exact hrel
  | some r =>
    obtain ⟨r2, a, e1, ha, ha2⟩ := hrel
    exact ⟨r2, a, _, e1, ha, ha2, by simp [Arr.keepCols, Arr.nrows], rfl, rfl,
      fun i hi => Arr.keepCols_col a _ hi⟩

/-! ## 7. The property setters (outside the quantified operation list)

The statement quantifies over creation, assignment / retrieval, field arithmetic, flatten /
set_flattened, add / remove fields, copy and slicing.  Assigning to `v.fields`, `v.units`, `v.shape`
is not in that list; the model keeps them outside `Op`.  What they would do to the invariant: -/

/-- the `units` setter validates the length against the number of fields: harmless -/
theorem units_setter_preserves_invariant {s : State} (hI : Inv s) (vid : Nat) (us : Option (List String)) :
    Inv (opSetUnitsAttr s vid us).1 := by
  unfold opSetUnitsAttr
  split
  · exact hI
  · rename_i v hv
    have hvok := hI.vecs v (getVec_mem hv)
    split
    · exact hI
    · rename_i us' hus
      exact hI.putVec (heap' := s.heap) vid hI.wf (HeapExt.refl _)
        ⟨hvok.nodup, validateUnits_ok hus, hvok.ncells, hvok.cells, hvok.mref, hvok.pos⟩

/-- the `fields` setter is harmless as a pure RENAME (same number of unique names) … -/
theorem fields_setter_rename_preserves_invariant {s : State} (hI : Inv s) (vid : Nat) {v : Vec} (fs : List String)
    (hv : s.getVec vid = .ok v) (hlen : fs.length = v.fields.length) : Inv (opSetFieldsAttr s vid fs).1 := by
  have hvok := hI.vecs v (getVec_mem hv)
  unfold opSetFieldsAttr
  simp only [hv]
  split
  · exact hI
  · rename_i fs' hfs
    obtain ⟨e, hnd⟩ := validateFields_ok hfs
    subst e
    exact hI.putVec (heap' := s.heap) vid hI.wf (HeapExt.refl _)
      ⟨hnd, by rw [hvok.units, hlen], hvok.ncells, by simpa [hlen] using hvok.cells, hvok.mref, hvok.pos⟩

/-- … but it never compares the number of names with the columns of the cell arrays: on a
reachable state `v.fields = ["a"]` is accepted for a vector whose cells have two columns, and the
invariant (one column per field) is gone.  This is a property of the setter, which is not one of
the operations the statement lists; reported, not repaired. -/
theorem fields_setter_counterexample :
    ∃ (ops : List Op) (fs : List String), (opSetFieldsAttr (run init ops) 0 fs).2 = .none ∧
      ¬ Inv (opSetFieldsAttr (run init ops) 0 fs).1 := by
  refine ⟨[.alloc 2 [[1, 2]] false, .fromShape [1] none (some ["x", "y"]) none, .setItem 0 [.int 0] (.one (.ref 0))],
    ["a"], rfl, ?_⟩
  intro h
  have hv := h.vecs (Vec.mk [1] [some 0] ["a"] ["none", "none"] 0) (by
    show _ ∈ (opSetFieldsAttr _ 0 ["a"]).1.vecs
    exact List.mem_of_getElem? (i := 0) rfl)
  have := hv.units
  simp at this

/-- likewise the `shape` setter only checks positivity and leaves the cells alone -/
theorem shape_setter_counterexample :
    ∃ (ops : List Op) (sh : List Int), (opSetShapeAttr (run init ops) 0 sh).2 = .none ∧
      ¬ Inv (opSetShapeAttr (run init ops) 0 sh).1 := by
  refine ⟨[.fromShape [2] (some 1) none none], [5], rfl, ?_⟩
  intro h
  have hv := h.vecs (Vec.mk [5] [none, none] ["field_0"] ["none"] 0) (by
    show _ ∈ (opSetShapeAttr _ 0 [5]).1.vecs
    exact List.mem_of_getElem? (i := 0) rfl)
  have := hv.ncells
  simp [prod] at this

/-! ## 8. Objects the caller keeps across later operations (growth round 5)

A flattened field handed out earlier, and a `_FieldView` made earlier, used again after ANY further
history — including operations that raise part-way. -/

/-- **shapes and dtype kinds are stable**: no operation, successful or raising, changes the number of
rows, the number of columns or the dtype kind of an array that already exists, and no array ever
disappears (arrays are written in place or newly allocated) -/
theorem shapes_stable_step {s : State} (hI : Inv s) (op : Op) :
    ∀ (r : Ref) (a : Arr), s.heap[r]? = some a → ∃ a' : Arr, (step s op).1.heap[r]? = some a' ∧
      a'.ncols = a.ncols ∧ a'.nrows = a.nrows ∧ a'.isInt = a.isInt := heapExt_step hI op

theorem shapes_stable_all_histories {s : State} (hI : Inv s) (ops : List Op) :
    ∀ (r : Ref) (a : Arr), s.heap[r]? = some a → ∃ a' : Arr, (run s ops).heap[r]? = some a' ∧
      a'.ncols = a.ncols ∧ a'.nrows = a.nrows ∧ a'.isInt = a.isInt := heapExt_run hI ops

/-- **writing a flattened field back restores the data, after any history**: take `xs = v[f].flatten()`
on a reachable state, run ANY operation list (field arithmetic, `set_flattened`, assignments to other
vectors, copies, failing calls, …) that leaves the vector's own cell bindings and schema as they were
(`hv'`: only array CONTENTS may have changed), then `v[f].set_flattened(xs)` succeeds and the field
reads `xs` again — exactly, for int64 and float64 cells alike (no cast can bite: the values came out
of cells of the same dtype kinds).  Needs no aliasing inside `v` (`hnd`), as `flatten_after_setFlattened`. -/
theorem restore_after_history {s : State} (hI : Inv s) {vid : Nat} {v : Vec} {name : String} (ops : List Op)
    (hv : s.getVec vid = .ok v) (hn : name ∈ v.fields) (hnd : (refsOf v.cells).Nodup)
    (hv' : (run s ops).getVec vid = .ok v) :
    (opSetFlattened (run s ops) vid name (.oneD (flattenField s.heap v.cells (v.fields.idxOf name)))).2 = .none ∧
    flattenField (opSetFlattened (run s ops) vid name
        (.oneD (flattenField s.heap v.cells (v.fields.idxOf name)))).1.heap v.cells (v.fields.idxOf name) =
      flattenField s.heap v.cells (v.fields.idxOf name) := by
  have hvok := hI.vecs v (getVec_mem hv)
  have hI' := inv_run_from hI ops
  have hext := heapExt_run hI ops
  have hl := (flattenField_length_ext hext (v.fields.idxOf name) v.fields.length v.cells hvok.cells).symm
  obtain ⟨h1, h2, _⟩ := flatten_after_setFlattened hI' hv' hn hnd hl
  exact ⟨h1, by rw [h2]; exact castFlat_restore hext hI.wf _ _ v.cells hvok.cells⟩

/-- **the structural invariant with held objects**: histories in which the caller also keeps field
views and flattened arrays, uses the views later, changes the kept arrays in place and writes them
back, preserve the invariant of section 1 (and array shapes / dtype kinds) -/
theorem invariant_all_histories_held (ops : List VOp) : Inv (vrun vinit ops).s :=
  (vrun_ok (st := vinit) inv_init ops).1

/-- **a held field view follows its field NAME**: made at any time, used after any further history
(`remove_fields` of earlier fields, `add_fields`, assignments, failing calls …), its `flatten()` is the
column that the name has NOW in the vector's field list — the row-major concatenation over the cells
the vector has now. -/
theorem held_view_reads_named_column {st : VState} (ops : List VOp) {k : Nat} {fv : FView} {v : Vec}
    (hk : st.views[k]? = some fv)
    (hv : (vrun st ops).s.getVec fv.vid = .ok v) (hn : fv.name ∈ v.fields) :
    ∃ t, (vstep (vrun st ops) (.viewFlatten k)).2 =
      .res (.np (.arr1 (flattenField (vrun st ops).s.heap v.cells (v.fields.idxOf fv.name)) t)) := by
  have hk' := vrun_views ops hk
  have hj : fieldIndex v fv.name = .ok (v.fields.idxOf fv.name) := by simp [fieldIndex, hn]
  refine ⟨flattenIsInt (vrun st ops).s.heap v.cells, ?_⟩
  simp [vstep, hk', viewFlat, hv, hj]

/-- **a kept flattened array belongs to the caller**: no operation on any vector or view changes it
(only the caller's own in-place edit of that very array does), and the caller's edit changes nothing
in the vectors. -/
theorem kept_independent {st : VState} (op : VOp) {i : Nat} (hi : i < st.kept.length) :
    ((∀ f, op ≠ .keptMap i f) → (vstep st op).1.kept[i]? = st.kept[i]?) ∧
    (∀ f, (vstep st (.keptMap i f)).1.s = st.s) := by
  refine ⟨vstep_kept op hi, ?_⟩
  intro f
  simp only [vstep]
  split <;> rfl

/-- **kept, changed elsewhere, restored**: `F = fv.flatten()`; any later history with held objects that
does not re-bind the vector's cells or change its schema and in which the caller does not edit `F`;
then `fv.set_flattened(F)` succeeds and the view reads `F` again. -/
theorem kept_restore {st : VState} (hI : Inv st.s) {k : Nat} {fv : FView} {v : Vec} (ops : List VOp)
    (hk : st.views[k]? = some fv) (hv : st.s.getVec fv.vid = .ok v) (hn : fv.name ∈ v.fields)
    (hnd : (refsOf v.cells).Nodup)
    (hops : ∀ op ∈ ops, ∀ f, op ≠ .keptMap st.kept.length f)
    (hv' : (vrun (vstep st (.viewFlatten k)).1 ops).s.getVec fv.vid = .ok v) :
    let st1 := vrun (vstep st (.viewFlatten k)).1 ops
    let xs := flattenField st.s.heap v.cells (v.fields.idxOf fv.name)
    (vstep st1 (.viewRestore k st.kept.length)).2 = .res .none ∧
    flattenField (vstep st1 (.viewRestore k st.kept.length)).1.s.heap v.cells (v.fields.idxOf fv.name) = xs := by
  intro st1 xs
  have hvok := hI.vecs v (getVec_mem hv)
  have hj : fieldIndex v fv.name = .ok (v.fields.idxOf fv.name) := by simp [fieldIndex, hn]
  -- the state right after `F = fv.flatten()`
  have e0 : (vstep st (.viewFlatten k)).1 =
      { st with kept := st.kept ++ [(xs, flattenIsInt st.s.heap v.cells)] } := by
    simp [vstep, hk, viewFlat, hv, hj, xs]
  have hs0 : (vstep st (.viewFlatten k)).1.s = st.s := by rw [e0]
  have hkept0 : (vstep st (.viewFlatten k)).1.kept[st.kept.length]? = some (xs, flattenIsInt st.s.heap v.cells) := by
    rw [e0]; simp
  have hlen0 : st.kept.length < (vstep st (.viewFlatten k)).1.kept.length := by rw [e0]; simp
  have hviews0 : (vstep st (.viewFlatten k)).1.views[k]? = some fv := vstep_views _ hk
  have hok := vrun_ok (st := (vstep st (.viewFlatten k)).1) (by rw [hs0]; exact hI) ops
  have hext : HeapExt st.s.heap st1.s.heap := by have := hok.2; rw [hs0] at this; exact this
  have hkept1 : st1.kept[st.kept.length]? = some (xs, flattenIsInt st.s.heap v.cells) := by
    rw [← hkept0]; exact vrun_kept ops hlen0 hops
  have hviews1 : st1.views[k]? = some fv := vrun_views ops hviews0
  have hl := (flattenField_length_ext hext (v.fields.idxOf fv.name) v.fields.length v.cells hvok.cells).symm
  have hvst1 : st1.s.getVec fv.vid = .ok v := hv'
  have hset : viewSetFlat st1.s fv (.oneD xs) = opSetFlattened st1.s fv.vid fv.name (.oneD xs) := by
    simp [viewSetFlat, opSetFlattened, hvst1, hj]
  obtain ⟨h1, h2, _⟩ := flatten_after_setFlattened hok.1 hvst1 hn hnd hl
  have hres : vstep st1 (.viewRestore k st.kept.length) =
      ({ st1 with s := (opSetFlattened st1.s fv.vid fv.name (.oneD xs)).1 },
        .res (opSetFlattened st1.s fv.vid fv.name (.oneD xs)).2) := by
    simp only [vstep, hviews1, hkept1, hset]
  rw [hres]
  refine ⟨congrArg VRes.res h1, ?_⟩
  show flattenField (opSetFlattened st1.s fv.vid fv.name (.oneD xs)).1.heap v.cells _ = xs
  rw [h2]
  exact castFlat_restore hext hI.wf _ _ v.cells hvok.cells

/-- the code BEFORE the repair captured the column index when the view was made: the literal
history `v = from_data([[1, 2, 3]], fields = x y z); fv = v["y"]; v.remove_fields("x")` makes the old
view read `z`'s column (3) where the field it names holds 2.  (Replayed on the real class by the
harness: the `held-view-flatten` predicate; repaired in /repo by fbb3a1b.) -/
theorem stale_view_counterexample :
    staleFlat (run init [.alloc 3 [[1, 2, 3]] false, .fromData [.val (.ref 0)] none (some ["x", "y", "z"]) none,
      .removeFields 0 ["x"]]) ⟨0, "y", 1⟩ = [3] ∧
    viewFlat (run init [.alloc 3 [[1, 2, 3]] false, .fromData [.val (.ref 0)] none (some ["x", "y", "z"]) none,
      .removeFields 0 ["x"]]) ⟨0, "y"⟩ = .ok ([2], false) := ⟨rfl, rfl⟩

/-! ## Non-vacuity -/

/-- the invariant is not vacuous: a world with an aliased array and a 3-D vector satisfies it
(it is reached by a history) and violating states exist (a cell with the wrong column count). -/
example : ¬ Inv (State.mk [Arr.mk 1 [[0]] false] [Vec.mk [1] [some 0] ["x", "y"] ["a", "b"] 0] [[]]) := by
  intro h
  obtain ⟨a, ha, hn⟩ := (h.vecs _ List.mem_cons_self).cells (some 0) List.mem_cons_self 0 rfl
  simp at ha; subst ha; simp at hn

/-- the hypotheses of `flatten_after_setFlattened`, `copy_fresh`, `copy_independent`,
`add_remove_fields` are satisfiable: a reachable state with a populated vector whose cells do not
alias, a field name it has and new names it does not have. -/
def demoOps : List Op :=
  [.alloc 2 [[1, 2], [3, 4]] false, .fromShape [2] none (some ["x", "y"]) none, .setItem 0 [.int 0] (.one (.ref 0))]
example : Inv (run init demoOps) := invariant_all_histories _
example : (run init demoOps).getVec 0 = .ok (Vec.mk [2] [some 0, none] ["x", "y"] ["none", "none"] 0) := rfl
example : (refsOf [some 0, none]).Nodup := by decide
example : "x" ∈ ["x", "y"] ∧ (∀ n ∈ ["z", "w"], n ∉ ["x", "y"]) ∧ ["z", "w"].Nodup ∧ ["z", "w"] ≠ [] := by decide

/-- `assign_spec`: a slice assignment with a value list succeeds on the reachable demo state (the
same array into both cells), its index is "fancy", and the addressed positions are distinct -/
example : (opSetItem (run init demoOps) 0 [.slice none none none] (.many [.ref 0, .ref 0])).2 = .none := rfl
example : (padIdx 1 [Ix.slice none none none]).any Ix.isFancy = true := rfl
example : positions [2] [[0, 1]] = .ok [0, 1] ∧ [0, 1].Nodup := ⟨rfl, by decide⟩

/-- `fieldOp_values` / `fieldOp_columnwise` / `fieldOpGen_values`: the demo vector has the field,
no aliased cells, and an ndarray operand of matching length broadcasts (the loop ends without error);
a mismatching one stops with ValueError -/
example : fieldIndex (Vec.mk [2] [some 0, none] ["x", "y"] ["none", "none"] 0) "y" = .ok 1 := rfl
example : (applyGen 1 (· + ·) false (.array [10, 20]) (run init demoOps).heap [some 0, none]).2 = none := rfl
example : (applyGen 1 (· + ·) false (.array [10, 20, 30]) (run init demoOps).heap [some 0, none]).2 = some .valueError := rfl
example : (RhsR.array [10, 20]).isStatic = true := rfl

/-- dtype kinds: assignment into an int64 array truncates toward zero; an int64 cell raises on a
negative Python-int power -/
example : truncQ (Rat.mk' (-5) 2 (by decide) (by decide)) = ((-2 : Int) : Rat) := rfl   -- trunc(-5/2) = -2
example : truncQ (Rat.mk' 7 2 (by decide) (by decide)) = ((3 : Int) : Rat) := rfl      -- trunc(7/2) = 3
example : (applyGen 0 (fun x _ => x) true (.scalar (-1)) [Arr.mk 1 [[2]] true] [some 0]).2 = some .valueError := rfl

/-- over-long index tuples and zero fixed dimensions are modelled, not rejected: `v[0, 1]` on a 1-D
vector returns row 1 of the cell array; `v[0, 1, 0]` its first entry; on a vector with shape `()`
the single cell can be read (unset) but never assigned -/
example : (opGetItem (run init demoOps) 0 [.int 0, .int 1]).2 = .np (.arr1 [3, 4] false) := rfl
example : (opGetItem (run init demoOps) 0 [.int 0, .int 1, .int 0]).2 = .np (.scalar 3 false) := rfl
example : (opGetItem (opFromShape init [] (some 1) none none).1 0 []).2 = .cell none := rfl
example : (opSetItem (run init [.alloc 1 [[5]] false, .fromShape [] (some 1) none none]) 1 [] (.one (.ref 0))).2
    = .err .badHandle := rfl
example : (opSetItem (run init [.alloc 1 [[5]] false, .fromShape [] (some 1) none none]) 0 [] (.one (.ref 0))).2
    = .err .indexError := rfl

/-- `add_fields_values` / `remove_fields_values`: hypotheses satisfiable on the demo vector -/
example : ∃ n ∈ ["y", "zz"], n ∈ ["x", "y"] := ⟨"y", by decide, by decide⟩

/-- `restore_after_history`: the hypotheses are satisfiable with a history that really changes the field
(and with one that raises): the vector's entry is unchanged, the column is not -/
example : (run (run init demoOps) [.fieldOp 0 "x" (fun _ => 7), .addFields 0 ["x"]]).getVec 0
    = .ok (Vec.mk [2] [some 0, none] ["x", "y"] ["none", "none"] 0) := rfl
example : flattenField (run (run init demoOps) [.fieldOp 0 "x" (fun _ => 7)]).heap [some 0, none] 0 = [7, 7] ∧
    flattenField (run init demoOps).heap [some 0, none] 0 = [1, 3] := ⟨rfl, rfl⟩

/-- `held_view_reads_named_column` / `kept_restore` / `kept_independent`: a history with a held view of
"y", a kept flatten, a later `remove_fields("x")` (the column of "y" moves from 1 to 0) and a later edit -/
def demoVOps : List VOp :=
  demoOps.map .base ++ [.mkView 0 "y", .viewFlatten 0, .base (.removeFields 0 ["x"])]
example : (vrun vinit demoVOps).views[0]? = some ⟨0, "y"⟩ := rfl
example : (vrun vinit demoVOps).kept = [([2, 4], false)] := rfl
example : (vrun vinit demoVOps).s.getVec 0 = .ok (Vec.mk [2] [some 1, none] ["y"] ["none"] 0) := rfl
example : (vstep (vrun vinit demoVOps) (.viewFlatten 0)).2 = .res (.np (.arr1 [2, 4] false)) := rfl
example : ∀ op ∈ [VOp.viewOp 0 (· + ·) false (.scalar 5)], ∀ f, op ≠ .keptMap 0 f := by
  intro op hop f; simp at hop; subst hop; intro h; cases h
/-- a view whose field is gone raises KeyError only if a populated cell is visited -/
example : (vstep (vrun vinit (demoVOps ++ [.base (.removeFields 0 ["y"])])) (.viewFlatten 0)).2 = .res (.err .keyError) := rfl

/-- `Addr` instances exist for 1, 2 and 3 fixed dimensions, with slices expanded to index lists,
negative indices wrapping, and repeated list entries. -/
example : Addr [4] [[3, 1]] [1] [1] := .cons 1 rfl rfl .nil
example : Addr [2, 3] [[1], [0, 2]] [0, 1] [1, 2] := .cons 1 rfl rfl (.cons 2 rfl rfl .nil)
example : Addr [2, 3, 2] [[1, 1], [2, 0], [-1]] [1, 0, 0] [1, 2, 1] :=
  .cons 1 rfl rfl (.cons 2 rfl rfl (.cons (-1) rfl rfl .nil))

/-- and `positions` really produces those offsets: 3-D `v[[1,1], [2,0], -1]` on shape (2,3,2) -/
example : positions [2, 3, 2] [[1, 1], [2, 0], [-1]] = .ok [11, 7, 11, 7] := rfl

/-- 1-D slicing `v[::2]` on a vector of 5 cells addresses cells 0, 2, 4 -/
example : (Ix.slice none none (some 2)).resolve false 5 = .ok [0, 2, 4] := rfl
example : positions [5] [[0, 2, 4]] = .ok [0, 2, 4] := rfl

end QuantemModel.Props.C11
