import QuantemModel.Lemmas.Checkpoint
import QuantemModel.Lemmas.CheckpointSer
import QuantemModel.Lemmas.CheckpointSession
import Mathlib.Logic.Function.Iterate
/-!
C05 — checkpoint / resume equivalence, for the protocol-level model of
`Ptychography.save / from_file / clone / reconstruct` (Model/Checkpoint.lean).
Only property theorems and non-vacuity examples live here.

What these theorems do NOT say: that `torch.save`/`torch.load` reproduce a module (hypothesis
`Pickle.dec_enc`), nor anything about floating point — both are measured by harness/props/c05.py.
-/
namespace QuantemModel.Props.C05
open QuantemModel.Checkpoint
open QuantemModel.Serialize (Val canon stripA stripAttrs canonKvs nsVal reorder)

/-! ### 1. resume equivalence from a round-trip hypothesis (any state machine) -/

/-- `fromFile ∘ save` gives the saved state back, on the states satisfying `Inv` -/
def RoundTrips {α β : Type} (Inv : α → Prop) (save : α → β) (fromFile : β → Option α) : Prop :=
  ∀ r, Inv r → fromFile (save r) = some r

/-- **resume equivalence**: interrupt after `k` of `n` iterations, save, reload, continue —
the result is the uninterrupted run, for every split point and every iteration function that
keeps the invariant the round trip needs -/
theorem resume_eq {α β : Type} (iter : α → α) (save : α → β) (fromFile : β → Option α) (Inv : α → Prop)
    (hrt : RoundTrips Inv save fromFile) (hinv : ∀ r, Inv r → Inv (iter r))
    (r : α) (h0 : Inv r) (k n : Nat) (hk : k ≤ n) :
    (fromFile (save (iter^[k] r))).map (iter^[n - k]) = some (iter^[n] r) := by
  have hk' : Inv (iter^[k] r) := by
    clear hk
    induction k with
    | zero => exact h0
    | succ k ih => rw [Function.iterate_succ_apply']; exact hinv _ ih
  rw [hrt _ hk', Option.map_some, ← Function.iterate_add_apply, Nat.sub_add_cancel hk]

/-! ### 2. re-binding of optimizer state -/

/-- **`reconnect_optimizer_to_parameters` keeps every parameter's moments** (current code): the
optimizer's parameters are the model's current parameters, state keys are distinct parameters
— then the optimizer comes back unchanged, *whichever parameters have state* -/
theorem reconnect_preserves {μ : Type} (cur : List PId) (o : Optim μ) (hp : o.params = cur) (hne : cur ≠ [])
    (hnd : (o.state.map (·.1)).Nodup) (hin : ∀ k ∈ o.state.map (·.1), k ∈ cur) :
    reconnect cur o = some o :=
  reconnect_of_wf cur o ⟨hp, hne, hnd, hin⟩

/-- in particular every parameter looks up the moments it had -/
theorem reconnect_preserves_lookup {μ : Type} (cur : List PId) (o : Optim μ) (hp : o.params = cur) (hne : cur ≠ [])
    (hnd : (o.state.map (·.1)).Nodup) (hin : ∀ k ∈ o.state.map (·.1), k ∈ cur) :
    ∃ o', reconnect cur o = some o' ∧ ∀ p, lookup p o'.state = lookup p o.state :=
  ⟨o, reconnect_preserves cur o hp hne hnd hin, fun _ => rfl⟩

/-- **device moves that create new parameter tensors** (the other branch of the repaired code):
none of the tensors carrying state survives, old and new parameter lists correspond position by
position — then the parameter at each position looks up exactly the moments of the old
parameter at that position, *whichever parameters have state* -/
theorem reconnect_moved {μ : Type} (cur : List PId) (o : Optim μ) (hlen : cur.length = o.params.length) (hne : cur ≠ [])
    (hndo : o.params.Nodup) (hndc : cur.Nodup) (hnd : (o.state.map (·.1)).Nodup)
    (hin : ∀ k ∈ o.state.map (·.1), k ∈ o.params ∧ k ∉ cur) :
    ∃ o', reconnect cur o = some o' ∧ o'.params = cur ∧
      ∀ a b, (a, b) ∈ o.params.zip cur → lookup b o'.state = lookup a o.state := by
  have he : cur.isEmpty = false := by cases cur <;> simp_all
  refine ⟨_, by simp only [reconnect, he]; rfl, rfl, ?_⟩
  intro a b hab
  have h := rekey_moved cur o.params (by omega) hndo hndc o.state [] hnd hin a b hab
  simp only at h ⊢
  rw [h]
  cases lookup a o.state <;> simp [lookup]

/-- non-vacuity of `reconnect_moved`: parameters [0,1] replaced by new tensors [5,6], only
parameter 1 has state -/
example : ∃ o', reconnect [5, 6] ({ params := [0, 1], state := [(1, 7)], lr := 0, hyper := 0 } : Optim Nat) = some o' ∧
    lookup 6 o'.state = some 7 ∧ lookup 5 o'.state = none := ⟨_, rfl, by decide, by decide⟩

/-- the positional re-keying of the code before the repair keeps the moments **if** the state
keys are the leading parameters in parameter order (in particular if every parameter has
state) -/
theorem reconnectPositional_preserves {μ : Type} (cur : List PId) (o : Optim μ) (hp : o.params = cur) (hne : cur ≠ [])
    (hpre : ∃ rest, cur = o.state.map (·.1) ++ rest) : reconnectPositional cur o = some o := by
  obtain ⟨rest, hr⟩ := hpre
  have he : cur.isEmpty = false := by cases cur <;> simp_all
  simp only [reconnectPositional, he]
  have hz : cur.zip (o.state.map (·.2)) = o.state := by rw [hr]; exact zip_map_prefix o.state rest
  rw [hz]
  cases o
  simp_all

/-- … and **not** otherwise: parameter 0 never received a gradient (no state entry), parameter
1 has moments `7`; positional re-keying hands them to parameter 0 and leaves parameter 1
without state, while the repaired code keeps the optimizer as it is -/
theorem reconnectPositional_counterexample :
    let o : Optim Nat := { params := [0, 1], state := [(1, 7)], lr := 0, hyper := 0 }
    (∃ o', reconnectPositional [0, 1] o = some o' ∧ lookup 0 o'.state = some 7 ∧ lookup 1 o'.state = none) ∧
      lookup 0 o.state = none ∧ lookup 1 o.state = some 7 ∧ reconnect [0, 1] o = some o := by
  refine ⟨⟨_, rfl, by decide, by decide⟩, by decide, by decide, by decide⟩

/-! ### 3. LR bookkeeping -/

/-- **`_record_iter` invariant**: after any sequence of iterations — with optimizers added,
removed or changed between them — and resets, every LR history is as long as the iteration
count -/
theorem record_iter_inv (evs : List BookEv) (b : Book)
    (h : ∀ kl ∈ b.iterLrs, kl.2.length = b.numIters) :
    ∀ kl ∈ (b.run evs).iterLrs, kl.2.length = (b.run evs).numIters := by
  induction evs generalizing b with
  | nil => exact h
  | cons e rest ih =>
      simp only [Book.run, List.foldl_cons]
      apply ih
      cases e with
      | record opts loss => exact recordIter_inv opts loss b h
      | reset => intro kl hkl; simp [Book.apply, Book.empty] at hkl

theorem record_iter_inv_from_empty (evs : List BookEv) :
    ∀ kl ∈ (Book.empty.run evs).iterLrs, kl.2.length = (Book.empty.run evs).numIters :=
  record_iter_inv evs Book.empty (by intro kl h; simp [Book.empty] at h)

/-- the value a key contributes in one iteration: its optimizer's lr, `0.0` (bits 0) if it has none -/
def lrAt (k : String) (e : List (String × Nat) × Nat) : Nat := (lookup k e.1).getD 0

theorem record_iter_spec_from (k : String) : ∀ (recs : List (List (String × Nat) × Nat)) (b : Book),
    lookup k (b.run (recs.map (fun e => .record e.1 e.2))).iterLrs =
      match lookup k b.iterLrs with
      | some l => some (l ++ recs.map (lrAt k))
      | none => if recs.any (fun e => hasKey k e.1) then
                  some (List.replicate b.iterLosses.length 0 ++ recs.map (lrAt k)) else none
  | [], b => by cases h : lookup k b.iterLrs <;> simp [Book.run, h]
  | e :: rest, b => by
      simp only [List.map_cons, Book.run, List.foldl_cons, Book.apply]
      have ih := record_iter_spec_from k rest (recordIter e.1 e.2 b)
      simp only [Book.run] at ih
      rw [ih, lookup_recordIter]
      cases hl : lookup k b.iterLrs with
      | some l => simp [lrAt]
      | none =>
          cases he : lookup k e.1 with
          | some lr =>
              have hk : hasKey k e.1 = true := by
                rw [← lookup_isSome_iff_hasKey, he]; rfl
              simp [lrAt, he, hk]
          | none =>
              have hk : hasKey k e.1 = false := by
                rw [← lookup_isSome_iff_hasKey, he]; rfl
              have hany : (e :: rest).any (fun e => hasKey k e.1) = rest.any (fun e => hasKey k e.1) := by
                simp [List.any_cons, hk]
              simp only [hany]
              simp [lrAt, he, recordIter, List.replicate_succ', List.append_assoc]

/-- **`_record_iter` specification**: starting from a fresh reconstruction, the history of a
key that ever had an optimizer is, iteration by iteration, that optimizer's lr and `0.0` where
it had none (zero back-fill before it appeared, `0.0` after it was removed); a key that never
had one is absent; the loss history is the list of recorded losses -/
theorem record_iter_spec (k : String) (recs : List (List (String × Nat) × Nat)) :
    lookup k (Book.empty.run (recs.map (fun e => .record e.1 e.2))).iterLrs =
      (if recs.any (fun e => hasKey k e.1) then some (recs.map (lrAt k)) else none) := by
  have h := record_iter_spec_from k recs Book.empty
  simpa [Book.empty, lookup] using h

/-! ### 4. the checkpoint instance -/

/-- whatever the re-binding does, the file holds the state as it is after `.to("cpu")`
(C01 round trip at the Ptychography attribute kinds + `Pickle.dec_enc`) -/
theorem fromFile_save {θ μ σ : Type} (rc : List PId → Optim μ → Option (Optim μ)) (pk : Pickle (ModelSt θ μ σ))
    (r : Recon θ μ σ) : fromFile pk (save rc pk r) = some (toDevice rc r) := by
  simp [fromFile, Checkpoint.save, load_save_toVal, ofVal_toVal]

/-- **the round-trip hypothesis holds for Ptychography checkpoints** on well-formed states -/
theorem roundTrips_checkpoint {θ μ σ : Type} (pk : Pickle (ModelSt θ μ σ)) :
    RoundTrips (Recon.wf (θ := θ) (μ := μ) (σ := σ)) (save reconnect pk) (fromFile pk) := by
  intro r h
  rw [fromFile_save, toDevice_of_wf r h]

/-- `clone()` (save / reload / `.to(device)`) returns the state itself -/
theorem clone_eq {θ μ σ : Type} (pk : Pickle (ModelSt θ μ σ)) (r : Recon θ μ σ) (h : r.wf) :
    clone reconnect pk r = some r := by
  simp [clone, fromFile_save, toDevice_of_wf r h]

/-- `save()` leaves the object it saves as it was (its two `.to()` calls are the identity) -/
theorem save_source_unchanged {θ μ σ : Type} (r : Recon θ μ σ) (h : r.wf) : saveSource reconnect r = r := by
  simp [saveSource, toDevice_of_wf r h]

/-- **C05 on the model, save / from_file**: for every step function (loss, gradient presence,
optimizer update, scheduler), every well-formed state and every split point `k ≤ n` -/
theorem resume_eq_checkpoint {θ γ μ σ : Type} (S : Step θ γ μ σ) (pk : Pickle (ModelSt θ μ σ)) (r : Recon θ μ σ)
    (h : r.wf) (k n : Nat) (hk : k ≤ n) :
    (fromFile pk (save reconnect pk ((iter S)^[k] r))).map ((iter S)^[n - k]) = some ((iter S)^[n] r) :=
  resume_eq (iter S) (save reconnect pk) (fromFile pk) Recon.wf (roundTrips_checkpoint pk) (iter_wf S) r h k n hk

/-- **C05 on the model, clone** -/
theorem resume_eq_clone {θ γ μ σ : Type} (S : Step θ γ μ σ) (pk : Pickle (ModelSt θ μ σ)) (r : Recon θ μ σ)
    (h : r.wf) (k n : Nat) (hk : k ≤ n) :
    (clone reconnect pk ((iter S)^[k] r)).map ((iter S)^[n - k]) = some ((iter S)^[n] r) :=
  resume_eq (iter S) id (clone reconnect pk) Recon.wf (fun r h => clone_eq pk r h) (iter_wf S) r h k n hk

/-- **the reloaded reconstruction reports what the saved one reports**: iteration count, loss
and LR histories, constraints and parameter values of every model -/
theorem reload_reports_same {θ μ σ : Type} (pk : Pickle (ModelSt θ μ σ)) (r : Recon θ μ σ) (h : r.wf) :
    ∃ r', fromFile pk (save reconnect pk r) = some r' ∧ r'.numIters = r.numIters ∧
      r'.book.iterLosses = r.book.iterLosses ∧ r'.book.iterLrs = r.book.iterLrs ∧ r'.view = r.view :=
  ⟨r, roundTrips_checkpoint pk r h, rfl, rfl, rfl, rfl⟩

/-- `save(save_raw_data=False)` writes exactly the attribute view without the dataset
(C14 `skip_names_at_save` at the skip list `["_dset", "dset"]`) -/
theorem save_noraw_projection {θ μ σ : Type} (pk : Pickle (ModelSt θ μ σ)) (r : Recon θ μ σ) :
    ∃ attrs, Serialize.load {} (saveNoRaw reconnect pk r) = .ok (.obj "Ptychography" attrs) ∧
      lookup "_dset" attrs = none ∧
      getModule pk attrs "_obj_model" = some (toDevice reconnect r).object ∧
      getModule pk attrs "_probe_model" = some (toDevice reconnect r).probe ∧
      lookup "_iter_losses" attrs = some (.list (floatList r.book.iterLosses)) ∧
      lookup "_iter_lrs" attrs = some (.dict (lrsDict r.book.iterLrs)) := by
  have h := Props.C14.skip_names_at_save ["_dset", "dset"] "Ptychography" _
    (by simpa [toVal] using wfA_toVal pk (toDevice reconnect r))
    (by simpa [toVal] using attrNested_toVal pk (toDevice reconnect r))
  have hload : Serialize.load {} (saveNoRaw reconnect pk r) = .ok (.obj "Ptychography" [
      ("_verbose", .scalar (.int (toDevice reconnect r).verbose)),
      ("_batch_size", .scalar (.int (toDevice reconnect r).batchSize)),
      ("_preprocessed", .scalar (.bool (toDevice reconnect r).preprocessed)),
      ("_device", .scalar (.str (toDevice reconnect r).device)),
      ("_rng", .npRng "PCG64"),
      ("_rng_torch", .torchRng),
      ("_iter_losses", .list (floatList (toDevice reconnect r).book.iterLosses)),
      ("_iter_lrs", .dict (lrsDict (toDevice reconnect r).book.iterLrs)),
      ("_probe_model", .torch .module "ProbePixelated" (pk.enc (toDevice reconnect r).probe)),
      ("_obj_model", .torch .module "ObjectPixelated" (pk.enc (toDevice reconnect r).object))]) := by
    simp only [saveNoRaw, skipNoRaw, toVal]
    rw [h]
    simp only [stripA, stripAttrs]
    simp only [List.contains_cons, List.contains_nil, String.reduceBEq, Bool.or_false, Bool.or_true, Bool.false_eq_true,
      if_false, if_true, Bool.or_self]
    rw [canon]
    simp only [canonKvs, nsVal, canon_floatList, canon_lrsDict]
    simp [canon, reorder]
  exact ⟨_, hload, by simp [lookup, getModule, pk.dec_enc, toDevice]⟩

/-! ### 5. the positional re-keying breaks resume equivalence (end-to-end witness) -/

/-- a step where the first dataset parameter never receives a gradient (e.g.
`descan_shifts_constant`), the second one does; SGD-with-momentum-like update -/
def cexStep : Step Int Int Int Unit where
  loss := fun _ => 0
  grad := fun _ key p => if key = "dataset" ∧ p = 1 then some 1 else none
  upd := fun _ _ m x g => (some (m.getD 0 + g), x - (m.getD 0 + g))
  sched := fun s _ lr => (s, lr)

def cexInit : Recon Int Int Unit where
  object := { params := [], opt := none, sched := none, cons := [] }
  probe := { params := [], opt := none, sched := none, cons := [] }
  dataset := { params := [(0, 0), (1, 0)], opt := some { params := [0, 1], state := [], lr := 1, hyper := 0 }, sched := none, cons := [] }
  book := Book.empty
  verbose := 0
  batchSize := 1
  preprocessed := true
  device := "cpu"

/-- with positional re-keying a run that is saved after one iteration and reloaded continues
differently from the uninterrupted one: the momentum of parameter 1 was handed to parameter 0,
parameter 1 restarts from zero momentum (value −2 instead of −3) — for every `Pickle` -/
theorem resume_positional_counterexample (pk : Pickle (ModelSt Int Int Unit)) :
    ((fromFile pk (save reconnectPositional pk (iter cexStep cexInit))).map (iter cexStep)).map (fun r => r.dataset.params)
      = some [(0, 0), (1, -2)] ∧
    (iter cexStep (iter cexStep cexInit)).dataset.params = [(0, 0), (1, -3)] := by
  rw [fromFile_save]
  simp only [Option.map_some]
  exact ⟨by decide, by decide⟩

/-! ### 6. call histories with rejected calls (exception safety) -/

/-- **resume equivalence over call histories**, for any state machine whose calls — a rejected call is a call that
leaves SOME state behind — keep the invariant the round trip needs: checkpoint after any prefix of the history,
continue with the remaining calls -/
theorem resume_eq_calls {α β C : Type} (exec : C → α → α) (save : α → β) (fromFile : β → Option α) (Inv : α → Prop)
    (hrt : RoundTrips Inv save fromFile) (hinv : ∀ c r, Inv r → Inv (exec c r))
    (r : α) (h0 : Inv r) (pre post : List C) :
    (fromFile (save (pre.foldl (fun r c => exec c r) r))).map (fun r => post.foldl (fun r c => exec c r) r)
      = some ((pre ++ post).foldl (fun r c => exec c r) r) := by
  have hpre : ∀ (cs : List C) (r : α), Inv r → Inv (cs.foldl (fun r c => exec c r) r) := by
    intro cs
    induction cs with
    | nil => intro r h; exact h
    | cons c cs ih => intro r h; exact ih _ (hinv c r h)
  rw [hrt _ (hpre pre r h0), Option.map_some, List.foldl_append]

/-- **`reset_recon` is exception safe** (the code after 556a796): whether or not rebuilding an optimizer is rejected,
and whatever the optimizers were bound to before, afterwards every optimizer is bound to the live parameters -/
theorem reset_recon_exception_safe {θ μ σ : Type} (mk : Nat → Nat → σ × Nat) (dflt : List (String × Nat)) (r : Recon θ μ σ)
    (h : r.nonempty) : (resetRecon mk dflt r).1.swf :=
  resetRecon_swf mk dflt r h

/-- **every `reconstruct` call keeps the checkpoint invariant — also a call that is rejected at any of its stages**
(batch size, reset with a stored configuration that is rejected, constraint key / category, optimizer key / type /
keyword, scheduler key / type, loss type), for every step function, scheduler constructor and argument list -/
theorem call_keeps_invariant {θ γ μ σ : Type} (S : Step θ γ μ σ) (mk : Nat → Nat → σ × Nat) (dflt : List (String × Nat))
    (c : Call) (r : Recon θ μ σ) (h : r.swf) : (exec S mk dflt c r).1.swf :=
  exec_swf S mk dflt c r h

/-- … hence every history of calls does -/
theorem history_keeps_invariant {θ γ μ σ : Type} (S : Step θ γ μ σ) (mk : Nat → Nat → σ × Nat) (dflt : List (String × Nat))
    (cs : List Call) (r : Recon θ μ σ) (h : r.swf) : (runCalls S mk dflt cs r).swf :=
  runCalls_swf S mk dflt cs r h

/-- **C05 over call histories, save / from_file**: interrupt a session after any prefix `pre` of its calls —
configuration calls, resets, staged optimizer changes, rejected calls — save, reload, carry on with `post` -/
theorem resume_eq_history_checkpoint {θ γ μ σ : Type} (S : Step θ γ μ σ) (mk : Nat → Nat → σ × Nat) (dflt : List (String × Nat))
    (pk : Pickle (ModelSt θ μ σ)) (r : Recon θ μ σ) (h : r.swf) (pre post : List Call) :
    (fromFile pk (save reconnect pk (runCalls S mk dflt pre r))).map (runCalls S mk dflt post)
      = some (runCalls S mk dflt (pre ++ post) r) :=
  resume_eq_calls (fun c r => (exec S mk dflt c r).1) (save reconnect pk) (fromFile pk) Recon.swf
    (fun r h => roundTrips_checkpoint pk r h.1) (fun c r h => exec_swf S mk dflt c r h) r h pre post

/-- **C05 over call histories, clone** -/
theorem resume_eq_history_clone {θ γ μ σ : Type} (S : Step θ γ μ σ) (mk : Nat → Nat → σ × Nat) (dflt : List (String × Nat))
    (pk : Pickle (ModelSt θ μ σ)) (r : Recon θ μ σ) (h : r.swf) (pre post : List Call) :
    (clone reconnect pk (runCalls S mk dflt pre r)).map (runCalls S mk dflt post)
      = some (runCalls S mk dflt (pre ++ post) r) :=
  resume_eq_calls (fun c r => (exec S mk dflt c r).1) id (clone reconnect pk) Recon.swf
    (fun r h => clone_eq pk r h.1) (fun c r h => exec_swf S mk dflt c r h) r h pre post

/-- the iteration loop of a call is the iterate of theorem 1 -/
theorem exec_plain_eq_iterate {θ γ μ σ : Type} (S : Step θ γ μ σ) (mk : Nat → Nat → σ × Nat) (dflt : List (String × Nat))
    (n : Nat) (r : Recon θ μ σ) : exec S mk dflt { n := n } r = ((iter S)^[n] r, false) := by
  simp [exec, andThen, setConstraints, iterN_eq]

/-! witness for the unrepaired `reset_recon`: SGD with momentum on the object -/

def sessStep : Step Int Int Int Unit where
  loss := fun _ => 0
  grad := fun _ key _ => if key = "object" then some 1 else none
  upd := fun _ _ m x g => (some (m.getD 0 + g), x - (m.getD 0 + g))
  sched := fun s _ lr => (s, lr)

def sessMk : Nat → Nat → Unit × Nat := fun _ lr => ((), lr)

def sessInit : Recon Int Int Unit where
  object := { params := [(0, 0)], opt := none, sched := none, cons := [], init := [0] }
  probe := { params := [(0, 5)], opt := none, sched := none, cons := [], init := [5] }
  dataset := { params := [(0, 7)], opt := none, sched := none, cons := [], init := [7] }
  book := Book.empty
  verbose := 0
  batchSize := 1
  preprocessed := true
  device := "cpu"

/-- run one iteration with an object optimizer; pass an optimizer keyword torch rejects (the configuration stays
stored); `reconstruct(reset=True)` is then rejected half-way -/
def sessPre : List Call :=
  [{ opt := some [("object", ⟨.ok, 0, 1⟩)], n := 1 }, { opt := some [("object", ⟨.badkw, 0, 1⟩)] }, { reset := true }]

/-- **before the repair the property failed on this history**: the rejected reset leaves the object's optimizer on
the discarded tensor (the state is not well-formed), the uninterrupted original no longer trains the object (value 0
after one more iteration) whereas the reloaded one — re-bound by `.to()` — does (value −2), for every `Pickle`;
with the repaired `reset_recon` both give −2 -/
theorem reset_unrepaired_counterexample (pk : Pickle (ModelSt Int Int Unit)) :
    (runCallsUnrepaired sessStep sessMk [] (sessPre ++ [{ n := 1 }]) sessInit).object.params = [(1, 0)] ∧
    ((fromFile pk (save reconnect pk (runCallsUnrepaired sessStep sessMk [] sessPre sessInit))).map
        (runCallsUnrepaired sessStep sessMk [] [{ n := 1 }])).map (fun r => r.object.params) = some [(1, -2)] ∧
    ((runCallsUnrepaired sessStep sessMk [] sessPre sessInit).object.opt.map (·.params)) = some [0] ∧
    (runCalls sessStep sessMk [] (sessPre ++ [{ n := 1 }]) sessInit).object.params = [(1, -2)] := by
  rw [fromFile_save]
  simp only [Option.map_some]
  exact ⟨by decide, by decide, by decide, by decide⟩

/-! ### non-vacuity -/

example : sessInit.swf := by
  refine ⟨⟨?_, ?_, ?_⟩, by simp [sessInit], by simp [sessInit], by simp [sessInit]⟩ <;> intro o ho <;> simp [sessInit] at ho

/-- the rejected calls of `sessPre` are rejected in the model, and the invariant survives them (repaired code) -/
example : (exec sessStep sessMk [] { opt := some [("object", ⟨.badkw, 0, 1⟩)] } sessInit).2 = true := by decide

example (pk : Pickle (ModelSt Int Int Unit)) :
    ((fromFile pk (save reconnect pk (runCalls sessStep sessMk [] sessPre sessInit))).map
        (runCalls sessStep sessMk [] [{ n := 1 }])).map (fun r => r.object.params) = some [(1, -2)] := by
  rw [fromFile_save]
  simp only [Option.map_some]
  decide


example : cexInit.wf := by
  refine ⟨?_, ?_, ?_⟩ <;> intro o ho <;> simp [cexInit] at ho
  subst ho
  exact ⟨rfl, by simp [cexInit], by simp, by simp⟩

/-- the hypotheses of `resume_eq_checkpoint` are satisfiable and its conclusion is not trivial:
on the witness of §5 the repaired re-binding resumes exactly (value −3) -/
example (pk : Pickle (ModelSt Int Int Unit)) :
    ((fromFile pk (save reconnect pk (iter cexStep cexInit))).map (iter cexStep)).map (fun r => r.dataset.params)
      = some [(0, 0), (1, -3)] := by
  rw [fromFile_save]
  simp only [Option.map_some]
  decide

/-- a `Pickle` exists (so the theorems quantifying over it are not vacuous): the unit state -/
example : Pickle Unit := ⟨fun _ => 0, fun _ => some (), fun _ => rfl⟩

/-- `record_iter_spec` on a history with an optimizer added at iteration 2 and removed at 3 -/
example : lookup "probe" (Book.empty.run [.record [("object", 5)] 1, .record [("object", 5), ("probe", 3)] 2,
    .record [("object", 4)] 3]).iterLrs = some [0, 3, 0] := by decide

example : RoundTrips (fun _ : Nat => True) (fun n => n + 1) (fun m => some (m - 1)) := by
  intro r _; simp

end QuantemModel.Props.C05
