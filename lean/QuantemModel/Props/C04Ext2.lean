import QuantemModel.Props.C04Ext
import QuantemModel.Lemmas.DirectPtychoDft
/-!
# C04 — growth round 6: recombination for the whole model with the executable FFT pair

`submask_recombine_full` (growth 5) keeps `hlen` (the inverse transform returns images of the grid's size) as a hypothesis on the
FFT pair; for `Fourier.dft` it is a theorem (`dft_ifft2_length`).  Composed with the half-set split of `Props/C04Ext.lean`:

* `submask_recombine_dft` — `W_A bf_A + W_B bf_B = W_S bf_S` for the three reconstructions computed from (stack, own mask pixels,
  hyper-parameters), any complementary row lists, any schedules — no hypothesis on the FFT pair;
* `halfsets_recombine_full` — the two half-set reconstructions (`_reconstruct_with_halfsets`: split by any pattern, stack rows from
  `_return_bf_context`) recombine to the full-mask reconstruction, whole model.
-/
namespace QuantemModel.Props.C04
open QuantemModel QuantemModel.DirectPtycho

theorem submask_recombine_dft (g : KGeom ℝ) (k : Kernel) (hk : k.twoPass = false)
    (pixAll : List (Nat × Nat)) (stack : List (Img ℝ))
    (A B S : List Nat) (hS : (A ++ B).Perm S) (hA' : ∀ a ∈ A, a < pixAll.length) (hB' : ∀ a ∈ B, a < pixAll.length)
    (hA : bfWeights g (pixOf pixAll A) ≠ 0) (hB : bfWeights g (pixOf pixAll B) ≠ 0) (hW : bfWeights g (pixOf pixAll S) ≠ 0)
    (sA sB sS : List (List Nat))
    (hsA : sA.flatten.Perm (List.range A.length)) (hsB : sB.flatten.Perm (List.range B.length))
    (hsS : sS.flatten.Perm (List.range S.length)) :
    addI (smulI (bfWeights g (pixOf pixAll A))
            (correctedBf ((g.u * g.scanRows) * (g.u * g.scanCols)) (reconstructFull Fourier.dft g k (pixOf pixAll A) A stack sA)))
         (smulI (bfWeights g (pixOf pixAll B))
            (correctedBf ((g.u * g.scanRows) * (g.u * g.scanCols)) (reconstructFull Fourier.dft g k (pixOf pixAll B) B stack sB))) =
      smulI (bfWeights g (pixOf pixAll S))
        (correctedBf ((g.u * g.scanRows) * (g.u * g.scanCols)) (reconstructFull Fourier.dft g k (pixOf pixAll S) S stack sS)) :=
  submask_recombine_full Fourier.dft g k hk pixAll stack (fun _ => dft_ifft2_length _ _ _) A B S hS hA' hB' hA hB hW
    sA sB sS hsA hsB hsS

theorem halfsets_recombine_full (g : KGeom ℝ) (k : Kernel) (hk : k.twoPass = false)
    (pixAll : List (Nat × Nat)) (stack : List (Img ℝ))
    (mask pat : List Bool) (hmp : mask.length = pat.length) (hn : (positions mask).length = pixAll.length)
    (h1 : bfWeights g (pixOf pixAll (indexMapping mask (splitBy mask pat).1)) ≠ 0)
    (h2 : bfWeights g (pixOf pixAll (indexMapping mask (splitBy mask pat).2)) ≠ 0)
    (hW : bfWeights g (pixOf pixAll (List.range (positions mask).length)) ≠ 0)
    (s1 s2 sS : List (List Nat))
    (hs1 : s1.flatten.Perm (List.range (indexMapping mask (splitBy mask pat).1).length))
    (hs2 : s2.flatten.Perm (List.range (indexMapping mask (splitBy mask pat).2).length))
    (hsS : sS.flatten.Perm (List.range (List.range (positions mask).length).length)) :
    addI (smulI (bfWeights g (pixOf pixAll (indexMapping mask (splitBy mask pat).1)))
            (correctedBf ((g.u * g.scanRows) * (g.u * g.scanCols))
              (reconstructFull Fourier.dft g k (pixOf pixAll (indexMapping mask (splitBy mask pat).1))
                (indexMapping mask (splitBy mask pat).1) stack s1)))
         (smulI (bfWeights g (pixOf pixAll (indexMapping mask (splitBy mask pat).2)))
            (correctedBf ((g.u * g.scanRows) * (g.u * g.scanCols))
              (reconstructFull Fourier.dft g k (pixOf pixAll (indexMapping mask (splitBy mask pat).2))
                (indexMapping mask (splitBy mask pat).2) stack s2))) =
      smulI (bfWeights g (pixOf pixAll (List.range (positions mask).length)))
        (correctedBf ((g.u * g.scanRows) * (g.u * g.scanCols))
          (reconstructFull Fourier.dft g k (pixOf pixAll (List.range (positions mask).length))
            (List.range (positions mask).length) stack sS)) :=
  submask_recombine_dft g k hk pixAll stack _ _ _ (split_rows_complementary mask pat hmp)
    (fun a ha => hn ▸ mapping_lt mask _ a ha) (fun a ha => hn ▸ mapping_lt mask _ a ha) h1 h2 hW s1 s2 sS hs1 hs2 hsS

example : (positions [true, true, false, true, false, true]).length = [(0, 0), (0, 1), (1, 0), (1, 2)].length ∧
    [true, true, false, true, false, true].length = (checkerboard 2 3).length := by decide

end QuantemModel.Props.C04
