import QuantemModel.Props.C09
import QuantemModel.Lemmas.BatcherSpec
/-!
C09 — growth round 6: **a whole run is the abstract schedule**.

`Model/BatcherSpec.lean` states in closed form what a `reconstruct` call does to the batch schedule, the generator and the
length of the loss history (no loop, no threaded state).  Here: the loop model of `Model/Batcher.lean` /
`Model/BatcherExt.lean` — with or without an exception from a callee, with or without reset, for every state of the
object — IS that specification, and so is every history of such calls; every epoch of every call of every history visits
each training pattern exactly once, an aborted epoch at most once; and with identical per-pattern errors the recorded
epoch loss is the full-batch loss for EVERY batch size (dividing or not).
Only property theorems and non-vacuity examples live here.
-/
namespace QuantemModel.Props.C09
open QuantemModel QuantemModel.Batcher

section Refinement
variable {P R : Type} [Num R]
variable (draw : Gen → List Nat → List Nat)
variable (stepFn : P → List Nat → P × R) (valFn : P → List Nat → R)

/-- **One call = the specification.**  For every object state, every configuration (reset or not, any number of
iterations, any batch size, ratio, mode), every fault position (none, training batch `j` / validation batch `k` of
iteration `i`, after the record; positions that do not exist) and every generator behaviour and numerical step function:
the batches handed out by `reconstruct`, the generator it leaves, whether it raised and the number of entries appended
to the loss history are those of `specCall` — which knows nothing about parameters, losses or the loop state. -/
theorem reconstruct_call_refines_spec (cfg : RunCfg) (fault : Option Fault) (s : Recon P R) :
    (reconstructF draw stepFn valFn cfg fault s).2.1 = (specCall draw cfg fault s.rng).schedule ∧
    (reconstructF draw stepFn valFn cfg fault s).1.rng.gen = (specCall draw cfg fault s.rng).gen ∧
    (reconstructF draw stepFn valFn cfg fault s).1.rng.rngSeed = s.rng.rngSeed ∧
    (reconstructF draw stepFn valFn cfg fault s).1.iterLosses.length
      = (if cfg.reset then 0 else s.iterLosses.length) + (specCall draw cfg fault s.rng).recorded ∧
    (reconstructF draw stepFn valFn cfg fault s).2.2 = (specCall draw cfg fault s.rng).raised := by
  have hg : (if cfg.reset then resetRecon s else s).rng.gen = specStartGen s.rng cfg.reset := by
    unfold specStartGen; cases cfg.reset <;> simp [resetRecon]
  have hl : (if cfg.reset then resetRecon s else s).iterLosses.length = (if cfg.reset then 0 else s.iterLosses.length) := by
    cases cfg.reset <;> simp [resetRecon]
  have hseed := (reconstructF_preserves draw stepFn valFn cfg fault s).1
  obtain ⟨h1, h2, h3, h4⟩ := iterateF_eq_spec draw stepFn valFn cfg.b
    (makeBatcher draw (if cfg.reset then resetRecon s else s).rng.gen cfg.n cfg.ratio cfg.mode).1 cfg.numIters fault
    { gen := (makeBatcher draw (if cfg.reset then resetRecon s else s).rng.gen cfg.n cfg.ratio cfg.mode).2,
      params := (if cfg.reset then resetRecon s else s).params,
      iterLosses := (if cfg.reset then resetRecon s else s).iterLosses,
      valLosses := (if cfg.reset then resetRecon s else s).valLosses, schedule := [], batchLosses := [] }
  simp only [List.nil_append] at h1
  rw [hl] at h3
  unfold specCall
  rw [← hg]
  exact ⟨h1, h2, hseed, h3, h4⟩

/-- **Every history = the specification.**  After ANY sequence of `reconstruct` calls on one object — completed or
interrupted anywhere, with or without reset, any batch sizes / splits / iteration counts — the RNG state of the object
(stored seed and generator position) is the one `specHistory` computes from the call list alone; hence the schedule of
the NEXT call (again with any fault) is `specCall` on that state: the whole run is the abstract schedule. -/
theorem history_refines_spec (hist : List (RunCfg × Option Fault)) (cfg : RunCfg) (fault : Option Fault) (s0 : Recon P R) :
    (runHistoryF draw stepFn valFn hist s0).rng = specHistory draw hist s0.rng ∧
    (reconstructF draw stepFn valFn cfg fault (runHistoryF draw stepFn valFn hist s0)).2.1
      = (specCall draw cfg fault (specHistory draw hist s0.rng)).schedule ∧
    (reconstructF draw stepFn valFn cfg fault (runHistoryF draw stepFn valFn hist s0)).2.2
      = (specCall draw cfg fault (specHistory draw hist s0.rng)).raised := by
  have hrng : ∀ (hist : List (RunCfg × Option Fault)) (s : Recon P R),
      (runHistoryF draw stepFn valFn hist s).rng = specHistory draw hist s.rng := by
    intro hist
    induction hist with
    | nil => intro s; rfl
    | cons c cs ih =>
      intro s
      unfold runHistoryF specHistory
      rw [List.foldl_cons, List.foldl_cons]
      have h := ih (reconstructF draw stepFn valFn c.1 c.2 s).1
      unfold runHistoryF specHistory at h
      rw [h]
      obtain ⟨_, h2, h3, _, _⟩ := reconstruct_call_refines_spec draw stepFn valFn c.1 c.2 s
      congr 1
      cases hr : (reconstructF draw stepFn valFn c.1 c.2 s).1.rng with
      | mk sd g =>
        rw [hr] at h2 h3
        simp only at h2 h3
        rw [h2, ← h3]
  obtain ⟨h1, _, _, _, h5⟩ := reconstruct_call_refines_spec draw stepFn valFn cfg fault (runHistoryF draw stepFn valFn hist s0)
  rw [hrng hist s0] at h1 h5
  exact ⟨hrng hist s0, h1, h5⟩

end Refinement

/-! ### what the specification says about visits -/

section Visits
variable (draw : Gen → List Nat → List Nat)

/-- every entry of the specified schedule is a prefix of a complete epoch; a call that did not raise has complete epochs only -/
theorem spec_schedule_entries (b : Nat) (sp : Split) (k : Nat) (fault : Option Fault) (g : Gen) :
    ∀ X ∈ (specLoop draw b sp k fault g).schedule, ∃ i m, X = (specEpoch draw b sp.train g i).take m ∧
      ((specLoop draw b sp k fault g).raised = false → X = specEpoch draw b sp.train g i) := by
  have hfull : ∀ k', ∀ X ∈ specEpochs draw b sp.train g k', ∃ i m, X = (specEpoch draw b sp.train g i).take m ∧
      X = specEpoch draw b sp.train g i := by
    intro k' X hX
    unfold specEpochs at hX
    obtain ⟨i, _, hi⟩ := List.mem_map.mp hX
    exact ⟨i, X.length, by rw [hi, List.take_length], hi.symm⟩
  have hdone : ∀ k', ∀ X ∈ specEpochs draw b sp.train g k', ∃ i m, X = (specEpoch draw b sp.train g i).take m ∧
      ((specLoop draw b sp k fault g).raised = false → X = specEpoch draw b sp.train g i) := by
    intro k' X hX
    obtain ⟨i, m, h1, h2⟩ := hfull k' X hX
    exact ⟨i, m, h1, fun _ => h2⟩
  intro X hX
  unfold specLoop at hX
  by_cases hE : sp.train = [] ∧ 0 < k
  · simp only [hE, and_self, if_true, List.mem_singleton] at hX
    refine ⟨0, 0, by rw [hX]; simp, ?_⟩
    intro hr
    unfold specLoop at hr
    simp [hE] at hr
  · simp only [hE, if_false] at hX
    cases fault with
    | none => exact hdone k X hX
    | some f =>
      simp only at hX
      by_cases hi : f.iter < k
      · simp only [hi, if_true] at hX
        cases hk : f.kind with
        | afterRecord => rw [hk] at hX; exact hdone _ X hX
        | val v =>
          rw [hk] at hX
          simp only at hX
          split at hX <;> exact hdone _ X hX
        | train j =>
          rw [hk] at hX
          simp only at hX
          split at hX
          · rename_i hj
            simp only [List.mem_append, List.mem_singleton] at hX
            rcases hX with hX | hX
            · exact hdone _ X hX
            · refine ⟨f.iter, j + 1, hX, ?_⟩
              intro hr
              unfold specLoop at hr
              simp [hE, hi, hk, hj] at hr
          · exact hdone _ X hX
      · simp only [hi, if_false] at hX
        exact hdone k X hX

/-- **In every epoch of every call of every history each training pattern is visited exactly once — and in an epoch that
was aborted, at most once.**  For any sequence of earlier calls (completed or interrupted), any configuration of the
call, any `b ≥ 1`, any fault and any generator that returns permutations: every entry `X` of the call's schedule
satisfies `count i ≤ 1` for the indices `i < n` outside this call's validation set and `count i = 0` for all others
(nothing is visited twice, no validation pattern is trained on), and if the call did not raise every entry has
`count i = 1` on the training set (nothing is lost). -/
theorem every_epoch_of_every_history_visits_once {P R : Type} [Num R]
    (stepFn : P → List Nat → P × R) (valFn : P → List Nat → R)
    (hist : List (RunCfg × Option Fault)) (cfg : RunCfg) (fault : Option Fault) (s0 : Recon P R)
    (hb : 0 < cfg.b) (hdraw : ∀ g l, (draw g l).Perm l) :
    let rs := specHistory draw hist s0.rng
    let sp := (makeBatcher draw (specStartGen rs cfg.reset) cfg.n cfg.ratio cfg.mode).1
    let out := reconstructF draw stepFn valFn cfg fault (runHistoryF draw stepFn valFn hist s0)
    ∀ X ∈ out.2.1, ∀ i,
      X.flatten.count i ≤ (if i < cfg.n ∧ i ∉ sp.val then 1 else 0) ∧
      (out.2.2 = false → X.flatten.count i = if i < cfg.n ∧ i ∉ sp.val then 1 else 0) := by
  intro rs sp out X hX i
  obtain ⟨_, hs, hr⟩ := history_refines_spec draw stepFn valFn hist cfg fault s0
  have hX' : X ∈ (specCall draw cfg fault rs).schedule := by rw [← hs]; exact hX
  have hr' : out.2.2 = (specCall draw cfg fault rs).raised := hr
  unfold specCall at hX' hr'
  obtain ⟨j, m, hpre, hcomplete⟩ := spec_schedule_entries draw cfg.b sp cfg.numIters fault _ X hX'
  obtain ⟨perm, hperm, hsp⟩ := makeBatcher_split draw hdraw (specStartGen rs cfg.reset) cfg.n cfg.ratio cfg.mode
  have hsp' : sp = split cfg.n cfg.ratio cfg.mode perm := hsp
  have hcount : ∀ g, (specEpoch draw cfg.b sp.train g j).flatten.count i
      = if i < cfg.n ∧ i ∉ sp.val then 1 else 0 := by
    intro g
    unfold specEpoch
    rw [hsp']
    exact epoch_covers_complement_of_val cfg.n cfg.ratio cfg.mode perm _ cfg.b hb hperm
      (by rw [← hsp']; exact hdraw _ sp.train) i
  constructor
  · rw [hpre, ← hcount]
    have hsplit : (specEpoch draw cfg.b sp.train
          (makeBatcher draw (specStartGen rs cfg.reset) cfg.n cfg.ratio cfg.mode).2 j).flatten
        = ((specEpoch draw cfg.b sp.train
          (makeBatcher draw (specStartGen rs cfg.reset) cfg.n cfg.ratio cfg.mode).2 j).take m).flatten
          ++ ((specEpoch draw cfg.b sp.train
          (makeBatcher draw (specStartGen rs cfg.reset) cfg.n cfg.ratio cfg.mode).2 j).drop m).flatten := by
      rw [← List.flatten_append, List.take_append_drop]
    rw [hsplit, List.count_append]
    exact Nat.le_add_right _ _
  · intro hnr
    rw [hcomplete (by rw [← hr']; exact hnr), hcount]

end Visits

/-- the specification on a literal: three iterations of three batches interrupted in batch 1 of iteration 1 (one complete
epoch, then two batches handed out, two draws, one loss recorded); the same fault position in a loop of ONE iteration is
never reached; a fault at a batch that does not exist changes nothing; an empty training set -/
example :
    let draw : Gen → List Nat → List Nat := fun g l => if g.pos % 2 = 0 then l.reverse else l
    let sp : Split := { train := [0, 1, 2, 3, 4, 5], val := [6] }
    specLoop draw 2 sp 3 (some { iter := 1, kind := .train 1 }) { seed := 9, pos := 0 }
        = { schedule := [[[5, 4], [3, 2], [1, 0]], [[0, 1], [2, 3]]], gen := { seed := 9, pos := 2 }, recorded := 1, raised := true } ∧
      (specLoop draw 2 sp 1 (some { iter := 1, kind := .train 1 }) { seed := 9, pos := 0 }).raised = false ∧
      specLoop draw 2 sp 2 (some { iter := 0, kind := .train 3 }) { seed := 9, pos := 0 }
        = specLoop draw 2 sp 2 none { seed := 9, pos := 0 } ∧
      specLoop draw 4 sp 2 (some { iter := 1, kind := .val 0 }) { seed := 9, pos := 1 }
        = { schedule := [[[0, 1, 2, 3], [4, 5]], [[5, 4, 3, 2], [1, 0]]], gen := { seed := 9, pos := 3 }, recorded := 1, raised := true } ∧
      specLoop draw 4 { train := [], val := [0] } 2 none { seed := 9, pos := 1 }
        = { schedule := [[]], gen := { seed := 9, pos := 2 }, recorded := 0, raised := true } := by
  decide

/-! ### identical patterns: the epoch loss does not depend on the batch size at all -/

/-- **Identical per-pattern errors ⇒ the recorded epoch loss equals the full-batch loss for EVERY batch size `b ≥ 1`** —
dividing, leaving a remainder of one, equal to or larger than the number of patterns.  (Every batch, also the short last
one, is divided by its own batch fraction, so each batch loss is `c · num_gpts / μ`, and the mean over `len(batcher)`
batches of `len(batcher)` equal numbers is that number.)  This is what makes "reported number of batches = number
yielded" observable in the loss history of a real run with frozen parameters, for non-divisor batch sizes too. -/
theorem epochLoss_identical_patterns_every_batch_size (numGpts : Nat) (mu c : ℝ) (b : Nat) (order : List Nat)
    (hb : 0 < b) (hne : order ≠ []) :
    epochLoss numGpts mu b order (fun _ => c) = batchLoss numGpts mu (order.map (fun _ => c)) := by
  have hone : ∀ B : List Nat, B ≠ [] → batchLoss numGpts mu (B.map (fun _ => c)) = c * (numGpts : ℝ) / mu := by
    intro B hB
    unfold batchLoss
    simp only [NumRealExt.sum_eq, NumReal.div_eq, NumReal.ofNat_eq, List.map_const',
      List.sum_replicate, nsmul_eq_mul, List.length_replicate]
    have hlen : (B.length : ℝ) ≠ 0 := by
      have : 0 < B.length := List.length_pos_iff.mpr hB
      exact_mod_cast this.ne'
    by_cases hN : (numGpts : ℝ) = 0
    · simp [hN]
    · by_cases hmu : mu = 0
      · simp [hmu]
      · field_simp
  rw [hone order hne]
  unfold epochLoss epoch numBatches
  have hmap : (chunks b order).map (fun B => batchLoss numGpts mu (B.map (fun _ => c)))
      = (chunks b order).map (fun _ => c * (numGpts : ℝ) / mu) := by
    apply List.map_congr_left
    intro B hB
    exact hone B (chunks_mem_bounds b hb order B hB).1
  rw [hmap]
  simp only [NumRealExt.sum_eq, NumReal.div_eq, NumReal.ofNat_eq, List.map_const', List.sum_replicate, nsmul_eq_mul,
    chunks_length b hb]
  have hpos : 0 < ceilDiv order.length b := by
    have := ceilDiv_step order.length b hb (List.length_pos_iff.mpr hne)
    omega
  have hm : ((ceilDiv order.length b : ℕ) : ℝ) ≠ 0 := by exact_mod_cast hpos.ne'
  by_cases hmu : mu = 0
  · simp [hmu]
  · field_simp

example : epoch 4 [0, 1, 2, 3, 4] = [[0, 1, 2, 3], [4]] ∧ numBatches 4 [0, 1, 2, 3, 4] = 2 := by decide

end QuantemModel.Props.C09
